(** C18: coverage statistics, no-call probabilities in [0,1], enough-covered probability in [0,1]. *)
From Coq Require Import ZArith QArith Qreduction List Bool Arith Lia Lqa Setoid Morphisms.
From Dadi Require Import Model.LowPass Proofs.LowPassBinom Proofs.LowPassPart Proofs.LowPassQ Proofs.LowPassProb Proofs.LowPassMat.
Import ListNotations.
Local Open Scope Q_scope.

(** what the helpers need from the coverage statistics *)
Record valid_stats (st : cstats) : Prop := {
  vs_c0 : 0 <= st_c0 st; vs_c1 : 0 <= st_c1 st; vs_c01 : st_c0 st + st_c1 st <= 1;
  vs_s : 0 <= st_s st; vs_t : 0 <= st_t st; vs_st : st_s st + st_t st <= 1;
  vs_pos : 0 <= st_pos st; vs_tot : st_c0 st + st_pos st == 1;
  vs_h : 0 <= st_h st <= 1 }.

Lemma deep_stats_valid : valid_stats deep_stats.
Proof. constructor; cbn; try lra. Qed.

(** ** a coverage distribution (non-negative, total one, some mass at depth >= 1) has valid statistics *)
Definition cov_ok (cov : list Q) : Prop := (forall c, In c cov -> 0 <= c) /\ qsum cov == 1 /\ 0 < qsum (tl cov).

Lemma wsum_le (f g : nat -> Q) : forall cov d, (forall c, In c cov -> 0 <= c) -> (forall k, (d <= k)%nat -> f k <= g k) ->
  wsum f d cov <= wsum g d cov.
Proof.
  induction cov as [|c cov IH]; intros d P H; cbn [wsum]; [lra|].
  assert (0 <= c) by (apply P; now left). assert (f d <= g d) by (apply H; lia).
  assert (wsum f (S d) cov <= wsum g (S d) cov) by (apply IH; [intros; apply P; now right | intros; apply H; lia]).
  nra.
Qed.

Lemma wsum_nonneg (f : nat -> Q) : forall cov d, (forall c, In c cov -> 0 <= c) -> (forall k, 0 <= f k) -> 0 <= wsum f d cov.
Proof.
  induction cov as [|c cov IH]; intros d P H; cbn [wsum]; [lra|].
  assert (0 <= c) by (apply P; now left). specialize (H d) as Hd.
  assert (0 <= wsum f (S d) cov) by (apply IH; [intros; apply P; now right | exact H]). nra.
Qed.

Lemma wsum_add (f g : nat -> Q) : forall cov d, wsum (fun k => f k + g k) d cov == wsum f d cov + wsum g d cov.
Proof. induction cov; intros d; cbn [wsum]; [lra|]. rewrite IHcov. ring. Qed.

Lemma wsum_const (a : Q) : forall cov d, wsum (fun _ => a) d cov == a * qsum cov.
Proof. induction cov; intros d; cbn [wsum]; rewrite ?qsum_cons, ?qsum_nil; [ring|]. rewrite IHcov. ring. Qed.

Lemma half_pow_nonneg d : 0 <= qpow half d.
Proof. apply qpow_nonneg. unfold half. discriminate. Qed.

(** (1 + d) 2^-d <= 1 *)
Lemma one_plus_d d : qnat (S d) * qpow half d <= 1.
Proof.
  induction d; [cbn; discriminate|].
  assert (E1 : qnat (S (S d)) == 2 + qnat d) by (rewrite !qnat_S; ring).
  assert (E0 : qnat (S d) == 1 + qnat d) by apply qnat_S.
  rewrite E0 in IHd. rewrite E1, qpow_S.
  pose proof (half_pow_nonneg d) as Hu. pose proof (qnat_nonneg d) as Hm.
  unfold half in *. set (u := qpow (1 # 2) d) in *. set (m := qnat d) in *.
  assert (0 <= m * u) by (apply Qmult_le_0_compat; assumption).
  nra.
Qed.

(** 2^-d <= 1/2 for d >= 1 *)
Lemma half_pow_le d : (1 <= d)%nat -> qpow half d <= half.
Proof.
  destruct d; [lia|]. intros _. rewrite qpow_S.
  assert (qpow half d <= 1) by (apply qpow_le1; unfold half; split; discriminate).
  pose proof (half_pow_nonneg d). unfold half in *. nra.
Qed.

Lemma qsum_map_div (l : list Q) (t : Q) : qsum (map (fun c => c / t) l) == qsum l / t.
Proof. induction l; cbn [map]; rewrite ?qsum_cons, ?qsum_nil; [unfold Qdiv; ring|]. rewrite IHl. unfold Qdiv. ring. Qed.

Theorem stats_of_valid cov : cov_ok cov -> valid_stats (stats_of cov).
Proof.
  intros (P & T & Pos).
  assert (Ptl : forall c, In c (tl cov) -> 0 <= c) by (intros c Hc; apply P; destruct cov; [destruct Hc | now right]).
  assert (C0 : 0 <= nth 0 cov 0) by (destruct cov; cbn; [lra | apply P; now left]).
  assert (C1 : 0 <= nth 1 cov 0) by (destruct cov as [|a [|b l]]; cbn; try lra; apply P; right; now left).
  assert (C01 : nth 0 cov 0 + nth 1 cov 0 <= 1).
  { rewrite <- T. destruct cov as [|a [|b l]]; cbn [nth]; rewrite ?qsum_cons, ?qsum_nil; try lra.
    assert (0 <= qsum l) by (apply qsum_nonneg; intros; apply P; right; now right). lra. }
  assert (Tot : nth 0 cov 0 + qsum (tl cov) == 1).
  { rewrite <- T. destruct cov; cbn [nth tl]; rewrite ?qsum_cons, ?qsum_nil; lra. }
  constructor; cbn [stats_of st_c0 st_c1 st_s st_t st_pos st_h]; rewrite ?Qred_correct; try assumption.
  - apply wsum_nonneg; [exact P | apply half_pow_nonneg].
  - apply wsum_nonneg; [exact P|]. intros k. apply Qmult_le_0_compat; [apply qnat_nonneg | apply half_pow_nonneg].
  - rewrite <- wsum_add. rewrite <- T, <- (Qmult_1_l (qsum cov)), <- (wsum_const 1 cov 0).
    apply wsum_le; [exact P|]. intros k _. pose proof (one_plus_d k). rewrite qnat_S in H. lra.
  - lra.
  - split.
    + apply Qmult_le_0_compat; [lra|]. apply wsum_nonneg; [|apply half_pow_nonneg].
      intros c Hc. apply in_map_iff in Hc. destruct Hc as (x & <- & Hx).
      unfold Qdiv. apply Qmult_le_0_compat; [apply Ptl, Hx | apply Qinv_le_0_compat; lra].
    + assert (N : forall c, In c (map (fun c => c / qsum (tl cov)) (tl cov)) -> 0 <= c).
      { intros c Hc. apply in_map_iff in Hc. destruct Hc as (x & <- & Hx).
        unfold Qdiv. apply Qmult_le_0_compat; [apply Ptl, Hx | apply Qinv_le_0_compat; lra]. }
      pose proof (wsum_le (fun d => qpow half d) (fun _ => half) _ 1%nat N) as B.
      rewrite wsum_const, qsum_map_div in B.
      assert (E : qsum (tl cov) / qsum (tl cov) == 1) by (field; lra). rewrite E in B.
      specialize (B ltac:(intros; apply half_pow_le; lia)).
      assert (Hh : half == 1 # 2) by reflexivity. lra.
Qed.

(** ** no-call probability *)
(** first two terms of the binomial expansion *)
Lemma two_terms a b n : 0 <= a -> 0 <= b -> qpow a (S n) + qnat (S n) * b * qpow a n <= qpow (a + b) (S n).
Proof.
  intros Ha Hb. induction n.
  - cbn [qpow]. change (qnat 1) with 1. lra.
  - rewrite (qpow_S (a + b) (S n)). rewrite (qpow_S a (S n)), (qnat_S (S n)).
    pose proof (qpow_nonneg a (S n) Ha) as P1. pose proof (qpow_nonneg a n Ha) as P0.
    pose proof (qnat_nonneg (S n)) as Pn. rewrite (qpow_S a n) in *.
    set (u := qpow a n) in *. set (m := qnat (S n)) in *. set (w := qpow (a + b) (S n)) in *.
    assert (0 <= m * b * u) by (repeat apply Qmult_le_0_compat; assumption).
    assert (0 <= b * (m * b * u)) by (apply Qmult_le_0_compat; assumption).
    assert (a * (a * u + m * b * u) <= a * w) by nra.
    assert (b * (a * u + m * b * u) <= b * w) by nra.
    nra.
Qed.

Lemma two_le1 a b n : 0 <= a -> 0 <= b -> a + b <= 1 ->
  let X := match n with O => 1 | S k => qpow a (S k) + qnat (S k) * b * qpow a k end in 0 <= X <= 1.
Proof.
  intros Ha Hb Hab. destruct n as [|k]; cbv zeta; [lra|].
  pose proof (two_terms a b k Ha Hb). pose proof (qpow_le1 (a + b) (S k) ltac:(lra)).
  pose proof (qpow_nonneg a (S k) Ha). pose proof (qpow_nonneg a k Ha). pose proof (qnat_nonneg (S k)).
  assert (0 <= qnat (S k) * b * qpow a k) by (repeat apply Qmult_le_0_compat; assumption).
  lra.
Qed.

Theorem nocall_part_unit st pt : valid_stats st -> 0 <= nocall_part st pt <= 1.
Proof.
  intros V. destruct V as [vs_c2 vs_c3 vs_c4 vs_s0 vs_t0 vs_st0 vs_pos0 vs_tot0 vs_h0]. unfold nocall_part. cbv zeta.
  pose proof (two_le1 (st_c0 st) (st_c1 st) (cnt 2 pt) vs_c2 vs_c3 vs_c4) as X1.
  pose proof (two_le1 (st_s st) (st_t st) (cnt 1 pt) vs_s0 vs_t0 vs_st0) as X2.
  destruct (cnt 2 pt) as [|k2]; destruct (cnt 1 pt) as [|k1]; cbv zeta in X1, X2;
    cbn [Nat.ltb Nat.leb qpow_pred Nat.sub]; rewrite ?Nat.sub_0_r.
  - match goal with |- 0 <= ?e <= 1 => assert (E : e == 1) by (change (qnat 0) with 0; cbn [qpow]; ring) end.
    rewrite E. lra.
  - match goal with |- 0 <= ?e <= 1 =>
      assert (E : e == qpow (st_s st) (S k1) + qnat (S k1) * st_t st * qpow (st_s st) k1)
        by (change (qpow (st_c0 st) 0) with 1; ring) end.
    rewrite E. exact X2.
  - match goal with |- 0 <= ?e <= 1 =>
      assert (E : e == qpow (st_c0 st) (S k2) + qnat (S k2) * st_c1 st * qpow (st_c0 st) k2)
        by (change (qpow (st_s st) 0) with 1; change (qnat 0) with 0; ring) end.
    rewrite E. exact X1.
  - pose proof (qpow_nonneg (st_c0 st) (S k2) vs_c2). pose proof (qpow_nonneg (st_c0 st) k2 vs_c2).
    pose proof (qpow_nonneg (st_s st) (S k1) vs_s0). pose proof (qpow_nonneg (st_s st) k1 vs_s0).
    pose proof (qnat_nonneg (S k1)). pose proof (qnat_nonneg (S k2)).
    set (u := qpow (st_c0 st) (S k2)) in *. set (u' := qpow (st_c0 st) k2) in *.
    set (w := qpow (st_s st) (S k1)) in *. set (w' := qpow (st_s st) k1) in *.
    set (m2 := qnat (S k2)) in *. set (m1 := qnat (S k1)) in *.
    assert (V1 : 0 <= m2 * st_c1 st * u') by (repeat apply Qmult_le_0_compat; assumption).
    assert (Z1 : 0 <= m1 * st_t st * w') by (repeat apply Qmult_le_0_compat; assumption).
    set (v := m2 * st_c1 st * u') in *. set (z := m1 * st_t st * w') in *.
    assert (E : u * w + v * w + u * w' * m1 * st_t st == u * w + v * w + u * z) by (unfold z; ring).
    rewrite E. assert (0 <= v * z) by (apply Qmult_le_0_compat; assumption).
    assert (0 <= u * w) by (apply Qmult_le_0_compat; assumption).
    assert (0 <= v * w) by (apply Qmult_le_0_compat; assumption).
    assert (0 <= u * z) by (apply Qmult_le_0_compat; assumption).
    split; [lra|]. assert ((u + v) * (w + z) <= 1) by nra. nra.
Qed.

(** a convex combination of numbers in [0,1] *)
Lemma dot_cons p ps v vs : dot (p :: ps) (v :: vs) = p * v + dot ps vs.
Proof. reflexivity. Qed.

Lemma dot_bounds : forall ps vs, (forall p, In p ps -> 0 <= p) -> (forall v, In v vs -> 0 <= v <= 1) ->
  0 <= dot ps vs <= qsum ps.
Proof.
  induction ps as [|p ps IH]; intros vs Hp Hv.
  - unfold dot. cbn. lra.
  - destruct vs as [|v vs].
    + unfold dot. cbn [combine map]. rewrite qsum_nil, qsum_cons.
      assert (0 <= p) by (apply Hp; now left).
      assert (0 <= qsum ps) by (apply qsum_nonneg; intros; apply Hp; now right). lra.
    + rewrite dot_cons, qsum_cons. assert (0 <= p) by (apply Hp; now left).
      assert (0 <= v <= 1) by (apply Hv; now left).
      destruct (IH vs) as [L U]; [intros; apply Hp; now right | intros; apply Hv; now right |]. nra.
Qed.

Theorem nocall_at_unit st nseq F af : valid_stats st -> (af <= 2 * (nseq / 2))%nat -> F_ok F ->
  0 <= nocall_at st nseq F af <= 1.
Proof.
  intros V Haf HF. unfold nocall_at. cbv zeta. rewrite Qred_correct.
  destruct (dot_bounds (part_probs F (parts nseq af)) (map (nocall_part st) (parts nseq af))) as [L U].
  - apply part_probs_nonneg, HF.
  - intros v Hv. apply in_map_iff in Hv. destruct Hv as (pt & <- & _). apply nocall_part_unit, V.
  - rewrite part_probs_sum_to_one in U by assumption. split; assumption.
Qed.

Theorem nocall_1D_unit st nseq F : valid_stats st -> Nat.even nseq = true -> F_ok F ->
  length (nocall_1D st nseq F) = (nseq + 1)%nat /\ forall e, In e (nocall_1D st nseq F) -> 0 <= e <= 1.
Proof.
  intros V Ev HF. unfold nocall_1D. split; [now rewrite map_length, seq_length|].
  intros e He. apply in_map_iff in He. destruct He as (af & <- & Haf). apply in_seq in Haf.
  apply nocall_at_unit; auto. rewrite even_half by exact Ev. lia.
Qed.

(** ** enough individuals covered *)
Theorem enough_unit st nseq nsub : valid_stats st -> 0 <= enough st nseq nsub <= 1.
Proof.
  intros V. destruct V as [vs_c2 vs_c3 vs_c4 vs_s0 vs_t0 vs_st0 vs_pos0 vs_tot0 vs_h0]. unfold enough. cbv zeta. rewrite Qred_correct.
  set (N := (nseq / 2)%nat). set (lo := ((nsub + 1) / 2 - 1)%nat).
  set (T := fun cv => qpow (st_c0 st) (N - 1 - cv) * qpow (st_pos st) cv * binQ (N - 1) cv).
  assert (TP : forall cv, 0 <= T cv).
  { intros cv. unfold T. repeat apply Qmult_le_0_compat; try apply qpow_nonneg; try assumption. apply binQ_nonneg. }
  split; [apply qsum_map_nonneg; intros; apply TP|].
  destruct (Nat.le_gt_cases N lo) as [H|H].
  - replace (N - lo)%nat with 0%nat by lia. cbn. lra.
  - assert (Full : qsum (map T (seq 0 N)) == 1).
    { replace N with (S (N - 1)) at 1 by lia.
      rewrite (qsum_map_ext T (fun k => qnat (binN (N - 1) k) * qpow (st_pos st) k * qpow (st_c0 st) (N - 1 - k))).
      - rewrite binomial_theorem. setoid_replace (st_pos st + st_c0 st) with 1 by lra. apply qpow_1.
      - intros k _. unfold T. rewrite binQ_binN. ring. }
    replace N with (lo + (N - lo))%nat in Full at 1 by lia. rewrite seq_app, map_app, qsum_app in Full.
    assert (0 <= qsum (map T (seq 0 lo))) by (apply qsum_map_nonneg; intros; apply TP).
    cbn [Nat.add] in Full. lra.
Qed.
