(** C08: the mask-only evaluation [project_mask] (Model/ProjectionCheck.v), used by the correspondence check for
    sample sizes in the hundreds, returns exactly the mask component of the model [project], for every
    dimension, shape, target sizes, folded or not.  (The data only supply the shape.) *)
From Coq Require Import ZArith Reals List Lra Lia Bool Arith.
From Dadi Require Import Base.Num Base.NumR Model.Projection Model.ProjectionCheck Proofs.ProjTensor Proofs.ProjSpectrum.
Import ListNotations.

Local Notation pos := (Forall (fun L => 1 <= L)%nat).

Lemma skipn_cons_nth {T} (e : T) : forall a l h t, skipn a l = h :: t -> nth a l e = h /\ skipn (S a) l = t.
Proof. induction a as [|a IH]; intros l h t E; destruct l as [|y l].
  - discriminate E.
  - cbn in E. injection E as -> ->. split; reflexivity.
  - discriminate E.
  - cbn [skipn] in E. apply IH in E. cbn [nth]. exact E. Qed.

Lemma skipn_map_set_nth {T U} (f : T -> U) v : forall ax l,
  skipn (S ax) (map f (set_nth ax v l)) = skipn (S ax) (map f l).
Proof. induction ax as [|ax IH]; intros l; destruct l as [|y l]; try reflexivity.
  cbn [set_nth map]. cbn [skipn]. apply (IH l). Qed.

Lemma wf_tzip {A B C} d (f : A -> B -> C) : forall sh x y, wf d sh x -> wf d sh y -> wf d sh (tzip d f x y).
Proof. induction d as [|d IH]; intros sh x y Hx Hy; [exact Hx|].
  destruct sh as [|L sh]; [contradiction|]. destruct Hx as [Lx Fx]. destruct Hy as [Ly Fy].
  cbn [tzip]. split.
  - rewrite map_length, combine_length, Lx, Ly. apply Nat.min_id.
  - apply Forall_map, Forall_forall. intros [a b] Hin. cbn [fst snd].
    rewrite Forall_forall in Fx, Fy. apply IH; [apply Fx; eapply in_combine_l; exact Hin | apply Fy; eapply in_combine_r; exact Hin]. Qed.

Lemma sample_sizes_of_wf {B} d sh (x : tens B d) : wf d sh x -> pos sh -> sample_sizes d x = map pred sh.
Proof. intros Hw Hp. unfold sample_sizes. rewrite (wf_tshape d sh x Hw Hp). reflexivity. Qed.

Lemma mask_loop_is_project_loop d : forall ns orig ax sh (x : tens R d) (mk : tens bool d) x' mk',
  wf d sh x -> pos sh -> (ax + length ns <= d)%nat -> orig = skipn ax (map pred sh) ->
  project_loop d ax ns orig x mk = Some (x', mk') -> mask_loop d ax ns orig mk = Some mk'.
Proof. induction ns as [|m ns IH]; intros orig ax sh x mk x' mk' Hw Hp Hax Ho E.
  - cbn in E. injection E as <- <-. reflexivity.
  - cbn [project_loop] in E. cbn [mask_loop]. destruct orig as [|n0 orig]; [discriminate|]. cbn [length] in Hax.
    symmetry in Ho. destruct (skipn_cons_nth 0%nat ax (map pred sh) n0 orig Ho) as [Hn Ho'].
    destruct (m =? n0)%nat.
    + exact (IH orig (S ax) sh x mk x' mk' Hw Hp ltac:(lia) (eq_sym Ho') E).
    + unfold project_one_axis in E. rewrite (sample_sizes_of_wf d sh x Hw Hp), Hn in E.
      destruct (n0 <? m)%nat; [discriminate|].
      pose proof (wf_length d sh x Hw Hp) as Hlen.
      refine (IH orig (S ax) (set_nth ax (m + 1)%nat sh) _ _ x' mk' _ _ _ _ E).
      * apply (wf_proj_axis 0%R Rplus Rc R0); auto. lia.
      * apply set_nth_pos; [lia|assumption].
      * lia.
      * rewrite skipn_map_set_nth. symmetry; exact Ho'. Qed.

Theorem project_mask_is_project d ns folded sh (x : tens R d) (mk : tens bool d) x' mk' :
  wf d sh x -> wf d sh mk -> pos sh ->
  project d ns folded x mk = Some (x', mk') -> project_mask d ns folded mk = Some mk'.
Proof. intros Hw Wm Hp. unfold project, project_mask.
  rewrite (sample_sizes_of_wf d sh x Hw Hp), (sample_sizes_of_wf d sh mk Wm Hp).
  destruct (Nat.eqb_spec (length ns) d) as [Hl|]; [|discriminate]. cbn [negb].
  destruct (existsb _ _); [discriminate|].
  set (x0 := if folded then unfold_data d x else x). set (m0 := if folded then unfold_mask d mk else mk).
  assert (W0 : wf d sh x0).
  { unfold x0. destruct folded; [|exact Hw]. unfold unfold_data. apply wf_tzip; [exact Hw|apply wf_trev; exact Hw]. }
  destruct (project_loop d 0 ns (map pred sh) x0 m0) as [[x1 m1]|] eqn:E; [|discriminate].
  rewrite (mask_loop_is_project_loop d ns (map pred sh) 0%nat sh x0 m0 x1 m1 W0 Hp ltac:(lia) eq_refl E).
  intros E'. destruct folded; injection E' as _ <-; reflexivity. Qed.

(** the reverse direction: whenever the model refuses (None), so does the mask-only evaluation *)
Lemma mask_loop_none d : forall ns orig ax sh (x : tens R d) (mk : tens bool d),
  wf d sh x -> pos sh -> (ax + length ns <= d)%nat -> orig = skipn ax (map pred sh) ->
  project_loop d ax ns orig x mk = None -> mask_loop d ax ns orig mk = None.
Proof. induction ns as [|m ns IH]; intros orig ax sh x mk Hw Hp Hax Ho E.
  - discriminate E.
  - cbn [project_loop] in E. cbn [mask_loop]. destruct orig as [|n0 orig]; [reflexivity|]. cbn [length] in Hax.
    symmetry in Ho. destruct (skipn_cons_nth 0%nat ax (map pred sh) n0 orig Ho) as [Hn Ho'].
    destruct (m =? n0)%nat.
    + exact (IH orig (S ax) sh x mk Hw Hp ltac:(lia) (eq_sym Ho') E).
    + unfold project_one_axis in E. rewrite (sample_sizes_of_wf d sh x Hw Hp), Hn in E.
      destruct (n0 <? m)%nat; [reflexivity|].
      pose proof (wf_length d sh x Hw Hp) as Hlen.
      refine (IH orig (S ax) (set_nth ax (m + 1)%nat sh) (Rproj d ax (pcoef n0 m) m x) _ _ _ _ _ E).
      * apply (wf_proj_axis 0%R Rplus Rc R0); auto. lia.
      * apply set_nth_pos; [lia|assumption].
      * lia.
      * rewrite skipn_map_set_nth. symmetry; exact Ho'. Qed.

Theorem project_mask_refuses_with_project d ns folded sh (x : tens R d) (mk : tens bool d) :
  wf d sh x -> wf d sh mk -> pos sh ->
  project d ns folded x mk = None -> project_mask d ns folded mk = None.
Proof. intros Hw Wm Hp. unfold project, project_mask.
  rewrite (sample_sizes_of_wf d sh x Hw Hp), (sample_sizes_of_wf d sh mk Wm Hp).
  destruct (Nat.eqb_spec (length ns) d) as [Hl|]; [|reflexivity]. cbn [negb].
  destruct (existsb _ _); [reflexivity|].
  set (x0 := if folded then unfold_data d x else x). set (m0 := if folded then unfold_mask d mk else mk).
  assert (W0 : wf d sh x0).
  { unfold x0. destruct folded; [|exact Hw]. unfold unfold_data. apply wf_tzip; [exact Hw|apply wf_trev; exact Hw]. }
  destruct (project_loop d 0 ns (map pred sh) x0 m0) as [[x1 m1]|] eqn:E; [discriminate|].
  rewrite (mask_loop_none d ns (map pred sh) 0%nat sh x0 m0 W0 Hp ltac:(lia) eq_refl E). reflexivity. Qed.
