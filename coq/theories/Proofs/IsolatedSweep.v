(** C04, isolated subsets, sweep level (B, C, E): integrating population r out (trapezoid rule) commutes with the sweep
    of every population k <> r that has no selection and receives no migrants, and is unchanged by r's own sweep,
    at every point of the reduced array except the all-0 and the all-1 corner.  Any dimension, any r, any k. *)
From Coq Require Import Reals List Lra Lia Arith Bool FunctionalExtensionality.
From Dadi Require Import Base.Num Base.NumR Model.Tridiag Model.Scheme Model.NDSweep
  Proofs.TridiagProofs Proofs.SchemeProofs Proofs.SumLemmas Proofs.MassBalance Proofs.Linearity Proofs.NDLines
  Proofs.NDSweepProofs Proofs.NDWeights Proofs.IntegrateLinear Proofs.IntegrateRescale Proofs.FrozenMarginal Proofs.FrozenStep
  Proofs.IsolatedLine.
Import ListNotations.
Local Open Scope R_scope.

(** ** lists with one entry removed / split at an entry *)
Definition dropn {T} (r : nat) (l : list T) : list T := firstn r l ++ skipn (S r) l.

Lemma firstn_app_len {T} (a b : list T) k : length a = k -> firstn k (a ++ b) = a.
Proof. intros <-. rewrite firstn_app, Nat.sub_diag, firstn_all. cbn [firstn]. apply app_nil_r. Qed.
Lemma skipn_app_len {T} (a : list T) x b k : length a = k -> skipn (S k) (a ++ x :: b) = b.
Proof. intros <-. induction a as [|y a IH]; cbn [length app skipn]; [reflexivity|exact IH]. Qed.
Lemma nth_app_len {T} (a : list T) x b k d : length a = k -> nth k (a ++ x :: b) d = x.
Proof. intros <-. apply nth_middle. Qed.
Lemma nth_error_app_len {T} (a : list T) x b k : length a = k -> nth_error (a ++ x :: b) k = Some x.
Proof. intros <-. rewrite nth_error_app2 by lia. rewrite Nat.sub_diag. reflexivity. Qed.
Lemma dropn_app_len {T} (a : list T) x b k : length a = k -> dropn k (a ++ x :: b) = a ++ b.
Proof. intros E. unfold dropn. rewrite firstn_app_len, skipn_app_len by exact E. reflexivity. Qed.
Lemma dropn_length {T} (l : list T) r : (r < length l)%nat -> length (dropn r l) = (length l - 1)%nat.
Proof. intros Hr. unfold dropn. rewrite app_length, firstn_length, skipn_length. lia. Qed.

Lemma split_at {T} (l : list T) k : (k < length l)%nat -> exists a x b, l = a ++ x :: b /\ length a = k.
Proof.
  revert k. induction l as [|y l IH]; intros k Hk; [cbn in Hk; lia|].
  destruct k as [|k]; [exists [], y, l; split; reflexivity|].
  destruct (IH k ltac:(cbn in Hk; lia)) as (a & x & b & -> & Ha). exists (y :: a), x, b. split; [reflexivity|cbn; lia].
Qed.
Lemma split_at2 {T} (l : list T) k r : (k < r)%nat -> (r < length l)%nat ->
  exists a x b y c, l = a ++ x :: b ++ y :: c /\ length a = k /\ length (a ++ x :: b) = r.
Proof.
  intros Hkr Hr. destruct (split_at l k ltac:(lia)) as (a & x & l2 & -> & Ha).
  rewrite app_length in Hr. cbn [length] in Hr.
  destruct (split_at l2 (r - k - 1) ltac:(lia)) as (b & y & c & -> & Hb).
  exists a, x, b, y, c. split; [reflexivity|]. split; [exact Ha|]. rewrite app_length. cbn [length]. lia.
Qed.

Lemma F2_length {T U} (R : T -> U -> Prop) l1 l2 : Forall2 R l1 l2 -> length l1 = length l2.
Proof. induction 1; cbn; congruence. Qed.

Lemma app_mid_assoc {T} (a : list T) x b c : (a ++ x :: b) ++ c = a ++ x :: b ++ c.
Proof. rewrite <- app_assoc. reflexivity. Qed.

(** ** flat index of a concatenated multi-index; coordinates; corner tests *)
Lemma flatidx_app : forall A iA B iB, length iA = length A ->
  flatidx (A ++ B) (iA ++ iB) = (flatidx A iA * prodn B + flatidx B iB)%nat.
Proof.
  induction A as [|n A IH]; intros [|i iA] B iB Hl; try discriminate; [reflexivity|].
  cbn [app flatidx]. rewrite prodn_app, IH by (cbn in Hl; lia). ring.
Qed.
Lemma flatidx_mid A n B iA i iB : length iA = length A ->
  flatidx (A ++ n :: B) (iA ++ i :: iB) = ((flatidx A iA * n + i) * prodn B + flatidx B iB)%nat.
Proof. intros Hl. rewrite flatidx_app by exact Hl. cbn [flatidx]. rewrite prodn_cons. ring. Qed.

Lemma coords_app (GA GB : list (list R)) iA iB : length GA = length iA ->
  coords (GA ++ GB) (iA ++ iB) = coords GA iA ++ coords GB iB.
Proof.
  revert iA. unfold coords. induction GA as [|g GA IH]; intros [|i iA] Hl; try discriminate; [reflexivity|].
  cbn [app combine map]. f_equal. apply IH. cbn in Hl. lia.
Qed.
Lemma coords_mid (GA GB : list (list R)) g iA i iB : length GA = length iA ->
  coords (GA ++ g :: GB) (iA ++ i :: iB) = coords GA iA ++ nthF g i :: coords GB iB.
Proof. intros Hl. rewrite coords_app by exact Hl. reflexivity. Qed.

Lemma all_eq_app (v : R) l1 l2 : all_eq v (l1 ++ l2) = all_eq v l1 && all_eq v l2.
Proof. unfold all_eq. apply forallb_app. Qed.
Lemma all_eq_cons (v : R) y l : all_eq v (y :: l) = Reqb y v && all_eq v l.
Proof. reflexivity. Qed.

(** a point of the array is a corner when all its frequencies are 0, or all are 1 *)
Definition noncorner (G : list (list R)) (ix : list nat) : Prop :=
  all_eq 0 (coords G ix) = false /\ all_eq 1 (coords G ix) = false.

(** two arrays of shape Sh agree everywhere except possibly at the all-0 and the all-1 corner *)
Definition agree_off_corners (Sh : list nat) (G : list (list R)) (X Y : list R) : Prop :=
  length X = prodn Sh /\ length Y = prodn Sh /\
  forall ix, Forall2 lt ix Sh -> noncorner G ix -> nthF X (flatidx Sh ix) = nthF Y (flatidx Sh ix).

Lemma agree_refl Sh G X : length X = prodn Sh -> agree_off_corners Sh G X X.
Proof. intros Hl. repeat split; auto. Qed.
Lemma agree_sym Sh G X Y : agree_off_corners Sh G X Y -> agree_off_corners Sh G Y X.
Proof. intros (H1 & H2 & H3). repeat split; auto. intros ix Hv Hn. symmetry. apply H3; assumption. Qed.
Lemma agree_trans Sh G X Y Z : agree_off_corners Sh G X Y -> agree_off_corners Sh G Y Z -> agree_off_corners Sh G X Z.
Proof.
  intros (H1 & H2 & H3) (H4 & H5 & H6). repeat split; auto. intros ix Hv Hn. rewrite H3, H6 by assumption. reflexivity.
Qed.

(** ** grids that run from 0 to 1 *)
Definition unit_grid (g : list R) (n : nat) : Prop :=
  length g = n /\ (3 <= n)%nat /\ nthF g 0 = 0 /\ nthF g (n - 1) = 1 /\ forall i, (i < n - 1)%nat -> 0 < dx g i.

Lemma unit_grid_mono g n : unit_grid g n -> forall j i, (i < j)%nat -> (j < n)%nat -> nthF g i < nthF g j.
Proof.
  intros (Hl & Hn & H0 & H1 & Hdx). induction j as [|j IH]; intros i Hij Hj; [lia|].
  pose proof (Hdx j ltac:(lia)) as Hd. unfold dx, x in Hd. numR.
  destruct (Nat.eq_dec i j) as [->|Hne]; [lra|]. specialize (IH i ltac:(lia) ltac:(lia)). lra.
Qed.
Lemma unit_grid_zero_only_first g n i : unit_grid g n -> (i < n)%nat -> nthF g i = 0 -> i = 0%nat.
Proof.
  intros Hg Hi E. destruct i as [|i]; [reflexivity|]. pose proof (unit_grid_mono g n Hg (S i) 0%nat ltac:(lia) Hi) as Hm.
  destruct Hg as (_ & _ & H0 & _). lra.
Qed.
Lemma unit_grid_one_only_last g n i : unit_grid g n -> (i < n)%nat -> nthF g i = 1 -> i = (n - 1)%nat.
Proof.
  intros Hg Hi E. destruct (Nat.eq_dec i (n - 1)) as [|Hne]; [assumption|].
  pose proof (unit_grid_mono g n Hg (n - 1)%nat i ltac:(lia) ltac:(lia)) as Hm.
  destruct Hg as (_ & _ & _ & H1 & _). lra.
Qed.

(** ** marginalisation, indexed *)
Lemma marginal_out_length Sh (G : list (list R)) k phi :
  length (marginal_out Sh G k phi) = (ax_outer Sh k * ax_inner Sh k)%nat.
Proof.
  unfold marginal_out. cbv zeta. fold (ax_outer Sh k) (ax_inner Sh k).
  apply flat_map_seq_length. intros o Ho. rewrite map_length, seq_length. reflexivity.
Qed.
Lemma marginal_out_nth Sh (G : list (list R)) k phi o q : (o < ax_outer Sh k)%nat -> (q < ax_inner Sh k)%nat ->
  nthF (marginal_out Sh G k phi) (o * ax_inner Sh k + q) = trapz (nth k G []) (get_line Sh k phi o q).
Proof.
  intros Ho Hq. unfold marginal_out, nthF. cbv zeta. fold (ax_outer Sh k) (ax_len Sh k) (ax_inner Sh k).
  rewrite (nth_flat_map_seq _ n0 (ax_inner Sh k)); [| |exact Ho|exact Hq].
  2:{ intros y Hy. rewrite map_length, seq_length. reflexivity. }
  rewrite nth_map_seq0 by exact Hq. reflexivity.
Qed.
Lemma trapz_map_seq (g : list R) n (h : nat -> R) : length g = n ->
  trapz g (map h (seq 0 n)) = rsum n (fun j => trap_w g j * h j).
Proof.
  intros Hl. unfold trapz. rewrite Hl. fold (rsum n (fun i => trap_w g i * nthF (map h (seq 0 n)) i)).
  apply rsum_ext. intros j Hj. unfold nthF. rewrite nth_map_seq0 by exact Hj. reflexivity.
Qed.

(** ** the array seen through multi-indices split at one axis: Sh = A ++ n :: B, axis k = length A *)
Section MI.
  Variables (A B : list nat) (n : nat) (GA GB : list (list R)) (g : list R).
  Variables (Sh : list nat) (G : list (list R)) (k : nat).
  Hypothesis ES : Sh = A ++ n :: B.
  Hypothesis EG : G = GA ++ g :: GB.
  Hypothesis Ek : length A = k.
  Hypothesis EGA : length GA = k.

  Lemma mi_outer : ax_outer Sh k = prodn A.
  Proof. unfold ax_outer. rewrite ES, firstn_app_len by exact Ek. reflexivity. Qed.
  Lemma mi_len : ax_len Sh k = n.
  Proof. unfold ax_len. rewrite ES. apply nth_app_len. exact Ek. Qed.
  Lemma mi_inner : ax_inner Sh k = prodn B.
  Proof. unfold ax_inner. rewrite ES, skipn_app_len by exact Ek. reflexivity. Qed.
  Lemma mi_grid : nth k G [] = g.
  Proof. rewrite EG. apply nth_app_len. exact EGA. Qed.
  Lemma mi_prodn : prodn Sh = (prodn A * (n * prodn B))%nat.
  Proof. rewrite ES, prodn_app, prodn_cons. reflexivity. Qed.

  Lemma mi_flat iA i iB : Forall2 lt iA A ->
    flatidx Sh (iA ++ i :: iB) = ((flatidx A iA * n + i) * prodn B + flatidx B iB)%nat.
  Proof. intros HA. rewrite ES. apply flatidx_mid. exact (F2_length _ _ _ HA). Qed.

  Lemma mi_valid iA i iB : Forall2 lt iA A -> (i < n)%nat -> Forall2 lt iB B -> Forall2 lt (iA ++ i :: iB) Sh.
  Proof. intros HA Hi HB. rewrite ES. apply Forall2_app; [exact HA|]. constructor; assumption. Qed.

  Lemma mi_line_os iA iB : Forall2 lt iA A -> Forall2 lt iB B ->
    line_os Sh G k (flatidx A iA) (flatidx B iB) = coords GA iA ++ coords GB iB.
  Proof.
    intros HA HB. unfold line_os. rewrite ES, EG.
    rewrite !firstn_app_len, !skipn_app_len by assumption.
    rewrite !unflat_flatidx by assumption. reflexivity.
  Qed.

  Lemma mi_get_line (phi : list R) iA iB : Forall2 lt iA A -> Forall2 lt iB B ->
    get_line Sh k phi (flatidx A iA) (flatidx B iB) = map (fun i' => nthF phi (flatidx Sh (iA ++ i' :: iB))) (seq 0 n).
  Proof.
    intros HA HB. unfold get_line. rewrite mi_len, mi_inner. apply map_ext. intros i'.
    rewrite mi_flat by exact HA. reflexivity.
  Qed.

  Lemma map_lines_mi (f : list R -> list R -> list R) (phi : list R) iA i iB :
    Forall2 lt iA A -> (i < n)%nat -> Forall2 lt iB B ->
    nthF (map_lines Sh G k f phi) (flatidx Sh (iA ++ i :: iB)) =
    nthF (f (coords GA iA ++ coords GB iB) (map (fun i' => nthF phi (flatidx Sh (iA ++ i' :: iB))) (seq 0 n))) i.
  Proof.
    intros HA Hi HB. rewrite mi_flat by exact HA.
    pose proof (map_lines_nth f Sh G k phi (flatidx A iA) i (flatidx B iB)) as E.
    rewrite mi_outer, mi_len, mi_inner in E.
    rewrite E by (try apply flatidx_lt; assumption).
    rewrite mi_line_os, mi_get_line by assumption. reflexivity.
  Qed.

  Lemma sweep_mi pops (p : @pop R) dt dj (phi : list R) iA i iB : nth_error pops k = Some p ->
    Forall2 lt iA A -> (i < n)%nat -> Forall2 lt iB B ->
    nthF (sweep Sh G pops k dt dj phi) (flatidx Sh (iA ++ i :: iB)) =
    nthF (line_solve g (Vfunc_beta (p_nu p) (p_beta p))
                     (Mfunc (p_ms p) (coords GA iA ++ coords GB iB) (p_gamma p) (p_h p)) (p_nu p)
                     (all_eq 0 (coords GA iA ++ coords GB iB)) (all_eq 1 (coords GA iA ++ coords GB iB)) dt dj
                     (map (fun i' => nthF phi (flatidx Sh (iA ++ i' :: iB))) (seq 0 n))) i.
  Proof.
    intros Hp HA Hi HB. unfold sweep. rewrite Hp. rewrite map_lines_mi by assumption.
    unfold sweep_line. rewrite mi_grid. reflexivity.
  Qed.

  Lemma sweep_length_mi pops (p : @pop R) dt dj (phi : list R) : nth_error pops k = Some p ->
    length (sweep Sh G pops k dt dj phi) = prodn Sh.
  Proof. intros Hp. unfold sweep. rewrite Hp, map_lines_length, mi_outer, mi_len, mi_inner, mi_prodn. reflexivity. Qed.

  Lemma marginal_out_length_mi (phi : list R) : length (marginal_out Sh G k phi) = prodn (A ++ B).
  Proof. rewrite marginal_out_length, mi_outer, mi_inner, prodn_app. reflexivity. Qed.

  Lemma marginal_out_mi Sh' (phi : list R) iA iB : Sh' = A ++ B -> length g = n -> Forall2 lt iA A -> Forall2 lt iB B ->
    nthF (marginal_out Sh G k phi) (flatidx Sh' (iA ++ iB)) =
    rsum n (fun j => trap_w g j * nthF phi (flatidx Sh (iA ++ j :: iB))).
  Proof.
    intros -> Hg HA HB. rewrite flatidx_app by exact (F2_length _ _ _ HA).
    pose proof (marginal_out_nth Sh G k phi (flatidx A iA) (flatidx B iB)) as E.
    rewrite mi_outer, mi_inner in E. rewrite E by (apply flatidx_lt; assumption).
    rewrite mi_grid, mi_get_line by assumption. apply trapz_map_seq. exact Hg.
  Qed.
End MI.


Lemma F2_split_mid {T U} (P : T -> U -> Prop) l a y b : Forall2 P l (a ++ y :: b) ->
  exists la x lb, l = la ++ x :: lb /\ Forall2 P la a /\ P x y /\ Forall2 P lb b.
Proof.
  intros H. destruct (Forall2_app_inv_r _ _ H) as (la & l2 & Ha & H2 & ->).
  inversion H2 as [|x y' lb b' Hxy Hb]; subst. exists la, x, lb. repeat split; assumption.
Qed.

(** ** populations without selection and without incoming migration *)
Definition isolated (p : @pop R) : Prop := p_gamma p = 0 /\ Forall (fun m => m = 0) (p_ms p).
(** p' (in the reduced run) is the same isolated population as p (in the full run) *)
Definition iso_pair (p p' : @pop R) : Prop :=
  p_nu p' = p_nu p /\ p_beta p' = p_beta p /\ isolated p /\ isolated p' /\
  p_frozen p' = p_frozen p /\ p_nomut p' = p_nomut p.

Lemma Mfunc_isolated ms os h : Forall (fun m => m = 0) ms -> Mfunc ms os 0 h = (fun _ => 0).
Proof.
  intros Hms. apply functional_extensionality. intros y. unfold Mfunc, Mmig, Msel. numR.
  assert (E : forall os', nsum (map (fun p : R * R => fst p * (snd p - y)) (combine ms os')) = 0).
  { induction Hms as [|m ms' Hm _ IH]; intros os'; [reflexivity|]. destruct os' as [|o os']; [reflexivity|].
    cbn [combine map fst snd]. rewrite nsum_cons, IH, Hm. ring. }
  rewrite E. ring.
Qed.
Lemma Vfunc_beta_at_0 nu beta : Vfunc_beta nu beta 0 = 0.
Proof. unfold Vfunc_beta. numR. unfold Rdiv. ring. Qed.
Lemma Vfunc_beta_at_1 nu beta : Vfunc_beta nu beta 1 = 0.
Proof. unfold Vfunc_beta. numR. unfold Rdiv. ring. Qed.

(** the line-level facts for an isolated population on a grid from 0 to 1 *)
Lemma iso_line_local (g : list R) n nu beta dt dj c0 c1 c0' c1' (phi phi' : list R) i : unit_grid g n -> (i < n)%nat ->
  (forall i', (1 <= i' <= n - 2)%nat -> nthF phi i' = nthF phi' i') ->
  (i = 0%nat -> c0 = c0' /\ nthF phi 0 = nthF phi' 0) ->
  (i = (n - 1)%nat -> c1 = c1' /\ nthF phi (n - 1) = nthF phi' (n - 1)) ->
  nthF (line_solve g (Vfunc_beta nu beta) (fun _ => 0) nu c0 c1 dt dj phi) i =
  nthF (line_solve g (Vfunc_beta nu beta) (fun _ => 0) nu c0' c1' dt dj phi') i.
Proof.
  intros (Hl & Hn & H0 & H1 & Hdx) Hi Hmid Hf Hlast. subst n.
  apply line_solve_local; try assumption; try reflexivity.
  - unfold x. rewrite H0. apply Vfunc_beta_at_0.
  - unfold x. rewrite H1. apply Vfunc_beta_at_1.
Qed.
Lemma iso_line_wsum (g : list R) n nu beta dt dj c0' c1' L w lines c0j c1j i : unit_grid g n -> (i < n)%nat ->
  (forall j, (j < L)%nat -> length (lines j) = n) ->
  (i = 0%nat -> forall j, (j < L)%nat -> c0j j = c0') ->
  (i = (n - 1)%nat -> forall j, (j < L)%nat -> c1j j = c1') ->
  rsum L (fun j => w j * nthF (line_solve g (Vfunc_beta nu beta) (fun _ => 0) nu (c0j j) (c1j j) dt dj (lines j)) i) =
  nthF (line_solve g (Vfunc_beta nu beta) (fun _ => 0) nu c0' c1' dt dj (wsum_lines g L w lines)) i.
Proof.
  intros (Hl & Hn & H0 & H1 & Hdx) Hi Hlen Hf Hlast. subst n.
  apply line_solve_wsum_flags; try assumption; try reflexivity.
  - unfold x. rewrite H0. apply Vfunc_beta_at_0.
  - unfold x. rewrite H1. apply Vfunc_beta_at_1.
Qed.

Lemma Reqb_refl v : Reqb v v = true.
Proof. apply Reqb_true. reflexivity. Qed.

(** no pivot vanishes in any line system of the sweep of axis r with time step dt *)
Definition nonsingular_axis (Sh : list nat) (G : list (list R)) (p : @pop R) (dj : bool) (dt : R) (r : nat) : Prop :=
  forall o q phi, (o < ax_outer Sh r)%nat -> (q < ax_inner Sh r)%nat ->
    nonzero (all_pivots (line_rows (nth r G []) (Vfunc_beta (p_nu p) (p_beta p))
                                   (Mfunc (p_ms p) (line_os Sh G r o q) (p_gamma p) (p_h p)) (p_nu p)
                                   (all_eq n0 (line_os Sh G r o q)) (all_eq n1 (line_os Sh G r o q)) dt dj
                                   (get_line Sh r phi o q))).
Lemma nonsingular_axis_of_nonsingular Sh G pops dj dt r p : nonsingular Sh G pops dj dt -> nth_error pops r = Some p ->
  nonsingular_axis Sh G p dj dt r.
Proof. intros Hns Hp o q phi Ho Hq. apply (Hns r p o q phi Hp Ho Hq). Qed.

(** ** (B) the sweep of the population that is integrated out *)
Section SameAxis.
  Variables (A C : list nat) (nr : nat) (GA GC : list (list R)) (gr : list R).
  Variables (Sh : list nat) (G : list (list R)) (r : nat).
  Hypothesis ES : Sh = A ++ nr :: C.
  Hypothesis EG : G = GA ++ gr :: GC.
  Hypothesis Er : length A = r.
  Hypothesis EGA : length GA = r.
  Hypothesis Hgr : unit_grid gr nr.
  Variable pops : list (@pop R).
  Variable p : @pop R.
  Hypothesis Hp : nth_error pops r = Some p.
  Variable dt : R.
  Hypothesis Hdt : dt <> 0.
  Variable dj : bool.
  Hypothesis Hns : nonsingular_axis Sh G p dj dt r.

  Theorem marginal_sweep_same_axis_mi (phi : list R) :
    agree_off_corners (A ++ C) (GA ++ GC) (marginal_out Sh G r (sweep Sh G pops r dt dj phi)) (marginal_out Sh G r phi).
  Proof.
    pose proof (mi_outer _ _ _ _ _ ES Er) as Eo. pose proof (mi_inner _ _ _ _ _ ES Er) as Ei.
    pose proof (mi_len _ _ _ _ _ ES Er) as El. pose proof (mi_grid _ _ _ _ _ EG EGA) as Eg.
    destruct Hgr as (Hl & Hn & _ & _ & Hdx).
    split; [apply (marginal_out_length_mi _ _ _ _ _ _ ES Er)|]. split; [apply (marginal_out_length_mi _ _ _ _ _ _ ES Er)|].
    intros ix Hv [Hn0 Hn1].
    destruct (Forall2_app_inv_r _ _ Hv) as (iA & iC & HA & HC & ->).
    rewrite coords_app in Hn0, Hn1 by (rewrite EGA, <- Er; symmetry; exact (F2_length _ _ _ HA)).
    rewrite flatidx_app by exact (F2_length _ _ _ HA).
    pose proof (flatidx_lt _ _ HA) as Ho. pose proof (flatidx_lt _ _ HC) as Hq.
    rewrite <- Ei. rewrite !marginal_out_nth by (rewrite ?Eo, ?Ei; assumption).
    assert (Hc0 : corner0 Sh G r (flatidx A iA) (flatidx C iC) = false).
    { unfold corner0. rewrite (mi_line_os _ _ _ _ _ _ _ _ _ ES EG Er EGA) by assumption. exact Hn0. }
    assert (Hc1 : corner1 Sh G r (flatidx A iA) (flatidx C iC) = false).
    { unfold corner1. rewrite (mi_line_os _ _ _ _ _ _ _ _ _ ES EG Er EGA) by assumption. exact Hn1. }
    apply (sweep_preserves_marginal_off_corners Sh G pops r p Hp); try assumption.
    - rewrite Eg, El. exact Hl.
    - rewrite El. lia.
    - rewrite Eg, Hl. exact Hdx.
    - rewrite Eo. exact Ho.
    - rewrite Ei. exact Hq.
    - pose proof (Hns (flatidx A iA) (flatidx C iC) phi ltac:(rewrite Eo; exact Ho) ltac:(rewrite Ei; exact Hq)) as Hpq.
      unfold corner0, corner1 in Hc0, Hc1. rewrite Hc0, Hc1 in Hpq. exact Hpq.
  Qed.
End SameAxis.

(** ** (E) the sweep of an isolated population maps arrays that agree off the corners to arrays that agree off the corners *)
Section SweepRespects.
  Variables (A B : list nat) (n : nat) (GA GB : list (list R)) (g : list R).
  Variables (Sh : list nat) (G : list (list R)) (k : nat).
  Hypothesis ES : Sh = A ++ n :: B.
  Hypothesis EG : G = GA ++ g :: GB.
  Hypothesis Ek : length A = k.
  Hypothesis EGA : length GA = k.
  Hypothesis Hg : unit_grid g n.
  Variable pops : list (@pop R).
  Variable p : @pop R.
  Hypothesis Hp : nth_error pops k = Some p.
  Hypothesis Hiso : isolated p.
  Variable dt : R.
  Variable dj : bool.

  Theorem sweep_respects_agree_mi (X Y : list R) :
    agree_off_corners Sh G X Y -> agree_off_corners Sh G (sweep Sh G pops k dt dj X) (sweep Sh G pops k dt dj Y).
  Proof.
    intros (HX & HY & HXY).
    split; [apply (sweep_length_mi _ _ _ _ _ _ ES Ek _ _ _ _ _ Hp)|]. split; [apply (sweep_length_mi _ _ _ _ _ _ ES Ek _ _ _ _ _ Hp)|].
    intros ix Hv [Hn0 Hn1]. rewrite ES in Hv.
    destruct (F2_split_mid _ _ _ _ _ Hv) as (iA & i & iB & -> & HA & Hi & HB).
    assert (ElA : length GA = length iA) by (rewrite EGA, <- Ek; symmetry; exact (F2_length _ _ _ HA)).
    rewrite EG, coords_mid in Hn0, Hn1 by exact ElA.
    rewrite !(sweep_mi _ _ _ _ _ _ _ _ _ ES EG Ek EGA _ _ _ _ _ _ _ _ Hp HA Hi HB).
    destruct Hiso as [Hga Hms]. rewrite Hga, (Mfunc_isolated _ _ _ Hms).
    apply (iso_line_local g n); [exact Hg | exact Hi | | |].
    - intros i' Hi'. unfold nthF. rewrite !nth_map_seq0 by lia.
      apply HXY; [apply (mi_valid _ _ _ _ ES); try assumption; lia|].
      unfold noncorner. rewrite EG, coords_mid by exact ElA. split; rewrite all_eq_app, all_eq_cons.
      + assert (E : Reqb (nthF g i') 0 = false).
        { apply Reqb_false. intros E0. pose proof (unit_grid_zero_only_first g n i' Hg ltac:(lia) E0). lia. }
        rewrite E. cbn [andb]. apply andb_false_r.
      + assert (E : Reqb (nthF g i') 1 = false).
        { apply Reqb_false. intros E0. pose proof (unit_grid_one_only_last g n i' Hg ltac:(lia) E0). lia. }
        rewrite E. cbn [andb]. apply andb_false_r.
    - intros ->. split; [reflexivity|]. unfold nthF. rewrite !nth_map_seq0 by lia.
      apply HXY; [apply (mi_valid _ _ _ _ ES); assumption|]. unfold noncorner. rewrite EG, coords_mid by exact ElA. split; assumption.
    - intros ->. split; [reflexivity|]. unfold nthF. rewrite !nth_map_seq0 by lia.
      apply HXY; [apply (mi_valid _ _ _ _ ES); assumption|]. unfold noncorner. rewrite EG, coords_mid by exact ElA. split; assumption.
  Qed.
End SweepRespects.

(** corner flags of the full line versus the reduced line *)
Ltac bool_cases :=
  repeat match goal with
  | H : context [all_eq ?v ?l] |- _ => destruct (all_eq v l)
  | |- context [all_eq ?v ?l] => destruct (all_eq v l)
  | H : context [Reqb ?a ?b] |- _ => destruct (Reqb a b)
  | |- context [Reqb ?a ?b] => destruct (Reqb a b)
  end; cbn [andb] in *; try discriminate; try reflexivity.

Lemma flag_insert_lt v (cA cB cC : list R) xk xr : xk = v ->
  all_eq v (cA ++ xk :: cB ++ cC) = false ->
  all_eq v (cA ++ cB ++ xr :: cC) = all_eq v (cA ++ cB ++ cC).
Proof.
  intros -> H. rewrite !all_eq_app, !all_eq_cons, ?all_eq_app in *. rewrite Reqb_refl in H. bool_cases.
Qed.
Lemma flag_insert_gt v (cA cB cC : list R) xk xr : xk = v ->
  all_eq v (cA ++ cB ++ xk :: cC) = false ->
  all_eq v ((cA ++ xr :: cB) ++ cC) = all_eq v ((cA ++ cB) ++ cC).
Proof.
  intros -> H. rewrite !all_eq_app, !all_eq_cons, ?all_eq_app in *. rewrite Reqb_refl in H. bool_cases.
Qed.

(** ** (C) the sweep of an isolated population k commutes with integrating r out; case k before r *)
Section OtherAxisLt.
  Variables (A B C : list nat) (nk nr : nat) (GA GB GC : list (list R)) (gk gr : list R).
  Variables (Sh Sh' : list nat) (G G' : list (list R)) (k r : nat).
  Hypothesis ES : Sh = A ++ nk :: B ++ nr :: C.
  Hypothesis ES' : Sh' = A ++ nk :: B ++ C.
  Hypothesis EG : G = GA ++ gk :: GB ++ gr :: GC.
  Hypothesis EG' : G' = GA ++ gk :: GB ++ GC.
  Hypothesis Ek : length A = k.
  Hypothesis EGA : length GA = k.
  Hypothesis Er : length (A ++ nk :: B) = r.
  Hypothesis EGr : length (GA ++ gk :: GB) = r.
  Hypothesis Hgk : unit_grid gk nk.
  Hypothesis Hgr : length gr = nr.
  Variables pops pops' : list (@pop R).
  Variables p p' : @pop R.
  Hypothesis Hp : nth_error pops k = Some p.
  Hypothesis Hp' : nth_error pops' k = Some p'.
  Hypothesis Hpp : iso_pair p p'.
  Variable dt : R.
  Variable dj : bool.

  Theorem marginal_sweep_other_axis_lt (phi : list R) :
    agree_off_corners Sh' G' (marginal_out Sh G r (sweep Sh G pops k dt dj phi))
                             (sweep Sh' G' pops' k dt dj (marginal_out Sh G r phi)).
  Proof.
    assert (ES1 : Sh = (A ++ nk :: B) ++ nr :: C) by (rewrite app_mid_assoc; exact ES).
    assert (ES1' : Sh' = (A ++ nk :: B) ++ C) by (rewrite app_mid_assoc; exact ES').
    assert (EG1 : G = (GA ++ gk :: GB) ++ gr :: GC) by (rewrite app_mid_assoc; exact EG).
    assert (HlB : length GB = length B).
    { rewrite <- Er in EGr. rewrite !app_length in EGr. cbn [length] in EGr. lia. }
    destruct Hpp as (Hnu & Hbeta & [Hga Hms] & [Hga' Hms'] & _ & _).
    split; [rewrite ES1'; apply (marginal_out_length_mi _ _ _ _ _ _ ES1 Er)|].
    split; [apply (sweep_length_mi _ _ _ _ _ _ ES' Ek _ _ _ _ _ Hp')|].
    intros ix Hv [Hn0 Hn1]. rewrite ES' in Hv.
    destruct (F2_split_mid _ _ _ _ _ Hv) as (iA & i & iBC & -> & HA & Hi & HBC).
    destruct (Forall2_app_inv_r _ _ HBC) as (iB & iC & HB & HC & ->).
    assert (ElA : length GA = length iA) by (rewrite EGA, <- Ek; symmetry; exact (F2_length _ _ _ HA)).
    assert (ElB : length GB = length iB) by (rewrite HlB; symmetry; exact (F2_length _ _ _ HB)).
    rewrite EG', coords_mid, coords_app in Hn0, Hn1 by assumption.
    set (cA := coords GA iA) in *. set (cB := coords GB iB) in *. set (cC := coords GC iC) in *.
    set (V := Vfunc_beta (p_nu p) (p_beta p)).
    set (lines := fun j => map (fun i' => nthF phi (flatidx Sh (iA ++ i' :: iB ++ j :: iC))) (seq 0 nk)).
    set (os := fun j => cA ++ cB ++ nthF gr j :: cC).
    assert (HAB : forall i', (i' < nk)%nat -> Forall2 lt (iA ++ i' :: iB) (A ++ nk :: B)).
    { intros i' Hi'. apply Forall2_app; [exact HA|]. constructor; assumption. }
    transitivity (rsum nr (fun j => trap_w gr j *
        nthF (line_solve gk V (fun _ => 0) (p_nu p) (all_eq 0 (os j)) (all_eq 1 (os j)) dt dj (lines j)) i)).
    { rewrite <- app_mid_assoc.
      rewrite (marginal_out_mi _ _ _ _ _ _ _ _ _ ES1 EG1 Er EGr Sh' _ _ _ ES1' Hgr (HAB i Hi) HC).
      apply rsum_ext. intros j Hj. f_equal. rewrite app_mid_assoc.
      assert (HBjC : Forall2 lt (iB ++ j :: iC) (B ++ nr :: C)) by (apply Forall2_app; [exact HB|]; constructor; assumption).
      rewrite (sweep_mi _ _ _ _ _ _ _ _ _ ES EG Ek EGA _ _ _ _ _ _ _ _ Hp HA Hi HBjC).
      rewrite coords_mid by exact ElB. rewrite Hga, (Mfunc_isolated _ _ _ Hms). reflexivity. }
    transitivity (nthF (line_solve gk V (fun _ => 0) (p_nu p) (all_eq 0 (cA ++ cB ++ cC)) (all_eq 1 (cA ++ cB ++ cC)) dt dj
                                   (wsum_lines gk nr (trap_w gr) lines)) i).
    { apply (iso_line_wsum gk nk); [exact Hgk | exact Hi | | |].
      - intros j Hj. unfold lines. rewrite map_length, seq_length. reflexivity.
      - intros -> j Hj. unfold os. apply flag_insert_lt with (xk := nthF gk 0); [apply Hgk | exact Hn0].
      - intros -> j Hj. unfold os. apply flag_insert_lt with (xk := nthF gk (nk - 1)); [apply Hgk | exact Hn1]. }
    { assert (HBC' : Forall2 lt (iB ++ iC) (B ++ C)) by (apply Forall2_app; assumption).
      rewrite (sweep_mi _ _ _ _ _ _ _ _ _ ES' EG' Ek EGA _ _ _ _ _ _ _ _ Hp' HA Hi HBC').
      rewrite coords_app by exact ElB. fold cA cB cC. rewrite Hga', (Mfunc_isolated _ _ _ Hms'), Hnu, Hbeta. fold V.
      f_equal. f_equal. unfold wsum_lines. destruct Hgk as (-> & _).
      apply map_ext_in. intros i' Hi'. apply in_seq in Hi'. destruct Hi' as [_ Hi']. cbn [plus] in Hi'.
      rewrite <- app_mid_assoc.
      rewrite (marginal_out_mi _ _ _ _ _ _ _ _ _ ES1 EG1 Er EGr Sh' _ _ _ ES1' Hgr (HAB i' Hi') HC).
      apply rsum_ext. intros j Hj. f_equal. unfold lines, nthF. rewrite nth_map_seq0 by exact Hi'.
      rewrite app_mid_assoc. reflexivity. }
  Qed.
End OtherAxisLt.

(** ** (C), case k after r: the swept axis moves one place down in the reduced array *)
Section OtherAxisGt.
  Variables (A B C : list nat) (nk nr : nat) (GA GB GC : list (list R)) (gk gr : list R).
  Variables (Sh Sh' : list nat) (G G' : list (list R)) (k k' r : nat).
  Hypothesis ES : Sh = A ++ nr :: B ++ nk :: C.
  Hypothesis ES' : Sh' = A ++ B ++ nk :: C.
  Hypothesis EG : G = GA ++ gr :: GB ++ gk :: GC.
  Hypothesis EG' : G' = GA ++ GB ++ gk :: GC.
  Hypothesis Er : length A = r.
  Hypothesis EGA : length GA = r.
  Hypothesis Ek : length (A ++ nr :: B) = k.
  Hypothesis EGk : length (GA ++ gr :: GB) = k.
  Hypothesis Ek' : length (A ++ B) = k'.
  Hypothesis Hgk : unit_grid gk nk.
  Hypothesis Hgr : length gr = nr.
  Variables pops pops' : list (@pop R).
  Variables p p' : @pop R.
  Hypothesis Hp : nth_error pops k = Some p.
  Hypothesis Hp' : nth_error pops' k' = Some p'.
  Hypothesis Hpp : iso_pair p p'.
  Variable dt : R.
  Variable dj : bool.

  Theorem marginal_sweep_other_axis_gt (phi : list R) :
    agree_off_corners Sh' G' (marginal_out Sh G r (sweep Sh G pops k dt dj phi))
                             (sweep Sh' G' pops' k' dt dj (marginal_out Sh G r phi)).
  Proof.
    assert (ES2 : Sh = (A ++ nr :: B) ++ nk :: C) by (rewrite app_mid_assoc; exact ES).
    assert (ES2' : Sh' = (A ++ B) ++ nk :: C) by (rewrite <- app_assoc; exact ES').
    assert (EG2 : G = (GA ++ gr :: GB) ++ gk :: GC) by (rewrite app_mid_assoc; exact EG).
    assert (EG2' : G' = (GA ++ GB) ++ gk :: GC) by (rewrite <- app_assoc; exact EG').
    assert (HlB : length GB = length B).
    { rewrite <- Ek in EGk. rewrite !app_length in EGk. cbn [length] in EGk. lia. }
    assert (EGk' : length (GA ++ GB) = k') by (rewrite <- Ek', !app_length; lia).
    destruct Hpp as (Hnu & Hbeta & [Hga Hms] & [Hga' Hms'] & _ & _).
    split; [rewrite ES'; apply (marginal_out_length_mi _ _ _ _ _ _ ES Er)|].
    split; [apply (sweep_length_mi _ _ _ _ _ _ ES2' Ek' _ _ _ _ _ Hp')|].
    intros ix Hv [Hn0 Hn1]. rewrite ES' in Hv.
    destruct (Forall2_app_inv_r _ _ Hv) as (iA & iBC & HA & HBC & ->).
    destruct (F2_split_mid _ _ _ _ _ HBC) as (iB & i & iC & -> & HB & Hi & HC).
    assert (ElA : length GA = length iA) by (rewrite EGA, <- Er; symmetry; exact (F2_length _ _ _ HA)).
    assert (ElB : length GB = length iB) by (rewrite HlB; symmetry; exact (F2_length _ _ _ HB)).
    assert (ElAB : length (GA ++ GB) = length (iA ++ iB)) by (rewrite !app_length; lia).
    rewrite EG', coords_app, coords_mid in Hn0, Hn1 by assumption.
    set (cA := coords GA iA) in *. set (cB := coords GB iB) in *. set (cC := coords GC iC) in *.
    set (V := Vfunc_beta (p_nu p) (p_beta p)).
    set (lines := fun j => map (fun i' => nthF phi (flatidx Sh (iA ++ j :: iB ++ i' :: iC))) (seq 0 nk)).
    set (os := fun j => (cA ++ nthF gr j :: cB) ++ cC).
    assert (HBC' : forall i', (i' < nk)%nat -> Forall2 lt (iB ++ i' :: iC) (B ++ nk :: C)).
    { intros i' Hi'. apply Forall2_app; [exact HB|]. constructor; assumption. }
    transitivity (rsum nr (fun j => trap_w gr j *
        nthF (line_solve gk V (fun _ => 0) (p_nu p) (all_eq 0 (os j)) (all_eq 1 (os j)) dt dj (lines j)) i)).
    { rewrite (marginal_out_mi _ _ _ _ _ _ _ _ _ ES EG Er EGA Sh' _ _ _ ES' Hgr HA (HBC' i Hi)).
      apply rsum_ext. intros j Hj. f_equal. rewrite <- app_mid_assoc.
      assert (HAjB : Forall2 lt (iA ++ j :: iB) (A ++ nr :: B)) by (apply Forall2_app; [exact HA|]; constructor; assumption).
      rewrite (sweep_mi _ _ _ _ _ _ _ _ _ ES2 EG2 Ek EGk _ _ _ _ _ _ _ _ Hp HAjB Hi HC).
      rewrite coords_mid by exact ElA. rewrite Hga, (Mfunc_isolated _ _ _ Hms).
      unfold lines. f_equal. f_equal. apply map_ext. intros i'. rewrite <- app_mid_assoc. reflexivity. }
    transitivity (nthF (line_solve gk V (fun _ => 0) (p_nu p) (all_eq 0 ((cA ++ cB) ++ cC)) (all_eq 1 ((cA ++ cB) ++ cC)) dt dj
                                   (wsum_lines gk nr (trap_w gr) lines)) i).
    { apply (iso_line_wsum gk nk); [exact Hgk | exact Hi | | |].
      - intros j Hj. unfold lines. rewrite map_length, seq_length. reflexivity.
      - intros -> j Hj. unfold os. apply flag_insert_gt with (xk := nthF gk 0); [apply Hgk | exact Hn0].
      - intros -> j Hj. unfold os. apply flag_insert_gt with (xk := nthF gk (nk - 1)); [apply Hgk | exact Hn1]. }
    { assert (HAB : Forall2 lt (iA ++ iB) (A ++ B)) by (apply Forall2_app; assumption).
      rewrite (app_assoc iA iB (i :: iC)).
      rewrite (sweep_mi _ _ _ _ _ _ _ _ _ ES2' EG2' Ek' EGk' _ _ _ _ _ _ _ _ Hp' HAB Hi HC).
      rewrite coords_app by exact ElA. fold cA cB cC. rewrite Hga', (Mfunc_isolated _ _ _ Hms'), Hnu, Hbeta. fold V.
      f_equal. f_equal. unfold wsum_lines. destruct Hgk as (-> & _).
      apply map_ext_in. intros i' Hi'. apply in_seq in Hi'. destruct Hi' as [_ Hi']. cbn [plus] in Hi'.
      rewrite <- (app_assoc iA iB (i' :: iC)).
      rewrite (marginal_out_mi _ _ _ _ _ _ _ _ _ ES EG Er EGA Sh' _ _ _ ES' Hgr HA (HBC' i' Hi')).
      apply rsum_ext. intros j Hj. f_equal. unfold lines, nthF. rewrite nth_map_seq0 by exact Hi'. reflexivity. }
  Qed.
End OtherAxisGt.

(** ** the same three facts for an arbitrary shape, an arbitrary removed axis r and an arbitrary swept axis k *)
(** position of axis k once axis r has been removed *)
Definition red_axis (r k : nat) : nat := if Nat.ltb k r then k else (k - 1)%nat.

Theorem marginal_sweep_same_axis Sh G pops r (p : @pop R) dt dj (phi : list R) :
  Forall2 unit_grid G Sh -> (r < length Sh)%nat -> nth_error pops r = Some p -> dt <> 0 ->
  nonsingular_axis Sh G p dj dt r ->
  agree_off_corners (dropn r Sh) (dropn r G)
    (marginal_out Sh G r (sweep Sh G pops r dt dj phi)) (marginal_out Sh G r phi).
Proof.
  intros HG Hr Hp Hdt Hns.
  destruct (split_at Sh r Hr) as (A & nr & C & ES & Er).
  pose proof HG as HG'. rewrite ES in HG'.
  destruct (F2_split_mid _ _ _ _ _ HG') as (GA & gr & GC & EG & HGA & Hgr & HGC).
  assert (EGA : length GA = r) by (rewrite (F2_length _ _ _ HGA); exact Er).
  assert (ED : dropn r Sh = A ++ C) by (rewrite ES; apply dropn_app_len; exact Er).
  assert (EDG : dropn r G = GA ++ GC) by (rewrite EG; apply dropn_app_len; exact EGA).
  rewrite ED, EDG.
  apply (marginal_sweep_same_axis_mi A C nr GA GC gr Sh G r ES EG Er EGA Hgr pops p Hp dt Hdt dj Hns).
Qed.

Theorem marginal_sweep_other_axis Sh G pops pops' r k (p p' : @pop R) dt dj (phi : list R) :
  Forall2 unit_grid G Sh -> (r < length Sh)%nat -> (k < length Sh)%nat -> k <> r ->
  nth_error pops k = Some p -> nth_error pops' (red_axis r k) = Some p' -> iso_pair p p' ->
  agree_off_corners (dropn r Sh) (dropn r G)
    (marginal_out Sh G r (sweep Sh G pops k dt dj phi))
    (sweep (dropn r Sh) (dropn r G) pops' (red_axis r k) dt dj (marginal_out Sh G r phi)).
Proof.
  intros HG Hr Hk Hkr Hp Hp' Hpp. unfold red_axis in *.
  destruct (Nat.ltb_spec k r) as [Hlt|Hge].
  - destruct (split_at2 Sh k r Hlt Hr) as (A & nk & B & nr & C & ES & Ek & Er).
    pose proof HG as HG'. rewrite ES in HG'.
    destruct (F2_split_mid _ _ _ _ _ HG') as (GA & gk & GBC & EG & HGA & Hgk & HGBC).
    destruct (F2_split_mid _ _ _ _ _ HGBC) as (GB & gr & GC & EG2 & HGB & Hgr & HGC). subst GBC.
    assert (EGA : length GA = k) by (rewrite (F2_length _ _ _ HGA); exact Ek).
    assert (EGr : length (GA ++ gk :: GB) = r).
    { rewrite <- Er, !app_length. cbn [length]. rewrite (F2_length _ _ _ HGA), (F2_length _ _ _ HGB). reflexivity. }
    assert (ED : dropn r Sh = A ++ nk :: B ++ C).
    { rewrite ES, <- (app_mid_assoc A nk B (nr :: C)), dropn_app_len by exact Er. apply app_mid_assoc. }
    assert (EDG : dropn r G = GA ++ gk :: GB ++ GC).
    { rewrite EG, <- (app_mid_assoc GA gk GB (gr :: GC)), dropn_app_len by exact EGr. apply app_mid_assoc. }
    apply (marginal_sweep_other_axis_lt A B C nk nr GA GB GC gk gr Sh _ G _ k r ES ED EG EDG Ek EGA Er EGr Hgk
             (proj1 Hgr) pops pops' p p' Hp Hp' Hpp).
  - assert (Hgt : (r < k)%nat) by lia.
    destruct (split_at2 Sh r k Hgt Hk) as (A & nr & B & nk & C & ES & Er & Ek).
    pose proof HG as HG'. rewrite ES in HG'.
    destruct (F2_split_mid _ _ _ _ _ HG') as (GA & gr & GBC & EG & HGA & Hgr & HGBC).
    destruct (F2_split_mid _ _ _ _ _ HGBC) as (GB & gk & GC & EG2 & HGB & Hgk & HGC). subst GBC.
    assert (EGA : length GA = r) by (rewrite (F2_length _ _ _ HGA); exact Er).
    assert (EGk : length (GA ++ gr :: GB) = k).
    { rewrite <- Ek, !app_length. cbn [length]. rewrite (F2_length _ _ _ HGA), (F2_length _ _ _ HGB). reflexivity. }
    assert (Ek' : length (A ++ B) = (k - 1)%nat).
    { rewrite <- Ek, !app_length. cbn [length]. lia. }
    assert (ED : dropn r Sh = A ++ B ++ nk :: C) by (rewrite ES; apply dropn_app_len; exact Er).
    assert (EDG : dropn r G = GA ++ GB ++ gk :: GC) by (rewrite EG; apply dropn_app_len; exact EGA).
    apply (marginal_sweep_other_axis_gt A B C nk nr GA GB GC gk gr Sh _ G _ k (k - 1)%nat r ES ED EG EDG Er EGA Ek EGk Ek' Hgk
             (proj1 Hgr) pops pops' p p' Hp Hp' Hpp).
Qed.

Theorem sweep_respects_agree Sh G pops k (p : @pop R) dt dj (X Y : list R) :
  Forall2 unit_grid G Sh -> (k < length Sh)%nat -> nth_error pops k = Some p -> isolated p ->
  agree_off_corners Sh G X Y ->
  agree_off_corners Sh G (sweep Sh G pops k dt dj X) (sweep Sh G pops k dt dj Y).
Proof.
  intros HG Hk Hp Hiso.
  destruct (split_at Sh k Hk) as (A & n & B & ES & Ek).
  pose proof HG as HG'. rewrite ES in HG'.
  destruct (F2_split_mid _ _ _ _ _ HG') as (GA & g & GB & EG & HGA & Hg & HGB).
  assert (EGA : length GA = k) by (rewrite (F2_length _ _ _ HGA); exact Ek).
  apply (sweep_respects_agree_mi A B n GA GB g Sh G k ES EG Ek EGA Hg pops p Hp Hiso).
Qed.

(** ** the two excluded points are flat index 0 and the last flat index *)
Lemma unflat_valid : forall Sh j, (j < prodn Sh)%nat -> Forall2 lt (unflat Sh j) Sh.
Proof.
  induction Sh as [|n t IH]; intros j Hj; cbn [unflat]; constructor.
  - rewrite prodn_cons in Hj. assert (HP : prodn t <> 0%nat) by (intros E; rewrite E in Hj; lia).
    apply Nat.div_lt_upper_bound; [exact HP|]. lia.
  - apply IH. rewrite prodn_cons in Hj. apply Nat.mod_upper_bound. intros E; rewrite E in Hj; lia.
Qed.
Lemma flatidx_unflat : forall Sh j, (j < prodn Sh)%nat -> flatidx Sh (unflat Sh j) = j.
Proof.
  induction Sh as [|n t IH]; intros j Hj; cbn [unflat flatidx].
  - cbn in Hj. lia.
  - rewrite prodn_cons in Hj. assert (HP : prodn t <> 0%nat) by (intros E; rewrite E in Hj; lia).
    rewrite IH by (apply Nat.mod_upper_bound; exact HP).
    pose proof (Nat.div_mod j (prodn t) HP). lia.
Qed.

Lemma corner0_only_at_first G Sh : Forall2 unit_grid G Sh -> forall ix, Forall2 lt ix Sh ->
  all_eq 0 (coords G ix) = true -> flatidx Sh ix = 0%nat.
Proof.
  induction 1 as [|g n G' Sh' Hg HG IH]; intros ix Hv Hc; inversion Hv as [|i n' ix' t' Hi Hv']; subst; [reflexivity|].
  change (coords (g :: G') (i :: ix')) with (nthF g i :: coords G' ix') in Hc. rewrite all_eq_cons in Hc.
  apply andb_prop in Hc. destruct Hc as [Hc1 Hc2]. apply Reqb_true in Hc1.
  rewrite (unit_grid_zero_only_first g n i Hg Hi Hc1). cbn [flatidx]. rewrite (IH ix' Hv' Hc2). lia.
Qed.
Lemma corner1_only_at_last G Sh : Forall2 unit_grid G Sh -> forall ix, Forall2 lt ix Sh ->
  all_eq 1 (coords G ix) = true -> flatidx Sh ix = (prodn Sh - 1)%nat.
Proof.
  induction 1 as [|g n G' Sh' Hg HG IH]; intros ix Hv Hc; inversion Hv as [|i n' ix' t' Hi Hv']; subst; [reflexivity|].
  change (coords (g :: G') (i :: ix')) with (nthF g i :: coords G' ix') in Hc. rewrite all_eq_cons in Hc.
  apply andb_prop in Hc. destruct Hc as [Hc1 Hc2]. apply Reqb_true in Hc1.
  rewrite (unit_grid_one_only_last g n i Hg Hi Hc1). cbn [flatidx]. rewrite (IH ix' Hv' Hc2).
  pose proof (flatidx_lt _ _ Hv') as Hlt. rewrite prodn_cons. destruct Hg as (_ & Hn & _). nia.
Qed.

(** agreement off the corners, stated on flat indices: every entry except the first and the last *)
Theorem agree_off_corners_flat Sh G (X Y : list R) : Forall2 unit_grid G Sh -> agree_off_corners Sh G X Y ->
  length X = length Y /\ forall j, (0 < j < prodn Sh - 1)%nat -> nthF X j = nthF Y j.
Proof.
  intros HG (HX & HY & HXY). split; [congruence|]. intros j Hj.
  assert (Hlt : (j < prodn Sh)%nat) by lia.
  rewrite <- (flatidx_unflat Sh j Hlt). apply HXY; [apply unflat_valid; exact Hlt|].
  split.
  - destruct (all_eq 0 (coords G (unflat Sh j))) eqn:E; [|reflexivity].
    pose proof (corner0_only_at_first G Sh HG _ (unflat_valid Sh j Hlt) E) as E0. rewrite flatidx_unflat in E0 by exact Hlt. lia.
  - destruct (all_eq 1 (coords G (unflat Sh j))) eqn:E; [|reflexivity].
    pose proof (corner1_only_at_last G Sh HG _ (unflat_valid Sh j Hlt) E) as E0. rewrite flatidx_unflat in E0 by exact Hlt. lia.
Qed.
