(** C05, basic facts over R: finite sums, [fpow] is the power function, the binomial sampling kernel
    [bker] (Pascal recurrence, sums to one, first and second factorial moments), tails of a probability vector. *)
From Coq Require Import ZArith NArith Reals List Lra Lia Arith.
From Dadi Require Import Base.Num Base.NumR Model.FromPhi Proofs.FromPhiBinom.
Import ListNotations.
Local Open Scope R_scope.

(** ** finite sums *)
Notation rsum := (@nsum R NumR).

Lemma rsum_cons a l : rsum (a :: l) = a + rsum l.
Proof. reflexivity. Qed.
Lemma rsum_app l1 l2 : rsum (l1 ++ l2) = rsum l1 + rsum l2.
Proof. induction l1; cbn [app]; rewrite ?rsum_cons; [cbn; lra | rewrite IHl1; lra]. Qed.
Lemma rsum_map_add {A} (f g : A -> R) l : rsum (map (fun x => f x + g x) l) = rsum (map f l) + rsum (map g l).
Proof. induction l; cbn [map]; rewrite ?rsum_cons; [cbn; lra | rewrite IHl; lra]. Qed.
Lemma rsum_map_sub {A} (f g : A -> R) l : rsum (map (fun x => f x - g x) l) = rsum (map f l) - rsum (map g l).
Proof. induction l; cbn [map]; rewrite ?rsum_cons; [cbn; lra | rewrite IHl; lra]. Qed.
Lemma rsum_map_scal {A} c (f : A -> R) l : rsum (map (fun x => c * f x) l) = c * rsum (map f l).
Proof. induction l; cbn [map]; rewrite ?rsum_cons; [cbn; lra | rewrite IHl; lra]. Qed.
Lemma rsum_map_scal_r {A} c (f : A -> R) l : rsum (map (fun x => f x * c) l) = rsum (map f l) * c.
Proof. induction l; cbn [map]; rewrite ?rsum_cons; [cbn; lra | rewrite IHl; lra]. Qed.
Lemma rsum_map_ext {A} (f g : A -> R) l : (forall x, In x l -> f x = g x) -> rsum (map f l) = rsum (map g l).
Proof. intros E. rewrite (map_ext_in _ _ _ E). reflexivity. Qed.
Lemma rsum_map_0 {A} (f : A -> R) l : (forall x, In x l -> f x = 0) -> rsum (map f l) = 0.
Proof. induction l; intros E; cbn [map]; rewrite ?rsum_cons; [reflexivity|].
  rewrite E by (left; reflexivity). rewrite IHl by (intros; apply E; right; assumption). lra. Qed.
Lemma rsum_swap {A B} (f : A -> B -> R) la lb :
  rsum (map (fun a => rsum (map (fun b => f a b) lb)) la) = rsum (map (fun b => rsum (map (fun a => f a b) la)) lb).
Proof. induction la; cbn [map]; rewrite ?rsum_cons.
  - symmetry. apply rsum_map_0. reflexivity.
  - rewrite IHla, <- rsum_map_add. reflexivity. Qed.
Lemma rsum_seq_S (f : nat -> R) a n : rsum (map f (seq a (S n))) = rsum (map f (seq a n)) + f (a + n)%nat.
Proof. rewrite seq_S, map_app, rsum_app. cbn. lra. Qed.
Lemma rsum_seq_shift (f : nat -> R) a n : rsum (map f (seq (S a) n)) = rsum (map (fun i => f (S i)) (seq a n)).
Proof. rewrite <- seq_shift, map_map. reflexivity. Qed.
Lemma rsum_seq_head (f : nat -> R) a n : rsum (map f (seq a (S n))) = f a + rsum (map (fun i => f (S i)) (seq a n)).
Proof. cbn [seq map]. rewrite rsum_cons, rsum_seq_shift. reflexivity. Qed.
(** a sum whose terms vanish beyond N does not depend on the upper limit *)
Lemma rsum_seq_trunc (f : nat -> R) N K : (N <= K)%nat -> (forall j, (N <= j)%nat -> f j = 0) ->
  rsum (map f (seq 0 K)) = rsum (map f (seq 0 N)).
Proof. intros HK Z. replace K with (N + (K - N))%nat by lia. rewrite seq_app, map_app, rsum_app.
  rewrite (rsum_map_0 f (seq (0 + N) (K - N))); [lra|]. intros j Hj. apply in_seq in Hj. apply Z. lia. Qed.

(** ** powers *)
Lemma pow_pos_pow (x : R) p : pow_pos x p = x ^ Pos.to_nat p.
Proof. induction p; cbn [pow_pos]; numR.
  - rewrite Pos2Nat.inj_xI, IHp. replace (2 * Pos.to_nat p)%nat with (Pos.to_nat p + Pos.to_nat p)%nat by lia.
    rewrite <- tech_pow_Rmult, pow_add. reflexivity.
  - rewrite Pos2Nat.inj_xO, IHp. replace (2 * Pos.to_nat p)%nat with (Pos.to_nat p + Pos.to_nat p)%nat by lia.
    rewrite pow_add. reflexivity.
  - rewrite Pos2Nat.inj_1. lra. Qed.
Lemma fpow_pow (x : R) n : fpow x n = x ^ n.
Proof. unfold fpow. destruct n as [|n]; [reflexivity|].
  cbn [N.of_nat]. rewrite pow_pos_pow, SuccNat2Pos.id_succ. reflexivity. Qed.

Lemma nofnat_INR n : @nofnat R NumR n = INR n.
Proof. unfold nofnat. numR. symmetry. apply INR_IZR_INZ. Qed.

(** ** the binomial kernel, as a function of every index (zero beyond n) *)
Definition B (n j : nat) (x : R) : R := IZR (cZ n j) * x ^ j * (1 - x) ^ (n - j).
Lemma bker_B n j x : bker n j x = B n j x.
Proof. unfold bker, B. rewrite !fpow_pow. reflexivity. Qed.
Lemma B_small n j x : (n < j)%nat -> B n j x = 0.
Proof. intros Hj. unfold B. rewrite cZ_small by assumption. lra. Qed.
Lemma B_0 n x : B n 0 x = (1 - x) ^ n.
Proof. unfold B. rewrite cZ_n0, Nat.sub_0_r. cbn. lra. Qed.
Lemma B_S0 n x : B (S n) 0 x = (1 - x) * B n 0 x.
Proof. rewrite !B_0. reflexivity. Qed.
(** Pascal: b(n+1, j+1) = x b(n, j) + (1-x) b(n, j+1), for every j *)
Lemma B_SS n j x : B (S n) (S j) x = x * B n j x + (1 - x) * B n (S j) x.
Proof. destruct (le_lt_dec (S j) n) as [Hj|Hj].
  - unfold B. rewrite cZ_pascal, plus_IZR.
    replace (S n - S j)%nat with (n - j)%nat by lia.
    replace (n - j)%nat with (S (n - S j)) by lia. cbn [pow]. ring.
  - destruct (Nat.eq_dec j n) as [->|Hn].
    + rewrite (B_small n (S n)) by lia. unfold B. rewrite !cZ_nn, !Nat.sub_diag. cbn [pow]. ring.
    + rewrite !B_small by lia. ring. Qed.

(** sum_j w(j) b(n+1, j) = x sum_j w(j+1) b(n, j) + (1-x) sum_j w(j) b(n, j)  (upper limits past n) *)
Lemma B_step (w : nat -> R) n K x :
  rsum (map (fun j => w j * B (S n) j x) (seq 0 (S K)))
  = x * rsum (map (fun j => w (S j) * B n j x) (seq 0 K)) + (1 - x) * rsum (map (fun j => w j * B n j x) (seq 0 (S K))).
Proof. rewrite !rsum_seq_head, B_S0.
  rewrite (rsum_map_ext (fun i => w (S i) * B (S n) (S i) x)
            (fun i => x * (w (S i) * B n i x) + (1 - x) * (w (S i) * B n (S i) x))).
  2:{ intros; rewrite B_SS; ring. }
  rewrite rsum_map_add, !rsum_map_scal. ring. Qed.

Lemma B_sum1_gen n x : forall K, (n < K)%nat -> rsum (map (fun j => B n j x) (seq 0 K)) = 1.
Proof. induction n; intros K HK.
  - rewrite (rsum_seq_trunc _ 1 K) by (try lia; intros; apply B_small; lia). cbn. unfold B. rewrite cZ_n0. cbn. lra.
  - destruct K as [|K]; [lia|].
    pose proof (B_step (fun _ => 1) n K x) as E.
    rewrite (rsum_map_ext (fun j => B (S n) j x) (fun j => 1 * B (S n) j x)) by (intros; ring).
    rewrite E.
    rewrite (rsum_map_ext (fun j => 1 * B n j x) (fun j => B n j x)) by (intros; ring).
    rewrite (rsum_map_ext (fun j => 1 * B n j x) (fun j => B n j x) (seq 0 (S K))) by (intros; ring).
    rewrite !IHn by lia. ring. Qed.
Lemma B_sum1 n x : rsum (map (fun j => B n j x) (seq 0 (S n))) = 1.
Proof. apply B_sum1_gen. lia. Qed.

Lemma B_mean_gen n x : forall K, (n < K)%nat -> rsum (map (fun j => INR j * B n j x) (seq 0 K)) = INR n * x.
Proof. induction n; intros K HK.
  - rewrite (rsum_seq_trunc _ 1 K) by (try lia; intros; rewrite B_small by lia; ring). cbn. lra.
  - destruct K as [|K]; [lia|]. rewrite B_step.
    rewrite (rsum_map_ext (fun j => INR (S j) * B n j x) (fun j => INR j * B n j x + B n j x)) by (intros; rewrite S_INR; ring).
    rewrite rsum_map_add, !IHn, B_sum1_gen by lia. rewrite S_INR. ring. Qed.

Definition ch2 (j : nat) : R := INR j * (INR j - 1) / 2.
Lemma ch2_S j : ch2 (S j) = ch2 j + INR j.
Proof. unfold ch2. rewrite S_INR. field. Qed.
Lemma B_ch2_gen n x : forall K, (n < K)%nat -> rsum (map (fun j => ch2 j * B n j x) (seq 0 K)) = ch2 n * x * x.
Proof. induction n; intros K HK.
  - rewrite (rsum_seq_trunc _ 1 K) by (try lia; intros; rewrite B_small by lia; ring). cbn. unfold ch2. cbn. lra.
  - destruct K as [|K]; [lia|]. rewrite B_step.
    rewrite (rsum_map_ext (fun j => ch2 (S j) * B n j x) (fun j => ch2 j * B n j x + INR j * B n j x)) by (intros; rewrite ch2_S; ring).
    rewrite rsum_map_add, !IHn, B_mean_gen by lia. rewrite ch2_S. ring. Qed.

(** ** tails of a vector: sum_d tail_{d+1} = sum_j j a_j ;  sum_d (d+1) tail_{d+2} = sum_j C(j,2) a_j *)
Fixpoint wsum (w : nat -> R) (k : nat) (l : list R) : R :=
  match l with [] => 0 | a :: t => w k * a + wsum w (S k) t end.
Lemma wsum_shift w k l : wsum (fun j => w (S j)) k l = wsum w (S k) l.
Proof. revert k; induction l; intros; cbn; [reflexivity | rewrite IHl; reflexivity]. Qed.
Lemma wsum_add w1 w2 k l : wsum (fun j => w1 j + w2 j) k l = wsum w1 k l + wsum w2 k l.
Proof. revert k; induction l; intros; cbn; [lra | rewrite IHl; lra]. Qed.
Lemma wsum_ext w1 w2 k l : (forall j, w1 j = w2 j) -> wsum w1 k l = wsum w2 k l.
Proof. intros E. revert k; induction l; intros; cbn; [reflexivity | rewrite IHl, E; reflexivity]. Qed.
Lemma wsum_one k l : wsum (fun _ => 1) k l = rsum l.
Proof. revert k; induction l; intros; cbn [wsum]; [reflexivity | rewrite rsum_cons, IHl; lra]. Qed.
Lemma wsum_seq w (f : nat -> R) k n : wsum w k (map f (seq k n)) = rsum (map (fun j => w j * f j) (seq k n)).
Proof. revert k; induction n; intros; cbn [seq map wsum]; [reflexivity | rewrite IHn, rsum_cons; reflexivity]. Qed.

Lemma tails1 (l : list R) :
  rsum (map (fun d => rsum (skipn (S d) l)) (seq 0 (length l - 1))) = wsum INR 0 l.
Proof. induction l as [|a t IH]; [reflexivity|].
  cbn [length wsum]. rewrite Nat.sub_succ, Nat.sub_0_r. cbn [INR].
  rewrite (rsum_map_ext (fun d => rsum (skipn (S d) (a :: t))) (fun d => rsum (skipn d t))) by reflexivity.
  rewrite <- wsum_shift.
  rewrite (wsum_ext (fun j => INR (S j)) (fun j => INR j + 1)) by (intros; apply S_INR).
  rewrite wsum_add, wsum_one, <- IH.
  destruct t as [|b t']; [cbn; lra|].
  cbn [length]. rewrite Nat.sub_succ, Nat.sub_0_r, rsum_seq_head. cbn [skipn]. lra. Qed.

Lemma tails2 (l : list R) :
  rsum (map (fun d => INR (S d) * rsum (skipn (S (S d)) l)) (seq 0 (length l - 2))) = wsum ch2 0 l.
Proof. induction l as [|a t IH]; [reflexivity|].
  cbn [length wsum]. replace (S (length t) - 2)%nat with (length t - 1)%nat by lia.
  rewrite (rsum_map_ext (fun d => INR (S d) * rsum (skipn (S (S d)) (a :: t))) (fun d => INR (S d) * rsum (skipn (S d) t))) by reflexivity.
  rewrite <- wsum_shift.
  rewrite (wsum_ext (fun j => ch2 (S j)) (fun j => ch2 j + INR j)) by (intros; apply ch2_S).
  rewrite wsum_add, <- IH, <- tails1.
  replace (ch2 0 * a) with 0 by (unfold ch2; cbn; lra).
  rewrite (rsum_map_ext (fun d => INR (S d) * rsum (skipn (S d) t)) (fun d => INR d * rsum (skipn (S d) t) + rsum (skipn (S d) t)))
    by (intros; rewrite S_INR; ring).
  rewrite rsum_map_add.
  destruct t as [|b t']; [cbn; lra|].
  cbn [length]. rewrite Nat.sub_succ, Nat.sub_0_r.
  destruct t' as [|c t'']; [cbn; lra|].
  cbn [length]. replace (S (S (length t'')) - 2)%nat with (length t'') by lia.
  rewrite rsum_seq_head. cbn [INR]. rewrite Rmult_0_l. lra. Qed.
