(** Proofs about Model/DFE.v on the real-number instance: linearity in theta, selection-free total weight,
    quadrant / mixture weights. *)
From Coq Require Import ZArith Reals List Bool Lra Lia.
From Dadi Require Import Base.Num Base.NumR Model.DFE.
Import ListNotations.
Local Open Scope R_scope.

Ltac dfeR := unfold n2, nhalf in *; numR.

(** ** trapezoid rule *)
Lemma trapz_cons2 (y0 y1 : R) ys x0 x1 xs :
  trapz (y0 :: y1 :: ys) (x0 :: x1 :: xs) = (x1 - x0) * (y1 + y0) / 2 + trapz (y1 :: ys) (x1 :: xs).
Proof. cbn [trapz]. dfeR. reflexivity. Qed.
Lemma trapz_nil_l xs : trapz (@nil R) xs = 0.
Proof. reflexivity. Qed.
Lemma trapz_single_l (y : R) xs : trapz [y] xs = 0.
Proof. reflexivity. Qed.
Lemma trapz_nil_r (ys : list R) : trapz ys [] = 0.
Proof. destruct ys as [|y0 [|y1 t]]; reflexivity. Qed.
Lemma trapz_single_r (ys : list R) x : trapz ys [x] = 0.
Proof. destruct ys as [|y0 [|y1 t]]; reflexivity. Qed.

(** induction principle following the recursion of [trapz] *)
Lemma trapz_ind2 (P : list R -> list R -> Prop) :
  (forall xs, P [] xs) -> (forall y xs, P [y] xs) -> (forall ys, P ys []) -> (forall ys x, P ys [x]) ->
  (forall y0 y1 ys x0 x1 xs, P (y1 :: ys) (x1 :: xs) -> P (y0 :: y1 :: ys) (x0 :: x1 :: xs)) ->
  forall ys xs, P ys xs.
Proof.
  intros H0 H1 H2 H3 Hs ys. induction ys as [|y0 ys IH]; intros xs; [apply H0|].
  destruct ys as [|y1 t]; [apply H1|]. destruct xs as [|x0 [|x1 xt]]; [apply H2|apply H3|].
  apply Hs, IH.
Qed.

Lemma trapz_map_scale (c : R) (g : R -> R) : (forall y, g y = c * y) ->
  forall ys xs, trapz (map g ys) xs = c * trapz ys xs.
Proof.
  intros Hg ys xs. revert ys xs. apply trapz_ind2; intros; cbn [map];
    rewrite ?trapz_nil_l, ?trapz_single_l, ?trapz_nil_r, ?trapz_single_r; try ring.
  rewrite !trapz_cons2. cbn [map] in H. rewrite H, !Hg. field.
Qed.

Lemma trapz_add (ys zs xs : list R) : length ys = length zs ->
  trapz (map (fun p => fst p + snd p) (combine ys zs)) xs = trapz ys xs + trapz zs xs.
Proof.
  revert zs xs. induction ys as [|y0 ys IH]; intros [|z0 zs] xs Hl; try discriminate; cbn [combine map].
  - rewrite !trapz_nil_l; ring.
  - destruct ys as [|y1 ys], zs as [|z1 zs]; try discriminate; cbn [combine map].
    + rewrite !trapz_single_l; ring.
    + destruct xs as [|x0 [|x1 xt]]; rewrite ?trapz_nil_r, ?trapz_single_r; try ring.
      rewrite !trapz_cons2. cbn [fst snd].
      specialize (IH (z1 :: zs) (x1 :: xt) ltac:(cbn in *; lia)). cbn [combine map fst snd] in IH. rewrite IH. field.
Qed.

(** ** list helpers *)
Lemma zipmul_repeat_r (ws : list R) (S : R) n : length ws = n ->
  zipmul ws (repeat S n) = map (fun w => w * S) ws.
Proof.
  revert n; induction ws as [|w ws IH]; intros [|n] Hl; try discriminate; [reflexivity|].
  unfold zipmul in *. cbn [repeat combine map fst snd]. numR. f_equal. apply IH. cbn in Hl; lia.
Qed.
Lemma zipmul_repeat_l (ws : list R) (S : R) n : length ws = n ->
  zipmul (repeat S n) ws = map (fun w => S * w) ws.
Proof.
  revert n; induction ws as [|w ws IH]; intros [|n] Hl; try discriminate; [reflexivity|].
  unfold zipmul in *. cbn [repeat combine map fst snd]. numR. f_equal. apply IH. cbn in Hl; lia.
Qed.
Lemma nth_repeat' {A} (a d : A) n j : (j < n)%nat -> nth j (repeat a n) d = a.
Proof. revert j; induction n; intros [|j] Hj; try lia; cbn; auto. apply IHn; lia. Qed.
Lemma hd_repeat {A} (a d : A) n : (0 < n)%nat -> hd d (repeat a n) = a.
Proof. destruct n; [lia|reflexivity]. Qed.
Lemma nth_map0 (g : R -> R) l j : g 0 = 0 -> nth j (map g l) 0 = g (nth j l 0).
Proof. intros Hg. transitivity (nth j (map g l) (g 0)); [rewrite Hg; reflexivity | apply map_nth]. Qed.
Lemma map_nth_seq {A} (l : list A) d : map (fun j => nth j l d) (seq 0 (length l)) = l.
Proof.
  induction l as [|a l IH]; [reflexivity|]. cbn [length seq map nth]. f_equal.
  rewrite <- seq_shift, map_map. exact IH.
Qed.
Lemma col_repeat (S : R) n m j : (j < n)%nat -> col j (repeat (repeat S n) m) = repeat S m.
Proof.
  intros Hj. unfold col. induction m; [reflexivity|]. cbn [repeat map]. rewrite IHm. f_equal.
  numR. apply nth_repeat'; auto.
Qed.
Lemma col_map_rows (g : R -> R) (W : list (list R)) j : g 0 = 0 -> col j (map (map g) W) = map g (col j W).
Proof. intros Hg. unfold col. rewrite !map_map. apply map_ext. intros r. numR. apply nth_map0; auto. Qed.

(** ** linearity in theta *)
Lemma integrate1d_linear ext (theta : R) xs ws ss neu wneu wdel :
  integrate1d ext theta xs ws ss neu wneu wdel = theta * integrate1d ext 1 xs ws ss neu wneu wdel.
Proof. unfold integrate1d. destruct ext; numR; ring. Qed.

Lemma integrate2d_linear ext sym (theta : R) xs W S t :
  integrate2d ext sym theta xs W S t = theta * integrate2d ext sym 1 xs W S t.
Proof. unfold integrate2d. destruct ext; cbn [negb]; numR; ring. Qed.

Definition oscale (c : R) (o : option R) : option R := option_map (fun x => c * x) o.

Lemma point_pos2d_linear sym (theta : R) rho xs gs W S t p1 g1 p2 g2 sq :
  point_pos2d sym theta rho xs gs W S t p1 g1 p2 g2 sq = oscale theta (point_pos2d sym 1 rho xs gs W S t p1 g1 p2 g2 sq).
Proof.
  unfold point_pos2d, oscale. destruct (pick2 g1 g2 gs) as [[i1 i2]|]; [|reflexivity].
  destruct rho; [|reflexivity]. cbn [option_map]. f_equal. numR. ring.
Qed.

Lemma c1_integrate_linear o c ext (theta : R) params :
  c1_integrate o c ext theta params = theta * c1_integrate o c ext 1 params.
Proof. unfold c1_integrate. apply integrate1d_linear. Qed.
Lemma c2_integrate_linear o c ext (theta : R) params :
  c2_integrate o c ext theta params = theta * c2_integrate o c ext 1 params.
Proof. unfold c2_integrate. apply integrate2d_linear. Qed.

Lemma c2_point_pos_linear o c (theta : R) rho params :
  c2_point_pos o c theta rho params = oscale theta (c2_point_pos o c 1 rho params).
Proof.
  unfold c2_point_pos. destruct (last_k 4 params) as [|p1 [|g1 [|p2 [|g2 [|? ?]]]]]; try reflexivity.
  apply point_pos2d_linear.
Qed.
Lemma c2_sym_point_pos_linear o c (theta : R) params :
  c2_sym_point_pos o c theta params = oscale theta (c2_sym_point_pos o c 1 params).
Proof. unfold c2_sym_point_pos. apply c2_point_pos_linear. Qed.

Lemma mixture_linear o s1 s2 ext (theta : R) params :
  mixture o s1 s2 ext theta params = theta * mixture o s1 s2 ext 1 params.
Proof.
  unfold mixture. rewrite (c1_integrate_linear o s1 ext theta), (c2_integrate_linear o s2 ext theta). numR. ring.
Qed.

Lemma vourlaki_linear (theta : R) s1 s2 w1 wneu1 wdel1 W2 sym t2 w2 wneu2 wdel2 pw gp pc pcp :
  vourlaki theta s1 s2 w1 wneu1 wdel1 W2 sym t2 w2 wneu2 wdel2 pw gp pc pcp
  = oscale theta (vourlaki 1 s1 s2 w1 wneu1 wdel1 W2 sym t2 w2 wneu2 wdel2 pw gp pc pcp).
Proof.
  unfold vourlaki, oscale. destruct (pick2 gp gp (c2_gs s2)) as [[i1 i2]|]; [|reflexivity].
  cbn [option_map]. f_equal. numR. ring.
Qed.

(** *** 1-D point masses: the repaired variant is linear (the cache is left in the same state for every theta) *)
Definition sscale (c : R) (o : option (@pp_state R)) : option (@pp_state R) :=
  option_map (fun st => match st with (gs, sp, r) => (gs, sp, c * r) end) o.

Lemma pp_fold_rep_linear (theta : R) demo pms : forall gs sp r,
  pp_fold true theta demo (gs, sp, theta * r) pms = sscale theta (pp_fold true 1 demo (gs, sp, r) pms).
Proof.
  induction pms as [|[ppos gpos] pms IH]; intros gs sp r; [reflexivity|].
  cbn [pp_fold]. unfold pp_step. destruct (index_of gpos gs) as [i|].
  - numR. replace (theta * r + theta * ppos * nth i sp 0) with (theta * (r + 1 * ppos * nth i sp 0)) by ring.
    apply IH.
  - destruct demo as [f|]; [|reflexivity].
    destruct (index_of gpos (gs ++ [gpos])) as [i|]; [|reflexivity]. numR.
    replace (theta * r + theta * ppos * nth i (sp ++ [f gpos]) 0)
      with (theta * (r + 1 * ppos * nth i (sp ++ [f gpos]) 0)) by ring.
    apply IH.
Qed.

Lemma point_pos1d_rep_linear (theta : R) demo gs sp I pms :
  point_pos1d true theta demo gs sp (theta * I) pms = sscale theta (point_pos1d true 1 demo gs sp I pms).
Proof.
  unfold point_pos1d. numR.
  replace ((1 - nsum (map fst pms)) * (theta * I)) with (theta * ((1 - nsum (map fst pms)) * I)) by ring.
  apply pp_fold_rep_linear.
Qed.

Lemma c1_point_pos_rep_linear o c ext (theta : R) demo npos params :
  c1_point_pos o c true ext theta demo npos params = sscale theta (c1_point_pos o c true ext 1 demo npos params).
Proof.
  unfold c1_point_pos. destruct (pp1_params npos params) as [pdfp pms].
  rewrite (c1_integrate_linear o c ext theta). apply point_pos1d_rep_linear.
Qed.

(** ** selection has no effect: every cached spectrum equals S *)
Lemma selection_free_1d (theta S : R) xs ws wneu wdel n : length ws = n -> (0 < n)%nat ->
  integrate1d true theta xs ws (repeat S n) S wneu wdel = theta * S * total_weight1d xs ws wneu wdel.
Proof.
  intros Hl Hn. unfold integrate1d, total_weight1d.
  rewrite zipmul_repeat_r by exact Hl. rewrite (trapz_map_scale S) by (intros; ring).
  rewrite hd_repeat by exact Hn. numR. ring.
Qed.
Lemma selection_free_1d_interior (theta S : R) xs ws wneu wdel n : length ws = n ->
  integrate1d false theta xs ws (repeat S n) S wneu wdel = theta * S * trapz ws xs.
Proof.
  intros Hl. unfold integrate1d. rewrite zipmul_repeat_r by exact Hl.
  rewrite (trapz_map_scale S) by (intros; ring). numR. ring.
Qed.

Lemma zipmul2_repeat (W : list (list R)) (S : R) n m : length W = m -> Forall (fun r => length r = n) W ->
  zipmul2 W (repeat (repeat S n) m) = map (map (fun w => w * S)) W.
Proof.
  revert m; induction W as [|r W IH]; intros [|m] Hl HF; try discriminate; [reflexivity|].
  inversion HF; subst. unfold zipmul2 in *. cbn [repeat combine map fst snd]. f_equal.
  - apply zipmul_repeat_r; auto.
  - apply IH; auto.
Qed.

Lemma trapz2_scale (W : list (list R)) (S : R) xs :
  trapz2 (map (map (fun w => w * S)) W) xs = S * trapz2 W xs.
Proof.
  unfold trapz2. rewrite <- (trapz_map_scale S (fun y => S * y)) by reflexivity.
  rewrite map_map. f_equal. apply map_ext. intros j.
  rewrite col_map_rows by ring. apply trapz_map_scale. intros; ring.
Qed.

Lemma selection_free_2d (sym : bool) (theta S : R) xs W t n :
  length xs = n -> (0 < n)%nat -> length W = n -> Forall (fun r => length r = n) W ->
  length (q1low t) = n -> length (q1high t) = n -> length (q2low t) = n -> length (q2high t) = n ->
  integrate2d true sym theta xs W (repeat (repeat S n) n) t = theta * S * total_weight2d sym xs W t.
Proof.
  intros Hx Hn HW HF H1 H2 H3 H4. unfold integrate2d, total_weight2d. cbn [negb]. rewrite Hx.
  rewrite (zipmul2_repeat W S n n HW HF), trapz2_scale.
  rewrite !col_repeat by lia.
  rewrite !(nth_repeat' (repeat S n) []) by lia.
  unfold entry. rewrite !(nth_repeat' (repeat S n) []) by lia. numR. rewrite !(nth_repeat' S 0) by lia.
  assert (E : forall q, length q = n -> trapz (zipmul (repeat S n) q) xs = S * trapz q xs).
  { intros q Hq. rewrite zipmul_repeat_l by exact Hq. apply trapz_map_scale. reflexivity. }
  destruct sym; rewrite !E by assumption; ring.
Qed.

(** *** the regions of the rule for a product density u (x) v: neutral masses a1,a2, grid quadratures trapz u, trapz v,
        lethal masses c1,c2.  Eight of the nine tiles are present: the lethal x lethal corner c1*c2 is not. *)
Definition outer (u v : list R) : list (list R) := map (fun ui => map (fun vj => ui * vj) v) u.
Definition product_tails (u v : list R) (a1 c1 a2 c2 : R) : tails2 :=
  {| q1low := map (fun vj => c1 * vj) v; q1high := map (fun vj => a1 * vj) v;
     q2low := map (fun ui => ui * c2) u; q2high := map (fun ui => ui * a2) u;
     c_nn := a1 * a2; c_dn := c1 * a2; c_nd := a1 * c2 |}.

Lemma trapz2_outer (u v xs : list R) : length v = length xs ->
  trapz2 (outer u v) xs = trapz u xs * trapz v xs.
Proof.
  intros Hv. unfold trapz2, outer.
  transitivity (trapz (map (fun vj => trapz u xs * vj) v) xs).
  - f_equal. rewrite <- Hv. rewrite <- (map_nth_seq v 0) at 2. rewrite map_map. apply map_ext. intros j.
    unfold col. rewrite map_map. numR.
    transitivity (trapz (map (fun ui => nth j v 0 * ui) u) xs).
    + f_equal. apply map_ext. intros ui. rewrite (nth_map0 (fun vj => ui * vj)) by ring. ring.
    + rewrite (trapz_map_scale (nth j v 0)) by reflexivity. ring.
  - apply trapz_map_scale. reflexivity.
Qed.

Lemma total_weight_product (u v xs : list R) a1 c1 a2 c2 : length v = length xs ->
  total_weight2d false xs (outer u v) (product_tails u v a1 c1 a2 c2)
  = (trapz u xs + a1 + c1) * (trapz v xs + a2 + c2) - c1 * c2.
Proof.
  intros Hv. unfold total_weight2d, product_tails. cbn [q1low q1high q2low q2high c_nn c_dn c_nd].
  rewrite trapz2_outer by exact Hv.
  rewrite (trapz_map_scale c2 (fun ui => ui * c2)) by (intros; ring).
  rewrite (trapz_map_scale a2 (fun ui => ui * a2)) by (intros; ring).
  rewrite (trapz_map_scale c1 (fun vj => c1 * vj)) by reflexivity.
  rewrite (trapz_map_scale a1 (fun vj => a1 * vj)) by reflexivity.
  numR. ring.
Qed.

(** ** quadrant and mixture weights *)
Lemma quadrant_sum (rho p1 p2 sq : R) :
  p_pos_pos rho p1 p2 sq + p_pos_neg rho p1 p2 + p_neg_pos rho p1 p2 + p_neg_neg rho p1 p2 sq = 1.
Proof. unfold p_pos_pos, p_pos_neg, p_neg_pos, p_neg_neg. numR. ring. Qed.

Lemma quadrant_rho0 (p1 p2 sq : R) :
  p_pos_pos 0 p1 p2 sq = p1 * p2 /\ p_pos_neg 0 p1 p2 = p1 * (1 - p2) /\
  p_neg_pos 0 p1 p2 = (1 - p1) * p2 /\ p_neg_neg 0 p1 p2 sq = (1 - p1) * (1 - p2).
Proof. unfold p_pos_pos, p_pos_neg, p_neg_pos, p_neg_neg. numR. repeat split; ring. Qed.
Lemma quadrant_rho1 (p1 p2 sq : R) :
  p_pos_pos 1 p1 p2 sq = sq /\ p_pos_neg 1 p1 p2 = 0 /\ p_neg_pos 1 p1 p2 = 0 /\ p_neg_neg 1 p1 p2 sq = 1 - sq.
Proof. unfold p_pos_pos, p_pos_neg, p_neg_pos, p_neg_neg. numR. repeat split; ring. Qed.

Lemma mixture_weights o s1 s2 ext (theta : R) params :
  mixture o s1 s2 ext theta params
  = (1 - last params 0) * c1_integrate o s1 ext theta (but_last 2 params)
    + last params 0 * c2_integrate o s2 ext theta (but_last 1 params).
Proof. reflexivity. Qed.

Lemma vourlaki_weights_sum (pw pc pcp : R) :
  (1 - pw) * (1 - pc) + (1 - pw) * pc * (1 - pcp) + (1 - pw) * pc * pcp
  + pw * (1 - pc) + pw * pc * pcp + pw * pc * (1 - pcp) = 1.
Proof. ring. Qed.
