(** * LikelihoodProofs: the C11 theorems about Model/Likelihood.v on the real-number instance.

    [lg] (gammaln) is uninterpreted; [fold] is any function on flat entry lists that commutes with
    multiplication by a scalar (hypothesis [fold_scale]; discharged for the executable instance
    [fold_flat] in LikelihoodFold.v); [remask] is the mask_corners flag of intersect_masks. *)
From Coq Require Import ZArith Reals List Bool Lra Lia.
From Dadi Require Import Base.Num Base.NumR Model.Likelihood Proofs.LikelihoodBasics.
Import ListNotations.
Local Open Scope R_scope.

(** Poisson log-probability of [d] given mean [m], with [lg (d+1)] standing for ln(d!) *)
Definition poisson_ll (lg : R -> R) (m d : R) : R := - m + d * ln m - lg (d + 1).

(** index set of the entries masked in neither spectrum *)
Definition joint_unmasked (a d : list entryR) (i : nat) : bool := negb (maskat a i) && negb (maskat d i).

(** when the re-wrapping in intersect_masks does not lose the corner entries:
    mask_corners=False there, or identical masks (early return), or corners not jointly unmasked anyway *)
Definition corner_ok (remask : bool) (a d : list entryR) : Prop :=
  remask = false \/
  (forall i, (i < length d)%nat -> maskat a i = maskat d i) \/
  (maskat a 0 || maskat d 0 = true /\ maskat a (length d - 1) || maskat d (length d - 1) = true).

Lemma nth_zipw_lt {A B C} (f : A -> B -> C) a b da db dc i :
  length a = length b -> (i < length a)%nat -> nth i (zipw f a b) dc = f (nth i a da) (nth i b db).
Proof. intros L Li. rewrite (nth_indep _ dc (f da db)) by (rewrite zipw_length; auto). apply nth_zipw; auto. Qed.

Lemma ln_div x y : 0 < x -> 0 < y -> ln (x / y) = ln x - ln y.
Proof. intros X Y. unfold Rdiv. rewrite ln_mult by (auto; apply Rinv_0_lt_compat; auto). rewrite ln_Rinv by auto. ring. Qed.

Lemma msum_index (l : list entryR) n J f : length l = n ->
  (forall i, (i < n)%nat -> maskat l i = negb (J i) /\ valat l i = f i) -> msum l = sum_over n J f.
Proof. intros L E. rewrite msum_as_index_sum, L. apply sum_upto_ext. intros i Li.
  destruct (E i Li) as [A B]. rewrite A, B. destruct (J i); reflexivity. Qed.


Section LikR.
  Variable lg : R -> R.

  Definition ll0 (a d : list entryR) : R := msum (zipw (llpb_entry lg) a d).

  (** ** per-entry behaviour of ll_per_bin *)
  Lemma llpb_entry_spec (a d : entryR) :
    em (llpb_entry lg a d) = negb (negb (em a) && negb (em d) && negb (Rleb (ev a) 0)) /\
    ev (llpb_entry lg a d) = poisson_ll lg (ev a) (ev d).
  Proof. destruct a as [av am], d as [dv dm]. unfold llpb_entry, ma_log, poisson_ll, ev, em. cbn [fst snd]. numR.
    split; [destruct am, dm, (Rleb av 0); reflexivity | reflexivity]. Qed.

  Lemma zip_ll_at a d i : length a = length d -> (i < length d)%nat ->
    nth i (zipw (llpb_entry lg) a d) edef = llpb_entry lg (nth i a edef) (nth i d edef).
  Proof. intros L Li. apply nth_zipw_lt; auto. lia. Qed.

  Lemma zip_ll_mask_val a d i : length a = length d -> (i < length d)%nat ->
    maskat (zipw (llpb_entry lg) a d) i
      = negb (negb (maskat a i) && negb (maskat d i) && negb (Rleb (valat a i) 0)) /\
    valat (zipw (llpb_entry lg) a d) i = poisson_ll lg (valat a i) (valat d i).
  Proof. intros L Li. unfold maskat, valat. rewrite zip_ll_at by auto.
    exact (llpb_entry_spec (nth i a edef) (nth i d edef)). Qed.

  (** the index set over which ll sums: masked in neither, and model entry positive (numpy.ma.log) *)
  Definition ll_index_set (a d : list entryR) (J : nat -> bool) : Prop :=
    forall i, (i < length d)%nat ->
      (J i = true <-> maskat a i = false /\ maskat d i = false /\ 0 < valat a i).

  Lemma index_set_mask a d J i : ll_index_set a d J -> (i < length d)%nat ->
    negb (negb (maskat a i) && negb (maskat d i) && negb (Rleb (valat a i) 0)) = negb (J i).
  Proof. intros HJ Li. specialize (HJ i Li). f_equal. destruct (J i).
    - destruct HJ as [[A [B C]] _]; [reflexivity|]. rewrite A, B. apply Rleb_false in C. rewrite C. reflexivity.
    - destruct (maskat a i) eqn:A; [reflexivity|]. destruct (maskat d i) eqn:B; [reflexivity|].
      destruct (Rleb (valat a i) 0) eqn:C; [reflexivity|].
      apply Rleb_false in C. destruct HJ as [_ HJ]. discriminate HJ. auto. Qed.

  Lemma ll_per_bin0_spec a d J i : length a = length d -> ll_index_set a d J -> (i < length d)%nat ->
    maskat (zipw (llpb_entry lg) a d) i = negb (J i) /\
    (J i = true -> valat (zipw (llpb_entry lg) a d) i = poisson_ll lg (valat a i) (valat d i)).
  Proof. intros L HJ Li. destruct (zip_ll_mask_val a d i L Li) as [Em Ev].
    rewrite Em, (index_set_mask a d J i HJ Li). auto. Qed.

  Lemma ll0_spec a d J : length a = length d -> ll_index_set a d J ->
    ll0 a d = sum_over (length d) J (fun i => poisson_ll lg (valat a i) (valat d i)).
  Proof. intros L HJ. unfold ll0. apply msum_index.
    - rewrite zipw_length; auto.
    - intros i Li. destruct (ll_per_bin0_spec a d J i L HJ Li) as [A B]. split; auto.
      destruct (zip_ll_mask_val a d i L Li) as [_ Ev]. exact Ev. Qed.

  (** with positive model entries the index set is exactly "masked in neither" *)
  Definition positive_on_joint (a d : list entryR) : Prop :=
    forall i, (i < length d)%nat -> maskat a i = false -> maskat d i = false -> 0 < valat a i.

  Lemma index_set_of_positive a d J :
    (forall i, (i < length d)%nat -> J i = joint_unmasked a d i) -> positive_on_joint a d -> ll_index_set a d J.
  Proof. intros EJ P i Li. rewrite (EJ i Li). unfold joint_unmasked. specialize (P i Li).
    destruct (maskat a i) eqn:A, (maskat d i) eqn:B; cbn;
      (split; [intros E | intros [X [Y Z]]]); try discriminate; repeat split; auto. Qed.

  Lemma joint_is_ll_index_set a d : positive_on_joint a d -> ll_index_set a d (joint_unmasked a d).
  Proof. intros P. apply index_set_of_positive; auto. Qed.

  Lemma positive_scale a d s : 0 < s -> positive_on_joint a d -> positive_on_joint (scale s a) d.
  Proof. intros S P i Li. rewrite maskat_scale, valat_scale. intros A B. apply Rmult_lt_0_compat; auto. Qed.

  Lemma joint_unmasked_scale a d s i : joint_unmasked (scale s a) d i = joint_unmasked a d i.
  Proof. unfold joint_unmasked. rewrite maskat_scale. reflexivity. Qed.

  Lemma joint_iff a d i : joint_unmasked a d i = true <-> maskat a i = false /\ maskat d i = false.
  Proof. unfold joint_unmasked. destruct (maskat a i), (maskat d i); cbn; intuition discriminate. Qed.

  (** ** the scaling *)
  Variable remask : bool.

  Lemma masks_equal_spec (a d : list entryR) : length a = length d ->
    (masks_equal a d = true <-> forall i, (i < length d)%nat -> maskat a i = maskat d i).
  Proof. intros L. unfold masks_equal. rewrite forallb_forall. split.
    - intros Hf i Li. assert (In (nth i (combine a d) (edef, edef)) (combine a d)) as Hin.
      { apply nth_In. rewrite combine_length. unfold entry in *. rewrite L, Nat.min_id. exact Li. }
      apply Hf in Hin. rewrite combine_nth in Hin by exact L. cbn [fst snd] in Hin.
      apply eqb_prop in Hin. exact Hin.
    - intros Hp p Hin. apply (In_nth _ _ (edef, edef)) in Hin. destruct Hin as [i [Li E]]. subst p.
      rewrite combine_length in Li. unfold entry in *. rewrite L, Nat.min_id in Li. rewrite combine_nth by exact L. cbn [fst snd].
      apply eqb_true_iff. apply Hp. exact Li. Qed.

  Lemma mask_last_length mk : length (mask_last mk) = length mk.
  Proof. induction mk as [|b [|c t] IH]; cbn in *; auto. Qed.
  Lemma mask_last_nth mk i : (i < length mk)%nat ->
    nth i (mask_last mk) true = nth i mk true || (S i =? length mk)%nat.
  Proof. revert i. induction mk as [|b [|c t] IH]; intros i Li.
    - cbn in Li. lia.
    - cbn in Li. assert (i = 0%nat) by lia. subst. cbn. rewrite orb_true_r. reflexivity.
    - change (mask_last (b :: c :: t)) with (b :: mask_last (c :: t)). destruct i as [|j].
      + cbn. rewrite orb_false_r. reflexivity.
      + cbn [nth]. rewrite IH by (cbn in *; lia). reflexivity. Qed.
  Lemma mask_ends_length mk : length (mask_ends mk) = length mk.
  Proof. unfold mask_ends, mask_first. pose proof (mask_last_length mk). destruct (mask_last mk); cbn in *; auto. Qed.
  Lemma mask_ends_nth mk i : (i < length mk)%nat ->
    nth i (mask_ends mk) true = nth i mk true || ((i =? 0)%nat || (S i =? length mk)%nat).
  Proof. intros Li. unfold mask_ends, mask_first. pose proof (mask_last_nth mk i Li) as E.
    pose proof (mask_last_length mk) as EL. destruct (mask_last mk) as [|b t]; [cbn in EL; lia|].
    destruct i as [|j]; cbn [nth Nat.eqb orb] in *.
    - rewrite orb_true_r. reflexivity.
    - rewrite E. reflexivity. Qed.

  Lemma jmask_length (a d : list entryR) : length a = length d -> length (jmask a d) = length d.
  Proof. intros L. unfold jmask. rewrite zipw_length; auto. Qed.
  Lemma jmask_nth (a d : list entryR) i : length a = length d -> (i < length d)%nat ->
    nth i (jmask a d) true = maskat a i || maskat d i.
  Proof. intros L Li. unfold jmask. rewrite (nth_zipw_lt _ a d edef edef) by (auto; lia). reflexivity. Qed.
  Lemma setmask_length (l : list entryR) mk : length l = length mk -> length (setmask l mk) = length l.
  Proof. intros L. unfold setmask. apply zipw_length; auto. Qed.
  Lemma setmask_nth (l : list entryR) mk i : length l = length mk -> (i < length l)%nat ->
    nth i (setmask l mk) edef = (valat l i, maskat l i || nth i mk true).
  Proof. intros L Li. unfold setmask. rewrite (nth_zipw_lt _ l mk edef true) by auto. reflexivity. Qed.

  (** the set of entries over which optimal_sfs_scaling sums, exactly as the code computes it *)
  Definition scaling_index_set (a d : list entryR) (i : nat) : bool :=
    joint_unmasked a d i &&
    negb (remask && negb (masks_equal a d) && ((i =? 0)%nat || (S i =? length d)%nat)).

  Lemma intersect_spec a d : length a = length d ->
    let md := intersect_masks remask a d in
    length (fst md) = length d /\ length (snd md) = length d /\
    forall i, (i < length d)%nat ->
      valat (fst md) i = valat a i /\ valat (snd md) i = valat d i /\
      maskat (fst md) i = negb (scaling_index_set a d i) /\ maskat (snd md) i = negb (scaling_index_set a d i).
  Proof. intros L. unfold intersect_masks, scaling_index_set, joint_unmasked. destruct (masks_equal a d) eqn:ME.
    - cbn [fst snd]. repeat split; auto.
      + rewrite andb_false_r. cbn. rewrite (proj1 (masks_equal_spec a d L) ME i H).
        destruct (maskat d i); reflexivity.
      + rewrite andb_false_r. cbn. rewrite (proj1 (masks_equal_spec a d L) ME i H).
        destruct (maskat d i); reflexivity.
    - set (jm := if remask then mask_ends (jmask a d) else jmask a d).
      assert (Ljm : length jm = length d).
      { unfold jm. destruct remask; [rewrite mask_ends_length|]; apply jmask_length; auto. }
      assert (Njm : forall i, (i < length d)%nat ->
                 nth i jm true = maskat a i || maskat d i || (remask && ((i =? 0)%nat || (S i =? length d)%nat))).
      { intros i Li. unfold jm. destruct remask.
        - rewrite mask_ends_nth by (rewrite jmask_length; auto). rewrite jmask_nth, jmask_length by auto. reflexivity.
        - rewrite jmask_nth by auto. cbn. rewrite orb_false_r. reflexivity. }
      assert (Ljm' : length a = length jm) by (unfold entry in *; lia).
      assert (Ljm'' : length d = length jm) by (unfold entry in *; lia).
      cbn [fst snd]. split; [rewrite setmask_length; auto|]. split; [rewrite setmask_length; auto|].
      intros i Li. unfold valat at 1 3, maskat at 1 4.
      rewrite !setmask_nth by (auto; unfold entry in *; lia). cbn [fst snd]. rewrite (Njm i Li).
      unfold entry in *.
      repeat split; destruct (maskat a i), (maskat d i), remask, ((i =? 0)%nat || (S i =? length d)%nat); reflexivity. Qed.

  Variable fold : list entryR -> list entryR.

  Theorem scaling_exact mf df m d :
    let m' := auto_fold fold mf df m in
    length m' = length d ->
    optimal_sfs_scaling fold remask mf df m d =
      sum_over (length d) (scaling_index_set m' d) (valat d) / sum_over (length d) (scaling_index_set m' d) (valat m').
  Proof. intros m' L. unfold optimal_sfs_scaling. fold m'.
    destruct (intersect_spec m' d L) as [L1 [L2 E]]. numR.
    rewrite (msum_index _ (length d) (scaling_index_set m' d) (valat d)); auto.
    rewrite (msum_index _ (length d) (scaling_index_set m' d) (valat m')); auto.
    - intros i Li. destruct (E i Li) as [A [B [C D]]]. auto.
    - intros i Li. destruct (E i Li) as [A [B [C D]]]. auto. Qed.

  Lemma scaling_set_is_joint a d : length a = length d -> corner_ok remask a d ->
    forall i, (i < length d)%nat -> scaling_index_set a d i = joint_unmasked a d i.
  Proof. intros L CO i Li. unfold scaling_index_set. destruct CO as [R | [ME | [C0 C1]]].
    - rewrite R. cbn. apply andb_true_r.
    - rewrite (proj2 (masks_equal_spec a d L) ME). cbn. rewrite andb_false_r. apply andb_true_r.
    - destruct ((i =? 0)%nat || (S i =? length d)%nat) eqn:C.
      + assert (joint_unmasked a d i = false) as ->; [|reflexivity]. unfold joint_unmasked.
        apply orb_true_iff in C. destruct C as [C | C].
        * apply Nat.eqb_eq in C. subst i. destruct (maskat a 0), (maskat d 0); auto; discriminate.
        * apply Nat.eqb_eq in C. replace (length d - 1)%nat with i in C1 by lia.
          destruct (maskat a i), (maskat d i); auto; discriminate.
      + rewrite andb_false_r. apply andb_true_r. Qed.

  (** THEOREM scaling_is_ratio *)
  Theorem scaling_is_ratio mf df m d J :
    let m' := auto_fold fold mf df m in
    length m' = length d -> corner_ok remask m' d ->
    (forall i, (i < length d)%nat -> (J i = true <-> maskat m' i = false /\ maskat d i = false)) ->
    optimal_sfs_scaling fold remask mf df m d = sum_over (length d) J (valat d) / sum_over (length d) J (valat m').
  Proof. intros m' L CO HJ. unfold m'. rewrite scaling_exact by exact L. fold m'.
    assert (E : forall i, (i < length d)%nat -> scaling_index_set m' d i = J i).
    { intros i Li. rewrite scaling_set_is_joint by auto. unfold joint_unmasked. specialize (HJ i Li).
      destruct (J i).
      - destruct HJ as [[A B] _]; auto. rewrite A, B. reflexivity.
      - destruct (maskat m' i), (maskat d i); auto. destruct HJ as [_ HJ]. discriminate HJ. auto. }
    f_equal; apply sum_over_ext; auto. Qed.

  (** ** behaviour under rescaling of the model *)
  Hypothesis fold_scale : forall s l, fold (scale s l) = scale s (fold l).

  Lemma auto_fold_scale mf df s m : auto_fold fold mf df (scale s m) = scale s (auto_fold fold mf df m).
  Proof. unfold auto_fold. destruct (df && negb mf); auto. Qed.

  Lemma ll_is_ll0 mf df m d : ll lg fold mf df m d = ll0 (auto_fold fold mf df m) d.
  Proof. reflexivity. Qed.

  Lemma ll_multinom_unfold mf df m d :
    ll_multinom lg fold remask mf df m d = ll lg fold mf df (scale (optimal_sfs_scaling fold remask mf df m d) m) d.
  Proof. reflexivity. Qed.

  (** log-likelihood of a rescaled positive model, in closed form *)
  Lemma ll0_scale a d s : length a = length d -> positive_on_joint a d -> 0 < s ->
    let J := joint_unmasked a d in let n := length d in
    ll0 (scale s a) d =
      (- s) * sum_over n J (valat a) + ln s * sum_over n J (valat d)
      + sum_over n J (fun i => valat d i * ln (valat a i) - lg (valat d i + 1)).
  Proof. intros L P S J n.
    rewrite (ll0_spec (scale s a) d J).
    - rewrite <- sum_over_lin3. apply sum_over_ext; auto. intros i Li Ji.
      rewrite valat_scale. unfold poisson_ll. unfold J, joint_unmasked in Ji.
      apply andb_true_iff in Ji. destruct Ji as [A B]. apply negb_true_iff in A, B.
      rewrite ln_mult by (auto; apply P; auto). ring.
    - rewrite scale_length. exact L.
    - apply index_set_of_positive; [|apply positive_scale; auto]. intros i Li. unfold J. rewrite joint_unmasked_scale. reflexivity. Qed.

  Definition nonneg_data_on_joint (a d : list entryR) : Prop :=
    forall i, (i < length d)%nat -> maskat a i = false -> maskat d i = false -> 0 <= valat d i.

  (** THEOREM ll_multinom_is_max_over_scaling *)
  Theorem ll_multinom_is_max_over_scaling mf df m d s :
    let m' := auto_fold fold mf df m in
    length m' = length d -> positive_on_joint m' d ->
    0 < sum_over (length d) (joint_unmasked m' d) (valat d) -> corner_ok remask m' d -> 0 < s ->
    ll lg fold mf df (scale s m) d <= ll_multinom lg fold remask mf df m d.
  Proof. intros m' L P DP CO S. rewrite ll_multinom_unfold.
    rewrite (scaling_is_ratio mf df m d (joint_unmasked m' d)); auto.
    2:{ intros i Li. unfold joint_unmasked. fold m'. destruct (maskat m' i), (maskat d i); cbn; intuition discriminate. }
    fold m'. set (D := sum_over (length d) (joint_unmasked m' d) (valat d)) in *.
    set (M := sum_over (length d) (joint_unmasked m' d) (valat m')).
    assert (MP : 0 < M).
    { unfold M. apply (sum_over_pos_transfer _ _ (valat d)); auto. intros i Li Ji. unfold joint_unmasked in Ji.
      apply andb_true_iff in Ji. destruct Ji as [A B]. apply negb_true_iff in A, B. apply P; auto. }
    assert (SP : 0 < D / M) by (apply Rdiv_lt_0_compat; auto).
    rewrite !ll_is_ll0, !auto_fold_scale. fold m'.
    rewrite !ll0_scale by auto. fold D M.
    replace (- (D / M) * M) with (- D) by (field; lra).
    pose proof (ln_le_minus1 (s / (D / M))) as K.
    rewrite ln_div in K by auto. specialize (K (Rdiv_lt_0_compat _ _ S SP)).
    assert (s / (D / M) = s * M / D) as E by (field; lra). rewrite E in K.
    assert (D * (ln s - ln (D / M)) <= s * M - D).
    { replace (s * M - D) with (D * (s * M / D - 1)) by (field; lra). apply Rmult_le_compat_l; lra. }
    lra. Qed.

  Theorem ll_multinom_is_max_and_is_attained mf df m d s :
    let m' := auto_fold fold mf df m in
    length m' = length d -> positive_on_joint m' d ->
    0 < sum_over (length d) (joint_unmasked m' d) (valat d) -> corner_ok remask m' d -> 0 < s ->
    ll lg fold mf df (scale s m) d <= ll_multinom lg fold remask mf df m d
    /\ ll_multinom lg fold remask mf df m d
       = ll lg fold mf df (scale (optimal_sfs_scaling fold remask mf df m d) m) d.
  Proof. intros m' L P DP CO S. split; [apply ll_multinom_is_max_over_scaling; auto | apply ll_multinom_unfold]. Qed.

  (** scaling sums really used (no corner hypothesis) *)
  Lemma masks_equal_scale c (a d : list entryR) : masks_equal (scale c a) d = masks_equal a d.
  Proof. unfold masks_equal. revert d. induction a as [|[v b] a IH]; intros [|e d]; cbn; auto.
    unfold em at 1 3. cbn. f_equal. apply IH. Qed.
  Lemma jmask_scale c (a d : list entryR) : jmask (scale c a) d = jmask a d.
  Proof. unfold jmask, zipw. revert d. induction a as [|[v b] a IH]; intros [|e d]; cbn; auto.
    f_equal. apply IH. Qed.
  Lemma setmask_scale c (a : list entryR) mk : setmask (scale c a) mk = scale c (setmask a mk).
  Proof. unfold setmask, zipw. revert mk. induction a as [|[v b] a IH]; intros [|e mk]; cbn; auto.
    f_equal. apply IH. Qed.
  Lemma intersect_scale c a d :
    intersect_masks remask (scale c a) d = (scale c (fst (intersect_masks remask a d)), snd (intersect_masks remask a d)).
  Proof. unfold intersect_masks. rewrite masks_equal_scale, jmask_scale. destruct (masks_equal a d); cbn [fst snd]; auto.
    rewrite setmask_scale. reflexivity. Qed.

  Lemma scaling_of_scaled mf df c m d :
    optimal_sfs_scaling fold remask mf df (scale c m) d =
    msum (snd (intersect_masks remask (auto_fold fold mf df m) d)) /
      (c * msum (fst (intersect_masks remask (auto_fold fold mf df m) d))).
  Proof. unfold optimal_sfs_scaling. rewrite auto_fold_scale, intersect_scale. cbn [fst snd]. rewrite msum_scale. reflexivity. Qed.

  (** THEOREM ll_multinom_scale_invariant: any model (entries of either sign), any masks, no corner hypothesis;
      the sum of the model over the entries the scaling uses must be non-zero (else the code divides by zero) *)
  Theorem ll_multinom_scale_invariant mf df m d c :
    let m' := auto_fold fold mf df m in
    length m' = length d -> c <> 0 ->
    sum_over (length d) (scaling_index_set m' d) (valat m') <> 0 ->
    ll_multinom lg fold remask mf df (scale c m) d = ll_multinom lg fold remask mf df m d /\
    optimal_sfs_scaling fold remask mf df (scale c m) d = optimal_sfs_scaling fold remask mf df m d / c.
  Proof. intros m' L C MN.
    assert (EM : msum (fst (intersect_masks remask m' d)) = sum_over (length d) (scaling_index_set m' d) (valat m')).
    { destruct (intersect_spec m' d L) as [L1 [L2 E]]. apply msum_index; auto.
      intros i Li. destruct (E i Li) as [A [B [C' D]]]. auto. }
    assert (ES : optimal_sfs_scaling fold remask mf df (scale c m) d = optimal_sfs_scaling fold remask mf df m d / c).
    { rewrite scaling_of_scaled. unfold optimal_sfs_scaling. fold m'. numR. rewrite EM. field. auto. }
    split; [|exact ES].
    rewrite !ll_multinom_unfold. rewrite ES. rewrite scale_compose.
    replace (optimal_sfs_scaling fold remask mf df m d / c * c) with (optimal_sfs_scaling fold remask mf df m d) by (field; auto).
    reflexivity. Qed.

  (** ** model == const * data is the global maximum *)
  Lemma poisson_term_max p x : 0 < p -> 0 < x -> - p + x * ln p <= - x + x * ln x.
  Proof. intros P X. pose proof (ln_le_minus1 (p / x) (Rdiv_lt_0_compat _ _ P X)) as K.
    rewrite ln_div in K by auto.
    assert (x * (ln p - ln x) <= p - x).
    { replace (p - x) with (x * (p / x - 1)) by (field; lra). apply Rmult_le_compat_l; lra. }
    lra. Qed.

  (** THEOREM data_multiple_is_global_max.
      [r] is any spectrum whose values are c * data on the entries and whose masks are those of the competitor.
      Exactly what holds for the code: entries with data = 0 have reference value 0, which numpy.ma.log masks,
      so they drop out of the reference likelihood; for the competitor they contribute - s m_i - lg 1.  The
      statement therefore needs lg 1 = 0 (true of ln Gamma). *)
  Theorem data_multiple_is_global_max mf df m r d c :
    let m' := auto_fold fold mf df m in
    length m' = length d -> length r = length d ->
    (forall i, (i < length d)%nat -> valat r i = c * valat d i) ->
    (forall i, (i < length d)%nat -> maskat m' i = maskat r i) ->
    0 < c -> lg 1 = 0 ->
    positive_on_joint m' d -> nonneg_data_on_joint m' d ->
    0 < sum_over (length d) (joint_unmasked m' d) (valat d) ->
    corner_ok remask m' d ->
    ll_multinom lg fold remask mf df m d <= ll_multinom lg fold remask df df r d.
  Proof. intros m' L Lr RV RM C LG1 P ND DP CO.
    set (n := length d) in *. set (J := joint_unmasked m' d) in *.
    assert (JR : forall i, (i < n)%nat -> joint_unmasked r d i = J i).
    { intros i Li. unfold J, joint_unmasked. rewrite (RM i Li). reflexivity. }
    assert (AF : auto_fold fold df df r = r). { unfold auto_fold. destruct df; reflexivity. }
    assert (COr : corner_ok remask r d).
    { destruct CO as [R | [ME | [C0 C1]]]; [left; auto | right; left | right; right].
      - intros i Li. rewrite <- (RM i Li). auto.
      - destruct (Nat.eq_dec n 0) as [Z | NZ].
        + exfalso. unfold sum_over in DP. rewrite Z in DP. cbn in DP. lra.
        + rewrite <- !RM by lia. auto. }
    set (D := sum_over n J (valat d)) in *.
    (* competitor *)
    set (M := sum_over n J (valat m')).
    assert (MP : 0 < M).
    { unfold M. apply (sum_over_pos_transfer _ _ (valat d)); auto. intros i Li Ji. unfold J, joint_unmasked in Ji.
      apply andb_true_iff in Ji. destruct Ji as [A B]. apply negb_true_iff in A, B. apply P; auto. }
    assert (Sm : optimal_sfs_scaling fold remask mf df m d = D / M).
    { rewrite (scaling_is_ratio mf df m d J); auto. intros i Li. unfold J, joint_unmasked. fold m'.
      destruct (maskat m' i), (maskat d i); cbn; intuition discriminate. }
    assert (SP : 0 < D / M) by (apply Rdiv_lt_0_compat; auto).
    (* reference *)
    assert (Sr : optimal_sfs_scaling fold remask df df r d = / c).
    { rewrite (scaling_is_ratio df df r d J); rewrite ?AF; auto.
      - fold n. rewrite (sum_over_ext n J J (valat r) (fun i => c * valat d i)); auto.
        rewrite (sum_over_scal n J c (valat d)). fold D. field. split; lra.
      - intros i Li. rewrite <- (JR i Li). unfold joint_unmasked.
        destruct (maskat r i), (maskat d i); cbn; intuition discriminate. }
    rewrite !ll_multinom_unfold, Sm, Sr, !ll_is_ll0, !auto_fold_scale, AF. fold m'.
    (* both as index sums *)
    rewrite (ll0_spec (scale (D / M) m') d J).
    2:{ rewrite scale_length; auto. }
    2:{ intros i Li. rewrite maskat_scale, valat_scale. unfold J, joint_unmasked. specialize (P i Li).
        destruct (maskat m' i), (maskat d i); cbn; split; try tauto; try (intros [? [? ?]]; discriminate); try discriminate.
        intros _. repeat split. apply Rmult_lt_0_compat; auto. }
    set (J' := fun i => J i && negb (Rleb (valat d i) 0)).
    rewrite (ll0_spec (scale (/ c) r) d J').
    2:{ rewrite scale_length; auto. }
    2:{ intros i Li. rewrite maskat_scale, valat_scale, (RV i Li). unfold J'. rewrite <- (JR i Li). unfold joint_unmasked.
        replace (/ c * (c * valat d i)) with (valat d i) by (field; lra).
        destruct (maskat r i), (maskat d i); cbn; split; try tauto; try (intros [? [? ?]]; discriminate); try discriminate.
        - intros E. apply negb_true_iff, Rleb_false in E. auto.
        - intros [_ [_ E]]. apply negb_true_iff, Rleb_false. exact E. }
    apply sum_upto_le. intros i Li. fold n in Li. unfold J'.
    rewrite !valat_scale, (RV i Li). replace (/ c * (c * valat d i)) with (valat d i) by (field; lra).
    destruct (J i) eqn:Ji; cbn [andb]; [|lra].
    assert (Ji' := Ji). unfold J, joint_unmasked in Ji'. apply andb_true_iff in Ji'. destruct Ji' as [A B].
    apply negb_true_iff in A, B. specialize (P i Li A B). specialize (ND i Li A B).
    assert (PP : 0 < D / M * valat m' i) by (apply Rmult_lt_0_compat; auto).
    unfold poisson_ll. destruct (Rleb (valat d i) 0) eqn:Z; cbn [negb].
    - apply Rleb_true in Z. assert (valat d i = 0) as -> by lra. rewrite Rplus_0_l, LG1. lra.
    - apply Rleb_false in Z. pose proof (poisson_term_max _ _ PP Z). lra. Qed.

  (** ** THEOREM auto_fold: folded data with an unfolded model = the same call on the folded model;
      unfolded data never folds *)
  Theorem auto_fold_spec m d :
    ll lg fold false true m d = ll lg fold true true (fold m) d /\
    ll_multinom lg fold remask false true m d = ll_multinom lg fold remask true true (fold m) d /\
    optimal_sfs_scaling fold remask false true m d = optimal_sfs_scaling fold remask true true (fold m) d /\
    (forall mf, auto_fold fold mf false m = m) /\ auto_fold fold true true m = m.
  Proof. split; [reflexivity|]. split; [|split; [reflexivity|split; [intros; reflexivity|reflexivity]]].
    rewrite !ll_multinom_unfold, !ll_is_ll0, !auto_fold_scale. reflexivity. Qed.
End LikR.

(** ** THEOREM ll_is_poisson_sum_over_joint_unmasked (closed: no hypothesis on fold) *)
Theorem ll_is_poisson_sum lg fold mf df m d J :
  let m' := auto_fold fold mf df m in
  length m' = length d ->
  (forall i, (i < length d)%nat -> (J i = true <-> maskat m' i = false /\ maskat d i = false /\ 0 < valat m' i)) ->
  ll lg fold mf df m d = sum_over (length d) J (fun i => poisson_ll lg (valat m' i) (valat d i)).
Proof. intros m' L HJ. apply ll0_spec; auto. Qed.

Theorem ll_is_poisson_sum_positive lg fold mf df m d J :
  let m' := auto_fold fold mf df m in
  length m' = length d ->
  (forall i, (i < length d)%nat -> maskat m' i = false -> maskat d i = false -> 0 < valat m' i) ->
  (forall i, (i < length d)%nat -> (J i = true <-> maskat m' i = false /\ maskat d i = false)) ->
  ll lg fold mf df m d = sum_over (length d) J (fun i => poisson_ll lg (valat m' i) (valat d i)).
Proof. intros m' L P HJ. apply ll0_spec; auto. intros i Li. specialize (HJ i Li). specialize (P i Li).
  split; [intros E; apply HJ in E; destruct E; auto | intros [A [B _]]; apply HJ; auto]. Qed.

Theorem ll_per_bin_spec lg fold mf df m d J i :
  let m' := auto_fold fold mf df m in
  length m' = length d ->
  (forall i, (i < length d)%nat -> (J i = true <-> maskat m' i = false /\ maskat d i = false /\ 0 < valat m' i)) ->
  (i < length d)%nat ->
  maskat (ll_per_bin lg fold mf df m d) i = negb (J i) /\
  (J i = true -> valat (ll_per_bin lg fold mf df m d) i = poisson_ll lg (valat m' i) (valat d i)).
Proof. intros m' L HJ Li. apply ll_per_bin0_spec; auto. Qed.

(** with lg (k+1) = ln(k!) the per-entry term is the logarithm of the Poisson probability *)
Lemma poisson_ll_is_log_pmf lg m (k : nat) : 0 < m -> lg (INR k + 1) = ln (INR (fact k)) ->
  poisson_ll lg m (INR k) = ln (exp (- m) * m ^ k / INR (fact k)).
Proof. intros P G. unfold poisson_ll, Rdiv.
  assert (0 < INR (fact k)) by (apply lt_0_INR, lt_O_fact).
  assert (0 < m ^ k) by (apply pow_lt; auto).
  rewrite ln_mult; [|apply Rmult_lt_0_compat; auto; apply exp_pos | apply Rinv_0_lt_compat; auto].
  rewrite ln_mult by (auto; apply exp_pos). rewrite ln_exp, ln_Rinv by auto.
  rewrite <- Rpower_pow by auto. unfold Rpower. rewrite ln_exp, G. ring. Qed.
