(** * DemesExportGraph: the graph [Demes.output] builds (Model/DemesExportModel.v), seen from the importer
    (Model/DemesFront.v): its integration intervals are the windows of the Integration records; the demes present in a
    window, in the importer's order, are the names the exporter gave to the axes of that record; the sizes, migration
    rates and events the importer reads off the graph for a window are those of the record. *)
From Coq Require Import ZArith Reals List Bool Arith Lra Lia.
From Dadi Require Import Base.Num Base.NumR Model.DemesFront Model.DemesExportModel Proofs.DemesBase Proofs.DemesRescale
     Proofs.DemesUnits Proofs.DemesOrder Proofs.DemesExportLists Model.DemesExportReorderModel.
Import ListNotations.
Local Open Scope R_scope.

Definition ids_of (ar : arnd R) : list nat := sg_ids (ar_stage ar).
Definition a_of (ar : arnd R) : timeR := sg_a (ar_stage ar).
Definition b_of (ar : arnd R) : R := sg_b (ar_stage ar).
Definition win (ar : arnd R) : interval R := (a_of ar, Fin (b_of ar)).
Definition inA (id : nat) (ar : arnd R) : bool := mem id (ids_of ar).
Definition dar : arnd R := mkAr SNone (mkStage Inf 0 [] [] []) [] [] [] 0 [].
Definition dbirth : birth R := mkBirth Inf [].

(** ** the windows form a chain from [top] down *)
Fixpoint achain (top : timeR) (ann : list (arnd R)) : Prop :=
  match ann with
  | [] => True
  | ar :: l => a_of ar = top /\ tlt (Fin (b_of ar)) top /\ achain (Fin (b_of ar)) l
  end.

Lemma achain_after top ar l : achain top (ar :: l) ->
  forall y, In y l -> tleb (a_of y) (Fin (b_of ar)) = true /\ tlt (Fin (b_of y)) (Fin (b_of ar)).
Proof.
  revert top ar. induction l as [|z l IH]; intros top ar C y Hy; [destruct Hy|].
  destruct C as (C1 & C2 & C3). destruct Hy as [<-|Hy].
  - destruct C3 as (D1 & D2 & _). rewrite D1. split; [apply tleb_refl|]. exact D2.
  - destruct (IH _ _ C3 y Hy) as [E1 E2]. destruct C3 as (D1 & D2 & _). split.
    + eapply tleb_trans; eauto. now apply tlt_tleb.
    + eapply tlt_trans; eauto.
Qed.
Lemma achain_app top P l : achain top (P ++ l) -> exists top', achain top' l.
Proof. revert top. induction P as [|x P IH]; intros top C; [eauto|]. destruct C as (_ & _ & C). eauto. Qed.
Lemma achain_in top ann x : achain top ann -> In x ann -> tlt (Fin (b_of x)) (a_of x).
Proof.
  revert top. induction ann as [|z l IH]; intros top C Hx; [destruct Hx|]. destruct C as (C1 & C2 & C3).
  destruct Hx as [<-|Hx]; [now rewrite C1|eauto].
Qed.

Definition before (ann : list (arnd R)) (x y : arnd R) : Prop := exists P1 P2 Q, ann = P1 ++ x :: P2 ++ y :: Q.

Lemma before_order top ann x y : achain top ann -> before ann x y ->
  tleb (a_of y) (Fin (b_of x)) = true /\ tlt (Fin (b_of y)) (Fin (b_of x)) /\ tlt (a_of y) (a_of x).
Proof.
  intros C (P1 & P2 & Q & ->). pose proof (achain_in _ _ x C) as Hx.
  apply achain_app in C as [top' C]. destruct (achain_after _ _ _ C y) as [E1 E2]; [apply in_or_app; right; now left|].
  split; [|split]; auto. eapply tleb_tlt_trans; eauto. apply Hx. apply in_or_app. right. now left.
Qed.

(** the boundaries *)
Definition bounds (top : timeR) (ann : list (arnd R)) : list timeR := top :: map (fun ar => Fin (b_of ar)) ann.

Lemma bounds_sdesc ann : forall top, achain top ann -> sdesc (bounds top ann).
Proof.
  induction ann as [|x l IH]; intros top C; [cbn; tauto|]. destruct C as (C1 & C2 & C3). specialize (IH _ C3).
  cbn [bounds map sdesc] in *. split; auto. intros y [<-|Hy]; auto. destruct IH as [IH _]. eapply tlt_trans; eauto.
Qed.
Lemma bounds_windows ann : forall top, achain top ann ->
  combine (bounds top ann) (tl (bounds top ann)) = map win ann.
Proof.
  induction ann as [|x l IH]; intros top C; [reflexivity|]. destruct C as (C1 & C2 & C3). specialize (IH _ C3).
  cbn [bounds map tl combine] in *. rewrite IH. unfold win at 2. now rewrite C1.
Qed.
Lemma a_in_bounds ann : forall top x, achain top ann -> In x ann -> In (a_of x) (bounds top ann) /\ In (Fin (b_of x)) (bounds top ann).
Proof.
  induction ann as [|z l IH]; intros top x C Hx; [destruct Hx|]. destruct C as (C1 & C2 & C3). destruct Hx as [<-|Hx].
  - rewrite C1. cbn. auto.
  - destruct (IH _ x C3 Hx) as [I1 I2]. cbn [bounds map] in *. split; right; auto.
Qed.

(** ** the state of the scan *)
Fixpoint scan_end (next : nat) (ids : list nat) (l : list (round R * R)) : nat * list nat :=
  match l with
  | [] => (next, ids)
  | rb :: l' => scan_end (ev_next next ids (r_ev (fst rb))) (ev_ids next ids (r_ev (fst rb))) l'
  end.
Definition lok (d : nat) (l : list (round R * R)) : Prop := rounds_ok d (map fst l).
Definition lokr (d : nat) (l : list (round R * R)) : Prop := rounds_okr d (map fst l).
Lemma ev_ok_okr d (e : sev R) : ev_ok d e -> ev_okr d e.
Proof. destruct e; cbn; auto; try tauto. Qed.
Lemma round_ok_okr d (r : round R) : round_ok d r -> round_okr d r.
Proof. intros (K & K'). split; auto. now apply ev_ok_okr. Qed.
Lemma rounds_ok_okr rs : forall d, rounds_ok d rs -> rounds_okr d rs.
Proof. induction rs as [|r rs IH]; intros d; cbn; auto. intros [K1 K2]. split; [now apply round_ok_okr|auto]. Qed.
Lemma lok_lokr d l : lok d l -> lokr d l.
Proof. apply rounds_ok_okr. Qed.
(** names: distinct and already created *)
Definition okids (ids : list nat) (n : nat) : Prop := NoDup ids /\ forall x, In x ids -> (x < n)%nat.
Lemma asc_okids ids n : asc 0 ids n -> okids ids n.
Proof. intros A. split; [eapply asc_NoDup; eauto|]. intros x Hx. apply (asc_In _ _ _ _ A Hx). Qed.
Fixpoint tchain (top : R) (l : list (round R * R)) : Prop :=
  match l with [] => True | rb :: l' => top = snd rb + r_T (fst rb) /\ tchain (snd rb) l' end.

Lemma timed_fst (rs : list (round R)) : map fst (timed rs) = rs.
Proof. induction rs; cbn; auto. now rewrite IHrs. Qed.
Lemma timed_chain (rs : list (round R)) : tchain (total rs) (timed rs).
Proof. induction rs; cbn; auto. Qed.

Lemma T_pos (T : R) : (n0 <? T)%num = true -> 0 < T.
Proof. unfold nltb. numR. intros K. apply negb_true_iff in K. now apply Rleb_false in K. Qed.

Lemma scan_chain l : forall top next ids d, tchain top l -> lokr d l -> achain (Fin top) (scan next ids l).
Proof.
  induction l as [|[r b] l IH]; intros top next ids d C K; [exact I|]. destruct C as [C1 C2]. destruct K as [K1 K2].
  cbn [fst snd] in *. cbn [scan achain]. unfold a_of, b_of. cbn [annotate ar_stage sg_a sg_b fst snd ar_next sg_ids]. numR.
  split; [now rewrite C1|]. split.
  - destruct K1 as (_ & _ & KT & _). apply T_pos in KT. rewrite C1. unfold tlt. cbn [tleb]. numR. apply Rleb_false. lra.
  - eapply IH; eauto.
Qed.

(** the effect of a record on the names *)
Lemma ev_next_ge next ids (e : sev R) : (next <= ev_next next ids e)%nat.
Proof. destruct e; cbn; lia. Qed.
Lemma remove_nth_In {A} k (l : list A) x : In x (remove_nth k l) -> In x l.
Proof. revert k. induction l as [|y l IH]; intros k; destruct k; cbn; auto. intros [->|K]; eauto. Qed.
Lemma remove_nth_length {A} k (l : list A) : (k < length l)%nat -> length (remove_nth k l) = (length l - 1)%nat.
Proof. revert k. induction l as [|y l IH]; intros k L; destruct k; cbn in *; try lia. rewrite IH by lia. lia. Qed.

Lemma ev_ids_asc next ids (e : sev R) : asc 0 ids next -> ev_ok (length ids) e -> asc 0 (ev_ids next ids e) (ev_next next ids e).
Proof.
  intros A K. destruct e; cbn [ev_ids ev_next].
  - eapply asc_weaken; [| |apply asc_seq]; lia.
  - apply asc_app; auto.
  - exact A.
  - now apply asc_remove.
  - destruct K.
Qed.
  Lemma NoDup_app' {A} (l1 l2 : list A) : NoDup l1 -> NoDup l2 -> (forall x, In x l1 -> ~ In x l2) -> NoDup (l1 ++ l2).
  Proof.
    induction l1 as [|x l1 IH]; intros N1 N2 D; auto. inversion N1; subst. cbn. constructor.
    - intros K. apply in_app_or in K as [K|K]; auto. apply (D x); auto. now left.
    - apply IH; auto. intros y Hy. apply D. now right.
  Qed.
  Lemma NoDup_flat_map {A B} (f : A -> list B) l : NoDup l -> (forall x, In x l -> NoDup (f x)) ->
    (forall x y z, In x l -> In y l -> In z (f x) -> In z (f y) -> x = y) -> NoDup (flat_map f l).
  Proof.
    induction l as [|x l IH]; intros N K D; [constructor|]. inversion N; subst. cbn. apply NoDup_app'.
    - apply K. now left.
    - apply IH; auto. + intros; apply K; now right. + intros x' y' z Hx' Hy'. apply D; now right.
    - intros z Hz Hz'. apply in_flat_map in Hz' as (y & Hy & Hz'). assert (x = y) by (eapply D; eauto; [now left|now right]).
      subst. contradiction.
  Qed.

Lemma perm1_spec ord d : is_perm1 ord d = true -> length ord = d /\ NoDup ord /\ forall k, In k ord <-> (1 <= k <= d)%nat.
Proof.
  unfold is_perm1. intros K. apply andb_prop in K as [K1 K2]. apply Nat.eqb_eq in K1. rewrite forallb_forall in K2.
  assert (I1 : incl (seq 1 d) ord) by (intros k Hk; apply mem_In; auto).
  assert (Ll : (length ord <= length (seq 1 d))%nat) by (rewrite seq_length; lia).
  pose proof (NoDup_incl_NoDup (seq_NoDup d 1) Ll I1) as N.
  pose proof (NoDup_length_incl (seq_NoDup d 1) Ll I1) as I2.
  split; [auto|split; [auto|]]. intros k. split; intros Hk.
  - apply I2 in Hk. apply in_seq in Hk. lia.
  - apply I1. apply in_seq. lia.
Qed.
Lemma NoDup_map_inj_in {A B} (f : A -> B) l : (forall x y, In x l -> In y l -> f x = f y -> x = y) -> NoDup l -> NoDup (map f l).
Proof.
  induction l as [|a l IH]; intros Inj N; [constructor|]. inversion N as [|? ? N1 N2]; subst. cbn. constructor.
  - intros K. apply in_map_iff in K as (y & E & Hy). assert (y = a) by (apply Inj; auto; [now right|now left]). subst. contradiction.
  - apply IH; auto. intros x y Hx Hy. apply Inj; now right.
Qed.
Lemma reorder_ids_spec ids ord : is_perm1 ord (length ids) = true -> NoDup ids ->
  let ids' := map (fun k => nth1 k ids) ord in
  length ids' = length ids /\ NoDup ids' /\ forall x, In x ids' <-> In x ids.
Proof.
  intros P N. destruct (perm1_spec _ _ P) as (L & ND & Sp). cbv zeta. split; [now rewrite map_length|]. split.
  - apply NoDup_map_inj_in; auto. intros x y Hx Hy E. apply Sp in Hx, Hy. unfold nth1 in E.
    rewrite (NoDup_nth ids 0%nat) in N. apply N in E; lia.
  - intros x. split; intros Hx.
    + apply in_map_iff in Hx as (k & <- & Hk). apply Sp in Hk. apply nth_In. lia.
    + destruct (In_nth _ _ 0%nat Hx) as (j & Lj & <-). apply in_map_iff. exists (S j). split; [unfold nth1; f_equal; lia|]. apply Sp. lia.
Qed.

Lemma ev_ids_okids next ids (e : sev R) : okids ids next -> ev_okr (length ids) e -> okids (ev_ids next ids e) (ev_next next ids e).
Proof.
  intros [N B] K. destruct e; cbn [ev_ids ev_next ev_okr ev_ok] in *.
  - split; [apply seq_NoDup|]. intros x Hx. apply in_seq in Hx. lia.
  - split.
    + apply NoDup_app'; auto; [repeat constructor; intros []|]. intros x Hx [<-|[]]. apply B in Hx. lia.
    + intros x Hx. apply in_app_or in Hx as [Hx|[<-|[]]]; [apply B in Hx|]; lia.
  - split; auto.
  - split.
    + clear B K. revert N. generalize (k - 1)%nat. induction ids as [|y l IH]; intros j N; destruct j; cbn; auto; inversion N; subst; auto.
      constructor; auto. intros Hy. apply remove_nth_In in Hy. contradiction.
    + intros x Hx. apply B. eapply remove_nth_In; eauto.
  - destruct (reorder_ids_spec ids ord K N) as (_ & N' & Sp). split; auto. intros x Hx. apply B. now apply Sp.
Qed.

Lemma ev_ids_sub next ids (e : sev R) x : ev_okr (length ids) e -> In x (ev_ids next ids e) ->
  In x ids \/ (next <= x < ev_next next ids e)%nat.
Proof.
  intros K Hx. destruct e; cbn [ev_ids ev_next] in *.
  - apply in_seq in Hx. right. lia.
  - apply in_app_or in Hx as [Hx|[<-|[]]]; [auto|right; lia].
  - auto.
  - left. eapply remove_nth_In; eauto.
  - left. apply in_map_iff in Hx as (k & <- & Hk). cbn [ev_okr] in K. destruct (perm1_spec _ _ K) as (_ & _ & Sp).
    apply Sp in Hk. apply nth_In. lia.
Qed.
Lemma ev_ids_new next ids (e : sev R) x : (next <= x < ev_next next ids e)%nat -> In x (ev_ids next ids e).
Proof.
  destruct e; cbn [ev_ids ev_next]; intros L; try lia.
  - apply in_seq. lia.
  - apply in_or_app. right. left. lia.
Qed.
Lemma ev_ids_len next ids (e : sev R) : ev_okr (length ids) e -> length (ev_ids next ids e) = ev_dim (length ids) e.
Proof.
  intros K. destruct e; cbn [ev_ids ev_dim].
  - apply seq_length.
  - rewrite app_length. cbn. lia.
  - reflexivity.
  - destruct K as [K1 K2]. apply remove_nth_length. lia.
  - rewrite map_length. cbn [ev_okr] in K. now destruct (perm1_spec _ _ K).
Qed.
Lemma ev_births_len now next ids (e : sev R) : length (ev_births now ids e) = (ev_next next ids e - next)%nat.
Proof. destruct e; cbn [ev_births ev_next length]; try lia. rewrite map_length. lia. Qed.
Lemma ev_births_start now ids (e : sev R) : Forall (fun b => b_start b = Fin now) (ev_births now ids e).
Proof. destruct e; cbn; auto. apply Forall_forall. intros b Hb. apply in_map_iff in Hb as (p & <- & _). reflexivity. Qed.
Lemma nz_idx_lt (props : list R) i : In i (nz_idx props) -> (i < length props)%nat.
Proof. unfold nz_idx. intros K. apply filter_In in K as [K _]. apply in_seq in K. lia. Qed.
Lemma ev_births_anc now ids (e : sev R) : ev_okr (length ids) e ->
  Forall (fun b => forall x, In x (b_anc b) -> In x ids) (ev_births now ids e).
Proof.
  intros K. destruct e; cbn; auto.
  - apply Forall_forall. intros b Hb. apply in_map_iff in Hb as (p & <- & Hp). cbn. intros x [<-|[]]; auto.
  - constructor; auto. cbn. intros x Hx. apply in_map_iff in Hx as (i & <- & Hi). apply nth_In.
    destruct K as [K _]. apply nz_idx_lt in Hi. lia.
Qed.

(** annotate, field by field *)
Lemma annotate_ids next ids rb : ids_of (annotate next ids rb) = ev_ids next ids (r_ev (fst rb)).
Proof. reflexivity. Qed.
Lemma annotate_next next ids rb : ar_next (annotate next ids rb) = ev_next next ids (r_ev (fst rb)).
Proof. reflexivity. Qed.

(** a name that is not alive any more never comes back, and is nobody's ancestor later *)
Lemma scan_dead l : forall next ids d id, okids ids next -> length ids = d -> lokr d l -> (id < next)%nat -> ~ In id ids ->
  Forall (fun ar => inA id ar = false /\ Forall (fun b => ~ In id (b_anc b)) (ar_births ar)) (scan next ids l).
Proof.
  induction l as [|rb l IH]; intros next ids d id A L K Hlt Hni; [constructor|]. destruct K as [K1 K2]. cbn [map fst] in *.
  destruct K1 as (Kev & K1). subst d.
  assert (Hni' : ~ In id (ev_ids next ids (r_ev (fst rb)))).
  { intros Hx. apply ev_ids_sub in Hx as [Hx|Hx]; auto. lia. }
  cbn [scan]. rewrite annotate_next. change (sg_ids (ar_stage (annotate next ids rb))) with (ev_ids next ids (r_ev (fst rb))).
  constructor.
  - split; [apply mem_false; exact Hni'|]. cbn [annotate ar_births].
    pose proof (ev_births_anc (snd rb + r_T (fst rb))%num ids _ Kev) as B. eapply Forall_impl; [|exact B].
    cbn beta. intros b Hb Hx. apply Hni. auto.
  - pose proof (ev_next_ge next ids (r_ev (fst rb))).
    apply (IH _ _ _ id (ev_ids_okids next ids _ A Kev) (ev_ids_len next ids _ Kev) K2); [lia|exact Hni'].
Qed.

(** a name that is alive stays for a while, then is gone for ever *)
Lemma scan_alive l : forall next ids d id, okids ids next -> length ids = d -> lokr d l -> In id ids ->
  exists A2 A3, scan next ids l = A2 ++ A3 /\ Forall (fun ar => inA id ar = true) A2 /\ Forall (fun ar => inA id ar = false) A3.
Proof.
  induction l as [|rb l IH]; intros next ids d id A L K Hin; [exists [], []; repeat split; constructor|].
  pose proof K as K0. destruct K as [K1 K2]. cbn [map fst] in *. destruct K1 as (Kev & K1). subst d.
  pose proof (ev_ids_okids next ids _ A Kev) as A'. pose proof (ev_ids_len next ids _ Kev) as L'.
  cbn [scan]. rewrite annotate_next. change (sg_ids (ar_stage (annotate next ids rb))) with (ev_ids next ids (r_ev (fst rb))).
  destruct (mem id (ev_ids next ids (r_ev (fst rb)))) eqn:E.
  - apply mem_In in E. destruct (IH _ _ _ id A' L' K2 E) as (A2 & A3 & E1 & F2 & F3).
    exists (annotate next ids rb :: A2), A3. rewrite E1. split; [reflexivity|]. split; auto. constructor; auto.
    unfold inA. rewrite annotate_ids. now apply mem_In.
  - exists [], (annotate next ids rb :: scan (ev_next next ids (r_ev (fst rb))) (ev_ids next ids (r_ev (fst rb))) l).
    split; [reflexivity|]. split; [constructor|]. constructor; [exact E|].
    apply mem_false in E. pose proof (proj2 A _ Hin) as B. pose proof (ev_next_ge next ids (r_ev (fst rb))).
    eapply Forall_impl; [|eapply (scan_dead l _ _ _ id A' L' K2); [lia|exact E]]. cbn beta. tauto.
Qed.

Definition life (ann : list (arnd R)) (id : nat) (start : timeR) : Prop :=
  exists A1 A2 A3, ann = A1 ++ A2 ++ A3 /\ A2 <> []
    /\ Forall (fun ar => inA id ar = false) A1 /\ Forall (fun ar => inA id ar = true) A2
    /\ Forall (fun ar => inA id ar = false) A3 /\ start = a_of (hd dar A2).

Lemma scan_births_len l : forall next ids, length (flat_map (@ar_births R) (scan next ids l)) = (fst (scan_end next ids l) - next)%nat.
Proof.
  induction l as [|rb l IH]; intros next ids; cbn [scan flat_map scan_end fst]; [cbn; lia|].
  rewrite app_length, IH. cbn [annotate ar_births ar_next ar_stage sg_ids].
  rewrite (ev_births_len _ next). pose proof (ev_next_ge next ids (r_ev (fst rb))).
  assert (G : forall l n i, (n <= fst (scan_end n i l))%nat).
  { clear. induction l as [|rb l IH]; intros n i; cbn [scan_end fst]; [lia|]. specialize (IH (ev_next n i (r_ev (fst rb))) (ev_ids n i (r_ev (fst rb)))).
    pose proof (ev_next_ge n i (r_ev (fst rb))). lia. }
  specialize (G l (ev_next next ids (r_ev (fst rb))) (ev_ids next ids (r_ev (fst rb)))). lia.
Qed.

Lemma scan_born l : forall next ids d id, okids ids next -> length ids = d -> lokr d l ->
  (next <= id < fst (scan_end next ids l))%nat ->
  life (scan next ids l) id (b_start (nth (id - next) (flat_map (@ar_births R) (scan next ids l)) dbirth)).
Proof.
  induction l as [|rb l IH]; intros next ids d id A L K Hid; [cbn in Hid; lia|].
  destruct K as [K1 K2]. cbn [map fst] in *. destruct K1 as (Kev & K1). subst d.
  pose proof (ev_ids_okids next ids _ A Kev) as A'. pose proof (ev_ids_len next ids _ Kev) as L'.
  pose proof (ev_next_ge next ids (r_ev (fst rb))) as Hge.
  cbn [scan scan_end flat_map] in *. rewrite annotate_next.
  change (sg_ids (ar_stage (annotate next ids rb))) with (ev_ids next ids (r_ev (fst rb))).
  set (next' := ev_next next ids (r_ev (fst rb))) in *. set (ids' := ev_ids next ids (r_ev (fst rb))) in *.
  assert (Lb : length (ar_births (annotate next ids rb)) = (next' - next)%nat) by (cbn [annotate ar_births]; apply ev_births_len).
  destruct (Nat.ltb id next') eqn:E.
  - apply Nat.ltb_lt in E. assert (Hin : In id ids') by (apply ev_ids_new; lia).
    destruct (scan_alive l _ _ _ id A' L' K2 Hin) as (A2 & A3 & E1 & F2 & F3).
    exists [], (annotate next ids rb :: A2), A3. rewrite E1. repeat split; auto; try discriminate.
    + constructor; auto. unfold inA. rewrite annotate_ids. now apply mem_In.
    + rewrite app_nth1 by lia. cbn [hd].
      pose proof (ev_births_start (snd rb + r_T (fst rb))%num ids (r_ev (fst rb))) as B. rewrite Forall_forall in B.
      rewrite (B (nth (id - next) (ar_births (annotate next ids rb)) dbirth)); [reflexivity|]. apply nth_In.
      change (id - next < length (ar_births (annotate next ids rb)))%nat. lia.
  - apply Nat.ltb_ge in E. destruct (IH next' ids' _ id A' L' K2) as (A1 & A2 & A3 & E1 & N2 & F1 & F2 & F3 & Es); [lia|].
    exists (annotate next ids rb :: A1), A2, A3. rewrite E1. repeat split; auto.
    + constructor; auto. unfold inA. rewrite annotate_ids. apply mem_false. intros Hx. apply (proj2 A') in Hx. lia.
    + rewrite app_nth2 by lia. rewrite Lb. replace (id - next - (next' - next))%nat with (id - next')%nat by lia.
      rewrite <- E1. exact Es.
Qed.

(** ** the whole log *)
Definition births_of (ann : list (arnd R)) : list (birth R) := flat_map (@ar_births R) ann.
Definition n_demes (lg : elog R) : nat := length (births_of (annotated lg)).

Lemma log_life lg id : log_ok lg -> (id < n_demes lg)%nat ->
  life (annotated lg) id (b_start (nth id (births_of (annotated lg)) dbirth)).
Proof.
  intros K Hid. unfold n_demes, births_of, annotated in *. cbn [flat_map init_ar ar_births app length] in *.
  assert (A : okids [0%nat] 1) by (apply asc_okids; cbn; lia).
  assert (K' : lokr 1 (timed (l_rounds lg))) by (apply lok_lokr; unfold lok; now rewrite timed_fst).
  destruct id as [|id].
  - destruct (scan_alive (timed (l_rounds lg)) 1 [0%nat] 1 0%nat A eq_refl K') as (A2 & A3 & E1 & F2 & F3); [now left|].
    exists [], (init_ar lg :: A2), A3. rewrite E1. repeat split; auto; try discriminate.
  - rewrite scan_births_len in Hid.
    destruct (scan_born (timed (l_rounds lg)) 1 [0%nat] 1 (S id) A eq_refl K') as (A1 & A2 & A3 & E1 & N2 & F1 & F2 & F3 & Es); [lia|].
    exists (init_ar lg :: A1), A2, A3. rewrite E1. repeat split; auto.
    cbn [nth]. replace (S id - 1)%nat with id in Es by lia. rewrite <- E1. exact Es.
Qed.

Lemma log_chain lg : log_ok lg -> achain Inf (annotated lg).
Proof.
  intros K. unfold annotated. cbn [achain]. split; [reflexivity|]. split; [reflexivity|].
  unfold b_of. cbn [init_ar ar_stage sg_b]. eapply scan_chain; [apply timed_chain|]. apply lok_lokr. unfold lok. rewrite timed_fst. exact K.
Qed.

(** ** order of two records of a chain *)
Lemma chain_split top A B x y : achain top (A ++ B) -> In x A -> In y B ->
  tleb (a_of y) (Fin (b_of x)) = true /\ tlt (Fin (b_of y)) (Fin (b_of x)) /\ tlt (a_of y) (a_of x).
Proof.
  intros C Hx Hy. apply in_split in Hx as (A1 & A2 & ->). apply in_split in Hy as (B1 & B2 & ->).
  apply (before_order top _ x y C). exists A1, (A2 ++ B1), B2. rewrite <- app_assoc. cbn [app]. now rewrite <- app_assoc.
Qed.

Lemma last_app_cons {A} (U : list A) x V d : last (U ++ x :: V) d = last (x :: V) d.
Proof.
  induction U as [|u U IH]; auto. cbn [app]. rewrite <- IH. destruct (U ++ x :: V) eqn:E; [destruct U; discriminate|]. reflexivity.
Qed.
Lemma last_In {A} (l : list A) d : l <> [] -> In (last l d) l.
Proof. induction l as [|x l IH]; [congruence|]. intros _. destruct l as [|y l]; [now left|]. right. apply IH. discriminate. Qed.
Lemma in_last_or {A} (l : list A) x d : In x l -> x = last l d \/ exists U V, l = U ++ x :: V /\ In (last l d) V.
Proof.
  intros Hx. apply in_split in Hx as (U & V & ->). rewrite last_app_cons. destruct V as [|v V]; [now left|]. right.
  exists U, (v :: V). split; auto. change (last (x :: v :: V) d) with (last (v :: V) d). apply last_In. discriminate.
Qed.

(** ** the demes of the graph *)
Definition the_epoch (id : nat) (sg : stage R) : epoch R :=
  let s := nth (match index_of id (sg_ids sg) with Some j => j | None => 0%nat end) (sg_sizes sg) (1, 1, SConstant) in
  mkEpoch (sg_a sg) (sg_b sg) (fst (fst s)) (snd (fst s)) (snd s).
Lemma stage_epoch_in id (sg : stage R) : mem id (sg_ids sg) = true -> stage_epoch id sg = [the_epoch id sg].
Proof.
  intros M. apply mem_In in M. destruct (index_of_In _ _ M) as [j Ej]. unfold stage_epoch, the_epoch. now rewrite Ej.
Qed.
Lemma stage_epoch_out id (sg : stage R) : mem id (sg_ids sg) = false -> stage_epoch id sg = [].
Proof. intros M. apply mem_false in M. apply index_of_None in M. unfold stage_epoch. now rewrite M. Qed.

Lemma epochs_out id A : Forall (fun ar => inA id ar = false) A -> epochs_of id (map (@ar_stage R) A) = [].
Proof. induction 1 as [|ar A H _ IH]; auto. unfold epochs_of in *. cbn [map flat_map]. rewrite IH, stage_epoch_out; auto. Qed.
Lemma epochs_in id A : Forall (fun ar => inA id ar = true) A ->
  epochs_of id (map (@ar_stage R) A) = map (fun ar => the_epoch id (ar_stage ar)) A.
Proof. induction 1 as [|ar A H _ IH]; auto. unfold epochs_of in *. cbn [map flat_map]. rewrite IH, stage_epoch_in; auto. Qed.
Lemma epochs_life id A1 A2 A3 :
  Forall (fun ar => inA id ar = false) A1 -> Forall (fun ar => inA id ar = true) A2 -> Forall (fun ar => inA id ar = false) A3 ->
  epochs_of id (map (@ar_stage R) (A1 ++ A2 ++ A3)) = map (fun ar => the_epoch id (ar_stage ar)) A2.
Proof.
  intros F1 F2 F3. rewrite !map_app. unfold epochs_of. rewrite !flat_map_app.
  fold (epochs_of id (map (@ar_stage R) A1)). fold (epochs_of id (map (@ar_stage R) A2)). fold (epochs_of id (map (@ar_stage R) A3)).
  rewrite (epochs_out _ _ F1), (epochs_out _ _ F3), (epochs_in _ _ F2). now rewrite app_nil_r.
Qed.

Definition mkd (stages : list (stage R)) (ib : nat * birth R) : deme R :=
  mkDeme (fst ib) (b_start (snd ib)) (b_anc (snd ib)) (epochs_of (fst ib) stages).
Lemma mk_demes_eq stages births : mk_demes stages births = map (mkd stages) (combine (seq 0 (length births)) births).
Proof. reflexivity. Qed.

Lemma find_mkd stages id : forall births lo, (lo <= id < lo + length births)%nat ->
  find (fun d => Nat.eqb (d_id d) id) (map (mkd stages) (combine (seq lo (length births)) births))
  = Some (mkd stages (id, nth (id - lo) births dbirth)).
Proof.
  induction births as [|b births IH]; intros lo L; [cbn in L; lia|]. cbn [length seq combine map find mkd d_id fst].
  destruct (Nat.eqb lo id) eqn:E.
  - apply Nat.eqb_eq in E. subst. now rewrite Nat.sub_diag.
  - apply Nat.eqb_neq in E. rewrite IH by (cbn in L; lia). replace (id - lo)%nat with (S (id - S lo)) by lia. reflexivity.
Qed.

Lemma srt_In n ids x : (forall y, In y ids -> (y < n)%nat) -> (In x (srt n ids) <-> In x ids).
Proof.
  intros B. unfold srt. rewrite filter_In, in_seq. split.
  - intros [_ M]. now apply mem_In.
  - intros Hx. split; [apply B in Hx; lia|now apply mem_In].
Qed.
Lemma srt_asc n ids : asc 0 ids n -> srt n ids = ids.
Proof. intros A. pose proof (filter_mem_seq _ _ _ A) as E. now rewrite Nat.sub_0_r in E. Qed.
Lemma srt_NoDup n ids : NoDup (srt n ids).
Proof. unfold srt. apply NoDup_filter. apply seq_NoDup. Qed.

(** ** the graph of a chain of records in which every name has one contiguous life *)
Section Raw.
  Variable ann : list (arnd R).
  Variable top : timeR.
  Let births := births_of ann.
  Let n := length births.
  Let stages := map (@ar_stage R) ann.
  Let G := raw_graph_of ann.
  Hypothesis Hchain : achain top ann.
  Hypothesis Hlife : forall id, (id < n)%nat -> life ann id (b_start (nth id births dbirth)).
  Hypothesis Hstart : Forall (fun ar => Forall (fun b => b_start b = a_of ar) (ar_births ar)) ann.
  Hypothesis Hids : Forall (fun ar => okids (ids_of ar) n /\ ids_of ar <> []) ann.
  Hypothesis Hpulse : Forall (fun ar => Forall (fun p => Fin (p_time p) = a_of ar) (ar_pulses ar)) ann.
  Hypothesis Hne : ann <> [].

  Definition deme_of (id : nat) : deme R := mkd stages (id, nth id births dbirth).

  Lemma find_deme_raw id : (id < n)%nat -> find_deme G id = Some (deme_of id).
  Proof.
    intros L. unfold find_deme, G, raw_graph_of. cbn [g_demes]. rewrite mk_demes_eq.
    fold births. rewrite (find_mkd _ id births 0%nat) by (fold n; lia). now rewrite Nat.sub_0_r.
  Qed.

  Lemma g_demes_raw : g_demes G = map deme_of (seq 0 n).
  Proof.
    unfold G, raw_graph_of, n, births, births_of. cbn [g_demes]. rewrite mk_demes_eq. fold stages.
    set (bs := flat_map (@ar_births R) ann).
    apply nth_ext with (d := mkd stages (0%nat, dbirth)) (d' := mkd stages (0%nat, dbirth)).
    - rewrite !map_length, combine_length, !seq_length. lia.
    - intros i Li. rewrite map_length, combine_length, seq_length, Nat.min_id in Li.
      rewrite (map_nth (mkd stages)), combine_nth by (rewrite seq_length; reflexivity).
      rewrite (nth_indep _ _ (deme_of 0%nat)) by (rewrite map_length, seq_length; exact Li).
      rewrite (map_nth deme_of). rewrite !seq_nth by lia. reflexivity.
  Qed.

  Lemma deme_life id : (id < n)%nat -> exists A1 A2 A3, ann = A1 ++ A2 ++ A3 /\ A2 <> []
    /\ Forall (fun ar => inA id ar = false) A1 /\ Forall (fun ar => inA id ar = true) A2 /\ Forall (fun ar => inA id ar = false) A3
    /\ d_start (deme_of id) = a_of (hd dar A2)
    /\ d_epochs (deme_of id) = map (fun ar => the_epoch id (ar_stage ar)) A2
    /\ d_end (deme_of id) = b_of (last A2 dar).
  Proof.
    intros L. destruct (Hlife id L) as (A1 & A2 & A3 & E & N2 & F1 & F2 & F3 & Es).
    exists A1, A2, A3. repeat split; auto.
    - unfold deme_of, mkd. cbn [d_epochs fst]. unfold stages. rewrite E. apply epochs_life; auto.
    - unfold d_end, deme_of, mkd. cbn [d_epochs fst]. unfold stages. rewrite E, epochs_life by auto.
      rewrite (last_map_ne _ _ dar) by auto. reflexivity.
  Qed.

  Lemma covers_raw id ar : (id < n)%nat -> In ar ann -> covers (win ar) (deme_of id) = inA id ar.
  Proof.
    intros L Har. destruct (deme_life id L) as (A1 & A2 & A3 & E & N2 & F1 & F2 & F3 & Es & _ & Ee).
    unfold covers, win. cbn [fst snd]. rewrite Es, Ee.
    destruct A2 as [|h A2']; [congruence|]. cbn [hd]. set (t := last (h :: A2') dar) in *.
    assert (Ht : In t (h :: A2')) by (apply last_In; discriminate).
    rewrite Forall_forall in F1, F2, F3. rewrite E in Har, Hchain.
    apply in_app_or in Har as [H1|Har]; [|apply in_app_or in Har as [H2|H3]].
    - rewrite (F1 _ H1). destruct (chain_split _ _ _ ar h Hchain H1) as (_ & _ & O); [apply in_or_app; left; now left|].
      rewrite O. reflexivity.
    - rewrite (F2 _ H2). apply andb_true_intro. split.
      + destruct H2 as [<-|H2]; [apply tleb_refl|].
        assert (C' : achain top ((A1 ++ [h]) ++ (A2' ++ A3))).
        { replace ((A1 ++ [h]) ++ A2' ++ A3) with (A1 ++ (h :: A2') ++ A3); [exact Hchain|]. rewrite <- app_assoc. reflexivity. }
        destruct (chain_split _ _ _ h ar C') as (_ & _ & O); [apply in_or_app; right; now left|apply in_or_app; now left|].
        now apply tlt_tleb.
      + destruct (in_last_or _ _ dar H2) as [->|(U & V & EV & HV)]; [apply tleb_refl|]. fold t in HV.
        assert (C' : achain top ((A1 ++ U ++ [ar]) ++ (V ++ A3))).
        { replace ((A1 ++ U ++ [ar]) ++ V ++ A3) with (A1 ++ (h :: A2') ++ A3); [exact Hchain|].
          rewrite EV. rewrite <- !app_assoc. reflexivity. }
        destruct (chain_split _ _ _ ar t C') as (_ & O & _);
          [apply in_or_app; right; apply in_or_app; right; now left|apply in_or_app; now left|].
        now apply tlt_tleb.
    - rewrite (F3 _ H3). rewrite app_assoc in Hchain.
      destruct (chain_split _ _ _ t ar Hchain) as (_ & O & _); [apply in_or_app; now right|auto|].
      unfold tlt in O. rewrite O. apply andb_false_r.
  Qed.

  Lemma starts_desc : wdesc (g_demes G).
  Proof.
    assert (T : forall l top', achain top' l -> Forall (fun ar => Forall (fun b => b_start b = a_of ar) (ar_births ar)) l ->
      forall lo, wdesc (map (mkd stages) (combine (seq lo (length (births_of l))) (births_of l)))
                 /\ forall b, In b (births_of l) -> tleb (b_start b) top' = true).
    { clear. induction l as [|ar l IH]; intros top' C S lo; [cbn; tauto|].
      destruct C as (C1 & C2 & C3). apply Forall_cons_iff in S as [S1 S2].
      unfold births_of. cbn [flat_map]. fold (births_of l).
      assert (Hlater : forall b, In b (births_of l) -> tleb (b_start b) (a_of ar) = true).
      { intros b Hb. destruct (IH _ C3 S2 0%nat) as [_ IH2]. specialize (IH2 b Hb). rewrite C1. eapply tleb_trans; eauto. now apply tlt_tleb. }
      split.
      - rewrite Forall_forall in S1. revert lo. induction (ar_births ar) as [|b bs IHb]; intros lo.
        + cbn [app]. apply (IH _ C3 S2 lo).
        + cbn [app length seq combine map wdesc]. split; [|apply IHb; intros; apply S1; now right].
          intros d' Hd'. apply in_map_iff in Hd' as ([i b'] & <- & Hib). apply in_combine_r in Hib. cbn [mkd d_start snd].
          rewrite (S1 b) by now left. apply in_app_or in Hib as [Hb'|Hb'].
          * rewrite (S1 b') by now right. apply tleb_refl.
          * auto.
      - intros b Hb. apply in_app_or in Hb as [Hb|Hb].
        + rewrite Forall_forall in S1. rewrite (S1 b Hb), C1. apply tleb_refl.
        + rewrite <- C1. auto. }
    unfold G, raw_graph_of. cbn [g_demes]. rewrite mk_demes_eq. apply (T ann top Hchain Hstart 0%nat).
  Qed.

  Lemma present_srt ar : In ar ann -> present G (win ar) = srt n (ids_of ar).
  Proof.
    intros Har. unfold present, ordered_demes. rewrite (ordered_demes_sorted _ starts_desc).
    rewrite g_demes_raw, filter_map, map_map. cbn [deme_of mkd d_id fst]. rewrite map_id.
    apply filter_ext_in. intros id Hid. apply in_seq in Hid. apply covers_raw; auto. lia.
  Qed.
  Lemma present_raw ar : In ar ann -> asc 0 (ids_of ar) n -> present G (win ar) = ids_of ar.
  Proof. intros Har A. rewrite present_srt by auto. now apply srt_asc. Qed.

  (** *** integration intervals *)
  Lemma stage_epoch_times id (sg : stage R) e : In e (stage_epoch id sg) -> e_start e = sg_a sg /\ e_end e = sg_b sg.
  Proof. unfold stage_epoch. destruct (index_of id (sg_ids sg)); [|intros []]. intros [<-|[]]. split; reflexivity. Qed.
  Lemma stage_migs_times (sg : stage R) m : In m (stage_migs sg) -> m_start m = sg_a sg /\ m_end m = sg_b sg.
  Proof.
    unfold stage_migs. intros K. apply in_flat_map in K as (abm & _ & K). destruct (snd abm =? n0)%num; [destruct K|].
    destruct K as [<-|[]]. split; reflexivity.
  Qed.

  Lemma deme_in id : (id < n)%nat -> In (deme_of id) (g_demes G).
  Proof. intros L. rewrite g_demes_raw. apply in_map. apply in_seq. lia. Qed.

  Lemma break_points_raw y : In y (break_points G) <-> In y (bounds top ann).
  Proof.
    split.
    - intros Hy. unfold break_points in Hy. apply in_app_or in Hy as [Hy|Hy]; [|apply in_app_or in Hy as [Hy|Hy]].
      + apply in_flat_map in Hy as (d & Hd & Hy). rewrite g_demes_raw in Hd. apply in_map_iff in Hd as (id & <- & Hid).
        apply in_flat_map in Hy as (e & He & Hy). unfold deme_of, mkd in He. cbn [d_epochs fst] in He.
        unfold epochs_of in He. apply in_flat_map in He as (sg & Hsg & He). unfold stages in Hsg.
        apply in_map_iff in Hsg as (ar & <- & Har). apply stage_epoch_times in He as [E1 E2].
        destruct (a_in_bounds _ _ _ Hchain Har) as [I1 I2].
        destruct Hy as [<-|[<-|[]]]; [rewrite E1|rewrite E2]; auto.
      + apply in_map_iff in Hy as (p & <- & Hp). unfold G, raw_graph_of in Hp. cbn [g_pulses] in Hp.
        apply in_flat_map in Hp as (ar & Har & Hp). rewrite Forall_forall in Hpulse. specialize (Hpulse _ Har).
        rewrite Forall_forall in Hpulse. rewrite (Hpulse _ Hp). apply (a_in_bounds _ _ _ Hchain Har).
      + apply in_flat_map in Hy as (m & Hm & Hy). unfold G, raw_graph_of in Hm. cbn [g_migs] in Hm.
        apply in_flat_map in Hm as (sg & Hsg & Hm). apply in_map_iff in Hsg as (ar & <- & Har).
        apply stage_migs_times in Hm as [E1 E2]. destruct (a_in_bounds _ _ _ Hchain Har) as [I1 I2].
        destruct Hy as [<-|[<-|[]]]; [rewrite E1|rewrite E2]; auto.
    - assert (K : forall ar, In ar ann -> In (a_of ar) (break_points G) /\ In (Fin (b_of ar)) (break_points G)).
      { intros ar Har. rewrite Forall_forall in Hids. destruct (Hids _ Har) as [A N].
        destruct (ids_of ar) as [|id r] eqn:E; [congruence|]. assert (Hin : In id (ids_of ar)) by (rewrite E; now left).
        rewrite <- E in A. pose proof (proj2 A _ Hin) as L.
        assert (He : In (the_epoch id (ar_stage ar)) (d_epochs (deme_of id))).
        { unfold deme_of, mkd. cbn [d_epochs fst]. unfold epochs_of. apply in_flat_map. exists (ar_stage ar).
          split; [unfold stages; now apply in_map|]. rewrite stage_epoch_in; [now left|]. now apply mem_In. }
        unfold break_points. split; apply in_or_app; left; apply in_flat_map; exists (deme_of id); (split; [apply deme_in; lia|]);
          apply in_flat_map; exists (the_epoch id (ar_stage ar)); (split; [exact He|]); cbn; auto. }
      intros [<-|Hy].
      + destruct ann as [|ar0 l]; [congruence|]. destruct Hchain as (C1 & _). rewrite <- C1. apply K. now left.
      + apply in_map_iff in Hy as (ar & <- & Har). now apply K.
  Qed.

  Lemma intervals_raw : intervals G = map win ann.
  Proof.
    unfold intervals. rewrite (sort_desc_eq _ (bounds top ann)).
    - now apply bounds_windows.
    - now apply bounds_sdesc.
    - apply break_points_raw.
  Qed.

  Lemma used_intervals_raw : used_intervals G = map win ann.
  Proof.
    unfold used_intervals. rewrite intervals_raw. apply filter_all. intros iv Hiv. apply in_map_iff in Hiv as (ar & <- & Har).
    rewrite present_srt by auto. rewrite Forall_forall in Hids. destruct (Hids _ Har) as [[_ B] N].
    destruct (ids_of ar) as [|x r] eqn:E; [congruence|].
    assert (Hx : In x (srt n (x :: r))) by (apply srt_In; auto; now left). destruct (srt n (x :: r)); [destruct Hx|reflexivity].
  Qed.

  (** *** sizes *)
  Lemma find_skip {A} (p : A -> bool) U l : (forall x, In x U -> p x = false) -> find p (U ++ l) = find p l.
  Proof. induction U as [|u U IH]; intros K; auto. cbn. rewrite K by now left. apply IH. intros; apply K; now right. Qed.

  Lemma sizes_raw ar id : In ar ann -> In id (ids_of ar) ->
    sizes_at_time (deme_of id) (win ar)
    = (e_s0 (the_epoch id (ar_stage ar)), e_s1 (the_epoch id (ar_stage ar)), e_fn (the_epoch id (ar_stage ar))).
  Proof.
    intros Har Hin. rewrite Forall_forall in Hids. destruct (Hids _ Har) as [A _]. pose proof (proj2 A _ Hin) as L.
    destruct (deme_life id) as (A1 & A2 & A3 & E & N2 & F1 & F2 & F3 & _ & Ee & _); [lia|].
    rewrite Forall_forall in F1, F2, F3. assert (M : inA id ar = true) by (apply mem_In; exact Hin).
    assert (H2 : In ar A2).
    { rewrite E in Har. apply in_app_or in Har as [H|Har]; [rewrite (F1 _ H) in M; discriminate|].
      apply in_app_or in Har as [H|H]; auto. rewrite (F3 _ H) in M; discriminate. }
    apply in_split in H2 as (U & V & EV).
    assert (Ef : epoch_for (deme_of id) (win ar) = the_epoch id (ar_stage ar)).
    { unfold epoch_for. rewrite Ee, EV, map_app. rewrite find_skip.
      - cbn [map find]. unfold epoch_covers, win. cbn [fst snd the_epoch e_start e_end]. fold (a_of ar). fold (b_of ar).
        now rewrite !tleb_refl.
      - intros e He. apply in_map_iff in He as (x & <- & Hx). unfold epoch_covers, win. cbn [fst snd the_epoch e_start e_end].
        fold (a_of x). fold (b_of x).
        assert (C' : achain top ((A1 ++ U) ++ (ar :: V ++ A3))).
        { replace ((A1 ++ U) ++ ar :: V ++ A3) with ann; auto. rewrite E, EV. rewrite <- !app_assoc. reflexivity. }
        destruct (chain_split _ _ _ x ar C') as (_ & O & _); [apply in_or_app; now right|now left|].
        unfold tlt in O. rewrite O. apply andb_false_r. }
    unfold sizes_at_time. rewrite Ef. unfold win. cbn [fst snd the_epoch e_start e_end e_s0 e_s1 e_fn].
    fold (a_of ar). fold (b_of ar). now rewrite !teqb_refl.
  Qed.

  (** *** migration rates *)
  Lemma fold_rate (p : mig R -> bool) l v : (forall m, In m l -> p m = true -> m_rate m = v) ->
    forall acc, (acc = v \/ exists m, In m l /\ p m = true) -> fold_left (fun r m => if p m then m_rate m else r) l acc = v.
  Proof.
    induction l as [|m l IH]; intros K acc Hacc; cbn [fold_left].
    - destruct Hacc as [->|(m & [] & _)]; auto.
    - apply IH; [intros; apply K; auto; now right|]. destruct (p m) eqn:E.
      + left. apply K; auto. now left.
      + destruct Hacc as [->|(m' & [<-|Hm'] & Pm')]; auto; [congruence|]. right; eauto.
  Qed.

  Lemma mig_rate_raw ar v src dst : In ar ann ->
    (forall m, In m (stage_migs (ar_stage ar)) -> m_src m = src -> m_dst m = dst -> m_rate m = v) ->
    (v = 0 \/ exists m, In m (stage_migs (ar_stage ar)) /\ m_src m = src /\ m_dst m = dst) ->
    mig_rate G src dst (win ar) = v.
  Proof.
    intros Har K1 K2. unfold mig_rate.
    apply (fold_rate (fun m => Nat.eqb (m_src m) src && Nat.eqb (m_dst m) dst && tleb (fst (win ar)) (m_start m)
                                && tleb (Fin (m_end m)) (snd (win ar)))).
    - intros m Hm Pm. unfold G, raw_graph_of in Hm. cbn [g_migs] in Hm. apply in_flat_map in Hm as (sg & Hsg & Hm).
      apply in_map_iff in Hsg as (x & <- & Hx). destruct (stage_migs_times _ _ Hm) as [E1 E2].
      apply andb_prop in Pm as [Pm P4]. apply andb_prop in Pm as [Pm P3]. apply andb_prop in Pm as [P1 P2].
      apply Nat.eqb_eq in P1, P2. unfold win in P3, P4. cbn [fst snd] in P3, P4. rewrite E1 in P3. rewrite E2 in P4.
      fold (a_of x) in P3. fold (b_of x) in P4.
      apply in_split in Har as (P & Q & EPQ). rewrite EPQ in Hx, Hchain.
      apply in_app_or in Hx as [Hx|[<-|Hx]].
      + destruct (chain_split _ _ _ x ar Hchain Hx) as (_ & O & _); [now left|]. unfold tlt in O. congruence.
      + auto.
      + assert (C' : achain top ((P ++ [ar]) ++ Q)) by (rewrite <- app_assoc; exact Hchain).
        destruct (chain_split _ _ _ ar x C') as (_ & _ & O); [apply in_or_app; right; now left|auto|]. unfold tlt in O. congruence.
    - destruct K2 as [->|(m & Hm & E1 & E2)]; [now left|]. right. exists m. split.
      + unfold G, raw_graph_of. cbn [g_migs]. apply in_flat_map. exists (ar_stage ar). split; auto. now apply in_map.
      + destruct (stage_migs_times _ _ Hm) as [T1 T2]. rewrite E1, E2, !Nat.eqb_refl. unfold win. cbn [fst snd andb].
        rewrite T1, T2. fold (a_of ar). now rewrite !tleb_refl.
  Qed.

  (** *** the migration arguments of the integration call *)
  Lemma offdiag_in d a b : In (a, b) (offdiag d) <-> (a < d /\ b < d /\ a <> b)%nat.
  Proof.
    unfold offdiag. rewrite in_flat_map. split.
    - intros (a' & Ha' & K). apply in_flat_map in K as (b' & Hb' & K). apply in_seq in Ha', Hb'.
      destruct (Nat.eqb a' b') eqn:E; [destruct K|]. destruct K as [K|[]]. injection K as <- <-. apply Nat.eqb_neq in E. lia.
    - intros (La & Lb & N). exists a. split; [apply in_seq; lia|]. apply in_flat_map. exists b. split; [apply in_seq; lia|].
      apply Nat.eqb_neq in N. rewrite N. now left.
  Qed.
  Lemma offdiag_NoDup d : NoDup (offdiag d).
  Proof.
    unfold offdiag. apply NoDup_flat_map; [apply seq_NoDup| |].
    - intros a _. apply NoDup_flat_map; [apply seq_NoDup| |].
      + intros b _. destruct (Nat.eqb a b); repeat constructor. intros [].
      + intros x y z _ _ Hx Hy. destruct (Nat.eqb a x); [destruct Hx|]. destruct (Nat.eqb a y); [destruct Hy|].
        destruct Hx as [<-|[]]. destruct Hy as [K|[]]. now injection K.
    - intros x y z _ _ Hx Hy. apply in_flat_map in Hx as (b & _ & Hx). apply in_flat_map in Hy as (b' & _ & Hy).
      destruct (Nat.eqb x b); [destruct Hx|]. destruct (Nat.eqb y b'); [destruct Hy|].
      destruct Hx as [<-|[]]. destruct Hy as [K|[]]. now injection K.
  Qed.

  Lemma mig_list_raw ar : In ar ann -> length (sg_mig (ar_stage ar)) = length (offdiag (length (ids_of ar))) ->
    map (fun ab => mig_rate G (nth (snd ab) (ids_of ar) 0%nat) (nth (fst ab) (ids_of ar) 0%nat) (win ar)) (offdiag (length (ids_of ar)))
    = sg_mig (ar_stage ar).
  Proof.
    intros Har Lm. rewrite Forall_forall in Hids. destruct (Hids _ Har) as [A _]. pose proof (proj1 A) as ND.
    set (ids := ids_of ar) in *. set (od := offdiag (length ids)) in *. set (mg := sg_mig (ar_stage ar)) in *.
    apply nth_ext with (d := 0) (d' := 0); [now rewrite map_length|]. intros k Lk. rewrite map_length in Lk.
    rewrite (nth_indep _ _ (mig_rate G (nth (snd (0%nat, 0%nat)) ids 0%nat) (nth (fst (0%nat, 0%nat)) ids 0%nat) (win ar)))
      by (now rewrite map_length).
    rewrite (map_nth (fun ab => mig_rate G (nth (snd ab) ids 0%nat) (nth (fst ab) ids 0%nat) (win ar))).
    destruct (nth k od (0%nat, 0%nat)) as [a b] eqn:Eab. cbn [fst snd].
    assert (Iab : In (a, b) od) by (rewrite <- Eab; now apply nth_In). apply offdiag_in in Iab as (La & Lb & Nab).
    assert (Lc : (k < length (combine od mg))%nat) by (rewrite combine_length; lia).
    apply mig_rate_raw; auto.
    - intros m Hm E1 E2. unfold stage_migs in Hm. apply in_flat_map in Hm as ([[a' b'] m'] & Hc & Hm).
      cbn [fst snd] in Hm. destruct (m' =? n0)%num; [destruct Hm|]. destruct Hm as [<-|[]]. cbn [m_src m_dst m_rate] in *.
      fold ids in E1, E2. change (offdiag (length (sg_ids (ar_stage ar)))) with od in Hc.
      destruct (In_nth _ _ ((0%nat, 0%nat), 0) Hc) as (k' & Lk' & Ek'). rewrite combine_nth in Ek' by auto.
      injection Ek' as Ek1 Ek2.
      assert (Iab' : In (a', b') od) by (rewrite <- Ek1; apply nth_In; rewrite combine_length in Lk'; lia).
      apply offdiag_in in Iab' as (La' & Lb' & _).
      rewrite (NoDup_nth ids 0%nat) in ND. apply ND in E1; auto. apply ND in E2; auto. subst a' b'.
      pose proof (offdiag_NoDup (length ids)) as NO. fold od in NO. rewrite (NoDup_nth od (0%nat, 0%nat)) in NO.
      assert (k' = k). { apply NO; auto; [rewrite combine_length in Lk'; lia|]. now rewrite Ek1, Eab. }
      subst k'. symmetry. exact Ek2.
    - destruct (Reqb (nth k mg 0) 0) eqn:Ev; [left; now apply Reqb_true|]. right.
      exists (mkMig (nth b ids 0%nat) (nth a ids 0%nat) (sg_a (ar_stage ar)) (sg_b (ar_stage ar)) (nth k mg 0)).
      split; [|split; reflexivity]. unfold stage_migs. apply in_flat_map. exists ((a, b), nth k mg 0). split.
      + fold ids. fold od. fold mg. rewrite <- Eab, <- combine_nth by auto. now apply nth_In.
      + cbn [fst snd]. numR. rewrite Ev. now left.
  Qed.

  (** *** the step the importer builds for a window *)
  Lemma sizes_list_raw ar : In ar ann -> length (sg_sizes (ar_stage ar)) = length (ids_of ar) ->
    map (fun id => match find_deme G id with Some d => sizes_at_time d (win ar) | None => (1, 1, SConstant) end) (ids_of ar)
    = sg_sizes (ar_stage ar).
  Proof.
    intros Har Ls. pose proof Hids as Hids'. rewrite Forall_forall in Hids'. destruct (Hids' _ Har) as [A _]. pose proof (proj1 A) as ND.
    apply nth_ext with (d := (1, 1, SConstant)) (d' := (1, 1, SConstant)); [now rewrite map_length|].
    intros i Li. rewrite map_length in Li.
    set (h := fun id => match find_deme G id with Some d => sizes_at_time d (win ar) | None => (1, 1, SConstant) end).
    rewrite (nth_indep _ _ (h 0%nat)) by (now rewrite map_length). rewrite (map_nth h). unfold h.
    assert (Hin : In (nth i (ids_of ar) 0%nat) (ids_of ar)) by now apply nth_In.
    pose proof (proj2 A _ Hin) as L. rewrite find_deme_raw by lia. rewrite sizes_raw by auto.
    unfold the_epoch. cbn [e_s0 e_s1 e_fn]. fold (ids_of ar). rewrite index_of_nth_NoDup by auto.
    destruct (nth i (sg_sizes (ar_stage ar)) (1, 1, SConstant)) as [[s0 s1] k]. reflexivity.
  Qed.

  Lemma integ_raw ar : In ar ann -> asc 0 (ids_of ar) n -> (1 <= length (ids_of ar) <= 5)%nat ->
    length (sg_sizes (ar_stage ar)) = length (ids_of ar) ->
    length (sg_mig (ar_stage ar)) = length (offdiag (length (ids_of ar))) ->
    let stp := rawstep G (win ar) in
    st_live stp = ids_of ar /\ st_iv stp = win ar /\ st_T stp = rawT (win ar) /\
    exists f, int_fname (length (ids_of ar)) = Some f /\
    integ_calls std_wirings (ids_of ar) (st_T stp) (st_nus stp) (st_M stp) (st_fr stp)
    = [mkCall f (rawT (win ar)) (make_nu_func (sg_sizes (ar_stage ar)) (rawT (win ar)) 1) (sg_mig (ar_stage ar))
              (repeat false (length (ids_of ar))) [] (ids_of ar)].
  Proof.
    intros Har Hasc Ld Ls Lm. cbv zeta. unfold rawstep. cbn [st_live st_iv st_T st_nus st_M st_fr].
    rewrite (present_raw ar Har Hasc). rewrite (sizes_list_raw ar Har Ls). repeat split.
    pose proof Hids as Hids'. rewrite Forall_forall in Hids'. destruct (Hids' _ Har) as [A _]. pose proof (proj1 A) as ND.
    set (ids := ids_of ar) in *.
    set (M := map (fun d_to => map (fun d_from => if Nat.eqb d_from d_to then 0 else mig_rate G d_from d_to (win ar)) ids) ids).
    set (nus := make_nu_func (sg_sizes (ar_stage ar)) (rawT (win ar)) 1).
    assert (Lnus : length nus = length ids).
    { unfold nus, make_nu_func. destruct (forallb _ _); rewrite map_length; exact Ls. }
    destruct (integ_call_wired ids (rawT (win ar)) nus M (map (fun id => mem id []) ids) Ld Lnus (map_length _ _)) as (f & Ef & Ec).
    exists f. split; auto. rewrite Ec. f_equal. f_equal.
    - rewrite <- (mig_list_raw ar Har Lm). fold ids. apply map_ext_in. intros [a b] Iab. apply offdiag_in in Iab as (La & Lb & Nab).
      cbn [fst snd]. unfold M.
      rewrite (nth_indep _ _ ((fun d_to => map (fun d_from => if Nat.eqb d_from d_to then 0 else mig_rate G d_from d_to (win ar)) ids) 0%nat))
        by (now rewrite map_length).
      rewrite (map_nth (fun d_to => map (fun d_from => if Nat.eqb d_from d_to then 0 else mig_rate G d_from d_to (win ar)) ids)).
      set (g := fun d_from => if Nat.eqb d_from (nth a ids 0%nat) then 0 else mig_rate G d_from (nth a ids 0%nat) (win ar)).
      rewrite (nth_indep _ _ (g 0%nat)) by (now rewrite map_length). rewrite (map_nth g). unfold g.
      destruct (Nat.eqb (nth b ids 0%nat) (nth a ids 0%nat)) eqn:E; auto. apply Nat.eqb_eq in E.
      rewrite (NoDup_nth ids 0%nat) in ND. apply ND in E; auto. lia.
    - generalize ids. intros l. induction l; cbn [map length repeat]; auto. f_equal; auto.
  Qed.

  (** the same with the demes in creation order, every argument looked up by name *)
  Lemma srt_length ids0 : okids ids0 n -> length (srt n ids0) = length ids0.
  Proof.
    intros [N B]. apply Nat.le_antisymm; apply NoDup_incl_length; auto; try apply srt_NoDup; intros x Hx; apply (srt_In n ids0 x B); auto.
  Qed.
  Lemma pos_pair_nth ab l : In ab l -> (pos_pair ab l < length l)%nat /\ nth (pos_pair ab l) l (0%nat, 0%nat) = ab.
  Proof.
    induction l as [|x l IH]; intros Hin; [destruct Hin|]. cbn [pos_pair].
    destruct (Nat.eqb (fst x) (fst ab) && Nat.eqb (snd x) (snd ab)) eqn:E.
    - apply andb_prop in E as [E1 E2]. apply Nat.eqb_eq in E1, E2. split; [cbn; lia|]. cbn. destruct x, ab; cbn in *; congruence.
    - destruct Hin as [->|Hin]; [rewrite !Nat.eqb_refl in E; discriminate|]. destruct (IH Hin) as [I1 I2]. split; [cbn; lia|exact I2].
  Qed.
  Lemma pos_of_nth ids0 x : In x ids0 -> (pos_of x ids0 < length ids0)%nat /\ nth (pos_of x ids0) ids0 0%nat = x.
  Proof. intros Hx. destruct (index_of_In _ _ Hx) as [j Ej]. unfold pos_of. rewrite Ej. now apply index_of_Some. Qed.

  Lemma mig_lookup_raw ar x y : In ar ann -> length (sg_mig (ar_stage ar)) = length (offdiag (length (ids_of ar))) ->
    In x (ids_of ar) -> In y (ids_of ar) -> x <> y ->
    mig_rate G y x (win ar)
    = nth (pos_pair (pos_of x (ids_of ar), pos_of y (ids_of ar)) (offdiag (length (ids_of ar)))) (sg_mig (ar_stage ar)) 0.
  Proof.
    intros Har Lm Hx Hy Nxy. destruct (pos_of_nth _ _ Hx) as [Lx Ex]. destruct (pos_of_nth _ _ Hy) as [Ly Ey].
    set (a := pos_of x (ids_of ar)) in *. set (b := pos_of y (ids_of ar)) in *.
    assert (Iab : In (a, b) (offdiag (length (ids_of ar)))) by (apply offdiag_in; repeat split; auto; intros K; apply Nxy; congruence).
    destruct (pos_pair_nth _ _ Iab) as [Lk Ek]. set (k := pos_pair (a, b) (offdiag (length (ids_of ar)))) in *.
    rewrite <- (mig_list_raw ar Har Lm).
    rewrite (nth_indep _ _ (mig_rate G (nth (snd (0%nat, 0%nat)) (ids_of ar) 0%nat) (nth (fst (0%nat, 0%nat)) (ids_of ar) 0%nat) (win ar)))
      by (now rewrite map_length).
    rewrite (map_nth (fun ab => mig_rate G (nth (snd ab) (ids_of ar) 0%nat) (nth (fst ab) (ids_of ar) 0%nat) (win ar))).
    rewrite Ek. cbn [fst snd]. now rewrite Ex, Ey.
  Qed.

  Lemma integ_srt ar : In ar ann -> (1 <= length (ids_of ar) <= 5)%nat ->
    length (sg_sizes (ar_stage ar)) = length (ids_of ar) ->
    length (sg_mig (ar_stage ar)) = length (offdiag (length (ids_of ar))) ->
    let stp := rawstep G (win ar) in
    let ids := ids_of ar in
    let L := srt n ids in
    st_live stp = L /\ st_iv stp = win ar /\ st_T stp = rawT (win ar) /\
    exists f, int_fname (length ids) = Some f /\
    integ_calls std_wirings L (st_T stp) (st_nus stp) (st_M stp) (st_fr stp)
    = [mkCall f (rawT (win ar))
              (make_nu_func (map (fun x => nth (pos_of x ids) (sg_sizes (ar_stage ar)) (1, 1, SConstant)) L) (rawT (win ar)) 1)
              (map (fun ab => nth (pos_pair (pos_of (nth (fst ab) L 0%nat) ids, pos_of (nth (snd ab) L 0%nat) ids) (offdiag (length ids)))
                              (sg_mig (ar_stage ar)) 0) (offdiag (length ids)))
              (repeat false (length ids)) [] L].
  Proof.
    intros Har Ld Ls Lm. cbv zeta. unfold rawstep. cbn [st_live st_iv st_T st_nus st_M st_fr].
    rewrite (present_srt ar Har). repeat split.
    pose proof Hids as Hids'. rewrite Forall_forall in Hids'. destruct (Hids' _ Har) as [A _].
    set (ids := ids_of ar) in *. set (L := srt n ids).
    assert (LL : length L = length ids) by (apply srt_length; exact A).
    assert (InL : forall x, In x L -> In x ids) by (intros x Hx; apply (srt_In n ids x (proj2 A)); exact Hx).
    pose proof (srt_NoDup n ids) as NL. fold L in NL.
    assert (Esz : map (fun id => match find_deme G id with Some d => sizes_at_time d (win ar) | None => (1, 1, SConstant) end) L
                  = map (fun x => nth (pos_of x ids) (sg_sizes (ar_stage ar)) (1, 1, SConstant)) L).
    { apply map_ext_in. intros id Hid. pose proof (InL _ Hid) as Hin. pose proof (proj2 A _ Hin) as Lid.
      rewrite find_deme_raw by lia. rewrite sizes_raw by auto. unfold the_epoch, pos_of. cbn [e_s0 e_s1 e_fn]. fold (ids_of ar). fold ids.
      destruct (nth (match index_of id ids with Some j => j | None => 0%nat end) (sg_sizes (ar_stage ar)) (1, 1, SConstant)) as [[s0 s1] k]. reflexivity. }
    rewrite Esz.
    set (M := map (fun d_to => map (fun d_from => if Nat.eqb d_from d_to then 0 else mig_rate G d_from d_to (win ar)) L) L).
    set (nus := make_nu_func (map (fun x => nth (pos_of x ids) (sg_sizes (ar_stage ar)) (1, 1, SConstant)) L) (rawT (win ar)) 1).
    assert (Lnus : length nus = length L).
    { unfold nus, make_nu_func. destruct (forallb _ _); now rewrite !map_length. }
    assert (Ld' : (1 <= length L <= 5)%nat) by (rewrite LL; exact Ld).
    destruct (integ_call_wired L (rawT (win ar)) nus M (map (fun id => mem id []) L) Ld' Lnus (map_length _ _)) as (f & Ef & Ec).
    rewrite LL in Ef. exists f. split; auto. rewrite Ec. rewrite LL. f_equal. f_equal.
    - apply map_ext_in. intros [a b] Iab. apply offdiag_in in Iab as (La & Lb & Nab). cbn [fst snd]. unfold M.
      rewrite <- LL in La, Lb.
      rewrite (nth_indep _ _ ((fun d_to => map (fun d_from => if Nat.eqb d_from d_to then 0 else mig_rate G d_from d_to (win ar)) L) 0%nat))
        by (now rewrite map_length).
      rewrite (map_nth (fun d_to => map (fun d_from => if Nat.eqb d_from d_to then 0 else mig_rate G d_from d_to (win ar)) L)).
      set (g := fun d_from => if Nat.eqb d_from (nth a L 0%nat) then 0 else mig_rate G d_from (nth a L 0%nat) (win ar)).
      rewrite (nth_indep _ _ (g 0%nat)) by (now rewrite map_length). rewrite (map_nth g). unfold g.
      destruct (Nat.eqb (nth b L 0%nat) (nth a L 0%nat)) eqn:E.
      + apply Nat.eqb_eq in E. rewrite (NoDup_nth L 0%nat) in NL. apply NL in E; auto. lia.
      + apply Nat.eqb_neq in E. apply mig_lookup_raw; auto; apply InL, nth_In; auto.
    - rewrite <- LL. generalize L. intros l. induction l; cbn [map length repeat]; auto. f_equal; auto.
  Qed.

  (** *** the events at the end of a window *)
  Hypothesis Hevt : Forall (fun ar => Forall (fun te => Fin (fst te) = a_of ar) (ar_evs ar)) ann.
  Hypothesis Hkind : Forall (fun ar => exists K, (K < 5)%nat /\ Forall (fun te => ev_kind te = K) (ar_evs ar)) ann.

  Lemma filter_flat_map {A B} (p : B -> bool) (f : A -> list B) l : filter p (flat_map f l) = flat_map (fun x => filter p (f x)) l.
  Proof. induction l; cbn; auto. now rewrite filter_app, IHl. Qed.
  Lemma filter_comm {A} (p q : A -> bool) l : filter p (filter q l) = filter q (filter p l).
  Proof. induction l as [|x l IH]; cbn; auto. destruct (p x) eqn:P, (q x) eqn:Q; cbn; rewrite ?P, ?Q, IH; auto. Qed.
  Lemma flat_map_nil {A B} (f : A -> list B) l : (forall x, In x l -> f x = []) -> flat_map f l = [].
  Proof. induction l; intros K; cbn; auto. rewrite K by now left. apply IHl. intros; apply K; now right. Qed.

  Lemma kinds_all (l : list (tevent R)) K : (K < 5)%nat -> Forall (fun te => ev_kind te = K) l ->
    flat_map (fun k => filter (fun te => Nat.eqb (ev_kind te) k) l) (seq 0 5) = l.
  Proof.
    intros LK F. rewrite Forall_forall in F.
    assert (Y : filter (fun te => Nat.eqb (ev_kind te) K) l = l) by (apply filter_all; intros te H; rewrite (F te H); apply Nat.eqb_refl).
    assert (N : forall k, k <> K -> filter (fun te => Nat.eqb (ev_kind te) k) l = []).
    { intros k Hk. apply filter_none. intros te H. rewrite (F te H). apply Nat.eqb_neq. auto. }
    cbn [seq flat_map].
    destruct K as [|[|[|[|[|K]]]]]; try lia; rewrite Y, !N by lia; rewrite ?app_nil_r; reflexivity.
  Qed.

  Lemma raw_events_at P ar Q : ann = P ++ ar :: Q ->
    events_at (raw_events_of ann) (Fin (b_of ar)) = map snd (ar_evs (hd dar Q)).
  Proof.
    intros E. unfold events_at. f_equal. unfold raw_events_of. rewrite filter_flat_map.
    set (ft := fun te : tevent R => teqb (Fin (fst te)) (Fin (b_of ar))).
    assert (Fa : filter ft (flat_map (@ar_evs R) ann) = ar_evs (hd dar Q)).
    { rewrite filter_flat_map.
      assert (Out : forall x, In x ann -> teqb (a_of x) (Fin (b_of ar)) = false -> filter ft (ar_evs x) = []).
      { intros x Hx Hf. apply filter_none. intros te Hte. rewrite Forall_forall in Hevt. specialize (Hevt _ Hx).
        rewrite Forall_forall in Hevt. unfold ft. now rewrite (Hevt _ Hte). }
      rewrite E in *. rewrite flat_map_app. cbn [flat_map].
      rewrite flat_map_nil.
      2:{ intros x Hx. apply Out; [apply in_or_app; now left|]. destruct (chain_split _ _ _ x ar Hchain Hx) as (_ & _ & O); [now left|].
          pose proof (achain_in _ _ ar Hchain) as Ha. apply tlt_neq2. eapply tlt_trans; [apply Ha; apply in_or_app; right; now left|exact O]. }
      rewrite Out; [|apply in_or_app; right; now left|apply tlt_neq2; apply (achain_in _ _ ar Hchain); apply in_or_app; right; now left].
      cbn [app]. destruct Q as [|nx Q']; [reflexivity|]. cbn [flat_map hd].
      apply achain_app in Hchain as [top' C]. destruct C as (_ & _ & C). pose proof C as C0. destruct C as (C1 & C2 & C3).
      rewrite flat_map_nil.
      2:{ intros x Hx. apply Out; [apply in_or_app; right; right; now right|].
          destruct (achain_after _ _ _ C0 x Hx) as [O1 O2].
          assert (T : tlt (a_of x) (Fin (b_of ar))) by (eapply tleb_tlt_trans; [exact O1|exact C2]).
          now apply tlt_neq1. }
      rewrite app_nil_r. apply filter_all. intros te Hte. rewrite Forall_forall in Hevt.
      assert (Hnx : In nx (P ++ ar :: nx :: Q')) by (apply in_or_app; right; right; now left). specialize (Hevt _ Hnx).
      rewrite Forall_forall in Hevt. unfold ft. rewrite (Hevt _ Hte), C1. apply teqb_refl. }
    rewrite (flat_map_ext _ (fun k => filter (fun te => Nat.eqb (ev_kind te) k) (ar_evs (hd dar Q)))).
    2:{ intros k. rewrite filter_comm. exact (f_equal (filter (fun te : tevent R => Nat.eqb (ev_kind te) k)) Fa). }
    destruct Q as [|nx Q']; [reflexivity|]. cbn [hd]. rewrite Forall_forall in Hkind.
    destruct (Hkind nx) as (K & LK & FK); [rewrite E; apply in_or_app; right; right; now left|]. eapply kinds_all; eauto.
  Qed.

  (** every record is the annotation of its round, given the names of the previous record; a name that has gone is
      nobody's ancestor afterwards *)
  Hypothesis Hstep : forall P ar nx Q, ann = P ++ ar :: nx :: Q ->
    exists next rb, nx = annotate next (ids_of ar) rb /\ okids (ids_of ar) next /\ round_okr (length (ids_of ar)) (fst rb).
  Hypothesis Hgone : forall P ar nx Q id, ann = P ++ ar :: nx :: Q -> In id (ids_of ar) -> ~ In id (ids_of nx) ->
    Forall (fun y => Forall (fun b => ~ In id (b_anc b)) (ar_births y)) Q.

  Lemma deme_last id : (id < n)%nat -> exists t, In t ann /\ inA id t = true /\ d_end (deme_of id) = b_of t.
  Proof.
    intros L. destruct (deme_life id L) as (A1 & A2 & A3 & E & N2 & F1 & F2 & F3 & _ & _ & Ee).
    exists (last A2 dar). pose proof (last_In A2 dar N2) as Hl. rewrite Forall_forall in F2. repeat split; auto.
    rewrite E. apply in_or_app. right. apply in_or_app. now left.
  Qed.
  Lemma deme_span id x : (id < n)%nat -> In x ann -> inA id x = true ->
    tleb (a_of x) (d_start (deme_of id)) = true /\ tleb (Fin (d_end (deme_of id))) (Fin (b_of x)) = true.
  Proof. intros L Hx M. pose proof (covers_raw id x L Hx) as C. rewrite M in C. now apply andb_prop in C. Qed.

  Lemma remove_nth_other j (l : list nat) x : In x l -> x <> nth j l 0%nat -> In x (remove_nth j l).
  Proof.
    revert j. induction l as [|y l IH]; intros j Hx Hn; [destruct Hx|]. destruct j; cbn in *.
    - destruct Hx as [->|Hx]; auto. congruence.
    - destruct Hx as [->|Hx]; auto.
  Qed.
  Lemma remove_nth_self j (l : list nat) : NoDup l -> (j < length l)%nat -> ~ In (nth j l 0%nat) (remove_nth j l).
  Proof.
    revert j. induction l as [|y l IH]; intros j N L; [cbn in L; lia|]. inversion N; subst. destruct j; cbn in *; auto.
    intros [K|K].
    - apply H1. rewrite K. apply nth_In. lia.
    - eapply IH; eauto. lia.
  Qed.

  Definition marg_expected (ar : arnd R) (Q : list (arnd R)) : list (event R) :=
    match Q with
    | nx :: _ => match ar_ev nx with SRemove k => [EMarg (nth1 k (ids_of ar))] | _ => [] end
    | [] => []
    end.

  Definition marg_one (ar : arnd R) (Q : list (arnd R)) (id : nat) : list (event R) :=
    match Q with
    | nx :: _ => match ar_ev nx with SRemove k => if Nat.eqb id (nth1 k (ids_of ar)) then [EMarg id] else [] | _ => [] end
    | [] => []
    end.

  Lemma marg_contrib P ar Q id : ann = P ++ ar :: Q -> (id < n)%nat ->
    let d := deme_of id in
    map snd (filter (fun te => teqb (Fin (fst te)) (Fin (b_of ar)))
      (if negb (mem (d_id d) (ids_of (last ann dar)))
          && forallb (fun s => negb (tleb (d_start s) (Fin (d_end d)))) (successors G (d_id d))
       then [(d_end d, EMarg (d_id d))] else []))
    = marg_one ar Q id.
  Proof.
    intros E L d. unfold marg_one. assert (Har : In ar ann) by (rewrite E; apply in_or_app; right; now left).
    pose proof Hids as Hids'. rewrite Forall_forall in Hids'. destruct (Hids' _ Har) as [A _]. pose proof (proj1 A) as ND.
    assert (Did : d_id d = id) by reflexivity. rewrite Did.
    set (cond := negb (mem id (ids_of (last ann dar))) && forallb (fun s => negb (tleb (d_start s) (Fin (d_end d)))) (successors G id)).
    match goal with |- ?l = _ => set (lhs := l) end.
    assert (Nil : teqb (Fin (d_end d)) (Fin (b_of ar)) = false \/ cond = false -> lhs = []).
    { unfold lhs. intros [K|K]; [|now rewrite K]. destruct cond; auto. cbn [filter fst]. now rewrite K. }
    assert (Later : forall x, In x Q -> inA id x = true -> teqb (Fin (d_end d)) (Fin (b_of ar)) = false).
    { intros x Hx M. assert (Hx' : In x ann) by (rewrite E; apply in_or_app; right; now right).
      destruct (deme_span id x L Hx' M) as [_ S2]. fold d in S2.
      assert (C' : achain top ((P ++ [ar]) ++ Q)) by (rewrite <- app_assoc; cbn [app]; rewrite <- E; exact Hchain).
      destruct (chain_split _ _ _ ar x C') as (_ & O & _); [apply in_or_app; right; now left|auto|].
      apply tlt_neq1. eapply tleb_tlt_trans; eauto. }
    destruct (mem id (ids_of ar)) eqn:Min.
    2:{ (* not alive in this window: it does not end here *)
      assert (K : teqb (Fin (d_end d)) (Fin (b_of ar)) = false).
      { destruct (deme_last id L) as (t & Ht & Mt & Et). fold d in Et. rewrite Et. rewrite E in Ht, Hchain.
        apply in_app_or in Ht as [Ht|[<-|Ht]].
        - destruct (chain_split _ _ _ t ar Hchain Ht) as (_ & O & _); [now left|]. now apply tlt_neq2.
        - unfold inA in Mt. congruence.
        - assert (C' : achain top ((P ++ [ar]) ++ Q)) by (rewrite <- app_assoc; exact Hchain).
          destruct (chain_split _ _ _ ar t C') as (_ & O & _); [apply in_or_app; right; now left|auto|]. now apply tlt_neq1. }
      rewrite (Nil (or_introl K)). destruct Q as [|nx Q']; auto. destruct (Hstep P ar nx Q' E) as (next & rb & -> & _ & Kr).
      cbn [annotate ar_ev]. destruct (r_ev (fst rb)) eqn:Eev; auto.
      destruct Kr as (Kev & _). rewrite Eev in Kev. cbn [ev_okr ev_ok] in Kev. destruct Kev as [_ Kk].
      destruct (Nat.eqb id (nth1 k (ids_of ar))) eqn:Eq; auto. apply Nat.eqb_eq in Eq. apply mem_false in Min. exfalso. apply Min.
      rewrite Eq. apply nth_In. lia. }
    apply mem_In in Min.
    destruct Q as [|nx Q'].
    { (* the last window: the deme is sampled *)
      apply Nil. right. unfold cond. rewrite E, last_app_cons. cbn [last]. apply mem_In in Min. now rewrite Min. }
    destruct (Hstep P ar nx Q' E) as (next & rb & Enx & An & Kr). destruct Kr as (Kev & _).
    assert (Hnx : In nx ann) by (rewrite E; apply in_or_app; right; right; now left).
    assert (Stay : In id (ids_of nx) -> lhs = []).
    { intros Hin. apply Nil. left. apply (Later nx); [now left|]. now apply mem_In. }
    assert (Ends : ~ In id (ids_of nx) -> d_end d = b_of ar /\ mem id (ids_of (last ann dar)) = false).
    { intros Hni. assert (M : inA id ar = true) by now apply mem_In.
      destruct (deme_span id ar L Har M) as [S1 S2]. fold d in S1, S2.
      assert (Cs : achain top ((P ++ [ar; nx]) ++ Q')) by (rewrite <- app_assoc; cbn [app]; rewrite <- E; exact Hchain).
      assert (Cn : achain top ((P ++ [ar]) ++ nx :: Q')) by (rewrite <- app_assoc; cbn [app]; rewrite <- E; exact Hchain).
      destruct (chain_split _ _ _ ar nx Cn) as (_ & On1 & On2); [apply in_or_app; right; now left|now left|].
      assert (Ed : d_end d = b_of ar).
      { destruct (deme_last id L) as (t & Ht & Mt & Et). fold d in Et. rewrite Et in *. rewrite E in Ht.
        apply in_app_or in Ht as [Ht|[<-|[<-|Ht]]]; auto.
        - exfalso. rewrite E in Hchain. destruct (chain_split _ _ _ t ar Hchain Ht) as (_ & O & _); [now left|].
          unfold tlt in O. congruence.
        - exfalso. apply Hni. now apply mem_In.
        - exfalso. pose proof (covers_raw id nx L Hnx) as Cv. fold d in Cv.
          assert (inA id nx = false) by (apply mem_false; exact Hni). rewrite H in Cv.
          unfold covers, win in Cv. cbn [fst snd] in Cv.
          destruct (chain_split _ _ _ nx t Cs) as (_ & O & _); [apply in_or_app; right; right; now left|auto|].
          assert (T1 : tleb (a_of nx) (d_start d) = true). { eapply tleb_trans; eauto. now apply tlt_tleb. }
          rewrite T1 in Cv. cbn [andb] in Cv. unfold d_end in Et. unfold d_end in Cv. rewrite Et in Cv. apply tlt_tleb in O. congruence. }
      split; auto.
      assert (Hl : In (last ann dar) (nx :: Q')). { rewrite E, last_app_cons. change (last (ar :: nx :: Q') dar) with (last (nx :: Q') dar). apply last_In. discriminate. }
      assert (Hl' : In (last ann dar) ann) by (rewrite E at 2; apply in_or_app; right; now right).
      pose proof (covers_raw id _ L Hl') as Cv. fold d in Cv. unfold inA in Cv. rewrite <- Cv.
      unfold covers, win. cbn [fst snd]. rewrite Ed.
      assert (O : tlt (Fin (b_of (last ann dar))) (Fin (b_of ar))).
      { destruct (chain_split _ _ _ ar (last ann dar) Cn) as (_ & O & _); [apply in_or_app; right; now left|auto|auto]. }
      unfold tlt in O. rewrite O. apply andb_false_r. }
    rewrite Enx. cbn [annotate ar_ev]. rewrite Enx in Stay, Ends, Hnx. unfold ids_of in Stay, Ends. cbn [annotate ar_stage sg_ids] in Stay, Ends.
    fold (ids_of ar) in Stay, Ends.
    destruct (r_ev (fst rb)) as [|props|srcs dst props|k|ord] eqn:Eev; cbn [ev_ids] in Stay, Ends.
    - (* new era: the deme ends here and its successor starts here *)
      destruct Ends as [Ed Ms]. { intros K. apply in_seq in K. apply (proj2 An) in Min. lia. }
      apply Nil. right. unfold cond. apply andb_false_intro2.
      set (b := mkBirth (Fin (snd rb + r_T (fst rb))%num) [id]).
      assert (Hb : In b births).
      { unfold births, births_of. rewrite E. rewrite flat_map_app. apply in_or_app. right. cbn [flat_map]. apply in_or_app. right.
        apply in_or_app. left. rewrite Enx. cbn [annotate ar_births]. rewrite Eev. cbn [ev_births]. apply in_map_iff. exists id. split; auto. }
      destruct (In_nth _ _ dbirth Hb) as (j & Lj & Ej). fold n in Lj.
      assert (Hs : In (deme_of j) (successors G id)).
      { unfold successors. apply filter_In. split; [now apply deme_in|]. unfold deme_of, mkd. cbn [d_anc snd]. rewrite Ej. cbn. now rewrite Nat.eqb_refl. }
      apply not_true_is_false. intros K. rewrite forallb_forall in K. specialize (K _ Hs). unfold deme_of, mkd in K. cbn [d_start snd] in K.
      rewrite Ej, Ed in K. cbn [b_start b] in K. apply negb_true_iff in K.
      assert (Ea : a_of nx = Fin (b_of ar)).
      { rewrite E in Hchain. apply achain_app in Hchain as [top' C]. destruct C as (_ & _ & C1 & _). exact C1. }
      rewrite Enx in Ea. unfold a_of in Ea. cbn [annotate ar_stage sg_a] in Ea. rewrite Ea in K. rewrite tleb_refl in K. discriminate.
    - apply Stay. apply in_or_app. now left.
    - now apply Stay.
    - cbn [ev_okr ev_ok] in Kev. destruct Kev as [K2 Kk]. unfold nth1. destruct (Nat.eqb id (nth (k - 1) (ids_of ar) 0%nat)) eqn:Eq.
      + apply Nat.eqb_eq in Eq. destruct Ends as [Ed Ms]. { rewrite Eq. apply remove_nth_self; auto. lia. }
        change (mem id (ids_of (last ann dar)) = false) in Ms.
        assert (Cd : cond = true).
        { unfold cond. rewrite Ms. cbn [negb andb]. apply forallb_forall. intros s Hs. unfold successors in Hs. apply filter_In in Hs as [Hs Ma].
          rewrite g_demes_raw in Hs. apply in_map_iff in Hs as (j & <- & Hj). apply in_seq in Hj.
          unfold deme_of, mkd in *. cbn [d_anc d_start snd] in *. apply mem_In in Ma.
          assert (Hb : In (nth j births dbirth) births) by (apply nth_In; fold n; lia).
          set (b := nth j births dbirth) in *. rewrite Ed. apply negb_true_iff.
          unfold births, births_of in Hb. rewrite E in Hb. rewrite flat_map_app in Hb. apply in_app_or in Hb as [Hb|Hb].
          * apply in_flat_map in Hb as (x & Hx & Hb). rewrite Forall_forall in Hstart.
            assert (Hx' : In x ann) by (rewrite E; apply in_or_app; now left). specialize (Hstart _ Hx'). rewrite Forall_forall in Hstart.
            rewrite (Hstart _ Hb). rewrite E in Hchain. destruct (chain_split _ _ _ x ar Hchain Hx) as (_ & _ & O); [now left|].
            pose proof (achain_in _ _ ar Hchain) as Ha. eapply tlt_trans; [apply Ha; apply in_or_app; right; now left|exact O].
          * cbn [flat_map] in Hb. apply in_app_or in Hb as [Hb|Hb].
            -- rewrite Forall_forall in Hstart. specialize (Hstart _ Har). rewrite Forall_forall in Hstart. rewrite (Hstart _ Hb).
               apply (achain_in _ _ ar Hchain Har).
            -- apply in_app_or in Hb as [Hb|Hb]; [rewrite Enx in Hb; cbn [annotate ar_births] in Hb; rewrite Eev in Hb; destruct Hb|].
               exfalso.
               assert (Hni : ~ In id (ids_of nx)).
               { rewrite Enx, annotate_ids, Eev. cbn [ev_ids]. rewrite Eq. apply remove_nth_self; auto; lia. }
               pose proof (Hgone P ar nx Q' id E Min) as Hg.
               specialize (Hg Hni). apply in_flat_map in Hb as (y & Hy & Hb). rewrite Forall_forall in Hg. specialize (Hg _ Hy).
               rewrite Forall_forall in Hg. apply (Hg _ Hb). exact Ma. }
        unfold lhs. rewrite Cd. cbn [filter fst]. rewrite Ed, teqb_refl. reflexivity.
      + apply Nat.eqb_neq in Eq. apply Stay. now apply remove_nth_other.
    - cbn [ev_okr] in Kev. apply Stay. destruct (reorder_ids_spec _ _ Kev ND) as (_ & _ & Sp). now apply Sp.
  Qed.

  Lemma flat_map_single (x n' : nat) : (x < n')%nat ->
    flat_map (fun id => if Nat.eqb id x then [EMarg (F:=R) id] else []) (seq 0 n') = [EMarg x].
  Proof.
    intros L. replace n' with (x + S (n' - S x))%nat by lia. rewrite seq_app, flat_map_app. cbn [seq flat_map plus].
    rewrite Nat.eqb_refl. rewrite !flat_map_nil; auto.
    - intros y Hy. apply in_seq in Hy. destruct (Nat.eqb y x) eqn:E; auto. apply Nat.eqb_eq in E. lia.
    - intros y Hy. apply in_seq in Hy. destruct (Nat.eqb y x) eqn:E; auto. apply Nat.eqb_eq in E. lia.
  Qed.

  Lemma marg_at P ar Q : ann = P ++ ar :: Q ->
    events_at (marg_events G (ids_of (last ann dar))) (Fin (b_of ar)) = marg_expected ar Q.
  Proof.
    intros E. unfold events_at, marg_events. rewrite g_demes_raw, flat_map_map, filter_flat_map, map_flat_map.
    rewrite (flat_map_ext_in' _ (marg_one ar Q)).
    2:{ intros id Hid. apply in_seq in Hid. apply (marg_contrib P ar Q id E). lia. }
    unfold marg_one, marg_expected. destruct Q as [|nx Q']; [apply flat_map_nil; auto|].
    destruct (ar_ev nx) eqn:Eev; try (apply flat_map_nil; auto; fail).
    destruct (Hstep P ar nx Q' E) as (next & rb & Enx & An & Kr). rewrite Enx in Eev. cbn [annotate ar_ev] in Eev.
    destruct Kr as (Kev & _). rewrite Eev in Kev. cbn [ev_okr ev_ok] in Kev. destruct Kev as [_ Kk].
    apply flat_map_single. assert (Har : In ar ann) by (rewrite E; apply in_or_app; right; now left).
    pose proof Hids as Hids'. rewrite Forall_forall in Hids'. destruct (Hids' _ Har) as [A _].
    assert (Hin : In (nth1 k (ids_of ar)) (ids_of ar)) by (apply nth_In; lia). apply (proj2 A) in Hin. lia.
  Qed.
End Raw.

(** ** the hypotheses hold for the annotated log *)
Lemma scan_starts l : forall next ids,
  Forall (fun ar => Forall (fun b => b_start b = a_of ar) (ar_births ar)) (scan next ids l)
  /\ Forall (fun ar => Forall (fun p => Fin (p_time p) = a_of ar) (ar_pulses ar)) (scan next ids l)
  /\ Forall (fun ar => Forall (fun te => Fin (fst te) = a_of ar) (ar_evs ar)) (scan next ids l)
  /\ Forall (fun ar => exists K, (K < 5)%nat /\ Forall (fun te => ev_kind te = K) (ar_evs ar)) (scan next ids l).
Proof.
  induction l as [|rb l IH]; intros next ids; [repeat split; constructor|].
  destruct (IH (ar_next (annotate next ids rb)) (sg_ids (ar_stage (annotate next ids rb)))) as (I1 & I2 & I3 & I4).
  cbn [scan]. repeat split; constructor; auto; cbn [annotate ar_births ar_pulses ar_evs]; unfold a_of; cbn [annotate ar_stage sg_a].
  - apply ev_births_start.
  - destruct (r_ev (fst rb)); cbn [ev_pulses]; auto.
  - destruct (r_ev (fst rb)); cbn [ev_events]; auto. apply Forall_forall. intros te Hte. apply in_map_iff in Hte as (pc & <- & _). reflexivity.
  - destruct (r_ev (fst rb)) as [|props| | |]; cbn [ev_events].
    + exists 4%nat. split; [lia|]. apply Forall_forall. intros te Hte. apply in_map_iff in Hte as (pc & <- & _). reflexivity.
    + destruct (map (fun i => nth i ids 0%nat) (nz_idx props)) as [|p [|q r]].
      * exists 3%nat. split; [lia|]. repeat constructor.
      * exists 1%nat. split; [lia|]. repeat constructor.
      * exists 3%nat. split; [lia|]. repeat constructor.
    + exists 0%nat. split; [lia|]. repeat constructor.
    + exists 0%nat. split; [lia|]. constructor.
    + exists 0%nat. split; [lia|]. constructor.
Qed.

Lemma scan_end_ge l : forall n i, (n <= fst (scan_end n i l))%nat.
Proof.
  induction l as [|rb l IH]; intros n i; cbn [scan_end fst]; [lia|].
  specialize (IH (ev_next n i (r_ev (fst rb))) (ev_ids n i (r_ev (fst rb)))). pose proof (ev_next_ge n i (r_ev (fst rb))). lia.
Qed.

Lemma ev_dim_pos d (e : sev R) : (1 <= d)%nat -> ev_ok d e -> (1 <= ev_dim d e)%nat.
Proof. intros L K. destruct e; cbn in *; try lia. Qed.

Definition stage_dims (ar : arnd R) : Prop :=
  (1 <= length (ids_of ar) <= 5)%nat /\ length (sg_sizes (ar_stage ar)) = length (ids_of ar)
  /\ length (sg_mig (ar_stage ar)) = length (offdiag (length (ids_of ar))).

Lemma scan_ids_ok l : forall next ids d, asc 0 ids next -> length ids = d -> (1 <= d)%nat -> lok d l ->
  Forall (fun ar => asc 0 (ids_of ar) (fst (scan_end next ids l)) /\ ids_of ar <> [] /\ stage_dims ar) (scan next ids l).
Proof.
  induction l as [|rb l IH]; intros next ids d A L Ld K; [constructor|]. destruct K as [K1 K2]. cbn [map fst] in *.
  destruct K1 as (Kev & K5 & KT & Ks & Km & Kc). subst d.
  pose proof (ev_ids_asc next ids _ A Kev) as A'. pose proof (ev_ids_len next ids _ (ev_ok_okr _ _ Kev)) as L'.
  pose proof (ev_dim_pos _ _ Ld Kev) as Ld'.
  cbn [scan scan_end]. rewrite annotate_next. change (sg_ids (ar_stage (annotate next ids rb))) with (ev_ids next ids (r_ev (fst rb))).
  constructor.
  - rewrite annotate_ids. split; [|split].
    + eapply asc_weaken; [| |exact A']; [lia|apply scan_end_ge].
    + intros E. rewrite E in L'. cbn in L'. lia.
    + unfold stage_dims. rewrite annotate_ids. cbn [annotate ar_stage sg_sizes sg_mig]. rewrite map_length, L'. repeat split; auto; lia.
  - eapply IH; eauto; try (rewrite L'; exact Ld').
Qed.

Lemma scan_step l : forall next ids d prev, ids_of prev = ids -> asc 0 ids next -> length ids = d -> lok d l ->
  forall P ar nx Q, prev :: scan next ids l = P ++ ar :: nx :: Q ->
  (exists next' rb, nx = annotate next' (ids_of ar) rb /\ asc 0 (ids_of ar) next' /\ round_ok (length (ids_of ar)) (fst rb))
  /\ (forall id, In id (ids_of ar) -> ~ In id (ids_of nx) ->
       Forall (fun y => Forall (fun b => ~ In id (b_anc b)) (ar_births y)) Q).
Proof.
  induction l as [|rb l IH]; intros next ids d prev Ep A L K P ar nx Q E.
  - exfalso. destruct P as [|p [|q P]]; discriminate.
  - pose proof K as K0. destruct K as [K1 K2]. cbn [map fst] in *. pose proof K1 as Kr. destruct K1 as (Kev & K1). subst d.
    pose proof (ev_ids_asc next ids _ A Kev) as A'. pose proof (ev_ids_len next ids _ (ev_ok_okr _ _ Kev)) as L'.
    cbn [scan] in E. rewrite annotate_next in E. change (sg_ids (ar_stage (annotate next ids rb))) with (ev_ids next ids (r_ev (fst rb))) in E.
    destruct P as [|p P].
    + cbn [app] in E. injection E as <- <- <-. rewrite Ep. split; [eauto|].
      intros id Hin Hni. rewrite annotate_ids in Hni.
      pose proof (asc_In _ _ _ _ A Hin) as B. pose proof (ev_next_ge next ids (r_ev (fst rb))).
      eapply Forall_impl; [|eapply (scan_dead l _ _ _ id (asc_okids _ _ A') L' (lok_lokr _ _ K2)); [lia|exact Hni]]. cbn beta. tauto.
    + cbn [app] in E. injection E as <- E. eapply (IH _ _ _ (annotate next ids rb)); eauto.
Qed.


Lemma ev_dim_pos_r d (e : sev R) : (1 <= d)%nat -> ev_okr d e -> (1 <= ev_dim d e)%nat.
Proof. intros L K. destruct e; cbn in *; try lia. Qed.

Lemma scan_ids_okr l : forall next ids d, okids ids next -> length ids = d -> (1 <= d)%nat -> lokr d l ->
  Forall (fun ar => okids (ids_of ar) (fst (scan_end next ids l)) /\ ids_of ar <> [] /\ stage_dims ar) (scan next ids l).
Proof.
  induction l as [|rb l IH]; intros next ids d A L Ld K; [constructor|]. destruct K as [K1 K2]. cbn [map fst] in *.
  destruct K1 as (Kev & K5 & KT & Ks & Km & Kc). subst d.
  pose proof (ev_ids_okids next ids _ A Kev) as A'. pose proof (ev_ids_len next ids _ Kev) as L'.
  pose proof (ev_dim_pos_r _ _ Ld Kev) as Ld'.
  cbn [scan scan_end]. rewrite annotate_next. change (sg_ids (ar_stage (annotate next ids rb))) with (ev_ids next ids (r_ev (fst rb))).
  constructor.
  - rewrite annotate_ids. split; [|split].
    + destruct A' as [N' B']. split; auto. intros x Hx. apply B' in Hx.
      pose proof (scan_end_ge l (ev_next next ids (r_ev (fst rb))) (ev_ids next ids (r_ev (fst rb)))). lia.
    + intros E. rewrite E in L'. cbn in L'. lia.
    + unfold stage_dims. rewrite annotate_ids. cbn [annotate ar_stage sg_sizes sg_mig]. rewrite map_length, L'. repeat split; auto; lia.
  - eapply IH; eauto; try (rewrite L'; exact Ld').
Qed.

Lemma scan_step_r l : forall next ids d prev, ids_of prev = ids -> ar_next prev = next -> okids ids next -> length ids = d -> lokr d l ->
  forall P ar nx Q, prev :: scan next ids l = P ++ ar :: nx :: Q ->
  (exists next' rb, nx = annotate next' (ids_of ar) rb /\ okids (ids_of ar) next' /\ round_okr (length (ids_of ar)) (fst rb)
                    /\ next' = ar_next ar)
  /\ (forall id, In id (ids_of ar) -> ~ In id (ids_of nx) ->
       Forall (fun y => Forall (fun b => ~ In id (b_anc b)) (ar_births y)) Q).
Proof.
  induction l as [|rb l IH]; intros next ids d prev Ep En A L K P ar nx Q E.
  - exfalso. destruct P as [|p [|q P]]; discriminate.
  - pose proof K as K0. destruct K as [K1 K2]. cbn [map fst] in *. pose proof K1 as Kr. destruct K1 as (Kev & K1). subst d.
    pose proof (ev_ids_okids next ids _ A Kev) as A'. pose proof (ev_ids_len next ids _ Kev) as L'.
    cbn [scan] in E. rewrite annotate_next in E. change (sg_ids (ar_stage (annotate next ids rb))) with (ev_ids next ids (r_ev (fst rb))) in E.
    destruct P as [|p P].
    + cbn [app] in E. injection E as <- <- <-. rewrite Ep. split; [exists next, rb; split; [reflexivity|split; [exact A|split; [exact Kr|symmetry; exact En]]]|].
      intros id Hin Hni. rewrite annotate_ids in Hni.
      pose proof (proj2 A _ Hin) as B. pose proof (ev_next_ge next ids (r_ev (fst rb))).
      eapply Forall_impl; [|eapply (scan_dead l _ _ _ id A' L' K2); [lia|exact Hni]]. cbn beta. tauto.
    + cbn [app] in E. injection E as <- E. eapply (IH _ _ _ (annotate next ids rb)); eauto; reflexivity.
Qed.

Section Log.
  Variable lg : elog R.
  Hypothesis Hok : log_ok lg.
  Let ann := annotated lg.

  Lemma log_lok : lok 1 (timed (l_rounds lg)).
  Proof. unfold lok. rewrite timed_fst. exact Hok. Qed.

  Lemma log_n : n_demes lg = fst (scan_end 1 [0%nat] (timed (l_rounds lg))).
  Proof.
    unfold n_demes, births_of, annotated. cbn [flat_map init_ar ar_births app length]. rewrite scan_births_len.
    pose proof (scan_end_ge (timed (l_rounds lg)) 1 [0%nat]). lia.
  Qed.

  Lemma log_facts :
    Forall (fun ar => Forall (fun b => b_start b = a_of ar) (ar_births ar)) ann
    /\ Forall (fun ar => asc 0 (ids_of ar) (n_demes lg) /\ ids_of ar <> []) ann
    /\ Forall (fun ar => Forall (fun p => Fin (p_time p) = a_of ar) (ar_pulses ar)) ann
    /\ Forall (fun ar => Forall (fun te => Fin (fst te) = a_of ar) (ar_evs ar)) ann
    /\ Forall (fun ar => exists K, (K < 5)%nat /\ Forall (fun te => ev_kind te = K) (ar_evs ar)) ann
    /\ Forall stage_dims ann.
  Proof.
    destruct (scan_starts (timed (l_rounds lg)) 1 [0%nat]) as (I1 & I2 & I3 & I4).
    assert (A : asc 0 [0%nat] 1) by (cbn; lia).
    pose proof (scan_ids_ok (timed (l_rounds lg)) 1 [0%nat] 1 A eq_refl (le_n 1) log_lok) as I5. rewrite <- log_n in I5.
    unfold ann, annotated. repeat split; constructor; auto.
    - repeat constructor.
    - split; [|discriminate]. unfold ids_of. cbn [init_ar ar_stage sg_ids asc]. rewrite log_n.
      pose proof (scan_end_ge (timed (l_rounds lg)) 1 [0%nat]). lia.
    - eapply Forall_impl; [|exact I5]. cbn beta. tauto.
    - constructor.
    - constructor.
    - exists 0%nat. split; [lia|constructor].
    - unfold stage_dims. cbn. lia.
    - eapply Forall_impl; [|exact I5]. cbn beta. tauto.
  Qed.

  Lemma log_step P ar nx Q : ann = P ++ ar :: nx :: Q ->
    exists next rb, nx = annotate next (ids_of ar) rb /\ asc 0 (ids_of ar) next /\ round_ok (length (ids_of ar)) (fst rb).
  Proof.
    intros E. assert (A : asc 0 [0%nat] 1) by (cbn; lia).
    exact (proj1 (scan_step (timed (l_rounds lg)) 1 [0%nat] 1 (init_ar lg) eq_refl A eq_refl log_lok P ar nx Q E)).
  Qed.
  Lemma log_gone P ar nx Q id : ann = P ++ ar :: nx :: Q -> In id (ids_of ar) -> ~ In id (ids_of nx) ->
    Forall (fun y => Forall (fun b => ~ In id (b_anc b)) (ar_births y)) Q.
  Proof.
    intros E. assert (A : asc 0 [0%nat] 1) by (cbn; lia).
    exact (proj2 (scan_step (timed (l_rounds lg)) 1 [0%nat] 1 (init_ar lg) eq_refl A eq_refl log_lok P ar nx Q E) id).
  Qed.
End Log.

(** ** the same for logs with Reorder records *)
Lemma log_ok_okr (lg : elog R) : log_ok lg -> log_okr lg.
Proof. apply rounds_ok_okr. Qed.

Section LogR.
  Variable lg : elog R.
  Hypothesis Hok : log_okr lg.
  Let ann := annotated lg.

  Lemma log_lokr : lokr 1 (timed (l_rounds lg)).
  Proof. unfold lokr. rewrite timed_fst. exact Hok. Qed.
  Lemma okids0 : okids [0%nat] 1.
  Proof. apply asc_okids. cbn. lia. Qed.

  Lemma log_life_r id : (id < n_demes lg)%nat -> life (annotated lg) id (b_start (nth id (births_of (annotated lg)) dbirth)).
  Proof.
    intros Hid. unfold n_demes, births_of, annotated in *. cbn [flat_map init_ar ar_births app length] in *.
    destruct id as [|id].
    - destruct (scan_alive (timed (l_rounds lg)) 1 [0%nat] 1 0%nat okids0 eq_refl log_lokr) as (A2 & A3 & E1 & F2 & F3); [now left|].
      exists [], (init_ar lg :: A2), A3. rewrite E1. repeat split; auto; try discriminate.
    - rewrite scan_births_len in Hid.
      destruct (scan_born (timed (l_rounds lg)) 1 [0%nat] 1 (S id) okids0 eq_refl log_lokr) as (A1 & A2 & A3 & E1 & N2 & F1 & F2 & F3 & Es); [lia|].
      exists (init_ar lg :: A1), A2, A3. rewrite E1. repeat split; auto.
      cbn [nth]. replace (S id - 1)%nat with id in Es by lia. rewrite <- E1. exact Es.
  Qed.

  Lemma log_chain_r : achain Inf (annotated lg).
  Proof.
    unfold annotated. cbn [achain]. split; [reflexivity|]. split; [reflexivity|].
    unfold b_of. cbn [init_ar ar_stage sg_b]. eapply scan_chain; [apply timed_chain|]. exact log_lokr.
  Qed.

  Lemma log_facts_r :
    Forall (fun ar => Forall (fun b => b_start b = a_of ar) (ar_births ar)) ann
    /\ Forall (fun ar => okids (ids_of ar) (n_demes lg) /\ ids_of ar <> []) ann
    /\ Forall (fun ar => Forall (fun p => Fin (p_time p) = a_of ar) (ar_pulses ar)) ann
    /\ Forall (fun ar => Forall (fun te => Fin (fst te) = a_of ar) (ar_evs ar)) ann
    /\ Forall (fun ar => exists K, (K < 5)%nat /\ Forall (fun te => ev_kind te = K) (ar_evs ar)) ann
    /\ Forall stage_dims ann.
  Proof.
    destruct (scan_starts (timed (l_rounds lg)) 1 [0%nat]) as (I1 & I2 & I3 & I4).
    pose proof (scan_ids_okr (timed (l_rounds lg)) 1 [0%nat] 1 okids0 eq_refl (le_n 1) log_lokr) as I5.
    assert (En : n_demes lg = fst (scan_end 1 [0%nat] (timed (l_rounds lg)))).
    { unfold n_demes, births_of, annotated. cbn [flat_map init_ar ar_births app length]. rewrite scan_births_len.
      pose proof (scan_end_ge (timed (l_rounds lg)) 1 [0%nat]). lia. }
    rewrite <- En in I5.
    unfold ann, annotated. repeat split; constructor; auto.
    - repeat constructor.
    - split; [|discriminate]. unfold ids_of. cbn [init_ar ar_stage sg_ids]. split; [repeat constructor; intros []|].
      intros x [<-|[]]. rewrite En. pose proof (scan_end_ge (timed (l_rounds lg)) 1 [0%nat]). lia.
    - eapply Forall_impl; [|exact I5]. cbn beta. tauto.
    - constructor.
    - constructor.
    - exists 0%nat. split; [lia|constructor].
    - unfold stage_dims. cbn. lia.
    - eapply Forall_impl; [|exact I5]. cbn beta. tauto.
  Qed.

  Lemma log_step_next P ar nx Q : ann = P ++ ar :: nx :: Q ->
    exists next rb, nx = annotate next (ids_of ar) rb /\ okids (ids_of ar) next /\ round_okr (length (ids_of ar)) (fst rb)
                    /\ next = ar_next ar.
  Proof.
    intros E. exact (proj1 (scan_step_r (timed (l_rounds lg)) 1 [0%nat] 1 (init_ar lg) eq_refl eq_refl okids0 eq_refl log_lokr P ar nx Q E)).
  Qed.
  Lemma log_step_r P ar nx Q : ann = P ++ ar :: nx :: Q ->
    exists next rb, nx = annotate next (ids_of ar) rb /\ okids (ids_of ar) next /\ round_okr (length (ids_of ar)) (fst rb).
  Proof. intros E. destruct (log_step_next P ar nx Q E) as (next & rb & E1 & E2 & E3 & _). eauto. Qed.
  Lemma log_gone_r P ar nx Q id : ann = P ++ ar :: nx :: Q -> In id (ids_of ar) -> ~ In id (ids_of nx) ->
    Forall (fun y => Forall (fun b => ~ In id (b_anc b)) (ar_births y)) Q.
  Proof.
    intros E. exact (proj2 (scan_step_r (timed (l_rounds lg)) 1 [0%nat] 1 (init_ar lg) eq_refl eq_refl okids0 eq_refl log_lokr P ar nx Q E) id).
  Qed.
End LogR.
