(** Instances for C15: (a) the zero-duration hypothesis of the normaliser holds for the drivers of
    Model/NDSweep.v on the real-number instance; (b) example programs (as produced by the translator from the
    unchanged tree) for the non-vacuity example. *)
From Coq Require Import QArith List Bool Arith Reals.
From Dadi Require Import Base.Num Base.NumR Model.NDSweep Model.DSL.
Import ListNotations.

Lemma nltb_irrefl_R (t : R) : nltb t t = false.
Proof. unfold nltb. numR. rewrite (proj2 (Rleb_true t t)); [reflexivity|apply Rle_refl]. Qed.

Lemma integrate_const_T0 : forall fuel shape grids (pops : list (@pop R)) theta0 tf use_delj t phi,
  integrate_const fuel shape grids pops theta0 tf use_delj t t phi = Some phi.
Proof. intros. destruct fuel; cbn [integrate_const]; rewrite nltb_irrefl_R; reflexivity. Qed.

Lemma integrate_tdep_T0 : forall fuel shape grids (popsf : R -> list (@pop R)) thetaf tf use_delj t phi,
  integrate_tdep fuel shape grids popsf thetaf tf use_delj t t phi = Some phi.
Proof. intros. destruct fuel; cbn [integrate_tdep]; rewrite nltb_irrefl_R; reflexivity. Qed.

Lemma tdep_const : forall fuel shape grids (pops : list (@pop R)) theta0 tf use_delj t T phi,
  integrate_tdep fuel shape grids (fun _ => pops) (fun _ => theta0) tf use_delj t T phi =
  integrate_const fuel shape grids pops theta0 tf use_delj t T phi.
Proof.
  induction fuel as [|fuel IH]; intros; cbn [integrate_tdep integrate_const].
  - reflexivity.
  - destruct (negb (nltb t T)); [reflexivity|]. apply IH.
Qed.

(** example programs *)

(* split_asym_mig('nu1', 'nu2', 'T', 'm12', 'm21') *)
Definition ex_split_asym_mig : prog :=
  (Step IGrid (Step (IPhi1D (Const (1 # 1)) (Const (1 # 1)) (Const (0 # 1)) (Const (1 # 2)) (Const (1 # 1))) (Step (ISplit 1 0) (Step (IIntegrate (Var 2) [(Var 0); (Var 1)] [[(Const (0 # 1)); (Var 3)]; [(Var 4); (Const (0 # 1))]] [(Const (0 # 1)); (Const (0 # 1))] [(Const (1 # 2)); (Const (1 # 2))] (Const (1 # 1)) (Const (1 # 1)) [false; false] [false; false]) (Step (IFromPhi 2) Done))))).

Definition ex_A_split_asym_mig : assum := {| a_pos := [0%nat; 1%nat]; a_nonneg := [2%nat; 3%nat; 4%nat]; a_frac := [] |}.

(* split_mig('nu1', 'nu2', 'T', 'm') *)
Definition ex_split_mig : prog :=
  (Step IGrid (Step (IPhi1D (Const (1 # 1)) (Const (1 # 1)) (Const (0 # 1)) (Const (1 # 2)) (Const (1 # 1))) (Step (ISplit 1 0) (Step (IIntegrate (Var 2) [(Var 0); (Var 1)] [[(Const (0 # 1)); (Var 3)]; [(Var 3); (Const (0 # 1))]] [(Const (0 # 1)); (Const (0 # 1))] [(Const (1 # 2)); (Const (1 # 2))] (Const (1 # 1)) (Const (1 # 1)) [false; false] [false; false]) (Step (IFromPhi 2) Done))))).

Definition ex_A_split_mig : assum := {| a_pos := [0%nat; 1%nat]; a_nonneg := [2%nat; 3%nat]; a_frac := [] |}.

(* IM_pre('nuPre', 'TPre', 's', 'nu1', 'nu2', 'T', 'm12', 'm21') *)
Definition ex_IM_pre : prog :=
  (Step IGrid (Step (IPhi1D (Const (1 # 1)) (Const (1 # 1)) (Const (0 # 1)) (Const (1 # 2)) (Const (1 # 1))) (Step (IIntegrate (Var 1) [(Var 0)] [[(Const (0 # 1))]] [(Const (0 # 1))] [(Const (1 # 2))] (Const (1 # 1)) (Const (1 # 1)) [false] [false]) (Step (ISplit 1 0) (Step (IIntegrate (Var 5) [(Mul (Mul (Var 0) (Var 2)) (Pow (Div (Var 3) (Mul (Var 0) (Var 2))) (Div TVar (Var 5)))); (Mul (Mul (Var 0) (Sub (Const (1 # 1)) (Var 2))) (Pow (Div (Var 4) (Mul (Var 0) (Sub (Const (1 # 1)) (Var 2)))) (Div TVar (Var 5))))] [[(Const (0 # 1)); (Var 6)]; [(Var 7); (Const (0 # 1))]] [(Const (0 # 1)); (Const (0 # 1))] [(Const (1 # 2)); (Const (1 # 2))] (Const (1 # 1)) (Const (1 # 1)) [false; false] [false; false]) (Step (IFromPhi 2) Done)))))).

Definition ex_A_IM_pre : assum := {| a_pos := [0%nat; 3%nat; 4%nat]; a_nonneg := [1%nat; 5%nat; 6%nat; 7%nat]; a_frac := [2%nat] |}.

(* IM('s', 'nu1', 'nu2', 'T', 'm12', 'm21') *)
Definition ex_IM : prog :=
  (Step IGrid (Step (IPhi1D (Const (1 # 1)) (Const (1 # 1)) (Const (0 # 1)) (Const (1 # 2)) (Const (1 # 1))) (Step (ISplit 1 0) (Step (IIntegrate (Var 3) [(Mul (Var 0) (Pow (Div (Var 1) (Var 0)) (Div TVar (Var 3)))); (Mul (Sub (Const (1 # 1)) (Var 0)) (Pow (Div (Var 2) (Sub (Const (1 # 1)) (Var 0))) (Div TVar (Var 3))))] [[(Const (0 # 1)); (Var 4)]; [(Var 5); (Const (0 # 1))]] [(Const (0 # 1)); (Const (0 # 1))] [(Const (1 # 2)); (Const (1 # 2))] (Const (1 # 1)) (Const (1 # 1)) [false; false] [false; false]) (Step (IFromPhi 2) Done))))).

Definition ex_A_IM : assum := {| a_pos := [1%nat; 2%nat]; a_nonneg := [3%nat; 4%nat; 5%nat]; a_frac := [0%nat] |}.

(* nesting points: complex parameter -> expression over the simple model's parameters *)
Definition ex_sg_asym : list expr := [Var 0; Var 1; Var 2; Var 3; Var 3].              (* m12 := m, m21 := m *)
Definition ex_sg_asym_wrong : list expr := [Var 0; Var 1; Var 2; Var 3; Const (0 # 1)].  (* m21 := 0 is NOT split_mig *)
Definition ex_sg_IM_pre : list expr := [Const (1 # 1); Const (0 # 1); Var 0; Var 1; Var 2; Var 3; Var 4; Var 5].

Lemma ex_nests :
  nests ex_A_split_mig ex_sg_asym ex_split_asym_mig ex_split_mig = true /\
  nests ex_A_IM ex_sg_IM_pre ex_IM_pre ex_IM = true /\
  nests ex_A_split_mig ex_sg_asym_wrong ex_split_asym_mig ex_split_mig = false.
Proof. repeat split; vm_compute; reflexivity. Qed.

(** two-sided nesting (nests2): bottlegrowth_split_mig_sel at T = 0 against split_mig_sel at nu1 = nu2 = 1, over the common
    parameters (nuB, nuF, m, Ts, gamma1, gamma2) with Ts > 0 *)
(* bottlegrowth_split_mig_sel('nuB', 'nuF', 'm', 'T', 'Ts', 'gamma1', 'gamma2') *)
Definition ex_bgsm_sel : prog :=
  (Step IGrid (Step (IPhi1D (Const (1 # 1)) (Const (1 # 1)) (Var 5) (Const (1 # 2)) (Const (1 # 1))) (IfGe (Var 3) (Var 4) (Step (IIntegrate (Sub (Var 3) (Var 4)) [(Mul (Var 0) (Exp (Div (Mul (Log (Div (Var 1) (Var 0))) TVar) (Var 3))))] [[(Const (0 # 1))]] [(Var 5)] [(Const (1 # 2))] (Const (1 # 1)) (Const (1 # 1)) [false] [false]) (Step (ISplit 1 0) (Step (IIntegrate (Var 4) [(Mul (Mul (Var 0) (Exp (Div (Mul (Log (Div (Var 1) (Var 0))) (Sub (Var 3) (Var 4))) (Var 3)))) (Exp (Div (Mul (Log (Div (Var 1) (Mul (Var 0) (Exp (Div (Mul (Log (Div (Var 1) (Var 0))) (Sub (Var 3) (Var 4))) (Var 3)))))) TVar) (Var 4)))); (Mul (Mul (Var 0) (Exp (Div (Mul (Log (Div (Var 1) (Var 0))) (Sub (Var 3) (Var 4))) (Var 3)))) (Exp (Div (Mul (Log (Div (Var 1) (Mul (Var 0) (Exp (Div (Mul (Log (Div (Var 1) (Var 0))) (Sub (Var 3) (Var 4))) (Var 3)))))) TVar) (Var 4))))] [[(Const (0 # 1)); (Var 2)]; [(Var 2); (Const (0 # 1))]] [(Var 5); (Var 6)] [(Const (1 # 2)); (Const (1 # 2))] (Const (1 # 1)) (Const (1 # 1)) [false; false] [false; false]) (Step (IFromPhi 2) Done)))) (Step (ISplit 1 0) (Step (IIntegrate (Sub (Var 4) (Var 3)) [(Const (1 # 1)); (Const (1 # 1))] [[(Const (0 # 1)); (Var 2)]; [(Var 2); (Const (0 # 1))]] [(Var 5); (Var 6)] [(Const (1 # 2)); (Const (1 # 2))] (Const (1 # 1)) (Const (1 # 1)) [false; false] [false; false]) (Step (IIntegrate (Var 3) [(Mul (Var 0) (Exp (Div (Mul (Log (Div (Var 1) (Var 0))) TVar) (Var 3)))); (Mul (Var 0) (Exp (Div (Mul (Log (Div (Var 1) (Var 0))) TVar) (Var 3))))] [[(Const (0 # 1)); (Var 2)]; [(Var 2); (Const (0 # 1))]] [(Var 5); (Var 6)] [(Const (1 # 2)); (Const (1 # 2))] (Const (1 # 1)) (Const (1 # 1)) [false; false] [false; false]) (Step (IFromPhi 2) Done))))))).

(* the same function with gamma2 := gamma1 in the first two-population epoch of the branch T < Ts *)
Definition ex_bgsm_sel_wrong : prog :=
  (Step IGrid (Step (IPhi1D (Const (1 # 1)) (Const (1 # 1)) (Var 5) (Const (1 # 2)) (Const (1 # 1))) (IfGe (Var 3) (Var 4) (Step (IIntegrate (Sub (Var 3) (Var 4)) [(Mul (Var 0) (Exp (Div (Mul (Log (Div (Var 1) (Var 0))) TVar) (Var 3))))] [[(Const (0 # 1))]] [(Var 5)] [(Const (1 # 2))] (Const (1 # 1)) (Const (1 # 1)) [false] [false]) (Step (ISplit 1 0) (Step (IIntegrate (Var 4) [(Mul (Mul (Var 0) (Exp (Div (Mul (Log (Div (Var 1) (Var 0))) (Sub (Var 3) (Var 4))) (Var 3)))) (Exp (Div (Mul (Log (Div (Var 1) (Mul (Var 0) (Exp (Div (Mul (Log (Div (Var 1) (Var 0))) (Sub (Var 3) (Var 4))) (Var 3)))))) TVar) (Var 4)))); (Mul (Mul (Var 0) (Exp (Div (Mul (Log (Div (Var 1) (Var 0))) (Sub (Var 3) (Var 4))) (Var 3)))) (Exp (Div (Mul (Log (Div (Var 1) (Mul (Var 0) (Exp (Div (Mul (Log (Div (Var 1) (Var 0))) (Sub (Var 3) (Var 4))) (Var 3)))))) TVar) (Var 4))))] [[(Const (0 # 1)); (Var 2)]; [(Var 2); (Const (0 # 1))]] [(Var 5); (Var 6)] [(Const (1 # 2)); (Const (1 # 2))] (Const (1 # 1)) (Const (1 # 1)) [false; false] [false; false]) (Step (IFromPhi 2) Done)))) (Step (ISplit 1 0) (Step (IIntegrate (Sub (Var 4) (Var 3)) [(Const (1 # 1)); (Const (1 # 1))] [[(Const (0 # 1)); (Var 2)]; [(Var 2); (Const (0 # 1))]] [(Var 5); (Var 5)] [(Const (1 # 2)); (Const (1 # 2))] (Const (1 # 1)) (Const (1 # 1)) [false; false] [false; false]) (Step (IIntegrate (Var 3) [(Mul (Var 0) (Exp (Div (Mul (Log (Div (Var 1) (Var 0))) TVar) (Var 3)))); (Mul (Var 0) (Exp (Div (Mul (Log (Div (Var 1) (Var 0))) TVar) (Var 3))))] [[(Const (0 # 1)); (Var 2)]; [(Var 2); (Const (0 # 1))]] [(Var 5); (Var 6)] [(Const (1 # 2)); (Const (1 # 2))] (Const (1 # 1)) (Const (1 # 1)) [false; false] [false; false]) (Step (IFromPhi 2) Done))))))).

(* split_mig_sel('nu1', 'nu2', 'T', 'm', 'gamma1', 'gamma2') *)
Definition ex_split_mig_sel : prog :=
  (Step IGrid (Step (IPhi1D (Const (1 # 1)) (Const (1 # 1)) (Var 4) (Const (1 # 2)) (Const (1 # 1))) (Step (ISplit 1 0) (Step (IIntegrate (Var 2) [(Var 0); (Var 1)] [[(Const (0 # 1)); (Var 3)]; [(Var 3); (Const (0 # 1))]] [(Var 4); (Var 5)] [(Const (1 # 2)); (Const (1 # 2))] (Const (1 # 1)) (Const (1 # 1)) [false; false] [false; false]) (Step (IFromPhi 2) Done))))).

Definition ex_A_bgsm_common : assum := {| a_pos := [0%nat; 1%nat; 3%nat]; a_nonneg := [2%nat]; a_frac := (@nil nat) |}.
Definition ex_sgc_bgsm : list expr := [(Var 0); (Var 1); (Var 2); (Const (0 # 1)); (Var 3); (Var 4); (Var 5)].
Definition ex_sgs_bgsm : list expr := [(Const (1 # 1)); (Const (1 # 1)); (Var 3); (Var 2); (Var 4); (Var 5)].

Lemma ex_nests2 :
  nests2 ex_A_bgsm_common ex_sgc_bgsm ex_sgs_bgsm ex_bgsm_sel ex_split_mig_sel = true /\
  nests2 ex_A_bgsm_common ex_sgc_bgsm ex_sgs_bgsm ex_bgsm_sel_wrong ex_split_mig_sel = false.
Proof. split; vm_compute; reflexivity. Qed.

(** rule [fuse]: admix_origin_uni_mig_adj (nu1,nu2,nu3,m32,m31,T1,T2,f) at T1 = 0 against sim_split_uni_mig_adjacent_var
    (nu1,nu2,nu3,m32,m31,T1) at T1 = T, over the common parameters (nu1,nu2,nu3,m32,m31,T,f): with a zero-length first epoch the
    admixture acts on the diagonal density phi_1D_to_2D left, where it is the split of population 2 whatever f *)
(* admix_origin_uni_mig_adj('nu1', 'nu2', 'nu3', 'm32', 'm31', 'T1', 'T2', 'f') *)
Definition ex_admix_uni : prog :=
  (Step IGrid (Step (IPhi1D (Const (1 # 1)) (Const (1 # 1)) (Const (0 # 1)) (Const (1 # 2)) (Const (1 # 1))) (Step (ISplit 1 0) (Step (IIntegrate (Var 5) [(Var 0); (Var 1)] [[(Const (0 # 1)); (Const (0 # 1))]; [(Const (0 # 1)); (Const (0 # 1))]] [(Const (0 # 1)); (Const (0 # 1))] [(Const (1 # 2)); (Const (1 # 2))] (Const (1 # 1)) (Const (1 # 1)) [false; false] [false; false]) (Step (IAdmixNew 2 [(Var 7)]) (Step (IIntegrate (Var 6) [(Var 0); (Var 1); (Var 2)] [[(Const (0 # 1)); (Const (0 # 1)); (Const (0 # 1))]; [(Const (0 # 1)); (Const (0 # 1)); (Const (0 # 1))]; [(Var 4); (Var 3); (Const (0 # 1))]] [(Const (0 # 1)); (Const (0 # 1)); (Const (0 # 1))] [(Const (1 # 2)); (Const (1 # 2)); (Const (1 # 2))] (Const (1 # 1)) (Const (1 # 1)) [false; false; false] [false; false; false]) (Step (IFromPhi 3) Done))))))).
(* the same function unpacking (nu1, nu2, nu3, m31, m32, T1, T2, f): the two one-way rates into population 3 exchanged in all their
   occurrences, i.e. relative to the declared names *)
Definition ex_admix_uni_exchanged : prog :=
  (Step IGrid (Step (IPhi1D (Const (1 # 1)) (Const (1 # 1)) (Const (0 # 1)) (Const (1 # 2)) (Const (1 # 1))) (Step (ISplit 1 0) (Step (IIntegrate (Var 5) [(Var 0); (Var 1)] [[(Const (0 # 1)); (Const (0 # 1))]; [(Const (0 # 1)); (Const (0 # 1))]] [(Const (0 # 1)); (Const (0 # 1))] [(Const (1 # 2)); (Const (1 # 2))] (Const (1 # 1)) (Const (1 # 1)) [false; false] [false; false]) (Step (IAdmixNew 2 [(Var 7)]) (Step (IIntegrate (Var 6) [(Var 0); (Var 1); (Var 2)] [[(Const (0 # 1)); (Const (0 # 1)); (Const (0 # 1))]; [(Const (0 # 1)); (Const (0 # 1)); (Const (0 # 1))]; [(Var 3); (Var 4); (Const (0 # 1))]] [(Const (0 # 1)); (Const (0 # 1)); (Const (0 # 1))] [(Const (1 # 2)); (Const (1 # 2)); (Const (1 # 2))] (Const (1 # 1)) (Const (1 # 1)) [false; false; false] [false; false; false]) (Step (IFromPhi 3) Done))))))).
(* sim_split_uni_mig_adjacent_var('nu1', 'nu2', 'nu3', 'm32', 'm31', 'T1') *)
Definition ex_sim_split_uni : prog :=
  (Step IGrid (Step (IPhi1D (Const (1 # 1)) (Const (1 # 1)) (Const (0 # 1)) (Const (1 # 2)) (Const (1 # 1))) (Step (ISplit 1 0) (Step (ISplit 2 1) (Step (IIntegrate (Var 5) [(Var 0); (Var 1); (Var 2)] [[(Const (0 # 1)); (Const (0 # 1)); (Const (0 # 1))]; [(Const (0 # 1)); (Const (0 # 1)); (Const (0 # 1))]; [(Var 4); (Var 3); (Const (0 # 1))]] [(Const (0 # 1)); (Const (0 # 1)); (Const (0 # 1))] [(Const (1 # 2)); (Const (1 # 2)); (Const (1 # 2))] (Const (1 # 1)) (Const (1 # 1)) [false; false; false] [false; false; false]) (Step (IFromPhi 3) Done)))))).
Definition ex_A_admix_common : assum := {| a_pos := [0%nat; 1%nat; 2%nat]; a_nonneg := [3%nat; 4%nat; 5%nat]; a_frac := [6%nat] |}.
Definition ex_sgc_admix : list expr := [(Var 0); (Var 1); (Var 2); (Var 3); (Var 4); (Const (0 # 1)); (Var 5); (Var 6)].
Definition ex_sgs_admix : list expr := [(Var 0); (Var 1); (Var 2); (Var 3); (Var 4); (Var 5)].
(* the zero-migration nesting point (m32 = m31 = 0 against admix_origin_no_mig) cannot tell the two programs apart; T1 = 0 does *)
Lemma ex_fuse :
  nests2 ex_A_admix_common ex_sgc_admix ex_sgs_admix ex_admix_uni ex_sim_split_uni = true /\
  nests2 ex_A_admix_common ex_sgc_admix ex_sgs_admix ex_admix_uni_exchanged ex_sim_split_uni = false.
Proof. split; vm_compute; reflexivity. Qed.
