(** C05: marginalising ANY population commutes with sampling: summing the d-dimensional spectrum over axis k equals
    sampling from phi integrated (trapezoid) over axis k.  Also the general machinery for "apply a 1-D function along
    axis k of a flat C-order array" ([map_axis]) and its interplay with [nd]. *)
From Coq Require Import ZArith NArith Reals List Lra Lia Arith Bool.
From Dadi Require Import Base.Num Base.NumR Model.FromPhi Proofs.FromPhiBinom Proofs.FromPhiBase Proofs.FromPhiMass1D
  Proofs.FromPhiLin Proofs.FromPhiND Proofs.FromPhiPaths Proofs.FromPhiSums Proofs.FromPhiMarg.
Import ListNotations.
Local Open Scope R_scope.

(** ** lists with one position removed / replaced *)
Fixpoint remove_nth {A} (k : nat) (l : list A) {struct l} : list A :=
  match l with [] => [] | a :: t => match k with O => t | S k' => a :: remove_nth k' t end end.
Fixpoint replace_nth {A} (k : nat) (x : A) (l : list A) {struct l} : list A :=
  match l with [] => [] | a :: t => match k with O => x :: t | S k' => a :: replace_nth k' x t end end.

Lemma map_remove_nth {A B} (f : A -> B) k l : map f (remove_nth k l) = remove_nth k (map f l).
Proof. revert k. induction l as [|a l IH]; intros k; [reflexivity|]. destruct k; cbn [remove_nth map]; [reflexivity|]. rewrite IH. reflexivity. Qed.
Lemma map_replace_nth {A B} (f : A -> B) k x l : map f (replace_nth k x l) = replace_nth k (f x) (map f l).
Proof. revert k. induction l as [|a l IH]; intros k; [reflexivity|]. destruct k; cbn [replace_nth map]; [reflexivity|]. rewrite IH. reflexivity. Qed.
Lemma prodl_cons a l : prodl (a :: l) = (a * prodl l)%nat.
Proof. reflexivity. Qed.
Lemma prodl_replace_1 k l : prodl (replace_nth k 1%nat l) = prodl (remove_nth k l).
Proof. revert k. induction l as [|a l IH]; intros k; [reflexivity|]. destruct k; cbn [replace_nth remove_nth]; rewrite !prodl_cons; [lia|]. rewrite IH. reflexivity. Qed.
Lemma replace_nth_length {A} k (x : A) l : length (replace_nth k x l) = length l.
Proof. revert k. induction l as [|a l IH]; intros k; [reflexivity|]. destruct k; cbn [replace_nth length]; [reflexivity|]. rewrite IH. reflexivity. Qed.

(** ** apply a 1-D function [g] (output length [gout]) along axis [k] of a flat C-order array of shape [shape] *)
Fixpoint map_axis (k : nat) (g : list R -> list R) (gout : nat) (shape : list nat) (fs : list R) {struct shape} : list R :=
  match shape with
  | [] => fs
  | L :: rest =>
      match k with
      | O => concat (apply0 g (prodl rest) gout (chunk (prodl rest) L fs))
      | S k' => concat (map (map_axis k' g gout rest) (chunk (prodl rest) L fs))
      end
  end.

(** Spectrum.marginalize([k]) on the flat data (the axis disappears: a flat array with an axis of length 1 is the
    flat array without it) *)
Definition sum_axis (k : nat) (shape : list nat) (fs : list R) : list R := map_axis k (fun v => [rsum v]) 1 shape fs.
(** PhiManip.remove_pop(phi, xx, k+1): trapezoid integration of phi over axis k with that axis' grid *)
Definition trapz_axis (k : nat) (xx : list R) (shape : list nat) (phi : list R) : list R :=
  map_axis k (fun v => [@trapz R _ xx v]) 1 shape phi.

(** ** blocks *)
Lemma chunk_concat {A} m n (bs : list (list A)) : length bs = n -> Forall (fun b => length b = m) bs -> chunk m n (concat bs) = bs.
Proof. intros Hn Hb. subst n. induction Hb as [|b bs Hl Hb IH]; [reflexivity|].
  cbn [length chunk concat]. rewrite firstn_app, skipn_app, Hl, Nat.sub_diag. cbn [firstn skipn].
  rewrite app_nil_r. rewrite <- Hl at 1 3. rewrite firstn_all, skipn_all. cbn [app]. rewrite IH. reflexivity. Qed.
Lemma length_concat {A} m (bs : list (list A)) : Forall (fun b => length b = m) bs -> length (concat bs) = (length bs * m)%nat.
Proof. induction 1 as [|b bs Hl Hb IH]; [reflexivity|]. cbn [concat length]. rewrite app_length, IH, Hl. lia. Qed.
Lemma apply0_length (T : list R -> list R) m nout bs : length (apply0 T m nout bs) = nout.
Proof. rewrite apply0_eq, map_length, seq_length. reflexivity. Qed.
Lemma apply0_blocks (T : list R -> list R) m nout bs : Forall (fun b => length b = m) (apply0 T m nout bs).
Proof. rewrite apply0_eq. apply Forall_forall. intros b Hb. apply in_map_iff in Hb. destruct Hb as [i [<- _]].
  rewrite map_length, seq_length. reflexivity. Qed.
Lemma col_chunk p m L (fs : list R) : (p < m)%nat -> col p (chunk m L fs) = map (fun i => nth (i * m + p)%nat fs 0) (seq 0 L).
Proof. intros Hp. apply nth_ext with (d := 0) (d' := 0); [rewrite col_length, chunk_length, map_length, seq_length; reflexivity|].
  intros i Hi. rewrite col_length, chunk_length in Hi. rewrite col_nth, chunk_nth, nth_map_seq by assumption. reflexivity. Qed.
Lemma col_apply0 (T : list R -> list R) L m nout bs p : (p < m)%nat -> (forall v, length v = L -> length (T v) = nout) -> length bs = L ->
  col p (apply0 T m nout bs) = T (col p bs).
Proof. intros Hp HT Lb. apply nth_ext with (d := 0) (d' := 0); [rewrite col_length, apply0_length, HT by (rewrite col_length; assumption); reflexivity|].
  intros i Hi. rewrite col_length, apply0_length in Hi. rewrite col_nth, apply0_eq.
  rewrite nth_map_seq by assumption. rewrite nth_map_seq by assumption. reflexivity. Qed.

Lemma id_linop L : linop L L (fun v => v).
Proof. split; intros; auto. Qed.
Lemma apply0_id m L (bs : list (list R)) : length bs = L -> Forall (fun b => length b = m) bs -> apply0 (fun v => v) m L bs = bs.
Proof. intros Lb Fb. rewrite apply0_eq. apply nth_ext with (d := []) (d' := []); [rewrite map_length, seq_length; lia|].
  intros i Hi. rewrite map_length, seq_length in Hi. rewrite nth_map_seq by assumption.
  assert (Hl : length (nth i bs []) = m) by (rewrite Forall_forall in Fb; apply Fb, nth_In; lia).
  apply nth_ext with (d := 0) (d' := 0); [rewrite map_length, seq_length; lia|].
  intros p Hp. rewrite map_length, seq_length in Hp. rewrite nth_map_seq by assumption. apply col_nth. Qed.

(** a linear 1-D operator along the first axis commutes with a linear operator applied to every slice *)
Lemma apply0_commute T L nout h m m' (bs : list (list R)) : linop L nout T -> linop m m' h -> length bs = L ->
  Forall (fun b => length b = m) bs ->
  concat (map h (apply0 T m nout bs)) = concat (apply0 T m' nout (map h bs)).
Proof. intros HT Hh Lb Fb.
  pose proof (chunk_concat m L bs Lb Fb) as Ec.
  assert (Hphi : length (concat bs) = (L * m)%nat) by (rewrite (length_concat m), Lb by assumption; reflexivity).
  pose proof (step_first_first T nout L m m' h (matof h m) HT (T_mat m m' h Hh) (concat bs) Hphi) as E1.
  pose proof (step_last_first T nout L m m' h (matof h m) HT (T_mat m m' h Hh) (concat bs) Hphi) as E2.
  rewrite Ec in E1, E2. rewrite E1, E2. reflexivity. Qed.

(** [map_axis] with a linear 1-D function is a linear operator on the whole array *)
Lemma map_axis_linop g gout : forall k shape, (k < length shape)%nat -> linop (nth k shape 0%nat) gout g ->
  linop (prodl shape) (prodl (replace_nth k gout shape)) (map_axis k g gout shape).
Proof. induction k as [|k IH]; intros shape Hk Hg; (destruct shape as [|L rest]; [cbn in Hk; lia|]).
  - cbn [nth] in Hg. cbn [replace_nth]. rewrite !prodl_cons.
    eapply linop_ext; [|apply (mat_linop (fun a b => matof g L (a / prodl rest)%nat (b / prodl rest)%nat
                                * matof (fun v => v) (prodl rest) (a mod prodl rest)%nat (b mod prodl rest)%nat))].
    intros v Hv. cbn [map_axis].
    rewrite <- (step_last_first g gout L (prodl rest) (prodl rest) (fun v => v) (matof (fun v => v) (prodl rest)) Hg
                 (T_mat _ _ _ (id_linop _)) v Hv).
    rewrite map_id. reflexivity.
  - cbn [nth] in Hg. cbn [length] in Hk. specialize (IH rest ltac:(lia) Hg). cbn [replace_nth]. rewrite !prodl_cons.
    eapply linop_ext; [|apply (mat_linop (fun a b => matof (fun v => v) L (a / prodl (replace_nth k gout rest))%nat (b / prodl rest)%nat
                                * matof (map_axis k g gout rest) (prodl rest) (a mod prodl (replace_nth k gout rest))%nat (b mod prodl rest)%nat))].
    intros v Hv. cbn [map_axis].
    rewrite <- (step_first_first (fun v => v) L L (prodl rest) (prodl (replace_nth k gout rest)) (map_axis k g gout rest)
                 (matof (map_axis k g gout rest) (prodl rest)) (id_linop L) (T_mat _ _ _ IH) v Hv).
    rewrite apply0_id by (rewrite ?chunk_length; try reflexivity; apply chunk_block_length; assumption). reflexivity. Qed.

Lemma map_axis_length g gout k shape fs : (k < length shape)%nat -> linop (nth k shape 0%nat) gout g -> length fs = prodl shape ->
  length (map_axis k g gout shape fs) = prodl (replace_nth k gout shape).
Proof. intros Hk Hg Hf. apply (lo_len _ _ _ (map_axis_linop g gout k shape Hk Hg)). assumption. Qed.

Lemma rsum_linop L : linop L 1 (fun v => [rsum v]).
Proof. split.
  - reflexivity.
  - intros u v Hu Hv. change (vadd [rsum u] [rsum v]) with [rsum u + rsum v]. f_equal.
    rewrite (rsum_nth (vadd u v)), vadd_length by lia. rewrite (rsum_nth u), (rsum_nth v), Hu, Hv, <- rsum_map_add.
    apply rsum_map_ext. intros i _. apply vadd_nth. lia.
  - intros a v Hv. change (vscal a [rsum v]) with [a * rsum v]. f_equal.
    rewrite (rsum_nth (vscal a v)), (rsum_nth v), vscal_length, <- rsum_map_scal. apply rsum_map_ext. intros i _. apply vscal_nth. Qed.

(** axis 0: the definitions of FromPhiMarg.v *)
Lemma sum_axis_0 n rest fs : sum_axis 0 (n :: rest) fs = sum_axis0 (prodl rest) n fs.
Proof. unfold sum_axis, sum_axis0. cbn [map_axis]. rewrite apply0_eq. cbn [seq map concat]. rewrite app_nil_r.
  apply map_ext_in. intros p Hp. apply in_seq in Hp. cbn [nth]. rewrite col_chunk by lia. reflexivity. Qed.
Lemma trapz_axis_0 xx L rest phi : trapz_axis 0 xx (L :: rest) phi = trapz_axis0 xx (prodl rest) L phi.
Proof. unfold trapz_axis, trapz_axis0. cbn [map_axis]. rewrite apply0_eq. cbn [seq map concat]. rewrite app_nil_r.
  apply map_ext_in. intros p Hp. apply in_seq in Hp. cbn [nth]. rewrite col_chunk by lia. reflexivity. Qed.

Lemma ops_ok_inv T nout ops' L rest : ops_ok ((T, nout) :: ops') (L :: rest) -> linop L nout T /\ ops_ok ops' rest.
Proof. intros H. inversion H; subst. split; assumption. Qed.

(** ** marginalising axis k after sampling = integrating axis k out of phi before sampling *)
Theorem marginalise_axis_k : forall k ops shape xx phi,
  ops_ok ops shape -> (k < length shape)%nat ->
  sums_to_trapz (nth k ops (fun v => v, 0%nat)) (nth k shape 0%nat) xx -> length phi = prodl shape ->
  sum_axis k (map snd ops) (nd ops shape phi)
  = nd (remove_nth k ops) (remove_nth k shape) (trapz_axis k xx shape phi).
Proof. induction k as [|k IH]; intros ops shape xx phi Hok Hk Hs Hphi;
    (destruct shape as [|L rest]; [cbn in Hk; lia|]); (destruct ops as [|[T nout] ops']; [inversion Hok|]).
  - cbn [nth] in Hs. cbn [map snd remove_nth]. rewrite sum_axis_0, trapz_axis_0.
    apply (marginalise_axis0 T nout ops' L rest xx phi Hok Hs Hphi).
  - destruct (ops_ok_inv _ _ _ _ _ Hok) as [HT Hok']. cbn [nth] in Hs. cbn [length] in Hk. rewrite prodl_cons in Hphi.
    pose proof (chunk_block_length (prodl rest) L phi Hphi) as Hb.
    cbn [map snd remove_nth nd]. unfold sum_axis, trapz_axis. cbn [map_axis].
    set (sh' := map snd ops'). set (blocks := chunk (prodl rest) L phi) in *.
    assert (Lo : length sh' = length rest) by (subst sh'; rewrite map_length; exact (ops_ok_length _ _ Hok')).
    assert (Hk' : (k < length sh')%nat) by lia.
    pose proof (map_axis_linop (fun v => [rsum v]) 1 k sh' Hk' (rsum_linop _)) as Hh.
    pose proof (map_axis_linop (fun v => [@trapz R _ xx v]) 1 k rest ltac:(lia) (trapz_linop xx _)) as Ht.
    rewrite chunk_concat by (try apply apply0_length; apply apply0_blocks).
    rewrite (apply0_commute T L nout _ (prodl sh') (prodl (replace_nth k 1%nat sh')) _ HT Hh).
    2:{ subst blocks. rewrite map_length, chunk_length. reflexivity. }
    2:{ apply Forall_forall. intros b Hin. apply in_map_iff in Hin. destruct Hin as [b0 [<- Hin0]].
        rewrite Forall_forall in Hb. apply (nd_length _ _ _ Hok'). apply Hb. assumption. }
    rewrite chunk_concat.
    2:{ subst blocks. rewrite map_length, chunk_length. reflexivity. }
    2:{ apply Forall_forall. intros b Hin. apply in_map_iff in Hin. destruct Hin as [b0 [<- Hin0]].
        rewrite Forall_forall in Hb. rewrite (lo_len _ _ _ Ht) by (apply Hb; assumption). apply prodl_replace_1. }
    rewrite !map_map. rewrite map_remove_nth. fold sh'. rewrite prodl_replace_1.
    f_equal. f_equal. apply map_ext_in. intros b Hin. rewrite Forall_forall in Hb.
    apply (IH ops' rest xx b Hok' ltac:(lia) Hs (Hb b Hin)). Qed.

(** ** what [map_axis] computes, on flat indices: with [outer] = product of the axes before k, [inner] = product of the
    axes after k, entry (a, i, c) of the result is entry i of [g] applied to the line (a, . , c) of the array *)
Lemma prodl_split k : forall l, (k < length l)%nat ->
  prodl l = (prodl (firstn k l) * nth k l 0 * prodl (skipn (S k) l))%nat.
Proof. induction k as [|k IH]; intros l Hk; (destruct l as [|a l]; [cbn in Hk; lia|]).
  - cbn [firstn nth skipn]. rewrite prodl_cons. change (prodl []) with 1%nat. ring.
  - cbn [length] in Hk. rewrite skipn_cons. cbn [firstn nth]. rewrite !prodl_cons, (IH l) by lia. ring. Qed.
Lemma prodl_replace_split k x : forall l, (k < length l)%nat ->
  prodl (replace_nth k x l) = (prodl (firstn k l) * x * prodl (skipn (S k) l))%nat.
Proof. induction k as [|k IH]; intros l Hk; (destruct l as [|a l]; [cbn in Hk; lia|]).
  - cbn [firstn replace_nth skipn]. rewrite prodl_cons. change (prodl []) with 1%nat. rewrite Nat.mul_1_l. reflexivity.
  - cbn [length] in Hk. rewrite skipn_cons. cbn [firstn replace_nth]. rewrite !prodl_cons, (IH l) by lia. ring. Qed.
Lemma nth_concat m (bs : list (list R)) : Forall (fun x => length x = m) bs -> forall b j, (j < m)%nat ->
  nth (b * m + j) (concat bs) 0 = nth j (nth b bs []) 0.
Proof. induction 1 as [|x bs Hl Hb IH]; intros b j Hj.
  - destruct b, j; cbn [concat nth]; try reflexivity; destruct (_ + _)%nat; reflexivity.
  - cbn [concat]. destruct b as [|b].
    + cbn [Nat.mul Nat.add nth]. apply app_nth1. lia.
    + cbn [nth]. rewrite app_nth2 by (rewrite Hl; lia). rewrite Hl. replace (S b * m + j - m)%nat with (b * m + j)%nat by lia. apply IH. assumption. Qed.

Lemma flat_lt A n a i : (a < A)%nat -> (i < n)%nat -> (a * n + i < A * n)%nat.
Proof. intros Ha Hi. apply Nat.lt_le_trans with (S a * n)%nat; [rewrite Nat.mul_succ_l; lia | apply Nat.mul_le_mono_r; lia]. Qed.

Theorem map_axis_nth g gout : forall k shape fs a i c,
  (k < length shape)%nat -> linop (nth k shape 0%nat) gout g -> length fs = prodl shape ->
  (a < prodl (firstn k shape))%nat -> (i < gout)%nat -> (c < prodl (skipn (S k) shape))%nat ->
  nth ((a * gout + i) * prodl (skipn (S k) shape) + c) (map_axis k g gout shape fs) 0
  = nth i (g (map (fun l => nth ((a * nth k shape 0%nat + l) * prodl (skipn (S k) shape) + c) fs 0) (seq 0 (nth k shape 0%nat)))) 0.
Proof. induction k as [|k IH]; intros shape fs a i c Hk Hg Hf Ha Hi Hc; (destruct shape as [|L rest]; [cbn in Hk; lia|]).
  - cbn [firstn nth skipn] in *. change (prodl []) with 1%nat in Ha. assert (a = 0%nat) by lia. subst a. cbn [Nat.mul Nat.add].
    set (m := prodl rest) in *. cbn [map_axis]. fold m. rewrite apply0_eq.
    rewrite (concat_grid (fun i q => nth i (g (col q (chunk m L fs))) 0)).
    assert (Hlt : (i * m + c < gout * m)%nat) by (apply flat_lt; assumption).
    rewrite nth_map_seq by exact Hlt.
    replace ((i * m + c) / m)%nat with i by (replace (i * m + c)%nat with (c + i * m)%nat by lia; rewrite Nat.div_add by lia; rewrite Nat.div_small by lia; reflexivity).
    replace ((i * m + c) mod m)%nat with c by (replace (i * m + c)%nat with (c + i * m)%nat by lia; rewrite Nat.mod_add by lia; rewrite Nat.mod_small by lia; reflexivity).
    rewrite col_chunk by lia. reflexivity.
  - cbn [length] in Hk. rewrite !skipn_cons in *. cbn [firstn nth] in *. rewrite prodl_cons in Hf, Ha.
    set (outer := prodl (firstn k rest)) in *. set (inner := prodl (skipn (S k) rest)) in *. set (Lk := nth k rest 0%nat) in *.
    pose proof (prodl_split k rest ltac:(lia)) as Em. fold outer inner Lk in Em.
    pose proof (prodl_replace_split k gout rest ltac:(lia)) as Em2. fold outer inner in Em2.
    pose proof (chunk_block_length (prodl rest) L fs Hf) as Hb.
    assert (Ho : (0 < outer)%nat) by nia.
    set (b := (a / outer)%nat). set (a' := (a mod outer)%nat).
    assert (Ea : a = (b * outer + a')%nat) by (subst b a'; rewrite Nat.mul_comm; apply Nat.div_mod; lia).
    assert (Ha' : (a' < outer)%nat) by (subst a'; apply Nat.mod_upper_bound; lia).
    assert (Hbl : (b < L)%nat) by (subst b; apply Nat.div_lt_upper_bound; lia).
    clearbody b a'. subst a.
    cbn [map_axis].
    replace (((b * outer + a') * gout + i) * inner + c)%nat with (b * prodl (replace_nth k gout rest) + ((a' * gout + i) * inner + c))%nat by (rewrite Em2; ring).
    rewrite (nth_concat (prodl (replace_nth k gout rest))).
    2:{ apply Forall_forall. intros x Hin. apply in_map_iff in Hin. destruct Hin as [x0 [<- Hin0]]. rewrite Forall_forall in Hb.
        apply map_axis_length; [lia | exact Hg | apply Hb; assumption]. }
    2:{ rewrite Em2. apply flat_lt; [apply flat_lt|]; assumption. }
    rewrite (nth_indep _ [] (map_axis k g gout rest [])) by (rewrite map_length, chunk_length; lia). rewrite map_nth.
    assert (Hblk : length (nth b (chunk (prodl rest) L fs) []) = prodl rest)
      by (rewrite Forall_forall in Hb; apply Hb, nth_In; rewrite chunk_length; lia).
    pose proof (IH rest _ a' i c ltac:(lia) Hg Hblk Ha' Hi Hc) as E. fold Lk inner in E. rewrite E.
    f_equal. f_equal. apply map_ext_in. intros l Hl. apply in_seq in Hl.
    rewrite chunk_nth by (first [lia | rewrite Em; apply flat_lt; [apply flat_lt; [assumption | lia] | assumption]]). f_equal. rewrite Em. ring. Qed.

(** in particular, for [sum_axis] and [trapz_axis] *)
Corollary sum_axis_nth k shape fs a c : (k < length shape)%nat -> length fs = prodl shape ->
  (a < prodl (firstn k shape))%nat -> (c < prodl (skipn (S k) shape))%nat ->
  nth (a * prodl (skipn (S k) shape) + c) (sum_axis k shape fs) 0
  = rsum (map (fun l => nth ((a * nth k shape 0%nat + l) * prodl (skipn (S k) shape) + c) fs 0) (seq 0 (nth k shape 0%nat))).
Proof. intros Hk Hf Ha Hc. unfold sum_axis.
  pose proof (map_axis_nth (fun v => [rsum v]) 1 k shape fs a 0 c Hk (rsum_linop _) Hf Ha ltac:(lia) Hc) as E.
  replace ((a * 1 + 0) * prodl (skipn (S k) shape) + c)%nat with (a * prodl (skipn (S k) shape) + c)%nat in E by lia.
  rewrite E. reflexivity. Qed.
Corollary trapz_axis_nth k xx shape phi a c : (k < length shape)%nat -> length phi = prodl shape ->
  (a < prodl (firstn k shape))%nat -> (c < prodl (skipn (S k) shape))%nat ->
  nth (a * prodl (skipn (S k) shape) + c) (trapz_axis k xx shape phi) 0
  = trapz xx (map (fun l => nth ((a * nth k shape 0%nat + l) * prodl (skipn (S k) shape) + c) phi 0) (seq 0 (nth k shape 0%nat))).
Proof. intros Hk Hf Ha Hc. unfold trapz_axis.
  pose proof (map_axis_nth (fun v => [@trapz R _ xx v]) 1 k shape phi a 0 c Hk (trapz_linop xx _) Hf Ha ltac:(lia) Hc) as E.
  replace ((a * 1 + 0) * prodl (skipn (S k) shape) + c)%nat with (a * prodl (skipn (S k) shape) + c)%nat in E by lia.
  rewrite E. reflexivity. Qed.

(** ** a linear 1-D function applied along axis k of the sampled spectrum can be absorbed into the k-th 1-D operator *)
Definition axop0 : @axop R := (fun v => v, 0%nat).
Lemma nth_map_snd k (ops : list (@axop R)) : nth k (map snd ops) 0%nat = snd (nth k ops axop0).
Proof. apply (map_nth snd ops axop0 k). Qed.

Theorem nd_post_axis g gout : forall k ops shape phi,
  ops_ok ops shape -> (k < length ops)%nat -> linop (snd (nth k ops axop0)) gout g -> length phi = prodl shape ->
  map_axis k g gout (map snd ops) (nd ops shape phi)
  = nd (replace_nth k (fun v => g (fst (nth k ops axop0) v), gout) ops) shape phi.
Proof. induction k as [|k IH]; intros ops shape phi Hok Hk Hg Hphi;
    (destruct ops as [|[T nout] ops']; [cbn in Hk; lia|]); (destruct shape as [|L rest]; [inversion Hok|]);
    destruct (ops_ok_inv _ _ _ _ _ Hok) as [HT Hok']; rewrite prodl_cons in Hphi;
    pose proof (chunk_block_length (prodl rest) L phi Hphi) as Hb.
  - cbn [nth fst snd] in *. cbn [replace_nth map snd nd map_axis].
    rewrite chunk_concat by (try apply apply0_length; apply apply0_blocks).
    f_equal. rewrite (apply0_eq g), (apply0_eq (fun v => g (T v))). apply map_ext_in. intros i Hi. apply map_ext_in. intros p Hp. apply in_seq in Hp.
    rewrite (col_apply0 T L) by (first [lia | apply (lo_len _ _ _ HT) | rewrite map_length, chunk_length; reflexivity]).
    reflexivity.
  - cbn [nth] in *. cbn [length] in Hk. cbn [replace_nth map snd nd map_axis].
    set (sh' := map snd ops'). set (blocks := chunk (prodl rest) L phi) in *.
    assert (Hk0 : (k < length ops')%nat) by lia.
    assert (Hk' : (k < length sh')%nat) by (subst sh'; rewrite map_length; exact Hk0).
    assert (Hg' : linop (nth k sh' 0%nat) gout g) by (subst sh'; rewrite nth_map_snd; exact Hg).
    pose proof (map_axis_linop g gout k sh' Hk' Hg') as Hh.
    rewrite chunk_concat by (try apply apply0_length; apply apply0_blocks).
    rewrite (apply0_commute T L nout _ (prodl sh') (prodl (replace_nth k gout sh')) _ HT Hh).
    2:{ subst blocks. rewrite map_length, chunk_length. reflexivity. }
    2:{ apply Forall_forall. intros b Hin. apply in_map_iff in Hin. destruct Hin as [b0 [<- Hin0]].
        rewrite Forall_forall in Hb. apply (nd_length _ _ _ Hok'). apply Hb. assumption. }
    rewrite map_replace_nth. cbn [snd]. fold sh'. rewrite map_map.
    f_equal. f_equal. apply map_ext_in. intros b Hin. rewrite Forall_forall in Hb.
    apply (IH ops' rest b Hok' Hk0 Hg (Hb b Hin)). Qed.

(** [nd] only looks at the 1-D operators on vectors of the right length *)
Lemma nd_ext_len (ops1 ops2 : list (@axop R)) shape :
  Forall2 (fun oo L => snd (fst oo) = snd (snd oo) /\ forall v, length v = L -> fst (fst oo) v = fst (snd oo) v) (combine ops1 ops2) shape ->
  length ops1 = length shape -> length ops2 = length shape ->
  forall phi, nd ops1 shape phi = nd ops2 shape phi.
Proof. revert ops1 ops2. induction shape as [|L rest IH]; intros ops1 ops2 H L1 L2 phi.
  - destruct ops1, ops2; try discriminate. reflexivity.
  - destruct ops1 as [|[T1 n1] ops1], ops2 as [|[T2 n2] ops2]; try discriminate. cbn [combine] in H.
    inversion H as [|? ? ? ? [En ET] Hrest]; subst. cbn [fst snd] in *. subst n2. cbn [nd].
    cbn [length] in L1, L2.
    assert (Em : map snd ops1 = map snd ops2).
    { clear -Hrest L1 L2. revert ops1 ops2 L1 L2 Hrest. induction rest as [|L' rest IH2]; intros ops1 ops2 L1 L2 Hrest.
      - destruct ops1, ops2; try discriminate. reflexivity.
      - destruct ops1 as [|o1 ops1], ops2 as [|o2 ops2]; try discriminate. cbn [combine] in Hrest.
        inversion Hrest as [|? ? ? ? [E _] Hr]; subst. cbn [map fst snd] in *. rewrite E. f_equal. apply IH2; try assumption; cbn in *; lia. }
    rewrite Em. rewrite (map_ext _ _ (IH ops1 ops2 Hrest ltac:(lia) ltac:(lia))). rewrite !apply0_eq. f_equal.
    apply map_ext. intros i. apply map_ext. intros p. rewrite ET by (rewrite col_length, map_length, chunk_length; reflexivity). reflexivity. Qed.

(** ** the model's n-D semi-analytic path (grids inside [0,1]) *)
Lemma linalg_ops_nth : forall k ns (xxs : list (list R)), length ns = length xxs -> (k < length ns)%nat ->
  nth k (linalg_ops ns xxs) axop0 = (analytic_ax (nth k ns 0%nat) (nth k xxs []), S (nth k ns 0%nat)).
Proof. induction k as [|k IH]; intros ns xxs E Hk; (destruct ns as [|n ns]; [cbn in Hk; lia|]); (destruct xxs as [|xx xxs]; [discriminate|]);
    unfold linalg_ops; rewrite map2_cons; cbn [nth]; [reflexivity|]. apply IH; cbn in *; lia. Qed.
Lemma linalg_ops_outshape : forall ns (xxs : list (list R)), length ns = length xxs -> map snd (linalg_ops ns xxs) = map S ns.
Proof. induction ns as [|n ns IH]; intros xxs E; [reflexivity|]. destruct xxs as [|xx xxs]; [discriminate|].
  unfold linalg_ops. rewrite map2_cons. cbn [map snd]. f_equal. apply IH. cbn in E; lia. Qed.

Lemma linalg_ops_remove : forall k ns (xxs : list (list R)), length ns = length xxs ->
  remove_nth k (linalg_ops ns xxs) = linalg_ops (remove_nth k ns) (remove_nth k xxs).
Proof. induction k as [|k IH]; intros ns xxs E; (destruct ns as [|n ns]; [reflexivity|]); (destruct xxs as [|xx xxs]; [discriminate|]);
    unfold linalg_ops; rewrite map2_cons; cbn [remove_nth]; [reflexivity|]. rewrite map2_cons. f_equal. apply IH. cbn in E; lia. Qed.

Theorem marginalise_linalg : forall k ns xxs shape phi,
  Forall (Forall (fun x => 0 <= x <= 1)) xxs -> length ns = length shape -> length xxs = length shape ->
  (k < length shape)%nat -> length phi = prodl shape ->
  sum_axis k (map S ns) (nd (linalg_ops ns xxs) shape phi)
  = nd (linalg_ops (remove_nth k ns) (remove_nth k xxs)) (remove_nth k shape) (trapz_axis k (nth k xxs []) shape phi).
Proof. intros k ns xxs shape phi H01 Hn Hx Hk Hphi.
  rewrite <- (linalg_ops_outshape ns xxs) by lia. rewrite <- linalg_ops_remove by lia.
  apply marginalise_axis_k; try assumption; [apply linalg_ops_ok; assumption|].
  rewrite linalg_ops_nth by lia. intros v _. cbn [fst]. apply analytic_ax_total.
  rewrite Forall_forall in H01. apply H01, nth_In. lia. Qed.
