(** C18: the subsampling step of the simulated calling model in expectation.
    Averaged over all choices of nsub/2 of the called individuals (every subset with the same weight,
    independently per locus) the simulated histogram is the projection_inbreeding vector of the locus'
    genotype partition; weighted with the partition probabilities this is the projection_matrix row. *)
From Coq Require Import ZArith QArith Qreduction List Bool Arith Lia Lqa Setoid Morphisms Factorial.
From Dadi Require Import Model.LowPass Model.LowPassCheck Model.LowPassSim Proofs.LowPassPart Proofs.LowPassQ Proofs.LowPassProb
  Proofs.LowPassMat Proofs.LowPassF0.
Import ListNotations.
Local Open Scope Q_scope.

(** ** combinations commute with map *)
Lemma combs_map {A B} (f : A -> B) : forall k l, combs k (map f l) = map (map f) (combs k l).
Proof.
  induction k as [|k IHk]; intros l.
  - destruct l; reflexivity.
  - induction l as [|a l IHl]; [reflexivity|].
    cbn [map combs]. rewrite map_app, IHk, IHl, !map_map. reflexivity.
Qed.

Lemma map_nth_seq (pt : list nat) : map (fun i => nth i pt 0%nat) (seq 0 (length pt)) = pt.
Proof.
  induction pt as [|a pt IH]; [reflexivity|].
  cbn [length]. rewrite <- cons_seq, <- seq_shift. cbn [map nth]. rewrite map_map. cbn [nth]. now rewrite IH.
Qed.

(** the subsampled allele counts over all position subsets = the sums over all sub-multisets of the genotypes *)
Lemma sub_sums_all_subsets pt k :
  map (sub_sum pt) (combs k (seq 0 (length pt))) = map (@list_sum) (combs k pt).
Proof.
  transitivity (map (@list_sum) (combs k (map (fun i => nth i pt 0%nat) (seq 0 (length pt))))).
  - rewrite combs_map, map_map. reflexivity.
  - now rewrite map_nth_seq.
Qed.

(** one locus: the average over all subsets is projection_inbreeding of its genotype vector (equal as terms) *)
Theorem expected_hist_is_proj_inb pt nsub : expected_hist pt nsub = proj_inb pt nsub.
Proof. unfold expected_hist, proj_inb. rewrite sub_sums_all_subsets. reflexivity. Qed.

Lemma fold_left_ext {A B} (f g : A -> B -> A) : (forall a b, f a b = g a b) -> forall l a, fold_left f l a = fold_left g l a.
Proof. intros E. induction l as [|b l IH]; intros a; [reflexivity|]. cbn [fold_left]. now rewrite E, IH. Qed.

(** partition-weighted: the row of projection_matrix under inbreeding (equal as terms, any sizes, any F) *)
Theorem expected_row_is_proj_row_inb nseq nsub F j : expected_row nseq nsub F j = proj_row_inb nseq nsub F j.
Proof.
  unfold expected_row, proj_row_inb. cbv zeta. apply fold_left_ext. intros a b. now rewrite expected_hist_is_proj_inb.
Qed.

Lemma nth_map_seq {A} (f : nat -> A) (d : A) m j : (j < m)%nat -> nth j (map f (seq 0 m)) d = f j.
Proof.
  intros H. rewrite (nth_indep _ d (f 0%nat)) by (now rewrite map_length, seq_length).
  rewrite map_nth, seq_nth by exact H. reflexivity.
Qed.

(** ... which IS row j of projection_matrix for F <> 0 ... *)
Theorem expected_row_is_projection_matrix_row nseq nsub F j : (j <= nseq)%nat -> Qeq_bool F 0 = false ->
  nth j (proj_matrix nseq nsub F) [] = expected_row nseq nsub F j.
Proof.
  intros Hj HF. unfold proj_matrix. rewrite nth_map_seq by lia. rewrite HF. symmetry. apply expected_row_is_proj_row_inb.
Qed.

(** ... and for F = 0, where projection_matrix uses the hypergeometric formula, equal to it for the sizes of the
    property (even n_sequenced <= 20), by the exhaustive computation of [proj_matrix_F0_consistent_bounded] *)
Theorem expected_row_is_projection_matrix_row_F0_bounded hn hm j : (1 <= hm <= hn)%nat -> (hn <= 10)%nat -> (j <= 2 * hn)%nat ->
  Forall2 Qeq (expected_row (2 * hn) (2 * hm) 0 j) (nth j (proj_matrix (2 * hn) (2 * hm) 0) []).
Proof.
  intros H1 H2 Hj. unfold proj_matrix. rewrite nth_map_seq by lia. rewrite Qeq_bool_refl0.
  rewrite expected_row_is_proj_row_inb. now apply proj_matrix_F0_consistent_bounded.
Qed.

(** ** independent choices at every locus: the mean over all joint choices *)
Definition ind (j : nat) (pt sel : list nat) : Q := if Nat.eq_dec (sub_sum pt sel) j then 1 else 0.

Lemma qnat_cnt_ind j pt sels : qnat (cnt j (map (sub_sum pt) sels)) == qsum (map (ind j pt) sels).
Proof.
  induction sels as [|s sels IH]; [reflexivity|].
  cbn [map]. rewrite cnt_cons, qnat_add, qsum_cons, IH. unfold ind. destruct (Nat.eq_dec (sub_sum pt s) j); reflexivity.
Qed.

(** number of loci whose subsampled count is j *)
Definition hits (j : nat) (pts sels : list (list nat)) : Q :=
  qnat (cnt j (map (fun p => sub_sum (fst p) (snd p)) (combine pts sels))).

Lemma hits_cons j pt pts sel sels : hits j (pt :: pts) (sel :: sels) == ind j pt sel + hits j pts sels.
Proof.
  unfold hits. cbn [combine map fst snd]. rewrite cnt_cons, qnat_add. unfold ind.
  destruct (Nat.eq_dec (sub_sum pt sel) j); reflexivity.
Qed.

Lemma tuples_length {A} (ls : list (list A)) : length (tuples ls) = fold_right Nat.mul 1%nat (map (@length A) ls).
Proof.
  induction ls as [|l ls IH]; [reflexivity|]. cbn [tuples map fold_right]. rewrite <- IH. clear IH.
  induction l as [|x l IHl]; [reflexivity|]. cbn [flat_map]. rewrite app_length, map_length, IHl. reflexivity.
Qed.

Lemma qsum_const {A} (c : Q) (l : list A) : qsum (map (fun _ => c) l) == qnat (length l) * c.
Proof.
  induction l as [|x l IH]; [cbn [map length]; rewrite qsum_nil, qnat_0; ring|]. cbn [map length]. rewrite qsum_cons, IH, qnat_S. ring.
Qed.

Section Mean.
  Variables (j k : nat).
  Let C (pt : list nat) := combs k (seq 0 (length pt)).

  Lemma hits_sum_tuples : forall pts, Forall (fun pt => k <= length pt)%nat pts ->
    qsum (map (hits j pts) (tuples (map C pts)))
    == qnat (length (tuples (map C pts))) * qsum (map (fun pt => qsum (map (ind j pt) (C pt)) / qnat (length (C pt))) pts).
  Proof.
    induction 1 as [|pt pts Hk _ IH].
    - reflexivity.
    - cbn [map tuples]. set (T := tuples (map C pts)) in *.
      assert (LC : 0 < qnat (length (C pt))).
      { apply qnat_pos. pose proof (combs_nonempty k (seq 0 (length pt))) as NE. rewrite seq_length in NE.
        specialize (NE Hk). unfold C. destruct (combs k (seq 0 (length pt))); [congruence|cbn; lia]. }
      rewrite qsum_cons.
      assert (E : forall l, qsum (map (hits j (pt :: pts)) (flat_map (fun x => map (cons x) T) l))
                         == qnat (length T) * qsum (map (ind j pt) l) + qnat (length l) * qsum (map (hits j pts) T)).
      { induction l as [|x l IHl]; [cbn [flat_map map length]; rewrite !qsum_nil, qnat_0; ring|].
        cbn [flat_map]. rewrite map_app, qsum_app, IHl, map_map.
        rewrite (qsum_map_ext _ (fun w => ind j pt x + hits j pts w)) by (intros; apply hits_cons).
        rewrite qsum_map_add, qsum_const. cbn [map length]. rewrite qsum_cons, qnat_S. ring. }
      rewrite E, IH.
      assert (L : qnat (length (flat_map (fun x => map (cons x) T) (C pt))) == qnat (length (C pt)) * qnat (length T)).
      { rewrite <- qnat_mul. clear. induction (C pt) as [|x l IHl]; [reflexivity|].
        cbn [flat_map length]. rewrite app_length, map_length, qnat_add, IHl, !qnat_mul, qnat_S. ring. }
      rewrite L. field. lra.
  Qed.
End Mean.

(** the expected simulated frequency of allele count j, every locus choosing nsub/2 of its individuals
    independently and uniformly over subsets, is the mean of the loci's projection_inbreeding entries *)
Theorem mean_freq_is_mean_of_proj_inb j nsub pts : pts <> [] -> (j <= nsub)%nat ->
  Forall (fun pt => nsub / 2 <= length pt)%nat pts ->
  mean_freq j nsub pts == qsum (map (fun pt => nth j (proj_inb pt nsub) 0) pts) / qnat (length pts).
Proof.
  intros NE Hj Hk. unfold mean_freq. cbv zeta.
  set (Om := tuples (map (fun pt => combs (nsub / 2) (seq 0 (length pt))) pts)).
  assert (LP : 0 < qnat (length pts)) by (apply qnat_pos; destruct pts; [congruence|cbn; lia]).
  assert (LO : 0 < qnat (length Om)).
  { apply qnat_pos. unfold Om. rewrite tuples_length. clear -Hk. induction Hk as [|pt pts H _ IH]; [cbn; lia|].
    cbn [map fold_right]. pose proof (combs_nonempty (nsub / 2) (seq 0 (length pt))) as N. rewrite seq_length in N. specialize (N H).
    destruct (combs (nsub / 2) (seq 0 (length pt))); [congruence|]. cbn [length]. lia. }
  rewrite (qsum_map_ext _ (fun w => / qnat (length pts) * hits j pts w)) by (intros; unfold freq_of, hits, Qdiv; ring).
  rewrite qsum_map_scale. unfold Om at 1. rewrite (hits_sum_tuples j (nsub / 2) pts Hk). fold Om.
  rewrite (qsum_map_ext (fun pt => nth j (proj_inb pt nsub) 0)
            (fun pt => qsum (map (ind j pt) (combs (nsub / 2) (seq 0 (length pt)))) / qnat (length (combs (nsub / 2) (seq 0 (length pt)))))).
  - field. split; lra.
  - intros pt _. rewrite <- expected_hist_is_proj_inb. unfold expected_hist. cbv zeta.
    rewrite nth_map_seq by lia. rewrite map_length, qnat_cnt_ind. reflexivity.
Qed.

(** ** from permutations to subsets.  numpy shuffles the positions of a locus (a uniformly random ORDERING) and keeps the
    first k; the theorems above average over k-SUBSETS.  Among the n! orderings of n positions every k-subset is the set of
    the first k positions of exactly k! (n-k)! orderings, so the first k entries of a uniform ordering are a uniform
    k-subset.  Proved here for n <= 6 individuals (n_sequenced <= 12) by exhaustive computation. *)
Local Open Scope nat_scope.

(** all orderings of a list of distinct positions ([fuel] >= its length) *)
Fixpoint perms_of (fuel : nat) (l : list nat) : list (list nat) :=
  match fuel with
  | 0 => [[]]
  | S f => match l with
           | [] => [[]]
           | _ => flat_map (fun x => map (cons x) (perms_of f (remove Nat.eq_dec x l))) l
           end
  end.

Fixpoint nodupll (l : list (list nat)) : bool :=
  match l with [] => true | x :: t => negb (existsb (lnat_eqb x) t) && nodupll t end.

(** [perms_of n (seq 0 n)] are n! pairwise different rearrangements of 0..n-1, and every k-subset (sorted list) is the sorted
    prefix of exactly k! (n-k)! of them *)
Definition perm_prefix_uniform (n k : nat) : bool :=
  let ps := perms_of n (seq 0 n) in
  (length ps =? fact n) && nodupll ps && forallb (fun p => lnat_eqb (sort_row p) (seq 0 n)) ps
  && forallb (fun S => length (filter (fun p => lnat_eqb (sort_row (firstn k p)) S) ps) =? fact k * fact (n - k)) (combs k (seq 0 n)).

Definition perm_prefix_check (nmax : nat) : bool :=
  forallb (fun n => forallb (fun k => perm_prefix_uniform n k) (seq 0 (n + 1))) (seq 0 (nmax + 1)).

Lemma perm_prefix_check_6 : perm_prefix_check 6 = true.
Proof. vm_compute. reflexivity. Qed.

Theorem perm_prefix_uniform_bounded n k : n <= 6 -> k <= n -> perm_prefix_uniform n k = true.
Proof.
  intros Hn Hk. pose proof perm_prefix_check_6 as H. unfold perm_prefix_check in H. rewrite forallb_forall in H.
  specialize (H n ltac:(apply in_seq; lia)). rewrite forallb_forall in H. apply H. apply in_seq. lia.
Qed.
