(** C05: the concrete paths of Spectrum.from_phi are linear operators in phi; linearity of the dispatcher. *)
From Coq Require Import ZArith NArith Reals List Lra Lia Arith Bool.
From Dadi Require Import Base.Num Base.NumR Model.FromPhi Proofs.FromPhiBinom Proofs.FromPhiBase Proofs.FromPhiMass1D
  Proofs.FromPhiLin Proofs.FromPhiND.
Import ListNotations.
Local Open Scope R_scope.

(** ** operator lists *)
Lemma linalg_ops_ok ns xxs shape : length ns = length shape -> length xxs = length shape ->
  ops_ok (linalg_ops ns xxs) shape.
Proof. revert ns xxs. induction shape as [|L rest IH]; intros ns xxs Hn Hx.
  - destruct ns, xxs; try discriminate. constructor.
  - destruct ns as [|n ns], xxs as [|xx xxs]; try discriminate.
    unfold linalg_ops. rewrite map2_cons. constructor; [apply analytic_ax_linop | apply IH; cbn in *; lia]. Qed.

Lemma direct_ops_ok_gen het k ns xxs shape : length ns = length shape -> length xxs = length shape ->
  ops_ok (map2 (fun k nx => (@direct_ax R _ (match het with Some h => Nat.eqb h k | None => false end) (fst nx) (snd nx), S (fst nx)))
               (seq k (length ns)) (combine ns xxs)) shape.
Proof. revert k ns xxs. induction shape as [|L rest IH]; intros k ns xxs Hn Hx.
  - destruct ns, xxs; try discriminate. constructor.
  - destruct ns as [|n ns], xxs as [|xx xxs]; try discriminate.
    cbn [length seq combine]. rewrite map2_cons. constructor; [apply direct_ax_linop | apply IH; cbn in *; lia]. Qed.
Lemma direct_ops_ok het ns xxs shape : length ns = length shape -> length xxs = length shape ->
  ops_ok (direct_ops het ns xxs) shape.
Proof. apply direct_ops_ok_gen. Qed.

Lemma inb_ops_ok_gen het k ns pls Fs xxs shape :
  length ns = length shape -> length pls = length shape -> length Fs = length shape -> length xxs = length shape ->
  ops_ok (map2 (fun k q => let '(n, pl, Fx, xx) := q in
                     (@inb_ax R _ (match het with Some h => Nat.eqb h k | None => false end) n pl Fx xx, S n))
               (seq k (length ns)) (combine (combine (combine ns pls) Fs) xxs)) shape.
Proof. revert k ns pls Fs xxs. induction shape as [|L rest IH]; intros k ns pls Fs xxs Hn Hp Hf Hx.
  - destruct ns, pls, Fs, xxs; try discriminate. constructor.
  - destruct ns as [|n ns], pls as [|pl pls], Fs as [|Fx Fs], xxs as [|xx xxs]; try discriminate.
    cbn [length seq combine]. rewrite map2_cons. constructor; [apply inb_ax_linop | apply IH; cbn in *; lia]. Qed.
Lemma inb_ops_ok het ns pls Fs xxs shape :
  length ns = length shape -> length pls = length shape -> length Fs = length shape -> length xxs = length shape ->
  ops_ok (inb_ops het ns pls Fs xxs) shape.
Proof. apply inb_ops_ok_gen. Qed.

(** ** admix_props paths *)
Lemma firstn_map2 {A B C} (f : A -> B -> C) m u v : firstn m (map2 f u v) = map2 f (firstn m u) (firstn m v).
Proof. unfold map2. rewrite firstn_map, combine_firstn. reflexivity. Qed.
Lemma skipn_combine {A B} m (u : list A) (v : list B) : skipn m (combine u v) = combine (skipn m u) (skipn m v).
Proof. revert u v. induction m; intros u v; [reflexivity|]. destruct u as [|a u]; [reflexivity|].
  destruct v as [|b v]; [cbn [skipn combine]; destruct (skipn m u); reflexivity|]. cbn [combine skipn]. apply IHm. Qed.
Lemma skipn_map2 {A B C} (f : A -> B -> C) m u v : skipn m (map2 f u v) = map2 f (skipn m u) (skipn m v).
Proof. unfold map2. rewrite skipn_map, skipn_combine. reflexivity. Qed.
Lemma chunk_vadd m L u v : chunk m L (vadd u v) = map2 vadd (chunk m L u) (chunk m L v).
Proof. revert u v. induction L; intros u v; [reflexivity|]. cbn [chunk]. rewrite map2_cons. unfold vadd at 1 2.
  rewrite firstn_map2, skipn_map2. fold (vadd (skipn m u) (skipn m v)). rewrite IHL. reflexivity. Qed.
Lemma chunk_vscal m L a u : chunk m L (vscal a u) = map (vscal a) (chunk m L u).
Proof. revert u. induction L; intros u; [reflexivity|]. cbn [chunk map]. unfold vscal at 1 2.
  rewrite firstn_map, skipn_map. fold (vscal a (skipn m u)). rewrite IHL. reflexivity. Qed.

Lemma hd_vadd u v : length u = length v -> hd 0 (vadd u v) = hd 0 u + hd 0 v.
Proof. destruct u, v; try discriminate; cbn; intros; lra. Qed.
Lemma hd_vscal a u : hd 0 (vscal a u) = a * hd 0 u.
Proof. destruct u; cbn; lra. Qed.

Lemma vadd_cons a l b m : vadd (a :: l) (b :: m) = (a + b) :: vadd l m.
Proof. reflexivity. Qed.
Lemma vscal_cons a x l : vscal a (x :: l) = a * x :: vscal a l.
Proof. reflexivity. Qed.
Lemma map2_F_vadd (F : R -> list R -> R) m :
  (forall x bu bv, length bu = m -> length bv = m -> F x (vadd bu bv) = F x bu + F x bv) ->
  forall xx cu cv, Forall (fun b => length b = m) cu -> Forall (fun b => length b = m) cv -> length cu = length cv ->
  map2 F xx (map2 vadd cu cv) = vadd (map2 F xx cu) (map2 F xx cv).
Proof. intros HF. induction xx as [|x xx IH]; intros cu cv Bu Bv E; [reflexivity|].
  destruct cu as [|bu cu], cv as [|bv cv]; try discriminate; [reflexivity|].
  pose proof (Forall_inv Bu) as Hbu; pose proof (Forall_inv_tail Bu) as Bu'.
  pose proof (Forall_inv Bv) as Hbv; pose proof (Forall_inv_tail Bv) as Bv'. cbn beta in Hbu, Hbv.
  change (map2 vadd (bu :: cu) (bv :: cv)) with (vadd bu bv :: map2 vadd cu cv).
  rewrite !map2_cons, vadd_cons. f_equal; [apply HF; assumption|].
  apply IH; auto. Qed.
Lemma map2_F_vscal (F : R -> list R -> R) a :
  (forall x bu, F x (vscal a bu) = a * F x bu) ->
  forall xx cu, map2 F xx (map (vscal a) cu) = vscal a (map2 F xx cu).
Proof. intros HF. induction xx as [|x xx IH]; intros cu; [reflexivity|].
  destruct cu as [|bu cu]; [reflexivity|]. cbn [map]. rewrite !map2_cons, vscal_cons. f_equal; [apply HF | apply IH]. Qed.

Lemma wint_add g xxs : forall shape coords u v, length u = prodl shape -> length v = prodl shape ->
  @wint R _ g xxs shape coords (vadd u v) = wint g xxs shape coords u + wint g xxs shape coords v.
Proof. induction xxs as [|xx xxs IH]; intros shape coords u v Hu Hv.
  - cbn [wint]. numR. rewrite hd_vadd by lia. ring.
  - destruct shape as [|L rest]; [cbn [wint]; numR; rewrite hd_vadd by lia; ring|].
    cbn [wint]. cbn [prodl fold_right] in Hu, Hv. fold (prodl rest) in Hu, Hv.
    rewrite chunk_vadd.
    rewrite (map2_F_vadd (fun x blk => wint g xxs rest (coords ++ [x]) blk) (prodl rest)).
    + apply trapz_add. rewrite !map2_length, !chunk_length. reflexivity.
    + intros. apply IH; assumption.
    + apply chunk_block_length; assumption.
    + apply chunk_block_length; assumption.
    + rewrite !chunk_length. reflexivity. Qed.

Lemma wint_scal g xxs a : forall shape coords u,
  @wint R _ g xxs shape coords (vscal a u) = a * wint g xxs shape coords u.
Proof. induction xxs as [|xx xxs IH]; intros shape coords u.
  - cbn [wint]. numR. rewrite hd_vscal. ring.
  - destruct shape as [|L rest]; [cbn [wint]; numR; rewrite hd_vscal; ring|].
    cbn [wint]. rewrite chunk_vscal, <- trapz_scal. f_equal.
    apply (map2_F_vscal (fun x blk => wint g xxs rest (coords ++ [x]) blk)). intros. apply IH. Qed.

Lemma admix_nd_linop A ns xxs shape : linop (prodl shape) (length (idxs ns)) (@admix_nd R _ A ns xxs shape).
Proof. split.
  - intros v _. unfold admix_nd. apply map_length.
  - intros u v Hu Hv. unfold admix_nd. rewrite vadd_map. apply map_ext. intros idx. apply wint_add; assumption.
  - intros a v Hv. unfold admix_nd. rewrite vscal_map. apply map_ext. intros idx. apply wint_scal. Qed.

(** ** the dispatcher: whether a call is refused does not depend on phi, and an accepted call is a linear operator *)
Definition olin (a : R) (x : option (list R)) (b : R) (y : option (list R)) : option (list R) :=
  match x, y with
  | Some u, Some v => Some (vadd (vscal a u) (vscal b v))
  | _, _ => None
  end.

Lemma linop_lin L nout T a b u v : linop L nout T -> length u = L -> length v = L ->
  T (vadd (vscal a u) (vscal b v)) = vadd (vscal a (T u)) (vscal b (T v)).
Proof. intros HT Hu Hv. rewrite (lo_add _ _ _ HT), !(lo_scal _ _ _ HT) by (rewrite ?vscal_length; assumption). reflexivity. Qed.

Lemma from_phi_shape_op (o : @opts R) ns xxs shape :
  exists opT : option (list R -> list R),
    (forall phi, from_phi o ns xxs shape phi = option_map (fun T => T phi) opT) /\
    (forall T, opT = Some T -> exists nout, linop (prodl shape) nout T).
Proof. unfold from_phi.
  destruct (match o_admix o with Some A => negb (forallb (fun row => close1 (nsum row) n1) A) | None => false end);
    [exists None; split; [reflexivity | discriminate]|].
  destruct (Nat.eqb (length shape) (length ns) && Nat.eqb (length shape) (length xxs)) eqn:Elen; cbn [negb];
    [|exists None; split; [reflexivity | discriminate]].
  apply andb_true_iff in Elen. destruct Elen as [En Ex]. apply Nat.eqb_eq in En, Ex.
  destruct (match o_het o with Some h => negb (h <? 3)%nat | None => false end);
    [exists None; split; [reflexivity | discriminate]|].
  destruct (match o_admix o, o_het o with Some _, Some _ => true | _, _ => false end);
    [exists None; split; [reflexivity | discriminate]|].
  assert (Hdir : exists nout, linop (prodl shape) nout (nd (direct_ops (o_het o) ns xxs) shape))
    by (eexists; apply nd_linop, direct_ops_ok; lia).
  assert (Hlin : exists nout, linop (prodl shape) nout (nd (linalg_ops ns xxs) shape))
    by (eexists; apply nd_linop, linalg_ops_ok; lia).
  destruct (length shape) as [|[|[|[|[|[|d]]]]]] eqn:Ed.
  - exists None; split; [reflexivity | discriminate].
  - (* 1-D *)
    destruct ns as [|n [|? ?]]; try discriminate. destruct xxs as [|xx [|? ?]]; try discriminate.
    destruct shape as [|L [|? ?]]; try discriminate.
    destruct (o_het o) eqn:Eh, (o_force o);
      try (eexists (Some _); split; [intros; reflexivity | intros T [= <-]; exact Hdir]).
    eexists (Some _); split; [intros; reflexivity | intros T [= <-]].
    exists (S n). cbn [prodl fold_right]. apply analytic1D_linop.
  - destruct (match o_admix o, o_het o, o_force o with None, None, false => true | _, _, _ => false end).
    + destruct (same_grid01 xxs); [|exists None; split; [reflexivity | discriminate]].
      eexists (Some _); split; [intros; reflexivity | intros T [= <-]; exact Hlin].
    + destruct (o_admix o) as [A|]; eexists (Some _); (split; [intros; reflexivity | intros T [= <-]]);
        [eexists; apply admix_nd_linop | exact Hdir].
  - destruct (match o_admix o, o_het o, o_force o with None, None, false => true | _, _, _ => false end).
    + destruct (same_grid01 xxs); [|exists None; split; [reflexivity | discriminate]].
      eexists (Some _); split; [intros; reflexivity | intros T [= <-]; exact Hlin].
    + destruct (o_admix o) as [A|]; eexists (Some _); (split; [intros; reflexivity | intros T [= <-]]);
        [eexists; apply admix_nd_linop | exact Hdir].
  - destruct (match o_admix o, o_het o, o_force o with None, None, false => true | _, _, _ => false end).
    + destruct (same_grid01 xxs); [|exists None; split; [reflexivity | discriminate]].
      eexists (Some _); split; [intros; reflexivity | intros T [= <-]; exact Hlin].
    + destruct (o_admix o) as [A|]; eexists (Some _); (split; [intros; reflexivity | intros T [= <-]]);
        [eexists; apply admix_nd_linop | exact Hdir].
  - destruct (match o_admix o, o_het o, o_force o with None, None, false => true | _, _, _ => false end).
    + destruct (same_grid01 xxs); [|exists None; split; [reflexivity | discriminate]].
      eexists (Some _); split; [intros; reflexivity | intros T [= <-]; exact Hlin].
    + exists None; split; [reflexivity | discriminate].
  - exists None; split; [reflexivity | discriminate].
Qed.

(** Spectrum.from_phi is linear in phi on every path (and refuses, or not, independently of phi) *)
Theorem from_phi_linear (o : @opts R) ns xxs shape a b phi psi :
  length phi = prodl shape -> length psi = prodl shape ->
  from_phi o ns xxs shape (vadd (vscal a phi) (vscal b psi))
  = olin a (from_phi o ns xxs shape phi) b (from_phi o ns xxs shape psi).
Proof. intros Hp Hq. destruct (from_phi_shape_op o ns xxs shape) as [[T|] [E HT]]; rewrite !E; cbn [option_map olin]; [|reflexivity].
  destruct (HT T eq_refl) as [nout HL]. f_equal. apply (linop_lin _ _ _ _ _ _ _ HL); assumption. Qed.
