(** * O(eps^2) remainder of the central finite-difference Hessian / gradient of dadi/Godambe.py on the
      Poisson log-likelihood of a model that is linear in its parameters.

      ll(theta) = sum_i ( - adj m_i + d_i ln (adj m_i) - g_i ),  m_i = sum_k theta_k B_i[k] > 0.

      [rho] is any bound on the shares |theta_k B_i[k]| / m_i  (rho = 1 works when all theta_k B_i[k] >= 0).
      For 0 < eps <= 1/(8 rho) and every pair of coordinates on which the step-size rule selects the central
      stencil (theta_k <> 0 and 1e-6 <= theta_k eps):
         | get_hess ll theta eps [r][c] - pois_hess r c | <= 40 rho^2 * (sum_i |d_i| |B_i[r] B_i[c]| / m_i^2) * eps^2
         | get_grad ll theta eps [k]    - pois_grad k   | <= 4/3 rho^2 * (sum_i |d_i| |B_i[k]| / m_i)        * eps^2
      The one-sided stencils (theta_k = 0 or theta_k eps < 1e-6, in particular every eps below 1e-6/theta_k)
      are first order by construction and are not covered. *)
From Coq Require Import ZArith Reals List Lra Lia Bool.
From Coquelicot Require Import Coquelicot.
From Dadi Require Import Base.Num Base.NumR Model.Godambe Proofs.GodambeProofs Proofs.GodambePoisson Proofs.GodambeLnBounds.
Import ListNotations.
Local Open Scope R_scope.

(** ** sums *)
Lemma combine_map3 {A B C D} (g : A -> D) (l1 : list A) (l2 : list B) (l3 : list C) :
  combine (combine (map g l1) l2) l3
  = map (fun t => (g (fst (fst t)), snd (fst t), snd t)) (combine (combine l1 l2) l3).
Proof.
  revert l2 l3. induction l1 as [|x l1 IH]; intros l2 l3; [reflexivity|].
  destruct l2 as [|y l2]; [reflexivity|]. destruct l3 as [|z l3]; [reflexivity|].
  cbn [map combine fst snd]. rewrite IH. reflexivity.
Qed.

Lemma in_comb3 {A B C} (l1 : list A) (l2 : list B) (l3 : list C) t :
  In t (combine (combine l1 l2) l3) -> In (fst (fst t)) l1.
Proof. destruct t as [[b d] g]. intros H. apply in_combine_l in H. apply in_combine_l in H. exact H. Qed.

Lemma pois_ll_sum (Bs : list (list R)) (dt : @pdata R) (th : list R) :
  pois_ll (lin_mean Bs) dt th
  = nsum (map (fun t => pois_term (pd_adj dt * ndot th (fst (fst t))) (snd (fst t)) (snd t))
              (combine (combine Bs (pd_d dt)) (pd_g dt))).
Proof. unfold pois_ll, lin_mean. rewrite combine_map3, map_map. reflexivity. Qed.

Lemma nsum_abs_diff {A} (l : list A) (u v c : A -> R) :
  (forall t, In t l -> Rabs (u t - v t) <= c t) ->
  Rabs (nsum (map u l) - nsum (map v l)) <= nsum (map c l).
Proof.
  induction l as [|x l IH]; intros Hb; cbn [map]; rewrite ?nsum_cons, ?nsum_nil.
  - rewrite Rminus_0_r, Rabs_R0. lra.
  - replace (u x + nsum (map u l) - (v x + nsum (map v l))) with ((u x - v x) + (nsum (map u l) - nsum (map v l))) by ring.
    eapply Rle_trans; [apply Rabs_triang|]. apply Rplus_le_compat.
    + apply Hb. left. reflexivity.
    + apply IH. intros t Ht. apply Hb. right. exact Ht.
Qed.

Lemma nsum_map_scal {A} (l : list A) (u : A -> R) (s : R) :
  nsum (map (fun t => u t * s) l) = nsum (map u l) * s.
Proof. induction l as [|x l IH]; cbn [map]; rewrite ?nsum_cons, ?nsum_nil; [ring|rewrite IH; ring]. Qed.

Lemma nsum_map_nonneg {A} (l : list A) (u : A -> R) : (forall t, In t l -> 0 <= u t) -> 0 <= nsum (map u l).
Proof.
  induction l as [|x l IH]; intros Hb; cbn [map]; rewrite ?nsum_cons, ?nsum_nil; [lra|].
  apply Rplus_le_le_0_compat; [apply Hb; left; reflexivity|apply IH; intros t Ht; apply Hb; right; exact Ht].
Qed.

Ltac st_unfold := unfold st_diag_c, st_off_c, st_grad_c, n2; numR.

(** the stencils are linear in the sampled values *)
Lemma st_diag_c_sum {A} (l : list A) (fp f0 fm : A -> R) e :
  st_diag_c (nsum (map fp l)) (nsum (map f0 l)) (nsum (map fm l)) e
  = nsum (map (fun t => st_diag_c (fp t) (f0 t) (fm t) e) l).
Proof.
  induction l as [|x l IH]; cbn [map]; rewrite ?nsum_cons, ?nsum_nil.
  - st_unfold. unfold Rdiv. ring.
  - rewrite <- IH. st_unfold. unfold Rdiv. ring.
Qed.

Lemma st_off_c_sum {A} (l : list A) (fpp fpm fmp fmm : A -> R) ei ej :
  st_off_c (nsum (map fpp l)) (nsum (map fpm l)) (nsum (map fmp l)) (nsum (map fmm l)) ei ej
  = nsum (map (fun t => st_off_c (fpp t) (fpm t) (fmp t) (fmm t) ei ej) l).
Proof.
  induction l as [|x l IH]; cbn [map]; rewrite ?nsum_cons, ?nsum_nil.
  - st_unfold. unfold Rdiv. ring.
  - rewrite <- IH. st_unfold. unfold Rdiv. ring.
Qed.

Lemma st_grad_c_sum {A} (l : list A) (fp fm : A -> R) e :
  st_grad_c (nsum (map fp l)) (nsum (map fm l)) e
  = nsum (map (fun t => st_grad_c (fp t) (fm t) e) l).
Proof.
  induction l as [|x l IH]; cbn [map]; rewrite ?nsum_cons, ?nsum_nil.
  - st_unfold. unfold Rdiv. ring.
  - rewrite <- IH. st_unfold. unfold Rdiv. ring.
Qed.

(** ** one spectrum entry: T(x) = pois_term (adj x) d g *)
Lemma term_diag_bound adj m b d g e :
  0 < adj -> 0 < m -> e <> 0 -> Rabs (e * b) <= m / 2 ->
  Rabs (st_diag_c (pois_term (adj * (m + e * b)) d g) (pois_term (adj * m) d g) (pois_term (adj * (m - e * b)) d g) e
        - - (d * b * b / (m * m)))
  <= Rabs d * (2 * (b * b) / (m * m)) * ((e * b / m) * (e * b / m)).
Proof.
  intros Ha Hm He Hp.
  set (a := adj * m). set (p := adj * (e * b)).
  assert (Ha0 : 0 < a) by (apply Rmult_lt_0_compat; assumption).
  assert (Hpa : Rabs p <= a / 2).
  { unfold p, a. rewrite Rabs_mult, (Rabs_right adj) by lra.
    replace (adj * m / 2) with (adj * (m / 2)) by field. apply Rmult_le_compat_l; lra. }
  pose proof (ln_diag_bound a p Ha0 Hpa) as HB.
  assert (Hee : 0 < e * e) by (destruct (Rtotal_order e 0) as [H|[H|H]]; [nra|contradiction|nra]).
  assert (E : st_diag_c (pois_term (adj * (m + e * b)) d g) (pois_term a d g) (pois_term (adj * (m - e * b)) d g) e
              - - (d * b * b / (m * m))
              = d * (ln (a + p) - 2 * ln a + ln (a - p) + p * p / (a * a)) * / (e * e)).
  { replace (adj * (m + e * b)) with (a + p) by (unfold a, p; ring).
    replace (adj * (m - e * b)) with (a - p) by (unfold a, p; ring).
    st_unfold. unfold pois_term. numR.
    generalize (ln (a + p)) (ln a) (ln (a - p)). intros L1 L2 L3. unfold a, p. field. repeat split; lra. }
  fold a. rewrite E.
  rewrite !Rabs_mult, (Rabs_right (/ (e * e))) by (left; apply Rinv_0_lt_compat; assumption).
  eapply Rle_trans.
  - apply Rmult_le_compat_r; [left; apply Rinv_0_lt_compat; assumption|].
    apply Rmult_le_compat_l; [apply Rabs_pos|exact HB].
  - right. unfold a, p. field. repeat split; lra.
Qed.

Lemma term_off_bound adj m bi bj d g ei ej :
  0 < adj -> 0 < m -> ei <> 0 -> ej <> 0 -> Rabs (ei * bi) + Rabs (ej * bj) <= m / 4 ->
  Rabs (st_off_c (pois_term (adj * (m + ei * bi + ej * bj)) d g) (pois_term (adj * (m + ei * bi - ej * bj)) d g)
                 (pois_term (adj * (m - ei * bi + ej * bj)) d g) (pois_term (adj * (m - ei * bi - ej * bj)) d g) ei ej
        - - (d * bi * bj / (m * m)))
  <= Rabs d * (10 * Rabs (bi * bj) / (m * m))
     * (((Rabs (ei * bi) + Rabs (ej * bj)) / m) * ((Rabs (ei * bi) + Rabs (ej * bj)) / m)).
Proof.
  intros Ha Hm Hei Hej Hs.
  set (a := adj * m). set (p := adj * (ei * bi)). set (q := adj * (ej * bj)).
  assert (Ha0 : 0 < a) by (apply Rmult_lt_0_compat; assumption).
  assert (Hp : Rabs p = adj * Rabs (ei * bi)) by (unfold p; rewrite Rabs_mult, (Rabs_right adj) by lra; reflexivity).
  assert (Hq : Rabs q = adj * Rabs (ej * bj)) by (unfold q; rewrite Rabs_mult, (Rabs_right adj) by lra; reflexivity).
  assert (Hpq : Rabs p + Rabs q <= a / 4).
  { rewrite Hp, Hq. unfold a. replace (adj * m / 4) with (adj * (m / 4)) by field.
    rewrite <- Rmult_plus_distr_l. apply Rmult_le_compat_l; lra. }
  pose proof (ln_off_bound a p q Ha0 Hpq) as HB.
  assert (Hei0 : 0 < Rabs ei) by (apply Rabs_pos_lt; assumption).
  assert (Hej0 : 0 < Rabs ej) by (apply Rabs_pos_lt; assumption).
  assert (E : st_off_c (pois_term (adj * (m + ei * bi + ej * bj)) d g) (pois_term (adj * (m + ei * bi - ej * bj)) d g)
                 (pois_term (adj * (m - ei * bi + ej * bj)) d g) (pois_term (adj * (m - ei * bi - ej * bj)) d g) ei ej
              - - (d * bi * bj / (m * m))
              = d * (ln (a + p + q) - ln (a + p - q) - ln (a - p + q) + ln (a - p - q) + 4 * p * q / (a * a))
                * / (4 * ei * ej)).
  { replace (adj * (m + ei * bi + ej * bj)) with (a + p + q) by (unfold a, p, q; ring).
    replace (adj * (m + ei * bi - ej * bj)) with (a + p - q) by (unfold a, p, q; ring).
    replace (adj * (m - ei * bi + ej * bj)) with (a - p + q) by (unfold a, p, q; ring).
    replace (adj * (m - ei * bi - ej * bj)) with (a - p - q) by (unfold a, p, q; ring).
    st_unfold. unfold pois_term. numR.
    generalize (ln (a + p + q)) (ln (a + p - q)) (ln (a - p + q)) (ln (a - p - q)). intros L1 L2 L3 L4.
    unfold a, p, q. field. repeat split; lra. }
  rewrite E.
  assert (Hden : Rabs (/ (4 * ei * ej)) = / (4 * Rabs ei * Rabs ej)).
  { rewrite Rabs_inv, !Rabs_mult, (Rabs_right 4) by lra. reflexivity. }
  rewrite !Rabs_mult, Hden.
  assert (Hden0 : 0 < / (4 * Rabs ei * Rabs ej)).
  { apply Rinv_0_lt_compat. apply Rmult_lt_0_compat; [lra|assumption]. }
  eapply Rle_trans.
  - apply Rmult_le_compat_r; [lra|].
    apply Rmult_le_compat_l; [apply Rabs_pos|exact HB].
  - right. rewrite Hp, Hq. rewrite !Rabs_mult. unfold a.
    field. repeat split; lra.
Qed.

Lemma term_grad_bound adj m b d g e :
  0 < adj -> 0 < m -> e <> 0 -> Rabs (e * b) <= m / 2 ->
  Rabs (st_grad_c (pois_term (adj * (m + e * b)) d g) (pois_term (adj * (m - e * b)) d g) e
        - (d / m - adj) * b)
  <= Rabs d * (4 / 3 * Rabs b / m) * ((Rabs (e * b) / m) * (Rabs (e * b) / m)).
Proof.
  intros Ha Hm He Hp.
  set (a := adj * m). set (p := adj * (e * b)).
  assert (Ha0 : 0 < a) by (apply Rmult_lt_0_compat; assumption).
  assert (Hpabs : Rabs p = adj * Rabs (e * b)) by (unfold p; rewrite Rabs_mult, (Rabs_right adj) by lra; reflexivity).
  assert (Hpa : Rabs p <= a / 2).
  { rewrite Hpabs. unfold a. replace (adj * m / 2) with (adj * (m / 2)) by field. apply Rmult_le_compat_l; lra. }
  pose proof (ln_grad_bound a p Ha0 Hpa) as HB.
  assert (He0 : 0 < Rabs e) by (apply Rabs_pos_lt; assumption).
  assert (E : st_grad_c (pois_term (adj * (m + e * b)) d g) (pois_term (adj * (m - e * b)) d g) e - (d / m - adj) * b
              = d * (ln (a + p) - ln (a - p) - 2 * p / a) * / (2 * e)).
  { replace (adj * (m + e * b)) with (a + p) by (unfold a, p; ring).
    replace (adj * (m - e * b)) with (a - p) by (unfold a, p; ring).
    st_unfold. unfold pois_term. numR.
    generalize (ln (a + p)) (ln (a - p)). intros L1 L2. unfold a, p. field. repeat split; lra. }
  rewrite E.
  assert (Hden : Rabs (/ (2 * e)) = / (2 * Rabs e)).
  { rewrite Rabs_inv, Rabs_mult, (Rabs_right 2) by lra. reflexivity. }
  rewrite !Rabs_mult, Hden.
  assert (Hden0 : 0 < / (2 * Rabs e)) by (apply Rinv_0_lt_compat; lra).
  eapply Rle_trans.
  - apply Rmult_le_compat_r; [lra|].
    apply Rmult_le_compat_l; [apply Rabs_pos|exact HB].
  - right. rewrite Hpabs, Rabs_mult. unfold a.
    field. repeat split; lra.
Qed.

Lemma ndot_upd2 (theta b : list R) i j vi vj : i <> j -> (i < length theta)%nat -> (j < length theta)%nat ->
  ndot (upd (upd theta i vi) j vj) b
  = ndot theta b + (vi - nth i theta 0) * nth i b 0 + (vj - nth j theta 0) * nth j b 0.
Proof.
  intros Hij Hi Hj. rewrite ndot_upd by (rewrite length_upd; assumption).
  rewrite ndot_upd by assumption. rewrite nth_upd_other by assumption. ring.
Qed.

(** ** the constants *)
Definition habs (theta : list R) (k l : nat) (t : list R * R * R) : R :=
  Rabs (snd (fst t)) * Rabs (nth k (fst (fst t)) 0 * nth l (fst (fst t)) 0)
  / (ndot theta (fst (fst t)) * ndot theta (fst (fst t))).
Definition gabs (theta : list R) (k : nat) (t : list R * R * R) : R :=
  Rabs (snd (fst t)) * Rabs (nth k (fst (fst t)) 0) / ndot theta (fst (fst t)).
(** sum_i |d_i| |B_i[k] B_i[l]| / m_i^2   and   sum_i |d_i| |B_i[k]| / m_i *)
Definition pois_abs_hess (Bs : list (list R)) (dt : @pdata R) (theta : list R) (k l : nat) : R :=
  nsum (map (habs theta k l) (combine (combine Bs (pd_d dt)) (pd_g dt))).
Definition pois_abs_grad (Bs : list (list R)) (dt : @pdata R) (theta : list R) (k : nat) : R :=
  nsum (map (gabs theta k) (combine (combine Bs (pd_d dt)) (pd_g dt))).

Definition share_bound (Bs : list (list R)) (theta : list R) (rho : R) : Prop :=
  List.Forall (fun b => forall k, Rabs (nth k theta 0 * nth k b 0) <= rho * ndot theta b) Bs.

Section Remainder.
  Variable Bs : list (list R).
  Variable dt : @pdata R.
  Variable theta : list R.
  Variable rho : R.
  Hypothesis adj_pos : 0 < pd_adj dt.
  Hypothesis mean_pos : List.Forall (fun b => 0 < ndot theta b) Bs.
  Hypothesis rho_pos : 0 < rho.
  Hypothesis share : share_bound Bs theta rho.

  Let f := pois_ll (lin_mean Bs) dt.
  Let L := combine (combine Bs (pd_d dt)) (pd_g dt).

  Lemma in_L_pos t : In t L -> 0 < ndot theta (fst (fst t)).
  Proof. intros Ht. apply in_comb3 in Ht. rewrite Forall_forall in mean_pos. apply mean_pos, Ht. Qed.
  Lemma in_L_share t k : In t L -> Rabs (nth k theta 0 * nth k (fst (fst t)) 0) <= rho * ndot theta (fst (fst t)).
  Proof. intros Ht. apply in_comb3 in Ht. unfold share_bound in share. rewrite Forall_forall in share. apply share, Ht. Qed.

  (** |eps theta_k b| <= eps rho m *)
  Lemma step_share eps k t : 0 < eps -> In t L ->
    Rabs (eps * nth k theta 0 * nth k (fst (fst t)) 0) <= eps * rho * ndot theta (fst (fst t)).
  Proof.
    intros He Ht. rewrite Rmult_assoc, Rabs_mult, (Rabs_right eps) by lra.
    rewrite Rmult_assoc. apply Rmult_le_compat_l; [lra|]. apply in_L_share, Ht.
  Qed.

  Lemma hess_diag_bound k eps :
    (k < length theta)%nat -> 0 < eps -> eps * rho <= 1 / 2 -> nth k theta 0 <> 0 ->
    Rabs (st_diag_c (f (upd theta k (nth k theta 0 + eps * nth k theta 0))) (f theta)
                    (f (upd theta k (nth k theta 0 - eps * nth k theta 0))) (eps * nth k theta 0)
          - pois_hess Bs dt theta k k)
    <= 2 * (rho * rho) * pois_abs_hess Bs dt theta k k * (eps * eps).
  Proof.
    intros Hk He Her Hth. unfold f. rewrite !pois_ll_sum. rewrite st_diag_c_sum.
    unfold pois_hess. fold L. numR.
    eapply Rle_trans; [apply (nsum_abs_diff L _ _ (fun t => habs theta k k t * (2 * (rho * rho) * (eps * eps))))
                      |rewrite nsum_map_scal; unfold pois_abs_hess; fold L; right; ring].
    intros t Ht. unfold habs.
    pose proof (in_L_pos t Ht) as Hm. pose proof (step_share eps k t He Ht) as Hsh.
    set (b := fst (fst t)) in *. set (m := ndot theta b) in *. set (tk := nth k theta 0) in *.
    rewrite !ndot_upd by assumption. fold tk m.
    replace (m + (tk + eps * tk - tk) * nth k b 0) with (m + eps * tk * nth k b 0) by ring.
    replace (m + (tk - eps * tk - tk) * nth k b 0) with (m - eps * tk * nth k b 0) by ring.
    assert (Hek : eps * tk <> 0) by (apply Rmult_integral_contrapositive_currified; [lra|assumption]).
    assert (Hhalf : Rabs (eps * tk * nth k b 0) <= m / 2).
    { eapply Rle_trans; [exact Hsh|]. replace (m / 2) with (1 / 2 * m) by field.
      apply Rmult_le_compat_r; lra. }
    eapply Rle_trans; [apply term_diag_bound; assumption|].
    (* (e b / m)^2 <= (eps rho)^2 *)
    assert (Hq : (eps * tk * nth k b 0 / m) * (eps * tk * nth k b 0 / m) <= (eps * rho) * (eps * rho)).
    { rewrite <- (Rabs_mult_self (eps * tk * nth k b 0 / m)).
      assert (Hr : Rabs (eps * tk * nth k b 0 / m) <= eps * rho).
      { unfold Rdiv. rewrite Rabs_mult, (Rabs_right (/ m)) by (left; apply Rinv_0_lt_compat; assumption).
        apply (Rmult_le_reg_r m); [assumption|]. rewrite Rmult_assoc, Rinv_l by lra. lra. }
      apply Rmult_le_compat; try apply Rabs_pos; assumption. }
    rewrite (Rabs_mult (nth k b 0) (nth k b 0)), Rabs_mult_self.
    assert (Hc : 0 <= Rabs (snd (fst t)) * (2 * (nth k b 0 * nth k b 0) / (m * m))).
    { apply Rmult_le_pos; [apply Rabs_pos|]. apply Rmult_le_pos; [|left; apply Rinv_0_lt_compat; nra].
      pose proof (Rle_0_sqr (nth k b 0)) as Hsq. unfold Rsqr in Hsq. lra. }
    eapply Rle_trans; [apply Rmult_le_compat_l; [exact Hc|exact Hq]|].
    right. field. lra.
  Qed.

  Lemma hess_off_bound i j eps :
    i <> j -> (i < length theta)%nat -> (j < length theta)%nat -> 0 < eps -> eps * rho <= 1 / 8 ->
    nth i theta 0 <> 0 -> nth j theta 0 <> 0 ->
    let pi := nth i theta 0 in let pj := nth j theta 0 in
    let ei := eps * pi in let ej := eps * pj in
    Rabs (st_off_c (f (upd (upd theta i (pi + ei)) j (pj + ej))) (f (upd (upd theta i (pi + ei)) j (pj - ej)))
                   (f (upd (upd theta i (pi - ei)) j (pj + ej))) (f (upd (upd theta i (pi - ei)) j (pj - ej))) ei ej
          - pois_hess Bs dt theta i j)
    <= 40 * (rho * rho) * pois_abs_hess Bs dt theta i j * (eps * eps).
  Proof.
    intros Hij Hi Hj He Her Hti Htj pi pj ei ej. unfold f. rewrite !pois_ll_sum. rewrite st_off_c_sum.
    unfold pois_hess. fold L. numR.
    eapply Rle_trans; [apply (nsum_abs_diff L _ _ (fun t => habs theta i j t * (40 * (rho * rho) * (eps * eps))))
                      |rewrite nsum_map_scal; unfold pois_abs_hess; fold L; right; ring].
    intros t Ht. unfold habs.
    pose proof (in_L_pos t Ht) as Hm.
    pose proof (step_share eps i t He Ht) as Hshi. pose proof (step_share eps j t He Ht) as Hshj.
    set (b := fst (fst t)) in *. set (m := ndot theta b) in *.
    rewrite !ndot_upd2 by assumption. fold pi pj m.
    replace (m + (pi + ei - pi) * nth i b 0 + (pj + ej - pj) * nth j b 0) with (m + ei * nth i b 0 + ej * nth j b 0) by ring.
    replace (m + (pi + ei - pi) * nth i b 0 + (pj - ej - pj) * nth j b 0) with (m + ei * nth i b 0 - ej * nth j b 0) by ring.
    replace (m + (pi - ei - pi) * nth i b 0 + (pj + ej - pj) * nth j b 0) with (m - ei * nth i b 0 + ej * nth j b 0) by ring.
    replace (m + (pi - ei - pi) * nth i b 0 + (pj - ej - pj) * nth j b 0) with (m - ei * nth i b 0 - ej * nth j b 0) by ring.
    assert (Hei : ei <> 0) by (apply Rmult_integral_contrapositive_currified; [lra|assumption]).
    assert (Hej : ej <> 0) by (apply Rmult_integral_contrapositive_currified; [lra|assumption]).
    fold pi ei in Hshi. fold pj ej in Hshj.
    set (S := Rabs (ei * nth i b 0) + Rabs (ej * nth j b 0)) in *.
    assert (HS : S <= 2 * (eps * rho) * m) by (unfold S; lra).
    assert (HS0 : 0 <= S) by (unfold S; pose proof (Rabs_pos (ei * nth i b 0)); pose proof (Rabs_pos (ej * nth j b 0)); lra).
    assert (Hquarter : S <= m / 4).
    { eapply Rle_trans; [exact HS|]. replace (m / 4) with (2 * (1 / 8) * m) by field.
      apply Rmult_le_compat_r; lra. }
    eapply Rle_trans; [apply term_off_bound; assumption|]. fold S.
    assert (Hr : S / m <= 2 * (eps * rho)).
    { apply (Rmult_le_reg_r m); [assumption|]. unfold Rdiv. rewrite Rmult_assoc, Rinv_l by lra. lra. }
    assert (Hr0 : 0 <= S / m) by (apply Rmult_le_pos; [assumption|left; apply Rinv_0_lt_compat; assumption]).
    assert (Hq : (S / m) * (S / m) <= 2 * (eps * rho) * (2 * (eps * rho))) by (apply Rmult_le_compat; assumption).
    assert (Hc : 0 <= Rabs (snd (fst t)) * (10 * Rabs (nth i b 0 * nth j b 0) / (m * m))).
    { apply Rmult_le_pos; [apply Rabs_pos|]. apply Rmult_le_pos; [|left; apply Rinv_0_lt_compat; nra].
      pose proof (Rabs_pos (nth i b 0 * nth j b 0)). lra. }
    eapply Rle_trans; [apply Rmult_le_compat_l; [exact Hc|exact Hq]|].
    right. field. lra.
  Qed.

  Lemma grad_central_bound k eps :
    (k < length theta)%nat -> 0 < eps -> eps * rho <= 1 / 2 -> nth k theta 0 <> 0 ->
    Rabs (st_grad_c (f (upd theta k (nth k theta 0 + eps * nth k theta 0)))
                    (f (upd theta k (nth k theta 0 - eps * nth k theta 0))) (eps * nth k theta 0)
          - pois_grad Bs dt theta k)
    <= 4 / 3 * (rho * rho) * pois_abs_grad Bs dt theta k * (eps * eps).
  Proof.
    intros Hk He Her Hth. unfold f. rewrite !pois_ll_sum. rewrite st_grad_c_sum.
    unfold pois_grad. fold L. numR.
    eapply Rle_trans; [apply (nsum_abs_diff L _ _ (fun t => gabs theta k t * (4 / 3 * (rho * rho) * (eps * eps))))
                      |rewrite nsum_map_scal; unfold pois_abs_grad; fold L; right; ring].
    intros t Ht. unfold gabs.
    pose proof (in_L_pos t Ht) as Hm. pose proof (step_share eps k t He Ht) as Hsh.
    set (b := fst (fst t)) in *. set (m := ndot theta b) in *. set (tk := nth k theta 0) in *.
    rewrite !ndot_upd by assumption. fold tk m.
    replace (m + (tk + eps * tk - tk) * nth k b 0) with (m + eps * tk * nth k b 0) by ring.
    replace (m + (tk - eps * tk - tk) * nth k b 0) with (m - eps * tk * nth k b 0) by ring.
    assert (Hek : eps * tk <> 0) by (apply Rmult_integral_contrapositive_currified; [lra|assumption]).
    assert (Hhalf : Rabs (eps * tk * nth k b 0) <= m / 2).
    { eapply Rle_trans; [exact Hsh|]. replace (m / 2) with (1 / 2 * m) by field.
      apply Rmult_le_compat_r; lra. }
    eapply Rle_trans; [apply term_grad_bound; assumption|].
    set (S := Rabs (eps * tk * nth k b 0)) in *.
    assert (HS0 : 0 <= S) by apply Rabs_pos.
    assert (Hr : S / m <= eps * rho).
    { apply (Rmult_le_reg_r m); [assumption|]. unfold Rdiv. rewrite Rmult_assoc, Rinv_l by lra. lra. }
    assert (Hr0 : 0 <= S / m) by (apply Rmult_le_pos; [assumption|left; apply Rinv_0_lt_compat; assumption]).
    assert (Hq : (S / m) * (S / m) <= (eps * rho) * (eps * rho)) by (apply Rmult_le_compat; assumption).
    assert (Hc : 0 <= Rabs (snd (fst t)) * (4 / 3 * Rabs (nth k b 0) / m)).
    { apply Rmult_le_pos; [apply Rabs_pos|]. apply Rmult_le_pos; [|left; apply Rinv_0_lt_compat; assumption].
      pose proof (Rabs_pos (nth k b 0)). lra. }
    eapply Rle_trans; [apply Rmult_le_compat_l; [exact Hc|exact Hq]|].
    right. field. lra.
  Qed.

  Lemma pois_abs_hess_nonneg k l : 0 <= pois_abs_hess Bs dt theta k l.
  Proof.
    unfold pois_abs_hess. apply nsum_map_nonneg. intros t Ht. fold L in Ht. pose proof (in_L_pos t Ht) as Hm. unfold habs.
    apply Rmult_le_pos; [apply Rmult_le_pos; apply Rabs_pos|left; apply Rinv_0_lt_compat; nra].
  Qed.

  (** ** hessian_elem with central flags *)
  Lemma hess_elem_central_bound (es : list R) (os : list bool) ii jj eps :
    (ii < length theta)%nat -> (jj < length theta)%nat -> 0 < eps -> eps * rho <= 1 / 8 ->
    nth ii theta 0 <> 0 -> nth jj theta 0 <> 0 ->
    nth ii es 0 = eps * nth ii theta 0 -> nth jj es 0 = eps * nth jj theta 0 ->
    nth ii os false = false -> nth jj os false = false ->
    Rabs (hess_elem f (f theta) theta ii jj es os - pois_hess Bs dt theta ii jj)
    <= 40 * (rho * rho) * pois_abs_hess Bs dt theta ii jj * (eps * eps).
  Proof.
    intros Hi Hj He Her Hti Htj Hei Hej Hoi Hoj. unfold hess_elem. numR.
    rewrite Hei, Hej, Hoi, Hoj.
    rewrite (proj2 (Reqb_false _ _) Hti), (proj2 (Reqb_false _ _) Htj). cbn [negb andb].
    destruct (Nat.eqb_spec ii jj) as [Heq|Hne].
    - subst jj. eapply Rle_trans; [apply hess_diag_bound; try assumption; lra|].
      pose proof (pois_abs_hess_nonneg ii ii) as H0.
      apply Rmult_le_compat_r; [nra|]. apply Rmult_le_compat_r; [assumption|]. nra.
    - apply hess_off_bound; assumption.
  Qed.

  Lemma grad_elem_central_bound (es : list R) (os : list bool) k eps :
    (k < length theta)%nat -> 0 < eps -> eps * rho <= 1 / 2 -> nth k theta 0 <> 0 ->
    nth k es 0 = eps * nth k theta 0 -> nth k os false = false ->
    Rabs (grad_elem f theta k es os - pois_grad Bs dt theta k)
    <= 4 / 3 * (rho * rho) * pois_abs_grad Bs dt theta k * (eps * eps).
  Proof.
    intros Hk He Her Hth Hes Hos. unfold grad_elem. numR. rewrite Hes, Hos.
    rewrite (proj2 (Reqb_false _ _) Hth). cbn [negb andb].
    apply grad_central_bound; assumption.
  Qed.

  (** ** get_hess / get_grad, step-size rule included *)
  Lemma central_steps eps k : (k < length theta)%nat -> nth k theta 0 <> 0 -> Rtiny <= nth k theta 0 * eps ->
    nth k (map fst (map (step_rule eps) theta)) 0 = eps * nth k theta 0 /\
    nth k (map snd (map (step_rule eps) theta)) false = false.
  Proof.
    intros Hk Hth Ht. destruct (nth_steps eps theta k Hk) as [H1 H2]. rewrite H1, H2.
    destruct (step_rule_spec eps (nth k theta 0)) as (_ & _ & H3). rewrite (H3 Hth Ht). split; reflexivity.
  Qed.

  Theorem poisson_hessian_within_eps2 eps r c :
    0 < eps -> eps <= / (8 * rho) -> (r < length theta)%nat -> (c < length theta)%nat ->
    nth r theta 0 <> 0 -> Rtiny <= nth r theta 0 * eps ->
    nth c theta 0 <> 0 -> Rtiny <= nth c theta 0 * eps ->
    Rabs (nth c (nth r (get_hess (pois_ll (lin_mean Bs) dt) theta eps) []) 0 - pois_hess Bs dt theta r c)
    <= 40 * (rho * rho) * pois_abs_hess Bs dt theta r c * (eps * eps).
  Proof.
    intros He Hle Hr Hc Htr Hsr Htc Hsc.
    assert (Her : eps * rho <= 1 / 8).
    { apply (Rmult_le_compat_r rho) in Hle; [|lra]. replace (/ (8 * rho) * rho) with (1 / 8) in Hle by (field; lra). exact Hle. }
    unfold get_hess. rewrite (nth_map_seq _ _ _ _ Hr), (nth_map_seq _ _ _ _ Hc). fold f.
    destruct (central_steps eps r Hr Htr Hsr) as [Er Or]. destruct (central_steps eps c Hc Htc Hsc) as [Ec Oc].
    destruct (Nat.le_ge_cases r c) as [Hle'|Hle'].
    - rewrite Nat.min_l, Nat.max_r by assumption. apply hess_elem_central_bound; assumption.
    - rewrite Nat.min_r, Nat.max_l by assumption.
      rewrite (pois_hess_sym Bs dt theta r c).
      replace (pois_abs_hess Bs dt theta r c) with (pois_abs_hess Bs dt theta c r).
      + apply hess_elem_central_bound; assumption.
      + unfold pois_abs_hess. f_equal. apply map_ext. intros t. unfold habs. rewrite (Rmult_comm (nth c _ 0)). reflexivity.
  Qed.

  Theorem poisson_gradient_within_eps2 eps k :
    0 < eps -> eps <= / (8 * rho) -> (k < length theta)%nat ->
    nth k theta 0 <> 0 -> Rtiny <= nth k theta 0 * eps ->
    Rabs (nth k (get_grad (pois_ll (lin_mean Bs) dt) theta eps) 0 - pois_grad Bs dt theta k)
    <= 4 / 3 * (rho * rho) * pois_abs_grad Bs dt theta k * (eps * eps).
  Proof.
    intros He Hle Hk Hth Hs.
    assert (Her : eps * rho <= 1 / 2).
    { apply (Rmult_le_compat_r rho) in Hle; [|lra]. replace (/ (8 * rho) * rho) with (1 / 8) in Hle by (field; lra). lra. }
    unfold get_grad. rewrite (nth_map_seq _ _ _ _ Hk). fold f.
    destruct (central_steps eps k Hk Hth Hs) as [Ek Ok].
    apply grad_elem_central_bound; assumption.
  Qed.
End Remainder.

(** ** a sufficient condition for [share_bound] with rho = 1: all components theta_k B_i[k] are non-negative
       (non-negative base spectra, positive parameters) *)
Lemma ndot_terms_le (theta b : list R) :
  (forall k, 0 <= nth k theta 0 * nth k b 0) ->
  0 <= ndot theta b /\ forall k, nth k theta 0 * nth k b 0 <= ndot theta b.
Proof.
  revert b. induction theta as [|x t IH]; intros b Hnn.
  - split; [unfold ndot; cbn; lra|]. intros k. unfold ndot. cbn [combine map]. rewrite nsum_nil. destruct k; cbn [nth]; lra.
  - destruct b as [|y b'].
    + rewrite ndot_nil_r. split; [lra|]. intros k. destruct k; cbn [nth]; lra.
    + rewrite ndot_cons.
      assert (Hnn' : forall k, 0 <= nth k t 0 * nth k b' 0) by (intros k; exact (Hnn (S k))).
      destruct (IH b' Hnn') as [H0 Hk]. pose proof (Hnn 0%nat) as Hxy. cbn [nth] in Hxy.
      split; [lra|]. intros k. destruct k as [|k]; cbn [nth]; [lra|]. pose proof (Hk k). lra.
Qed.

Lemma share_bound_nonneg (Bs : list (list R)) (theta : list R) :
  List.Forall (fun b => forall k, 0 <= nth k theta 0 * nth k b 0) Bs -> share_bound Bs theta 1.
Proof.
  intros H. unfold share_bound. rewrite Forall_forall in *. intros b Hb k.
  destruct (ndot_terms_le theta b (H b Hb)) as [_ Hk]. rewrite Rabs_right by (apply Rle_ge, (H b Hb)).
  pose proof (Hk k). lra.
Qed.

(** ** (5) propagation to J and cU (polynomial in the bootstrap gradients) *)
Lemma prod_diff_bound x y X Y dx dy : Rabs (x - X) <= dx -> Rabs (y - Y) <= dy ->
  Rabs (x * y - X * Y) <= dx * Rabs Y + Rabs X * dy + dx * dy.
Proof.
  intros Hx Hy. replace (x * y - X * Y) with ((x - X) * Y + X * (y - Y) + (x - X) * (y - Y)) by ring.
  pose proof (Rabs_pos (x - X)). pose proof (Rabs_pos (y - Y)). pose proof (Rabs_pos X). pose proof (Rabs_pos Y).
  eapply Rle_trans; [apply Rabs_triang|]. apply Rplus_le_compat; [eapply Rle_trans; [apply Rabs_triang|apply Rplus_le_compat]|].
  - rewrite Rabs_mult. apply Rmult_le_compat_r; assumption.
  - rewrite Rabs_mult. apply Rmult_le_compat_l; assumption.
  - rewrite Rabs_mult. apply Rmult_le_compat; assumption.
Qed.

Definition grad_const (rho : R) (Bs : list (list R)) (theta : list R) (k : nat) (bt : @pdata R) : R :=
  4 / 3 * (rho * rho) * pois_abs_grad Bs bt theta k.
Definition J_const (rho : R) (Bs : list (list R)) (theta : list R) (i j : nat) (bt : @pdata R) : R :=
  grad_const rho Bs theta i bt * Rabs (pois_grad Bs bt theta j)
  + Rabs (pois_grad Bs bt theta i) * grad_const rho Bs theta j bt
  + grad_const rho Bs theta i bt * grad_const rho Bs theta j bt.
(** the exact score vectors of the bootstrap data sets *)
Definition exact_grads (Bs : list (list R)) (theta : list R) (boots : list (@pdata R)) : list (list R) :=
  map (fun bt => map (pois_grad Bs bt theta) (seq 0 (length theta))) boots.

Section Bootstraps.
  Variable Bs : list (list R).
  Variable theta : list R.
  Variable rho : R.
  Variable boots : list (@pdata R).
  Hypothesis adj_pos : List.Forall (fun bt => 0 < pd_adj bt) boots.
  Hypothesis mean_pos : List.Forall (fun b => 0 < ndot theta b) Bs.
  Hypothesis rho_pos : 0 < rho.
  Hypothesis share : share_bound Bs theta rho.
  Hypothesis boots_ne : boots <> [].

  Lemma pois_abs_grad_nonneg bt k : 0 <= pois_abs_grad Bs bt theta k.
  Proof.
    unfold pois_abs_grad. apply nsum_map_nonneg. intros t Ht. apply in_comb3 in Ht.
    rewrite Forall_forall in mean_pos. pose proof (mean_pos _ Ht) as Hm. unfold gabs.
    apply Rmult_le_pos; [apply Rmult_le_pos; apply Rabs_pos|left; apply Rinv_0_lt_compat; assumption].
  Qed.
  Lemma grad_const_nonneg bt k : 0 <= grad_const rho Bs theta k bt.
  Proof. unfold grad_const. pose proof (pois_abs_grad_nonneg bt k). apply Rmult_le_pos; [nra|assumption]. Qed.

  Lemma boots_count_pos : 0 < IZR (Z.of_nat (length boots)).
  Proof. apply (IZR_lt 0). destruct boots; [contradiction|cbn [length]; lia]. Qed.

  Let grads eps := map (fun bt => get_grad (pois_ll (lin_mean Bs) bt) theta eps) boots.

  Theorem poisson_J_within_eps2 eps i j :
    0 < eps -> eps <= / (8 * rho) -> eps <= 1 -> (i < length theta)%nat -> (j < length theta)%nat ->
    nth i theta 0 <> 0 -> Rtiny <= nth i theta 0 * eps -> nth j theta 0 <> 0 -> Rtiny <= nth j theta 0 * eps ->
    Rabs (J_entry (grads eps) i j - J_entry (exact_grads Bs theta boots) i j)
    <= nsum (map (J_const rho Bs theta i j) boots) / IZR (Z.of_nat (length boots)) * (eps * eps).
  Proof.
    intros He Hle He1 Hi Hj Hti Hsi Htj Hsj. pose proof boots_count_pos as HN.
    unfold J_entry, grads, exact_grads, nofnat. numR. rewrite !map_map, !map_length.
    set (N := IZR (Z.of_nat (length boots))) in *.
    unfold Rdiv. rewrite <- Rmult_minus_distr_r, Rabs_mult, (Rabs_right (/ N)) by (left; apply Rinv_0_lt_compat; assumption).
    rewrite (Rmult_comm _ (/ N)), (Rmult_comm _ (/ N)), Rmult_assoc.
    apply Rmult_le_compat_l; [left; apply Rinv_0_lt_compat; assumption|].
    rewrite <- nsum_map_scal. apply nsum_abs_diff. intros bt Hbt.
    rewrite Forall_forall in adj_pos. pose proof (adj_pos bt Hbt) as Hadj.
    rewrite !(nth_map_seq _ _ _ _ Hi), !(nth_map_seq _ _ _ _ Hj).
    pose proof (poisson_gradient_within_eps2 Bs bt theta rho Hadj mean_pos rho_pos share eps i He Hle Hi Hti Hsi) as Gi.
    pose proof (poisson_gradient_within_eps2 Bs bt theta rho Hadj mean_pos rho_pos share eps j He Hle Hj Htj Hsj) as Gj.
    fold (grad_const rho Bs theta i bt) in Gi. fold (grad_const rho Bs theta j bt) in Gj.
    eapply Rle_trans; [apply (prod_diff_bound _ _ _ _ _ _ Gi Gj)|].
    pose proof (grad_const_nonneg bt i) as Ci. pose proof (grad_const_nonneg bt j) as Cj.
    unfold J_const.
    set (ci := grad_const rho Bs theta i bt) in *. set (cj := grad_const rho Bs theta j bt) in *.
    pose proof (Rabs_pos (pois_grad Bs bt theta i)) as Ai. pose proof (Rabs_pos (pois_grad Bs bt theta j)) as Aj.
    assert (Hee : 0 <= eps * eps <= 1) by nra.
    assert (Hcc : 0 <= ci * cj) by (apply Rmult_le_pos; assumption).
    assert (H4 : ci * (eps * eps) * (cj * (eps * eps)) <= ci * cj * (eps * eps)).
    { replace (ci * (eps * eps) * (cj * (eps * eps))) with (ci * cj * (eps * eps) * (eps * eps)) by ring.
      rewrite <- (Rmult_1_r (ci * cj * (eps * eps))) at 2. apply Rmult_le_compat_l; [apply Rmult_le_pos; lra|lra]. }
    lra.
  Qed.

  Theorem poisson_cU_within_eps2 eps i :
    0 < eps -> eps <= / (8 * rho) -> (i < length theta)%nat ->
    nth i theta 0 <> 0 -> Rtiny <= nth i theta 0 * eps ->
    Rabs (cU_entry (grads eps) i - cU_entry (exact_grads Bs theta boots) i)
    <= nsum (map (grad_const rho Bs theta i) boots) / IZR (Z.of_nat (length boots)) * (eps * eps).
  Proof.
    intros He Hle Hi Hti Hsi. pose proof boots_count_pos as HN.
    unfold cU_entry, grads, exact_grads, nofnat. numR. rewrite !map_map, !map_length.
    set (N := IZR (Z.of_nat (length boots))) in *.
    unfold Rdiv. rewrite <- Rmult_minus_distr_r, Rabs_mult, (Rabs_right (/ N)) by (left; apply Rinv_0_lt_compat; assumption).
    rewrite (Rmult_comm _ (/ N)), (Rmult_comm _ (/ N)), Rmult_assoc.
    apply Rmult_le_compat_l; [left; apply Rinv_0_lt_compat; assumption|].
    rewrite <- nsum_map_scal. apply nsum_abs_diff. intros bt Hbt.
    rewrite Forall_forall in adj_pos. pose proof (adj_pos bt Hbt) as Hadj.
    rewrite !(nth_map_seq _ _ _ _ Hi).
    exact (poisson_gradient_within_eps2 Bs bt theta rho Hadj mean_pos rho_pos share eps i He Hle Hi Hti Hsi).
  Qed.
End Bootstraps.

(** the three outputs of get_godambe's assembly stage at once: H = - get_hess, J, cU *)
Theorem poisson_godambe_HJc_within_eps2 (Bs : list (list R)) (theta : list R) (rho : R) (data : @pdata R) (boots : list (@pdata R)) eps :
  0 < pd_adj data -> List.Forall (fun bt => 0 < pd_adj bt) boots -> List.Forall (fun b => 0 < ndot theta b) Bs ->
  0 < rho -> share_bound Bs theta rho -> boots <> [] ->
  0 < eps -> eps <= / (8 * rho) -> eps <= 1 ->
  (forall k, (k < length theta)%nat -> nth k theta 0 <> 0 /\ Rtiny <= nth k theta 0 * eps) ->
  let HJc := godambe_HJc (fun bt => pois_ll (lin_mean Bs) bt) theta eps data boots in
  forall i j, (i < length theta)%nat -> (j < length theta)%nat ->
    Rabs (nth j (nth i (fst (fst HJc)) []) 0 - - pois_hess Bs data theta i j)
      <= 40 * (rho * rho) * pois_abs_hess Bs data theta i j * (eps * eps) /\
    Rabs (nth j (nth i (snd (fst HJc)) []) 0 - J_entry (exact_grads Bs theta boots) i j)
      <= nsum (map (J_const rho Bs theta i j) boots) / IZR (Z.of_nat (length boots)) * (eps * eps) /\
    Rabs (nth i (snd HJc) 0 - cU_entry (exact_grads Bs theta boots) i)
      <= nsum (map (grad_const rho Bs theta i) boots) / IZR (Z.of_nat (length boots)) * (eps * eps).
Proof.
  intros Hadj Hadjs Hm Hrho Hsh Hne He Hle He1 Hcen HJc i j Hi Hj.
  destruct (Hcen i Hi) as [Hti Hsi]. destruct (Hcen j Hj) as [Htj Hsj].
  unfold HJc, godambe_HJc. cbn [fst snd]. repeat split.
  - assert (Hlen : length (get_hess (pois_ll (lin_mean Bs) data) theta eps) = length theta)
      by (unfold get_hess; rewrite map_length, seq_length; reflexivity).
    rewrite (nth_map_in (map nopp) _ i [] []) by (rewrite Hlen; assumption).
    assert (Hlen2 : length (nth i (get_hess (pois_ll (lin_mean Bs) data) theta eps) []) = length theta).
    { unfold get_hess. rewrite (nth_map_seq _ _ _ _ Hi), map_length, seq_length. reflexivity. }
    rewrite (nth_map_in nopp _ j 0 0) by (rewrite Hlen2; assumption). numR.
    replace (- nth j (nth i (get_hess (pois_ll (lin_mean Bs) data) theta eps) []) 0 - - pois_hess Bs data theta i j)
      with (- (nth j (nth i (get_hess (pois_ll (lin_mean Bs) data) theta eps) []) 0 - pois_hess Bs data theta i j)) by ring.
    rewrite Rabs_Ropp. apply poisson_hessian_within_eps2; assumption.
  - unfold J_mat. rewrite (nth_map_seq _ _ _ _ Hi), (nth_map_seq _ _ _ _ Hj).
    apply poisson_J_within_eps2; assumption.
  - unfold cU_vec. rewrite (nth_map_seq _ _ _ _ Hi).
    apply poisson_cU_within_eps2; assumption.
Qed.

(** ** non-vacuity: two parameters theta = (1, 2), two entries with base spectra (1,1) and (2,1) (means 3 and 4),
       data (3, 5), eps = 1/100, rho = 1:  exact d2 ll/d theta_0 d theta_1 = - (3/9 + 10/16) = - 23/24 and the central
       stencil of get_hess is within 40 * 23/24 * 1e-4 = 23/6000 of it *)
Example poisson_remainder_example :
  let Bs := [[1; 1]; [2; 1]] in let dt := {| pd_adj := 1; pd_d := [3; 5]; pd_g := [0; 0] |} in
  Rabs (nth 1 (nth 0 (get_hess (pois_ll (lin_mean Bs) dt) [1; 2] (1 / 100)) []) 0 - - (23 / 24)) <= 23 / 6000 /\
  Rabs (nth 0 (get_grad (pois_ll (lin_mean Bs) dt) [1; 2] (1 / 100)) 0 - (3 / 3 - 1 + (5 / 4 - 1) * 2)) <= 4 / 3 * (3 / 3 + 10 / 4) * (1 / 10000).
Proof.
  intros Bs dt.
  assert (Hadj : 0 < pd_adj dt) by (cbn; lra).
  assert (Hm : List.Forall (fun b => 0 < ndot [1; 2] b) Bs).
  { unfold Bs. apply Forall_cons; [|apply Forall_cons; [|apply Forall_nil]]; unfold ndot, nsum; cbn; numR; lra. }
  assert (Hsh : share_bound Bs [1; 2] 1).
  { apply share_bound_nonneg. unfold Bs.
    apply Forall_cons; [|apply Forall_cons; [|apply Forall_nil]]; intros k; destruct k as [|[|[|k]]]; cbn [nth]; lra. }
  assert (Ht : Rtiny <= 1 * (1 / 100) /\ Rtiny <= 2 * (1 / 100)) by (unfold Rtiny; lra).
  split.
  - pose proof (poisson_hessian_within_eps2 Bs dt [1; 2] 1 Hadj Hm Rlt_0_1 Hsh (1 / 100) 0%nat 1%nat) as H.
    cbn [nth length] in H.
    assert (E1 : pois_hess Bs dt [1; 2] 0 1 = - (23 / 24)).
    { unfold pois_hess, Bs, dt, ndot, nsum. cbn. numR. field. }
    assert (E2 : pois_abs_hess Bs dt [1; 2] 0 1 = 23 / 24).
    { unfold pois_abs_hess, habs, Bs, dt, ndot, nsum. cbn. numR. rewrite !Rabs_right by lra. field. }
    rewrite E1, E2 in H. eapply Rle_trans; [apply H; try lra; lia|]. lra.
  - pose proof (poisson_gradient_within_eps2 Bs dt [1; 2] 1 Hadj Hm Rlt_0_1 Hsh (1 / 100) 0%nat) as H.
    cbn [nth length] in H.
    assert (E1 : pois_grad Bs dt [1; 2] 0 = 3 / 3 - 1 + (5 / 4 - 1) * 2).
    { unfold pois_grad, Bs, dt, ndot, nsum. cbn. numR. field. }
    assert (E2 : pois_abs_grad Bs dt [1; 2] 0 = 3 / 3 + 10 / 4).
    { unfold pois_abs_grad, gabs, Bs, dt, ndot, nsum. cbn. numR. rewrite !Rabs_right by lra. field. }
    rewrite E1, E2 in H. eapply Rle_trans; [apply H; try lra; lia|]. lra.
Qed.

(** ** the O(eps^2) claim cannot be extended to eps -> 0: below eps = 1e-6 / theta_k the step-size rule raises
       the one_sided flag and the one-sided stencil is first order only.
       Witness: one parameter theta = 1, one entry B = (1), d = 1, adj = 1, ll = - theta + ln theta:
       for 0 < eps < 1e-6   get_grad = (ln (1 + eps) - eps) / eps,  exact gradient 0,  |error| >= eps / 4. *)
Lemma onesided_grad_value eps : 0 < eps -> eps < Rtiny ->
  nth 0 (get_grad (pois_ll (lin_mean [[1]]) {| pd_adj := 1; pd_d := [1]; pd_g := [0] |}) [1] eps) 0
  = (ln (1 + eps) - eps) / eps.
Proof.
  intros He Ht. unfold get_grad. cbn [length seq map nth].
  destruct (step_rule_spec eps 1) as (_ & H1 & _). rewrite (H1 R1_neq_R0) by lra. cbn [fst snd].
  unfold grad_elem. cbn [nth]. numR. rewrite (proj2 (Reqb_false 1 0) R1_neq_R0). cbn [negb andb].
  unfold st_grad_o, pois_ll, lin_mean, pois_term, ndot, nsum. cbn. numR.
  replace (1 * ((1 + eps) * 1 + 0)) with (1 + eps) by ring.
  replace (1 * (1 * 1 + 0)) with 1 by ring. rewrite ln_1. field. lra.
Qed.

Theorem poisson_gradient_eps2_small_eps_refuted :
  exists (Bs : list (list R)) (dt : @pdata R) (theta : list R),
    0 < pd_adj dt /\ List.Forall (fun b => 0 < ndot theta b) Bs /\
    ~ (exists C eps0, 0 < eps0 /\ forall eps, 0 < eps <= eps0 ->
         Rabs (nth 0 (get_grad (pois_ll (lin_mean Bs) dt) theta eps) 0 - pois_grad Bs dt theta 0) <= C * (eps * eps)).
Proof.
  exists [[1]], {| pd_adj := 1; pd_d := [1]; pd_g := [0] |}, [1].
  split; [cbn; lra|]. split; [apply Forall_cons; [unfold ndot, nsum; cbn; numR; lra|apply Forall_nil]|].
  intros (C & eps0 & He0 & Hall).
  assert (HG : pois_grad [[1]] {| pd_adj := 1; pd_d := [1]; pd_g := [0] |} [1] 0 = 0).
  { unfold pois_grad, ndot, nsum. cbn. numR. field. }
  set (K := Rabs C + 1). assert (HK : 1 <= K) by (unfold K; pose proof (Rabs_pos C); lra).
  set (eps := Rmin (Rmin eps0 (Rtiny / 2)) (/ (8 * K))).
  assert (HiK : 0 < / (8 * K)) by (apply Rinv_0_lt_compat; lra).
  assert (Hb1 : eps <= eps0) by (unfold eps; eapply Rle_trans; [apply Rmin_l|apply Rmin_l]).
  assert (Hb2 : eps <= Rtiny / 2) by (unfold eps; eapply Rle_trans; [apply Rmin_l|apply Rmin_r]).
  assert (Hb3 : eps <= / (8 * K)) by (unfold eps; apply Rmin_r).
  assert (Hpos : 0 < eps).
  { unfold eps. apply Rmin_glb_lt; [apply Rmin_glb_lt; [assumption|unfold Rtiny; lra]|assumption]. }
  assert (Htiny : eps < Rtiny) by (unfold Rtiny in *; lra).
  specialize (Hall eps (conj Hpos Hb1)).
  rewrite (onesided_grad_value eps Hpos Htiny), HG, Rminus_0_r in Hall.
  assert (Hle1 : eps <= 1) by (unfold Rtiny in *; lra).
  pose proof (ln1p_upper2 eps (conj (Rlt_le _ _ Hpos) Hle1)) as Hln.
  (* |error| >= eps/4 *)
  assert (Herr : eps / 4 <= Rabs ((ln (1 + eps) - eps) / eps)).
  { rewrite <- Rabs_Ropp. eapply Rle_trans; [|apply Rle_abs].
    apply (Rmult_le_reg_r eps); [assumption|].
    replace (- ((ln (1 + eps) - eps) / eps) * eps) with (eps - ln (1 + eps)) by (field; lra). lra. }
  (* C eps^2 <= K eps * eps <= eps / 8 *)
  assert (HCK : C <= K) by (unfold K; pose proof (Rle_abs C); lra).
  assert (HKe : K * eps <= / 8).
  { apply (Rmult_le_compat_l K) in Hb3; [|lra]. replace (K * / (8 * K)) with (/ 8) in Hb3 by (field; lra). exact Hb3. }
  assert (Hee : 0 < eps * eps) by (apply Rmult_lt_0_compat; assumption).
  assert (H1 : C * (eps * eps) <= K * (eps * eps)) by (apply Rmult_le_compat_r; lra).
  assert (H2 : K * (eps * eps) <= / 8 * eps).
  { rewrite <- Rmult_assoc. apply Rmult_le_compat_r; lra. }
  lra.
Qed.
