(** Facts about the coalescent oracle (Model/Coalescent.v) and the binomial sampling of the neutral density. *)
From Coq Require Import Reals ZArith QArith Qreals Qreduction List Lra Lia Arith Bool.
From Coquelicot Require Import Coquelicot.
From Dadi Require Import Base.Num Base.NumR Model.Coalescent.
Import ListNotations.
Local Open Scope R_scope.

(** ** Beta integral: int_0^1 x^a (1-x)^b dx = a! b! / (a+b+1)! *)
Lemma beta_integral : forall b a : nat,
  is_RInt (fun x => x ^ a * (1 - x) ^ b) 0 1 (INR (fact a) * INR (fact b) / INR (fact (a + b + 1))).
Proof.
  induction b as [|b IH]; intros a.
  - replace (INR (fact a) * INR (fact 0) / INR (fact (a + 0 + 1))) with
      (minus ((fun x => x ^ (S a) / INR (S a)) 1) ((fun x => x ^ (S a) / INR (S a)) 0)).
    + apply (is_RInt_ext (fun x => x ^ a)); [intros x _; simpl; ring|].
      apply (is_RInt_derive (V := R_CompleteNormedModule) (fun x => x ^ (S a) / INR (S a)) (fun x => x ^ a) 0 1).
      * intros x _. auto_derive; [exact I|]. change (match a with 0%nat => 1 | S _ => INR a + 1 end) with (INR (S a)).
        field. apply not_0_INR. lia.
      * intros x _. apply (ex_derive_continuous (fun x => x ^ a)). auto_derive. exact I.
    + unfold minus, plus, opp; cbn -[INR fact pow]. rewrite pow1, pow_i by lia.
      replace (a + 0 + 1)%nat with (S a) by lia. rewrite fact_simpl, mult_INR. simpl (fact 0). simpl (INR 1).
      field. split; [apply INR_fact_neq_0|apply not_0_INR; lia].
  - (* x^a (1-x)^(b+1) = F'(x) + (b+1)/(a+1) x^(a+1) (1-x)^b, F = x^(a+1) (1-x)^(b+1) / (a+1) *)
    set (F := fun x : R => x ^ (S a) * (1 - x) ^ (S b) / INR (S a)).
    set (F' := fun x : R => x ^ a * (1 - x) ^ (S b) - INR (S b) / INR (S a) * (x ^ (S a) * (1 - x) ^ b)).
    assert (Hsa : INR (S a) <> 0) by (apply not_0_INR; lia).
    assert (HF : is_RInt F' 0 1 (minus (F 1) (F 0))).
    { apply (is_RInt_derive (V := R_CompleteNormedModule) F F' 0 1).
      - intros x _. unfold F, F'. auto_derive; [exact I|].
        change (match a with 0%nat => 1 | S _ => INR a + 1 end) with (INR (S a)).
        change (match b with 0%nat => 1 | S _ => INR b + 1 end) with (INR (S b)). simpl pow. unfold Rminus. field. exact Hsa.
      - intros x _. apply (ex_derive_continuous F'). unfold F'. auto_derive. exact I. }
    replace (minus (F 1) (F 0)) with 0 in HF.
    2:{ unfold minus, plus, opp, F; cbn -[INR pow]. replace (1 - 1) with 0 by ring. rewrite !pow_i by lia. unfold Rdiv. ring. }
    pose proof (is_RInt_scal _ 0 1 (INR (S b) / INR (S a)) _ (IH (S a))) as HS.
    pose proof (is_RInt_plus _ _ 0 1 _ _ HF HS) as HP.
    apply (is_RInt_ext (fun x => plus (F' x) (scal (INR (S b) / INR (S a)) (x ^ S a * (1 - x) ^ b)))).
    + intros x _. unfold plus, scal, F'; cbn -[INR pow]. unfold mult; cbn -[INR pow]. ring.
    + replace (INR (fact a) * INR (fact (S b)) / INR (fact (a + S b + 1)))
        with (plus 0 (scal (INR (S b) / INR (S a)) (INR (fact (S a)) * INR (fact b) / INR (fact (S a + b + 1))))); [exact HP|].
      unfold plus, scal; cbn -[INR fact]. unfold mult; cbn -[INR fact].
      replace (a + S b + 1)%nat with (S (a + b + 1)) by lia.
      rewrite (fact_simpl a), (fact_simpl b), !mult_INR.
      field. split; [apply INR_fact_neq_0|exact Hsa].
Qed.

(** binomial sampling of the neutral density theta/x: entry i of the sample spectrum is theta/i *)
Lemma snm_samples_to_theta_over_i_lemma : forall (theta : R) (n i : nat), (1 <= i <= n)%nat ->
  (forall x, x <> 0 -> Binomial.C n i * x ^ i * (1 - x) ^ (n - i) * (theta / x) = theta * Binomial.C n i * (x ^ (i - 1) * (1 - x) ^ (n - i))) /\
  is_RInt (fun x => theta * Binomial.C n i * (x ^ (i - 1) * (1 - x) ^ (n - i))) 0 1 (theta / INR i).
Proof.
  intros theta n i Hi. split.
  - intros x Hx. assert (Hp : x ^ i = x * x ^ (i - 1)) by (replace i with (S (i - 1)) at 1 by lia; simpl; ring).
    rewrite Hp. field. exact Hx.
  - pose proof (is_RInt_scal _ 0 1 (theta * Binomial.C n i) _ (beta_integral (n - i) (i - 1))) as HS.
    replace (theta / INR i) with (scal (theta * Binomial.C n i) (INR (fact (i - 1)) * INR (fact (n - i)) / INR (fact (i - 1 + (n - i) + 1)))); [exact HS|].
    unfold scal; cbn -[INR fact Binomial.C]. unfold mult; cbn -[INR fact Binomial.C]. unfold Binomial.C.
    replace (i - 1 + (n - i) + 1)%nat with n by lia.
    replace (fact i) with (i * fact (i - 1))%nat.
    2:{ replace i with (S (i - 1)) at 3 by lia. rewrite fact_simpl. f_equal. lia. }
    rewrite mult_INR. field. repeat split; try apply INR_fact_neq_0. apply not_0_INR. lia.
Qed.

(** ** the coalescent oracle for a constant size: theta nu / i  (all sample sizes 2..30, the stated domain) *)
Lemma const_coeff_all :
  forallb (fun n => forallb (fun i => Qeq_bool (const_coeff n i) (qmk 2 (Z.of_nat i))) (seq 1 (n - 1))) (seq 2 29) = true.
Proof. vm_compute. reflexivity. Qed.

Lemma const_coeff_eq n i : (2 <= n <= 30)%nat -> (1 <= i < n)%nat -> (const_coeff n i == qmk 2 (Z.of_nat i))%Q.
Proof.
  intros Hn Hi.
  assert (Hin : In n (seq 2 29)) by (apply in_seq; lia).
  pose proof (proj1 (forallb_forall _ _) const_coeff_all n Hin) as H. cbv beta in H.
  assert (Hin2 : In i (seq 1 (n - 1))) by (apply in_seq; lia).
  pose proof (proj1 (forallb_forall _ _) H i Hin2) as H2. cbv beta in H2.
  apply Qeq_bool_iff. exact H2.
Qed.

Lemma zbinom2_nonzero : forallb (fun j => negb (Z.eqb (zbinom j 2) 0)) (seq 2 29) = true.
Proof. vm_compute. reflexivity. Qed.
Lemma zbinom2_ne0 j : (2 <= j <= 30)%nat -> zbinom j 2 <> 0%Z.
Proof.
  intros Hj. pose proof zbinom2_nonzero as H. rewrite forallb_forall in H. specialize (H j).
  assert (Hin : In j (seq 2 29)) by (apply in_seq; lia). specialize (H Hin).
  apply negb_true_iff in H. apply Z.eqb_neq in H. exact H.
Qed.

Lemma nofQ_R q : nofQ q = Q2R q.
Proof. unfold nofQ, Q2R. numR. reflexivity. Qed.

Lemma sum_coeff (w : nat -> Q) (nu : R) : forall l : list nat, (forall j, In j l -> zbinom j 2 <> 0%Z) ->
  nsum (map (fun j => nofQ (w j) * (nu / IZR (zbinom j 2))) l)
  = nu * Q2R (fold_right (fun j acc => Qred (w j / inject_Z (zbinom j 2) + acc)) 0%Q l).
Proof.
  induction l as [|j l IH]; intros Hl.
  - cbn. numR. unfold Q2R. cbn. lra.
  - cbn [map fold_right]. unfold nsum in *. cbn [fold_right]. numR. rewrite IH by (intros; apply Hl; right; assumption).
    rewrite (Qeq_eqR _ _ (Qred_correct _)). rewrite Q2R_plus, Q2R_div.
    + rewrite nofQ_R.
      assert (Hz : Q2R (inject_Z (zbinom j 2)) = IZR (zbinom j 2)) by (unfold Q2R, inject_Z; cbn [Qnum Qden]; field).
      rewrite Hz. field. apply not_0_IZR. apply Hl. left. reflexivity.
    + unfold inject_Z, Qeq. cbn [Qnum Qden]. rewrite Z.mul_1_r, Z.mul_0_l. apply Hl. left. reflexivity.
Qed.

Lemma ej_hist_nil (quad : (R -> R) -> R -> R -> R) nu j : ej_hist quad [] nu j = nu / IZR (zbinom j 2).
Proof.
  unfold ej_hist, ej_aux, gexp, nltb. numR.
  replace (- (IZR (zbinom j 2) * 0)) with 0 by ring.
  replace (Rleb (IZR (-400)) 0) with true by (symmetry; apply Rleb_true; lra).
  cbn [negb]. rewrite exp_0. unfold Rdiv. ring.
Qed.

Lemma coal_const_is_theta_over_i_lemma : forall (quad : (R -> R) -> R -> R -> R) (theta nu : R) (n i : nat),
  (2 <= n <= 30)%nat -> (1 <= i < n)%nat ->
  coal_sfs theta (ej_hist quad [] nu) n i = theta * nu / INR i.
Proof.
  intros quad theta nu n i Hn Hi. unfold coal_sfs.
  rewrite (map_ext _ (fun j => nofQ (wnij n i j) * (nu / IZR (zbinom j 2)))) by (intros; rewrite ej_hist_nil; reflexivity).
  rewrite sum_coeff.
  - fold (const_coeff n i). rewrite (Qeq_eqR _ _ (const_coeff_eq n i Hn Hi)).
    unfold qmk. rewrite (Qeq_eqR _ _ (Qred_correct _)). unfold Q2R. cbn [Qnum Qden]. unfold n2. numR.
    rewrite Z2Pos.id by lia. rewrite <- INR_IZR_INZ. field. apply not_0_INR. lia.
  - intros j Hj. apply in_seq in Hj. apply zbinom2_ne0. lia.
Qed.

(** ** mutation rate changing from epoch to epoch (ej_aux_th): with the same theta in every epoch it is theta times the
    constant-theta oracle, for every history (any number of constant / exponential epochs) and any quadrature slot *)
Lemma ej_aux_th_uniform (quad : (R -> R) -> R -> R -> R) (th nuA : R) :
  forall (eps : list (R * @epoch R)) (c L : R), (forall e, In e eps -> fst e = th) ->
  ej_aux_th quad c L eps nuA th = th * ej_aux quad c L (map snd eps) nuA.
Proof.
  induction eps as [|[th' e] t IH]; intros c L Hth.
  - cbn. numR. unfold Rdiv. ring.
  - assert (Hh : th' = th) by (apply (Hth (th', e)); left; reflexivity). subst th'.
    assert (Ht : forall e0, In e0 t -> fst e0 = th) by (intros; apply Hth; right; assumption).
    destruct e as [nu T | nu0 nu1 T]; cbn [ej_aux_th ej_aux map snd]; rewrite (IH _ _ Ht); numR; unfold Rdiv; ring.
Qed.

Lemma nsum_scale (a : R) (f : nat -> R) : forall l : list nat,
  nsum (map (fun j => a * f j) l) = a * nsum (map f l).
Proof.
  induction l as [|j l IH]; unfold nsum in *; cbn [map fold_right]; numR.
  - ring.
  - rewrite IH. ring.
Qed.

Lemma coal_sfs_th_uniform_lemma : forall (quad : (R -> R) -> R -> R -> R) (th nuA : R) (eps : list (R * @epoch R)) (n i : nat),
  (forall e, In e eps -> fst e = th) ->
  coal_sfs 1 (ej_hist_th quad eps nuA th) n i = coal_sfs th (ej_hist quad (map snd eps) nuA) n i.
Proof.
  intros quad th nuA eps n i Hth. unfold coal_sfs, ej_hist_th, ej_hist.
  rewrite (map_ext _ (fun j => th * (nofQ (wnij n i j) * ej_aux quad (nofZ (zbinom j 2)) n0 (map snd eps) nuA))).
  - rewrite nsum_scale. numR. unfold Rdiv. ring.
  - intros j. rewrite ej_aux_th_uniform by exact Hth. numR. ring.
Qed.
