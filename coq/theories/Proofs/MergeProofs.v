(** Cache2D.merge (Model/Sched.v): complete iff every job is present, conflicts detected, identical duplicates
    accepted, order of the caches irrelevant; split caches merge back to the full cache. *)
From Coq Require Import List Arith Bool Lia Permutation.
From Dadi Require Import Model.Sched Proofs.SchedProofs Proofs.SchedMain.
Import ListNotations.

Section MergeProofs.
  Variable V : Type.
  Variable veq : V -> V -> bool.
  Hypothesis veq_spec : forall a b, veq a b = true <-> a = b.      (* np.all(a == b) on finite arrays *)
  Notation cache := (list (option V)).

  Definition defined_at (cs : list cache) (i : nat) (v : V) : Prop :=
    exists c, In c cs /\ nth_error c i = Some (Some v).
  Definition consistent (cs : list cache) : Prop :=
    forall i v v', defined_at cs i v -> defined_at cs i v' -> v = v'.
  Definition same_shape (n : nat) (cs : list cache) : Prop := Forall (fun c => length c = n) cs.

  Lemma veq_refl a : veq a a = true. Proof. apply veq_spec; reflexivity. Qed.

  (** ** one merge step *)
  Lemma merge1_some (new o r : cache) : length new = length o -> merge1 V veq new o = Some r ->
    length r = length new /\
    (forall i v, nth_error r i = Some (Some v) <-> (nth_error new i = Some (Some v) \/ nth_error o i = Some (Some v))) /\
    (forall i x y, nth_error new i = Some (Some x) -> nth_error o i = Some (Some y) -> x = y).
  Proof.
    revert o r; induction new as [|a new IH]; intros [|b o] r Hl Hm; try discriminate.
    - cbn in Hm. inversion Hm; subst. split; [reflexivity|]. split.
      + intros [|i] v; cbn; split; try tauto; intros [H|H]; discriminate.
      + intros [|i] x y H; discriminate.
    - cbn [merge1] in Hm. assert (Hl' : length new = length o) by (cbn in Hl; lia).
      assert (Hcase : exists h r', merge1 V veq new o = Some r' /\ r = h :: r' /\
                (forall v, h = Some v <-> (a = Some v \/ b = Some v)) /\ (forall x y, a = Some x -> b = Some y -> x = y)).
      { destruct b as [fs|].
        - destruct a as [x|].
          + destruct (veq x fs) eqn:Ev; [|discriminate]. apply veq_spec in Ev; subst.
            destruct (merge1 V veq new o) as [r'|]; [|discriminate]. cbn in Hm. inversion Hm; subst.
            exists (Some fs), r'. split; [reflexivity|]. split; [reflexivity|]. split; intros; intuition congruence.
          + destruct (merge1 V veq new o) as [r'|]; [|discriminate]. cbn in Hm. inversion Hm; subst.
            exists (Some fs), r'. split; [reflexivity|]. split; [reflexivity|]. split; intros; intuition congruence.
        - destruct (merge1 V veq new o) as [r'|]; [|discriminate]. cbn in Hm. inversion Hm; subst.
          exists a, r'. split; [reflexivity|]. split; [reflexivity|]. split; intros; intuition congruence. }
      destruct Hcase as [h [r' [Hr' [-> [Hh Hxy]]]]].
      destruct (IH o r' Hl' Hr') as [L [Hv Hc]]. split; [cbn; lia|]. split.
      + intros [|i] v; cbn [nth_error].
        * split; [intros H; inversion H as [H1]; apply Hh in H1; destruct H1; subst; auto | intros [H|H]; inversion H as [H1]; f_equal; apply Hh; auto].
        * apply Hv.
      + intros [|i] x y; cbn [nth_error]; [intros H1 H2; inversion H1; inversion H2; eapply Hxy; eauto | apply Hc].
  Qed.

  Lemma merge1_none (new o : cache) : length new = length o -> merge1 V veq new o = None ->
    exists i x y, nth_error new i = Some (Some x) /\ nth_error o i = Some (Some y) /\ x <> y.
  Proof.
    revert o; induction new as [|a new IH]; intros [|b o] Hl Hm; try discriminate.
    cbn [merge1] in Hm. assert (Hl' : length new = length o) by (cbn in Hl; lia).
    assert (Hrec : merge1 V veq new o = None -> exists i x y, nth_error (a :: new) i = Some (Some x) /\ nth_error (b :: o) i = Some (Some y) /\ x <> y).
    { intros Hn. destruct (IH o Hl' Hn) as [i [x [y H]]]. exists (S i), x, y. exact H. }
    destruct b as [fs|].
    - destruct a as [x|].
      + destruct (veq x fs) eqn:Ev.
        * destruct (merge1 V veq new o); [discriminate | apply Hrec; reflexivity].
        * exists 0, x, fs. repeat split. intros ->. rewrite veq_refl in Ev. discriminate.
      + destruct (merge1 V veq new o); [discriminate | apply Hrec; reflexivity].
    - destruct (merge1 V veq new o); [discriminate | apply Hrec; reflexivity].
  Qed.

  (** ** folding over the remaining caches *)
  Lemma defined_at_step (new o n1 : cache) t :
    (forall i v, nth_error n1 i = Some (Some v) <-> (nth_error new i = Some (Some v) \/ nth_error o i = Some (Some v))) ->
    forall i v, defined_at (n1 :: t) i v <-> defined_at (new :: o :: t) i v.
  Proof.
    intros Hv i v. split.
    - intros [c [[<-|Hin] Hc]].
      + apply Hv in Hc. destruct Hc as [Hc|Hc]; [exists new | exists o]; split; auto; [left | right; left]; reflexivity.
      + exists c. split; [right; right; exact Hin | exact Hc].
    - intros [c [[<-|[<-|Hin]] Hc]].
      + exists n1. split; [left; reflexivity | apply Hv; left; exact Hc].
      + exists n1. split; [left; reflexivity | apply Hv; right; exact Hc].
      + exists c. split; [right; exact Hin | exact Hc].
  Qed.

  Lemma merge_all_some n (others : list cache) : forall new r, same_shape n (new :: others) ->
    merge_all V veq new others = Some r ->
    length r = n /\ (forall i v, nth_error r i = Some (Some v) <-> defined_at (new :: others) i v) /\
    consistent (new :: others).
  Proof.
    induction others as [|o t IH]; intros new r Hs Hm.
    - cbn in Hm. inversion Hm; subst. split; [exact (Forall_inv Hs)|]. split.
      + intros i v. split; [intros H; exists r; split; [left; reflexivity | exact H] | intros [c [[<-|[]] Hc]]; exact Hc].
      + intros i v v' [c [[<-|[]] Hc]] [c' [[<-|[]] Hc']]. congruence.
    - cbn [merge_all] in Hm. destruct (merge1 V veq new o) as [n1|] eqn:E1; [|discriminate].
      pose proof (Forall_inv Hs) as Hln. pose proof (Forall_inv_tail Hs) as Hs'. cbv beta in Hln.
      pose proof (Forall_inv Hs') as Hlo. pose proof (Forall_inv_tail Hs') as Hs''. cbv beta in Hlo.
      destruct (merge1_some new o n1 (eq_trans Hln (eq_sym Hlo)) E1) as [L1 [Hv1 Hc1]].
      assert (Hs1 : same_shape n (n1 :: t)) by (constructor; [congruence | exact Hs'']).
      destruct (IH n1 r Hs1 Hm) as [Lr [Hvr Hcr]].
      pose proof (defined_at_step new o n1 t Hv1) as Hd.
      split; [exact Lr|]. split.
      + intros i v. rewrite Hvr. apply Hd.
      + intros i v v' H1 H2. apply (Hcr i v v'); apply Hd; assumption.
  Qed.

  Lemma merge_all_none n (others : list cache) : forall new, same_shape n (new :: others) ->
    merge_all V veq new others = None -> ~ consistent (new :: others).
  Proof.
    induction others as [|o t IH]; intros new Hs Hm; [discriminate|].
    cbn [merge_all] in Hm.
    pose proof (Forall_inv Hs) as Hln. pose proof (Forall_inv_tail Hs) as Hs'. cbv beta in Hln.
    pose proof (Forall_inv Hs') as Hlo. pose proof (Forall_inv_tail Hs') as Hs''. cbv beta in Hlo.
    destruct (merge1 V veq new o) as [n1|] eqn:E1.
    - destruct (merge1_some new o n1 (eq_trans Hln (eq_sym Hlo)) E1) as [L1 [Hv1 Hc1]].
      assert (Hs1 : same_shape n (n1 :: t)) by (constructor; [congruence | exact Hs'']).
      pose proof (defined_at_step new o n1 t Hv1) as Hd.
      intros Hc. apply (IH n1 Hs1 Hm). intros i v v' H1 H2. apply (Hc i v v'); apply Hd; assumption.
    - destruct (merge1_none new o (eq_trans Hln (eq_sym Hlo)) E1) as [i [x [y [Hx [Hy Hne]]]]].
      intros Hc. apply Hne. apply (Hc i x y).
      + exists new. split; [left; reflexivity | exact Hx].
      + exists o. split; [right; left; reflexivity | exact Hy].
  Qed.

  (** ** completeness check *)
  Lemma all_some_some (l : cache) c : all_some V l = Some c -> l = map Some c.
  Proof.
    revert c; induction l as [|[v|] l IH]; intros c H; cbn in H; [inversion H; reflexivity | | discriminate].
    destruct (all_some V l) as [c'|]; [|discriminate]. cbn in H. inversion H; subst. cbn. f_equal. apply IH. reflexivity.
  Qed.
  Lemma all_some_none (l : cache) : all_some V l = None -> exists i, nth_error l i = Some None.
  Proof.
    induction l as [|[v|] l IH]; intros H; cbn in H; [discriminate | | exists 0; reflexivity].
    destruct (all_some V l) as [c'|]; [discriminate|]. destruct (IH eq_refl) as [i Hi]. exists (S i). exact Hi.
  Qed.

  (** ** characterisation of every outcome *)
  Theorem merge_ok_spec n (cs : list cache) c : same_shape n cs -> merge V veq cs = MOk c ->
    cs <> [] /\ consistent cs /\ length c = n /\ (forall i v, nth_error c i = Some v <-> defined_at cs i v).
  Proof.
    intros Hs Hm. unfold merge in Hm. destruct cs as [|c0 others]; [discriminate|].
    destruct (merge_all V veq c0 others) as [new|] eqn:Em; [|discriminate].
    destruct (all_some V new) as [c'|] eqn:Ea; [|discriminate]. inversion Hm; subst c'.
    destruct (merge_all_some n others c0 new Hs Em) as [Ln [Hv Hc]].
    apply all_some_some in Ea. subst new. split; [discriminate|]. split; [exact Hc|].
    split; [rewrite map_length in Ln; exact Ln|].
    intros i v. rewrite <- Hv. rewrite nth_error_map. destruct (nth_error c i); cbn; split; congruence.
  Qed.

  Theorem merge_conflict_spec n (cs : list cache) : same_shape n cs -> (merge V veq cs = MConflict <-> cs <> [] /\ ~ consistent cs).
  Proof.
    intros Hs. unfold merge. destruct cs as [|c0 others]; [split; [discriminate | intros [H _]; congruence]|].
    destruct (merge_all V veq c0 others) as [new|] eqn:Em.
    - destruct (merge_all_some n others c0 new Hs Em) as [_ [_ Hc]].
      split; [destruct (all_some V new); discriminate | intros [_ Hn]; contradiction].
    - split; [intros _; split; [discriminate | eapply merge_all_none; eauto] | reflexivity].
  Qed.

  Theorem merge_incomplete_spec n (cs : list cache) : same_shape n cs -> merge V veq cs = MIncomplete ->
    cs <> [] /\ consistent cs /\ exists i, i < n /\ forall v, ~ defined_at cs i v.
  Proof.
    intros Hs Hm. unfold merge in Hm. destruct cs as [|c0 others]; [discriminate|].
    destruct (merge_all V veq c0 others) as [new|] eqn:Em; [|discriminate].
    destruct (all_some V new) as [c'|] eqn:Ea; [discriminate|].
    destruct (merge_all_some n others c0 new Hs Em) as [Ln [Hv Hc]].
    split; [discriminate|]. split; [exact Hc|].
    destruct (all_some_none new Ea) as [i Hi]. exists i. split.
    - rewrite <- Ln. apply nth_error_Some. congruence.
    - intros v Hd. apply Hv in Hd. congruence.
  Qed.

  Lemma merge_empty_spec (cs : list cache) : merge V veq cs = MEmpty <-> cs = [].
  Proof.
    unfold merge. destruct cs as [|c0 others]; [tauto|]. split; [|discriminate].
    destruct (merge_all V veq c0 others) as [new|]; [destruct (all_some V new)|]; discriminate.
  Qed.

  (** ** order of the caches is irrelevant *)
  Lemma defined_at_perm cs cs' i v : Permutation cs cs' -> defined_at cs i v -> defined_at cs' i v.
  Proof. intros P [c [Hin Hc]]. exists c. split; [eapply Permutation_in; eauto | exact Hc]. Qed.
  Lemma consistent_perm cs cs' : Permutation cs cs' -> consistent cs -> consistent cs'.
  Proof.
    intros P Hc i v v' H1 H2. apply (Hc i v v'); eapply defined_at_perm; try eassumption; symmetry; exact P.
  Qed.

  Theorem merge_order_irrelevant n (cs cs' : list cache) : same_shape n cs -> Permutation cs cs' ->
    merge V veq cs = merge V veq cs'.
  Proof.
    intros Hs P.
    assert (Hs' : same_shape n cs') by (unfold same_shape in *; eapply Permutation_Forall; eauto).
    assert (Hne : cs <> [] <-> cs' <> []).
    { split; intros H ->; apply H; [symmetry in P|]; apply Permutation_nil in P; exact P. }
    destruct (merge V veq cs) as [c| | |] eqn:E.
    - destruct (merge_ok_spec n cs c Hs E) as [Hn [Hc [Lc Hv]]].
      destruct (merge V veq cs') as [c'| | |] eqn:E'.
      + destruct (merge_ok_spec n cs' c' Hs' E') as [_ [_ [Lc' Hv']]]. f_equal.
        apply nth_error_ext_len; [congruence|]. intros i Hi.
        destruct (nth_error c i) as [v|] eqn:Ei; [|apply nth_error_None in Ei; lia].
        symmetry. apply Hv'. eapply defined_at_perm; [exact P|]. apply Hv. exact Ei.
      + apply (merge_conflict_spec n cs' Hs') in E'. destruct E' as [_ Hnc]. exfalso. apply Hnc.
        eapply consistent_perm; eauto.
      + destruct (merge_incomplete_spec n cs' Hs' E') as [_ [_ [i [Hi Hno]]]]. exfalso.
        destruct (nth_error c i) as [v|] eqn:Ei; [|apply nth_error_None in Ei; lia].
        apply (Hno v). eapply defined_at_perm; [exact P|]. apply Hv. exact Ei.
      + apply merge_empty_spec in E'. exfalso. apply Hne in Hn. contradiction.
    - apply (merge_conflict_spec n cs Hs) in E. destruct E as [Hn Hnc]. symmetry.
      apply (merge_conflict_spec n cs' Hs'). split; [apply Hne; exact Hn|].
      intros Hc. apply Hnc. eapply consistent_perm; [symmetry; exact P | exact Hc].
    - destruct (merge_incomplete_spec n cs Hs E) as [Hn [Hc [i [Hi Hno]]]].
      destruct (merge V veq cs') as [c'| | |] eqn:E'; [| |reflexivity|].
      + destruct (merge_ok_spec n cs' c' Hs' E') as [_ [_ [Lc' Hv']]]. exfalso.
        destruct (nth_error c' i) as [v|] eqn:Ei; [|apply nth_error_None in Ei; lia].
        apply (Hno v). eapply defined_at_perm; [symmetry; exact P|]. apply Hv'. exact Ei.
      + apply (merge_conflict_spec n cs' Hs') in E'. destruct E' as [_ Hnc]. exfalso. apply Hnc.
        eapply consistent_perm; eauto.
      + apply merge_empty_spec in E'. exfalso. apply Hne in Hn. contradiction.
    - apply merge_empty_spec in E. subst cs. apply Permutation_nil in P. subst cs'. reflexivity.
  Qed.

  (** ** sufficient conditions, in the direction the property states them *)
  Theorem merge_total n (cs : list cache) : same_shape n cs -> cs <> [] -> consistent cs ->
    (forall i, i < n -> exists v, defined_at cs i v) -> exists c, merge V veq cs = MOk c.
  Proof.
    intros Hs Hn Hc Hall. destruct (merge V veq cs) as [c| | |] eqn:E; [eauto | | |].
    - apply (merge_conflict_spec n cs Hs) in E. destruct E; contradiction.
    - destruct (merge_incomplete_spec n cs Hs E) as [_ [_ [i [Hi Hno]]]]. destruct (Hall i Hi) as [v Hv]. destruct (Hno v Hv).
    - apply merge_empty_spec in E. contradiction.
  Qed.

  Theorem merge_missing_detected n (cs : list cache) i : same_shape n cs -> i < n -> (forall v, ~ defined_at cs i v) ->
    forall c, merge V veq cs <> MOk c.
  Proof.
    intros Hs Hi Hno c E. destruct (merge_ok_spec n cs c Hs E) as [_ [_ [Lc Hv]]].
    destruct (nth_error c i) as [v|] eqn:Ei; [|apply nth_error_None in Ei; lia]. apply (Hno v), Hv, Ei.
  Qed.

  Theorem merge_conflict_detected n (cs : list cache) i v v' : same_shape n cs ->
    defined_at cs i v -> defined_at cs i v' -> v <> v' -> merge V veq cs = MConflict.
  Proof.
    intros Hs H1 H2 Hne. apply (merge_conflict_spec n cs Hs). split.
    - destruct H1 as [c [Hin _]]. intros ->. destruct Hin.
    - intros Hc. apply Hne. eapply Hc; eauto.
  Qed.

  (** duplicates of a cache never change the outcome *)
  Theorem merge_duplicate_identical_ok n (cs : list cache) d : same_shape n cs -> In d cs ->
    forall c, merge V veq cs = MOk c -> merge V veq (cs ++ [d]) = MOk c.
  Proof.
    intros Hs Hd c E. destruct (merge_ok_spec n cs c Hs E) as [Hn [Hc [Lc Hv]]].
    assert (Hs' : same_shape n (cs ++ [d])).
    { unfold same_shape in *. apply Forall_app. split; [exact Hs|]. constructor; [|constructor].
      rewrite Forall_forall in Hs. apply Hs, Hd. }
    assert (Hdef : forall i v, defined_at (cs ++ [d]) i v <-> defined_at cs i v).
    { intros i v. split; intros [c0 [Hin Hc0]]; exists c0.
      - apply in_app_or in Hin. destruct Hin as [Hin|[<-|[]]]; auto.
      - split; [apply in_or_app; left; exact Hin | exact Hc0]. }
    destruct (merge_total n (cs ++ [d]) Hs') as [c' E'].
    - destruct cs; discriminate.
    - intros i v v' H1 H2. apply (Hc i v v'); apply Hdef; assumption.
    - intros i Hi. destruct (nth_error c i) as [v|] eqn:Ei; [|apply nth_error_None in Ei; lia].
      exists v. apply Hdef, Hv, Ei.
    - rewrite E'. f_equal. destruct (merge_ok_spec n _ c' Hs' E') as [_ [_ [Lc' Hv']]].
      apply nth_error_ext_len; [congruence|]. intros i Hi.
      destruct (nth_error c' i) as [v|] eqn:Ei; [|apply nth_error_None in Ei; lia].
      symmetry. apply Hv. apply Hdef. apply Hv'. exact Ei.
  Qed.

  (** ** split caches.  [split_cache s id vals]: the slots job-split [id] of [s] fills (all its jobs succeeded) *)
  Definition split_cache (s id : nat) (vals : list V) : cache :=
    map (fun p => if Nat.eqb (fst p mod s) id then Some (snd p) else None) (combine (seq 0 (length vals)) vals).

  Lemma nth_error_combine_seq {A} (l : list A) a i : nth_error (combine (seq a (length l)) l) i = option_map (fun x => (a + i, x)) (nth_error l i).
  Proof.
    revert a i; induction l as [|x l IH]; intros a [|i]; cbn; try reflexivity.
    - rewrite Nat.add_0_r. reflexivity.
    - rewrite IH. destruct (nth_error l i); cbn; [|reflexivity]. do 2 f_equal. lia.
  Qed.

  Lemma split_cache_nth s id vals i :
    nth_error (split_cache s id vals) i
    = option_map (fun v => if Nat.eqb (i mod s) id then Some v else None) (nth_error vals i).
  Proof.
    unfold split_cache. rewrite nth_error_map, nth_error_combine_seq. destruct (nth_error vals i); reflexivity.
  Qed.
  Lemma split_cache_length s id vals : length (split_cache s id vals) = length vals.
  Proof. unfold split_cache. rewrite map_length, combine_length, seq_length. lia. Qed.

  Lemma split_defined s ids vals i v :
    defined_at (map (fun id => split_cache s id vals) ids) i v <-> (nth_error vals i = Some v /\ In (i mod s) ids).
  Proof.
    split.
    - intros [c [Hin Hc]]. apply in_map_iff in Hin. destruct Hin as [id [<- Hid]].
      rewrite split_cache_nth in Hc. destruct (nth_error vals i) as [w|]; [|discriminate]. cbn in Hc.
      destruct (Nat.eqb (i mod s) id) eqn:Ee; [|discriminate]. apply Nat.eqb_eq in Ee. subst id.
      inversion Hc; subst. auto.
    - intros [Hv Hid]. exists (split_cache s (i mod s) vals). split; [exact (in_map (fun id => split_cache s id vals) ids (i mod s) Hid)|].
      rewrite split_cache_nth, Hv. cbn. rewrite Nat.eqb_refl. reflexivity.
  Qed.

  (** merging the caches of a set of split ids succeeds, and gives back every spectrum, exactly when every job's id is in the set *)
  Theorem merge_complete_iff_all_jobs s ids vals : ids <> [] ->
    (merge V veq (map (fun id => split_cache s id vals) ids) = MOk vals
     <-> forall i, i < length vals -> In (i mod s) ids).
  Proof.
    intros Hids. set (cs := map (fun id => split_cache s id vals) ids).
    assert (Hs : same_shape (length vals) cs).
    { unfold same_shape, cs. apply Forall_forall. intros c Hc. apply in_map_iff in Hc. destruct Hc as [id [<- _]]. apply split_cache_length. }
    assert (Hcons : consistent cs).
    { intros i v v' H1 H2. apply split_defined in H1. apply split_defined in H2. destruct H1, H2. congruence. }
    assert (Hne : cs <> []) by (unfold cs; destruct ids; [congruence | discriminate]).
    split.
    - intros E i Hi. destruct (merge_ok_spec _ cs vals Hs E) as [_ [_ [_ Hv]]].
      destruct (nth_error vals i) as [v|] eqn:Ei; [|apply nth_error_None in Ei; lia].
      apply Hv in Ei. apply split_defined in Ei. tauto.
    - intros Hall. destruct (merge_total _ cs Hs Hne Hcons) as [c E].
      + intros i Hi. destruct (nth_error vals i) as [v|] eqn:Ei; [|apply nth_error_None in Ei; lia].
        exists v. apply split_defined. split; [exact Ei | apply Hall, Hi].
      + rewrite E. f_equal. destruct (merge_ok_spec _ cs c Hs E) as [_ [_ [Lc Hv]]].
        apply nth_error_ext_len; [exact Lc|]. intros i Hi.
        destruct (nth_error c i) as [v|] eqn:Ei; [|apply nth_error_None in Ei; lia].
        apply Hv in Ei. apply split_defined in Ei. symmetry. tauto.
  Qed.

  (** a split id that owns at least one job and is missing is reported as incomplete (never a conflict, never absorbed) *)
  Theorem merge_missing_split_incomplete s ids vals i : ids <> [] -> i < length vals -> ~ In (i mod s) ids ->
    merge V veq (map (fun id => split_cache s id vals) ids) = MIncomplete.
  Proof.
    intros Hids Hi Hno. set (cs := map (fun id => split_cache s id vals) ids).
    assert (Hs : same_shape (length vals) cs).
    { unfold same_shape, cs. apply Forall_forall. intros c Hc. apply in_map_iff in Hc. destruct Hc as [id [<- _]]. apply split_cache_length. }
    assert (Hcons : consistent cs).
    { intros j v v' H1 H2. apply split_defined in H1. apply split_defined in H2. destruct H1, H2. congruence. }
    destruct (merge V veq cs) as [c| | |] eqn:E; [| |reflexivity|].
    - exfalso. eapply (merge_missing_detected _ cs i Hs Hi); [|exact E].
      intros v Hd. apply split_defined in Hd. tauto.
    - apply (merge_conflict_spec _ cs Hs) in E. destruct E; contradiction.
    - apply merge_empty_spec in E. unfold cs in E. destruct ids; [congruence | discriminate].
  Qed.
End MergeProofs.

(** the single-process split loop fills exactly [split_cache] *)
Section SplitSingle.
  Variables G V E : Type.
  Variable f : G -> V + E.

  Lemma single_slots_split_ok s id (gs : list G) : forall (vals : list V) (pre : list (option V)) post,
    map f gs = map inl vals ->
    single_slots G V E f (filter (fun j => Nat.eqb (fst j mod s) id) (combine (seq (length pre) (length gs)) gs))
                 (pre ++ repeat None (length gs) ++ post)
    = Some (pre ++ map (fun p => if Nat.eqb (fst p mod s) id then Some (snd p) else None)
                       (combine (seq (length pre) (length vals)) vals) ++ post).
  Proof.
    induction gs as [|g gs IH]; intros vals pre post Hm.
    - destruct vals; [reflexivity | discriminate].
    - destruct vals as [|v vals]; [discriminate|]. cbn [map] in Hm. inversion Hm as [[Hg Hrest]].
      cbn [length seq combine filter fst snd repeat app map].
      assert (Hstep : forall h, (pre ++ h :: repeat None (length gs) ++ post) = ((pre ++ [h]) ++ repeat None (length gs) ++ post))
        by (intros; rewrite <- app_assoc; reflexivity).
      assert (HS : S (length pre) = length (pre ++ [None (A:=V)])) by (rewrite app_length; cbn; lia).
      destruct (Nat.eqb (length pre mod s) id).
      + cbn [single_slots fst snd]. rewrite Hg. rewrite set_nth_app, Hstep.
        replace (S (length pre)) with (length (pre ++ [Some v])) by (rewrite app_length; cbn; lia).
        rewrite (IH vals (pre ++ [Some v]) post Hrest). rewrite <- app_assoc. reflexivity.
      + rewrite Hstep, HS. rewrite (IH vals (pre ++ [None]) post Hrest). rewrite <- app_assoc. reflexivity.
  Qed.

  Theorem single_split_ok s id (gammas : list G) (vals : list V) : map f gammas = map inl vals ->
    single_split G V E f s id gammas = Some (split_cache V s id vals).
  Proof.
    intros Hm. unfold single_split, split_filter, jobs_of, split_cache.
    pose proof (single_slots_split_ok s id gammas vals [] [] Hm) as Hs. cbn [length app] in Hs. rewrite !app_nil_r in Hs.
    exact Hs.
  Qed.

  Theorem split_schedule_independent k s id (gammas : list G) (vals : list V) sigma : map f gammas = map inl vals ->
    done G V E (exec G V E f k (split_filter G s id (jobs_of G gammas)) sigma) ->
    build_split G V E f k s id gammas sigma = Some (split_cache V s id vals).
  Proof. intros Hm Hd. rewrite schedule_independent_split by exact Hd. apply single_split_ok, Hm. Qed.
End SplitSingle.
