(** List / multi-index lemmas for the population operations of C10 (stdlib only). *)
From Coq Require Import List Bool Arith Lia Permutation Sorted.
From Dadi Require Import Model.PopOps.
Import ListNotations.

(** ** idx_eqb *)
Lemma idx_eqb_spec (a b : idx) : idx_eqb a b = true <-> a = b.
Proof. revert b. induction a as [|x a IH]; intros [|y b]; simpl; split; try discriminate; try reflexivity.
  - rewrite andb_true_iff, Nat.eqb_eq, IH. intros [-> ->]; reflexivity.
  - intros E; inversion E; subst. rewrite andb_true_iff, Nat.eqb_eq, IH. auto. Qed.
Lemma idx_eqb_refl a : idx_eqb a a = true.
Proof. now apply idx_eqb_spec. Qed.
Lemma idx_eqb_sym a b : idx_eqb a b = idx_eqb b a.
Proof. destruct (idx_eqb a b) eqn:E1, (idx_eqb b a) eqn:E2; auto.
  - apply idx_eqb_spec in E1; subst. now rewrite idx_eqb_refl in E2.
  - apply idx_eqb_spec in E2; subst. now rewrite idx_eqb_refl in E1. Qed.

(** ** in-range multi-indices *)
Definition inr (shape : list nat) (I : idx) : Prop := Forall2 lt I shape.

Lemma in_indices shape I : In I (indices shape) <-> inr shape I.
Proof. unfold inr. revert I. induction shape as [|s t IH]; intros I; simpl.
  - split. { intros [<-|[]]; constructor. } intros Hf; inversion Hf; auto.
  - rewrite in_flat_map. split.
    + intros (i & Hi & HI). apply in_map_iff in HI as (I' & <- & HI'). apply in_seq in Hi.
      constructor; [lia | now apply IH].
    + intros Hf. inversion Hf as [|i s' I' t' Hlt Hrest]; subst. exists i. split; [apply in_seq; lia|].
      apply in_map. now apply IH. Qed.

Lemma NoDup_app' {A} (l1 l2 : list A) :
  NoDup l1 -> NoDup l2 -> (forall x, In x l1 -> In x l2 -> False) -> NoDup (l1 ++ l2).
Proof. induction 1 as [|a l1 Ha H1 IH]; intros H2 Hd; simpl; auto. constructor.
  - rewrite in_app_iff. intros [Hin|Hin]; [contradiction | eapply Hd; eauto with datatypes].
  - apply IH; auto. intros x Hx; apply Hd; now right. Qed.

Lemma NoDup_map_in {A B} (f : A -> B) (l : list A) :
  (forall x y, In x l -> In y l -> f x = f y -> x = y) -> NoDup l -> NoDup (map f l).
Proof. intros Hinj Hnd. induction Hnd as [|a l Ha Hl IH]; simpl; constructor.
  - intros Hin. apply in_map_iff in Hin as (y & E & Hy). apply Ha.
    rewrite <- (Hinj y a); auto with datatypes.
  - apply IH. intros; apply Hinj; auto with datatypes. Qed.

Lemma NoDup_indices shape : NoDup (indices shape).
Proof. induction shape as [|s t IH]; simpl; [repeat constructor; intros []|].
  assert (G : forall l, NoDup l -> NoDup (flat_map (fun i => map (cons i) (indices t)) l)).
  { induction 1 as [|a l Ha Hl IHl]; simpl; [constructor|]. apply NoDup_app'; auto.
    - apply FinFun.Injective_map_NoDup; auto. intros x y E; now inversion E.
    - intros x Hx Hy. apply in_map_iff in Hx as (x' & <- & _). apply in_flat_map in Hy as (j & Hj & Hy).
      apply in_map_iff in Hy as (y' & E & _). inversion E; subst; contradiction. }
  apply G, seq_NoDup. Qed.

Lemma Forall2_len {A B} (R : A -> B -> Prop) l1 l2 : Forall2 R l1 l2 -> length l1 = length l2.
Proof. induction 1; simpl; congruence. Qed.
Lemma inr_length shape I : inr shape I -> length I = length shape.
Proof. apply Forall2_len. Qed.

(** ** remove_nth / insert_nth / set_nth *)
Lemma remove_nth_map {A B} (g : A -> B) k (l : list A) : remove_nth k (map g l) = map g (remove_nth k l).
Proof. revert k; induction l; intros [|k]; simpl; auto. now rewrite IHl. Qed.

Lemma remove_nth_length {A} k (l : list A) : k < length l -> length (remove_nth k l) = pred (length l).
Proof. revert k; induction l; intros [|k] Hk; simpl in *; try lia. rewrite IHl; lia. Qed.

Lemma remove_nth_ge {A} k (l : list A) : length l <= k -> remove_nth k l = l.
Proof. revert k; induction l; intros [|k] Hk; simpl in *; auto; try lia. f_equal; apply IHl; lia. Qed.

Lemma nth_remove_lt {A} (d : A) k j (l : list A) : j < k -> nth j (remove_nth k l) d = nth j l d.
Proof. revert k j; induction l; intros [|k] [|j] Hj; simpl; auto; try lia. apply IHl; lia. Qed.

Lemma nth_remove_ge {A} (d : A) k j (l : list A) : k <= j -> nth j (remove_nth k l) d = nth (S j) l d.
Proof. revert k j; induction l; intros k j Hj.
  - destruct k, j; reflexivity.
  - destruct k; simpl; [reflexivity|]. destruct j; [lia|]. apply IHl; lia. Qed.

Lemma Forall2_remove_nth {A B} (R : A -> B -> Prop) k l1 l2 :
  Forall2 R l1 l2 -> Forall2 R (remove_nth k l1) (remove_nth k l2).
Proof. intros Hf; revert k; induction Hf; intros [|k]; simpl; auto. Qed.

Lemma remove_insert_nth {A} k (x : A) l : k <= length l -> remove_nth k (insert_nth k x l) = l.
Proof. revert l; induction k; intros [|y l] Hk; simpl in *; auto; try lia. f_equal; apply IHk; lia. Qed.

Lemma insert_remove_nth {A} (d : A) k l : k < length l -> insert_nth k (nth k l d) (remove_nth k l) = l.
Proof. revert l; induction k; intros [|y l] Hk; simpl in *; auto; try lia. f_equal; apply IHk; lia. Qed.

Lemma nth_insert_nth {A} (d : A) k x l : k <= length l -> nth k (insert_nth k x l) d = x.
Proof. revert l; induction k; intros [|y l] Hk; simpl in *; auto; try lia. apply IHk; lia. Qed.

Lemma Forall2_insert_nth {A B} (R : A -> B -> Prop) (d : B) k x l1 l2 :
  k < length l2 -> Forall2 R l1 (remove_nth k l2) -> R x (nth k l2 d) -> Forall2 R (insert_nth k x l1) l2.
Proof. revert l1 l2; induction k; intros l1 [|y l2] Hk Hf Hx; simpl in *; try lia.
  - constructor; auto.
  - inversion Hf; subst. constructor; auto. apply IHk; auto; lia. Qed.

Lemma Forall2_nth {A B} (R : A -> B -> Prop) (da : A) (db : B) l1 l2 k :
  Forall2 R l1 l2 -> k < length l1 -> R (nth k l1 da) (nth k l2 db).
Proof. intros Hf; revert k; induction Hf; intros [|k] Hk; simpl in *; try lia; auto. apply IHHf; lia. Qed.

Lemma set_nth_length {A} k (x : A) l : length (set_nth k x l) = length l.
Proof. revert k; induction l; intros [|k]; simpl; auto. Qed.

Lemma nth_set_nth_same {A} (d : A) k x l : k < length l -> nth k (set_nth k x l) d = x.
Proof. revert k; induction l; intros [|k] Hk; simpl in *; try lia; auto. apply IHl; lia. Qed.

Lemma nth_set_nth_other {A} (d : A) k j x l : j <> k -> nth j (set_nth k x l) d = nth j l d.
Proof. revert k j; induction l; intros [|k] [|j] Hk; simpl; auto; try lia. Qed.

Lemma set_nth_set_nth {A} k (x y : A) l : set_nth k x (set_nth k y l) = set_nth k x l.
Proof. revert k; induction l; intros [|k]; simpl; auto. now rewrite IHl. Qed.

Lemma set_nth_remove_nth {A} t0 t (x : A) l : t0 < t -> set_nth t0 x (remove_nth t l) = remove_nth t (set_nth t0 x l).
Proof. revert t0 t; induction l; intros t0 t Hlt; [destruct t0, t; reflexivity|].
  destruct t0, t; simpl; try lia; auto. f_equal. apply IHl; lia. Qed.

Lemma set_nth_map {A B} (g : A -> B) k x (l : list A) : set_nth k (g x) (map g l) = map g (set_nth k x l).
Proof. revert k; induction l; intros [|k]; simpl; auto. now rewrite IHl. Qed.

Lemma Forall2_set_nth {A B} (R : A -> B -> Prop) k x y l1 l2 :
  Forall2 R l1 l2 -> R x y -> Forall2 R (set_nth k x l1) (set_nth k y l2).
Proof. intros Hf; revert k; induction Hf; intros [|k] Hr; simpl; auto. Qed.

(** ** select *)
Lemma select_length {A} (d : A) ks l : length (select d ks l) = length ks.
Proof. apply map_length. Qed.

Lemma select_seq_id {A} (d : A) l : select d (seq 0 (length l)) l = l.
Proof. unfold select. induction l as [|x l IH]; [reflexivity|]. simpl. f_equal.
  rewrite <- seq_shift, map_map. exact IH. Qed.

Lemma select_select {A} (d : A) ks ps l :
  (forall k, In k ks -> k < length ps) -> select d ks (select d ps l) = select d (select 0 ks ps) l.
Proof. intros Hk. unfold select. rewrite map_map. apply map_ext_in. intros k Hin.
  rewrite (nth_indep _ d (nth 0 l d)) by (rewrite map_length; auto).
  rewrite (map_nth (fun k => nth k l d)). f_equal. Qed.

Lemma select_map {A B} (g : A -> B) (da : A) ks l :
  (forall k, In k ks -> k < length l) -> select (g da) ks (map g l) = map g (select da ks l).
Proof. intros Hk. unfold select. rewrite map_map. apply map_ext_in. intros k Hin. apply map_nth. Qed.

Lemma Forall2_select {A B} (R : A -> B -> Prop) (da : A) (db : B) ks l1 l2 :
  Forall2 R l1 l2 -> (forall k, In k ks -> k < length l1) -> Forall2 R (select da ks l1) (select db ks l2).
Proof. intros Hf Hk. induction ks as [|k ks IH]; simpl; constructor.
  - apply Forall2_nth; auto with datatypes.
  - apply IH. auto with datatypes. Qed.

(** ** index_of and inverse permutations *)
Lemma nth_index_of x l : In x l -> nth (index_of x l) l 0 = x.
Proof. induction l as [|y l IH]; simpl; [intros []|]. intros Hin. destruct (Nat.eqb x y) eqn:E.
  - now apply Nat.eqb_eq in E.
  - apply IH. destruct Hin as [->|]; auto. now rewrite Nat.eqb_refl in E. Qed.

Lemma index_of_lt x l : In x l -> index_of x l < length l.
Proof. induction l as [|y l IH]; simpl; [intros []|]. intros Hin. destruct (Nat.eqb x y) eqn:E; [lia|].
  apply Nat.eqb_neq in E. destruct Hin as [->|Hin]; [contradiction|]. apply IH in Hin. lia. Qed.

Lemma index_of_nth i l : NoDup l -> i < length l -> index_of (nth i l 0) l = i.
Proof. intros Hnd; revert i; induction Hnd as [|y l Hy Hl IH]; intros [|i] Hi; simpl in *; try lia.
  - now rewrite Nat.eqb_refl.
  - destruct (Nat.eqb (nth i l 0) y) eqn:E.
    + apply Nat.eqb_eq in E. subst y. exfalso. apply Hy. apply nth_In. lia.
    + f_equal. apply IH. lia. Qed.

Definition is_perm (p : list nat) : Prop := Permutation p (seq 0 (length p)).

Lemma is_perm_in p k : is_perm p -> (In k p <-> k < length p).
Proof. intros Hp. split; intros Hk.
  - eapply Permutation_in in Hk; [|exact Hp]. apply in_seq in Hk; lia.
  - eapply Permutation_in; [symmetry; exact Hp|]. apply in_seq; lia. Qed.
Lemma is_perm_NoDup p : is_perm p -> NoDup p.
Proof. intros Hp. eapply Permutation_NoDup; [symmetry; exact Hp | apply seq_NoDup]. Qed.

Lemma inv_perm_length p : length (inv_perm p) = length p.
Proof. unfold inv_perm. now rewrite map_length, seq_length. Qed.

Lemma select_inv_l p : is_perm p -> select 0 (inv_perm p) p = seq 0 (length p).
Proof. intros Hp. unfold select, inv_perm. rewrite map_map. rewrite <- (map_id (seq 0 (length p))) at 2.
  apply map_ext_in. intros k Hk. apply nth_index_of. apply is_perm_in; auto. apply in_seq in Hk; lia. Qed.

Lemma select_inv_r p : is_perm p -> select 0 p (inv_perm p) = seq 0 (length p).
Proof. intros Hp. unfold select.
  assert (E : map (fun k => nth k (inv_perm p) 0) p
              = map (fun k => nth k (inv_perm p) 0) (map (fun i => nth i p 0) (seq 0 (length p)))).
  { f_equal. symmetry. apply (select_seq_id 0 p). }
  rewrite E, map_map. rewrite <- (map_id (seq 0 (length p))) at 2. apply map_ext_in. intros i Hi.
  apply in_seq in Hi.
  assert (Hlt : nth i p 0 < length p) by (apply is_perm_in; auto; apply nth_In; lia).
  unfold inv_perm.
  rewrite (nth_indep _ 0 (index_of 0 p)) by (rewrite map_length, seq_length; lia).
  rewrite (map_nth (fun k => index_of k p)), seq_nth by lia. simpl.
  apply index_of_nth; auto using is_perm_NoDup; lia. Qed.

Lemma is_perm_inv p : is_perm p -> is_perm (inv_perm p).
Proof. intros Hp. unfold is_perm. rewrite inv_perm_length.
  apply NoDup_Permutation_bis; auto using seq_NoDup.
  - (* NoDup via injectivity of index_of on members *)
    unfold inv_perm. apply NoDup_map_in; [|apply seq_NoDup].
    intros x y Hx Hy E. apply in_seq in Hx, Hy.
    rewrite <- (nth_index_of x p), <- (nth_index_of y p), E; auto; apply is_perm_in; auto; lia.
  - rewrite inv_perm_length, seq_length; lia.
  - intros k Hk. unfold inv_perm in Hk. apply in_map_iff in Hk as (x & <- & Hx). apply in_seq in Hx.
    apply in_seq. split; [lia|]. simpl. apply index_of_lt. apply is_perm_in; auto; lia. Qed.

(** ** sorted() *)
Lemma insert_sorted_perm x l : Permutation (x :: l) (insert_sorted x l).
Proof. induction l as [|y l IH]; simpl; auto. destruct (Nat.leb x y); auto.
  etransitivity; [apply perm_swap|]. now constructor. Qed.
Lemma isort_perm l : Permutation l (isort l).
Proof. induction l as [|x l IH]; simpl; auto. etransitivity; [|apply insert_sorted_perm]. now constructor. Qed.

Lemma insert_sorted_comm x y l : insert_sorted x (insert_sorted y l) = insert_sorted y (insert_sorted x l).
Proof. induction l as [|z l IH]; simpl.
  - destruct (Nat.leb x y) eqn:E1, (Nat.leb y x) eqn:E2; auto.
    + apply Nat.leb_le in E1, E2. assert (x = y) by lia. now subst.
    + apply Nat.leb_gt in E1, E2. lia.
  - destruct (Nat.leb y z) eqn:Ey, (Nat.leb x z) eqn:Ex; simpl; rewrite ?Ey, ?Ex; auto.
    + destruct (Nat.leb x y) eqn:E1, (Nat.leb y x) eqn:E2; simpl; rewrite ?Ey, ?Ex; auto.
      * apply Nat.leb_le in E1, E2. assert (x = y) by lia. now subst.
      * apply Nat.leb_gt in E1, E2. lia.
    + apply Nat.leb_le in Ey. apply Nat.leb_gt in Ex.
      assert (E : Nat.leb x y = false) by (apply Nat.leb_gt; lia). now rewrite E.
    + apply Nat.leb_le in Ex. apply Nat.leb_gt in Ey.
      assert (E : Nat.leb y x = false) by (apply Nat.leb_gt; lia). now rewrite E.
    + now rewrite IH. Qed.

(** sorting forgets the order of its argument *)
Lemma isort_perm_eq l l' : Permutation l l' -> isort l = isort l'.
Proof. induction 1; simpl; auto; try congruence. apply insert_sorted_comm. Qed.

Lemma insert_sorted_in x y l : In y (insert_sorted x l) <-> y = x \/ In y l.
Proof. split; intros Hin.
  - eapply Permutation_in in Hin; [|symmetry; apply insert_sorted_perm]. destruct Hin; auto.
  - eapply Permutation_in; [apply insert_sorted_perm|]. destruct Hin; [left|right]; auto. Qed.

Lemma insert_sorted_ssorted x l :
  StronglySorted lt l -> ~ In x l -> StronglySorted lt (insert_sorted x l).
Proof. induction 1 as [|y l Hl IH Hy]; intros Hn; simpl.
  - repeat constructor.
  - destruct (Nat.leb x y) eqn:E.
    + apply Nat.leb_le in E. assert (x < y) by (simpl in Hn; lia).
      constructor; [constructor; auto|]. constructor; auto.
      eapply Forall_impl; [|exact Hy]. simpl; intros; lia.
    + apply Nat.leb_gt in E. constructor.
      * apply IH. simpl in Hn; tauto.
      * apply Forall_forall. intros z Hz. apply insert_sorted_in in Hz as [->|Hz]; auto.
        rewrite Forall_forall in Hy; auto. Qed.

Lemma isort_ssorted l : NoDup l -> StronglySorted lt (isort l).
Proof. induction 1 as [|x l Hx Hl IH]; simpl; [constructor|]. apply insert_sorted_ssorted; auto.
  intros Hin. apply Hx. eapply Permutation_in; [symmetry; apply isort_perm | exact Hin]. Qed.

Lemma ssorted_lt_isort l : StronglySorted lt l -> isort l = l.
Proof. induction 1 as [|x l Hl IH Hx]; simpl; auto. rewrite IH. destruct l as [|y l]; simpl; auto.
  inversion Hx; subst. assert (E : Nat.leb x y = true) by (apply Nat.leb_le; lia). now rewrite E. Qed.

Lemma ssorted_rev l : StronglySorted lt l -> StronglySorted gt (rev l).
Proof. induction 1 as [|x l Hl IH Hx]; simpl; [constructor|].
  assert (G : forall l', StronglySorted gt l' -> Forall (fun y => y > x) l' -> StronglySorted gt (l' ++ [x])).
  { induction 1 as [|z l' Hl' IH' Hz]; intros Hall; simpl; [repeat constructor|].
    inversion Hall; subst. constructor; auto. apply Forall_app; split; auto. }
  apply G; auto. apply Forall_rev. eapply Forall_impl; [|exact Hx]. simpl; intros; lia. Qed.

(** the list of axes processed by marginalize: strictly decreasing *)
Lemma desc_over over : NoDup over -> StronglySorted gt (rev (isort over)).
Proof. intros. now apply ssorted_rev, isort_ssorted. Qed.

(** a strictly decreasing list of axes below d is a valid deletion sequence:
    each axis exists at the time it is deleted *)
Fixpoint valid_seq (d : nat) (ks : list nat) : Prop :=
  match ks with [] => True | k :: t => k < d /\ valid_seq (pred d) t end.

Lemma desc_valid_seq d ks : StronglySorted gt ks -> Forall (fun k => k < d) ks -> valid_seq d ks.
Proof. intros Hs; revert d; induction Hs as [|k ks Hs IH Hk]; intros d Hall; simpl; auto.
  inversion Hall; subst. split; auto. apply IH. rewrite Forall_forall in *. intros z Hz.
  specialize (Hk z Hz). lia. Qed.

Lemma in_rev_isort x over : In x (rev (isort over)) <-> In x over.
Proof. rewrite <- in_rev. split; intros Hin.
  - eapply Permutation_in; [symmetry; apply isort_perm | exact Hin].
  - eapply Permutation_in; [apply isort_perm | exact Hin]. Qed.

(** ** drop_axes is natural: it acts on any list as the selection of the surviving positions *)
Lemma fold_remove_map {A B} (g : A -> B) ks (l : list A) :
  fold_left (fun acc k => remove_nth k acc) ks (map g l) = map g (fold_left (fun acc k => remove_nth k acc) ks l).
Proof. revert l; induction ks as [|k ks IH]; intros l; simpl; auto. now rewrite remove_nth_map, IH. Qed.

Lemma drop_axes_map {A B} (g : A -> B) over (l : list A) : drop_axes over (map g l) = map g (drop_axes over l).
Proof. apply fold_remove_map. Qed.

Definition kept (over : list nat) (d : nat) : list nat := drop_axes over (seq 0 d).

Lemma drop_axes_select {A} (dflt : A) over (l : list A) :
  drop_axes over l = select dflt (kept over (length l)) l.
Proof. unfold kept, select. rewrite <- drop_axes_map. f_equal. symmetry. apply (select_seq_id dflt l). Qed.

Lemma Forall2_fold_remove {A B} (R : A -> B -> Prop) ks l1 l2 :
  Forall2 R l1 l2 ->
  Forall2 R (fold_left (fun acc k => remove_nth k acc) ks l1) (fold_left (fun acc k => remove_nth k acc) ks l2).
Proof. revert l1 l2; induction ks as [|k ks IH]; intros l1 l2 Hf; simpl; auto.
  apply IH. now apply Forall2_remove_nth. Qed.

(** removing position k from an increasing enumeration whose first k+1 entries are untouched removes value k *)
Lemma remove_nth_filter_seq (P : nat -> bool) k d :
  k < d -> (forall x, x <= k -> P x = true) ->
  remove_nth k (filter P (seq 0 d)) = filter (fun x => P x && negb (Nat.eqb x k)) (seq 0 d).
Proof. intros Hk HP.
  assert (exists m, d = k + S m) as [m ->] by (exists (d - k - 1); lia).
  rewrite seq_app. simpl seq. rewrite !filter_app. simpl filter.
  rewrite HP by lia. rewrite Nat.eqb_refl. simpl.
  assert (E1 : filter P (seq 0 k) = seq 0 k).
  { rewrite <- (filter_ext_in (fun _ => true)); [clear; induction (seq 0 k); simpl; congruence|].
    intros x Hx. apply in_seq in Hx. symmetry; apply HP; lia. }
  assert (E2 : filter (fun x => P x && negb (Nat.eqb x k)) (seq 0 k) = seq 0 k).
  { rewrite <- (filter_ext_in (fun _ => true)); [clear; induction (seq 0 k); simpl; congruence|].
    intros x Hx. apply in_seq in Hx. rewrite HP by lia. symmetry. simpl. apply negb_true_iff, Nat.eqb_neq. lia. }
  rewrite E1, E2.
  assert (E3 : filter (fun x => P x && negb (Nat.eqb x k)) (seq (S k) m) = filter P (seq (S k) m)).
  { apply filter_ext_in. intros x Hx. apply in_seq in Hx.
    replace (Nat.eqb x k) with false by (symmetry; apply Nat.eqb_neq; lia). now rewrite andb_true_r. }
  rewrite E3. generalize (filter P (seq (S k) m)) as rest. intros rest.
  clear.
  assert (G : forall a, remove_nth k (seq a k ++ (a + k) :: rest) = seq a k ++ rest).
  { induction k; intros a; simpl; [reflexivity|]. f_equal.
    replace (a + S k) with (S a + k) by lia. apply IHk. }
  apply (G 0). Qed.

Lemma kept_filter over d :
  NoDup over -> Forall (fun k => k < d) over -> kept over d = filter (fun x => negb (memb x over)) (seq 0 d).
Proof. intros Hnd Hall. unfold kept, drop_axes.
  assert (Hs := desc_over over Hnd).
  assert (Hm : forall x, memb x over = existsb (Nat.eqb x) (rev (isort over))).
  { intros x. unfold memb. destruct (existsb (Nat.eqb x) over) eqn:E1; symmetry.
    - apply existsb_exists in E1 as (y & Hy & E). apply existsb_exists. exists y. split; auto. now apply (proj2 (in_rev_isort y over)).
    - destruct (existsb (Nat.eqb x) (rev (isort over))) eqn:E2; auto.
      apply existsb_exists in E2 as (y & Hy & E). apply (proj1 (in_rev_isort y over)) in Hy.
      assert (existsb (Nat.eqb x) over = true) by (apply existsb_exists; exists y; split; auto). congruence. }
  assert (Hall' : Forall (fun k => k < d) (rev (isort over))).
  { rewrite Forall_forall in *. intros x Hx. apply Hall. now apply (proj1 (in_rev_isort x over)). }
  rewrite (filter_ext _ _ (fun x => f_equal negb (Hm x))).
  remember (rev (isort over)) as ks eqn:Eks. clear Eks Hm Hall Hnd over.
  (* generalise: start from any filter whose predicate holds up to the largest remaining axis *)
  assert (G : Forall (fun k => k < d) ks -> forall (P : nat -> bool), (forall k x, In k ks -> x <= k -> P x = true) ->
              fold_left (fun acc k => remove_nth k acc) ks (filter P (seq 0 d))
              = filter (fun x => P x && negb (existsb (Nat.eqb x) ks)) (seq 0 d)).
  { clear Hall'. induction Hs as [|k ks Hs IH Hk]; intros Hall P HP; simpl.
    - apply filter_ext. intros x. now rewrite andb_true_r.
    - inversion Hall; subst. rewrite remove_nth_filter_seq; auto; [|intros x Hx; apply (HP k); auto with datatypes].
      rewrite IH; auto.
      + apply filter_ext. intros x. rewrite negb_orb, <- andb_assoc. reflexivity.
      + intros k' x Hk' Hx. rewrite Forall_forall in Hk. specialize (Hk k' Hk').
        rewrite HP with (k := k'); auto with datatypes. simpl. apply negb_true_iff, Nat.eqb_neq. lia. }
  transitivity (fold_left (fun acc k => remove_nth k acc) ks (filter (fun _ => true) (seq 0 d))).
  { f_equal. clear. induction (seq 0 d); simpl; congruence. }
  rewrite (G Hall' (fun _ => true)); auto. Qed.

Lemma kept_in over d x : NoDup over -> Forall (fun k => k < d) over -> (In x (kept over d) <-> x < d /\ ~ In x over).
Proof. intros Hnd Hall. rewrite kept_filter, filter_In, in_seq, negb_true_iff; auto. unfold memb.
  split; intros [H1 H2]; split; try lia.
  - intros Hin. assert (existsb (Nat.eqb x) over = true); [|congruence].
    apply existsb_exists. exists x; split; auto. apply Nat.eqb_refl.
  - destruct (existsb (Nat.eqb x) over) eqn:E; auto. apply existsb_exists in E as (y & Hy & E).
    apply Nat.eqb_eq in E; subst. contradiction. Qed.

Lemma kept_NoDup over d : NoDup over -> Forall (fun k => k < d) over -> NoDup (kept over d).
Proof. intros. rewrite kept_filter; auto. apply NoDup_filter, seq_NoDup. Qed.

(** ** sums of indices *)
Lemma isum_le_nsamp shape I : inr shape I -> isum I <= nsamp shape.
Proof. unfold inr, isum, nsamp. induction 1; simpl; lia. Qed.

Lemma isum_perm l l' : Permutation l l' -> isum l = isum l'.
Proof. unfold isum. induction 1; simpl; lia. Qed.

Lemma isum_app l1 l2 : isum (l1 ++ l2) = isum l1 + isum l2.
Proof. unfold isum. induction l1; simpl; lia. Qed.
