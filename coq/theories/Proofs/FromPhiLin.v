(** C05: vectors as lists, linear operators on lists of a fixed length, their matrix representation;
    every 1-D sampling path of Model/FromPhi.v is such an operator in phi. *)
From Coq Require Import ZArith NArith Reals List Lra Lia Arith.
From Dadi Require Import Base.Num Base.NumR Model.FromPhi Proofs.FromPhiBinom Proofs.FromPhiBase Proofs.FromPhiMass1D.
Import ListNotations.
Local Open Scope R_scope.

(** ** vectors *)
Definition vadd (u v : list R) : list R := map2 Rplus u v.
Definition vscal (a : R) (u : list R) : list R := map (Rmult a) u.
Definition zeros (L : nat) : list R := repeat 0 L.

Lemma map2_length {A B C} (f : A -> B -> C) a b : length (map2 f a b) = Nat.min (length a) (length b).
Proof. unfold map2. rewrite map_length, combine_length. reflexivity. Qed.
Lemma vadd_length u v : length u = length v -> length (vadd u v) = length u.
Proof. intros E. unfold vadd. rewrite map2_length, E. apply Nat.min_id. Qed.
Lemma vscal_length a u : length (vscal a u) = length u.
Proof. apply map_length. Qed.
Lemma map2_cons {A B C} (f : A -> B -> C) a l b m : map2 f (a :: l) (b :: m) = f a b :: map2 f l m.
Proof. reflexivity. Qed.
Lemma map2_nth {A B C} (f : A -> B -> C) a b da db dc i : (i < length a)%nat -> (i < length b)%nat ->
  nth i (map2 f a b) dc = f (nth i a da) (nth i b db).
Proof. revert b i. induction a as [|x a IH]; intros b i Ha Hb; [cbn in Ha; lia|].
  destruct b as [|y b]; [cbn in Hb; lia|]. rewrite map2_cons.
  destruct i; [reflexivity|]. cbn [nth]. apply IH; cbn in *; lia. Qed.
Lemma vadd_nth u v i : length u = length v -> nth i (vadd u v) 0 = nth i u 0 + nth i v 0.
Proof. intros E. destruct (lt_dec i (length u)) as [Hi|Hi].
  - unfold vadd. apply map2_nth; lia.
  - rewrite !nth_overflow; try lia; [lra|]. rewrite vadd_length; lia. Qed.
Lemma vscal_nth a u i : nth i (vscal a u) 0 = a * nth i u 0.
Proof. unfold vscal. replace 0 with (a * 0) at 1 by ring. apply map_nth. Qed.
Lemma map2_map_seq {A} (f g : nat -> R) (h : R -> R -> R) (l : list A) (F G : A -> R) :
  map2 h (map F l) (map G l) = map (fun x => h (F x) (G x)) l.
Proof. induction l; [reflexivity|]. cbn [map]. rewrite map2_cons, IHl. reflexivity. Qed.
Lemma vadd_map {A} (F G : A -> R) l : vadd (map F l) (map G l) = map (fun x => F x + G x) l.
Proof. unfold vadd. apply (map2_map_seq (fun _ => 0) (fun _ => 0)). Qed.
Lemma vscal_map {A} a (F : A -> R) l : vscal a (map F l) = map (fun x => a * F x) l.
Proof. unfold vscal. apply map_map. Qed.

(** ** linear operators on lists of length L with outputs of length nout *)
Record linop (L nout : nat) (T : list R -> list R) : Prop := {
  lo_len : forall v, length v = L -> length (T v) = nout;
  lo_add : forall u v, length u = L -> length v = L -> T (vadd u v) = vadd (T u) (T v);
  lo_scal : forall a v, length v = L -> T (vscal a v) = vscal a (T v) }.

Definition unitv (L l : nat) : list R := map (fun j => if Nat.eqb j l then 1 else 0) (seq 0 L).
Definition mat_apply (K : nat -> nat -> R) (L nout : nat) (v : list R) : list R :=
  map (fun i => rsum (map (fun l => K i l * nth l v 0) (seq 0 L))) (seq 0 nout).
Definition matof (T : list R -> list R) (L : nat) : nat -> nat -> R := fun i l => nth i (T (unitv L l)) 0.

Lemma unitv_length L l : length (unitv L l) = L.
Proof. unfold unitv. rewrite map_length, seq_length. reflexivity. Qed.
Lemma zeros_length L : length (zeros L) = L.
Proof. apply repeat_length. Qed.
Lemma zeros_nth L i : nth i (zeros L) 0 = 0.
Proof. unfold zeros. destruct (lt_dec i L); [apply nth_repeat | apply nth_overflow; rewrite repeat_length; lia]. Qed.

Section Repr.
  Variables (L nout : nat) (T : list R -> list R).
  Hypothesis HT : linop L nout T.

  Lemma T_zeros : T (zeros L) = zeros nout.
  Proof. assert (E : vscal 0 (zeros L) = zeros L).
    { apply nth_ext with (d := 0) (d' := 0); [rewrite vscal_length; reflexivity|].
      intros i _. rewrite vscal_nth, zeros_nth. ring. }
    rewrite <- E, (lo_scal _ _ _ HT) by apply zeros_length.
    apply nth_ext with (d := 0) (d' := 0).
    - rewrite vscal_length, (lo_len _ _ _ HT), zeros_length by apply zeros_length. reflexivity.
    - intros i _. rewrite vscal_nth, zeros_nth. ring. Qed.

  Let trunc (k : nat) (v : list R) : list R := map (fun j => if (j <? k)%nat then nth j v 0 else 0) (seq 0 L).

  Lemma trunc_S k v : (k < L)%nat -> trunc (S k) v = vadd (trunc k v) (vscal (nth k v 0) (unitv L k)).
  Proof. intros Hk. unfold trunc, unitv. rewrite vscal_map, vadd_map. apply map_ext. intros j.
    destruct (Nat.eqb_spec j k) as [->|Hn].
    - rewrite Nat.ltb_irrefl. replace (k <? S k)%nat with true by (symmetry; apply Nat.ltb_lt; lia). ring.
    - destruct (Nat.ltb_spec j k); destruct (Nat.ltb_spec j (S k)); try lia; ring. Qed.

  Lemma T_trunc v : forall k, (k <= L)%nat ->
    T (trunc k v) = map (fun i => rsum (map (fun l => matof T L i l * nth l v 0) (seq 0 k))) (seq 0 nout).
  Proof. induction k; intros Hk.
    - replace (trunc 0 v) with (zeros L).
      + rewrite T_zeros. apply nth_ext with (d := 0) (d' := 0); [rewrite zeros_length, map_length, seq_length; reflexivity|].
        intros i Hi. rewrite zeros_length in Hi. rewrite zeros_nth, nth_map_seq by assumption. reflexivity.
      + apply nth_ext with (d := 0) (d' := 0); [unfold trunc; rewrite zeros_length, map_length, seq_length; reflexivity|].
        intros i Hi. rewrite zeros_length in Hi. unfold trunc. rewrite zeros_nth, nth_map_seq by assumption. reflexivity.
    - assert (Lt : length (trunc k v) = L) by (unfold trunc; rewrite map_length, seq_length; reflexivity).
      rewrite trunc_S by lia.
      rewrite (lo_add _ _ _ HT) by (rewrite ?vscal_length, ?unitv_length; assumption || reflexivity).
      rewrite (lo_scal _ _ _ HT) by apply unitv_length. rewrite IHk by lia.
      apply nth_ext with (d := 0) (d' := 0).
      + rewrite vadd_length; rewrite ?map_length, ?seq_length, ?vscal_length; try reflexivity.
        rewrite (lo_len _ _ _ HT) by apply unitv_length. reflexivity.
      + intros i Hi. rewrite vadd_length in Hi.
        2:{ rewrite vscal_length, (lo_len _ _ _ HT), map_length, seq_length by apply unitv_length. reflexivity. }
        rewrite map_length, seq_length in Hi.
        rewrite vadd_nth.
        2:{ rewrite vscal_length, (lo_len _ _ _ HT), map_length, seq_length by apply unitv_length. reflexivity. }
        rewrite vscal_nth, !nth_map_seq by assumption. rewrite rsum_seq_S. unfold matof. cbn [plus]. ring. Qed.

  (** every linear operator is multiplication by its matrix *)
  Lemma T_mat v : length v = L -> T v = mat_apply (matof T L) L nout v.
  Proof. intros Hv. unfold mat_apply. rewrite <- (T_trunc v L) by lia. f_equal.
    apply nth_ext with (d := 0) (d' := 0); [unfold trunc; rewrite map_length, seq_length; assumption|].
    intros i Hi. rewrite Hv in Hi. unfold trunc. rewrite nth_map_seq by assumption.
    replace (i <? L)%nat with true by (symmetry; apply Nat.ltb_lt; assumption). reflexivity. Qed.
End Repr.

(** conversely a matrix is a linear operator *)
Lemma mat_linop K L nout : linop L nout (mat_apply K L nout).
Proof. split.
  - intros v _. unfold mat_apply. rewrite map_length, seq_length. reflexivity.
  - intros u v Hu Hv. unfold mat_apply. rewrite vadd_map. apply map_ext. intros i.
    rewrite <- rsum_map_add. apply rsum_map_ext. intros l _. rewrite vadd_nth by lia. ring.
  - intros a v Hv. unfold mat_apply. rewrite vscal_map. apply map_ext. intros i.
    rewrite <- rsum_map_scal. apply rsum_map_ext. intros l _. rewrite vscal_nth. ring. Qed.

(** ** the 1-D paths are linear in phi *)
Lemma ivsum_add h xs ps qs : length ps = length qs ->
  (forall x0 x1 p0 p1 q0 q1, h x0 x1 (p0 + q0) (p1 + q1) = h x0 x1 p0 p1 + h x0 x1 q0 q1) ->
  ivsum h xs (vadd ps qs) = ivsum h xs ps + ivsum h xs qs.
Proof. intros E Hh. revert ps qs E. induction xs as [|x0 xs IH]; intros ps qs E; [cbn; lra|].
  destruct xs as [|x1 xs]; [destruct ps, qs; cbn; lra|].
  destruct ps as [|p0 ps], qs as [|q0 qs]; try discriminate; [cbn; lra|].
  destruct ps as [|p1 ps], qs as [|q1 qs]; try discriminate; [cbn; lra|].
  unfold vadd. rewrite !map2_cons.
  change (ivsum h (x0 :: x1 :: xs) ((p0 + q0) :: (p1 + q1) :: map2 Rplus ps qs))
    with (h x0 x1 (p0 + q0) (p1 + q1) + ivsum h (x1 :: xs) (vadd (p1 :: ps) (q1 :: qs))).
  change (ivsum h (x0 :: x1 :: xs) (p0 :: p1 :: ps)) with (h x0 x1 p0 p1 + ivsum h (x1 :: xs) (p1 :: ps)).
  change (ivsum h (x0 :: x1 :: xs) (q0 :: q1 :: qs)) with (h x0 x1 q0 q1 + ivsum h (x1 :: xs) (q1 :: qs)).
  rewrite IH, Hh by (cbn in *; lia). lra. Qed.
Lemma ivsum_scal h xs a ps :
  (forall x0 x1 p0 p1, h x0 x1 (a * p0) (a * p1) = a * h x0 x1 p0 p1) ->
  ivsum h xs (vscal a ps) = a * ivsum h xs ps.
Proof. intros Hh. revert ps. induction xs as [|x0 xs IH]; intros ps; [cbn; lra|].
  destruct xs as [|x1 xs]; [destruct ps; cbn; lra|].
  destruct ps as [|p0 [|p1 ps]]; [cbn; lra | cbn; lra |].
  change (vscal a (p0 :: p1 :: ps)) with (a * p0 :: vscal a (p1 :: ps)).
  change (vscal a (p1 :: ps)) with (a * p1 :: vscal a ps) at 1.
  change (ivsum h (x0 :: x1 :: xs) (a * p0 :: a * p1 :: vscal a ps))
    with (h x0 x1 (a * p0) (a * p1) + ivsum h (x1 :: xs) (vscal a (p1 :: ps))).
  change (ivsum h (x0 :: x1 :: xs) (p0 :: p1 :: ps)) with (h x0 x1 p0 p1 + ivsum h (x1 :: xs) (p1 :: ps)).
  rewrite IH, Hh. lra. Qed.

Lemma trapz_add xs u v : length u = length v -> @trapz R _ xs (vadd u v) = trapz xs u + trapz xs v.
Proof. intros E. rewrite !trapz_ivsum. apply ivsum_add; [assumption|]. intros. field. Qed.
Lemma trapz_scal xs a u : @trapz R _ xs (vscal a u) = a * trapz xs u.
Proof. rewrite !trapz_ivsum. apply ivsum_scal. intros. field. Qed.

Lemma map2_mul_add f u v : length u = length v ->
  map2 (@nmul R _) f (vadd u v) = vadd (map2 (@nmul R _) f u) (map2 (@nmul R _) f v).
Proof. revert u v. induction f as [|a f IH]; intros u v E; [reflexivity|].
  destruct u as [|x u], v as [|y v]; try discriminate; [reflexivity|].
  unfold vadd in *. rewrite !map2_cons. rewrite IH by (cbn in E; lia). numR. f_equal. ring. Qed.
Lemma map2_mul_scal f a u : map2 (@nmul R _) f (vscal a u) = vscal a (map2 (@nmul R _) f u).
Proof. revert u. induction f as [|b f IH]; intros u; [reflexivity|].
  destruct u as [|x u]; [reflexivity|]. unfold vscal in *. cbn [map]. rewrite !map2_cons. cbn [map]. rewrite IH. numR. f_equal. ring. Qed.

(** direct and inbreeding paths: data[i] = trapz(factor_i * phi) *)
Lemma fac_apply_linop xx fac L : linop L (length fac) (@fac_apply R _ xx fac).
Proof. split.
  - intros v _. unfold fac_apply. apply map_length.
  - intros u v Hu Hv. unfold fac_apply. rewrite vadd_map. apply map_ext. intros fi.
    rewrite map2_mul_add by lia. apply trapz_add. rewrite !map2_length. lia.
  - intros a v Hv. unfold fac_apply. rewrite vscal_map. apply map_ext. intros fi.
    rewrite map2_mul_scal. apply trapz_scal. Qed.

Lemma direct_fac_length het n xx : length (@direct_fac R _ het n xx) = S n.
Proof. unfold direct_fac. rewrite map_length, seq_length. reflexivity. Qed.
Lemma direct_ax_linop het n xx L : linop L (S n) (@direct_ax R _ het n xx).
Proof. unfold direct_ax. rewrite <- (direct_fac_length het n xx). apply fac_apply_linop. Qed.
Lemma inb_fac_length het n pl Fx xx : length (@inb_fac R _ het n pl Fx xx) = S n.
Proof. unfold inb_fac. rewrite map_length, seq_length. reflexivity. Qed.
Lemma inb_ax_linop het n pl Fx xx L : linop L (S n) (@inb_ax R _ het n pl Fx xx).
Proof. unfold inb_ax. rewrite <- (inb_fac_length het n pl Fx xx). apply fac_apply_linop. Qed.

(** the semi-analytic paths *)
Section Analytic.
  Variables (n : nat).
  Let cf (x : R) := (@beta_col R _ 1 n x, @beta_col R _ 2 n x).

  Lemma analytic_ax_entries xx phi :
    analytic_ax n xx phi =
    map (fun d => ivsum (fun x0 x1 p0 p1 => a_db1 d ((x0, p0, cf (clip x0)), (x1, p1, cf (clip x1)))
                                             * a_c1 n ((x0, p0, cf (clip x0)), (x1, p1, cf (clip x1)))) xx phi
                  + ivsum (fun x0 x1 p0 p1 => a_db2 d ((x0, p0, cf (clip x0)), (x1, p1, cf (clip x1)))
                                             * a_s ((x0, p0, cf (clip x0)), (x1, p1, cf (clip x1)))) xx phi
                    * (INR (d + 1) / (INR (n + 1) * INR (n + 2))))
        (seq 0 (S n)).
  Proof. unfold analytic_ax. rewrite map_map. apply map_ext. intros d. numR. rewrite !nofnat_INR.
    rewrite <- !(rsum_adj_points (fun x => cf (clip x))) with (g := fun iv => _) by reflexivity.
    reflexivity. Qed.

  Lemma analytic_ax_linop xx L : linop L (S n) (analytic_ax n xx).
  Proof. split.
    - intros v _. unfold analytic_ax. rewrite map_length, seq_length. reflexivity.
    - intros u v Hu Hv. rewrite !analytic_ax_entries, vadd_map. apply map_ext. intros d.
      rewrite !ivsum_add; try lia; [ring | |]; intros; unfold a_db1, a_db2, a_c1, a_s; numR; rewrite ?nofnat_INR; unfold Rdiv; ring.
    - intros a v Hv. rewrite !analytic_ax_entries, vscal_map. apply map_ext. intros d.
      rewrite !ivsum_scal; [ring | |]; intros; unfold a_db1, a_db2, a_c1, a_s; numR; rewrite ?nofnat_INR; unfold Rdiv; ring. Qed.

  Lemma analytic1D_entries xx phi :
    analytic1D n xx phi =
    map (fun d => ivsum (fun x0 x1 p0 p1 =>
                     let iv := ((x0, p0, cf x0), (x1, p1, cf x1)) in
                     a_c1 n iv * a_db1 d iv + a_s iv * INR (d + 1) / (INR (n + 1) * INR (n + 2)) * a_db2 d iv)
                  (map clip xx) phi)
        (seq 0 (S n)).
  Proof. unfold analytic1D, apoints. apply map_ext. intros d.
    rewrite <- (rsum_adj_points cf) with (g := fun iv => _) by reflexivity.
    apply rsum_map_ext. intros iv _. numR. rewrite !nofnat_INR. reflexivity. Qed.

  Lemma analytic1D_linop xx L : linop L (S n) (analytic1D n xx).
  Proof. split.
    - intros v _. unfold analytic1D. rewrite map_length, seq_length. reflexivity.
    - intros u v Hu Hv. rewrite !analytic1D_entries, vadd_map. apply map_ext. intros d.
      rewrite ivsum_add; try lia; [reflexivity|]. intros; unfold a_db1, a_db2, a_c1, a_s; numR; rewrite ?nofnat_INR; unfold Rdiv; ring.
    - intros a v Hv. rewrite !analytic1D_entries, vscal_map. apply map_ext. intros d.
      rewrite ivsum_scal; [reflexivity|]. intros; unfold a_db1, a_db2, a_c1, a_s; numR; rewrite ?nofnat_INR; unfold Rdiv; ring. Qed.
End Analytic.
