(** C14 — lemmas about the string primitives of Model/FileFormat.v (strip, split, split on a quote,
    readline, decimal printing).  Nothing here mentions numbers or spectra. *)
From Coq Require Import String Ascii List Bool Arith NArith Lia DecimalString DecimalNat Decimal.
From Dadi Require Import Model.FileFormat.
Import ListNotations.
Local Open Scope list_scope.
Local Open Scope string_scope.

(* ------------------------------------------------------------------------------------------- *)
(** * append, sall, sconcat *)

Lemma sapp_nil_r : forall s, s ++ "" = s.
Proof. induction s; simpl; congruence. Qed.

Lemma sapp_assoc : forall a b c, (a ++ b) ++ c = a ++ (b ++ c).
Proof. induction a; simpl; intros; congruence. Qed.

Lemma sapp_cons : forall c a b, String c a ++ b = String c (a ++ b).
Proof. reflexivity. Qed.

Lemma sall_app : forall f a b, sall f (a ++ b) = sall f a && sall f b.
Proof. induction a; simpl; intros; [reflexivity|]. rewrite IHa. apply andb_assoc. Qed.

Lemma sall_impl : forall (f g : ascii -> bool), (forall c, f c = true -> g c = true) ->
  forall s, sall f s = true -> sall g s = true.
Proof.
  intros f g H; induction s; simpl; intros E; [reflexivity|].
  apply andb_true_iff in E as [E1 E2]. rewrite (H _ E1), (IHs E2). reflexivity.
Qed.

Lemma sall_sconcat : forall f l, Forall (fun s => sall f s = true) l -> sall f (sconcat l) = true.
Proof.
  induction 1; simpl; [reflexivity|]. rewrite sall_app, H, IHForall. reflexivity.
Qed.

Lemma is_empty_true : forall s, is_empty s = true -> s = "".
Proof. destruct s; simpl; congruence. Qed.

Lemma is_empty_app : forall a b, is_empty (a ++ b) = is_empty a && is_empty b.
Proof. destruct a; reflexivity. Qed.

Lemma sconcat_app : forall a b, sconcat (a ++ b) = sconcat a ++ sconcat b.
Proof. induction a; simpl; intros; [reflexivity|]. rewrite IHa, sapp_assoc. reflexivity. Qed.

(* ------------------------------------------------------------------------------------------- *)
(** * strip *)

Lemma rstrip_empty : forall s, is_empty (rstrip s) = sall is_space s.
Proof.
  induction s; simpl; [reflexivity|].
  rewrite <- IHs. destruct (is_space a); simpl; [|reflexivity].
  destruct (is_empty (rstrip s)); reflexivity.
Qed.

Lemma rstrip_allspace : forall w, sall is_space w = true -> rstrip w = "".
Proof. intros w H. apply is_empty_true. rewrite rstrip_empty. exact H. Qed.

Lemma rstrip_app_space : forall a w, sall is_space w = true -> rstrip (a ++ w) = rstrip a.
Proof.
  induction a; simpl; intros w H; [apply rstrip_allspace; exact H|].
  rewrite (IHa _ H). reflexivity.
Qed.

Lemma lstrip_idem : forall s, lstrip (lstrip s) = lstrip s.
Proof.
  induction s; simpl; [reflexivity|].
  destruct (is_space a) eqn:E; [exact IHs|]. simpl. rewrite E. reflexivity.
Qed.

Lemma rstrip_idem : forall s, rstrip (rstrip s) = rstrip s.
Proof.
  induction s; simpl; [reflexivity|].
  destruct (is_space a && is_empty (rstrip s)) eqn:E; [reflexivity|].
  simpl. rewrite IHs, E. reflexivity.
Qed.

Lemma strip_comm : forall s, rstrip (lstrip s) = lstrip (rstrip s).
Proof.
  induction s; simpl; [reflexivity|].
  destruct (is_space a) eqn:E; simpl.
  - rewrite IHs. destruct (is_empty (rstrip s)) eqn:E2; simpl.
    + apply is_empty_true in E2. rewrite E2. reflexivity.
    + rewrite E. reflexivity.
  - rewrite E. reflexivity.
Qed.

Lemma strip_lstrip : forall s, lstrip (strip s) = strip s.
Proof. intros; unfold strip; apply lstrip_idem. Qed.

Lemma strip_rstrip : forall s, rstrip (strip s) = strip s.
Proof. intros; unfold strip. rewrite <- strip_comm, rstrip_idem, strip_comm. rewrite <- strip_comm. reflexivity. Qed.

Lemma strip_idem : forall s, strip (strip s) = strip s.
Proof. intros. unfold strip at 1. rewrite strip_rstrip. apply strip_lstrip. Qed.

(** what the reader recovers from the comment line the writer produced *)
Lemma strip_comment_body : forall c, strip (String SP (strip c ++ NL)) = strip c.
Proof.
  intros c. unfold strip at 1.
  change (String SP (strip c ++ NL)) with (String SP (strip c) ++ NL).
  rewrite rstrip_app_space by reflexivity.
  rewrite <- strip_comm. simpl lstrip. change (is_space SP) with true. cbv iota.
  rewrite strip_lstrip. apply strip_rstrip.
Qed.

(* ------------------------------------------------------------------------------------------- *)
(** * split() *)

Lemma toks_allspace : forall s, sall is_space s = true -> toks s = ("", []).
Proof.
  induction s; simpl; intros H; [reflexivity|].
  apply andb_true_iff in H as [H1 H2]. rewrite (IHs H2), H1. reflexivity.
Qed.

Lemma toks_tok_app : forall t s, no_space t = true ->
  toks (t ++ s) = (t ++ fst (toks s), snd (toks s)).
Proof.
  unfold no_space. induction t; simpl; intros s H.
  - destruct (toks s); reflexivity.
  - apply andb_true_iff in H as [H1 H2]. rewrite (IHt s H2).
    apply negb_true_iff in H1. rewrite H1. reflexivity.
Qed.

Lemma split_ws_nil : split_ws "" = [].
Proof. reflexivity. Qed.

Lemma split_ws_space : forall c s, is_space c = true -> split_ws (String c s) = split_ws s.
Proof.
  intros c s H. unfold split_ws. simpl. destruct (toks s) as [t ts]. rewrite H. reflexivity.
Qed.

Lemma split_ws_tok : forall t c s, tok_ok t = true -> is_space c = true ->
  split_ws (t ++ String c s) = t :: split_ws s.
Proof.
  intros t c s Ht Hc. unfold tok_ok in Ht. apply andb_true_iff in Ht as [Hne Hns].
  unfold split_ws. rewrite (toks_tok_app t _ Hns).
  simpl toks. destruct (toks s) as [u us]. rewrite Hc. simpl fst; simpl snd.
  rewrite sapp_nil_r. destruct t; [discriminate|]. reflexivity.
Qed.

Lemma split_ws_tok_end : forall t, tok_ok t = true -> split_ws t = [t].
Proof.
  intros t Ht. unfold tok_ok in Ht. apply andb_true_iff in Ht as [Hne Hns].
  unfold split_ws. rewrite <- (sapp_nil_r t) at 1. rewrite (toks_tok_app t _ Hns). simpl.
  rewrite sapp_nil_r. destruct t; [discriminate|]. reflexivity.
Qed.

Lemma split_ws_allspace : forall s, sall is_space s = true -> split_ws s = [].
Proof. intros s H. unfold split_ws. rewrite (toks_allspace s H). reflexivity. Qed.

Lemma split_ws_nil_allspace : forall s, split_ws s = [] -> sall is_space s = true.
Proof.
  induction s; simpl; intros H; [reflexivity|].
  destruct (is_space a) eqn:E.
  - rewrite (split_ws_space _ _ E) in H. rewrite (IHs H). reflexivity.
  - exfalso. unfold split_ws in H. simpl in H. destruct (toks s). rewrite E in H. simpl in H. discriminate.
Qed.

Lemma toks_rstrip : forall s, toks (rstrip s) = toks s.
Proof.
  induction s; simpl; [reflexivity|].
  destruct (is_space a && is_empty (rstrip s)) eqn:E.
  - apply andb_true_iff in E as [E1 E2]. rewrite rstrip_empty in E2.
    rewrite (toks_allspace s E2), E1. reflexivity.
  - simpl. rewrite IHs. reflexivity.
Qed.

Lemma split_ws_lstrip : forall s, split_ws (lstrip s) = split_ws s.
Proof.
  induction s; simpl; [reflexivity|].
  destruct (is_space a) eqn:E; [|reflexivity]. rewrite IHs. symmetry. apply split_ws_space. exact E.
Qed.

Lemma split_ws_strip : forall s, split_ws (strip s) = split_ws s.
Proof. intros. unfold strip. rewrite split_ws_lstrip. unfold split_ws. rewrite toks_rstrip. reflexivity. Qed.

Lemma strip_empty_split : forall s, is_empty (strip s) = true -> split_ws s = [].
Proof. intros s H. apply is_empty_true in H. rewrite <- split_ws_strip, H. reflexivity. Qed.

(** ' '.join *)
Lemma join_cons2 : forall sep t u r, join sep (t :: u :: r) = t ++ sep ++ join sep (u :: r).
Proof. reflexivity. Qed.

Lemma split_ws_join : forall ts c s, Forall (fun t => tok_ok t = true) ts -> is_space c = true ->
  split_ws (join " " ts ++ String c s) = (ts ++ split_ws s)%list.
Proof.
  induction ts as [|t ts IH]; intros c s H Hc.
  - simpl. apply split_ws_space. exact Hc.
  - inversion H as [|? ? Ht Hts]; subst. destruct ts as [|u r].
    + simpl. apply split_ws_tok; assumption.
    + rewrite join_cons2. set (J := join " " (u :: r)) in *. rewrite !sapp_assoc.
      change (" " ++ J ++ String c s) with (String SP (J ++ String c s)).
      rewrite split_ws_tok by (assumption || reflexivity).
      rewrite (IH c s Hts Hc). reflexivity.
Qed.

(* ------------------------------------------------------------------------------------------- *)
(** * split on a character, [1::2] *)

Definition noc (q : ascii) (s : string) : bool := sall (fun c => negb (Ascii.eqb c q)) s.

Lemma split_on_noc : forall q a s, noc q a = true -> split_on q (a ++ String q s) = a :: split_on q s.
Proof.
  unfold noc. induction a; simpl; intros s H.
  - rewrite Ascii.eqb_refl. reflexivity.
  - apply andb_true_iff in H as [H1 H2]. apply negb_true_iff in H1. rewrite H1, (IHa s H2). reflexivity.
Qed.

Lemma split_on_noc_end : forall q a, noc q a = true -> split_on q a = [a].
Proof.
  unfold noc. induction a; simpl; intros H; [reflexivity|].
  apply andb_true_iff in H as [H1 H2]. apply negb_true_iff in H1. rewrite H1, (IHa H2). reflexivity.
Qed.

Definition quoted (l : string) : string := " """ ++ l ++ """".

Lemma quoted_eq : forall pre l rest,
  pre ++ (quoted l ++ rest) = (pre ++ " ") ++ String QU (l ++ String QU rest).
Proof. intros. unfold quoted. rewrite !sapp_assoc. reflexivity. Qed.

(** line.split(QU)[1::2] on  <pre> "l1" "l2" ... "ln"<eol>  *)
Lemma odds_split_labels : forall ls pre eol, noc QU pre = true -> noc QU eol = true ->
  Forall (fun l => noc QU l = true) ls ->
  odds (split_on QU (pre ++ sconcat (map quoted ls) ++ eol)) = ls.
Proof.
  induction ls as [|l ls IH]; intros pre eol Hp He H.
  - cbn [map sconcat]. change ("" ++ eol) with eol. rewrite split_on_noc_end; [reflexivity|].
    unfold noc in *. rewrite sall_app, Hp, He. reflexivity.
  - inversion H as [|? ? Hl Hls]; subst.
    cbn [map sconcat]. rewrite (sapp_assoc (quoted l)). rewrite quoted_eq.
    rewrite split_on_noc.
    2:{ unfold noc in *. rewrite sall_app, Hp. reflexivity. }
    rewrite split_on_noc by exact Hl.
    cbn [odds]. f_equal.
    change (sconcat (map quoted ls) ++ eol) with ("" ++ sconcat (map quoted ls) ++ eol).
    apply IH; [reflexivity|exact He|exact Hls].
Qed.

(* ------------------------------------------------------------------------------------------- *)
(** * readline *)

Lemma readlines_line : forall b rest, no_nl b = true ->
  readlines (b ++ NL ++ rest) = (b ++ NL) :: readlines rest.
Proof.
  unfold no_nl. induction b; simpl; intros rest H; [reflexivity|].
  apply andb_true_iff in H as [H1 H2]. unfold is_nl in H1.
  apply negb_true_iff in H1. apply orb_false_iff in H1 as [E1 E2].
  rewrite E1, E2. change (String LF rest) with (NL ++ rest). rewrite (IHb rest H2). reflexivity.
Qed.

Definition is_line (l : string) : Prop := exists b, l = b ++ NL /\ no_nl b = true.

Lemma readlines_lines : forall ls tail, Forall is_line ls ->
  readlines (sconcat ls ++ tail) = (ls ++ readlines tail)%list.
Proof.
  induction 1 as [|l ls [b [-> Hb]] _ IH]; [reflexivity|].
  simpl sconcat. rewrite !sapp_assoc. rewrite readlines_line by exact Hb. rewrite IH. reflexivity.
Qed.

Lemma readlines_file : forall ls, Forall is_line ls -> readlines (sconcat ls) = (ls ++ [""])%list.
Proof. intros ls H. rewrite <- (sapp_nil_r (sconcat ls)). apply (readlines_lines ls "" H). Qed.

(* ------------------------------------------------------------------------------------------- *)
(** * decimal printing of the dimensions *)

Definition is_digit (c : ascii) : bool := let n := N_of_ascii c in ((48 <=? n) && (n <=? 57))%N.

Lemma sou_digits : forall d, sall is_digit (NilEmpty.string_of_uint d) = true.
Proof. induction d; simpl; try reflexivity; exact IHd. Qed.

Lemma to_uint_nonnil : forall n, Nat.to_uint n <> Nil.
Proof.
  intros n E. pose proof (Unsigned.to_of (Nat.to_uint n)) as H.
  rewrite Unsigned.of_to, E in H. unfold unorm in H. simpl in H. discriminate.
Qed.

Lemma print_nat_digits : forall n, sall is_digit (print_nat n) = true.
Proof. intros; apply sou_digits. Qed.

Lemma print_nat_nonempty : forall n, is_empty (print_nat n) = false.
Proof.
  intros n. unfold print_nat. pose proof (to_uint_nonnil n) as H.
  destruct (Nat.to_uint n); try reflexivity. congruence.
Qed.

Lemma digit_not_space : forall c, is_digit c = true -> negb (is_space c) = true.
Proof.
  intros c. unfold is_digit, is_space. destruct (N_of_ascii c) as [|p]; [discriminate|].
  intros H. apply andb_true_iff in H as [H1 H2]. apply N.leb_le in H1, H2.
  apply negb_true_iff. apply orb_false_iff; split; apply andb_false_iff.
  - right. apply N.leb_gt. lia.
  - right. apply N.leb_gt. lia.
Qed.

Lemma digit_not_nl : forall c, is_digit c = true -> negb (is_nl c) = true.
Proof.
  intros c H. unfold is_nl. apply negb_true_iff. apply orb_false_iff; split;
    (destruct (Ascii.eqb_spec c LF); destruct (Ascii.eqb_spec c CR); subst; try reflexivity; discriminate).
Qed.

Lemma digit_not_char : forall q c, is_digit q = false -> is_digit c = true -> negb (Ascii.eqb c q) = true.
Proof.
  intros q c Hq Hc. apply negb_true_iff. destruct (Ascii.eqb_spec c q); [subst; congruence|reflexivity].
Qed.

Lemma print_nat_tok : forall n, tok_ok (print_nat n) = true.
Proof.
  intros n. unfold tok_ok. rewrite print_nat_nonempty. simpl.
  apply (sall_impl _ _ digit_not_space). apply print_nat_digits.
Qed.

Lemma print_nat_not_flag : forall n, is_flag (print_nat n) = false.
Proof.
  intros n. destruct (is_flag (print_nat n)) eqn:E; [|reflexivity].
  unfold is_flag in E. pose proof (print_nat_digits n) as D.
  apply orb_true_iff in E as [E|E]; apply String.eqb_eq in E; rewrite E in D; discriminate.
Qed.

Lemma print_nat_hash : forall n s, starts_hash (print_nat n ++ s) = false.
Proof.
  intros n s. pose proof (print_nat_digits n) as D. pose proof (print_nat_nonempty n) as N.
  destruct (print_nat n) as [|c r]; [discriminate|]. simpl in *.
  apply andb_true_iff in D as [D _]. destruct (Ascii.eqb_spec c HASH); [subst; discriminate|reflexivity].
Qed.

Lemma parse_print_nat : forall n, parse_nat (print_nat n) = Some n.
Proof.
  intros n. unfold parse_nat. pose proof (print_nat_nonempty n) as N.
  destruct (print_nat n) eqn:E; [discriminate|]. rewrite <- E. unfold print_nat.
  rewrite NilEmpty.usu. simpl. rewrite Unsigned.of_to. reflexivity.
Qed.

Lemma parse_nats_print : forall sh, parse_nats (map print_nat sh) = Some sh.
Proof. induction sh; simpl; [reflexivity|]. rewrite parse_print_nat, IHsh. reflexivity. Qed.

(** the dimension prefix of the shape line: "d1 d2 ... dn " *)
Lemma split_shape_text : forall sh s, split_ws (shape_text sh ++ s) = (map print_nat sh ++ split_ws s)%list.
Proof.
  unfold shape_text. induction sh; intros s; simpl; [reflexivity|].
  rewrite !sapp_assoc. simpl (" " ++ _). rewrite split_ws_tok by (apply print_nat_tok || reflexivity).
  rewrite IHsh. reflexivity.
Qed.

Lemma shape_text_sall : forall f, (forall c, is_digit c = true -> f c = true) -> f SP = true ->
  forall sh, sall f (shape_text sh) = true.
Proof.
  intros f Hd Hs sh. unfold shape_text. apply sall_sconcat. apply Forall_forall. intros x Hx.
  apply in_map_iff in Hx as [n [<- _]]. rewrite sall_app. unfold SP in Hs. cbn [sall]. rewrite Hs.
  rewrite (sall_impl _ _ Hd _ (print_nat_digits n)). reflexivity.
Qed.

Lemma shape_text_hash : forall sh s, sh <> [] -> starts_hash (shape_text sh ++ s) = false.
Proof.
  intros [|n sh] s H; [congruence|]. unfold shape_text. simpl. rewrite !sapp_assoc. apply print_nat_hash.
Qed.
