(** C18: at F = 0 the inbreeding form of the subsampling matrix (a mixture over genotype partitions of
    projection_inbreeding, weighted with the Hardy-Weinberg multinomial probabilities) IS the hypergeometric
    matrix of the F = 0 branch -- for ALL even sizes.

    Route.  A partition of allele count j among n individuals is a triple (a,b,c) of genotype counts with
    a+b+c = n, b+2c = j; its weight is the trinomial coefficient times 2^b.  Sums over all triples of size n
    weighted with the trinomial coefficient obey the Pascal rule
        TS (n+1) G = TS n G(a+1,.,.) + TS n G(.,b+1,.) + TS n G(.,.,c+1)
    (removing one individual), the number of m-subsets of the individuals with i derived alleles obeys
        h (m+1) i (v :: l) = h m (i-v) l + h (m+1) i l
    and is invariant under rearranging the individuals; so the weighted number S n m j i of (arrangement,
    m-subset) pairs with i derived alleles in the subset and j in total satisfies a recurrence in n whose
    unique solution is  C(n,m) C(2m,i) C(2n-2m,j-i)  (Pascal's rule applied twice per individual:
    (1+x)^2 = 1 + 2x + x^2).  Allele counts are integers (Z) in the recurrences so that no guards are needed. *)
From Coq Require Import ZArith QArith Qreduction List Bool Arith Lia Lqa Setoid Morphisms Sorted Permutation.
From Dadi Require Import Model.LowPass Proofs.LowPassBinom Proofs.LowPassPart Proofs.LowPassQ Proofs.LowPassProb Proofs.LowPassMat.
From Dadi Require Import Model.LowPassSim Proofs.LowPassSimExp Proofs.LowPassSimDeep.
Import ListNotations.
Local Open Scope Q_scope.

(** ** sums over lists without duplicates *)
Lemma qsum_perm l l' : Permutation l l' -> qsum l == qsum l'.
Proof.
  induction 1 as [|x l l' _ IH|x y l|l l' l'' _ IH1 _ IH2]; rewrite ?qsum_cons.
  - reflexivity.
  - rewrite IH. reflexivity.
  - ring.
  - rewrite IH1. exact IH2.
Qed.

Lemma qsum_filter {A} (p : A -> bool) (g : A -> Q) l :
  qsum (map g (filter p l)) == qsum (map (fun y => if p y then g y else 0) l).
Proof.
  induction l as [|a l IH]; [reflexivity|]. cbn [filter map]. rewrite qsum_cons.
  destruct (p a); cbn [map]; rewrite ?qsum_cons, IH; ring.
Qed.

Lemma NoDup_map_inj_on {A B} (f : A -> B) l :
  NoDup l -> (forall x y, In x l -> In y l -> f x = f y -> x = y) -> NoDup (map f l).
Proof.
  induction 1 as [|a l Ha Hl IH]; intros Inj; cbn [map]; constructor.
  - rewrite in_map_iff. intros (y & E & Hy).
    assert (y = a) by (apply Inj; [now right | now left | exact E]). subst. contradiction.
  - apply IH. intros x y Hx Hy. apply Inj; now right.
Qed.

(** re-indexing: [phi] maps [l] one-to-one onto the part of [l'] selected by [p] *)
Lemma sum_bij_filter {A B} (l : list A) (l' : list B) (phi : A -> B) (p : B -> bool) (g : B -> Q) :
  NoDup l -> NoDup l' -> (forall x y, In x l -> In y l -> phi x = phi y -> x = y) ->
  (forall y, (In y l' /\ p y = true) <-> exists x, In x l /\ phi x = y) ->
  qsum (map (fun x => g (phi x)) l) == qsum (map (fun y => if p y then g y else 0) l').
Proof.
  intros Nl Nl' Inj Im. rewrite <- qsum_filter, <- (map_map phi g).
  apply qsum_perm, Permutation_map, NoDup_Permutation.
  - apply NoDup_map_inj_on; assumption.
  - apply NoDup_filter, Nl'.
  - intros y. rewrite filter_In, Im, in_map_iff. split; intros (x & H1 & H2); exists x; auto.
Qed.

Lemma NoDup_flat_map {A B} (f : A -> list B) l :
  NoDup l -> (forall x, In x l -> NoDup (f x)) ->
  (forall x y z, In x l -> In y l -> In z (f x) -> In z (f y) -> x = y) -> NoDup (flat_map f l).
Proof.
  induction 1 as [|a l Ha Hl IH]; intros Hf Dj; cbn [flat_map]; [constructor|].
  apply NoDup_app_disj.
  - apply Hf. now left.
  - apply IH; [intros; apply Hf; now right | intros x y z Hx Hy; apply Dj; now right].
  - intros z Hz Hz'. apply in_flat_map in Hz'. destruct Hz' as (y & Hy & Hz').
    assert (a = y) by (apply (Dj a y z); [now left | now right | exact Hz | exact Hz']). subst. contradiction.
Qed.

(** ** genotype-count triples of n individuals *)
Definition tA (t : nat * nat * nat) : nat := fst (fst t).
Definition tB (t : nat * nat * nat) : nat := snd (fst t).
Definition tC (t : nat * nat * nat) : nat := snd t.

Definition tri (n : nat) : list (nat * nat * nat) :=
  flat_map (fun b => map (fun c => ((n - b - c)%nat, b, c)) (seq 0 (S (n - b)))) (seq 0 (S n)).

Lemma tri_spec n a b c : In (a, b, c) (tri n) <-> (a + b + c = n)%nat.
Proof.
  unfold tri. rewrite in_flat_map. split.
  - intros (b' & Hb & H). apply in_map_iff in H. destruct H as (c' & E & Hc). apply in_seq in Hb, Hc.
    inversion E; subst. lia.
  - intros <-. exists b. split; [apply in_seq; lia|]. apply in_map_iff. exists c.
    split; [f_equal; f_equal; lia | apply in_seq; lia].
Qed.

Lemma tri_spec' n t : In t (tri n) <-> (tA t + tB t + tC t = n)%nat.
Proof. destruct t as [[a b] c]. apply tri_spec. Qed.

Lemma tri_nodup n : NoDup (tri n).
Proof.
  unfold tri. apply NoDup_flat_map.
  - apply seq_NoDup.
  - intros b _. apply NoDup_map_inj_on; [apply seq_NoDup|]. intros c c' _ _ E. inversion E. reflexivity.
  - intros b b' z _ _ H H'. apply in_map_iff in H, H'. destruct H as (c & <- & _). destruct H' as (c' & E & _).
    inversion E. reflexivity.
Qed.

(** trinomial-weighted sum over the triples *)
Definition TS (n : nat) (G : nat -> nat -> nat -> Q) : Q :=
  qsum (map (fun t => multinom3 (tA t) (tB t) (tC t) * G (tA t) (tB t) (tC t)) (tri n)).

Lemma TS_ext n G G' : (forall a b c, (a + b + c = n)%nat -> G a b c == G' a b c) -> TS n G == TS n G'.
Proof.
  intros E. unfold TS. apply qsum_map_ext. intros t Ht. apply tri_spec' in Ht. rewrite (E _ _ _ Ht). reflexivity.
Qed.

Lemma TS_lin2 n x y G1 G2 : TS n (fun a b c => x * G1 a b c + y * G2 a b c) == x * TS n G1 + y * TS n G2.
Proof.
  unfold TS. rewrite <- !qsum_map_scale, <- qsum_map_add. apply qsum_map_ext. intros t _. ring.
Qed.

Lemma TS_scale n x G : TS n (fun a b c => x * G a b c) == x * TS n G.
Proof. unfold TS. rewrite <- qsum_map_scale. apply qsum_map_ext. intros t _. ring. Qed.

Lemma qfact_S n : qfact (S n) == qnat (S n) * qfact n.
Proof. unfold qfact, qnat. cbn [zfact]. rewrite inject_Z_mult. reflexivity. Qed.

Lemma m3_a a b c : multinom3 (S a) b c * qnat (S a) == qnat (S (a + b + c)) * multinom3 a b c.
Proof.
  unfold multinom3. replace (S a + b + c)%nat with (S (a + b + c)) by lia. rewrite !qfact_S.
  pose proof (qfact_pos a). pose proof (qfact_pos b). pose proof (qfact_pos c).
  pose proof (qnat_pos (S a) ltac:(lia)). field. repeat split; lra.
Qed.
Lemma m3_b a b c : multinom3 a (S b) c * qnat (S b) == qnat (S (a + b + c)) * multinom3 a b c.
Proof.
  unfold multinom3. replace (a + S b + c)%nat with (S (a + b + c)) by lia. rewrite !qfact_S.
  pose proof (qfact_pos a). pose proof (qfact_pos b). pose proof (qfact_pos c).
  pose proof (qnat_pos (S b) ltac:(lia)). field. repeat split; lra.
Qed.
Lemma m3_c a b c : multinom3 a b (S c) * qnat (S c) == qnat (S (a + b + c)) * multinom3 a b c.
Proof.
  unfold multinom3. replace (a + b + S c)%nat with (S (a + b + c)) by lia. rewrite !qfact_S.
  pose proof (qfact_pos a). pose proof (qfact_pos b). pose proof (qfact_pos c).
  pose proof (qnat_pos (S c) ltac:(lia)). field. repeat split; lra.
Qed.

(** one third of the Pascal rule: the triples of n+1 with a component >= 1 are the shifted triples of n *)
Lemma TS_shift n (sh : nat * nat * nat -> nat * nat * nat) (comp : nat * nat * nat -> nat) (G : nat -> nat -> nat -> Q) :
  (forall t, comp (sh t) = S (comp t)) ->
  (forall t, (tA (sh t) + tB (sh t) + tC (sh t) = S (tA t + tB t + tC t))%nat) ->
  (forall t t', sh t = sh t' -> t = t') ->
  (forall t, (1 <= comp t)%nat -> exists t', sh t' = t) ->
  (forall t, multinom3 (tA (sh t)) (tB (sh t)) (tC (sh t)) * qnat (comp (sh t))
             == qnat (S (tA t + tB t + tC t)) * multinom3 (tA t) (tB t) (tC t)) ->
  qsum (map (fun t => qnat (comp t) / qnat (S n) * (multinom3 (tA t) (tB t) (tC t) * G (tA t) (tB t) (tC t))) (tri (S n)))
  == TS n (fun a b c => G (tA (sh (a, b, c))) (tB (sh (a, b, c))) (tC (sh (a, b, c)))).
Proof.
  intros Hc Hs Inj Sur Hm.
  set (g := fun t => qnat (comp t) / qnat (S n) * (multinom3 (tA t) (tB t) (tC t) * G (tA t) (tB t) (tC t))).
  assert (Pn : 0 < qnat (S n)) by (apply qnat_pos; lia).
  rewrite (qsum_map_ext g (fun t => if (1 <=? comp t)%nat then g t else 0)).
  2:{ intros t _. destruct (Nat.leb_spec 1 (comp t)) as [H|H]; [reflexivity|]. unfold g.
      replace (comp t) with 0%nat by lia. rewrite qnat_0. unfold Qdiv. ring. }
  rewrite <- (sum_bij_filter (tri n) (tri (S n)) sh (fun t => (1 <=? comp t)%nat) g).
  - unfold TS. apply qsum_map_ext. intros t Ht. apply tri_spec' in Ht. unfold g.
    destruct t as [[a b] c]. cbn [tA tB tC fst snd] in *.
    pose proof (Hm (a, b, c)) as E. cbn [tA tB tC fst snd] in E. rewrite Ht in E.
    transitivity (/ qnat (S n) * (multinom3 (tA (sh (a, b, c))) (tB (sh (a, b, c))) (tC (sh (a, b, c))) * qnat (comp (sh (a, b, c))))
                  * G (tA (sh (a, b, c))) (tB (sh (a, b, c))) (tC (sh (a, b, c)))); [unfold Qdiv; ring|].
    rewrite E. field. lra.
  - apply tri_nodup.
  - apply tri_nodup.
  - intros x y _ _. apply Inj.
  - intros t. split.
    + intros [Ht Hp]. apply Nat.leb_le in Hp. destruct (Sur t Hp) as (t' & <-). exists t'. split; [|reflexivity].
      apply tri_spec'. apply tri_spec' in Ht. rewrite Hs in Ht. lia.
    + intros (t' & Ht' & <-). split; [apply tri_spec'; rewrite Hs; apply tri_spec' in Ht'; lia|].
      apply Nat.leb_le. rewrite Hc. lia.
Qed.

(** the Pascal rule for trinomial-weighted sums *)
Theorem TS_pascal n G :
  TS (S n) G == TS n (fun a b c => G (S a) b c) + TS n (fun a b c => G a (S b) c) + TS n (fun a b c => G a b (S c)).
Proof.
  pose proof (TS_shift n (fun t => (S (tA t), tB t, tC t)) tA G) as E1.
  pose proof (TS_shift n (fun t => (tA t, S (tB t), tC t)) tB G) as E2.
  pose proof (TS_shift n (fun t => (tA t, tB t, S (tC t))) tC G) as E3.
  cbn [tA tB tC fst snd] in E1, E2, E3.
  rewrite <- E1, <- E2, <- E3; clear E1 E2 E3.
  - rewrite <- !qsum_map_add. unfold TS. apply qsum_map_ext. intros t Ht. apply tri_spec' in Ht.
    assert (Pn : 0 < qnat (S n)) by (apply qnat_pos; lia).
    assert (E : qnat (tA t) + qnat (tB t) + qnat (tC t) == qnat (S n)) by (rewrite <- !qnat_add, Ht; reflexivity).
    transitivity ((qnat (tA t) + qnat (tB t) + qnat (tC t)) / qnat (S n) * (multinom3 (tA t) (tB t) (tC t) * G (tA t) (tB t) (tC t))).
    + rewrite E. field. lra.
    + unfold Qdiv. ring.
  - intros; reflexivity.
  - intros [[a b] c]; cbn [tA tB tC fst snd]; lia.
  - intros [[a b] c] [[a' b'] c'] H; cbn [tA tB tC fst snd] in H. inversion H. reflexivity.
  - intros [[a b] c] H; cbn [tA tB tC fst snd] in H. destruct c as [|c]; [lia|]. exists (a, b, c). reflexivity.
  - intros [[a b] c]; cbn [tA tB tC fst snd]. apply m3_c.
  - intros; reflexivity.
  - intros [[a b] c]; cbn [tA tB tC fst snd]; lia.
  - intros [[a b] c] [[a' b'] c'] H; cbn [tA tB tC fst snd] in H. inversion H. reflexivity.
  - intros [[a b] c] H; cbn [tA tB tC fst snd] in H. destruct b as [|b]; [lia|]. exists (a, b, c). reflexivity.
  - intros [[a b] c]; cbn [tA tB tC fst snd]. apply m3_b.
  - intros; reflexivity.
  - intros [[a b] c]; cbn [tA tB tC fst snd]; lia.
  - intros [[a b] c] [[a' b'] c'] H; cbn [tA tB tC fst snd] in H. inversion H. reflexivity.
  - intros [[a b] c] H; cbn [tA tB tC fst snd] in H. destruct a as [|a]; [lia|]. exists (a, b, c). reflexivity.
  - intros [[a b] c]; cbn [tA tB tC fst snd]. apply m3_a.
Qed.

(** ** the number of m-subsets of the individuals carrying i derived alleles *)
Definition sums (m : nat) (l : list nat) : list nat := map (@list_sum) (combs m l).
Definition hc (m i : nat) (l : list nat) : nat := cnt i (sums m l).
(** with an integer allele count: none for a negative count *)
Definition hcZ (m : nat) (i : Z) (l : list nat) : Q := if (i <? 0)%Z then 0 else qnat (hc m (Z.to_nat i) l).

Lemma combs_0 {A} (l : list A) : combs 0 l = [[]].
Proof. destruct l; reflexivity. Qed.
Lemma combs_S_cons {A} k (x : A) t : combs (S k) (x :: t) = map (cons x) (combs k t) ++ combs (S k) t.
Proof. reflexivity. Qed.

Lemma sums_0 l : sums 0 l = [0%nat].
Proof. unfold sums. rewrite combs_0. reflexivity. Qed.
Lemma sums_S_nil m : sums (S m) [] = [].
Proof. reflexivity. Qed.
Lemma sums_S_cons m v l : sums (S m) (v :: l) = map (fun s => (v + s)%nat) (sums m l) ++ sums (S m) l.
Proof. unfold sums. rewrite combs_S_cons, map_app, !map_map. reflexivity. Qed.

(** rearranging the individuals rearranges the subset sums *)
Lemma sums_perm l l' : Permutation l l' -> forall m, Permutation (sums m l) (sums m l').
Proof.
  induction 1 as [|x l l' _ IH|x y l|l l' l'' _ IH1 _ IH2]; intros m.
  - apply Permutation_refl.
  - destruct m as [|m]; [rewrite !sums_0; apply Permutation_refl|].
    rewrite !sums_S_cons. apply Permutation_app; [apply Permutation_map, IH | apply IH].
  - destruct m as [|[|m]].
    + rewrite !sums_0. apply Permutation_refl.
    + rewrite !sums_S_cons, !sums_0. cbn [map app]. rewrite !Nat.add_0_r. apply perm_swap.
    + rewrite !sums_S_cons, !map_app, !map_map, <- !app_assoc.
      apply Permutation_app.
      * erewrite map_ext; [apply Permutation_refl|]. intros s. cbn beta. lia.
      * rewrite !app_assoc. apply Permutation_app_tail. apply Permutation_app_comm.
  - eapply Permutation_trans; [apply IH1 | apply IH2].
Qed.

Lemma hc_perm m i l l' : Permutation l l' -> hc m i l = hc m i l'.
Proof. intros P. unfold hc, cnt. apply Permutation_count_occ, sums_perm, P. Qed.

Lemma cnt_app v (l1 l2 : list nat) : cnt v (l1 ++ l2) = (cnt v l1 + cnt v l2)%nat.
Proof. unfold cnt. apply count_occ_app. Qed.

Lemma cnt_map_add i v L : cnt i (map (fun s => (v + s)%nat) L) = if (v <=? i)%nat then cnt (i - v) L else 0%nat.
Proof.
  induction L as [|s L IH]; [destruct (v <=? i)%nat; reflexivity|].
  cbn [map]. rewrite !cnt_cons, IH. destruct (Nat.leb_spec v i).
  - destruct (Nat.eq_dec (v + s) i), (Nat.eq_dec s (i - v)); lia.
  - destruct (Nat.eq_dec (v + s) i); lia.
Qed.

Lemma hc_cons m i v l : hc (S m) i (v :: l) = ((if (v <=? i)%nat then hc m (i - v) l else 0) + hc (S m) i l)%nat.
Proof. unfold hc. rewrite sums_S_cons, cnt_app, cnt_map_add. reflexivity. Qed.

Lemma hcZ_cons m i v l : hcZ (S m) i (v :: l) == hcZ m (i - Z.of_nat v) l + hcZ (S m) i l.
Proof.
  unfold hcZ. destruct (Z.ltb_spec i 0) as [Hi|Hi].
  - destruct (Z.ltb_spec (i - Z.of_nat v) 0); [ring | lia].
  - rewrite hc_cons, qnat_add. destruct (Nat.leb_spec v (Z.to_nat i)) as [Hv|Hv].
    + destruct (Z.ltb_spec (i - Z.of_nat v) 0); [lia|]. replace (Z.to_nat (i - Z.of_nat v)) with (Z.to_nat i - v)%nat by lia. reflexivity.
    + destruct (Z.ltb_spec (i - Z.of_nat v) 0); [rewrite qnat_0; reflexivity | lia].
Qed.

Lemma hcZ_0 i l : hcZ 0 i l == if (i =? 0)%Z then 1 else 0.
Proof.
  unfold hcZ, hc. rewrite sums_0. destruct (Z.ltb_spec i 0); destruct (Z.eqb_spec i 0); try lia; try reflexivity.
  - subst. reflexivity.
  - rewrite cnt_cons. destruct (Nat.eq_dec 0 (Z.to_nat i)); [lia|]. reflexivity.
Qed.

Lemma hcZ_nil m i : hcZ (S m) i [] == 0.
Proof. unfold hcZ, hc. rewrite sums_S_nil. destruct (i <? 0)%Z; reflexivity. Qed.

Lemma hcZ_perm m i l l' : Permutation l l' -> hcZ m i l == hcZ m i l'.
Proof. intros P. unfold hcZ. rewrite (hc_perm m _ l l' P). reflexivity. Qed.

(** ** the sorted genotype vector with given genotype counts *)
Definition Lv (a b c : nat) : list nat := repeat 0%nat a ++ repeat 1%nat b ++ repeat 2%nat c.

Lemma cnt_repeat v w k : cnt v (repeat w k) = if Nat.eq_dec w v then k else 0%nat.
Proof.
  unfold cnt. destruct (Nat.eq_dec w v) as [E|E].
  - apply count_occ_repeat_eq. auto.
  - apply count_occ_repeat_neq. auto.
Qed.

Lemma cnt_Lv v a b c : cnt v (Lv a b c) = ((if Nat.eq_dec 0 v then a else 0) + ((if Nat.eq_dec 1 v then b else 0) + (if Nat.eq_dec 2 v then c else 0)))%nat.
Proof. unfold Lv. rewrite !cnt_app, !cnt_repeat. reflexivity. Qed.

Lemma Lv_perm pt : Forall (fun g => g <= 2)%nat pt -> Permutation pt (Lv (cnt 0 pt) (cnt 1 pt) (cnt 2 pt)).
Proof.
  intros Fa. apply (Permutation_count_occ Nat.eq_dec). intros x.
  change (cnt x pt = cnt x (Lv (cnt 0 pt) (cnt 1 pt) (cnt 2 pt))). rewrite cnt_Lv.
  destruct (Nat.eq_dec 0 x), (Nat.eq_dec 1 x), (Nat.eq_dec 2 x); subst; try lia.
  unfold cnt. rewrite (proj1 (count_occ_not_In Nat.eq_dec pt x)); [lia|].
  intros Hx. rewrite Forall_forall in Fa. specialize (Fa x Hx). lia.
Qed.

Lemma SSorted_repeat v k : StronglySorted le (repeat v k).
Proof.
  induction k; cbn [repeat]; constructor; [exact IHk|]. rewrite Forall_forall. intros x Hx. apply repeat_spec in Hx. lia.
Qed.

Lemma SSorted_app (l1 l2 : list nat) : StronglySorted le l1 -> StronglySorted le l2 ->
  (forall x y, In x l1 -> In y l2 -> (x <= y)%nat) -> StronglySorted le (l1 ++ l2).
Proof.
  induction 1 as [|x l1 S1 IH F1]; intros S2 H; cbn [app]; [exact S2|]. constructor.
  - apply IH; [exact S2 | intros; apply H; [now right | assumption]].
  - rewrite Forall_forall in *. intros y Hy. apply in_app_iff in Hy. destruct Hy as [Hy|Hy]; [apply F1, Hy | apply H; [now left | exact Hy]].
Qed.

Lemma list_sum_repeat v k : list_sum (repeat v k) = (k * v)%nat.
Proof. induction k; [reflexivity|]. cbn [repeat]. rewrite list_sum_cons, IHk. lia. Qed.

Lemma Lv_config a b c : is_config (a + b + c) (Z.of_nat (b + 2 * c)) 0 (Lv a b c).
Proof.
  unfold is_config, Lv. split; [|split; [|split]].
  - rewrite !app_length, !repeat_length. lia.
  - rewrite !list_sum_app, !list_sum_repeat. f_equal. lia.
  - rewrite !Forall_app. repeat split; rewrite Forall_forall; intros x Hx; apply repeat_spec in Hx; lia.
  - apply SSorted_app; [apply SSorted_repeat | apply SSorted_app; try apply SSorted_repeat |].
    + intros x y Hx Hy. apply repeat_spec in Hx, Hy. lia.
    + intros x y Hx Hy. apply repeat_spec in Hx. lia.
Qed.

Lemma sorted_perm_eq : forall l l' : list nat, StronglySorted le l -> StronglySorted le l' -> Permutation l l' -> l = l'.
Proof.
  induction l as [|x l IH]; intros l' S S' P.
  - apply Permutation_nil in P. now subst.
  - destruct l' as [|y l']; [apply Permutation_sym, Permutation_nil in P; discriminate|].
    inversion S as [|? ? Sl Fl]; subst. inversion S' as [|? ? Sl' Fl']; subst.
    rewrite Forall_forall in Fl, Fl'.
    assert (x = y).
    { assert (Hx : In x (y :: l')) by (apply (Permutation_in _ P); now left).
      assert (Hy : In y (x :: l)) by (apply (Permutation_in _ (Permutation_sym P)); now left).
      destruct Hx as [Hx|Hx]; [now subst|]. destruct Hy as [Hy|Hy]; [now subst|].
      specialize (Fl y Hy). specialize (Fl' x Hx). lia. }
    subst y. f_equal. apply IH; auto. eapply Permutation_cons_inv, P.
Qed.

(** ** a partition-weighted sum is a trinomial-weighted sum over the triples of the allele count *)
Definition dlt (b c : nat) (x : Z) : Q := if (Z.of_nat (b + 2 * c) =? x)%Z then 1 else 0.

Theorem part_sum_TS n x (f : list nat -> Q) : (forall l l', Permutation l l' -> f l == f l') ->
  qsum (map (fun pt => ways0 pt * f pt) (part n x 0)) == TS n (fun a b c => dlt b c x * (qpow 2 b * f (Lv a b c))).
Proof.
  intros Hf. unfold TS.
  set (g := fun t => multinom3 (tA t) (tB t) (tC t) * (qpow 2 (tB t) * f (Lv (tA t) (tB t) (tC t)))).
  rewrite (qsum_map_ext _ (fun y => if (Z.of_nat (tB y + 2 * tC y) =? x)%Z then g y else 0)).
  2:{ intros t _. unfold dlt, g. destruct (_ =? x)%Z; ring. }
  rewrite <- (sum_bij_filter (part n x 0) (tri n) (fun pt => (cnt 0 pt, cnt 1 pt, cnt 2 pt))).
  - apply qsum_map_ext. intros pt Hpt. apply part_spec in Hpt; [|lia]. unfold g, ways0. cbn [tA tB tC fst snd].
    rewrite (Hf pt _ (Lv_perm pt (config_le2 _ _ _ _ Hpt))). ring.
  - apply part_nodup.
  - apply tri_nodup.
  - intros pt pt' H H' E. apply part_spec in H, H'; try lia. inversion E as [[E0 E1 E2]].
    pose proof (Lv_perm pt (config_le2 _ _ _ _ H)) as P. pose proof (Lv_perm pt' (config_le2 _ _ _ _ H')) as P'.
    rewrite E0, E1, E2 in P. destruct H as (_ & _ & _ & S). destruct H' as (_ & _ & _ & S').
    apply sorted_perm_eq; auto. eapply Permutation_trans; [exact P | apply Permutation_sym, P'].
  - intros [[a b] c]. cbn [tA tB tC fst snd]. rewrite tri_spec. split.
    + intros [Hn Hx]. apply Z.eqb_eq in Hx. exists (Lv a b c). split.
      * apply part_spec; [lia|]. subst n x. apply Lv_config.
      * rewrite !cnt_Lv. cbn. repeat f_equal; lia.
    + intros (pt & Hpt & E). apply part_spec in Hpt; [|lia].
      pose proof (counts_of_config pt (config_le2 _ _ _ _ Hpt)) as [C1 C2]. destruct Hpt as (L & Sm & _ & _).
      inversion E; subst a b c. split; [lia|]. apply Z.eqb_eq. lia.
Qed.

(** ** binomial coefficients with an integer lower index *)
Definition bz (n : nat) (k : Z) : Q := if (k <? 0)%Z then 0 else qnat (binN n (Z.to_nat k)).

Lemma binN_0 n : binN n 0 = 1%nat.
Proof. destruct n; reflexivity. Qed.

Lemma bz_pascal n k : bz (S n) k == bz n (k - 1) + bz n k.
Proof.
  unfold bz. destruct (Z.ltb_spec k 0) as [H|H].
  - destruct (Z.ltb_spec (k - 1) 0); [ring | lia].
  - destruct (Z.eq_dec k 0) as [->|N].
    + cbn [Z.sub Z.opp Z.add Z.ltb Z.compare Z.to_nat]. rewrite !binN_0. ring.
    + destruct (Z.ltb_spec (k - 1) 0); [lia|]. replace (Z.to_nat k) with (S (Z.to_nat (k - 1))) by lia.
      cbn [binN]. rewrite qnat_add. ring.
Qed.

Lemma bz_pascal2 n k : bz (S (S n)) k == bz n k + 2 * bz n (k - 1) + bz n (k - 2).
Proof.
  rewrite bz_pascal, (bz_pascal n (k - 1)), (bz_pascal n k). replace (k - 1 - 1)%Z with (k - 2)%Z by lia. ring.
Qed.

Lemma bz_0 k : bz 0 k == if (k =? 0)%Z then 1 else 0.
Proof.
  unfold bz. destruct (Z.ltb_spec k 0), (Z.eqb_spec k 0); try lia; try reflexivity.
  - subst. reflexivity.
  - destruct (Z.to_nat k) eqn:E; [lia|]. reflexivity.
Qed.

Lemma bz_nat n k : bz n (Z.of_nat k) == qnat (binN n k).
Proof. unfold bz. destruct (Z.ltb_spec (Z.of_nat k) 0); [lia|]. rewrite Nat2Z.id. reflexivity. Qed.

Lemma bz_neg n k : (k < 0)%Z -> bz n k == 0.
Proof. intros H. unfold bz. destruct (Z.ltb_spec k 0); [reflexivity | lia]. Qed.

(** ** the weighted number of (arrangement, m-subset) pairs and its closed form *)
Definition Sg (n m : nat) (j i : Z) : Q := TS n (fun a b c => dlt b c j * (qpow 2 b * hcZ m i (Lv a b c))).
Definition Tq (n m : nat) (j i : Z) : Q := qnat (binN n m) * bz (2 * m) i * bz (2 * n - 2 * m) (j - i).

Lemma dlt_Sb b c j : dlt (S b) c j = dlt b c (j - 1).
Proof. unfold dlt. destruct (Z.eqb_spec (Z.of_nat (S b + 2 * c)) j), (Z.eqb_spec (Z.of_nat (b + 2 * c)) (j - 1)); try reflexivity; lia. Qed.
Lemma dlt_Sc b c j : dlt b (S c) j = dlt b c (j - 2).
Proof. unfold dlt. destruct (Z.eqb_spec (Z.of_nat (b + 2 * S c)) j), (Z.eqb_spec (Z.of_nat (b + 2 * c)) (j - 2)); try reflexivity; lia. Qed.

Lemma Lv_Sa a b c : Lv (S a) b c = 0%nat :: Lv a b c.
Proof. reflexivity. Qed.
Lemma Lv_Sb a b c : Permutation (Lv a (S b) c) (1%nat :: Lv a b c).
Proof. unfold Lv. cbn [repeat app]. apply Permutation_sym, Permutation_middle. Qed.
Lemma Lv_Sc a b c : Permutation (Lv a b (S c)) (2%nat :: Lv a b c).
Proof. unfold Lv. cbn [repeat]. rewrite !app_assoc. apply Permutation_sym, Permutation_middle. Qed.

Lemma Sg_step0 n j i : Sg (S n) 0 j i == Sg n 0 j i + 2 * Sg n 0 (j - 1) i + Sg n 0 (j - 2) i.
Proof.
  unfold Sg at 1. rewrite TS_pascal.
  assert (E1 : TS n (fun a b c => dlt b c j * (qpow 2 b * hcZ 0 i (Lv (S a) b c))) == Sg n 0 j i).
  { apply TS_ext. intros a b c _. rewrite !hcZ_0. reflexivity. }
  assert (E2 : TS n (fun a b c => dlt (S b) c j * (qpow 2 (S b) * hcZ 0 i (Lv a (S b) c))) == 2 * Sg n 0 (j - 1) i).
  { unfold Sg. rewrite <- TS_scale. apply TS_ext. intros a b c _. rewrite dlt_Sb, qpow_S, !hcZ_0. ring. }
  assert (E3 : TS n (fun a b c => dlt b (S c) j * (qpow 2 b * hcZ 0 i (Lv a b (S c)))) == Sg n 0 (j - 2) i).
  { apply TS_ext. intros a b c _. rewrite dlt_Sc, !hcZ_0. reflexivity. }
  rewrite E1, E2, E3. reflexivity.
Qed.

Lemma Sg_stepS n m j i :
  Sg (S n) (S m) j i == (Sg n m j i + Sg n (S m) j i) + 2 * (Sg n m (j - 1) (i - 1) + Sg n (S m) (j - 1) i)
                        + (Sg n m (j - 2) (i - 2) + Sg n (S m) (j - 2) i).
Proof.
  unfold Sg at 1. rewrite TS_pascal.
  assert (E1 : TS n (fun a b c => dlt b c j * (qpow 2 b * hcZ (S m) i (Lv (S a) b c))) == Sg n m j i + Sg n (S m) j i).
  { unfold Sg. transitivity (1 * TS n (fun a b c => dlt b c j * (qpow 2 b * hcZ m i (Lv a b c)))
                             + 1 * TS n (fun a b c => dlt b c j * (qpow 2 b * hcZ (S m) i (Lv a b c)))); [|ring].
    rewrite <- TS_lin2. apply TS_ext. intros a b c _. rewrite Lv_Sa, hcZ_cons.
    replace (i - Z.of_nat 0)%Z with i by lia. ring. }
  assert (E2 : TS n (fun a b c => dlt (S b) c j * (qpow 2 (S b) * hcZ (S m) i (Lv a (S b) c)))
               == 2 * (Sg n m (j - 1) (i - 1) + Sg n (S m) (j - 1) i)).
  { unfold Sg. transitivity (2 * TS n (fun a b c => dlt b c (j - 1) * (qpow 2 b * hcZ m (i - 1) (Lv a b c)))
                             + 2 * TS n (fun a b c => dlt b c (j - 1) * (qpow 2 b * hcZ (S m) i (Lv a b c)))); [|ring].
    rewrite <- TS_lin2. apply TS_ext. intros a b c _. rewrite dlt_Sb, qpow_S, (hcZ_perm _ _ _ _ (Lv_Sb a b c)), hcZ_cons.
    replace (i - Z.of_nat 1)%Z with (i - 1)%Z by lia. ring. }
  assert (E3 : TS n (fun a b c => dlt b (S c) j * (qpow 2 b * hcZ (S m) i (Lv a b (S c))))
               == Sg n m (j - 2) (i - 2) + Sg n (S m) (j - 2) i).
  { unfold Sg. transitivity (1 * TS n (fun a b c => dlt b c (j - 2) * (qpow 2 b * hcZ m (i - 2) (Lv a b c)))
                             + 1 * TS n (fun a b c => dlt b c (j - 2) * (qpow 2 b * hcZ (S m) i (Lv a b c)))); [|ring].
    rewrite <- TS_lin2. apply TS_ext. intros a b c _. rewrite dlt_Sc, (hcZ_perm _ _ _ _ (Lv_Sc a b c)), hcZ_cons.
    replace (i - Z.of_nat 2)%Z with (i - 2)%Z by lia. ring. }
  rewrite E1, E2, E3. reflexivity.
Qed.

Theorem Sg_closed : forall n m j i, Sg n m j i == Tq n m j i.
Proof.
  induction n as [|n IH]; intros m j i.
  - unfold Sg, TS. change (tri 0) with [(0%nat, 0%nat, 0%nat)]. cbn [map tA tB tC fst snd]. rewrite qsum_cons, qsum_nil.
    rewrite multinom3_n00. change (Lv 0 0 0) with (@nil nat). unfold dlt, Tq. cbn [qpow Nat.add Nat.mul Z.of_nat Nat.sub].
    destruct m as [|m].
    + rewrite hcZ_0, !bz_0. cbn [binN]. change (qnat 1) with 1.
      destruct (Z.eqb_spec 0 j), (Z.eqb_spec i 0), (Z.eqb_spec (j - i) 0); try lia; ring.
    + rewrite hcZ_nil. cbn [binN]. rewrite qnat_0. ring.
  - destruct m as [|m].
    + rewrite Sg_step0, !IH. unfold Tq. rewrite !binN_0.
      replace (2 * S n - 2 * 0)%nat with (S (S (2 * n - 2 * 0))) by lia. rewrite bz_pascal2.
      replace (j - 1 - i)%Z with (j - i - 1)%Z by lia. replace (j - 2 - i)%Z with (j - i - 2)%Z by lia. ring.
    + rewrite Sg_stepS, !IH. unfold Tq.
      replace (j - 1 - (i - 1))%Z with (j - i)%Z by lia. replace (j - 2 - (i - 2))%Z with (j - i)%Z by lia.
      replace (j - 1 - i)%Z with (j - i - 1)%Z by lia. replace (j - 2 - i)%Z with (j - i - 2)%Z by lia.
      replace (2 * S n - 2 * S m)%nat with (2 * n - 2 * m)%nat by lia.
      replace (2 * S m)%nat with (S (S (2 * m))) by lia. rewrite (bz_pascal2 (2 * m)).
      cbn [binN]. rewrite qnat_add.
      destruct (Nat.le_gt_cases (S m) n) as [Hm|Hm].
      * replace (2 * n - 2 * m)%nat with (S (S (2 * n - S (S (2 * m))))) by lia. rewrite (bz_pascal2 (2 * n - S (S (2 * m)))). ring.
      * rewrite (binN_gt n (S m)) by lia. rewrite qnat_0. ring.
Qed.

(** ** assembling the row of the subsampling matrix *)
Lemma combs_length {A} : forall k (l : list A), length (combs k l) = binN (length l) k.
Proof.
  induction k as [|k IHk]; intros l; [rewrite combs_0, binN_0; reflexivity|].
  induction l as [|x l IHl]; [reflexivity|].
  rewrite combs_S_cons, app_length, map_length, IHk, IHl. reflexivity.
Qed.

Lemma hcZ_nat m i l : hcZ m (Z.of_nat i) l == qnat (hc m i l).
Proof. unfold hcZ. destruct (Z.ltb_spec (Z.of_nat i) 0); [lia|]. rewrite Nat2Z.id. reflexivity. Qed.

(** the number of arrangements of j derived alleles: sum of the Hardy-Weinberg weights = C(2n, j) *)
Lemma ways0_total n j : qsum (map ways0 (part n (Z.of_nat j) 0)) == qnat (binN (2 * n) j).
Proof.
  rewrite (qsum_map_ext ways0 (fun pt => ways0 pt * (fun _ => 1) pt)) by (intros; ring).
  rewrite (part_sum_TS n (Z.of_nat j) (fun _ => 1)) by reflexivity.
  transitivity (Sg n 0 (Z.of_nat j) 0).
  - apply TS_ext. intros a b c _. rewrite hcZ_0. reflexivity.
  - rewrite Sg_closed. unfold Tq. rewrite binN_0. replace (2 * 0)%nat with 0%nat by lia. rewrite bz_0. cbn [Z.eqb].
    replace (Z.of_nat j - 0)%Z with (Z.of_nat j) by lia. rewrite bz_nat.
    replace (2 * n - 0)%nat with (2 * n)%nat by lia. change (qnat 1) with 1. ring.
Qed.

(** in the terms of the model: the normalising constant of the F = 0 partition probabilities is C(n_sequenced, j) *)
Theorem ways0_total_parts hn j : qsum (map ways0 (parts (2 * hn) j)) == binQ (2 * hn) j.
Proof.
  unfold parts. replace (2 * hn / 2)%nat with hn by (rewrite Nat.mul_comm, Nat.div_mul; lia).
  rewrite ways0_total, binQ_binN. reflexivity.
Qed.

(** weighted number of m-subsets with i derived alleles *)
Lemma ways0_hc_total n m j i :
  qsum (map (fun pt => ways0 pt * qnat (hc m i pt)) (part n (Z.of_nat j) 0)) == Tq n m (Z.of_nat j) (Z.of_nat i).
Proof.
  rewrite (qsum_map_ext _ (fun pt => ways0 pt * (fun l => hcZ m (Z.of_nat i) l) pt)) by (intros; rewrite hcZ_nat; reflexivity).
  rewrite (part_sum_TS n (Z.of_nat j) (fun l => hcZ m (Z.of_nat i) l)) by (intros; apply hcZ_perm; assumption).
  cbv beta. exact (Sg_closed n m (Z.of_nat j) (Z.of_nat i)).
Qed.

Lemma combine_map_self {A B} (h : A -> B) (l : list A) : combine l (map h l) = map (fun x => (x, h x)) l.
Proof. induction l; [reflexivity|]. cbn [map combine]. now rewrite IHl. Qed.

Lemma nth_map_seq0 (f : nat -> Q) m i : (i < m)%nat -> nth i (map f (seq 0 m)) 0 = f i.
Proof.
  intros H. rewrite (nth_indep _ 0 (f 0%nat)) by (now rewrite map_length, seq_length).
  rewrite map_nth, seq_nth by exact H. reflexivity.
Qed.

Lemma half_double n : (2 * n / 2 = n)%nat.
Proof. rewrite Nat.mul_comm. apply Nat.div_mul. lia. Qed.

Lemma Forall2_nth_Q : forall a b : list Q, length a = length b ->
  (forall i, (i < length a)%nat -> nth i a 0 == nth i b 0) -> Forall2 Qeq a b.
Proof.
  induction a as [|x a IH]; intros [|y b] L H; try discriminate; constructor.
  - apply (H 0%nat). cbn. lia.
  - apply IH; [cbn in L; lia|]. intros i Hi. apply (H (S i)). cbn. lia.
Qed.

(** entry i of the inbreeding form at F = 0 *)
Lemma proj_row_inb_F0_entry n m j i : (m <= n)%nat -> (j <= 2 * n)%nat -> (i <= 2 * m)%nat ->
  nth i (proj_row_inb (2 * n) (2 * m) 0 j) 0
  == bz (2 * m) (Z.of_nat i) * bz (2 * n - 2 * m) (Z.of_nat j - Z.of_nat i) / qnat (binN (2 * n) j).
Proof.
  intros Hm Hj Hi. rewrite nth_proj_row_inb by exact Hi.
  unfold parts. rewrite half_double. set (pts := part n (Z.of_nat j) 0).
  unfold part_probs. rewrite Qeq_bool_refl0. unfold normalise. rewrite map_map, combine_map_self, map_map. cbn [fst snd].
  pose proof (ways0_total n j) as W. fold pts in W.
  assert (PW : 0 < qnat (binN (2 * n) j)) by (apply qnat_pos, binN_pos; lia).
  assert (PC : 0 < qnat (binN n m)) by (apply qnat_pos, binN_pos; lia).
  rewrite (qsum_map_ext _ (fun pt => / (qnat (binN (2 * n) j) * qnat (binN n m)) * (ways0 pt * qnat (hc m i pt)))).
  - rewrite qsum_map_scale. unfold pts. rewrite ways0_hc_total. unfold Tq. field. split; lra.
  - intros pt Hpt. unfold pts in Hpt. apply part_spec in Hpt; [|lia]. destruct Hpt as (L & _).
    rewrite Qred_correct, W. unfold proj_inb. cbv zeta. rewrite half_double, nth_map_seq0 by lia.
    rewrite map_length, combs_length, L. fold (sums m pt). fold (hc m i pt). field. split; lra.
Qed.

(** THE THEOREM: for all even sizes the F = 0 value of the inbreeding form of projection_matrix is the
    hypergeometric row of the F = 0 branch *)
Theorem proj_matrix_F0_consistent hn hm j : (hm <= hn)%nat -> (j <= 2 * hn)%nat ->
  Forall2 Qeq (proj_row_inb (2 * hn) (2 * hm) 0 j) (hyper_row (2 * hn) (2 * hm) j).
Proof.
  intros Hm Hj.
  assert (L1 : length (proj_row_inb (2 * hn) (2 * hm) 0 j) = (2 * hm + 1)%nat).
  { apply proj_row_inb_prob_vector; [lia | rewrite half_double; exact Hj | left; reflexivity]. }
  assert (L2 : length (hyper_row (2 * hn) (2 * hm) j) = (2 * hm + 1)%nat).
  { unfold hyper_row. destruct (2 * hn <? 2 * hm)%nat; [apply repeat_length | now rewrite map_length, seq_length]. }
  apply Forall2_nth_Q; [congruence|]. intros i Hi. rewrite L1 in Hi.
  rewrite proj_row_inb_F0_entry by lia.
  unfold hyper_row. destruct (Nat.ltb_spec (2 * hn) (2 * hm)); [lia|]. rewrite nth_map_seq0 by lia.
  assert (PW : 0 < qnat (binN (2 * hn) j)) by (apply qnat_pos, binN_pos; lia).
  destruct (Nat.leb_spec i j) as [Hij|Hij].
  - rewrite Qred_correct, !binQ_binN. replace (Z.of_nat j - Z.of_nat i)%Z with (Z.of_nat (j - i)) by lia. rewrite !bz_nat. reflexivity.
  - rewrite (bz_neg _ (Z.of_nat j - Z.of_nat i)) by lia. field. lra.
Qed.

(** hence the expectation of the simulated row (deep coverage, uniform subsets) is the projection_matrix row also at F = 0,
    for all even sizes *)
Theorem expected_row_is_projection_matrix_row_F0 hn hm j : (hm <= hn)%nat -> (j <= 2 * hn)%nat ->
  Forall2 Qeq (expected_row (2 * hn) (2 * hm) 0 j) (nth j (proj_matrix (2 * hn) (2 * hm) 0) []).
Proof.
  intros Hm Hj. unfold proj_matrix. rewrite LowPassSimExp.nth_map_seq by lia. rewrite Qeq_bool_refl0.
  rewrite expected_row_is_proj_row_inb. now apply proj_matrix_F0_consistent.
Qed.

(** the whole matrix: every row of the F = 0 branch is the F = 0 value of the inbreeding form *)
Theorem proj_matrix_F0_rows hn hm : (hm <= hn)%nat ->
  Forall2 (Forall2 Qeq) (map (proj_row_inb (2 * hn) (2 * hm) 0) (seq 0 (2 * hn + 1))) (proj_matrix (2 * hn) (2 * hm) 0).
Proof.
  intros Hm. unfold proj_matrix. rewrite Qeq_bool_refl0.
  assert (G : forall l, (forall j, In j l -> (j <= 2 * hn)%nat) ->
              Forall2 (Forall2 Qeq) (map (proj_row_inb (2 * hn) (2 * hm) 0) l) (map (fun j => hyper_row (2 * hn) (2 * hm) j) l)).
  { induction l as [|j l IH]; intros H; cbn [map]; constructor.
    - apply proj_matrix_F0_consistent; [exact Hm | apply H; now left].
    - apply IH. intros; apply H; now right. }
  apply G. intros j Hj. apply in_seq in Hj. lia.
Qed.

Print Assumptions proj_matrix_F0_consistent.
Print Assumptions ways0_total_parts.
Print Assumptions expected_row_is_projection_matrix_row_F0.
