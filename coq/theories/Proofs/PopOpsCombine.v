(** C10 proofs: combine_two_pops, combine_pops, Misc.combine_pops are the explicit "add the allele counts" sums. *)
From Coq Require Import String.
From Coq Require Import ZArith Reals List Bool Arith Lia Lra Permutation Sorted.
From Dadi Require Import Base.Num Base.NumR Model.PopOps Proofs.PopOpsBig Proofs.PopOpsIdx Proofs.PopOpsPF
  Proofs.PopOpsProofs.
Import ListNotations.
Local Open Scope R_scope.

(** ** the shared scatter step *)
Lemma push_scatter_spec (a : spec R) newshape f vals msk labels fl K :
  inr newshape K ->
  let o := push_scatter newshape f vals msk a labels fl in
  va o K = fiber_sum (sh a) f vals K /\ mk o K = is_corner newshape K || fiber_any (sh a) f msk K.
Proof. intros HK. simpl. split.
  - rewrite (lookup_tabulate 0 newshape _ K HK).
    change (@nadd R NumR) with Rplus.
    rewrite (scatter_spec R Rplus 0 Rp_assoc Rp_comm Rp_0_l). rewrite fiber_sum_big. simpl. ring.
  - rewrite (lookup_tabulate true newshape _ K HK).
    rewrite (scatter_spec bool orb false orb_assoc orb_comm orb_false_l). now rewrite fiber_any_big. Qed.

Lemma push_scatter_PF (a : spec R) newshape f vals msk labels fl :
  PFR (sh a) f vals newshape (va (push_scatter newshape f vals msk a labels fl)).
Proof. apply PFR_fiber. intros K HK. apply (push_scatter_spec a newshape f vals msk labels fl K HK). Qed.

(** ** combine_two_pops *)
Lemma maps_merge2 S t0 t1 : (t0 < length S)%nat -> (t1 < length S)%nat ->
  maps S (merge2 (fun x y => x + y - 1)%nat 0%nat t0 t1 S) (merge2 Nat.add 0%nat t0 t1).
Proof. intros H0 H1 I HI. unfold merge2. apply Forall2_remove_nth. apply Forall2_set_nth; auto.
  assert (L := inr_length _ _ HI).
  assert (A0 := Forall2_nth lt 0%nat 0%nat I S t0 HI ltac:(lia)).
  assert (A1 := Forall2_nth lt 0%nat 0%nat I S t1 HI ltac:(lia)). lia. Qed.

(** the entry (.., i, .., j, ..) goes to allele count i + j on the merged axis *)
Theorem combine_two_spec (a : spec R) p q :
  (1 <= p <= length (sh a))%nat -> (1 <= q <= length (sh a))%nat -> p <> q ->
  let t0 := pred (Nat.min p q) in let t1 := pred (Nat.max p q) in
  let o := combine_two_pops p q a in
  sh o = merge2 (fun x y => x + y - 1)%nat 0%nat t0 t1 (sh a) /\ fo o = fo a /\
  ids o = option_map (merge2 (fun x y => (x ++ "+" ++ y)%string) EmptyString t0 t1) (ids a) /\
  (forall K, inr (sh o) K -> va o K = fiber_sum (sh a) (merge2 Nat.add 0%nat t0 t1) (va a) K /\
                             mk o K = is_corner (sh o) K || fiber_any (sh a) (merge2 Nat.add 0%nat t0 t1) (mk a) K) /\
  total o = total a.
Proof. intros Hp Hq Hpq t0 t1 o. unfold o, combine_two_pops. fold t0 t1.
  split; [reflexivity|]. split; [reflexivity|]. split; [destruct (ids a); reflexivity|]. split.
  - intros K HK. apply push_scatter_spec. exact HK.
  - rewrite !total_big. eapply (PF_total R Rplus 0 Rp_assoc Rp_comm Rp_0_l); [apply push_scatter_PF|].
    apply maps_merge2; unfold t0, t1; lia. Qed.

Theorem combine_two_sym (a : spec R) p q : combine_two_pops p q a = combine_two_pops q p a.
Proof. unfold combine_two_pops. now rewrite Nat.min_comm, Nat.max_comm. Qed.

(** ** iterating the pairwise merge from the highest axis down *)
Lemma fold_remove_set {A} t0 (y : A) ds l : Forall (fun t => (t0 < t)%nat) ds ->
  set_nth t0 y (fold_left (fun l k => remove_nth k l) ds l) = fold_left (fun l k => remove_nth k l) ds (set_nth t0 y l).
Proof. intros Hd; revert l; induction Hd as [|t ds Ht Hd IH]; intros l; simpl; auto.
  now rewrite IH, set_nth_remove_nth. Qed.

Lemma fold_left_ext_in {A B} (f g : A -> B -> A) l : forall s,
  (forall s x, In x l -> f s x = g s x) -> fold_left f l s = fold_left g l s.
Proof. induction l as [|x l IH]; intros s Hfg; simpl; auto. rewrite Hfg by auto with datatypes.
  apply IH. auto with datatypes. Qed.

Lemma iter_merge2 {A} (op : A -> A -> A) (dflt : A) t0 ds : forall l,
  StronglySorted gt ds -> Forall (fun t => (t0 < t)%nat) ds -> Forall (fun t => (t < length l)%nat) ds ->
  fold_left (fun l t => merge2 op dflt t0 t l) ds l
  = fold_left (fun l k => remove_nth k l) ds
      (set_nth t0 (fold_left (fun s t => op s (nth t l dflt)) ds (nth t0 l dflt)) l).
Proof. induction ds as [|t ds IH]; intros l Hs H0 Hl; simpl.
  - clear. revert t0. induction l; intros [|t0]; simpl; auto. now rewrite <- IHl.
  - inversion Hs as [|? ? Hs' Hgt]; subst. inversion H0 as [|? ? Ht0 H0']; subst. inversion Hl as [|? ? Htl Hl']; subst.
    cbv beta in *. set (l' := merge2 op dflt t0 t l).
    assert (Ll' : length l' = pred (length l)).
    { unfold l', merge2. rewrite remove_nth_length; rewrite set_nth_length; lia. }
    rewrite IH; auto.
    + assert (E0 : nth t0 l' dflt = op (nth t0 l dflt) (nth t l dflt)).
      { unfold l', merge2. rewrite nth_remove_lt by auto. apply nth_set_nth_same. lia. }
      assert (Eo : forall s, fold_left (fun s u => op s (nth u l' dflt)) ds s
                           = fold_left (fun s u => op s (nth u l dflt)) ds s).
      { intros s. apply fold_left_ext_in. intros s' u Hu. f_equal.
        rewrite Forall_forall in Hgt, H0'. specialize (Hgt u Hu). specialize (H0' u Hu).
        unfold l', merge2. rewrite nth_remove_lt by lia. apply nth_set_nth_other. lia. }
      rewrite E0, Eo. f_equal. unfold l', merge2.
      rewrite set_nth_remove_nth by auto. now rewrite set_nth_set_nth.
    + rewrite Forall_forall in *. intros u Hu. specialize (Hgt u Hu). specialize (Hl' u Hu). lia. Qed.

Lemma fold_add_isum (g : nat -> nat) ds s :
  fold_left (fun s t => (s + g t)%nat) ds s = (s + isum (map g ds))%nat.
Proof. revert s; induction ds as [|t ds IH]; intros s; simpl; [lia|]. rewrite IH. unfold isum. simpl. lia. Qed.

Lemma fold_shape_nsamp (shape : list nat) ds s :
  Forall (fun x => (1 <= x)%nat) shape -> Forall (fun t => (t < length shape)%nat) ds -> (1 <= s)%nat ->
  fold_left (fun s t => (s + nth t shape 0 - 1)%nat) ds s = (s + isum (map (fun t => pred (nth t shape 0%nat)) ds))%nat.
Proof. intros Hs Hd. revert s; induction Hd as [|t ds Ht Hd IH]; intros s H1; simpl; [lia|].
  assert (1 <= nth t shape 0)%nat by (rewrite Forall_forall in Hs; apply Hs, nth_In; auto).
  rewrite IH by lia. unfold isum; simpl. lia. Qed.

Lemma map_pred_sorted l : StronglySorted lt l -> Forall (fun x => (1 <= x)%nat) l -> StronglySorted lt (map pred l).
Proof. induction 1 as [|x l S IH Hf]; intros H1; simpl; [constructor|]. inversion H1; subst. constructor; auto.
  apply Forall_forall. intros y Hy. apply in_map_iff in Hy as (z & <- & Hz). rewrite Forall_forall in *.
  specialize (Hf z Hz). specialize (H3 z Hz). lia. Qed.

(** ** combine_pops *)
Section CombinePops.
  Variables (a : spec R) (tc : list nat).
  Let d := length (sh a).
  Hypothesis Hnd : NoDup tc.
  Hypothesis Hne : tc <> [].
  Hypothesis Hall : Forall (fun p => (1 <= p <= d)%nat) tc.

  Let srt := isort tc.
  Let first := hd 1%nat srt.
  Let rest := tl srt.
  Definition merged_axis : nat := pred first.                 (* t0 *)
  Definition other_axes : list nat := map pred rest.          (* ts, increasing *)
  Let ds := rev other_axes.

  Lemma srt_split : srt = first :: rest.
  Proof. assert (G : forall l : list nat, Permutation tc l -> l = hd 1%nat l :: tl l).
    { intros l P. destruct l; [apply Permutation_sym, Permutation_nil in P; contradiction | reflexivity]. }
    apply G, isort_perm. Qed.
  Lemma srt_sorted : StronglySorted lt srt.
  Proof. now apply isort_ssorted. Qed.
  Lemma srt_range x : In x srt -> (1 <= x <= d)%nat.
  Proof. intros Hx. rewrite Forall_forall in Hall. apply Hall. eapply Permutation_in; [symmetry; apply isort_perm | exact Hx]. Qed.
  Lemma first_range : (1 <= first <= d)%nat.
  Proof. apply srt_range. rewrite srt_split. now left. Qed.
  Lemma rest_gt x : In x rest -> (first < x <= d)%nat.
  Proof. intros Hx. assert (S := srt_sorted). rewrite srt_split in S. inversion S as [|? ? _ Hf]; subst.
    rewrite Forall_forall in Hf. split; [now apply Hf|]. apply srt_range. rewrite srt_split. now right. Qed.
  Lemma rest_sorted : StronglySorted lt rest.
  Proof. assert (S := srt_sorted). rewrite srt_split in S. now inversion S. Qed.

  Lemma others_sorted : StronglySorted lt other_axes.
  Proof. unfold other_axes. apply map_pred_sorted; [apply rest_sorted|]. apply Forall_forall. intros x Hx.
    apply rest_gt in Hx. lia. Qed.
  Lemma others_range t : In t other_axes -> (merged_axis < t < d)%nat.
  Proof. intros Ht. unfold other_axes in Ht. apply in_map_iff in Ht as (x & <- & Hx). apply rest_gt in Hx.
    unfold merged_axis. assert (F := first_range). lia. Qed.
  Lemma ds_desc : StronglySorted gt ds.
  Proof. apply ssorted_rev, others_sorted. Qed.
  Lemma ds_range : Forall (fun t => (merged_axis < t)%nat) ds /\ Forall (fun t => (t < d)%nat) ds.
  Proof. split; apply Forall_forall; intros t Ht; apply in_rev in Ht; apply others_range in Ht; lia. Qed.
  Lemma isort_others : isort other_axes = other_axes.
  Proof. apply ssorted_lt_isort, others_sorted. Qed.
  Lemma drop_others {A} (l : list A) : drop_axes other_axes l = fold_left (fun l k => remove_nth k l) ds l.
  Proof. unfold drop_axes. now rewrite isort_others. Qed.

  (** the loop of combine_pops, written with 0-based axes *)
  Lemma loop_as_axes (b : spec R) :
    fold_left (fun r right => combine_two_pops first right r) (rev rest) b
    = fold_left (fun r t => combine_two_pops (S merged_axis) (S t) r) ds b.
  Proof. unfold ds, other_axes. rewrite <- map_rev.
    assert (G : forall x, In x (rev rest) -> (first < x)%nat) by (intros x Hx; apply in_rev in Hx; now apply rest_gt).
    assert (F : S merged_axis = first) by (unfold merged_axis; assert (F := first_range); lia).
    rewrite F. revert b. induction (rev rest) as [|x l IH]; intros b; simpl; auto.
    assert (first < x)%nat by (apply G; auto with datatypes).
    replace (S (pred x)) with x by lia. apply IH. auto with datatypes. Qed.

  Lemma step_axes (b : spec R) t : (merged_axis < t)%nat ->
    combine_two_pops (S merged_axis) (S t) b
    = push_scatter (merge2 (fun x y => x + y - 1)%nat 0%nat merged_axis t (sh b)) (merge2 Nat.add 0%nat merged_axis t)
                   (va b) (mk b) b
                   (match ids b with
                    | Some l => Some (merge2 (fun x y => (x ++ "+" ++ y)%string) EmptyString merged_axis t l)
                    | None => None end) (fo b).
  Proof. intros Ht. unfold combine_two_pops. replace (Nat.min (S merged_axis) (S t)) with (S merged_axis) by lia.
    replace (Nat.max (S merged_axis) (S t)) with (S t) by lia. reflexivity. Qed.

  Lemma iter_combine ts' : forall b : spec R,
    StronglySorted gt ts' -> Forall (fun t => (merged_axis < t)%nat) ts' -> Forall (fun t => (t < length (sh b))%nat) ts' ->
    let r := fold_left (fun r t => combine_two_pops (S merged_axis) (S t) r) ts' b in
    let f := fun I : idx => fold_left (fun l t => merge2 Nat.add 0%nat merged_axis t l) ts' I in
    sh r = fold_left (fun l t => merge2 (fun x y => x + y - 1)%nat 0%nat merged_axis t l) ts' (sh b) /\
    PFR (sh b) f (va b) (sh r) (va r) /\ maps (sh b) (sh r) f /\
    ids r = option_map (fold_left (fun l t => merge2 (fun x y => (x ++ "+" ++ y)%string) EmptyString merged_axis t l) ts') (ids b) /\
    fo r = fo b.
  Proof. induction ts' as [|t ts' IH]; intros b Hs H0 Hl; simpl.
    - repeat split; [apply PF_id; monR | intros I HI; exact HI | destruct (ids b); reflexivity].
    - inversion Hs as [|? ? Hs' Hgt]; subst. inversion H0 as [|? ? Ht0 H0']; subst. inversion Hl as [|? ? Htl Hl']; subst.
      cbv beta in *. rewrite (step_axes b t Ht0).
      set (b' := push_scatter _ _ _ _ b _ _).
      assert (Lb' : length (sh b') = pred (length (sh b))).
      { unfold b'. simpl. unfold merge2. rewrite remove_nth_length; rewrite set_nth_length; lia. }
      assert (Hl'' : Forall (fun u => (u < length (sh b'))%nat) ts').
      { rewrite Forall_forall in *. intros u Hu. specialize (Hgt u Hu). specialize (Hl' u Hu). lia. }
      destruct (IH b' Hs' H0' Hl'') as (E & P & Mp & Ei & Ef).
      assert (M1 : maps (sh b) (sh b') (merge2 Nat.add 0%nat merged_axis t)).
      { unfold b'. simpl. apply maps_merge2; lia. }
      split; [exact E|]. split; [|split; [|split]]; [| | |exact Ef].
      + eapply (PF_comp R Rplus 0 Rp_assoc Rp_comm Rp_0_l); [apply push_scatter_PF | exact P | exact M1].
      + intros I HI. apply Mp. now apply M1.
      + rewrite Ei. unfold b'. simpl. destruct (ids b); reflexivity. Qed.

  (** explicit form of the iterated index map, shape and labels *)
  Lemma loop_idx (I : idx) : length I = d ->
    fold_left (fun l t => merge2 Nat.add 0%nat merged_axis t l) ds I = merge_idx merged_axis other_axes I.
  Proof. intros HI. destruct ds_range as [R0 R1]. rewrite iter_merge2; auto using ds_desc; [|now rewrite HI].
    unfold merge_idx. rewrite drop_others. f_equal. f_equal.
    rewrite fold_add_isum. unfold select. simpl. unfold isum at 2. simpl. f_equal.
    apply isum_perm. apply Permutation_map. unfold ds. apply Permutation_sym, Permutation_rev. Qed.

  Lemma loop_shape : Forall (fun x => (1 <= x)%nat) (sh a) ->
    fold_left (fun l t => merge2 (fun x y => x + y - 1)%nat 0%nat merged_axis t l) ds (sh a)
    = merge_shape merged_axis other_axes (sh a).
  Proof. intros H1. destruct ds_range as [R0 R1]. rewrite iter_merge2; auto using ds_desc.
    unfold merge_shape. rewrite drop_others. f_equal. f_equal.
    assert (Hm : (1 <= nth merged_axis (sh a) 0)%nat).
    { rewrite Forall_forall in H1. apply H1, nth_In. unfold merged_axis. assert (F := first_range). fold d. lia. }
    rewrite fold_shape_nsamp; auto.
    unfold nsamp, select. simpl. fold (isum (map pred (map (fun k => nth k (sh a) 0%nat) other_axes))).
    rewrite map_map.
    replace (isum (map (fun t => pred (nth t (sh a) 0%nat)) ds)) with (isum (map (fun t => pred (nth t (sh a) 0%nat)) other_axes)).
    - lia.
    - apply isum_perm, Permutation_map. unfold ds. apply Permutation_rev. Qed.

  Lemma combine_pops_unfold :
    combine_pops tc a =
    let r := fold_left (fun r t => combine_two_pops (S merged_axis) (S t) r) ds a in
    match ids a, ids r with
    | Some l0, Some lr =>
      {| sh := sh r; va := va r; mk := mk r; fo := fo r;
         ids := Some (set_nth merged_axis (join_plus (select EmptyString (merged_axis :: other_axes) l0)) lr) |}
    | _, _ => r
    end.
  Proof. unfold combine_pops. cbv zeta.
    change (isort tc) with srt. change (hd 1%nat srt) with first. change (tl srt) with rest.
    rewrite loop_as_axes.
    assert (E : forall l0 : list string,
               map (fun p => nth (pred p) l0 EmptyString) srt = select EmptyString (merged_axis :: other_axes) l0).
    { intros l0. rewrite srt_split. unfold select, other_axes, merged_axis. simpl. f_equal. now rewrite map_map. }
    destruct (ids a); [|reflexivity].
    destruct (ids (fold_left (fun r t => combine_two_pops (S merged_axis) (S t) r) ds a)); [|reflexivity].
    now rewrite E. Qed.

  (** combine_pops: coordinates of the merged populations are added on the axis of the lowest-numbered one *)
  Theorem combine_pops_spec :
    let t0 := merged_axis in let ts := other_axes in
    let o := combine_pops tc a in
    (Forall (fun x => (1 <= x)%nat) (sh a) -> sh o = merge_shape t0 ts (sh a)) /\
    (forall K, inr (sh o) K -> va o K = fiber_sum (sh a) (merge_idx t0 ts) (va a) K) /\
    total o = total a /\
    (forall l, ids a = Some l -> length l = d -> ids o = Some (merge_labels t0 ts l)) /\
    (ids a = None -> ids o = None) /\
    fo o = fo a.
  Proof. intros t0 ts o. subst t0 ts. destruct ds_range as [R0 R1].
    destruct (iter_combine ds a ds_desc R0 R1) as (E & P & Mp & Ei & Ef).
    set (r := fold_left (fun r t => combine_two_pops (S merged_axis) (S t) r) ds a) in *.
    assert (Esh : sh o = sh r /\ va o = va r).
    { unfold o. rewrite combine_pops_unfold. cbv zeta. fold r. destruct (ids a), (ids r); split; reflexivity. }
    destruct Esh as [Esh Eva].
    assert (P' : PFR (sh a) (merge_idx merged_axis other_axes) (va a) (sh r) (va r)).
    { eapply (PF_ext R Rplus 0); [| | |exact P]; auto. intros I HI. apply loop_idx. apply (inr_length _ _ HI). }
    split; [|split; [|split; [|split; [|split]]]].
    - intros H1. rewrite Esh, E. now apply loop_shape.
    - intros K HK. rewrite Esh in HK. rewrite Eva. apply (proj1 (PFR_fiber _ _ _ _ _) P' K HK).
    - rewrite !total_big, Esh, Eva. eapply (PF_total R Rplus 0 Rp_assoc Rp_comm Rp_0_l); [exact P'|].
      intros I HI. rewrite <- loop_idx by apply (inr_length _ _ HI). now apply Mp.
    - intros l Hl Hlen. unfold o. rewrite combine_pops_unfold. cbv zeta. fold r. rewrite Ei, Hl. simpl. f_equal.
      rewrite iter_merge2; auto using ds_desc; [|now rewrite Hlen].
      rewrite fold_remove_set by auto. rewrite set_nth_set_nth. unfold merge_labels. rewrite drop_others.
      now rewrite isort_others.
    - intros Hn. unfold o. rewrite combine_pops_unfold. cbv zeta. fold r. rewrite Hn. simpl. rewrite Ei, Hn. reflexivity.
    - unfold o. rewrite combine_pops_unfold. cbv zeta. fold r. rewrite <- Ef. destruct (ids a), (ids r); reflexivity. Qed.
End CombinePops.

(** the result depends only on the SET of populations named in the argument *)
Theorem combine_pops_order_irrelevant (a : spec R) tc tc' :
  Permutation tc tc' -> combine_pops tc a = combine_pops tc' a.
Proof. intros Hp. unfold combine_pops. now rewrite (isort_perm_eq _ _ Hp). Qed.

(** ** Misc.combine_pops *)
Theorem misc_combine_2d (a : spec R) s0 s1 idxs :
  sh a = [s0; s1] ->
  exists o, misc_combine_pops idxs a = Some o /\ sh o = [s0 + s1 - 1]%nat /\ ids o = None /\ fo o = false /\
    (forall K, inr (sh o) K ->
       va o K = fiber_sum (sh a) (fun I => [nth 0 I 0 + nth 1 I 0]%nat) (va a) K /\ mk o K = is_corner (sh o) K) /\
    total o = total a.
Proof. intros Hs. unfold misc_combine_pops. rewrite Hs. eexists. split; [reflexivity|]. simpl sh.
  split; [reflexivity|]. split; [reflexivity|]. split; [reflexivity|]. split.
  - intros K HK. destruct (push_scatter_spec a [s0 + s1 - 1]%nat (fun I => [nth 0 I 0 + nth 1 I 0]%nat) (va a)
                             (fun _ => false) None false K HK) as [E1 E2]. rewrite Hs in E1. split; [exact E1|]. rewrite E2.
    rewrite fiber_any_big. rewrite big_e; [apply orb_false_r | apply orb_false_l|].
    intros I _. destruct (idx_eqb _ K); reflexivity.
  - rewrite !total_big. eapply (PF_total R Rplus 0 Rp_assoc Rp_comm Rp_0_l); [apply push_scatter_PF|].
    rewrite Hs. intros I HI. inversion HI as [|i0 ? I' ? H0 HI']; subst. inversion HI' as [|i1 ? I'' ? H1 HI'']; subst.
    inversion HI''; subst. simpl. constructor; [lia|constructor]. Qed.

Theorem misc_combine_3d (a : spec R) s0 s1 s2 x y z :
  sh a = [s0; s1; s2] -> (x, y, z) = (0, 1, 2)%nat \/ (x, y, z) = (0, 2, 1)%nat \/ (x, y, z) = (1, 2, 0)%nat ->
  exists o, misc_combine_pops [x; y] a = Some o /\
    sh o = [nth x (sh a) 0 + nth y (sh a) 0 - 1; nth z (sh a) 0]%nat /\ ids o = None /\ fo o = false /\
    (forall K, inr (sh o) K ->
       va o K = fiber_sum (sh a) (fun I => [nth x I 0 + nth y I 0; nth z I 0]%nat) (va a) K /\ mk o K = is_corner (sh o) K) /\
    total o = total a.
Proof. intros Hs Hxyz. unfold misc_combine_pops. rewrite Hs.
  assert (G : forall x y z, (x < 3)%nat -> (y < 3)%nat -> (z < 3)%nat ->
    let o := push_scatter [nth x [s0; s1; s2] 0 + nth y [s0; s1; s2] 0 - 1; nth z [s0; s1; s2] 0]%nat
                          (fun I => [nth x I 0 + nth y I 0; nth z I 0]%nat) (va a) (fun _ => false) a None false in
    (forall K, inr (sh o) K ->
       va o K = fiber_sum [s0; s1; s2] (fun I => [nth x I 0 + nth y I 0; nth z I 0]%nat) (va a) K /\ mk o K = is_corner (sh o) K) /\
    total o = total a).
  { intros x' y' z' Hx Hy Hz o. split.
    - intros K HK. destruct (push_scatter_spec a [nth x' [s0; s1; s2] 0 + nth y' [s0; s1; s2] 0 - 1; nth z' [s0; s1; s2] 0]%nat
                               (fun I => [nth x' I 0 + nth y' I 0; nth z' I 0]%nat) (va a)
                               (fun _ => false) None false K HK) as [E1 E2]. rewrite Hs in E1. split; [exact E1|]. unfold o. rewrite E2.
      rewrite fiber_any_big. rewrite big_e; [apply orb_false_r | apply orb_false_l|].
      intros I _. destruct (idx_eqb _ K); reflexivity.
    - rewrite !total_big. eapply (PF_total R Rplus 0 Rp_assoc Rp_comm Rp_0_l); [apply push_scatter_PF|].
      rewrite Hs. intros I HI.
      assert (L := inr_length _ _ HI). simpl in L.
      assert (Ax := Forall2_nth lt 0%nat 0%nat I [s0; s1; s2] x' HI ltac:(lia)).
      assert (Ay := Forall2_nth lt 0%nat 0%nat I [s0; s1; s2] y' HI ltac:(lia)).
      assert (Az := Forall2_nth lt 0%nat 0%nat I [s0; s1; s2] z' HI ltac:(lia)).
      constructor; [lia|]. constructor; [exact Az|constructor]. }
  destruct Hxyz as [E|[E|E]]; inversion E; subst; eexists; (split; [reflexivity|]); simpl sh;
    (split; [reflexivity|]); (split; [reflexivity|]); (split; [reflexivity|]).
  - exact (G 0 1 2 ltac:(lia) ltac:(lia) ltac:(lia))%nat.
  - exact (G 0 2 1 ltac:(lia) ltac:(lia) ltac:(lia))%nat.
  - exact (G 1 2 0 ltac:(lia) ltac:(lia) ltac:(lia))%nat. Qed.
