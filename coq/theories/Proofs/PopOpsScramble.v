(** C10 proofs: scramble_pop_ids = pool all populations, then deal the chromosomes back at random
    (multivariate hypergeometric); the total is conserved (multivariate Vandermonde, any number of populations). *)
From Coq Require Import String.
From Coq Require Import ZArith Reals List Bool Arith Lia Lra Permutation.
From Dadi Require Import Base.Num Base.NumR Model.PopOps Proofs.PopOpsBig Proofs.PopOpsIdx Proofs.PopOpsPF
  Proofs.PopOpsProofs Proofs.PopOpsBinom.
From Dadi Require Proofs.PopOpsVander.
Import ListNotations.

(** ** binomials *)
Lemma binomZ_N n k : binomZ n k = Z.of_nat (binomN n k).
Proof. revert k; induction n as [|n IH]; intros [|k]; simpl; auto. now rewrite Nat2Z.inj_add, !IH. Qed.

Lemma binomN_gt n k : n < k -> binomN n k = 0.
Proof. revert k; induction n as [|n IH]; intros [|k] Hk; simpl; try lia. rewrite !IH; lia. Qed.

Lemma binomN_pos n k : k <= n -> 0 < binomN n k.
Proof. revert k; induction n as [|n IH]; intros [|k] Hk; simpl; try lia.
  assert (0 < binomN n k) by (apply IH; lia). lia. Qed.

(** ** natural-number sums *)
Notation Nbig := (big Nat.add 0).
Lemma Na : forall x y z : nat, x + (y + z) = x + y + z. Proof. intros; lia. Qed.
Lemma Nc : forall x y : nat, x + y = y + x. Proof. intros; lia. Qed.
Lemma N0 : forall x : nat, 0 + x = x. Proof. intros; lia. Qed.

Lemma lsum_big {A} (l : list A) (g : A -> nat) : lsum (map g l) = Nbig l g.
Proof. induction l as [|x l IH]; [reflexivity|]. unfold lsum in *. simpl. now rewrite IH. Qed.

Lemma Nbig_scale {A} (l : list A) k (g : A -> nat) : Nbig l (fun x => k * g x) = k * Nbig l g.
Proof. induction l as [|x l IH]; [simpl; lia|]. rewrite !big_cons, IH. lia. Qed.

Lemma Nbig_trim (g : nat -> nat) a b : a <= b -> (forall i, a <= i < b -> g i = 0) ->
  Nbig (seq 0 b) g = Nbig (seq 0 a) g.
Proof. intros Hab Hz. replace b with (a + (b - a)) by lia. rewrite seq_app, (big_app nat Nat.add 0 Na N0).
  rewrite (big_e nat Nat.add 0 N0 (seq (0 + a) (b - a))); [lia|]. intros i Hi. apply in_seq in Hi. apply Hz. lia. Qed.

(** Vandermonde for two populations, in the form the induction over populations needs *)
Lemma vander2 n m t :
  Nbig (seq 0 (S n)) (fun i => if Nat.leb i t then binomN n i * binomN m (t - i) else 0) = binomN (n + m) t.
Proof. rewrite <- (PopOpsVander.vandermonde_list n m t), lsum_big.
  set (h := fun i => if Nat.leb i t then (if Nat.leb i n then binomN n i * binomN m (t - i) else 0) else 0).
  transitivity (Nbig (seq 0 (S (Nat.max n t))) h).
  - rewrite (Nbig_trim h (S n) (S (Nat.max n t))); [|lia|].
    + apply big_ext. intros i Hi. apply in_seq in Hi. unfold h.
      replace (Nat.leb i n) with true by (symmetry; apply Nat.leb_le; lia). reflexivity.
    + intros i Hi. unfold h. replace (Nat.leb i n) with false by (symmetry; apply Nat.leb_gt; lia).
      now destruct (Nat.leb i t).
  - rewrite (Nbig_trim h (S t) (S (Nat.max n t))); [|lia|].
    + apply big_ext. intros i Hi. apply in_seq in Hi. unfold h.
      replace (Nat.leb i t) with true by (symmetry; apply Nat.leb_le; lia).
      destruct (Nat.leb i n) eqn:E; auto. apply Nat.leb_gt in E. rewrite binomN_gt by lia. reflexivity.
    + intros i Hi. unfold h. replace (Nat.leb i t) with false by (symmetry; apply Nat.leb_gt; lia). reflexivity. Qed.

(** product of the per-population binomials C(n_i, c_i) *)
Definition prodC (shape : list nat) (c : idx) : nat :=
  fold_right Nat.mul 1 (map (fun p => binomN (pred (fst p)) (snd p)) (combine shape c)).

(** multivariate Vandermonde: sum over all count vectors with t derived alleles in total *)
Lemma mvander shape : Forall (fun s => 1 <= s) shape -> forall t,
  Nbig (indices shape) (fun c => if Nat.eqb (isum c) t then prodC shape c else 0) = binomN (nsamp shape) t.
Proof. induction 1 as [|s shape Hs Hall IH]; intros t.
  - simpl. destruct t; reflexivity.
  - simpl indices. rewrite (big_flat_map nat Nat.add 0 Na N0).
    transitivity (Nbig (seq 0 s) (fun i => if Nat.leb i t then binomN (pred s) i * binomN (nsamp shape) (t - i) else 0)).
    + apply big_ext. intros i _. rewrite (big_map nat Nat.add 0).
      destruct (Nat.leb i t) eqn:E.
      * apply Nat.leb_le in E. rewrite <- IH, <- Nbig_scale. apply big_ext. intros c _.
        unfold prodC. simpl.
        replace (Nat.eqb (i + isum c) t) with (Nat.eqb (isum c) (t - i)).
        -- destruct (Nat.eqb (isum c) (t - i)); lia.
        -- destruct (Nat.eqb (isum c) (t - i)) eqn:E1, (Nat.eqb (i + isum c) t) eqn:E2; auto.
           ++ apply Nat.eqb_eq in E1. apply Nat.eqb_neq in E2. lia.
           ++ apply Nat.eqb_neq in E1. apply Nat.eqb_eq in E2. lia.
      * apply Nat.leb_gt in E. apply (big_e nat Nat.add 0 N0). intros c _. simpl.
        replace (Nat.eqb (i + isum c) t) with false by (symmetry; apply Nat.eqb_neq; lia). reflexivity.
    + replace s with (S (pred s)) at 1 by lia. rewrite vander2. unfold nsamp. simpl. reflexivity. Qed.

(** ** over the reals *)
Local Open Scope R_scope.

Lemma INR_Nbig {A} (l : list A) (g : A -> nat) : INR (Nbig l g) = big Rplus 0 l (fun x => INR (g x)).
Proof. induction l as [|x l IH]; [reflexivity|]. rewrite !big_cons, plus_INR, IH. reflexivity. Qed.

Lemma prodZ_prodC shape c :
  fold_right Z.mul 1%Z (map (fun p => binomZ (pred (fst p)) (snd p)) (combine shape c)) = Z.of_nat (prodC shape c).
Proof. unfold prodC. induction (combine shape c) as [|p l IH]; [reflexivity|]. simpl.
  now rewrite IH, binomZ_N, Nat2Z.inj_mul. Qed.

Lemma deal_prob_R shape c :
  deal_prob shape c = INR (prodC shape c) / INR (binomN (nsamp shape) (isum c)).
Proof. unfold deal_prob. rewrite prodZ_prodC, binomZ_N. simpl. now rewrite <- !INR_IZR_INZ. Qed.

(** the dealing probabilities of all count vectors with the same total add up to one *)
Lemma deal_prob_sums_to_one shape t :
  Forall (fun s => (1 <= s)%nat) shape -> (t <= nsamp shape)%nat ->
  big Rplus 0 (indices shape) (fun c => if Nat.eqb (isum c) t then deal_prob shape c else 0) = 1.
Proof. intros Hs Ht.
  assert (Hpos : INR (binomN (nsamp shape) t) <> 0).
  { apply not_0_INR. assert (H := binomN_pos (nsamp shape) t Ht). lia. }
  transitivity (big Rplus 0 (indices shape)
                    (fun c => INR (if Nat.eqb (isum c) t then prodC shape c else 0%nat) * / INR (binomN (nsamp shape) t))).
  - apply big_ext. intros c _. destruct (Nat.eqb (isum c) t) eqn:E.
    + apply Nat.eqb_eq in E. rewrite deal_prob_R, E. reflexivity.
    + simpl. ring.
  - assert (G : forall (l : list idx) (g : idx -> R) k, big Rplus 0 l (fun c => g c * k) = big Rplus 0 l g * k).
    { intros l g k. induction l as [|x l IH]; [simpl; ring|]. rewrite !big_cons, IH. ring. }
    rewrite G, <- INR_Nbig, mvander by auto. now field. Qed.

(** ** scramble_pop_ids *)
Lemma pooled_spec (a : spec R) t : (t <= nsamp (sh a))%nat ->
  pooled a [t] = fiber_sum (sh a) (fun I => [isum I]) (va a) [t].
Proof. intros Ht. unfold pooled. rewrite lookup_tabulate.
  - change (@nadd R NumR) with Rplus. rewrite (scatter_spec R Rplus 0 Rp_assoc Rp_comm Rp_0_l), fiber_sum_big. simpl. ring.
  - constructor; [lia|constructor]. Qed.

(** every entry is the pooled one-population spectrum at its total count times the dealing probability *)
Theorem scramble_spec (a : spec R) mc :
  let o := scramble_unfolded mc a in
  sh o = sh a /\ ids o = None /\ fo o = false /\
  forall c, inr (sh a) c ->
    va o c = deal_prob (sh a) c * fiber_sum (sh a) (fun I => [isum I]) (va a) [isum c] /\
    mk o c = (mc && is_corner (sh a) c).
Proof. simpl. split; [reflexivity|]. split; [reflexivity|]. split; [reflexivity|]. intros c Hc. split.
  - f_equal. apply pooled_spec. now apply isum_le_nsamp.
  - now destruct mc. Qed.

Theorem scramble_unfolded_case (a : spec R) mc : fo a = false -> scramble_pop_ids mc a = scramble_unfolded mc a.
Proof. intros H. unfold scramble_pop_ids. now rewrite H. Qed.
Theorem scramble_folded_case (a : spec R) mc :
  fo a = true -> scramble_pop_ids mc a = fold (scramble_unfolded mc (unfold a)).
Proof. intros H. unfold scramble_pop_ids. now rewrite H. Qed.

Theorem scramble_conserves_total (a : spec R) mc :
  Forall (fun s => (1 <= s)%nat) (sh a) -> total (scramble_unfolded mc a) = total a.
Proof. intros Hs. rewrite !total_big. simpl sh.
  transitivity (big Rplus 0 (indices (sh a)) (fun c => big Rplus 0 (indices (sh a))
                   (fun I => if Nat.eqb (isum c) (isum I) then deal_prob (sh a) c * va a I else 0))).
  - apply big_ext. intros c Hc. apply in_indices in Hc. simpl.
    rewrite pooled_spec by now apply isum_le_nsamp. rewrite fiber_sum_big.
    assert (G : forall (l : list idx) (g : idx -> R) k, big Rplus 0 l (fun I => k * g I) = k * big Rplus 0 l g).
    { intros l g k. induction l as [|x l IH]; [simpl; ring|]. rewrite !big_cons, IH. ring. }
    rewrite <- G. apply big_ext. intros I _. simpl. rewrite andb_true_r, Nat.eqb_sym.
    destruct (Nat.eqb (isum c) (isum I)); ring.
  - rewrite (big_swap R Rplus 0 Rp_assoc Rp_comm Rp_0_l). apply big_ext. intros I HI. apply in_indices in HI.
    transitivity (va a I * big Rplus 0 (indices (sh a)) (fun c => if Nat.eqb (isum c) (isum I) then deal_prob (sh a) c else 0)).
    + assert (G : forall (l : list idx) (g : idx -> R) k, big Rplus 0 l (fun c => k * g c) = k * big Rplus 0 l g).
      { intros l g k. induction l as [|x l IH]; [simpl; ring|]. rewrite !big_cons, IH. ring. }
      rewrite <- G. apply big_ext. intros c _. destruct (Nat.eqb (isum c) (isum I)); ring.
    + rewrite deal_prob_sums_to_one; auto; [ring|]. now apply isum_le_nsamp. Qed.
