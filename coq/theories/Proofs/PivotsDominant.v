(** A second sufficient condition for "no pivot vanishes", valid for EVERY parameter set (any advection, any delj
    setting, any grid): row diagonal dominance.  Since only the diagonal carries 1/dt, every line of every kernel is
    row-dominant as soon as dt is below an explicit line-dependent bound, so the Thomas elimination of the implicit
    step never divides by zero for small enough time steps — without the cell-Peclet condition of Pivots.v. *)
From Coq Require Import Reals List Lra Lia Arith Bool.
From Dadi Require Import Base.Num Base.NumR Model.Tridiag Model.Scheme Proofs.TridiagProofs Proofs.SchemeProofs.
Import ListNotations.
Local Open Scope R_scope.

Fixpoint rowdom (rows : list (@row R)) : Prop :=
  match rows with
  | [] => True
  | (a, b, c, r) :: t => Rabs a + Rabs c < Rabs b /\ rowdom t
  end.

Lemma Rabs_div_lt_1 x y : Rabs x < Rabs y -> Rabs (x / y) < 1.
Proof.
  intros H. assert (Hy : 0 < Rabs y) by (pose proof (Rabs_pos x); lra).
  assert (Hy0 : y <> 0) by (intros E; rewrite E, Rabs_R0 in Hy; lra).
  unfold Rdiv. rewrite Rabs_mult, Rabs_inv.
  apply Rmult_lt_reg_r with (Rabs y); [exact Hy|].
  rewrite Rmult_assoc, Rinv_l by lra. lra.
Qed.

Lemma pivots_dominant : forall rows bet cprev, Rabs cprev < Rabs bet -> rowdom rows -> nonzero (pivots bet cprev rows).
Proof.
  induction rows as [|[[[a b] c] r] t IH]; intros bet cprev Hinv Hdom; [exact I|].
  cbn [pivots]. numR. destruct Hdom as [Hrow Ht].
  set (g := cprev / bet). assert (Hg : Rabs g < 1) by (apply Rabs_div_lt_1; exact Hinv).
  assert (Hag : Rabs (a * g) <= Rabs a).
  { rewrite Rabs_mult. pose proof (Rabs_pos a). nra. }
  assert (Hb' : Rabs c < Rabs (b - a * g)).
  { pose proof (Rabs_triang_inv b (a * g)). pose proof (Rabs_pos c). lra. }
  cbn [nonzero]. split.
  - intros E. rewrite E, Rabs_R0 in Hb'. pose proof (Rabs_pos c). lra.
  - apply IH; assumption.
Qed.

Theorem all_pivots_dominant : forall rows, rowdom rows -> nonzero (all_pivots rows).
Proof.
  intros [|[[[a0 b0] c0] r0] t] Hdom; [exact I|].
  cbn [all_pivots nonzero]. destruct Hdom as [Hrow Ht].
  pose proof (Rabs_pos a0). pose proof (Rabs_pos c0). split.
  - intros E. rewrite E, Rabs_R0 in Hrow. lra.
  - apply pivots_dominant; [lra | exact Ht].
Qed.

Lemma rowdom_map (f : nat -> @row R) : forall m s,
  (forall i, (s <= i < s + m)%nat -> let '(a, b, c, r) := f i in Rabs a + Rabs c < Rabs b) ->
  rowdom (map f (seq s m)).
Proof.
  induction m as [|m IH]; intros s H; [exact I|].
  cbn [seq map rowdom]. pose proof (H s ltac:(lia)) as Hs. destruct (f s) as [[[a b] c] r].
  split; [exact Hs|]. apply IH. intros i Hi. apply H. lia.
Qed.

Section SchemeInstance.
  Variable xs : list R.
  Variable Vf Mf : R -> R.
  Variable nu : R.
  Variable c0 c1 : bool.
  Variable use_delj : bool.
  Notation N := (length xs).
  Hypothesis HN : (2 <= N)%nat.

  (** off-diagonal plus dt-free diagonal part of row i: none of these depends on dt *)
  Definition row_load (i : nat) : R :=
    Rabs (coef_a xs Vf Mf use_delj i) + Rabs (coef_c xs Vf Mf use_delj i) + Rabs (coef_b0 xs Vf Mf nu c0 c1 use_delj i).

  Theorem line_pivots_nonzero_small_dt (dt : R) (phi : list R) :
    0 < dt -> (forall i, (i < N)%nat -> row_load i < 1 / dt) ->
    nonzero (all_pivots (line_rows xs Vf Mf nu c0 c1 dt use_delj phi)).
  Proof.
    intros Hdt Hload. rewrite line_rows_eq_spec by exact HN. unfold line_rows_spec. fold (Scheme.N xs). unfold Scheme.N.
    apply all_pivots_dominant. apply rowdom_map. intros i Hi. cbv beta iota.
    pose proof (Hload i ltac:(lia)) as Hl. unfold row_load in Hl. unfold coef_b. numR.
    set (b0 := coef_b0 xs Vf Mf nu c0 c1 use_delj i) in *.
    assert (Hpos : 0 < 1 / dt) by (apply Rdiv_lt_0_compat; lra).
    pose proof (Rabs_triang_inv (1 / dt) (- b0)) as Htri. rewrite Rabs_Ropp in Htri.
    replace (1 / dt - - b0) with (1 / dt + b0) in Htri by ring.
    rewrite (Rabs_pos_eq (1 / dt)) in Htri by lra.
    pose proof (Rabs_pos (coef_a xs Vf Mf use_delj i)). pose proof (Rabs_pos (coef_c xs Vf Mf use_delj i)). lra.
  Qed.

  (** an explicit admissible bound: dt0 = 1 / (1 + sum of the row loads) *)
  Definition load_sum : R := fold_right Rplus 0 (map row_load (seq 0 N)).
  Lemma row_load_nonneg i : 0 <= row_load i.
  Proof. unfold row_load. pose proof (Rabs_pos (coef_a xs Vf Mf use_delj i)). pose proof (Rabs_pos (coef_c xs Vf Mf use_delj i)).
    pose proof (Rabs_pos (coef_b0 xs Vf Mf nu c0 c1 use_delj i)). lra. Qed.
  Lemma row_load_le_sum : forall m s i, (s <= i < s + m)%nat -> row_load i <= fold_right Rplus 0 (map row_load (seq s m)).
  Proof.
    induction m as [|m IH]; intros s i Hi; [lia|]. cbn [seq map fold_right].
    assert (Hrest : 0 <= fold_right Rplus 0 (map row_load (seq (S s) m))).
    { clear. generalize (S s). induction m as [|m IHm]; intros t; cbn [seq map fold_right]; [lra|].
      pose proof (row_load_nonneg t). pose proof (IHm (S t)). lra. }
    destruct (Nat.eq_dec i s) as [->|Hne]; [lra|].
    pose proof (IH (S s) i ltac:(lia)). pose proof (row_load_nonneg s). lra.
  Qed.

  Theorem line_pivots_nonzero_below_dt0 (dt : R) (phi : list R) :
    0 < dt -> dt < 1 / (1 + load_sum) ->
    nonzero (all_pivots (line_rows xs Vf Mf nu c0 c1 dt use_delj phi)).
  Proof.
    intros Hdt Hlt. apply line_pivots_nonzero_small_dt; [exact Hdt|]. intros i Hi.
    pose proof (row_load_le_sum N 0 i ltac:(lia)) as Hle. fold load_sum in Hle.
    assert (Hs : 0 <= load_sum).
    { pose proof (row_load_nonneg i). lra. }
    assert (H1 : 1 + load_sum < 1 / dt).
    { apply Rmult_lt_reg_r with dt; [exact Hdt|]. unfold Rdiv. rewrite Rmult_1_l, Rinv_l by lra.
      apply Rmult_lt_reg_r with (/ (1 + load_sum)); [apply Rinv_0_lt_compat; lra|].
      rewrite Rmult_assoc, (Rmult_comm dt), <- Rmult_assoc, Rinv_r, Rmult_1_l by lra. unfold Rdiv in Hlt. lra. }
    lra.
  Qed.
End SchemeInstance.
