(** * GodambeNested: LRT_adjust / Wald_stat / score_stat with a proper subset of nested parameters.

    Godambe.py differentiates diff_func(q) = func_ex(p0 with p0[nested_indices] = q) at q = p0[nested_indices]; for a model
    linear in its parameters (multinom=False) that is the Poisson log-likelihood of the affine mean of GodambeAffine.v.
    [nested_godambe_HJc_within_eps2] (entrywise eps^2 bounds on H, J, cU against the idx-sub-blocks of the full closed
    forms) is composed here with the matrix stage: oracle form (MatLists.Oracle: stage_LRT / stage_Wald / stage_score) and
    model form (GodambeModelStats: mat_inv_v with its certificate).  m = number of nested parameters, any subset, any order
    (idx: NoDup, in range). *)
From Coq Require Import ZArith Reals List Lra Lia Arith Bool.
From Coquelicot Require Import Coquelicot.
From Dadi Require Import Base.Num Base.NumR Model.Godambe Proofs.GodambeProofs Proofs.GodambePoisson Proofs.GodambeLnBounds
                         Proofs.GodambeRemainder Proofs.MatPerturb Proofs.MatNeumann Proofs.MatStats Proofs.MatLists
                         Proofs.GodambeInverse Proofs.GodambeModelStats Proofs.GodambeAffine.
Import ListNotations.
Local Open Scope R_scope.

(** ** closed forms of the nested statistics: the idx-sub-blocks of the full closed forms at P *)
Definition nest_H_mat (Bs : list (list R)) (data : @pdata R) (P : list R) (idx : list nat) : list (list R) :=
  map (fun i => map (fun j => - pois_hess Bs data P (nth i idx 0%nat) (nth j idx 0%nat)) (seq 0 (length idx))) (seq 0 (length idx)).
Definition nest_J_mat (Bs : list (list R)) (P : list R) (idx : list nat) (boots : list (@pdata R)) : list (list R) :=
  J_mat (length idx) (nest_grads Bs P idx boots).
Definition nest_cU_vec (Bs : list (list R)) (P : list R) (idx : list nat) (boots : list (@pdata R)) : list R :=
  cU_vec (length idx) (nest_grads Bs P idx boots).

Definition CH_nest (rho : R) (Bs : list (list R)) (data : @pdata R) (P : list R) (idx : list nat) : R :=
  rsum (length idx) (fun i => rsum (length idx) (fun j =>
    40 * (rho * rho) * pois_abs_hess Bs data P (nth i idx 0%nat) (nth j idx 0%nat))).
Definition CJ_nest (rho : R) (Bs : list (list R)) (P : list R) (idx : list nat) (boots : list (@pdata R)) : R :=
  rsum (length idx) (fun i => rsum (length idx) (fun j =>
    nsum (map (J_const rho Bs P (nth i idx 0%nat) (nth j idx 0%nat)) boots) / IZR (Z.of_nat (length boots)))).
Definition Cc_nest (rho : R) (Bs : list (list R)) (P : list R) (idx : list nat) (boots : list (@pdata R)) : R :=
  rsum (length idx) (fun i => nsum (map (grad_const rho Bs P (nth i idx 0%nat)) boots) / IZR (Z.of_nat (length boots))).

(** the nested closed-form Hessian is [sub_mat idx] of the full closed-form Hessian *)
Lemma map_seq_nth {B} (F : nat -> B) (idx : list nat) : map (fun k => F (nth k idx 0%nat)) (seq 0 (length idx)) = map F idx.
Proof.
  induction idx as [|a l IH]; [reflexivity|]. cbn [length seq map nth]. f_equal.
  rewrite <- seq_shift, map_map. exact IH.
Qed.

Lemma nest_H_mat_sub_block (Bs : list (list R)) (data : @pdata R) (P : list R) (idx : list nat) N :
  (forall i, In i idx -> (i < N)%nat) -> nest_H_mat Bs data P idx = sub_mat idx (pois_H_mat N Bs data P).
Proof.
  intros Hr. unfold nest_H_mat, sub_mat, select.
  rewrite (map_seq_nth (fun I => map (fun j => - pois_hess Bs data P I (nth j idx 0%nat)) (seq 0 (length idx))) idx).
  apply map_ext_in. intros I HI.
  rewrite (map_seq_nth (fun J => - pois_hess Bs data P I J) idx).
  apply map_ext_in. intros J HJ. numR.
  symmetry. apply (ent_map_seq N (fun i j => - pois_hess Bs data P i j) I J); apply Hr; assumption.
Qed.

(** ** (H, J, cU) of get_godambe on diff_func: well-formed and within C eps^2 (entry-sum norms) of the closed forms *)
Lemma nest_close n (Bs : list (list R)) (full : list R) (idx : list nat) (q : list R) (rho : R)
      (data : @pdata R) (boots : list (@pdata R)) eps :
  length idx = n ->
  NoDup idx -> (forall i, In i idx -> (i < length full)%nat) -> length q = length idx ->
  0 < pd_adj data -> List.Forall (fun bt => 0 < pd_adj bt) boots ->
  List.Forall (fun b => 0 < ndot (embed full idx q) b) Bs -> 0 < rho -> share_bound Bs (embed full idx q) rho -> boots <> [] ->
  0 < eps -> eps <= / (8 * rho) -> eps <= 1 ->
  (forall k, (k < length q)%nat -> nth k q 0 <> 0 /\ Rtiny <= nth k q 0 * eps) ->
  let P := embed full idx q in
  let HJc := godambe_HJc (fun bt => pois_ll (model_mean Bs false (Some (full, idx))) bt) q eps data boots in
  (wf n (fst (fst HJc)) /\ wf n (nest_H_mat Bs data P idx) /\ wf n (snd (fst HJc)) /\ wf n (nest_J_mat Bs P idx boots) /\
   length (snd HJc) = n /\ length (nest_cU_vec Bs P idx boots) = n) /\
  (mnorm n (msub (ent (fst (fst HJc))) (ent (nest_H_mat Bs data P idx))) <= CH_nest rho Bs data P idx * (eps * eps) /\
   mnorm n (msub (ent (snd (fst HJc))) (ent (nest_J_mat Bs P idx boots))) <= CJ_nest rho Bs P idx boots * (eps * eps) /\
   vnorm n (fun i => vec (snd HJc) i - vec (nest_cU_vec Bs P idx boots) i) <= Cc_nest rho Bs P idx boots * (eps * eps)) /\
  (0 <= CH_nest rho Bs data P idx /\ 0 <= CJ_nest rho Bs P idx boots /\ 0 <= Cc_nest rho Bs P idx boots).
Proof.
  intros Hn ND Hr Hl Hadj Hadjs Hm Hrho Hsh Hne He Hle He1 Hcen P HJc. subst n.
  pose proof (nested_godambe_HJc_within_eps2 Bs full idx q rho data boots eps ND Hr Hl Hadj Hadjs Hm Hrho Hsh Hne He Hle He1 Hcen) as HB.
  cbv zeta in HB. fold P in HB. fold HJc in HB.
  assert (wH' : wf (length idx) (fst (fst HJc))).
  { unfold HJc, godambe_HJc, get_hess. cbn [fst snd]. rewrite Hl. split.
    - rewrite !map_length, seq_length. reflexivity.
    - intros r Hr0. apply in_map_iff in Hr0. destruct Hr0 as [r0 [<- Hr0]].
      apply in_map_iff in Hr0. destruct Hr0 as [i [<- _]]. rewrite !map_length, seq_length. reflexivity. }
  assert (wHc : wf (length idx) (nest_H_mat Bs data P idx)) by (unfold nest_H_mat; apply wf_map_seq).
  assert (wJ' : wf (length idx) (snd (fst HJc))).
  { unfold HJc, godambe_HJc, J_mat. cbn [fst snd]. rewrite Hl. apply wf_map_seq. }
  assert (wJc : wf (length idx) (nest_J_mat Bs P idx boots)) by (unfold nest_J_mat, J_mat; apply wf_map_seq).
  assert (lU' : length (snd HJc) = length idx).
  { unfold HJc, godambe_HJc, cU_vec. cbn [fst snd]. rewrite map_length, seq_length. exact Hl. }
  assert (lUc : length (nest_cU_vec Bs P idx boots) = length idx).
  { unfold nest_cU_vec, cU_vec. rewrite map_length, seq_length. reflexivity. }
  assert (HbH : mnorm (length idx) (msub (ent (fst (fst HJc))) (ent (nest_H_mat Bs data P idx)))
                <= CH_nest rho Bs data P idx * (eps * eps)).
  { unfold CH_nest. rewrite <- rsum_scal_r.
    rewrite (rsum_ext (length idx) (fun i => rsum _ _ * (eps * eps))
               (fun i => rsum (length idx) (fun j => 40 * (rho * rho) * pois_abs_hess Bs data P (nth i idx 0%nat) (nth j idx 0%nat) * (eps * eps))))
      by (intros i _; symmetry; apply rsum_scal_r).
    apply mnorm_le_entries. intros i j Hi Hj. unfold msub, nest_H_mat. rewrite ent_map_seq by assumption.
    exact (proj1 (HB i j Hi Hj)). }
  assert (HbJ : mnorm (length idx) (msub (ent (snd (fst HJc))) (ent (nest_J_mat Bs P idx boots)))
                <= CJ_nest rho Bs P idx boots * (eps * eps)).
  { unfold CJ_nest. rewrite <- rsum_scal_r.
    rewrite (rsum_ext (length idx) (fun i => rsum _ _ * (eps * eps))
               (fun i => rsum (length idx) (fun j => nsum (map (J_const rho Bs P (nth i idx 0%nat) (nth j idx 0%nat)) boots)
                                                     / IZR (Z.of_nat (length boots)) * (eps * eps))))
      by (intros i _; symmetry; apply rsum_scal_r).
    apply mnorm_le_entries. intros i j Hi Hj. unfold msub, nest_J_mat, J_mat. rewrite ent_map_seq by assumption.
    exact (proj1 (proj2 (HB i j Hi Hj))). }
  assert (HbU : vnorm (length idx) (fun i => vec (snd HJc) i - vec (nest_cU_vec Bs P idx boots) i)
                <= Cc_nest rho Bs P idx boots * (eps * eps)).
  { unfold Cc_nest. rewrite <- rsum_scal_r. apply vnorm_le_entries. intros i Hi.
    unfold vec, nest_cU_vec, cU_vec. rewrite (nth_map_seq _ _ _ _ Hi).
    exact (proj2 (proj2 (HB i i Hi Hi))). }
  assert (He2 : 0 < eps * eps) by (apply Rmult_lt_0_compat; assumption).
  split; [repeat split; try assumption; try apply wH'; try apply wHc; try apply wJ'; try apply wJc|].
  split; [split; [exact HbH|split; [exact HbJ|exact HbU]]|].
  split; [|split].
  - apply (nonneg_from_bound _ _ (eps * eps) (mnorm_nonneg _ _) HbH He2).
  - apply (nonneg_from_bound _ _ (eps * eps) (mnorm_nonneg _ _) HbJ He2).
  - apply (nonneg_from_bound _ _ (eps * eps) (vnorm_nonneg _ _) HbU He2).
Qed.

(** ** oracle form *)
Section Oracle.
  Variable n : nat.
  Variable inv : list (list R) -> list (list R).
  Hypothesis inv_spec : forall M, wf n M -> invertible n M -> wf n (inv M) /\ is_inv n (ent M) (ent (inv M)).

  (** [full] = the caller's p0 (all parameters), [idx] = nested_indices, [q] = the point at which diff_func is differentiated
      (Godambe.py: q = p0[nested_indices], then P = p0 ++ [1]); n = len(nested_indices) *)
  Theorem poisson_nested_LRT_Wald_score_within_eps2
    (Bs : list (list R)) (full : list R) (idx : list nat) (q : list R) (rho : R) (data : @pdata R) (boots : list (@pdata R)) (eps : R) :
    length idx = n ->
    NoDup idx -> (forall i, In i idx -> (i < length full)%nat) -> length q = length idx ->
    0 < pd_adj data -> List.Forall (fun bt => 0 < pd_adj bt) boots ->
    List.Forall (fun b => 0 < ndot (embed full idx q) b) Bs -> 0 < rho -> share_bound Bs (embed full idx q) rho -> boots <> [] ->
    0 < eps -> eps <= / (8 * rho) -> eps <= 1 ->
    (forall k, (k < length q)%nat -> nth k q 0 <> 0 /\ Rtiny <= nth k q 0 * eps) ->
    let P := embed full idx q in
    let HJc := godambe_HJc (fun bt => pois_ll (model_mean Bs false (Some (full, idx))) bt) q eps data boots in
    let H' := fst (fst HJc) in let J' := snd (fst HJc) in let cU' := snd HJc in
    let Hc := nest_H_mat Bs data P idx in let Jc := nest_J_mat Bs P idx boots in let cUc := nest_cU_vec Bs P idx boots in
    let CH := CH_nest rho Bs data P idx in let CJ := CJ_nest rho Bs P idx boots in let Cc := Cc_nest rho Bs P idx boots in
    (* LRT_adjust *)
    (forall k : R,
     invertible n Hc -> mnorm n (ent (inv Hc)) * (CH * (eps * eps)) <= 1 / 2 ->
     trace (mat_mul Jc (inv Hc)) <> 0 ->
     KT (mnorm n (ent (inv Hc))) (mnorm n (ent Jc)) CH CJ * (eps * eps) <= Rabs (trace (mat_mul Jc (inv Hc))) / 2 ->
     invertible n H' /\ trace (mat_mul J' (inv H')) <> 0 /\
     Rabs (k / trace (mat_mul J' (inv H')) - k / trace (mat_mul Jc (inv Hc)))
     <= 2 * Rabs k * KT (mnorm n (ent (inv Hc))) (mnorm n (ent Jc)) CH CJ
        / (trace (mat_mul Jc (inv Hc)) * trace (mat_mul Jc (inv Hc))) * (eps * eps)) /\
    (* Wald_stat: original and adjusted *)
    (forall d : list R, length d = n ->
     Rabs (qform H' d - qform Hc d) <= vnorm n (vec d) * vnorm n (vec d) * CH * (eps * eps) /\
     (invertible n Jc -> mnorm n (ent (inv Jc)) * (CJ * (eps * eps)) <= 1 / 2 ->
      Rabs (qform (gim_of inv H' J') d - qform (gim_of inv Hc Jc) d)
      <= vnorm n (vec d) * vnorm n (vec d) * KG (mnorm n (ent Hc)) (mnorm n (ent (inv Jc))) CH CJ * (eps * eps))) /\
    (* score_stat: adjusted and original *)
    (invertible n Jc -> mnorm n (ent (inv Jc)) * (CJ * (eps * eps)) <= 1 / 2 ->
     invertible n J' /\
     Rabs (qform (inv J') cU' - qform (inv Jc) cUc) <= KG (vnorm n (vec cUc)) (mnorm n (ent (inv Jc))) Cc CJ * (eps * eps)) /\
    (invertible n Hc -> mnorm n (ent (inv Hc)) * (CH * (eps * eps)) <= 1 / 2 ->
     invertible n H' /\
     Rabs (qform (inv H') cU' - qform (inv Hc) cUc) <= KG (vnorm n (vec cUc)) (mnorm n (ent (inv Hc))) Cc CH * (eps * eps)).
  Proof.
    intros Hn ND Hr Hl Hadj Hadjs Hm Hrho Hsh Hne He Hle He1 Hcen P HJc H' J' cU' Hc Jc cUc CH CJ Cc.
    destruct (nest_close n Bs full idx q rho data boots eps Hn ND Hr Hl Hadj Hadjs Hm Hrho Hsh Hne He Hle He1 Hcen)
      as [[wH' [wHc [wJ' [wJc [lU' lUc]]]]] [[HbH [HbJ HbU]] [HCH [HCJ HCc]]]].
    destruct (eps2_range eps He He1) as [_ Hrg].
    split; [|split].
    - intros k. exact (stage_LRT n inv inv_spec Hc H' Jc J' _ _ _ wHc wH' wJc wJ' HbH HbJ Hrg HCJ k).
    - intros d Hd. exact (stage_Wald n inv inv_spec Hc H' Jc J' _ _ _ wHc wH' wJc wJ' HbH HbJ Hrg HCH HCJ d Hd).
    - exact (stage_score n inv inv_spec Hc H' Jc J' cUc cU' _ _ _ _ wHc wH' wJc wJ' lUc lU' HbH HbJ HbU Hrg HCH HCJ HCc).
  Qed.
End Oracle.

(** ** model form: the model's own lrt_adjust / wald_stat / score_stat (mat_inv_v with its certificate), no oracle *)
Theorem poisson_nested_model_LRT_Wald_score_within_eps2
  (Bs : list (list R)) (full : list R) (idx : list nat) (q : list R) (rho : R) (data : @pdata R) (boots : list (@pdata R)) (eps : R) :
  NoDup idx -> (forall i, In i idx -> (i < length full)%nat) -> length q = length idx ->
  0 < pd_adj data -> List.Forall (fun bt => 0 < pd_adj bt) boots ->
  List.Forall (fun b => 0 < ndot (embed full idx q) b) Bs -> 0 < rho -> share_bound Bs (embed full idx q) rho -> boots <> [] ->
  0 < eps -> eps <= / (8 * rho) -> eps <= 1 ->
  (forall k, (k < length q)%nat -> nth k q 0 <> 0 /\ Rtiny <= nth k q 0 * eps) ->
  let n := length idx in
  let P := embed full idx q in
  let HJc := godambe_HJc (fun bt => pois_ll (model_mean Bs false (Some (full, idx))) bt) q eps data boots in
  let H' := fst (fst HJc) in let J' := snd (fst HJc) in let cU' := snd HJc in
  let Hc := nest_H_mat Bs data P idx in let Jc := nest_J_mat Bs P idx boots in let cUc := nest_cU_vec Bs P idx boots in
  let CH := CH_nest rho Bs data P idx in let CJ := CJ_nest rho Bs P idx boots in let Cc := Cc_nest rho Bs P idx boots in
  forall Hi Hi' Ji Ji',
  mat_inv_v Hc = Some Hi -> mat_inv_v H' = Some Hi' -> mat_inv_v Jc = Some Ji -> mat_inv_v J' = Some Ji' ->
  mnorm n (ent Hi) * (CH * (eps * eps)) <= 1 / 2 -> mnorm n (ent Ji) * (CJ * (eps * eps)) <= 1 / 2 ->
  (let t := trace (mat_mul Jc Hi) in let KLRT := KT (mnorm n (ent Hi)) (mnorm n (ent Jc)) CH CJ in
   t <> 0 -> KLRT * (eps * eps) <= Rabs t / 2 ->
   exists a a', lrt_adjust Hc Jc = Some a /\ lrt_adjust H' J' = Some a' /\
     Rabs (a' - a) <= 2 * Rabs (IZR (Z.of_nat n)) * KLRT / (t * t) * (eps * eps)) /\
  (forall d : list R, length d = n ->
   exists w w', wald_stat Hc Jc d = Some w /\ wald_stat H' J' d = Some w' /\
     Rabs (fst w' - fst w) <= vnorm n (vec d) * vnorm n (vec d) * KG (mnorm n (ent Hc)) (mnorm n (ent Ji)) CH CJ * (eps * eps) /\
     Rabs (snd w' - snd w) <= vnorm n (vec d) * vnorm n (vec d) * CH * (eps * eps)) /\
  (exists s s', score_stat Hc Jc cUc = Some s /\ score_stat H' J' cU' = Some s' /\
     Rabs (fst s' - fst s) <= KG (vnorm n (vec cUc)) (mnorm n (ent Ji)) Cc CJ * (eps * eps) /\
     Rabs (snd s' - snd s) <= KG (vnorm n (vec cUc)) (mnorm n (ent Hi)) Cc CH * (eps * eps)).
Proof.
  intros ND Hr Hl Hadj Hadjs Hm Hrho Hsh Hne He Hle He1 Hcen n P HJc H' J' cU' Hc Jc cUc CH CJ Cc Hi Hi' Ji Ji' E E' F F' HhH HhJ.
  destruct (nest_close n Bs full idx q rho data boots eps eq_refl ND Hr Hl Hadj Hadjs Hm Hrho Hsh Hne He Hle He1 Hcen)
    as [[wH' [wHc [wJ' [wJc [lU' lUc]]]]] [[HbH [HbJ HbU]] [HCH [HCJ HCc]]]].
  destruct (eps2_range eps He He1) as [_ Hrg].
  split; [|split].
  - intros t KLRT Ht Hsm.
    destruct (model_LRT_within n Hc H' Jc J' CH CJ (eps * eps) (proj1 wHc) (proj1 wH') HbH HbJ Hrg HCJ Hi Hi' E E' wJc wJ' HhH Ht Hsm)
      as [a [a' [A [A' [_ B]]]]].
    exists a, a'. split; [exact A|]. split; [exact A'|exact B].
  - intros d Hd.
    exact (model_Wald_within n Hc H' Jc J' CH CJ (eps * eps) (proj1 wJc) (proj1 wJ') HbH HbJ Hrg HCH HCJ Ji Ji' d F F' wHc wH' Hd HhJ).
  - exact (model_score_within n Hc H' Jc J' cUc cU' CH CJ Cc (eps * eps) (proj1 wHc) (proj1 wH') (proj1 wJc) (proj1 wJ')
             lUc lU' HbH HbJ HbU Hrg HCH HCJ HCc Hi Hi' Ji Ji' E E' F F' HhJ HhH).
Qed.

(** ** non-vacuity: two parameters p0 = (1, 2), the second one nested (idx = [1]); one spectrum entry with B = (1, 1) and
       constant 1, so m(q) = 1 + q + 1 (affine in the nested parameter), m = 4 at q = 2; data d = 8, one bootstrap equal to
       the data, eps = 1/100, rho = 1, oracle [inv1].  Closed forms: H = (1/2), J = (1), trace(J inv H) = 2;
       CH = 20, CJ = 112/9, KT = 1888/9:  the LRT adjustment 1/trace(J' inv H') is within 11/1000 of 1/2. *)
Example poisson_nested_LRT_nonvacuous :
  let Bs := [[1; 1; 1]] in let dt := {| pd_adj := 1; pd_d := [8]; pd_g := [0] |} in
  let HJc := godambe_HJc (fun bt => pois_ll (model_mean Bs false (Some ([1; 2], [1%nat]))) bt) [2] (1 / 100) dt [dt] in
  trace (mat_mul (snd (fst HJc)) (inv1 (fst (fst HJc)))) <> 0 /\
  Rabs (1 / trace (mat_mul (snd (fst HJc)) (inv1 (fst (fst HJc)))) - 1 / 2) <= 11 / 1000.
Proof.
  intros Bs dt HJc.
  assert (EP : embed [1; 2] [1%nat] [2] = [1; 2; 1]) by reflexivity.
  assert (ND : NoDup [1%nat]) by (constructor; [intros []|constructor]).
  assert (Hr : forall i, In i [1%nat] -> (i < length [1; 2])%nat) by (intros i [<-|[]]; cbn; lia).
  assert (Hadj : 0 < pd_adj dt) by (cbn; lra).
  assert (Hadjs : List.Forall (fun bt => 0 < pd_adj bt) [dt]) by (apply Forall_cons; [exact Hadj|apply Forall_nil]).
  assert (Hm : List.Forall (fun b => 0 < ndot (embed [1; 2] [1%nat] [2]) b) Bs).
  { rewrite EP. unfold Bs. apply Forall_cons; [|apply Forall_nil]. unfold ndot, nsum; cbn; numR; lra. }
  assert (Hsh : share_bound Bs (embed [1; 2] [1%nat] [2]) 1).
  { rewrite EP. apply share_bound_nonneg. unfold Bs. apply Forall_cons; [|apply Forall_nil].
    intros k; destruct k as [|[|[|[|k]]]]; cbn [nth]; lra. }
  assert (Hcen : forall k, (k < length [2])%nat -> nth k [2] 0 <> 0 /\ Rtiny <= nth k [2] 0 * (1 / 100)).
  { intros k Hk. cbn [length] in Hk. assert (k = 0%nat) by lia. subst k. cbn [nth]. unfold Rtiny. split; lra. }
  assert (EH : pois_hess Bs dt [1; 2; 1] 1 1 = - (1 / 2)).
  { unfold pois_hess, Bs, dt, ndot, nsum. cbn. numR. field. }
  assert (EA : pois_abs_hess Bs dt [1; 2; 1] 1 1 = 1 / 2).
  { unfold pois_abs_hess, habs, Bs, dt, ndot, nsum. cbn. numR. rewrite !Rabs_right by lra. field. }
  assert (EG : pois_grad Bs dt [1; 2; 1] 1 = 1).
  { unfold pois_grad, Bs, dt, ndot, nsum. cbn. numR. field. }
  assert (EAG : pois_abs_grad Bs dt [1; 2; 1] 1 = 2).
  { unfold pois_abs_grad, gabs, Bs, dt, ndot, nsum. cbn. numR. rewrite !Rabs_right by lra. field. }
  assert (EHc : nest_H_mat Bs dt [1; 2; 1] [1%nat] = [[1 / 2]]).
  { unfold nest_H_mat. cbn [length seq map nth]. rewrite EH. repeat f_equal. lra. }
  assert (EJc : nest_J_mat Bs [1; 2; 1] [1%nat] [dt] = [[1]]).
  { unfold nest_J_mat, J_mat, J_entry, nest_grads, nofnat, nsum. cbn [length seq map nth fold_right]. rewrite EG. numR.
    repeat f_equal. cbn. field. }
  assert (ECH : CH_nest 1 Bs dt [1; 2; 1] [1%nat] = 20).
  { unfold CH_nest. cbn [length rsum nth]. rewrite EA. lra. }
  assert (ECJ : CJ_nest 1 Bs [1; 2; 1] [1%nat] [dt] = 112 / 9).
  { unfold CJ_nest, J_const, grad_const, nsum. cbn [length rsum nth map fold_right]. rewrite EG, EAG. numR.
    rewrite Rabs_right by lra. cbn. field. }
  assert (Ei : inv1 [[1 / 2]] = [[ / (1 / 2)]]) by reflexivity.
  assert (En : mnorm 1 (ent (inv1 [[1 / 2]])) = 2).
  { rewrite Ei. unfold mnorm. cbn [rsum ent nth]. rewrite Rabs_right by lra. field. }
  assert (EnJ : mnorm 1 (ent [[1]]) = 1).
  { unfold mnorm. cbn [rsum ent nth]. rewrite Rabs_right by lra. ring. }
  assert (Et : trace (mat_mul [[1]] (inv1 [[1 / 2]])) = 2).
  { rewrite Ei. unfold trace, mat_mul, ndot, col, nsum. cbn. numR. field. }
  assert (HI : invertible 1 [[1 / 2]]).
  { exists [[2]]. split; [split; [reflexivity|intros r [<-|[]]; reflexivity]|].
    split; apply meq1; rewrite mmul1; unfold mI, kron; cbn [ent nth Nat.eqb]; field. }
  pose proof (poisson_nested_LRT_Wald_score_within_eps2 1 inv1 inv1_spec Bs [1; 2] [1%nat] [2] 1 dt [dt] (1 / 100)
                eq_refl ND Hr eq_refl Hadj Hadjs Hm Rlt_0_1 Hsh ltac:(discriminate) ltac:(lra) ltac:(lra) ltac:(lra) Hcen) as T.
  cbv zeta in T. fold HJc in T. destruct T as [T _]. rewrite EP, EHc, EJc, ECH, ECJ in T.
  rewrite En, EnJ, Et in T.
  destruct (T 1 HI ltac:(lra)) as [_ [T1 T2]]; [lra|unfold KT; rewrite Rabs_right by lra; lra|].
  split; [exact T1|]. eapply Rle_trans; [exact T2|]. unfold KT. rewrite Rabs_R1. lra.
Qed.
