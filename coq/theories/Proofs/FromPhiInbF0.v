(** C05: the inbreeding path as F -> 0+.

    The sampling kernel of [_from_phi_{1..3}D_direct_inbreeding] is, per grid point, the beta-binomial
    convolution with alpha = a0 (1-F)/F, beta = b0 (1-F)/F, where (a0, b0) = (x, 1-x) at the interior grid
    points and (1e-20, 1), (1, 1e-20) at the first and last one (the code overwrites the two ends).
    - For 0 < F < 1 every beta-binomial weight IS the rational function
        R(F) = C(p,v) prod_{j<v}(a0(1-F)+jF) prod_{j<p-v}(b0(1-F)+jF) / prod_{j<p}((a0+b0)(1-F)+jF)
      (the 1/F cleared from the rising factorials), whose denominator is positive on [0,1)    [betabinom_rational];
    - R(0) = C(p,v) q^v (1-q)^(p-v), q = a0/(a0+b0): the binomial kernel; q = x at the interior points [Rker_0];
    - the convolution over n/ploidy individuals at F = 0 is the binomial kernel of n chromosomes    [cpow_B];
    - R and the convolution are continuous on [0,1);
    - lifted through the operator lists (any dimension, grid, phi, n, ploidy, ascertainment): the entries of the
      inbreeding spectrum tend, as the inbreeding coefficients tend to 0+ along any continuous path, to the
      entries of the direct path with the kernel evaluated at the EFFECTIVE frequencies
      [eff_freq xx] = xx with its first entry replaced by 1e-20/(1+1e-20) and its last by 1/(1+1e-20)
      -- not at xx itself: the limit differs from the direct path by the O(1e-20) the code puts in
      ([limit_is_not_exactly_direct_refuted]); it is the direct path wherever phi vanishes at the two end points. *)
From Coq Require Import ZArith NArith Reals List Lra Lia Arith Bool.
From Coquelicot Require Import Coquelicot.
From Dadi Require Import Base.Num Base.NumR Model.FromPhi Proofs.FromPhiBinom Proofs.FromPhiBase Proofs.FromPhiMass1D
  Proofs.FromPhiLin Proofs.FromPhiND Proofs.FromPhiPaths Proofs.FromPhiSums Proofs.FromPhiMore Proofs.FromPhiBBConv.
Import ListNotations.
Local Open Scope R_scope.

(** * 1. the kernel *)
(** rising factorial with the 1/F cleared: prod_{j<k} (a (1-F) + j F) *)
Fixpoint risF (a : R) (k : nat) (F : R) : R :=
  match k with O => 1 | S k' => risF a k' F * (a * (1 - F) + INR k' * F) end.

Lemma rising_clear (a0 F : R) k : F <> 0 -> rising (a0 * ((1 - F) / F)) k * F ^ k = risF a0 k F.
Proof. intros HF. induction k as [|k IH]; [cbn [rising risF pow]; numR; ring|].
  rewrite rising_R. cbn [risF pow]. rewrite <- IH. field. exact HF. Qed.

Lemma risF_pos a F k : 0 < a -> 0 <= F < 1 -> 0 < risF a k F.
Proof. intros Ha HF. induction k as [|k IH]; cbn [risF]; [lra|]. apply Rmult_lt_0_compat; [exact IH|].
  pose proof (pos_INR k). nra. Qed.

Lemma risF_0 a k : risF a k 0 = a ^ k.
Proof. induction k as [|k IH]; cbn [risF pow]; [reflexivity|]. rewrite IH. ring. Qed.

(** the explicit rational function P(F, a0, b0) / Q(F) *)
Definition Rker (p v : nat) (a0 b0 F : R) : R :=
  IZR (cZ p v) * (risF a0 v F * risF b0 (p - v) F / risF (a0 + b0) p F).

Theorem betabinom_rational p v (a0 b0 F : R) : (v <= p)%nat -> 0 < F < 1 -> 0 < a0 + b0 ->
  betabinom p v (a0 * ((1 - F) / F)) (b0 * ((1 - F) / F)) = Rker p v a0 b0 F.
Proof. intros Hv HF Hs. unfold betabinom, Rker. numR. f_equal.
  replace (a0 * ((1 - F) / F) + b0 * ((1 - F) / F)) with ((a0 + b0) * ((1 - F) / F)) by (field; lra).
  rewrite <- (rising_clear a0 F v), <- (rising_clear b0 F (p - v)), <- (rising_clear (a0 + b0) F p) by lra.
  replace (F ^ p) with (F ^ v * F ^ (p - v)) by (rewrite <- pow_add; f_equal; lia).
  assert (Hc : 0 < (1 - F) / F) by (apply Rdiv_lt_0_compat; lra).
  assert (Hr : rising ((a0 + b0) * ((1 - F) / F)) p <> 0) by (apply Rgt_not_eq, rising_pos; nra).
  assert (H1 : F ^ v <> 0) by (apply pow_nonzero; lra). assert (H2 : F ^ (p - v) <> 0) by (apply pow_nonzero; lra).
  field. repeat split; assumption. Qed.

Lemma Rker_denominator_positive p (a0 b0 F : R) : 0 < a0 + b0 -> 0 <= F < 1 -> 0 < risF (a0 + b0) p F.
Proof. intros. now apply risF_pos. Qed.

Lemma pow_div_distr (a s : R) n : s <> 0 -> (a / s) ^ n = a ^ n / s ^ n.
Proof. intros Hs. induction n as [|n IH]; cbn [pow]; [field|]. rewrite IH. field. split; [apply pow_nonzero|]; exact Hs. Qed.

(** at F = 0 the kernel is the binomial kernel at q = a0/(a0+b0) *)
Theorem Rker_0 p v (a0 b0 : R) : (v <= p)%nat -> 0 < a0 + b0 -> Rker p v a0 b0 0 = B p v (a0 / (a0 + b0)).
Proof. intros Hv Hs. unfold Rker, B. rewrite !risF_0.
  replace (1 - a0 / (a0 + b0)) with (b0 / (a0 + b0)) by (field; lra).
  rewrite !pow_div_distr by lra. replace ((a0 + b0) ^ p) with ((a0 + b0) ^ v * (a0 + b0) ^ (p - v)) by (rewrite <- pow_add; f_equal; lia).
  assert (H1 : (a0 + b0) ^ v <> 0) by (apply pow_nonzero; lra). assert (H2 : (a0 + b0) ^ (p - v) <> 0) by (apply pow_nonzero; lra).
  field. split; assumption. Qed.
Corollary Rker_0_interior p v (x : R) : (v <= p)%nat -> Rker p v x (1 - x) 0 = bker p v x.
Proof. intros Hv. rewrite Rker_0 by (try assumption; lra). rewrite bker_B.
  replace (x / (x + (1 - x))) with x by (field; lra). reflexivity. Qed.

(** ** continuity in F *)
Lemma cont_plus (f g : R -> R) x : continuous f x -> continuous g x -> continuous (fun t => f t + g t) x.
Proof. exact (continuous_plus f g x). Qed.
Lemma cont_mult (f g : R -> R) x : continuous f x -> continuous g x -> continuous (fun t => f t * g t) x.
Proof. exact (continuous_mult f g x). Qed.
Lemma cont_const (c x : R) : continuous (fun _ : R => c) x.
Proof. apply continuous_const. Qed.
Lemma cont_id (x : R) : continuous (fun t : R => t) x.
Proof. apply continuous_id. Qed.
Lemma cont_inv (f : R -> R) x : continuous f x -> f x <> 0 -> continuous (fun t => / f t) x.
Proof. apply continuous_Rinv_comp. Qed.
Lemma cont_ext (f g : R -> R) x : (forall t, f t = g t) -> continuous f x -> continuous g x.
Proof. apply continuous_ext. Qed.
Lemma cont_comp (f g : R -> R) x : continuous f x -> continuous g (f x) -> continuous (fun t => g (f t)) x.
Proof. apply continuous_comp. Qed.

Lemma risF_cont a k F0 : continuous (risF a k) F0.
Proof. induction k as [|k IH].
  - apply (cont_ext (fun _ => 1)); [reflexivity|apply cont_const].
  - apply (cont_ext (fun F => risF a k F * (a * (1 + -1 * F) + INR k * F))); [intros; cbn [risF]; ring|].
    apply cont_mult; [exact IH|]. apply cont_plus; apply cont_mult; try apply cont_const; try apply cont_id.
    apply cont_plus; [apply cont_const|]. apply cont_mult; [apply cont_const|apply cont_id]. Qed.

Theorem Rker_cont p v (a0 b0 F0 : R) : 0 < a0 + b0 -> 0 <= F0 < 1 -> continuous (Rker p v a0 b0) F0.
Proof. intros Hs HF. unfold Rker, Rdiv. apply cont_mult; [apply cont_const|]. apply cont_mult.
  - apply cont_mult; apply risF_cont.
  - apply cont_inv; [apply risF_cont|]. apply Rgt_not_eq. now apply risF_pos. Qed.

Lemma rsum_cont {A} (l : list A) (h : A -> R -> R) x : (forall a, In a l -> continuous (h a) x) ->
  continuous (fun t => rsum (map (fun a => h a t) l)) x.
Proof. induction l as [|a l IH]; intros Hh.
  - apply (cont_ext (fun _ => 0)); [reflexivity|apply cont_const].
  - apply (cont_ext (fun t => h a t + rsum (map (fun a => h a t) l))); [reflexivity|].
    apply cont_plus; [apply Hh; now left|]. apply IH. intros b Hb. apply Hh. now right. Qed.

Lemma cpow_cont (f : R -> nat -> R) x : (forall v, continuous (fun t => f t v) x) ->
  forall n i, continuous (fun t => cpow (f t) n i) x.
Proof. intros Hf. induction n as [|n IH]; intros i.
  - apply (cont_ext (fun _ => delta i)); [reflexivity|apply cont_const].
  - apply (cont_ext (fun t => rsum (map (fun j => f t j * cpow (f t) n (i - j)) (seq 0 (S i))))); [reflexivity|].
    apply rsum_cont. intros j _. apply cont_mult; [apply Hf|apply IH]. Qed.

(** ** the convolution of binomial kernels is a binomial kernel *)
Lemma B_rec p j q : B (S p) j q = mshift q 1 (fun y => B p y q) j + (1 - q) * B p j q.
Proof. destruct j as [|j]; unfold mshift.
  - cbn [Nat.leb]. rewrite B_S0. ring.
  - replace (1 <=? S j)%nat with true by reflexivity. replace (S j - 1)%nat with j by lia. apply B_SS. Qed.
Lemma conv_add_r f g h x : conv f (fun i => g i + h i) x = conv f g x + conv f h x.
Proof. unfold conv. rewrite <- rsum_map_add. apply rsum_map_ext. intros; ring. Qed.
Lemma B0_delta j q : B 0 j q = delta j.
Proof. destruct j as [|j]; [unfold B, delta; rewrite cZ_n0; cbn; ring|]. rewrite B_small by lia. reflexivity. Qed.
Lemma conv_delta_r f i : conv f delta i = f i.
Proof. unfold conv.
  rewrite (rsum_map_ext _ (fun j => (if Nat.eqb j i then 1 else 0) * f j)).
  - rewrite (rsum_single i (S i) (fun _ => 1) f). replace (i <? S i)%nat with true by (symmetry; apply Nat.ltb_lt; lia). ring.
  - intros j Hj. apply in_seq in Hj. unfold delta. destruct (Nat.eqb_spec j i) as [->|Hn].
    + rewrite Nat.sub_diag. cbn. ring.
    + replace (Nat.eqb (i - j) 0) with false by (symmetry; apply Nat.eqb_neq; lia). ring. Qed.

Lemma conv_B m q : forall p i, conv (fun j => B m j q) (fun j => B p j q) i = B (m + p) i q.
Proof. induction p as [|p IH]; intros i.
  - rewrite (conv_ext _ (fun j => B m j q) _ delta i (fun _ => eq_refl) (fun j => B0_delta j q)).
    rewrite conv_delta_r, Nat.add_0_r. reflexivity.
  - rewrite (conv_ext _ (fun j => B m j q) _ (fun j => mshift q 1 (fun y => B p y q) j + (1 - q) * B p j q) i
               (fun _ => eq_refl) (fun j => B_rec p j q)).
    rewrite conv_add_r, conv_mshift', conv_scal_r. rewrite (mshift_ext _ _ _ _ _ IH), IH.
    replace (m + S p)%nat with (S (m + p)) by lia. symmetry. apply B_rec. Qed.

Theorem cpow_B p q : forall n i, cpow (fun j => B p j q) n i = B (p * n) i q.
Proof. induction n as [|n IH]; intros i.
  - cbn [cpow]. rewrite Nat.mul_0_r. symmetry. apply B0_delta.
  - cbn [cpow]. rewrite (conv_ext _ (fun j => B p j q) _ (fun j => B (p * n) j q) i (fun _ => eq_refl) IH).
    rewrite conv_B. f_equal. lia. Qed.

(** * 2. the factor table of one axis *)
(** the (a0, b0) of every grid point: (x, 1-x), the two ends overwritten as in the code *)
Definition a0s (xx : list R) : list R := set_ends xx tiny 1.
Definition b0s (xx : list R) : list R := set_ends (map (fun x => 1 - x) xx) 1 tiny.
Definition tblF (pl : nat) (a0 b0 F : R) : list R := map (fun v => Rker pl v a0 b0 F) (seq 0 (S pl)).
(** [inb_fac] with the rational functions in place of the beta-binomial weights: defined at F = 0 too *)
Definition inb_fac_ext (het : bool) (n pl : nat) (F : R) (xx : list R) : list (list R) :=
  let cols := map (fun ab => ppow (tblF pl (fst ab) (snd ab) F) (n / pl)) (combine (a0s xx) (b0s xx)) in
  map (fun i => map2 (fun x col => let f := nth i col 0 in if het then f * (x * (1 - x)) else f) xx cols) (seq 0 (S n)).

Lemma removelast_map {A B} (f : A -> B) l : removelast (map f l) = map f (removelast l).
Proof. induction l as [|a [|b l] IH]; [reflexivity|reflexivity|]. cbn [map removelast] in *. now rewrite IH. Qed.
Lemma set_ends_map (f : R -> R) l a z : set_ends (map f l) (f a) (f z) = map f (set_ends l a z).
Proof. destruct l as [|x [|y t]]; [reflexivity|reflexivity|].
  cbn [map set_ends]. f_equal. rewrite map_app. cbn [map]. f_equal. exact (removelast_map f (y :: t)). Qed.
Lemma combine_map_map {A B C D} (f : A -> C) (g : B -> D) l1 l2 :
  combine (map f l1) (map g l2) = map (fun ab => (f (fst ab), g (snd ab))) (combine l1 l2).
Proof. revert l2. induction l1 as [|a l1 IH]; intros [|b l2]; try reflexivity. cbn [map combine fst snd]. now rewrite IH. Qed.
Lemma combine_self_map {A B} (f : A -> B) l : combine l (map f l) = map (fun x => (x, f x)) l.
Proof. induction l as [|a l IH]; [reflexivity|]. cbn [map combine]. now rewrite IH. Qed.

Lemma ab0_pos xx a b : In (a, b) (combine (a0s xx) (b0s xx)) -> 0 < a + b.
Proof. intros H. pose proof tiny_pos as Ht. unfold a0s, b0s in H.
  apply in_combine_set_ends in H; [|now rewrite map_length].
  destruct H as [H|[H|H]]; [inversion H; subst; lra | inversion H; subst; lra |].
  rewrite combine_self_map in H. apply in_map_iff in H. destruct H as [x [H _]]. inversion H; subst. lra. Qed.

Theorem inb_fac_is_ext het n pl (F : R) xx : 0 < F < 1 -> inb_fac het n pl F xx = inb_fac_ext het n pl F xx.
Proof. intros HF. unfold inb_fac, inb_fac_ext. numR. unfold one_minus_tiny. numR.
  set (c := (1 - F) / F).
  assert (Ea : set_ends (map (fun x => x * c) xx) (tiny * c) (1 * c) = map (fun a => a * c) (a0s xx)).
  { unfold a0s. exact (set_ends_map (fun a => a * c) xx tiny 1). }
  assert (Eb : set_ends (map (fun x => (1 - x) * c) xx) (1 * c) (tiny * c) = map (fun b => b * c) (b0s xx)).
  { unfold b0s. rewrite <- (set_ends_map (fun b => b * c) (map (fun x => 1 - x) xx) 1 tiny). now rewrite map_map. }
  rewrite Ea, Eb, combine_map_map, map_map. cbn [fst snd].
  assert (Ec : map (fun x : R * R => ppow (bb_table pl (fst x * c) (snd x * c)) (n / pl)) (combine (a0s xx) (b0s xx)) =
               map (fun ab : R * R => ppow (tblF pl (fst ab) (snd ab) F) (n / pl)) (combine (a0s xx) (b0s xx))).
  { apply map_ext_in. intros [a b] Hab. cbn [fst snd]. f_equal. unfold bb_table, tblF. apply map_ext_in. intros v Hv.
    apply in_seq in Hv. apply betabinom_rational; [lia|exact HF|exact (ab0_pos xx a b Hab)]. }
  rewrite Ec. reflexivity. Qed.

(** ** at F = 0: the direct-path factor table, the kernel read at the effective frequencies *)
Definition eff_freq (xx : list R) : list R := map (fun ab => fst ab / (fst ab + snd ab)) (combine (a0s xx) (b0s xx)).
Definition direct_fac_eff (het : bool) (n : nat) (xx : list R) : list (list R) :=
  map (fun i => map2 (fun x q => if het then bker n i q * (x * (1 - x)) else bker n i q) xx (eff_freq xx)) (seq 0 (S n)).

Lemma map2_map_r {A B C D} (f : A -> C -> D) (g : B -> C) a b : map2 f a (map g b) = map2 (fun x y => f x (g y)) a b.
Proof. unfold map2. revert b. induction a as [|x a IH]; intros [|y b]; try reflexivity. cbn [map combine fst snd]. now rewrite IH. Qed.
Lemma map2_ext_in {A B C} (f g : A -> B -> C) a b : (forall x y, In (x, y) (combine a b) -> f x y = g x y) -> map2 f a b = map2 g a b.
Proof. intros H. unfold map2. apply map_ext_in. intros [x y] Hin. cbn [fst snd]. now apply H. Qed.

Lemma coef_tblF pl a0 b0 F v : coef (tblF pl a0 b0 F) v = if (v <=? pl)%nat then Rker pl v a0 b0 F else 0.
Proof. unfold coef, tblF. destruct (Nat.leb_spec v pl).
  - rewrite nth_map_seq by lia. reflexivity.
  - apply nth_overflow. rewrite map_length, seq_length. lia. Qed.

Lemma ext_entry_0 n pl (a0 b0 : R) i : pl <> 0%nat -> (n mod pl = 0)%nat -> 0 < a0 + b0 ->
  nth i (ppow (tblF pl a0 b0 0) (n / pl)) 0 = bker n i (a0 / (a0 + b0)).
Proof. intros Hpl Hmod Hs. change (nth i (ppow (tblF pl a0 b0 0) (n / pl)) 0) with (coef (ppow (tblF pl a0 b0 0) (n / pl)) i).
  rewrite coef_ppow.
  rewrite (cpow_ext _ (fun v => B pl v (a0 / (a0 + b0)))).
  - rewrite cpow_B, bker_B. f_equal. pose proof (Nat.div_exact n pl Hpl) as [_ Hd]. specialize (Hd Hmod). lia.
  - intros v. rewrite coef_tblF. destruct (Nat.leb_spec v pl); [now apply Rker_0|]. symmetry. now apply B_small. Qed.

Theorem inb_fac_ext_0 het n pl xx : pl <> 0%nat -> (n mod pl = 0)%nat -> inb_fac_ext het n pl 0 xx = direct_fac_eff het n xx.
Proof. intros Hpl Hmod. unfold inb_fac_ext, direct_fac_eff, eff_freq. apply map_ext. intros i.
  rewrite !map2_map_r. apply map2_ext_in. intros x [a b] Hin. apply in_combine_r in Hin. cbn [fst snd].
  rewrite (ext_entry_0 n pl a b i Hpl Hmod (ab0_pos xx a b Hin)). reflexivity. Qed.

(** the effective frequencies are the grid itself except at its two ends *)
Theorem eff_freq_spec xx : eff_freq xx = set_ends xx (tiny / (tiny + 1)) (1 / (1 + tiny)).
Proof. unfold eff_freq, a0s, b0s. destruct xx as [|x [|y t]]; [reflexivity|reflexivity|].
  cbn [map set_ends combine fst snd]. f_equal.
  change (1 - y :: map (fun x0 => 1 - x0) t) with (map (fun x0 : R => 1 - x0) (y :: t)).
  rewrite removelast_map, combine_app' by now rewrite map_length. rewrite map_app, combine_self_map, map_map. cbn [map combine fst snd].
  f_equal. rewrite <- (map_id (removelast (y :: t))) at 2. apply map_ext. intros z. field. lra. Qed.

(** * 3. any number of populations *)
Definition hetb (het : option nat) (k : nat) : bool := match het with Some h => Nat.eqb h k | None => false end.
(** the inbreeding operator list with the rational-function tables; the direct path at the effective frequencies *)
Definition inb_ext_ops_from (het : option nat) (k : nat) (ns pls : list nat) (Fs : list R) (xxs : list (list R)) : list (@axop R) :=
  map2 (fun k q => let '(n, pl, Fx, xx) := q in (fac_apply xx (inb_fac_ext (hetb het k) n pl Fx xx), S n))
       (seq k (length ns)) (combine (combine (combine ns pls) Fs) xxs).
Definition inb_ext_ops het := inb_ext_ops_from het 0.
Definition direct_eff_ops_from (het : option nat) (k : nat) (ns : list nat) (xxs : list (list R)) : list (@axop R) :=
  map2 (fun k nx => (fac_apply (snd nx) (direct_fac_eff (hetb het k) (fst nx) (snd nx)), S (fst nx)))
       (seq k (length ns)) (combine ns xxs).
Definition direct_eff_ops het := direct_eff_ops_from het 0.

Lemma map2_nil_l {A B C} (f : A -> B -> C) b : map2 f [] b = [].
Proof. reflexivity. Qed.

(** for inbreeding coefficients in (0,1) the model's operator list IS the rational-function one *)
Lemma inb_ops_is_ext_from het : forall ns k pls (Fs : list R) xxs, List.Forall (fun f => 0 < f < 1) Fs ->
  map2 (fun k q => let '(n, pl, Fx, xx) := q in (@inb_ax R _ (hetb het k) n pl Fx xx, S n))
       (seq k (length ns)) (combine (combine (combine ns pls) Fs) xxs) = inb_ext_ops_from het k ns pls Fs xxs.
Proof. unfold inb_ext_ops_from. induction ns as [|n ns IH]; intros k pls Fs xxs HF; [reflexivity|].
  destruct pls as [|pl pls]; [reflexivity|]. destruct Fs as [|Fx Fs]; [reflexivity|]. destruct xxs as [|xx xxs]; [reflexivity|].
  cbn [length seq combine]. rewrite !map2_cons. inversion HF as [|? ? HF0 HF']; subst. f_equal.
  - unfold inb_ax. rewrite inb_fac_is_ext by exact HF0. reflexivity.
  - apply IH. exact HF'. Qed.
Theorem inb_ops_is_ext het ns pls (Fs : list R) xxs : List.Forall (fun f => 0 < f < 1) Fs ->
  inb_ops het ns pls Fs xxs = inb_ext_ops het ns pls Fs xxs.
Proof. intros HF. exact (inb_ops_is_ext_from het ns 0%nat pls Fs xxs HF). Qed.

(** at F = 0 (every population) the rational-function list is the direct path at the effective frequencies *)
Lemma inb_ext_ops_0_from het : forall ns k pls (Fs : list R) xxs, List.Forall (fun f => f = 0) Fs ->
  length pls = length ns -> length Fs = length ns ->
  List.Forall (fun np => snd np <> 0%nat /\ (fst np mod snd np = 0)%nat) (combine ns pls) ->
  inb_ext_ops_from het k ns pls Fs xxs = direct_eff_ops_from het k ns xxs.
Proof. unfold inb_ext_ops_from, direct_eff_ops_from.
  induction ns as [|n ns IH]; intros k pls Fs xxs HF Hp Hf Hnp; [reflexivity|].
  destruct pls as [|pl pls]; [discriminate|]. destruct Fs as [|Fx Fs]; [discriminate|].
  destruct xxs as [|xx xxs]; [reflexivity|].
  cbn [length seq combine]. rewrite !map2_cons. inversion HF as [|? ? HF0 HF']; subst.
  cbn [combine] in Hnp. inversion Hnp as [|? ? [Hpl Hmod] Hnp']; subst. cbn [fst snd] in *. f_equal.
  - rewrite inb_fac_ext_0 by assumption. reflexivity.
  - apply IH; cbn in *; try lia; assumption. Qed.
Theorem inb_ext_ops_0 het ns pls (Fs : list R) xxs : List.Forall (fun f => f = 0) Fs ->
  length pls = length ns -> length Fs = length ns ->
  List.Forall (fun np => snd np <> 0%nat /\ (fst np mod snd np = 0)%nat) (combine ns pls) ->
  inb_ext_ops het ns pls Fs xxs = direct_eff_ops het ns xxs.
Proof. apply inb_ext_ops_0_from. Qed.

(** ** continuity of every entry along any continuous path of inbreeding coefficients *)
Lemma trapz_map_cont (xs : list R) : forall {Z} (zs : list Z) (k : Z -> R -> R) t0,
  (forall z, In z zs -> continuous (k z) t0) -> continuous (fun t => trapz xs (map (fun z => k z t) zs)) t0.
Proof. induction xs as [|x0 xs IH]; intros Z zs k t0 Hk.
  - apply (cont_ext (fun _ => 0)); [reflexivity|apply cont_const].
  - destruct xs as [|x1 xs'].
    + apply (cont_ext (fun _ => 0)); [intros t; destruct zs as [|? [|? ?]]; reflexivity|apply cont_const].
    + destruct zs as [|z0 [|z1 zs']].
      * apply (cont_ext (fun _ => 0)); [reflexivity|apply cont_const].
      * apply (cont_ext (fun _ => 0)); [reflexivity|apply cont_const].
      * apply (cont_ext (fun t => (x1 - x0) * (k z1 t + k z0 t) * / 2 + trapz (x1 :: xs') (map (fun z => k z t) (z1 :: zs')))).
        { intros t. cbn [map trapz]. numR. reflexivity. }
        apply cont_plus.
        -- apply cont_mult; [|apply cont_const]. apply cont_mult; [apply cont_const|].
           apply cont_plus; apply Hk; [right; now left | now left].
        -- apply IH. intros z Hz. apply Hk. now right. Qed.

Lemma inb_fac_ext_length het n pl F xx : length (inb_fac_ext het n pl F xx) = S n.
Proof. unfold inb_fac_ext. now rewrite map_length, seq_length. Qed.

Lemma matof_inb_cont hb n pl xx (g : R -> R) t0 L i l : continuous g t0 -> 0 <= g t0 < 1 ->
  continuous (fun t => matof (fac_apply xx (inb_fac_ext hb n pl (g t) xx)) L i l) t0.
Proof. intros Hg Hg0. unfold matof, fac_apply. destruct (Nat.ltb_spec i (S n)) as [Hi|Hi].
  2:{ apply (cont_ext (fun _ => 0)); [|apply cont_const]. intros t. symmetry. apply nth_overflow.
      rewrite map_length, inb_fac_ext_length. lia. }
  set (items := combine (combine xx (combine (a0s xx) (b0s xx))) (unitv L l)).
  apply (cont_ext (fun t => trapz xx (map (fun z : (R * (R * R)) * R => 
           (let f := coef (ppow (tblF pl (fst (snd (fst z))) (snd (snd (fst z))) (g t)) (n / pl)) i in
            if hb then f * (fst (fst z) * (1 - fst (fst z))) else f) * snd z) items))).
  { intros t. symmetry. unfold inb_fac_ext. cbv zeta. rewrite map_map, nth_map_seq by exact Hi. f_equal.
    rewrite map2_map_r. unfold map2, items. rewrite combine_map_l, map_map.
    apply map_ext. intros [[x [a b]] u]. cbn [fst snd]. unfold coef. numR. destruct hb; reflexivity. }
  apply trapz_map_cont. intros [[x [a b]] u] Hz. cbn [fst snd].
  assert (Hab : 0 < a + b).
  { unfold items in Hz. apply in_combine_l, in_combine_r in Hz. exact (ab0_pos xx a b Hz). }
  apply cont_mult; [|apply cont_const].
  assert (Hc : continuous (fun t => coef (ppow (tblF pl a b (g t)) (n / pl)) i) t0).
  { apply (cont_ext (fun t => cpow (coef (tblF pl a b (g t))) (n / pl) i)); [intros; symmetry; apply coef_ppow|].
    apply (cpow_cont (fun t v => coef (tblF pl a b (g t)) v)). intros v.
    apply (cont_ext (fun t => if (v <=? pl)%nat then Rker pl v a b (g t) else 0)); [intros; symmetry; apply coef_tblF|].
    destruct (v <=? pl)%nat; [|apply cont_const].
    apply (cont_comp g (Rker pl v a b)); [exact Hg|]. now apply Rker_cont. }
  destruct hb; [|exact Hc]. apply cont_mult; [exact Hc|apply cont_const]. Qed.

Lemma inb_ext_ops_from_cons het k n ns pl pls (F : R) Fs xx xxs :
  inb_ext_ops_from het k (n :: ns) (pl :: pls) (F :: Fs) (xx :: xxs) =
  (fac_apply xx (inb_fac_ext (hetb het k) n pl F xx), S n) :: inb_ext_ops_from het (S k) ns pls Fs xxs.
Proof. unfold inb_ext_ops_from. cbn [length seq combine]. rewrite map2_cons. reflexivity. Qed.

Lemma outsize_ext_from het : forall ns k pls (Fs : list R) xxs, length pls = length ns -> length Fs = length ns -> length xxs = length ns ->
  outsize (inb_ext_ops_from het k ns pls Fs xxs) = prodl (map S ns).
Proof. induction ns as [|n ns IH]; intros k pls Fs xxs Hp Hf Hx; [reflexivity|].
  destruct pls as [|pl pls], Fs as [|F Fs], xxs as [|xx xxs]; try discriminate.
  rewrite inb_ext_ops_from_cons. unfold outsize in *. cbn [map snd prodl fold_right]. rewrite (IH (S k)) by (cbn in *; lia). reflexivity. Qed.

Lemma ext_ops_ok_from het : forall shape ns k pls (Fs : list R) xxs,
  length ns = length shape -> length pls = length shape -> length Fs = length shape -> length xxs = length shape ->
  ops_ok (inb_ext_ops_from het k ns pls Fs xxs) shape.
Proof. induction shape as [|L rest IH]; intros ns k pls Fs xxs Hn Hp Hf Hx.
  - destruct ns, pls, Fs, xxs; try discriminate. constructor.
  - destruct ns as [|n ns], pls as [|pl pls], Fs as [|F Fs], xxs as [|xx xxs]; try discriminate.
    rewrite inb_ext_ops_from_cons. constructor; [|apply IH; cbn in *; lia]. cbn [fst snd].
    rewrite <- (inb_fac_ext_length (hetb het k) n pl F xx). apply fac_apply_linop. Qed.

Definition path_ok (t0 : R) (g : R -> R) : Prop := continuous g t0 /\ 0 <= g t0 < 1.

Lemma Knd_ext_cont het t0 : forall shape ns k pls (gs : list (R -> R)) xxs,
  length ns = length shape -> length pls = length shape -> length gs = length shape -> length xxs = length shape ->
  List.Forall (path_ok t0) gs ->
  forall a b, continuous (fun t => Knd (inb_ext_ops_from het k ns pls (map (fun g => g t) gs) xxs) shape a b) t0.
Proof. induction shape as [|L rest IH]; intros ns k pls gs xxs Hn Hp Hg Hx HG a b.
  - destruct ns, pls, gs, xxs; try discriminate. apply (cont_ext (fun _ => 1)); [reflexivity|apply cont_const].
  - destruct ns as [|n ns], pls as [|pl pls], gs as [|g gs], xxs as [|xx xxs]; try discriminate.
    inversion HG as [|? ? [Hgc Hg0] HG']; subst.
    apply (cont_ext (fun t => matof (fac_apply xx (inb_fac_ext (hetb het k) n pl (g t) xx)) L (a / prodl (map S ns)) (b / prodl rest)
                              * Knd (inb_ext_ops_from het (S k) ns pls (map (fun g => g t) gs) xxs) rest
                                    (a mod prodl (map S ns)) (b mod prodl rest))).
    { intros t. cbn [map]. rewrite inb_ext_ops_from_cons. cbn [Knd].
      rewrite outsize_ext_from by (rewrite ?map_length; cbn in *; lia). reflexivity. }
    apply cont_mult; [now apply matof_inb_cont|]. apply IH; cbn in *; try lia; assumption. Qed.

Ltac len_tac := rewrite ?map_length; first [lia | (etransitivity; [eassumption | symmetry; eassumption]) | eassumption].

Theorem ext_entry_cont het ns pls (gs : list (R -> R)) xxs shape phi idx t0 :
  length ns = length shape -> length pls = length shape -> length gs = length shape -> length xxs = length shape ->
  List.Forall (path_ok t0) gs -> length phi = prodl shape ->
  continuous (fun t => nth idx (nd (inb_ext_ops het ns pls (map (fun g => g t) gs) xxs) shape phi) 0) t0.
Proof. intros Hn Hp Hg Hx HG Hphi. unfold inb_ext_ops.
  apply (cont_ext (fun t => nth idx (mat_apply (Knd (inb_ext_ops_from het 0 ns pls (map (fun g => g t) gs) xxs) shape)
                                              (prodl shape) (prodl (map S ns)) phi) 0)).
  { intros t. rewrite nd_is_kronecker; [|apply ext_ops_ok_from; len_tac|exact Hphi].
    rewrite outsize_ext_from by len_tac. reflexivity. }
  destruct (Nat.ltb_spec idx (prodl (map S ns))) as [Hi|Hi].
  - apply (cont_ext (fun t => rsum (map (fun l => Knd (inb_ext_ops_from het 0 ns pls (map (fun g => g t) gs) xxs) shape idx l * nth l phi 0)
                                        (seq 0 (prodl shape))))).
    { intros t. symmetry. now apply mat_apply_nth. }
    apply rsum_cont. intros l _. apply cont_mult; [|apply cont_const]. now apply Knd_ext_cont.
  - apply (cont_ext (fun _ => 0)); [|apply cont_const]. intros t. symmetry. apply nth_overflow. rewrite mat_apply_length. lia. Qed.

(** * THE LIMIT: along any continuous path of inbreeding coefficients that tends to 0 from inside (0,1), every entry
    of the inbreeding spectrum tends to the entry of the direct path at the effective frequencies *)
Theorem inbreeding_path_tends_to_direct_path het ns pls (gs : list (R -> R)) xxs shape phi idx :
  length ns = length shape -> length pls = length shape -> length gs = length shape -> length xxs = length shape ->
  List.Forall (fun np => snd np <> 0%nat /\ (fst np mod snd np = 0)%nat) (combine ns pls) ->
  length phi = prodl shape ->
  List.Forall (fun g => continuous g 0 /\ g 0 = 0) gs ->
  (exists delta, 0 < delta /\ forall t, 0 < t < delta -> List.Forall (fun g => 0 < g t < 1) gs) ->
  filterlim (fun t => nth idx (nd (inb_ops het ns pls (map (fun g => g t) gs) xxs) shape phi) 0) (at_right 0)
            (locally (nth idx (nd (direct_eff_ops het ns xxs) shape phi) 0)).
Proof. intros Hn Hp Hg Hx Hnp Hphi HG (delta & Hd & HF).
  set (ext := fun t : R => nth idx (nd (inb_ext_ops het ns pls (map (fun g => g t) gs) xxs) shape phi) 0).
  assert (Hc : continuous ext 0).
  { apply ext_entry_cont; try assumption. eapply List.Forall_impl; [|exact HG]. intros g [H1 H2]. split; [exact H1|lra]. }
  assert (H0 : ext 0 = nth idx (nd (direct_eff_ops het ns xxs) shape phi) 0).
  { unfold ext. rewrite inb_ext_ops_0; [reflexivity| |lia|rewrite map_length; lia|exact Hnp].
    clear -HG. induction HG as [|g gs [_ E] _ IH]; cbn [map]; constructor; assumption. }
  rewrite <- H0.
  apply (filterlim_ext_loc ext).
  - exists (mkposreal delta Hd). intros t Hb Ht. unfold ext. rewrite inb_ops_is_ext; [reflexivity|].
    assert (Ht' : 0 < t < delta).
    { split; [exact Ht|]. unfold ball in Hb. cbn in Hb. unfold AbsRing_ball, abs, minus, plus, opp in Hb. cbn in Hb.
      apply Rabs_def2 in Hb. lra. }
    specialize (HF t Ht'). clear -HF. induction HF as [|g gs E _ IH]; cbn [map]; constructor; assumption.
  - apply (filterlim_filter_le_1 (G := at_right 0) (F := locally 0)); [|exact Hc].
    unfold at_right. apply filter_le_within. Qed.

Lemma repeat_as_map (F : R) d : repeat F d = map (fun g : R -> R => g F) (repeat (fun t : R => t) d).
Proof. induction d as [|d IH]; [reflexivity|]. cbn [repeat map]. now rewrite <- IH. Qed.

(** the same with one inbreeding coefficient F for every population *)
Corollary inbreeding_common_F_tends_to_direct_path het ns pls xxs shape phi idx :
  length ns = length shape -> length pls = length shape -> length xxs = length shape ->
  List.Forall (fun np => snd np <> 0%nat /\ (fst np mod snd np = 0)%nat) (combine ns pls) ->
  length phi = prodl shape ->
  filterlim (fun F => nth idx (nd (inb_ops het ns pls (repeat F (length shape)) xxs) shape phi) 0) (at_right 0)
            (locally (nth idx (nd (direct_eff_ops het ns xxs) shape phi) 0)).
Proof. intros Hn Hp Hx Hnp Hphi.
  pose proof (fun F : R => repeat_as_map F (length shape)) as E.
  apply (filterlim_ext (fun F => nth idx (nd (inb_ops het ns pls (map (fun g : R -> R => g F) (repeat (fun t => t) (length shape))) xxs) shape phi) 0)).
  { intros F. now rewrite E. }
  apply inbreeding_path_tends_to_direct_path; try assumption.
  - apply repeat_length.
  - apply List.Forall_forall. intros g Hg. apply repeat_spec in Hg. subst g. split; [apply cont_id|reflexivity].
  - exists 1. split; [lra|]. intros t Ht. apply List.Forall_forall. intros g Hg. apply repeat_spec in Hg. subst g. exact Ht. Qed.

(** * 4. the limit is the direct path up to the 1e-20 the code puts at the two ends, not exactly *)
Lemma B11 (x : R) : bker 1 1 x = x.
Proof. rewrite bker_B. unfold B. rewrite cZ_nn. cbn. ring. Qed.

Theorem limit_is_not_exactly_direct_refuted :
  exists (n : nat) (xx phi : list R) (i : nat),
    nth i (fac_apply xx (direct_fac_eff false n xx) phi) 0 <> nth i (direct_ax false n xx phi) 0.
Proof. exists 1%nat, [0; 1], [1; 0], 1%nat.
  unfold direct_ax, direct_fac, direct_fac_eff, fac_apply. rewrite eff_freq_spec.
  cbn [seq map nth set_ends removelast app map2 combine fst snd dfactor trapz]. unfold map2. cbn [combine map fst snd trapz].
  rewrite !B11. numR. unfold n2. numR. pose proof tiny_pos as Ht.
  assert (Hq : 0 < tiny / (tiny + 1)) by (apply Rdiv_lt_0_compat; lra). lra. Qed.

(** one axis, no ascertainment: where the density vanishes at the two end points of the grid the limit IS the direct path *)
Lemma map2_removelast_end (h : R -> R -> R) z : (forall q, h q 0 = h z 0) -> forall l v, l <> [] -> length v = length l -> last v 0 = 0 ->
  map2 h (removelast l ++ [z]) v = map2 h l v.
Proof. intros Hh. induction l as [|y l IH]; intros v Hne Hl Hlast; [congruence|].
  destruct v as [|w v]; [discriminate|]. destruct l as [|y' l'].
  - destruct v; [|discriminate]. cbn [last] in Hlast. subst w. cbn [removelast app]. rewrite !map2_cons. f_equal. symmetry. apply Hh.
  - change (removelast (y :: y' :: l')) with (y :: removelast (y' :: l')). cbn [app]. rewrite !map2_cons. f_equal.
    apply IH; [discriminate|cbn in *; lia|]. destruct v; [discriminate|exact Hlast]. Qed.

Lemma map2_ignore_l {A} (k : R -> R) : forall (xx : list A) qs, length qs = length xx -> map2 (fun (_ : A) q => k q) xx qs = map k qs.
Proof. unfold map2. induction xx as [|x xx' IH]; intros [|q qs] E; try discriminate; [reflexivity|].
  cbn [combine map fst snd]. f_equal. apply IH. now injection E. Qed.

Theorem limit_is_direct_when_density_vanishes_at_ends n xx (v : list R) :
  length v = length xx -> hd 0 v = 0 -> last v 0 = 0 ->
  fac_apply xx (direct_fac_eff false n xx) v = direct_ax false n xx v.
Proof. intros Hl Hh Hlast. unfold direct_ax, direct_fac, direct_fac_eff, fac_apply. rewrite !map_map. apply map_ext. intros i.
  f_equal. rewrite eff_freq_spec. cbn [dfactor].
  rewrite (map2_ignore_l (bker n i)) by apply set_ends_length.
  set (h := fun q w : R => bker n i q * w).
  assert (E2 : forall l, map2 (@nmul R _) (map (bker n i) l) v = map2 h l v).
  { intros l. unfold map2. rewrite combine_map_l, map_map. apply map_ext. intros [q w]. reflexivity. }
  rewrite !E2. clear E2.
  assert (Hz : forall a q, h q 0 = h a 0) by (intros; unfold h; ring).
  destruct xx as [|x [|y t]]; [reflexivity| |].
  - destruct v as [|w [|? ?]]; try discriminate. cbn [hd] in Hh. subst w. cbn [set_ends]. rewrite !map2_cons. f_equal. apply Hz.
  - destruct v as [|w v]; [discriminate|]. cbn [hd] in Hh. subst w. cbn [set_ends]. rewrite !map2_cons. f_equal; [apply Hz|].
    apply map2_removelast_end; [intros; apply Hz|discriminate|cbn in *; lia|]. destruct v; [discriminate|exact Hlast]. Qed.

(** * 5. summaries *)
Theorem inbreeding_kernel_is_rational_in_F (p v : nat) (a0 b0 : R) : (v <= p)%nat -> 0 < a0 + b0 ->
  (forall F, 0 < F < 1 -> betabinom p v (a0 * ((1 - F) / F)) (b0 * ((1 - F) / F)) = Rker p v a0 b0 F) /\
  (forall F, 0 <= F < 1 -> 0 < risF (a0 + b0) p F /\ continuous (Rker p v a0 b0) F).
Proof. intros Hv Hs. split; [intros F HF; now apply betabinom_rational|].
  intros F HF. split; [now apply risF_pos|now apply Rker_cont]. Qed.

Theorem inbreeding_F_to_0_is_binomial :
  (forall p v (x : R), (v <= p)%nat -> Rker p v x (1 - x) 0 = bker p v x) /\
  (forall p v (a0 b0 : R), (v <= p)%nat -> 0 < a0 + b0 -> Rker p v a0 b0 0 = bker p v (a0 / (a0 + b0))) /\
  (forall n pl (a0 b0 : R) i, pl <> 0%nat -> (n mod pl = 0)%nat -> 0 < a0 + b0 ->
     nth i (ppow (tblF pl a0 b0 0) (n / pl)) 0 = bker n i (a0 / (a0 + b0))) /\
  (forall het n pl xx, pl <> 0%nat -> (n mod pl = 0)%nat -> inb_fac_ext het n pl 0 xx = direct_fac_eff het n xx) /\
  (forall xx, eff_freq xx = set_ends xx (tiny / (tiny + 1)) (1 / (1 + tiny))).
Proof. split; [exact Rker_0_interior|]. split; [intros; rewrite bker_B; now apply Rker_0|].
  split; [exact ext_entry_0|]. split; [exact inb_fac_ext_0|exact eff_freq_spec]. Qed.

Theorem inb_ops_rational_and_direct_at_0 het ns pls (Fs : list R) xxs :
  (List.Forall (fun f => 0 < f < 1) Fs -> inb_ops het ns pls Fs xxs = inb_ext_ops het ns pls Fs xxs) /\
  (List.Forall (fun f => f = 0) Fs -> length pls = length ns -> length Fs = length ns ->
   List.Forall (fun np => snd np <> 0%nat /\ (fst np mod snd np = 0)%nat) (combine ns pls) ->
   inb_ext_ops het ns pls Fs xxs = direct_eff_ops het ns xxs).
Proof. split; [apply inb_ops_is_ext | apply inb_ext_ops_0]. Qed.
