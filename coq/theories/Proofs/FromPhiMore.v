(** C05: the d-dimensional semi-analytic recursion is the 1-D analytic function applied along every axis;
    the inbreeding spectra sum to the trapezoid mass. *)
From Coq Require Import ZArith NArith Reals List Lra Lia Arith Bool.
From Dadi Require Import Base.Num Base.NumR Model.FromPhi Proofs.FromPhiBinom Proofs.FromPhiBase Proofs.FromPhiMass1D
  Proofs.FromPhiLin Proofs.FromPhiND Proofs.FromPhiPaths Proofs.FromPhiSums.
Import ListNotations.
Local Open Scope R_scope.

(** ** one axis of the linalg paths is the 1-D analytic function when the grid lies in [0,1] *)
Lemma analytic_ax_is_1D n xx (phi : list R) : Forall (fun x => 0 <= x <= 1) xx ->
  analytic_ax n xx phi = analytic1D n xx phi.
Proof. intros Hx. unfold analytic_ax, analytic1D, apoints. rewrite map_clip_id by assumption.
  apply map_ext. intros d. numR. rewrite <- rsum_map_scal_r, <- rsum_map_add. apply rsum_map_ext. intros iv _.
  unfold Rdiv. ring. Qed.

Lemma nd_ext (ops1 ops2 : list (@axop R)) : Forall2 (fun o1 o2 => snd o1 = snd o2 /\ forall v, fst o1 v = fst o2 v) ops1 ops2 ->
  forall shape phi, nd ops1 shape phi = nd ops2 shape phi.
Proof. induction 1 as [|[T1 n1] [T2 n2] ops1 ops2 [En ET] Hrest IH]; intros shape phi; [reflexivity|].
  cbn [fst snd] in *. subst n2. destruct shape as [|L rest]; [reflexivity|]. cbn [nd].
  assert (Em : map snd ops1 = map snd ops2).
  { clear -Hrest. induction Hrest as [|? ? ? ? [E _] ? IH2]; [reflexivity|]. cbn [map]. rewrite E, IH2. reflexivity. }
  rewrite Em. rewrite (map_ext _ _ (IH rest)). rewrite !apply0_eq. f_equal. apply map_ext. intros i. apply map_ext. intros p. rewrite ET. reflexivity. Qed.

Definition analytic1D_ops (ns : list nat) (xxs : list (list R)) : list (@axop R) :=
  map2 (fun n xx => (analytic1D n xx, S n)) ns xxs.

(** [_from_phi_{2..5}D_linalg] = [_from_phi_1D_analytic] applied along the last axis, then the one before, ... *)
Theorem nD_recursion_is_iterated_1D ns xxs shape phi : Forall (Forall (fun x => 0 <= x <= 1)) xxs ->
  nd (linalg_ops ns xxs) shape phi = nd (analytic1D_ops ns xxs) shape phi.
Proof. intros H01. apply nd_ext. unfold linalg_ops, analytic1D_ops. revert ns. induction H01 as [|xx xxs Hx H01 IH]; intros ns.
  - destruct ns; constructor.
  - destruct ns as [|n ns]; [constructor|]. rewrite !map2_cons. constructor; [|apply IH].
    split; [reflexivity|]. intros v. cbn [fst]. apply analytic_ax_is_1D. assumption. Qed.

(** ** inbreeding *)
Lemma combine_map_both {A B C} (f : A -> B) (g : A -> C) l : combine (map f l) (map g l) = map (fun x => (f x, g x)) l.
Proof. induction l; [reflexivity|]. cbn [map combine]. rewrite IHl. reflexivity. Qed.

Lemma set_ends_length (l : list R) f z : length (set_ends l f z) = length l.
Proof. destruct l as [|x [|y t]]; try reflexivity. cbn [set_ends length]. rewrite app_length, removelast_firstn_len, firstn_length. cbn [length]. lia. Qed.

Lemma combine_app' {A B} (a1 b1 : list A) (a2 b2 : list B) : length a1 = length a2 ->
  combine (a1 ++ b1) (a2 ++ b2) = combine a1 a2 ++ combine b1 b2.
Proof. revert a2. induction a1; intros a2 E; destruct a2; try discriminate; [reflexivity|]. cbn [app combine]. rewrite IHa1 by (cbn in E; lia). reflexivity. Qed.

Lemma firstn_In' {A} (x : A) k l : In x (firstn k l) -> In x l.
Proof. revert l. induction k; intros l H; [destruct H|]. destruct l; [destruct H|]. cbn [firstn] in H. destruct H as [H|H]; [left; exact H | right; apply IHk; exact H]. Qed.

Lemma in_combine_set_ends (l1 l2 : list R) f1 z1 f2 z2 a b : length l1 = length l2 ->
  In (a, b) (combine (set_ends l1 f1 z1) (set_ends l2 f2 z2)) ->
  (a, b) = (f1, f2) \/ (a, b) = (z1, z2) \/ In (a, b) (combine l1 l2).
Proof. intros E H. destruct l1 as [|x1 [|y1 t1]], l2 as [|x2 [|y2 t2]]; try discriminate; cbn [set_ends] in H.
  - destruct H.
  - cbn in H. destruct H as [H|[]]. right; left; symmetry; exact H.
  - cbn [combine] in H. destruct H as [H|H]; [left; symmetry; exact H|]. right.
    rewrite combine_app' in H by (rewrite !removelast_firstn_len, !firstn_length; cbn in *; lia).
    apply in_app_or in H. destruct H as [H|H].
    + right. right. rewrite !removelast_firstn_len in H.
      replace (Init.Nat.pred (length (y2 :: t2))) with (Init.Nat.pred (length (y1 :: t1))) in H by (cbn in *; lia).
      rewrite <- combine_firstn in H. apply firstn_In' in H. exact H. 
    + cbn in H. destruct H as [H|[]]. left; symmetry; exact H. Qed.

Lemma tiny_pos : 0 < @tiny R _.
Proof. unfold tiny. numR. apply Rdiv_lt_0_compat; apply IZR_lt; reflexivity. Qed.

Lemma inb_alpha_beta_pos (Fx : R) xx a b : 0 < Fx < 1 ->
  In (a, b) (combine (set_ends (map (fun x => x * ((1 - Fx) / Fx)) xx) (tiny * ((1 - Fx) / Fx)) (1 * ((1 - Fx) / Fx)))
                     (set_ends (map (fun x => (1 - x) * ((1 - Fx) / Fx)) xx) (1 * ((1 - Fx) / Fx)) (tiny * ((1 - Fx) / Fx)))) ->
  0 < a + b.
Proof. intros HF H. assert (Hc : 0 < (1 - Fx) / Fx) by (apply Rdiv_lt_0_compat; lra). pose proof tiny_pos as Ht.
  apply in_combine_set_ends in H; [|rewrite !map_length; reflexivity].
  destruct H as [H|[H|H]].
  - inversion H; subst. nra.
  - inversion H; subst. nra.
  - rewrite combine_map_both in H. apply in_map_iff in H. destruct H as [x [H _]]. inversion H; subst. nra. Qed.

Lemma inb_ax_total n pl (Fx : R) xx v : 0 < Fx < 1 -> pl <> 0%nat -> (n mod pl = 0)%nat -> length xx = length v ->
  rsum (inb_ax false n pl Fx xx v) = trapz xx v.
Proof. intros HF Hpl Hmod El. unfold inb_ax, inb_fac. numR. unfold one_minus_tiny. numR.
  set (al := set_ends (map (fun x => x * ((1 - Fx) / Fx)) xx) (tiny * ((1 - Fx) / Fx)) (1 * ((1 - Fx) / Fx))).
  set (be := set_ends (map (fun x => (1 - x) * ((1 - Fx) / Fx)) xx) (1 * ((1 - Fx) / Fx)) (tiny * ((1 - Fx) / Fx))).
  set (cols := map (fun ab => ppow (bb_table pl (fst ab) (snd ab)) (n / pl)) (combine al be)).
  assert (Lc : length cols = length xx).
  { subst cols al be. rewrite map_length, combine_length, !set_ends_length, !map_length. lia. }
  rewrite (map_ext _ (fun i => map (fun xc => nth i (snd xc) 0) (combine xx cols))) by (intros; reflexivity).
  apply (fac_apply_total (fun i (xc : R * list R) => nth i (snd xc) 0) (combine xx cols) xx (S n) v).
  - rewrite combine_length. lia.
  - intros [x col] Hin. cbn [snd]. apply in_combine_r in Hin. subst cols. apply in_map_iff in Hin. destruct Hin as [[a b] [<- Hab]].
    cbn [fst snd].
    assert (Hr : rising (a + b) pl <> 0) by (apply Rgt_not_eq, rising_pos; subst al be; apply (inb_alpha_beta_pos Fx xx a b HF Hab)).
    assert (Ln : length (ppow (bb_table pl a b) (n / pl)) = S n).
    { rewrite ppow_length; unfold bb_table; rewrite ?map_length, ?seq_length; [|cbn [seq map]; discriminate].
      replace (S pl - 1)%nat with pl by lia. pose proof (Nat.div_exact n pl Hpl) as [_ Hd]. specialize (Hd Hmod). lia. }
    rewrite <- Ln, <- rsum_nth, rsum_ppow, betabinom_sum1 by assumption. apply pow1. Qed.

Lemma inb_ops_sums k ns pls (Fs : list R) xxs shape :
  Forall2 (fun xx L => length xx = L) xxs shape -> length ns = length shape -> length pls = length shape -> length Fs = length shape ->
  Forall (fun f => 0 < f < 1) Fs -> Forall (fun np => snd np <> 0%nat /\ (fst np mod snd np = 0)%nat) (combine ns pls) ->
  Forall2 (fun ol xx => sums_to_trapz (fst ol) (snd ol) xx)
    (combine (map2 (fun k q => let '(n, pl, Fx, xx) := q in (@inb_ax R _ false n pl Fx xx, S n))
                   (seq k (length ns)) (combine (combine (combine ns pls) Fs) xxs)) shape) xxs.
Proof. intros HL. revert k ns pls Fs. induction HL as [|xx L xxs shape HxL HL IH]; intros k ns pls Fs Hn Hp Hf HF Hnp.
  - destruct ns; try discriminate. constructor.
  - destruct ns as [|n ns], pls as [|pl pls], Fs as [|Fx Fs]; try discriminate.
    cbn [length seq combine]. rewrite map2_cons. cbn [combine]. cbn [combine] in Hnp.
    pose proof (Forall_inv HF) as HF0. pose proof (Forall_inv_tail HF) as HF'.
    pose proof (Forall_inv Hnp) as [Hpl Hmod]. pose proof (Forall_inv_tail Hnp) as Hnp'. cbn [fst snd] in *.
    constructor.
    + intros v Hv. cbn [fst snd] in Hv |- *. apply inb_ax_total; try assumption. lia.
    + apply IH; cbn in *; try lia; assumption. Qed.

(** Spectrum.from_phi_inbreeding (no ascertainment): the spectrum sums to the trapezoid mass of phi *)
Theorem inbreeding_total ns pls (Fs : list R) xxs shape phi :
  Forall2 (fun xx L => length xx = L) xxs shape -> length ns = length shape -> length pls = length shape -> length Fs = length shape ->
  Forall (fun f => 0 < f < 1) Fs -> Forall (fun np => snd np <> 0%nat /\ (fst np mod snd np = 0)%nat) (combine ns pls) ->
  length phi = prodl shape ->
  rsum (nd (inb_ops None ns pls Fs xxs) shape phi) = trapz_nd xxs shape phi.
Proof. intros HL Hn Hp Hf HF Hnp Hphi.
  assert (Hx : length xxs = length shape) by (clear -HL; induction HL; cbn; congruence).
  apply nd_total; [apply inb_ops_ok; assumption | | assumption]. apply (inb_ops_sums 0 ns pls Fs xxs shape HL Hn Hp Hf HF Hnp). Qed.
