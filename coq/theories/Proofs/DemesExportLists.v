(** * DemesExportLists: generic facts used by the export round trip (DemesExportRoundTrip.v): the order of times,
    [sort_desc] of a list whose distinct values are known, [ordered_demes] of a list already in order, ascending lists of
    names, and the importer on a graph whose times / sizes / rates are scaled as [Demes.output] scales them. *)
From Coq Require Import ZArith Reals List Bool Arith Lra Lia.
From Dadi Require Import Base.Num Base.NumR Model.DemesFront Proofs.DemesBase Proofs.DemesRescale Proofs.DemesUnits
     Proofs.DemesOrder.
Import ListNotations.
Local Open Scope R_scope.

(** ** the order of times *)
Ltac tsolve :=
  repeat match goal with t : timeR |- _ => destruct t end;
  unfold tlt in *; cbn [tleb teqb tval] in *; numR;
  repeat match goal with
         | H : Rleb _ _ = true |- _ => apply Rleb_true in H
         | H : Rleb _ _ = false |- _ => apply Rleb_false in H
         | H : Reqb _ _ = true |- _ => apply Reqb_true in H
         | H : Reqb _ _ = false |- _ => apply Reqb_false in H
         | H : Fin _ = Fin _ |- _ => injection H as H
         end;
  try discriminate; try reflexivity;
  try match goal with
      | |- Rleb _ _ = true => apply Rleb_true
      | |- Rleb _ _ = false => apply Rleb_false
      | |- Reqb _ _ = true => apply Reqb_true
      | |- Reqb _ _ = false => apply Reqb_false; intro
      | |- Fin _ = Fin _ => f_equal
      end;
  try lra.

Lemma tleb_refl (t : timeR) : tleb t t = true. Proof. tsolve. Qed.
Lemma teqb_refl (t : timeR) : teqb t t = true. Proof. tsolve. Qed.
Lemma teqb_eq (a b : timeR) : teqb a b = true -> a = b. Proof. intros. tsolve. Qed.
Lemma teqb_sym (a b : timeR) : teqb a b = teqb b a.
Proof. destruct (teqb a b) eqn:E. - apply teqb_eq in E. subst. now rewrite teqb_refl. - destruct (teqb b a) eqn:E'; auto.
  apply teqb_eq in E'. subst. now rewrite teqb_refl in E. Qed.
Lemma tleb_trans (a b c : timeR) : tleb a b = true -> tleb b c = true -> tleb a c = true. Proof. intros. tsolve. Qed.
Lemma tlt_trans (a b c : timeR) : tlt a b -> tlt b c -> tlt a c. Proof. intros. tsolve. Qed.
Lemma tleb_tlt_trans (a b c : timeR) : tleb a b = true -> tlt b c -> tlt a c. Proof. intros. tsolve. Qed.
Lemma tlt_tleb_trans (a b c : timeR) : tlt a b -> tleb b c = true -> tlt a c. Proof. intros. tsolve. Qed.
Lemma tlt_tleb (a b : timeR) : tlt a b -> tleb a b = true. Proof. intros. tsolve. Qed.
Lemma tlt_irrefl (a : timeR) : ~ tlt a a. Proof. intros K. tsolve. Qed.
Lemma tlt_neq (a b : timeR) : tlt a b -> teqb a b = false /\ teqb b a = false. Proof. intros. split; tsolve. Qed.
Lemma tlt_neq1 (a b : timeR) : tlt a b -> teqb a b = false. Proof. intros K. now destruct (tlt_neq _ _ K). Qed.
Lemma tlt_neq2 (a b : timeR) : tlt a b -> teqb b a = false. Proof. intros K. now destruct (tlt_neq _ _ K). Qed.
Lemma tleb_neq_tlt (a b : timeR) : teqb a b = false -> tleb b a = true -> tlt b a.
Proof.
  destruct a as [x|], b as [y|]; unfold tlt; cbn [tleb teqb]; numR; intros E L; try discriminate; auto.
  apply Reqb_false in E. apply Rleb_true in L. apply Rleb_false. destruct (Rle_lt_or_eq_dec _ _ L); auto. subst. contradiction.
Qed.

(** ** [sort_desc]: the strictly descending list of the distinct values *)
Fixpoint sdesc (l : list timeR) : Prop :=
  match l with [] => True | x :: r => (forall y, In y r -> tlt y x) /\ sdesc r end.

Lemma ins_desc_spec x l : sdesc l -> sdesc (ins_desc x l) /\ (forall y, In y (ins_desc x l) <-> y = x \/ In y l).
Proof.
  induction l as [|z l IH]; intros Hs.
  - cbn. split; [split; [intros y []|exact I]|]. intros y. split; intros K.
    + destruct K as [K|[]]; auto.
    + destruct K as [K|[]]; auto.
  - cbn [ins_desc]. destruct Hs as [Hz Hl]. destruct (teqb x z) eqn:E.
    + apply teqb_eq in E. subst z. split; [split; auto|]. intros y. cbn. split; intros K; [tauto|]. destruct K as [K|K]; auto.
    + destruct (tleb z x) eqn:L.
      * split.
        -- split; [|split; auto]. intros y [<-|Hy].
           ++ apply tleb_neq_tlt; auto.
           ++ specialize (Hz y Hy). eapply tlt_trans; eauto. apply tleb_neq_tlt; auto.
        -- intros y. cbn. split; intros K; [destruct K as [K|K]; auto|destruct K as [K|K]; auto].
      * specialize (IH Hl) as [I1 I2]. split.
        -- split; auto. intros y Hy. apply I2 in Hy as [->|Hy]; auto.
        -- intros y. cbn. rewrite I2. tauto.
Qed.

Lemma sort_desc_spec l : sdesc (sort_desc l) /\ (forall y, In y (sort_desc l) <-> In y l).
Proof.
  induction l as [|x l [I1 I2]]; [cbn; split; [auto|tauto]|].
  change (sort_desc (x :: l)) with (ins_desc x (sort_desc l)).
  destruct (ins_desc_spec x (sort_desc l) I1) as [J1 J2]. split; auto.
  intros y. rewrite J2, I2. cbn. split; intros [K|K]; auto.
Qed.

Lemma sdesc_unique l1 : forall l2, sdesc l1 -> sdesc l2 -> (forall y, In y l1 <-> In y l2) -> l1 = l2.
Proof.
  induction l1 as [|x1 r1 IH]; intros [|x2 r2] S1 S2 E; auto.
  - exfalso. apply (E x2). now left.
  - exfalso. apply (E x1). now left.
  - destruct S1 as [H1 S1], S2 as [H2 S2].
    assert (X : x1 = x2).
    { destruct (proj1 (E x1) (or_introl eq_refl)) as [K|K]; auto.
      destruct (proj2 (E x2) (or_introl eq_refl)) as [K'|K']; auto.
      exfalso. apply (tlt_irrefl x1). eapply tlt_trans; [apply H2, K|apply H1, K']. }
    subst x2. f_equal. apply IH; auto. intros y. split; intros Hy.
    + destruct (proj1 (E y) (or_intror Hy)) as [K|K]; auto. subst y. exfalso. apply (tlt_irrefl x1). now apply H1.
    + destruct (proj2 (E y) (or_intror Hy)) as [K|K]; auto. subst y. exfalso. apply (tlt_irrefl x1). now apply H2.
Qed.

Lemma sort_desc_eq l s : sdesc s -> (forall y, In y l <-> In y s) -> sort_desc l = s.
Proof.
  intros Hs E. destruct (sort_desc_spec l) as [S1 S2]. apply sdesc_unique; auto. intros y. now rewrite S2.
Qed.

(** ** [ordered_demes] of a list whose start times never increase *)
Fixpoint wdesc (l : list (deme R)) : Prop :=
  match l with [] => True | d :: r => (forall d', In d' r -> tleb (d_start d') (d_start d) = true) /\ wdesc r end.

Lemma flat_map_ext_in' {A B} (f g : A -> list B) l : (forall x, In x l -> f x = g x) -> flat_map f l = flat_map g l.
Proof. induction l; intros E; cbn; auto. rewrite E by now left. rewrite IHl; auto. intros; apply E; now right. Qed.

Lemma filter_none {A} (p : A -> bool) l : (forall x, In x l -> p x = false) -> filter p l = [].
Proof. induction l; intros E; cbn; auto. rewrite E by now left. apply IHl. intros; apply E; now right. Qed.
Lemma filter_all {A} (p : A -> bool) l : (forall x, In x l -> p x = true) -> filter p l = l.
Proof. induction l; intros E; cbn; auto. rewrite E by now left. f_equal. apply IHl. intros; apply E; now right. Qed.

Lemma ordered_demes_sorted (l : list (deme R)) : wdesc l ->
  flat_map (fun k => filter (fun d => teqb (d_start d) k) l) (sort_desc (map d_start l)) = l.
Proof.
  induction l as [|d r IH]; intros W; [reflexivity|]. destruct W as [Wd Wr]. specialize (IH Wr).
  cbn [map]. change (sort_desc (d_start d :: map d_start r)) with (ins_desc (d_start d) (sort_desc (map d_start r))).
  destruct (sort_desc_spec (map d_start r)) as [S1 S2]. set (s := sort_desc (map d_start r)) in *.
  assert (Hle : forall k, In k s -> tleb k (d_start d) = true).
  { intros k Hk. apply S2 in Hk. apply in_map_iff in Hk as (d' & <- & Hd'). auto. }
  destruct s as [|y s'] eqn:Es.
  - assert (r = []). { destruct r as [|d' r']; [reflexivity|]. exfalso. apply (proj2 (S2 (d_start d'))). now left. }
    subst r. cbn. now rewrite teqb_refl.
  - cbn [ins_desc]. destruct (teqb (d_start d) y) eqn:E.
    + apply teqb_eq in E. cbn [flat_map filter]. rewrite <- E at 1. rewrite teqb_refl. cbn [app]. f_equal.
      etransitivity; [|exact IH]. cbn [flat_map]. f_equal.
      apply flat_map_ext_in'. intros k Hk. destruct S1 as [S1 _]. specialize (S1 k Hk).
      rewrite <- E in S1. destruct (tlt_neq _ _ S1) as [_ N]. now rewrite N.
    + assert (L : tleb y (d_start d) = true) by (apply Hle; now left). rewrite L.
      assert (Ylt : tlt y (d_start d)) by (apply tleb_neq_tlt; auto).
      cbn [flat_map filter]. rewrite teqb_refl. cbn [app].
      rewrite (filter_none _ r).
      2:{ intros d' Hd'. assert (K : In (d_start d') (y :: s')) by (apply S2, in_map; auto).
          assert (T : tlt (d_start d') (d_start d)).
          { destruct K as [<-|K]; auto. destruct S1 as [S1 _]. eapply tlt_trans; eauto. }
          now destruct (tlt_neq _ _ T). }
      cbn [app]. f_equal. etransitivity; [|exact IH].
      change (flat_map (fun k => filter (fun d0 => teqb (d_start d0) k) (d :: r)) (y :: s')
              = flat_map (fun k => filter (fun d0 => teqb (d_start d0) k) r) (y :: s')).
      apply flat_map_ext_in'. intros k Hk. cbn [filter].
      assert (T : tlt k (d_start d)).
      { destruct Hk as [<-|K]; auto. destruct S1 as [S1 _]. eapply tlt_trans; eauto. }
      destruct (tlt_neq _ _ T) as [_ N]. now rewrite N.
Qed.

(** ** strictly ascending lists of names between two bounds *)
Fixpoint asc (lo : nat) (ids : list nat) (hi : nat) : Prop :=
  match ids with [] => (lo <= hi)%nat | x :: r => (lo <= x)%nat /\ asc (S x) r hi end.

Lemma asc_le lo ids hi : asc lo ids hi -> (lo <= hi)%nat.
Proof. revert lo. induction ids as [|x r IH]; intros lo; cbn; auto. intros [H1 H2]. apply IH in H2. lia. Qed.
Lemma asc_weaken lo lo' ids hi hi' : (lo' <= lo)%nat -> (hi <= hi')%nat -> asc lo ids hi -> asc lo' ids hi'.
Proof.
  revert lo lo'. induction ids as [|x r IH]; intros lo lo' L1 L2; cbn; [lia|]. intros [H1 H2]. split; [lia|].
  eapply IH; eauto.
Qed.
Lemma asc_In lo ids hi x : asc lo ids hi -> In x ids -> (lo <= x < hi)%nat.
Proof.
  revert lo. induction ids as [|y r IH]; intros lo A Hx; [destruct Hx|]. destruct Hx as [->|Hx].
  - destruct A as [A1 A2]. apply asc_le in A2. lia.
  - destruct A as [A1 A2]. specialize (IH _ A2 Hx). lia.
Qed.
Lemma asc_NoDup lo ids hi : asc lo ids hi -> NoDup ids.
Proof.
  revert lo. induction ids as [|y r IH]; intros lo A; constructor.
  - destruct A as [_ A]. intros K. apply (asc_In _ _ _ _ A) in K. lia.
  - destruct A as [_ A]. eapply IH; eauto.
Qed.
Lemma asc_app lo l x hi : asc lo l x -> (x < hi)%nat -> asc lo (l ++ [x]) hi.
Proof. revert lo. induction l as [|y r IH]; intros lo; cbn; [intros; lia|]. intros [A1 A2] L. split; auto. Qed.
Lemma asc_seq lo n : asc lo (seq lo n) (lo + n).
Proof. revert lo. induction n; intros lo; cbn; [lia|]. split; auto. replace (lo + S n)%nat with (S lo + n)%nat by lia. apply IHn. Qed.
Lemma asc_remove lo ids hi k : asc lo ids hi -> asc lo (remove_nth k ids) hi.
Proof.
  revert lo k. induction ids as [|y r IH]; intros lo k A; destruct k; cbn; auto.
  - cbn in A. destruct A as [A1 A2]. eapply asc_weaken; [| |exact A2]; lia.
  - cbn in A. destruct A as [A1 A2]. split; auto.
Qed.

Lemma mem_false x l : mem x l = false <-> ~ In x l.
Proof. split; intros K. - intros I. apply mem_In in I. congruence. - destruct (mem x l) eqn:E; auto. apply mem_In in E. contradiction. Qed.

Lemma filter_mem_seq ids : forall lo hi, asc lo ids hi -> filter (fun x => mem x ids) (seq lo (hi - lo)) = ids.
Proof.
  induction ids as [|x r IH]; intros lo hi A.
  - apply filter_none. intros; reflexivity.
  - destruct A as [A1 A2]. pose proof (asc_le _ _ _ A2) as L.
    replace (hi - lo)%nat with ((x - lo) + S (hi - S x))%nat by lia.
    rewrite seq_app, filter_app. replace (lo + (x - lo))%nat with x by lia.
    rewrite filter_none.
    2:{ intros y Hy. apply in_seq in Hy. apply mem_false. intros [K|K]; [lia|]. apply (asc_In _ _ _ _ A2) in K. lia. }
    cbn [app seq filter]. unfold mem at 1. cbn [existsb]. rewrite Nat.eqb_refl. cbn [orb]. f_equal.
    etransitivity; [|exact (IH (S x) hi A2)]. apply filter_ext_in. intros y Hy. apply in_seq in Hy.
    unfold mem. cbn [existsb]. destruct (Nat.eqb y x) eqn:E; auto. apply Nat.eqb_eq in E. lia.
Qed.

(** positions *)
Lemma index_of_nth_NoDup ids : NoDup ids -> forall j, (j < length ids)%nat -> index_of (nth j ids 0%nat) ids = Some j.
Proof.
  induction ids as [|y r IH]; intros N j L; [cbn in L; lia|]. inversion N as [|? ? N1 N2]; subst.
  destruct j; cbn [nth index_of]. - now rewrite Nat.eqb_refl.
  - cbn in L. destruct (Nat.eqb (nth j r 0%nat) y) eqn:E.
    + apply Nat.eqb_eq in E. exfalso. apply N1. rewrite <- E. apply nth_In. lia.
    + rewrite IH by (auto; lia). reflexivity.
Qed.
Lemma index_of_Some x ids j : index_of x ids = Some j -> (j < length ids)%nat /\ nth j ids 0%nat = x.
Proof.
  revert j. induction ids as [|y r IH]; intros j; cbn; [discriminate|].
  destruct (Nat.eqb x y) eqn:E.
  - intros K; injection K as <-. apply Nat.eqb_eq in E. split; [lia|auto].
  - destruct (index_of x r) as [i|]; cbn; [|discriminate]. intros K; injection K as <-. destruct (IH i eq_refl). split; [lia|auto].
Qed.
Lemma index_of_None x ids : index_of x ids = None <-> ~ In x ids.
Proof.
  induction ids as [|y r IH]; cbn; [tauto|]. destruct (Nat.eqb x y) eqn:E.
  - apply Nat.eqb_eq in E. split; [discriminate|]. intros K; exfalso; apply K; auto.
  - apply Nat.eqb_neq in E. destruct (index_of x r); cbn; split; intros K; try discriminate; try tauto.
    + exfalso. destruct IH as [_ IH]. assert (~ In x r) by tauto. specialize (IH H). discriminate.
    + intros [K'|K']; [congruence|]. now apply IH.
Qed.
Lemma index_of_In x ids : In x ids -> exists j, index_of x ids = Some j.
Proof. intros I. destruct (index_of x ids) eqn:E; eauto. apply index_of_None in E. contradiction. Qed.
Lemma indices_of_seq ids : NoDup ids -> indices_of ids ids = Some (seq 0 (length ids)).
Proof.
  intros N. assert (G : forall l, (forall x, In x l -> In x ids) ->
    indices_of l ids = Some (map (fun x => match index_of x ids with Some j => j | None => 0%nat end) l)).
  { induction l as [|x l IH]; intros S; cbn; auto. destruct (index_of_In x ids) as [j Ej]; [apply S; now left|].
    rewrite Ej, IH by (intros; apply S; now right). reflexivity. }
  rewrite G by auto. f_equal. apply nth_ext with (d := 0%nat) (d' := 0%nat); rewrite map_length; [now rewrite seq_length|].
  intros j Lj. rewrite (nth_indep _ _ (match index_of 0%nat ids with Some j => j | None => 0%nat end)) by (now rewrite map_length).
  rewrite (map_nth (fun x => match index_of x ids with Some j => j | None => 0%nat end)).
  rewrite index_of_nth_NoDup by auto. now rewrite seq_nth.
Qed.

(** ** the importer on a graph scaled as the exporter scales it: times x 2N, sizes x N, rates / (2N), Ne = N *)
Definition rawT (iv : interval R) : R := match fst iv with Inf => 0 | Fin a => a - tval (snd iv) end.
Definition rawstep (g : graph R) (iv : interval R) : step R :=
  let live := present g iv in
  let T := rawT iv in
  mkStep iv live T
         (make_nu_func (map (fun id => match find_deme g id with Some d => sizes_at_time d iv | None => (1, 1, SConstant) end) live) T 1)
         (map (fun d_to => map (fun d_from => if Nat.eqb d_from d_to then 0 else mig_rate g d_from d_to iv) live) live)
         (map (fun id => mem id []) live).

Lemma mk_step_export N g iv : 0 < N -> wf_graph g ->
  mk_step (gmap (2 * N) N (/ (2 * N)) g) [] N (ivmap (2 * N) iv) = stepmap (2 * N) (rawstep g iv).
Proof.
  intros HN Hwf. assert (Ha : 0 < 2 * N) by lra. unfold mk_step, rawstep, stepmap. cbn [st_iv st_live st_T st_nus st_M st_fr].
  rewrite present_gmap by auto.
  assert (ET : interval_T (ivmap (2 * N) iv) N = rawT iv).
  { unfold interval_T, rawT. cbn [fst snd ivmap]. destruct (fst iv) as [x|]; cbn [tmap]; auto. rewrite tval_tmap.
    numR_all. field. lra. }
  rewrite ET. f_equal.
  - rewrite <- (make_nu_func_scale N _ (rawT iv) 1) by lra. rewrite Rmult_1_r. f_equal. rewrite map_map.
    apply map_ext_in. intros id Hid. rewrite find_deme_gmap. destruct (find_deme g id) as [d|] eqn:E; cbn [option_map].
    + apply sizes_at_time_map; auto; try lra. apply Hwf. unfold find_deme in E. apply find_some in E. tauto.
    + exfalso. apply present_in in Hid as (d & Hd & Hid). unfold find_deme in E.
      apply (find_none _ _ E) in Hd. rewrite Hid, Nat.eqb_refl in Hd. discriminate.
  - unfold mig_mat. apply map_ext. intros d_to. apply map_ext. intros d_from.
    destruct (Nat.eqb d_from d_to); auto. rewrite mig_rate_map by auto. numR_all. field. lra.
Qed.

Lemma core_run_export ws pnu N g evs sampled : 0 < N -> wf_graph g ->
  core_run ws pnu (gmap (2 * N) N (/ (2 * N)) g) (evmap (2 * N) evs) sampled [] (Some N)
  = if existsb (fun iv => Nat.ltb 5 (length (present g iv))) (used_intervals g) then mkSt [] [err_call 1] false else
    let steps := map (rawstep g) (used_intervals g) in
    let first := hd (mkStep (Inf, Inf) [] 0 [] [] []) steps in
    let root_nu := if pnu then match st_nus first with s :: _ => sf_eval s 0 | [] => 1 end else 1 in
    run_steps ws steps (evs ++ marg_events g sampled)
              (mkSt [] [simple_call F_phi_1D [root_nu] [] [hd 0%nat (st_live first)]] true).
Proof.
  intros HN Hwf. assert (Ha : 0 < 2 * N) by lra. unfold core_run.
  rewrite used_intervals_gmap by auto. rewrite existsb_map.
  rewrite (existsb_ext' _ (fun iv => Nat.ltb 5 (length (present g iv)))) by (intros; now rewrite present_gmap).
  destruct (existsb _ (used_intervals g)); auto.
  unfold plan. rewrite used_intervals_gmap by auto. rewrite map_map.
  rewrite (map_ext _ (fun iv => stepmap (2 * N) (rawstep g iv))) by (intros; apply mk_step_export; auto).
  rewrite <- (map_map (rawstep g) (stepmap (2 * N))).
  rewrite marg_events_gmap by auto. rewrite <- evmap_app.
  set (steps := map (rawstep g) (used_intervals g)).
  assert (Ehd : hd (mkStep (Inf, Inf) [] n0 [] [] []) (map (stepmap (2 * N)) steps)
                = stepmap (2 * N) (hd (mkStep (Inf, Inf) [] n0 [] [] []) steps)).
  { destruct steps; reflexivity. }
  rewrite Ehd. cbn [st_live st_nus stepmap]. cbv zeta. apply run_steps_scale; auto.
Qed.
