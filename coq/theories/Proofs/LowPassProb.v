(** C18: genotype-partition probabilities: non-negative, sum to one (F = 0 and 0 < F < 1), and the
    F-dependence is a rational function without a pole on [0,1) whose value at F = 0 is the F = 0 branch. *)
From Coq Require Import ZArith QArith Qreduction List Bool Arith Lia Lqa Setoid Morphisms.
From Dadi Require Import Model.LowPass Proofs.LowPassPart Proofs.LowPassQ.
Import ListNotations.
Local Open Scope Q_scope.

(** ** normalisation *)
Lemma normalise_length ws : length (normalise ws) = length ws.
Proof. unfold normalise. now rewrite map_length. Qed.

Lemma qsum_div_red ws t : qsum (map (fun w => Qred (w / t)) ws) == qsum ws / t.
Proof.
  induction ws as [|a ws IH]; cbn [map]; rewrite ?qsum_cons, ?qsum_nil.
  - unfold Qdiv. ring.
  - rewrite IH, Qred_correct. unfold Qdiv. ring.
Qed.

Lemma normalise_sum ws : ~ qsum ws == 0 -> qsum (normalise ws) == 1.
Proof. intros H. unfold normalise. rewrite qsum_div_red. field. exact H. Qed.

Lemma normalise_nonneg ws : (forall w, In w ws -> 0 <= w) -> forall y, In y (normalise ws) -> 0 <= y.
Proof.
  intros H y Hy. unfold normalise in Hy. apply in_map_iff in Hy. destruct Hy as (w & <- & Hw).
  rewrite Qred_correct. pose proof (qsum_nonneg ws H) as Ht. specialize (H w Hw).
  unfold Qdiv. apply Qmult_le_0_compat; [exact H|]. apply Qinv_le_0_compat, Ht.
Qed.

(** normalising K*w gives the same probabilities *)
Lemma normalise_scale {A} (K : Q) (f g : A -> Q) l : ~ K == 0 -> (forall x, In x l -> f x == K * g x) ->
  Forall2 Qeq (normalise (map f l)) (normalise (map g l)).
Proof.
  intros HK E. unfold normalise.
  assert (Et : qsum (map f l) == K * qsum (map g l)).
  { rewrite <- qsum_map_scale. apply qsum_map_ext, E. }
  set (tf := qsum (map f l)) in *. set (tg := qsum (map g l)) in *. clearbody tf tg.
  induction l as [|a l IH]; cbn [map]; constructor.
  - rewrite !Qred_correct, Et, (E a (or_introl eq_refl)).
    destruct (Qeq_dec tg 0) as [Z|NZ].
    + rewrite Z. unfold Qdiv. setoid_replace (K * 0) with 0 by ring. cbn. ring.
    + field. split; assumption.
  - apply IH. intros; apply E; now right.
Qed.

Lemma normalise_ext {A} (f g : A -> Q) l : (forall x, In x l -> f x == g x) ->
  Forall2 Qeq (normalise (map f l)) (normalise (map g l)).
Proof. intros E. apply (normalise_scale 1); [lra|]. intros x Hx. rewrite (E x Hx). ring. Qed.

(** ** weights *)
Lemma multinom3_pos a b c : 0 < multinom3 a b c.
Proof.
  unfold multinom3. pose proof (qfact_pos (a + b + c)). pose proof (qfact_pos a).
  pose proof (qfact_pos b). pose proof (qfact_pos c).
  apply Qlt_shift_div_l; [|lra]. apply Qmult_lt_0_compat; [apply Qmult_lt_0_compat|]; assumption.
Qed.

Lemma ways0_pos pt : 0 < ways0 pt.
Proof. unfold ways0. apply Qmult_lt_0_compat; [apply multinom3_pos | apply qpow_pos; lra]. Qed.

(** polynomial form of the three genotype probabilities: Hardy-Weinberg with inbreeding *)
Definition bb_poly (p F : Q) : Q * Q * Q :=
  ((1 - p) * (1 - p) + F * p * (1 - p), 2 * p * (1 - p) * (1 - F), p * p + F * p * (1 - p)).

Lemma bb_probs_poly p F : ~ F == 0 -> ~ F == 1 ->
  let '(a, b, c) := bb_probs p F in let '(a', b', c') := bb_poly p F in a == a' /\ b == b' /\ c == c'.
Proof.
  intros H0 H1. unfold bb_probs, bb_poly. cbv zeta.
  assert (~ 1 - F == 0) by lra.
  rewrite !Qred_correct.
  repeat split; field; repeat split; try assumption; lra.
Qed.

(** [ways_inb] with the polynomial form: defined (and polynomial in F) for every F *)
Definition ways_poly (F : Q) (pt : list nat) : Q :=
  let n := length pt in
  let sm := list_sum pt in
  if (sm =? 0)%nat || (sm =? 2 * n)%nat then 1
  else
    match bb_poly (pfreq pt) F with
    | (p00, p01, p11) =>
      multinom3 (cnt 0 pt) (cnt 1 pt) (cnt 2 pt)
      * qpow p00 (cnt 0 pt) * qpow p01 (cnt 1 pt) * qpow p11 (cnt 2 pt)
    end.
Definition part_probs_poly (F : Q) (pts : list (list nat)) : list Q := normalise (map (ways_poly F) pts).

Lemma ways_inb_poly F pt : 0 < F -> F < 1 -> ways_inb F pt == ways_poly F pt.
Proof.
  intros H0 H1. unfold ways_inb, ways_poly. cbv zeta.
  destruct ((list_sum pt =? 0)%nat || (list_sum pt =? 2 * length pt)%nat); [reflexivity|].
  set (p := pfreq pt).
  pose proof (bb_probs_poly p F) as E.
  destruct (bb_probs p F) as [[a b] c]. destruct (bb_poly p F) as [[a' b'] c'].
  destruct E as (Ea & Eb & Ec); [lra | lra |]. rewrite Qred_correct, Ea, Eb, Ec. reflexivity.
Qed.

(** the allele frequency of a configuration lies strictly inside (0,1) unless x = 0 or x = 2n *)
Lemma config_p n x pt : is_config n (Z.of_nat x) 0 pt -> (0 < x < 2 * n)%nat ->
  let p := pfreq pt in
  p == qnat x / qnat (2 * n) /\ 0 < p /\ p < 1.
Proof.
  intros C Hx. pose proof (counts_of_config pt (config_le2 _ _ _ _ C)) as [C1 C2].
  destruct C as (L & Sm & _ & _). apply Nat2Z.inj in Sm.
  cbv zeta. unfold pfreq. rewrite Qred_correct. replace (2 * cnt 2 pt + cnt 1 pt)%nat with x by lia. rewrite L.
  assert (0 < qnat x) by (apply qnat_pos; lia).
  assert (0 < qnat (2 * n)) by (apply qnat_pos; lia).
  assert (qnat x < qnat (2 * n)) by (unfold qnat; rewrite <- Zlt_Qlt; lia).
  split; [reflexivity|]. split.
  - apply Qlt_shift_div_l; lra.
  - apply Qlt_shift_div_r; lra.
Qed.

Lemma bb_poly_pos p F : 0 < p -> p < 1 -> 0 <= F -> F < 1 ->
  let '(a, b, c) := bb_poly p F in 0 < a /\ 0 < b /\ 0 < c.
Proof.
  intros Hp Hp1 HF HF1. unfold bb_poly.
  assert (Hq : 0 < 1 - p) by lra.
  assert (Hpq : 0 < p * (1 - p)) by (apply Qmult_lt_0_compat; assumption).
  assert (Hqq : 0 < (1 - p) * (1 - p)) by (apply Qmult_lt_0_compat; assumption).
  assert (Hpp : 0 < p * p) by (apply Qmult_lt_0_compat; assumption).
  assert (HFp : 0 <= F * (p * (1 - p))) by (apply Qmult_le_0_compat; lra).
  assert (HF' : 0 < (p * (1 - p)) * (1 - F)) by (apply Qmult_lt_0_compat; lra).
  repeat split; nra.
Qed.

Lemma ways_poly_pos n x F pt : is_config n (Z.of_nat x) 0 pt -> 0 <= F -> F < 1 -> 0 < ways_poly F pt.
Proof.
  intros C H0 H1. unfold ways_poly. cbv zeta.
  destruct ((list_sum pt =? 0)%nat || (list_sum pt =? 2 * length pt)%nat) eqn:G; [lra|].
  apply orb_false_iff in G. destruct G as [G1 G2]. apply Nat.eqb_neq in G1, G2.
  pose proof (sum_bounds 0 pt) as B.
  assert (Hx : (0 < x < 2 * n)%nat).
  { destruct C as (L & Sm & Fa & _). apply Nat2Z.inj in Sm. specialize (B Fa). lia. }
  pose proof (config_p n x pt C Hx) as (_ & P0 & P1).
  set (p := pfreq pt) in *.
  pose proof (bb_poly_pos p F P0 P1 H0 H1) as Pp. destruct (bb_poly p F) as [[a b] c]. destruct Pp as (Pa & Pb & Pc).
  apply Qmult_lt_0_compat; [apply Qmult_lt_0_compat; [apply Qmult_lt_0_compat; [apply multinom3_pos|]|]|]; apply qpow_pos; assumption.
Qed.

Lemma ways_inb_pos n x F pt : is_config n (Z.of_nat x) 0 pt -> 0 < F -> F < 1 -> 0 < ways_inb F pt.
Proof. intros C H0 H1. rewrite ways_inb_poly by assumption. apply (ways_poly_pos n x); auto; lra. Qed.

(** ** sum to one, non-negative *)
Definition F_ok (F : Q) : Prop := F == 0 \/ (0 < F /\ F < 1).

Lemma weights_sum_pos {A} (f : A -> Q) l : l <> [] -> (forall x, In x l -> 0 < f x) -> ~ qsum (map f l) == 0.
Proof.
  intros N P. assert (0 < qsum (map f l)); [|lra]. apply qsum_pos.
  - intros y Hy. apply in_map_iff in Hy. destruct Hy as (x & <- & Hx). auto.
  - destruct l; [congruence|discriminate].
Qed.

Theorem part_probs_sum_to_one nseq x F : (x <= 2 * (nseq / 2))%nat -> F_ok F ->
  qsum (part_probs F (parts nseq x)) == 1.
Proof.
  intros Hx HF. unfold part_probs. pose proof (parts_nonempty nseq x Hx) as NE.
  destruct (Qeq_bool F 0) eqn:E.
  - apply normalise_sum, weights_sum_pos; [exact NE|]. intros; apply ways0_pos.
  - apply normalise_sum, weights_sum_pos; [exact NE|]. intros pt Hpt. apply parts_spec in Hpt.
    destruct HF as [HF|[H0 H1]]; [apply Qeq_bool_neq in E; contradiction|].
    apply (ways_inb_pos _ _ _ _ Hpt H0 H1).
Qed.

Theorem part_probs_nonneg nseq x F : F_ok F -> forall y, In y (part_probs F (parts nseq x)) -> 0 <= y.
Proof.
  intros HF. unfold part_probs. destruct (Qeq_bool F 0) eqn:E; apply normalise_nonneg; intros w Hw;
    apply in_map_iff in Hw; destruct Hw as (pt & <- & Hpt).
  - apply Qlt_le_weak, ways0_pos.
  - apply parts_spec in Hpt. destruct HF as [HF|[H0 H1]]; [apply Qeq_bool_neq in E; contradiction|].
    apply Qlt_le_weak, (ways_inb_pos _ _ _ _ Hpt H0 H1).
Qed.

Lemma part_probs_length F pts : length (part_probs F pts) = length pts.
Proof. unfold part_probs. destruct (Qeq_bool F 0); now rewrite normalise_length, map_length. Qed.

(** ** F -> 0 *)
(** at F = 0 the inbreeding weight is the F = 0 weight times a factor common to all configurations *)
Definition Kfac (n x : nat) : Q :=
  if (x =? 0)%nat || (x =? 2 * n)%nat then 1
  else let p := qnat x / qnat (2 * n) in qpow (1 - p) (2 * n - x) * qpow p x.

Lemma multinom3_n00 n : multinom3 n 0 0 == 1.
Proof. unfold multinom3. rewrite !Nat.add_0_r. pose proof (qfact_pos n). change (qfact 0) with 1. field. lra. Qed.
Lemma multinom3_00n n : multinom3 0 0 n == 1.
Proof. unfold multinom3. cbn [Nat.add]. pose proof (qfact_pos n). change (qfact 0) with 1. field. lra. Qed.

Lemma ways_poly_0 n x pt : is_config n (Z.of_nat x) 0 pt -> ways_poly 0 pt == Kfac n x * ways0 pt.
Proof.
  intros C. pose proof (counts_of_config pt (config_le2 _ _ _ _ C)) as [C1 C2].
  pose proof C as (L & Sm & Fa & _). apply Nat2Z.inj in Sm.
  unfold ways_poly, Kfac. cbv zeta. rewrite Sm, L.
  destruct (Nat.eqb_spec x 0) as [X0|X0]; [|destruct (Nat.eqb_spec x (2 * n)) as [X2|X2]]; cbn [orb].
  - unfold ways0. assert (cnt 1 pt = 0%nat) by lia. assert (cnt 2 pt = 0%nat) by lia.
    rewrite H, H0, multinom3_n00. cbn [qpow]. ring.
  - unfold ways0. assert (cnt 1 pt = 0%nat) by lia. assert (cnt 0 pt = 0%nat) by lia.
    rewrite H, H0, multinom3_00n. cbn [qpow]. ring.
  - assert (Hx : (0 < x < 2 * n)%nat) by (apply sum_bounds in Fa; lia).
    pose proof (config_p n x pt C Hx) as (Ep & _ & _).
    set (p' := pfreq pt) in *.
    set (p := qnat x / qnat (2 * n)) in *.
    unfold bb_poly, ways0.
    setoid_replace ((1 - p') * (1 - p') + 0 * p' * (1 - p')) with ((1 - p) * (1 - p)) by (rewrite Ep; ring).
    setoid_replace (2 * p' * (1 - p') * (1 - 0)) with (2 * (p * (1 - p))) by (rewrite Ep; ring).
    setoid_replace (p' * p' + 0 * p' * (1 - p')) with (p * p) by (rewrite Ep; ring).
    clearbody p p'.
    replace (2 * n - x)%nat with (cnt 0 pt + cnt 0 pt + cnt 1 pt)%nat by lia.
    replace (qpow p x) with (qpow p (cnt 1 pt + (cnt 2 pt + cnt 2 pt))) by (f_equal; lia).
    rewrite !qpow_mul, !qpow_add. ring.
Qed.

Lemma Kfac_pos n x : (x <= 2 * n)%nat -> 0 < Kfac n x.
Proof.
  intros Hx. unfold Kfac. destruct (Nat.eqb_spec x 0); [cbn; lra|]. destruct (Nat.eqb_spec x (2 * n)); cbn [orb]; [lra|].
  cbv zeta. assert (0 < qnat x) by (apply qnat_pos; lia). assert (0 < qnat (2 * n)) by (apply qnat_pos; lia).
  assert (qnat x < qnat (2 * n)) by (unfold qnat; rewrite <- Zlt_Qlt; lia).
  assert (0 < qnat x / qnat (2 * n)) by (apply Qlt_shift_div_l; lra).
  assert (qnat x / qnat (2 * n) < 1) by (apply Qlt_shift_div_r; lra).
  apply Qmult_lt_0_compat; apply qpow_pos; lra.
Qed.

Lemma Qeq_bool_refl0 : Qeq_bool 0 0 = true.
Proof. reflexivity. Qed.

(** the statement of continuity at F = 0: on (0,1) the probabilities ARE the rational functions
    [part_probs_poly] (polynomial numerators over a polynomial denominator), the denominator is positive
    on the whole of [0,1), and the value of the rational function at F = 0 is the F = 0 branch *)
Theorem part_probs_F_to_0 nseq x : (x <= 2 * (nseq / 2))%nat ->
  (forall F, 0 < F -> F < 1 -> Forall2 Qeq (part_probs F (parts nseq x)) (part_probs_poly F (parts nseq x)))
  /\ (forall F, 0 <= F -> F < 1 -> 0 < qsum (map (ways_poly F) (parts nseq x)))
  /\ Forall2 Qeq (part_probs_poly 0 (parts nseq x)) (part_probs 0 (parts nseq x)).
Proof.
  intros Hx. split; [|split].
  - intros F H0 H1. unfold part_probs, part_probs_poly.
    destruct (Qeq_bool F 0) eqn:E; [apply Qeq_bool_iff in E; lra|].
    apply normalise_ext. intros pt _. apply ways_inb_poly; assumption.
  - intros F H0 H1. apply qsum_pos.
    + intros y Hy. apply in_map_iff in Hy. destruct Hy as (pt & <- & Hpt). apply parts_spec in Hpt.
      apply (ways_poly_pos _ _ _ _ Hpt H0 H1).
    + pose proof (parts_nonempty nseq x Hx). destruct (parts nseq x); [congruence|discriminate].
  - unfold part_probs_poly, part_probs. rewrite Qeq_bool_refl0.
    apply (normalise_scale (Kfac (nseq / 2) x)).
    + pose proof (Kfac_pos (nseq / 2) x Hx). lra.
    + intros pt Hpt. apply parts_spec in Hpt. apply ways_poly_0, Hpt.
Qed.
