(** * Low-pass: the first k entries of a uniformly random ordering are a uniform k-subset (all n, all k <= n).

    [perm_prefix_uniform n k] (Proofs/LowPassSimExp.v) says of [ps := perms_of n (seq 0 n)]:
    (1) there are n! of them, (2) they are pairwise different, (3) each is a rearrangement of 0..n-1 (sorts to [seq 0 n]),
    (4) every k-subset S (element of [combs k (seq 0 n)]) is the sorted prefix of exactly k! (n-k)! of them.
    LowPassSimExp proves it for n <= 6 by computation; here it is proved for every n and every k <= n. *)
From Coq Require Import ZArith QArith List Bool Arith Lia Sorted Permutation Factorial.
From Dadi Require Import Model.LowPass Model.LowPassCheck Model.LowPassSim Proofs.LowPassPart Proofs.LowPassQ Proofs.LowPassProb
  Proofs.LowPassMat Proofs.LowPassF0 Proofs.LowPassSimExp.
Import ListNotations.
Local Open Scope nat_scope.

Local Notation rm := (remove Nat.eq_dec).

(** ** list equality test *)
Lemma lnat_eqb_eq : forall a b, lnat_eqb a b = true <-> a = b.
Proof.
  induction a as [|x a IH]; intros [|y b]; cbn [lnat_eqb]; split; intro H; try reflexivity; try discriminate.
  - apply andb_true_iff in H. destruct H as [H1 H2]. apply Nat.eqb_eq in H1. apply IH in H2. now subst.
  - injection H as H1 H2. subst y b. rewrite Nat.eqb_refl. cbn [andb]. now apply IH.
Qed.

Lemma nodupll_of_NoDup : forall l, NoDup l -> nodupll l = true.
Proof.
  induction 1 as [|x t Hx Ht IH]; [reflexivity|].
  cbn [nodupll]. rewrite IH, andb_true_r.
  destruct (existsb (lnat_eqb x) t) eqn:E; [|reflexivity].
  apply existsb_exists in E. destruct E as (y & Hy & Heq). apply lnat_eqb_eq in Heq. subst y. contradiction.
Qed.

(** ** removing one element from a duplicate-free list *)
Lemma pp_case_l {A} (l : list A) : l = [] \/ l <> [].
Proof. destruct l; [left; reflexivity | right; discriminate]. Qed.

Lemma NoDup_rm x l : NoDup l -> NoDup (rm x l).
Proof.
  induction 1 as [|a l Ha Hl IH]; cbn [remove]; [constructor|].
  destruct (Nat.eq_dec x a) as [E|E]; [exact IH|].
  constructor; [|exact IH]. intro H. apply in_remove in H. destruct H as [H _]. contradiction.
Qed.

Lemma perm_rm x l : NoDup l -> In x l -> Permutation l (x :: rm x l).
Proof.
  intros Hl Hx. apply NoDup_Permutation; [exact Hl| |].
  - constructor; [apply remove_In | now apply NoDup_rm].
  - intro y. split; intro H.
    + destruct (Nat.eq_dec y x) as [->|E]; [now left|]. right. now apply in_in_remove.
    + destruct H as [<-|H]; [exact Hx|]. apply in_remove in H. tauto.
Qed.

Lemma length_rm x l : NoDup l -> In x l -> S (length (rm x l)) = length l.
Proof. intros Hl Hx. pose proof (Permutation_length (perm_rm x l Hl Hx)) as H. cbn [length] in H. lia. Qed.

Lemma incl_rm x (S l : list nat) : incl S l -> incl (rm x S) (rm x l).
Proof. intros Hi y Hy. apply in_remove in Hy. destruct Hy as [Hy Hne]. apply in_in_remove; [exact Hne|]. now apply Hi. Qed.

(** ** generic list facts *)
Lemma pp_NoDup_app {A} (a b : list A) : NoDup a -> NoDup b -> (forall z, In z a -> ~ In z b) -> NoDup (a ++ b).
Proof.
  induction 1 as [|x a Hx Ha IH]; intros Hb D; cbn [app]; [exact Hb|].
  constructor.
  - intro H. apply in_app_iff in H. destruct H as [H|H]; [contradiction|]. apply (D x); [now left|exact H].
  - apply IH; [exact Hb|]. intros z Hz. apply D. now right.
Qed.

Lemma pp_NoDup_flat_map {A B} (f : A -> list B) l :
  NoDup l -> (forall x, In x l -> NoDup (f x)) ->
  (forall x y z, In x l -> In y l -> In z (f x) -> In z (f y) -> x = y) -> NoDup (flat_map f l).
Proof.
  induction 1 as [|a l Ha Hl IH]; intros Hf D; cbn [flat_map]; [constructor|].
  apply pp_NoDup_app.
  - apply Hf. now left.
  - apply IH; [intros; apply Hf; now right|]. intros x y z Hx Hy. apply D; now right.
  - intros z Hz Hz'. apply in_flat_map in Hz'. destruct Hz' as (y & Hy & Hzy).
    assert (a = y) by (apply (D a y z); [now left | now right | exact Hz | exact Hzy]). subst y. contradiction.
Qed.

Lemma pp_NoDup_map_cons {A} (x : A) l : NoDup l -> NoDup (map (cons x) l).
Proof.
  induction 1 as [|a l Ha Hl IH]; cbn [map]; constructor; [|exact IH].
  intro H. apply in_map_iff in H. destruct H as (b & E & Hb). injection E as E. subst b. contradiction.
Qed.

Lemma pp_flat_map_length_const {A B} (f : A -> list B) c l :
  (forall x, In x l -> length (f x) = c) -> length (flat_map f l) = length l * c.
Proof.
  induction l as [|a l IH]; intros H; [reflexivity|].
  cbn [flat_map length]. rewrite app_length, H by now left. rewrite IH by (intros; apply H; now right). lia.
Qed.

Lemma pp_filter_map_length {A B} (t : B -> bool) (g : A -> B) l :
  length (filter t (map g l)) = length (filter (fun y => t (g y)) l).
Proof.
  induction l as [|a l IH]; cbn [map filter]; [reflexivity|]. destruct (t (g a)); cbn [length]; now rewrite IH.
Qed.

Lemma pp_flat_map_count {A B} (f : A -> list B) (t : B -> bool) (b : A -> bool) c l :
  (forall x, In x l -> length (filter t (f x)) = if b x then c else 0) ->
  length (filter t (flat_map f l)) = length (filter b l) * c.
Proof.
  induction l as [|a l IH]; intros H; [reflexivity|].
  cbn [flat_map filter]. rewrite filter_app, app_length, H by now left. rewrite IH by (intros; apply H; now right).
  destruct (b a); cbn [length]; lia.
Qed.

Lemma pp_filter_true {A} (l : list A) : filter (fun _ => true) l = l.
Proof. induction l as [|a l IH]; cbn [filter]; [reflexivity|]. now rewrite IH. Qed.

Lemma pp_filter_false {A} (l : list A) : filter (fun _ => false) l = [].
Proof. induction l as [|a l IH]; cbn [filter]; [reflexivity|]. exact IH. Qed.

Definition pp_mem (S : list nat) (x : nat) : bool := if in_dec Nat.eq_dec x S then true else false.

Lemma filter_mem_perm l S : NoDup l -> NoDup S -> incl S l -> Permutation (filter (pp_mem S) l) S.
Proof.
  intros Hl HS Hi. apply NoDup_Permutation; [now apply NoDup_filter | exact HS |].
  intro x. rewrite filter_In. unfold pp_mem. destruct (in_dec Nat.eq_dec x S) as [H|H].
  - split; [intros _; exact H | intros _; split; [now apply Hi | reflexivity]].
  - split; [intros [_ F]; discriminate | intro; contradiction].
Qed.

(** ** insertion sort *)
Lemma sort_row_cons x l : sort_row (x :: l) = insert_sorted x (sort_row l).
Proof. reflexivity. Qed.

Lemma insert_sorted_perm x l : Permutation (insert_sorted x l) (x :: l).
Proof.
  induction l as [|y t IH]; cbn [insert_sorted]; [reflexivity|].
  destruct (x <=? y); [reflexivity|]. eapply perm_trans; [apply perm_skip, IH | apply perm_swap].
Qed.

Lemma sort_row_perm l : Permutation (sort_row l) l.
Proof.
  induction l as [|x l IH]; [reflexivity|]. rewrite sort_row_cons.
  eapply perm_trans; [apply insert_sorted_perm | apply perm_skip, IH].
Qed.

Lemma insert_sorted_sorted x l : StronglySorted le l -> StronglySorted le (insert_sorted x l).
Proof.
  induction l as [|y t IH]; intros H; cbn [insert_sorted].
  - constructor; constructor.
  - inversion H as [|y' t' Ht Hy]; subst. destruct (x <=? y) eqn:E.
    + apply Nat.leb_le in E. constructor; [exact H|]. constructor; [exact E|].
      eapply Forall_impl; [|exact Hy]. intros z Hz. lia.
    + apply Nat.leb_gt in E. constructor; [apply IH; exact Ht|]. apply Forall_forall. intros z Hz.
      apply (Permutation_in _ (insert_sorted_perm x t)) in Hz. destruct Hz as [<-|Hz]; [lia|].
      rewrite Forall_forall in Hy. now apply Hy.
Qed.

Lemma sort_row_sorted l : StronglySorted le (sort_row l).
Proof.
  induction l as [|x l IH]; [constructor|]. rewrite sort_row_cons. now apply insert_sorted_sorted.
Qed.

(** a sorted list is determined by its multiset of entries *)
Lemma sorted_perm_eq : forall a b, StronglySorted le a -> StronglySorted le b -> Permutation a b -> a = b.
Proof.
  induction a as [|x a IH]; intros b Ha Hb P.
  - apply Permutation_nil in P. now subst.
  - destruct b as [|y b]; [apply Permutation_sym, Permutation_nil in P; discriminate|].
    inversion Ha as [|? ? Ha' Fx]; subst. inversion Hb as [|? ? Hb' Fy]; subst.
    rewrite Forall_forall in Fx, Fy.
    assert (E : x = y).
    { assert (In x (y :: b)) as Hx by (apply (Permutation_in _ P); now left).
      assert (In y (x :: a)) as Hy by (apply (Permutation_in _ (Permutation_sym P)); now left).
      destruct Hx as [Hx|Hx]; [now subst|]. destruct Hy as [Hy|Hy]; [now subst|].
      apply Fy in Hx. apply Fx in Hy. lia. }
    subst y. f_equal. apply IH; [exact Ha' | exact Hb' |]. eapply Permutation_cons_inv; exact P.
Qed.

Lemma sort_eq_iff a b : sort_row a = sort_row b <-> Permutation a b.
Proof.
  split; intro H.
  - eapply perm_trans; [apply Permutation_sym, sort_row_perm|]. rewrite H. apply sort_row_perm.
  - apply sorted_perm_eq; [apply sort_row_sorted | apply sort_row_sorted |].
    eapply perm_trans; [apply sort_row_perm|]. eapply perm_trans; [exact H|]. apply Permutation_sym, sort_row_perm.
Qed.

Lemma sort_row_id l : StronglySorted le l -> sort_row l = l.
Proof. intro H. apply sorted_perm_eq; [apply sort_row_sorted | exact H | apply sort_row_perm]. Qed.

(** ** the orderings *)
Lemma perms_of_S f l : l <> [] ->
  perms_of (S f) l = flat_map (fun x => map (cons x) (perms_of f (rm x l))) l.
Proof. destruct l; [congruence | reflexivity]. Qed.

(** (1) there are (length l)! of them *)
Lemma perms_of_length : forall fuel l, NoDup l -> length l <= fuel -> length (perms_of fuel l) = fact (length l).
Proof.
  induction fuel as [|f IH]; intros l Hl Hf.
  - destruct l; [reflexivity | cbn [length] in Hf; lia].
  - destruct (pp_case_l l) as [->|Hne]; [reflexivity|].
    rewrite perms_of_S by exact Hne.
    rewrite (pp_flat_map_length_const _ (fact (length l - 1))).
    + destruct l as [|a l']; [congruence|]. cbn [length]. replace (S (length l') - 1) with (length l') by lia.
      change (fact (S (length l'))) with (S (length l') * fact (length l')). reflexivity.
    + intros x Hx. rewrite map_length. pose proof (length_rm x l Hl Hx) as L.
      rewrite IH; [f_equal; lia | now apply NoDup_rm | lia].
Qed.

(** each is a rearrangement of l *)
Lemma perms_of_perm : forall fuel l, NoDup l -> length l <= fuel -> forall p, In p (perms_of fuel l) -> Permutation p l.
Proof.
  induction fuel as [|f IH]; intros l Hl Hf p Hp.
  - destruct l; [|cbn [length] in Hf; lia]. cbn in Hp. destruct Hp as [<-|[]]. reflexivity.
  - destruct (pp_case_l l) as [->|Hne]; [cbn in Hp; destruct Hp as [<-|[]]; reflexivity|].
    rewrite perms_of_S in Hp by exact Hne. apply in_flat_map in Hp. destruct Hp as (x & Hx & Hp).
    apply in_map_iff in Hp. destruct Hp as (q & <- & Hq). pose proof (length_rm x l Hl Hx) as L.
    apply IH in Hq; [|now apply NoDup_rm | lia].
    eapply perm_trans; [apply perm_skip; exact Hq | apply Permutation_sym, perm_rm; assumption].
Qed.

(** (2) pairwise different *)
Lemma perms_of_NoDup : forall fuel l, NoDup l -> length l <= fuel -> NoDup (perms_of fuel l).
Proof.
  induction fuel as [|f IH]; intros l Hl Hf.
  - cbn. constructor; [intros []|constructor].
  - destruct (pp_case_l l) as [->|Hne]; [cbn; constructor; [intros []|constructor]|].
    rewrite perms_of_S by exact Hne. apply pp_NoDup_flat_map; [exact Hl | |].
    + intros x Hx. pose proof (length_rm x l Hl Hx) as L. apply pp_NoDup_map_cons.
      apply IH; [now apply NoDup_rm | lia].
    + intros x y z _ _ Hzx Hzy. apply in_map_iff in Hzx. destruct Hzx as (q & <- & _).
      apply in_map_iff in Hzy. destruct Hzy as (q' & E & _). now injection E.
Qed.

(** (4) every k-subset S of l is the set of the first k entries of exactly k! (m-k)! orderings of l *)
Lemma prefix_count : forall fuel l T m k,
  NoDup l -> length l = m -> m <= fuel -> NoDup T -> incl T l -> length T = k ->
  length (filter (fun p => lnat_eqb (sort_row (firstn k p)) (sort_row T)) (perms_of fuel l)) = fact k * fact (m - k).
Proof.
  induction fuel as [|f IH]; intros l T m k Hl Hm Hf HS Hi Hk.
  - assert (m = 0) by lia. subst m. destruct l; [|discriminate].
    destruct T as [|s T]; [|exfalso; apply (Hi s); now left]. cbn [length] in Hk. subst k. reflexivity.
  - destruct k as [|k'].
    + destruct T; [|discriminate].
      rewrite (filter_ext _ (fun _ => true)) by (intro p; reflexivity). rewrite pp_filter_true.
      rewrite perms_of_length by (assumption || lia). rewrite Hm, Nat.sub_0_r. change (fact 0) with 1. lia.
    + destruct (pp_case_l l) as [->|Hne].
      { destruct T as [|s T]; [discriminate|]. exfalso. apply (Hi s). now left. }
      rewrite perms_of_S by exact Hne.
      rewrite (pp_flat_map_count _ _ (pp_mem T) (fact k' * fact (m - 1 - k'))).
      * rewrite (Permutation_length (filter_mem_perm l T Hl HS Hi)), Hk.
        replace (m - 1 - k') with (m - S k') by lia.
        change (fact (S k')) with (S k' * fact k'). lia.
      * intros x Hx. rewrite pp_filter_map_length. pose proof (length_rm x l Hl Hx) as L.
        unfold pp_mem. destruct (in_dec Nat.eq_dec x T) as [Hin|Hnin].
        -- pose proof (length_rm x T HS Hin) as LS.
           rewrite (filter_ext _ (fun q => lnat_eqb (sort_row (firstn k' q)) (sort_row (rm x T)))).
           ++ apply IH; [now apply NoDup_rm | lia | lia | now apply NoDup_rm | now apply incl_rm | lia].
           ++ intro q. cbn [firstn]. apply eq_true_iff_eq. rewrite !lnat_eqb_eq, !sort_eq_iff. split; intro P.
              ** apply Permutation_cons_inv with (a := x).
                 eapply perm_trans; [exact P | apply perm_rm; assumption].
              ** eapply perm_trans; [apply perm_skip; exact P | apply Permutation_sym, perm_rm; assumption].
        -- rewrite (filter_ext _ (fun _ => false)); [now rewrite pp_filter_false|].
           intro q. cbn [firstn]. apply not_true_is_false. rewrite lnat_eqb_eq, sort_eq_iff. intro P.
           apply Hnin. apply (Permutation_in _ P). now left.
Qed.

(** ** the subsets enumerated by [combs] are sorted and duplicate-free when the list is *)
Lemma combs_sorted {A} (R : A -> A -> Prop) : forall k l c,
  StronglySorted R l -> In c (combs k l) -> StronglySorted R c.
Proof.
  induction k as [|k IHk]; intros l c Hl H.
  - destruct l; cbn in H; destruct H as [<-|[]]; constructor.
  - induction l as [|x l IHl]; [destruct H|].
    inversion Hl as [|? ? Hl' Fx]; subst.
    cbn [combs] in H. apply in_app_iff in H. destruct H as [H|H].
    + apply in_map_iff in H. destruct H as (c' & <- & Hc'). constructor; [eapply IHk; eauto|].
      apply combs_spec in Hc'. destruct Hc' as [_ I]. rewrite Forall_forall in *. intros y Hy. apply Fx, I, Hy.
    + apply IHl; assumption.
Qed.

Lemma sorted_lt_NoDup l : StronglySorted lt l -> NoDup l.
Proof.
  induction 1 as [|x l Hl IH Fx]; constructor; [|exact IH].
  intro Hin. rewrite Forall_forall in Fx. apply Fx in Hin. lia.
Qed.

Lemma sorted_lt_le l : StronglySorted lt l -> StronglySorted le l.
Proof.
  induction 1 as [|x l Hl IH Fx]; constructor; [exact IH|].
  eapply Forall_impl; [|exact Fx]. intros z Hz. lia.
Qed.

Lemma seq_sorted : forall n s, StronglySorted lt (seq s n).
Proof.
  induction n as [|n IH]; intro s; cbn [seq]; constructor; [apply IH|].
  apply Forall_forall. intros y Hy. apply in_seq in Hy. lia.
Qed.

(** ** Prop-level statements for positions 0..n-1 *)
Theorem perms_seq_count n : length (perms_of n (seq 0 n)) = fact n.
Proof.
  rewrite perms_of_length; rewrite ?seq_length; [reflexivity | apply seq_NoDup | lia].
Qed.

Theorem perms_seq_NoDup n : NoDup (perms_of n (seq 0 n)).
Proof. apply perms_of_NoDup; [apply seq_NoDup | rewrite seq_length; lia]. Qed.

Theorem perms_seq_sorted n p : In p (perms_of n (seq 0 n)) -> sort_row p = seq 0 n /\ Permutation p (seq 0 n).
Proof.
  intro Hp. apply perms_of_perm in Hp; [|apply seq_NoDup | rewrite seq_length; lia]. split; [|exact Hp].
  apply sorted_perm_eq; [apply sort_row_sorted | apply sorted_lt_le, seq_sorted |].
  eapply perm_trans; [apply sort_row_perm | exact Hp].
Qed.

(** every k-subset S of 0..n-1 (any duplicate-free list of k positions) is the set of the first k entries of exactly
    k! (n-k)! of the n! orderings *)
Theorem prefix_subset_count n k S : NoDup S -> incl S (seq 0 n) -> length S = k ->
  length (filter (fun p => lnat_eqb (sort_row (firstn k p)) (sort_row S)) (perms_of n (seq 0 n))) = fact k * fact (n - k).
Proof.
  intros HS Hi Hk. apply prefix_count; try assumption; [apply seq_NoDup | apply seq_length | lia].
Qed.

(** the same with the test phrased in Prop: the first k entries are a rearrangement of S *)
Theorem prefix_test_spec k p S : lnat_eqb (sort_row (firstn k p)) (sort_row S) = true <-> Permutation (firstn k p) S.
Proof. rewrite lnat_eqb_eq. apply sort_eq_iff. Qed.

(** ** the executable statement, all n and k <= n *)
Theorem perm_prefix_uniform_all n k : k <= n -> perm_prefix_uniform n k = true.
Proof.
  intro Hk. unfold perm_prefix_uniform. cbv zeta. rewrite !andb_true_iff. repeat split.
  - apply Nat.eqb_eq, perms_seq_count.
  - apply nodupll_of_NoDup, perms_seq_NoDup.
  - apply forallb_forall. intros p Hp. apply lnat_eqb_eq. now apply perms_seq_sorted.
  - apply forallb_forall. intros S HS. apply Nat.eqb_eq.
    pose proof (combs_spec _ _ _ HS) as [LS IS].
    pose proof (combs_sorted lt _ _ _ (seq_sorted n 0) HS) as SS.
    pose proof (prefix_subset_count n k S (sorted_lt_NoDup _ SS) IS LS) as H.
    rewrite (sort_row_id S (sorted_lt_le _ SS)) in H. exact H.
Qed.

Print Assumptions perm_prefix_uniform_all.
