(** C03 (line level): one implicit step is linear in the density; multiplying every size and time by c
    and dividing every rate by c leaves the step unchanged. *)
From Coq Require Import Reals List Lra Lia Arith Bool.
From Dadi Require Import Base.Num Base.NumR Model.Tridiag Model.Scheme Proofs.TridiagProofs Proofs.SchemeProofs.
Import ListNotations.
Local Open Scope R_scope.

Lemma nthF_lincomb al be (p1 p2 : list R) i : length p1 = length p2 ->
  nthF (lincomb al be p1 p2) i = al * nthF p1 i + be * nthF p2 i.
Proof.
  intros Hl. unfold nthF, lincomb. numR.
  pose proof (map_nth (fun p : R * R => al * fst p + be * snd p) (combine p1 p2) (0, 0) i) as Hm.
  cbn beta in Hm. cbn [fst snd] in Hm. rewrite combine_nth in Hm by exact Hl. cbn [fst snd] in Hm.
  rewrite <- Hm. f_equal. ring.
Qed.
Lemma lincomb_length al be (p1 p2 : list R) : length p1 = length p2 -> length (lincomb al be p1 p2) = length p1.
Proof. intros Hl. unfold lincomb. rewrite map_length, combine_length, Hl. apply Nat.min_id. Qed.

Lemma map_mkrows (fa fb fc fr : nat -> R) l :
  map (fun i => (fa i, fb i, fc i, fr i)) l = mkrows (map (fun i => (fa i, fb i, fc i)) l) (map fr l).
Proof. induction l as [|i l IH]; [reflexivity|]. cbn [map]. unfold mkrows in *. cbn [combine map fst snd]. rewrite IH. reflexivity. Qed.

Lemma map_seq_lincomb al be (f1 f2 : nat -> R) n :
  map (fun i => al * f1 i + be * f2 i) (seq 0 n) = lincomb al be (map f1 (seq 0 n)) (map f2 (seq 0 n)).
Proof. unfold lincomb. generalize 0%nat. induction n as [|n IH]; intros s; [reflexivity|]. cbn [seq map combine fst snd]. rewrite IH. reflexivity. Qed.

Section Lin.
  Variable xs : list R.
  Variable Vf Mf : R -> R.
  Variable nu : R.
  Variable c0 c1 : bool.
  Variable dt : R.
  Variable use_delj : bool.
  Hypothesis HN : (2 <= length xs)%nat.

  Definition abc_of : list (R * R * R) :=
    map (fun i => (coef_a xs Vf Mf use_delj i, coef_b xs Vf Mf nu c0 c1 dt use_delj i, coef_c xs Vf Mf use_delj i))
        (seq 0 (length xs)).
  Definition rhs_of (phi : list R) : list R := map (fun i => nthF phi i / dt) (seq 0 (length xs)).

  (** the coefficients do not depend on the density; the right-hand side is phi/dt *)
  Lemma line_rows_mkrows phi : line_rows xs Vf Mf nu c0 c1 dt use_delj phi = mkrows abc_of (rhs_of phi).
  Proof.
    rewrite line_rows_eq_spec by exact HN. unfold line_rows_spec, abc_of, rhs_of. fold (Scheme.N xs). unfold Scheme.N. numR.
    apply (map_mkrows (coef_a xs Vf Mf use_delj) (coef_b xs Vf Mf nu c0 c1 dt use_delj) (coef_c xs Vf Mf use_delj) (fun i => nthF phi i / dt)).
  Qed.

  Theorem line_solve_linear al be (p1 p2 : list R) : length p1 = length p2 ->
    line_solve xs Vf Mf nu c0 c1 dt use_delj (lincomb al be p1 p2) =
    lincomb al be (line_solve xs Vf Mf nu c0 c1 dt use_delj p1) (line_solve xs Vf Mf nu c0 c1 dt use_delj p2).
  Proof.
    intros Hl. unfold line_solve. rewrite !line_rows_mkrows.
    assert (Hr : rhs_of (lincomb al be p1 p2) = lincomb al be (rhs_of p1) (rhs_of p2)).
    { unfold rhs_of. rewrite <- map_seq_lincomb. apply map_ext. intros i. rewrite nthF_lincomb by exact Hl. unfold Rdiv. ring. }
    rewrite Hr. apply thomas_linear. unfold rhs_of. rewrite !map_length. reflexivity.
  Qed.
End Lin.
