(** * Proofs about the finite-difference machinery of dadi/Godambe.py (model: Model/Godambe.v), over R. *)
From Coq Require Import ZArith Reals List Lra Lia Bool Permutation.
From Dadi Require Import Base.Num Base.NumR Model.Godambe.
Import ListNotations.
Local Open Scope R_scope.

(** ** lists *)
Lemma length_upd (p : list R) i v : length (upd p i v) = length p.
Proof. revert i; induction p as [|x t IH]; intros [|i]; cbn; auto. Qed.

Lemma nth_upd_same (p : list R) i v d : (i < length p)%nat -> nth i (upd p i v) d = v.
Proof. revert i; induction p as [|x t IH]; intros [|i] Hl; cbn in *; try lia; auto. apply IH; lia. Qed.

Lemma nth_upd_other (p : list R) i k v d : i <> k -> nth k (upd p i v) d = nth k p d.
Proof. revert i k; induction p as [|x t IH]; intros [|i] [|k] Hn; cbn; auto; try congruence. Qed.

Lemma gd_nsum_perm (l l' : list R) : Permutation l l' -> nsum l = nsum l'.
Proof. induction 1; unfold nsum in *; cbn [fold_right] in *; numR; [reflexivity|rewrite IHPermutation; reflexivity|ring|congruence]. Qed.

Lemma nsum_cons (x : R) l : nsum (x :: l) = x + nsum l.
Proof. reflexivity. Qed.
Lemma nsum_nil : nsum (@nil R) = 0.
Proof. reflexivity. Qed.

Definition dl (a b : nat) : R := @delta R NumR a b.
Lemma dl_same a : dl a a = 1.
Proof. unfold dl, delta. rewrite Nat.eqb_refl. reflexivity. Qed.
Lemma dl_diff a b : a <> b -> dl a b = 0.
Proof. unfold dl, delta. intros Hn. destruct (Nat.eqb_spec a b); [contradiction|reflexivity]. Qed.

(** coordinates of the doubly / singly updated point *)
Lemma nth_upd2 (p : list R) i j vi vj k : i <> j -> (i < length p)%nat -> (j < length p)%nat ->
  nth k (upd (upd p i vi) j vj) 0 = nth k p 0 + dl k i * (vi - nth i p 0) + dl k j * (vj - nth j p 0).
Proof.
  intros Hij Hi Hj.
  destruct (Nat.eq_dec k j) as [->|Hkj].
  - rewrite nth_upd_same by (rewrite length_upd; assumption).
    rewrite dl_same, (dl_diff j i) by congruence. ring.
  - rewrite nth_upd_other by congruence.
    destruct (Nat.eq_dec k i) as [->|Hki].
    + rewrite nth_upd_same by assumption. rewrite dl_same, (dl_diff i j) by congruence. ring.
    + rewrite nth_upd_other by congruence. rewrite !dl_diff by congruence. ring.
Qed.

Lemma nth_upd1 (p : list R) i vi k : (i < length p)%nat ->
  nth k (upd p i vi) 0 = nth k p 0 + dl k i * (vi - nth i p 0).
Proof.
  intros Hi. destruct (Nat.eq_dec k i) as [->|Hki].
  - rewrite nth_upd_same by assumption. rewrite dl_same. ring.
  - rewrite nth_upd_other by congruence. rewrite dl_diff by congruence. ring.
Qed.

(** ** a quadratic along two (one) coordinate directions *)
Section Expand.
  Variables (X Di Dj : nat -> R) (s t : R).
  Lemma lin_expand (lin : list (R * nat)) :
    nsum (map (fun m => fst m * (X (snd m) + Di (snd m) * s + Dj (snd m) * t)) lin)
    = nsum (map (fun m => fst m * X (snd m)) lin)
      + s * nsum (map (fun m => fst m * Di (snd m)) lin)
      + t * nsum (map (fun m => fst m * Dj (snd m)) lin).
  Proof. induction lin as [|m l IH]; cbn [map]; rewrite ?nsum_cons, ?nsum_nil; [ring|rewrite IH; ring]. Qed.

  Lemma quad_expand (qd : list (R * (nat * nat))) :
    nsum (map (fun m => fst m * (X (fst (snd m)) + Di (fst (snd m)) * s + Dj (fst (snd m)) * t)
                              * (X (snd (snd m)) + Di (snd (snd m)) * s + Dj (snd (snd m)) * t)) qd)
    = nsum (map (fun m => fst m * X (fst (snd m)) * X (snd (snd m))) qd)
      + s * nsum (map (fun m => fst m * (Di (fst (snd m)) * X (snd (snd m)) + Di (snd (snd m)) * X (fst (snd m)))) qd)
      + t * nsum (map (fun m => fst m * (Dj (fst (snd m)) * X (snd (snd m)) + Dj (snd (snd m)) * X (fst (snd m)))) qd)
      + s * s * nsum (map (fun m => fst m * (Di (fst (snd m)) * Di (snd (snd m)))) qd)
      + t * t * nsum (map (fun m => fst m * (Dj (fst (snd m)) * Dj (snd (snd m)))) qd)
      + s * t * nsum (map (fun m => fst m * (Di (fst (snd m)) * Dj (snd (snd m)) + Dj (fst (snd m)) * Di (snd (snd m)))) qd).
  Proof. induction qd as [|m l IH]; cbn [map]; rewrite ?nsum_cons, ?nsum_nil; [ring|rewrite IH; ring]. Qed.
End Expand.

Lemma quad_d2_diag (qd : list (R * (nat * nat))) i :
  quad_d2 qd i i = 2 * nsum (map (fun m => fst m * (dl (fst (snd m)) i * dl (snd (snd m)) i)) qd).
Proof. unfold quad_d2. induction qd as [|m l IH]; cbn [map]; rewrite ?nsum_cons, ?nsum_nil; numR; [ring|].
  rewrite IH. unfold dl. ring. Qed.

Lemma quad_d2_sym (qd : list (R * (nat * nat))) i j : quad_d2 qd i j = quad_d2 qd j i.
Proof. unfold quad_d2. f_equal. apply map_ext. intros m. numR. ring. Qed.

Lemma nsum_map_zero {A} (l : list A) : nsum (map (fun _ => 0) l) = 0.
Proof. induction l; cbn [map]; rewrite ?nsum_cons, ?nsum_nil; [reflexivity|rewrite IHl; ring]. Qed.

(** value of the quadratic at the point with coordinates i and j replaced *)
Lemma quad_restrict2 c lin qd (p : list R) i j vi vj :
  i <> j -> (i < length p)%nat -> (j < length p)%nat ->
  quadm c lin qd (upd (upd p i vi) j vj)
  = quadm c lin qd p
    + (vi - nth i p 0) * quad_d1 lin qd p i + (vj - nth j p 0) * quad_d1 lin qd p j
    + (vi - nth i p 0) * (vi - nth i p 0) / 2 * quad_d2 qd i i
    + (vj - nth j p 0) * (vj - nth j p 0) / 2 * quad_d2 qd j j
    + (vi - nth i p 0) * (vj - nth j p 0) * quad_d2 qd i j.
Proof.
  intros Hij Hi Hj. rewrite !quad_d2_diag.
  unfold quadm, quad_d1, quad_d2. numR.
  set (s := vi - nth i p 0). set (t := vj - nth j p 0).
  rewrite (map_ext (fun m : R * nat => fst m * nth (snd m) (upd (upd p i vi) j vj) 0)
                   (fun m => fst m * (nth (snd m) p 0 + dl (snd m) i * s + dl (snd m) j * t)))
    by (intros m; rewrite nth_upd2 by assumption; reflexivity).
  rewrite (map_ext (fun m : R * (nat * nat) => fst m * nth (fst (snd m)) (upd (upd p i vi) j vj) 0 * nth (snd (snd m)) (upd (upd p i vi) j vj) 0)
                   (fun m => fst m * (nth (fst (snd m)) p 0 + dl (fst (snd m)) i * s + dl (fst (snd m)) j * t)
                                   * (nth (snd (snd m)) p 0 + dl (snd (snd m)) i * s + dl (snd (snd m)) j * t)))
    by (intros m; rewrite !nth_upd2 by assumption; reflexivity).
  rewrite (lin_expand (fun k => nth k p 0) (fun k => dl k i) (fun k => dl k j)).
  rewrite (quad_expand (fun k => nth k p 0) (fun k => dl k i) (fun k => dl k j)).
  unfold dl. field.
Qed.

Lemma quad_restrict1 c lin qd (p : list R) i vi :
  (i < length p)%nat ->
  quadm c lin qd (upd p i vi)
  = quadm c lin qd p + (vi - nth i p 0) * quad_d1 lin qd p i
    + (vi - nth i p 0) * (vi - nth i p 0) / 2 * quad_d2 qd i i.
Proof.
  intros Hi. rewrite !quad_d2_diag.
  unfold quadm, quad_d1, quad_d2. numR.
  set (s := vi - nth i p 0).
  rewrite (map_ext (fun m : R * nat => fst m * nth (snd m) (upd p i vi) 0)
                   (fun m => fst m * (nth (snd m) p 0 + dl (snd m) i * s + 0 * 0)))
    by (intros m; rewrite nth_upd1 by assumption; fold s; ring).
  rewrite (map_ext (fun m : R * (nat * nat) => fst m * nth (fst (snd m)) (upd p i vi) 0 * nth (snd (snd m)) (upd p i vi) 0)
                   (fun m => fst m * (nth (fst (snd m)) p 0 + dl (fst (snd m)) i * s + 0 * 0)
                                   * (nth (snd (snd m)) p 0 + dl (snd (snd m)) i * s + 0 * 0)))
    by (intros m; rewrite !nth_upd1 by assumption; fold s; ring).
  rewrite (lin_expand (fun k => nth k p 0) (fun k => dl k i) (fun _ => 0)).
  rewrite (quad_expand (fun k => nth k p 0) (fun k => dl k i) (fun _ => 0)).
  unfold dl. field.
Qed.

(** ** the stencils are exact on quadratics *)
Ltac gd_unfold := unfold st_diag_c, st_diag_o, st_off_c, st_off_o, st_grad_c, st_grad_o, n2; numR.

(** every branch of hessian_elem (central or one-sided, whatever the flags and whether or not the
    parameters are zero) returns the exact second partial derivative, for any non-zero steps *)
Lemma hess_elem_exact c lin qd (p0 eps : list R) (os : list bool) ii jj :
  (ii < length p0)%nat -> (jj < length p0)%nat ->
  nth ii eps 0 <> 0 -> nth jj eps 0 <> 0 ->
  hess_elem (quadm c lin qd) (quadm c lin qd p0) p0 ii jj eps os = quad_d2 qd ii jj.
Proof.
  intros Hi Hj Hei Hej. unfold hess_elem. numR.
  destruct (Nat.eqb_spec ii jj) as [<-|Hne].
  - destruct (negb (Reqb (nth ii p0 0) 0) && negb (nth ii os false)); gd_unfold;
      rewrite !quad_restrict1 by assumption; field; assumption.
  - destruct (negb (Reqb (nth ii p0 0) 0) && negb (Reqb (nth jj p0 0) 0) && negb (nth ii os false) && negb (nth jj os false));
      gd_unfold; rewrite !quad_restrict2 by assumption; field; split; assumption.
Qed.

(** ** the step-size rule *)
Definition Rtiny : R := 1 / 1000000.
Lemma tiny_R : @tiny R NumR = Rtiny.
Proof. reflexivity. Qed.

Lemma step_rule_spec (eps p : R) :
  (p = 0 -> step_rule eps p = (eps, false)) /\
  (p <> 0 -> p * eps < Rtiny -> step_rule eps p = (eps, true)) /\
  (p <> 0 -> Rtiny <= p * eps -> step_rule eps p = (eps * p, false)).
Proof.
  unfold step_rule, nltb. numR. rewrite tiny_R. repeat split.
  - intros ->. rewrite (proj2 (Reqb_true 0 0) eq_refl). reflexivity.
  - intros Hp Ht. rewrite (proj2 (Reqb_false p 0) Hp). cbn [negb].
    rewrite (proj2 (Rleb_false Rtiny (p * eps)) Ht). reflexivity.
  - intros Hp Ht. rewrite (proj2 (Reqb_false p 0) Hp). cbn [negb].
    rewrite (proj2 (Rleb_true Rtiny (p * eps)) Ht). reflexivity.
Qed.

Lemma step_rule_nonzero (eps p : R) : eps <> 0 -> fst (step_rule eps p) <> 0.
Proof.
  intros He. destruct (step_rule_spec eps p) as (H0 & H1 & H2).
  destruct (Req_EM_T p 0) as [Hp|Hp]; [rewrite (H0 Hp); exact He|].
  destruct (Rlt_le_dec (p * eps) Rtiny) as [Ht|Ht]; [rewrite (H1 Hp Ht); exact He|].
  rewrite (H2 Hp Ht). cbn [fst]. apply Rmult_integral_contrapositive_currified; assumption.
Qed.

(** one-sided stencils are used exactly when the parameter is zero or the flag was raised *)
Lemma step_rule_central_iff (eps p : R) :
  (negb (Reqb p 0) && negb (snd (step_rule eps p)) = true) <-> (p <> 0 /\ Rtiny <= p * eps).
Proof.
  destruct (step_rule_spec eps p) as (H0 & H1 & H2). split.
  - intros Hb. apply andb_true_iff in Hb. destruct Hb as [Hb1 Hb2].
    apply negb_true_iff in Hb1. apply Reqb_false in Hb1. split; [assumption|].
    destruct (Rlt_le_dec (p * eps) Rtiny) as [Ht|Ht]; [|assumption].
    rewrite (H1 Hb1 Ht) in Hb2. discriminate.
  - intros [Hp Ht]. rewrite (H2 Hp Ht). cbn [snd negb]. rewrite (proj2 (Reqb_false p 0) Hp). reflexivity.
Qed.

Lemma nth_map_in {A B} (g : A -> B) (l : list A) i d d' : (i < length l)%nat -> nth i (map g l) d = g (nth i l d').
Proof. revert i; induction l as [|x t IH]; intros [|i] Hl; cbn in *; try lia; auto. apply IH; lia. Qed.

Lemma nth_steps (eps : R) (p0 : list R) i : (i < length p0)%nat ->
  nth i (map fst (map (step_rule eps) p0)) 0 = fst (step_rule eps (nth i p0 0)) /\
  nth i (map snd (map (step_rule eps) p0)) false = snd (step_rule eps (nth i p0 0)).
Proof.
  intros Hi. rewrite !map_map. split.
  - apply (nth_map_in (fun x => fst (step_rule eps x))); assumption.
  - apply (nth_map_in (fun x => snd (step_rule eps x))); assumption.
Qed.

Lemma nth_map_seq {A} (g : nat -> A) n i d : (i < n)%nat -> nth i (map g (seq 0 n)) d = g i.
Proof. intros Hi. rewrite (nth_indep _ d (g 0%nat)) by (rewrite map_length, seq_length; assumption).
  rewrite map_nth, seq_nth by assumption. reflexivity. Qed.

(** ** get_hess returns the exact Hessian of every quadratic, at every point (zero, tiny, negative
       parameters included) and for every non-zero eps *)
Lemma get_hess_exact c lin qd (p0 : list R) (eps : R) r cc :
  eps <> 0 -> (r < length p0)%nat -> (cc < length p0)%nat ->
  nth cc (nth r (get_hess (quadm c lin qd) p0 eps) []) 0 = quad_d2 qd r cc.
Proof.
  intros He Hr Hc. unfold get_hess.
  rewrite (nth_map_seq _ _ _ _ Hr), (nth_map_seq _ _ _ _ Hc).
  rewrite hess_elem_exact.
  - destruct (Nat.le_ge_cases r cc) as [Hle|Hle].
    + rewrite Nat.min_l, Nat.max_r by assumption. reflexivity.
    + rewrite Nat.min_r, Nat.max_l by assumption. apply quad_d2_sym.
  - lia.
  - lia.
  - rewrite (proj1 (nth_steps eps p0 _ (Nat.lt_le_trans _ _ _ (Nat.le_lt_trans _ _ _ (Nat.le_min_l r cc) Hr) (Nat.le_refl _)))).
    apply step_rule_nonzero, He.
  - assert (Hm : (Nat.max r cc < length p0)%nat) by lia.
    rewrite (proj1 (nth_steps eps p0 _ Hm)). apply step_rule_nonzero, He.
Qed.

(** ** gradient *)
Lemma grad_elem_central_exact c lin qd (p0 eps : list R) (os : list bool) ii :
  (ii < length p0)%nat -> nth ii eps 0 <> 0 ->
  negb (Reqb (nth ii p0 0) 0) && negb (nth ii os false) = true ->
  grad_elem (quadm c lin qd) p0 ii eps os = quad_d1 lin qd p0 ii.
Proof.
  intros Hi He Hb. unfold grad_elem. numR. rewrite Hb. gd_unfold.
  rewrite !quad_restrict1 by assumption. field. assumption.
Qed.

(** one-sided branch on a quadratic: first partial plus (step/2) * second partial *)
Lemma grad_elem_onesided_value c lin qd (p0 eps : list R) (os : list bool) ii :
  (ii < length p0)%nat -> nth ii eps 0 <> 0 ->
  negb (Reqb (nth ii p0 0) 0) && negb (nth ii os false) = false ->
  grad_elem (quadm c lin qd) p0 ii eps os = quad_d1 lin qd p0 ii + nth ii eps 0 / 2 * quad_d2 qd ii ii.
Proof.
  intros Hi He Hb. unfold grad_elem. numR. rewrite Hb. gd_unfold.
  rewrite !quad_restrict1 by assumption. field. assumption.
Qed.

(** functions that are linear in coordinate ii (in particular: no quadratic monomials at all):
    both branches are exact *)
Lemma grad_elem_exact_on_linear c lin qd (p0 eps : list R) (os : list bool) ii :
  (ii < length p0)%nat -> nth ii eps 0 <> 0 -> quad_d2 qd ii ii = 0 ->
  grad_elem (quadm c lin qd) p0 ii eps os = quad_d1 lin qd p0 ii.
Proof.
  intros Hi He Hz.
  destruct (negb (Reqb (nth ii p0 0) 0) && negb (nth ii os false)) eqn:Hb.
  - apply grad_elem_central_exact; assumption.
  - rewrite grad_elem_onesided_value by assumption. rewrite Hz. field.
Qed.

Lemma quad_d2_nil i j : quad_d2 (@nil (R * (nat * nat))) i j = 0.
Proof. reflexivity. Qed.

Lemma get_grad_exact c lin qd (p0 : list R) (eps : R) i :
  eps <> 0 -> (i < length p0)%nat ->
  (nth i p0 0 <> 0 /\ Rtiny <= nth i p0 0 * eps) \/ quad_d2 qd i i = 0 ->
  nth i (get_grad (quadm c lin qd) p0 eps) 0 = quad_d1 lin qd p0 i.
Proof.
  intros He Hi Hc. unfold get_grad. rewrite (nth_map_seq _ _ _ _ Hi).
  destruct (nth_steps eps p0 i Hi) as [Hs Ho].
  assert (Hnz : nth i (map fst (map (step_rule eps) p0)) 0 <> 0) by (rewrite Hs; apply step_rule_nonzero, He).
  destruct Hc as [Hc|Hc].
  - apply grad_elem_central_exact; try assumption. rewrite Ho. apply step_rule_central_iff, Hc.
  - apply grad_elem_exact_on_linear; assumption.
Qed.

(** the one-sided gradient is NOT exact on quadratics with curvature along the coordinate *)
Lemma get_grad_onesided_not_exact :
  exists c lin qd p0 eps, eps <> 0 /\
    nth 0 (get_grad (quadm c lin qd) p0 eps) 0 <> quad_d1 lin qd p0 0.
Proof.
  exists 0, [], [(1, (0%nat, 0%nat))], [0], 1. split; [lra|].
  unfold get_grad. cbn [length seq map nth].
  destruct (step_rule_spec 1 0) as (H0 & _). rewrite (H0 eq_refl). cbn [fst snd map nth].
  unfold grad_elem. cbn [nth]. numR. rewrite (proj2 (Reqb_true 0 0) eq_refl). cbn [negb andb].
  gd_unfold. unfold quadm, quad_d1, nsum, delta. cbn. numR. lra.
Qed.

(** ** bootstrap order *)
Lemma J_entry_perm (g g' : list (list R)) i j : Permutation g g' -> J_entry g i j = J_entry g' i j.
Proof. intros P. unfold J_entry. rewrite (Permutation_length P). f_equal.
  apply gd_nsum_perm, Permutation_map, P. Qed.
Lemma cU_entry_perm (g g' : list (list R)) i : Permutation g g' -> cU_entry g i = cU_entry g' i.
Proof. intros P. unfold cU_entry. rewrite (Permutation_length P). f_equal.
  apply gd_nsum_perm, Permutation_map, P. Qed.

Lemma J_mat_perm n (g g' : list (list R)) : Permutation g g' -> J_mat n g = J_mat n g'.
Proof. intros P. unfold J_mat. apply map_ext. intros i. apply map_ext. intros j. apply J_entry_perm, P. Qed.
Lemma cU_vec_perm n (g g' : list (list R)) : Permutation g g' -> cU_vec n g = cU_vec n g'.
Proof. intros P. unfold cU_vec. apply map_ext. intros i. apply cU_entry_perm, P. Qed.

(** whatever is computed afterwards from (H, J, cU) -- Godambe matrix, uncertainties, LRT adjustment,
    Wald and score statistics -- is a function [post] of that triple *)
Lemma godambe_perm {D T} (ll : D -> list R -> R) p0 eps data (boots boots' : list D)
      (post : list (list R) * list (list R) * list R -> T) :
  Permutation boots boots' ->
  post (godambe_HJc ll p0 eps data boots) = post (godambe_HJc ll p0 eps data boots').
Proof.
  intros P. unfold godambe_HJc. f_equal.
  assert (Pg : Permutation (map (fun bt => get_grad (ll bt) p0 eps) boots) (map (fun bt => get_grad (ll bt) p0 eps) boots'))
    by (apply Permutation_map, P).
  rewrite (J_mat_perm _ _ _ Pg), (cU_vec_perm _ _ _ Pg). reflexivity.
Qed.

(** a concrete instance (second parameter zero: one-sided stencils) *)
Lemma godambe_example :
  get_hess (quadm 1 [(2, 0%nat); (3, 1%nat)] [(2, (0%nat, 0%nat)); (5, (0%nat, 1%nat)); (1, (1%nat, 1%nat))]) [1; 0] (1 / 100)
  = [[4; 5]; [5; 2]].
Proof.
  set (lin := [(2, 0%nat); (3, 1%nat)]). set (qd := [(2, (0%nat, 0%nat)); (5, (0%nat, 1%nat)); (1, (1%nat, 1%nat))]).
  assert (He : 1 / 100 <> 0) by lra.
  assert (E : forall r cc, (r < 2)%nat -> (cc < 2)%nat ->
            nth cc (nth r (get_hess (quadm 1 lin qd) [1; 0] (1 / 100)) []) 0 = quad_d2 qd r cc)
    by (intros; apply get_hess_exact; assumption).
  assert (L : forall (a b : R) (l : list (list R)), length l = 2%nat -> (forall r, (r < 2)%nat -> length (nth r l []) = 2%nat) ->
            l = [[nth 0 (nth 0 l []) 0; nth 1 (nth 0 l []) 0]; [nth 0 (nth 1 l []) 0; nth 1 (nth 1 l []) 0]]).
  { intros _ _ l Hl Hr. destruct l as [|r0 [|r1 [|]]]; try discriminate.
    pose proof (Hr 0%nat ltac:(lia)) as H0. pose proof (Hr 1%nat ltac:(lia)) as H1. cbn [nth] in *.
    destruct r0 as [|? [|? [|]]]; try discriminate. destruct r1 as [|? [|? [|]]]; try discriminate. reflexivity. }
  rewrite (L 0 0 (get_hess (quadm 1 lin qd) [1; 0] (1 / 100))).
  - rewrite !E by lia. unfold quad_d2, qd, nsum, delta. cbn. numR. repeat f_equal; lra.
  - reflexivity.
  - intros r Hr. destruct r as [|[|]]; try lia; reflexivity.
Qed.

(** ** the order in which the nested parameters are listed (LRT_adjust / Wald_stat / score_stat)

    Finite sums over 0..n-1, square matrices as lists of rows. *)
Definition sumn (n : nat) (g : nat -> R) : R := nsum (map g (seq 0 n)).
Definition wfm (n : nat) (M : list (list R)) : Prop := length M = n /\ Forall (fun r => length r = n) M.
Notation ent := (@entry R NumR).

Lemma nsum_map_ext {A} (g h : A -> R) l : (forall k, In k l -> g k = h k) -> nsum (map g l) = nsum (map h l).
Proof. intros E. f_equal. apply map_ext_in, E. Qed.
Lemma sumn_ext n g h : (forall k, (k < n)%nat -> g k = h k) -> sumn n g = sumn n h.
Proof. intros E. apply nsum_map_ext. intros k Hk. apply in_seq in Hk. apply E. lia. Qed.
Lemma nsum_map_plus {A} (g h : A -> R) l : nsum (map (fun k => g k + h k) l) = nsum (map g l) + nsum (map h l).
Proof. induction l as [|a l IH]; cbn [map]; rewrite ?nsum_cons, ?nsum_nil; [ring|rewrite IH; ring]. Qed.
Lemma nsum_map_scal_l {A} c (g : A -> R) l : c * nsum (map g l) = nsum (map (fun k => c * g k) l).
Proof. induction l as [|a l IH]; cbn [map]; rewrite ?nsum_cons, ?nsum_nil; [ring|rewrite <- IH; ring]. Qed.
Lemma nsum_map_scal_r {A} c (g : A -> R) l : nsum (map g l) * c = nsum (map (fun k => g k * c) l).
Proof. induction l as [|a l IH]; cbn [map]; rewrite ?nsum_cons, ?nsum_nil; [ring|rewrite <- IH; ring]. Qed.
Lemma nsum_swap {A B} (f : A -> B -> R) (L1 : list A) (L2 : list B) :
  nsum (map (fun k => nsum (map (fun l => f k l) L2)) L1) = nsum (map (fun l => nsum (map (fun k => f k l) L1)) L2).
Proof.
  induction L1 as [|a L1 IH].
  - cbn [map]. rewrite nsum_nil. symmetry. apply nsum_map_zero.
  - cbn [map]. rewrite nsum_cons, IH.
    rewrite <- nsum_map_plus. apply nsum_map_ext. intros l _. rewrite nsum_cons. reflexivity.
Qed.

Lemma nsum_delta_notin (g : nat -> R) j l : ~ In j l -> nsum (map (fun k => g k * dl k j) l) = 0.
Proof.
  induction l as [|a l IH]; intros Hn; cbn [map]; rewrite ?nsum_cons, ?nsum_nil; [reflexivity|].
  rewrite IH by (intros Hc; apply Hn; right; assumption).
  rewrite dl_diff by (intros ->; apply Hn; left; reflexivity). ring.
Qed.
Lemma nsum_delta_in (g : nat -> R) j l : NoDup l -> In j l -> nsum (map (fun k => g k * dl k j) l) = g j.
Proof.
  induction l as [|a l IH]; intros Hd Hi; [destruct Hi|].
  inversion Hd as [|? ? Hna Hd']; subst. cbn [map]. rewrite nsum_cons.
  destruct (Nat.eq_dec a j) as [->|Hne].
  - rewrite nsum_delta_notin by assumption. rewrite dl_same. ring.
  - rewrite IH; [|assumption|destruct Hi; [contradiction|assumption]]. rewrite dl_diff by assumption. ring.
Qed.
Lemma sumn_delta_r n (g : nat -> R) j : (j < n)%nat -> sumn n (fun k => g k * dl k j) = g j.
Proof. intros Hj. apply nsum_delta_in; [apply seq_NoDup|apply in_seq; lia]. Qed.
Lemma dl_sym a b : dl a b = dl b a.
Proof. destruct (Nat.eq_dec a b) as [->|Hn]; [reflexivity|]. rewrite !dl_diff by congruence. reflexivity. Qed.
Lemma sumn_delta_l n (g : nat -> R) i : (i < n)%nat -> sumn n (fun k => dl i k * g k) = g i.
Proof. intros Hi. rewrite <- (sumn_delta_r n g i Hi). apply sumn_ext. intros k _. rewrite dl_sym. ring. Qed.

Lemma map_nth_seq {A} (l : list A) d : map (fun k => nth k l d) (seq 0 (length l)) = l.
Proof.
  apply (nth_ext _ _ d d); [rewrite map_length, seq_length; reflexivity|].
  intros i Hi. rewrite map_length, seq_length in Hi. rewrite (nth_map_seq (fun k => nth k l d)) by assumption. reflexivity.
Qed.

Lemma perm_seq_facts n (perm : list nat) : Permutation perm (seq 0 n) ->
  length perm = n /\ NoDup perm /\ (forall a, (a < n)%nat -> (nth a perm 0 < n)%nat).
Proof.
  intros P. assert (L : length perm = n) by (rewrite (Permutation_length P); apply seq_length).
  split; [assumption|]. split.
  - apply (Permutation_NoDup (Permutation_sym P)), seq_NoDup.
  - intros a Ha. assert (I : In (nth a perm 0%nat) (seq 0 n)) by (apply (Permutation_in _ P), nth_In; lia).
    apply in_seq in I. lia.
Qed.

Lemma sumn_perm n (perm : list nat) (g : nat -> R) : Permutation perm (seq 0 n) ->
  sumn n (fun k => g (nth k perm 0%nat)) = sumn n g.
Proof.
  intros P. destruct (perm_seq_facts n perm P) as (L & _ & _). unfold sumn.
  rewrite <- (map_map (fun k => nth k perm 0%nat) g). rewrite <- L at 1. rewrite map_nth_seq.
  apply gd_nsum_perm, Permutation_map, P.
Qed.

Lemma ndot_cons (x y : R) a b : ndot (x :: a) (y :: b) = x * y + ndot a b.
Proof. reflexivity. Qed.
Lemma sumn_S n g : sumn (S n) g = g 0%nat + sumn n (fun k => g (S k)).
Proof. unfold sumn. cbn [seq map]. rewrite nsum_cons, <- seq_shift, map_map. reflexivity. Qed.
Lemma ndot_sumn n : forall (a b : list R), length a = n -> length b = n ->
  ndot a b = sumn n (fun k => nth k a 0 * nth k b 0).
Proof.
  induction n as [|n IH]; intros [|x a] [|y b] Ha Hb; try discriminate.
  - reflexivity.
  - rewrite ndot_cons, sumn_S. cbn [nth]. f_equal. apply IH; [injection Ha|injection Hb]; auto.
Qed.

Lemma wfm_row n M i : wfm n M -> (i < n)%nat -> length (nth i M []) = n.
Proof. intros [L F] Hi. rewrite Forall_forall in F. apply F, nth_In. lia. Qed.

Lemma ent_mat_mul n A B i j : wfm n A -> wfm n B -> (i < n)%nat -> (j < n)%nat ->
  ent (mat_mul A B) i j = sumn n (fun k => ent A i k * ent B k j).
Proof.
  intros WA WB Hi Hj. pose proof WA as [LA _]. pose proof WB as [LB _].
  destruct B as [|b0 B']; [cbn in LB; lia|].
  assert (Lb0 : length b0 = n) by (apply (wfm_row n (b0 :: B') 0 WB); lia).
  unfold entry, mat_mul. rewrite (nth_map_in _ A i [] []) by lia. rewrite Lb0.
  rewrite nth_map_seq by assumption.
  rewrite (ndot_sumn n); [|apply wfm_row; assumption|unfold col; rewrite map_length; assumption].
  apply sumn_ext. intros k Hk. f_equal. unfold col.
  rewrite (nth_map_in _ (b0 :: B') k _ []) by lia. reflexivity.
Qed.

Lemma wfm_mat_mul n A B : wfm n A -> wfm n B -> wfm n (mat_mul A B).
Proof.
  intros [LA FA] WB. pose proof WB as [LB FB]. destruct B as [|b0 B'].
  - cbn in LB. subst n. destruct A; [|discriminate]. split; [reflexivity|constructor].
  - assert (Lb0 : length b0 = n) by (apply (wfm_row n (b0 :: B') 0 WB); cbn [length] in LB; lia).
    unfold mat_mul. split; [rewrite map_length; assumption|].
    apply Forall_forall. intros r Hr. apply in_map_iff in Hr. destruct Hr as (r0 & <- & _).
    rewrite map_length, seq_length. assumption.
Qed.

Lemma mat_ext n A B : wfm n A -> wfm n B ->
  (forall i j, (i < n)%nat -> (j < n)%nat -> ent A i j = ent B i j) -> A = B.
Proof.
  intros WA WB E. pose proof WA as [LA _]. pose proof WB as [LB _].
  apply (nth_ext _ _ [] []); [congruence|]. intros i Hi. rewrite LA in Hi.
  apply (nth_ext _ _ 0 0); [rewrite !(wfm_row n) by assumption; reflexivity|].
  intros j Hj. rewrite (wfm_row n) in Hj by assumption. apply E; assumption.
Qed.

Lemma wfm_ident n : wfm n (@ident R NumR n).
Proof.
  unfold ident. split; [rewrite map_length, seq_length; reflexivity|].
  apply Forall_forall. intros r Hr. apply in_map_iff in Hr. destruct Hr as (i & <- & _).
  rewrite map_length, seq_length. reflexivity.
Qed.
Lemma ent_ident n i j : (i < n)%nat -> (j < n)%nat -> ent (ident n) i j = dl i j.
Proof. intros Hi Hj. unfold entry, ident. rewrite (nth_map_seq _ n i) by assumption. rewrite nth_map_seq by assumption. reflexivity. Qed.

Lemma mat_mul_assoc n A B C : wfm n A -> wfm n B -> wfm n C ->
  mat_mul (mat_mul A B) C = mat_mul A (mat_mul B C).
Proof.
  intros WA WB WC. apply (mat_ext n); [repeat apply wfm_mat_mul; assumption..|].
  intros i j Hi Hj.
  rewrite (ent_mat_mul n) by (try apply wfm_mat_mul; assumption).
  rewrite (ent_mat_mul n A) by (try apply wfm_mat_mul; assumption).
  rewrite (sumn_ext n _ (fun k => sumn n (fun l => ent A i l * ent B l k * ent C k j))).
  2:{ intros k Hk. rewrite (ent_mat_mul n) by assumption. unfold sumn. apply nsum_map_scal_r. }
  rewrite (sumn_ext n (fun k => ent A i k * ent (mat_mul B C) k j) (fun l => sumn n (fun k => ent A i l * ent B l k * ent C k j))).
  2:{ intros l Hl. rewrite (ent_mat_mul n) by assumption. unfold sumn. rewrite nsum_map_scal_l.
      apply nsum_map_ext. intros k _. ring. }
  unfold sumn. apply nsum_swap.
Qed.

Lemma mat_mul_ident_r n A : wfm n A -> mat_mul A (ident n) = A.
Proof.
  intros WA. apply (mat_ext n); [apply wfm_mat_mul; [assumption|apply wfm_ident]|assumption|].
  intros i j Hi Hj. rewrite (ent_mat_mul n) by (try apply wfm_ident; assumption).
  rewrite (sumn_ext n _ (fun k => ent A i k * dl k j)) by (intros k Hk; rewrite ent_ident by assumption; reflexivity).
  apply sumn_delta_r. assumption.
Qed.
Lemma mat_mul_ident_l n A : wfm n A -> mat_mul (ident n) A = A.
Proof.
  intros WA. apply (mat_ext n); [apply wfm_mat_mul; [apply wfm_ident|assumption]|assumption|].
  intros i j Hi Hj. rewrite (ent_mat_mul n) by (try apply wfm_ident; assumption).
  rewrite (sumn_ext n _ (fun k => dl i k * ent A k j)) by (intros k Hk; rewrite ent_ident by assumption; reflexivity).
  apply (sumn_delta_l n (fun k => ent A k j)). assumption.
Qed.

(** a right inverse and a left inverse of the same matrix coincide *)
Lemma inverse_unique n A X Y : wfm n A -> wfm n X -> wfm n Y ->
  mat_mul A X = ident n -> mat_mul Y A = ident n -> X = Y.
Proof.
  intros WA WX WY HX HY.
  rewrite <- (mat_mul_ident_l n X WX), <- HY, (mat_mul_assoc n Y A X) by assumption.
  rewrite HX. apply mat_mul_ident_r. assumption.
Qed.

(** *** re-listing rows and columns *)
Lemma length_select (idx : list nat) (v : list R) : length (select idx v) = length idx.
Proof. apply map_length. Qed.
Lemma nth_select (idx : list nat) (v : list R) a : (a < length idx)%nat -> nth a (select idx v) 0 = nth (nth a idx 0%nat) v 0.
Proof. intros Ha. unfold select. exact (nth_map_in (fun i => nth i v 0) idx a 0 0%nat Ha). Qed.
Lemma wfm_sub_mat n (perm : list nat) M : length perm = n -> wfm n (sub_mat perm M).
Proof.
  intros L. unfold sub_mat. split; [rewrite map_length; assumption|].
  apply Forall_forall. intros r Hr. apply in_map_iff in Hr. destruct Hr as (i & <- & _).
  rewrite length_select. assumption.
Qed.
Lemma ent_sub_mat (perm : list nat) M a b : (a < length perm)%nat -> (b < length perm)%nat ->
  ent (sub_mat perm M) a b = ent M (nth a perm 0%nat) (nth b perm 0%nat).
Proof.
  intros Ha Hb. unfold entry, sub_mat.
  rewrite (nth_map_in (fun i => select perm (nth i M [])) perm a [] 0%nat) by assumption.
  apply nth_select. assumption.
Qed.

Lemma sub_mat_mul n perm A B : wfm n A -> wfm n B -> Permutation perm (seq 0 n) ->
  sub_mat perm (mat_mul A B) = mat_mul (sub_mat perm A) (sub_mat perm B).
Proof.
  intros WA WB P. destruct (perm_seq_facts n perm P) as (L & _ & Hlt).
  apply (mat_ext n); [apply wfm_sub_mat; assumption|apply wfm_mat_mul; apply wfm_sub_mat; assumption|].
  intros a b Ha Hb.
  rewrite ent_sub_mat by lia. rewrite (ent_mat_mul n) by auto.
  rewrite (ent_mat_mul n) by (try apply wfm_sub_mat; assumption).
  rewrite (sumn_ext n (fun k => ent (sub_mat perm A) a k * ent (sub_mat perm B) k b)
                      (fun k => (fun k' => ent A (nth a perm 0%nat) k' * ent B k' (nth b perm 0%nat)) (nth k perm 0%nat))).
  2:{ intros k Hk. rewrite !ent_sub_mat by lia. reflexivity. }
  symmetry. exact (sumn_perm n perm (fun k' => ent A (nth a perm 0%nat) k' * ent B k' (nth b perm 0%nat)) P).
Qed.

Lemma sub_mat_ident n perm : Permutation perm (seq 0 n) -> sub_mat perm (@ident R NumR n) = ident n.
Proof.
  intros P. destruct (perm_seq_facts n perm P) as (L & ND & Hlt).
  apply (mat_ext n); [apply wfm_sub_mat; assumption|apply wfm_ident|].
  intros a b Ha Hb. rewrite ent_sub_mat by lia. rewrite !ent_ident by auto.
  destruct (Nat.eq_dec a b) as [->|Hn]; [rewrite !dl_same; reflexivity|].
  rewrite (dl_diff a b Hn). apply dl_diff. intros E. apply Hn.
  apply (proj1 (NoDup_nth perm 0%nat) ND); lia.
Qed.

Lemma qform_sumn n M v : wfm n M -> length v = n ->
  qform M v = sumn n (fun i => nth i v 0 * sumn n (fun j => ent M i j * nth j v 0)).
Proof.
  intros WM Lv. pose proof WM as [LM _]. unfold qform, mat_vec.
  rewrite (ndot_sumn n) by (rewrite ?map_length; assumption).
  apply sumn_ext. intros i Hi. f_equal.
  rewrite (nth_map_in _ M i _ []) by lia.
  apply (ndot_sumn n); [apply wfm_row; assumption|assumption].
Qed.

Lemma qform_sub_mat n perm M v : wfm n M -> length v = n -> Permutation perm (seq 0 n) ->
  qform (sub_mat perm M) (select perm v) = qform M v.
Proof.
  intros WM Lv P. destruct (perm_seq_facts n perm P) as (L & _ & Hlt).
  rewrite (qform_sumn n) by (try apply wfm_sub_mat; rewrite ?length_select; assumption).
  rewrite (qform_sumn n M v) by assumption.
  rewrite <- (sumn_perm n perm (fun i => nth i v 0 * sumn n (fun j => ent M i j * nth j v 0)) P).
  apply sumn_ext. intros a Ha. rewrite nth_select by lia. f_equal.
  rewrite <- (sumn_perm n perm (fun j => ent M (nth a perm 0%nat) j * nth j v 0) P).
  apply sumn_ext. intros b Hb. rewrite nth_select, ent_sub_mat by lia. reflexivity.
Qed.

Lemma trace_sumn n M : length M = n -> @trace R NumR M = sumn n (fun i => ent M i i).
Proof. intros L. unfold trace, sumn. rewrite L. reflexivity. Qed.
Lemma trace_sub_mat n perm M : wfm n M -> Permutation perm (seq 0 n) -> trace (sub_mat perm M) = trace M.
Proof.
  intros [LM _] P. destruct (perm_seq_facts n perm P) as (L & _ & _).
  rewrite (trace_sumn n) by (unfold sub_mat; rewrite map_length; assumption).
  rewrite (trace_sumn n M LM). rewrite <- (sumn_perm n perm (fun i => ent M i i) P).
  apply sumn_ext. intros a Ha. apply ent_sub_mat; lia.
Qed.

(** *** the self-certifying inverse *)
Definition is_inv (n : nat) (A Ai : list (list R)) : Prop :=
  wfm n A /\ wfm n Ai /\ mat_mul A Ai = ident n /\ mat_mul Ai A = ident n.

Lemma wf_matb_sound n (M : list (list R)) : wf_matb n M = true -> wfm n M.
Proof.
  unfold wf_matb. intros Hb. apply andb_true_iff in Hb. destruct Hb as [H1 H2].
  apply Nat.eqb_eq in H1. split; [assumption|].
  apply Forall_forall. intros r Hr. rewrite forallb_forall in H2. apply Nat.eqb_eq, H2, Hr.
Qed.
Lemma mat_eqb_sound n (A B : list (list R)) : mat_eqb n A B = true ->
  forall i j, (i < n)%nat -> (j < n)%nat -> ent A i j = ent B i j.
Proof.
  unfold mat_eqb. intros Hb i j Hi Hj. rewrite forallb_forall in Hb.
  specialize (Hb i ltac:(apply in_seq; lia)). rewrite forallb_forall in Hb.
  specialize (Hb j ltac:(apply in_seq; lia)). numR. apply Reqb_true. exact Hb.
Qed.
Lemma inv_ok_sound (A Ai : list (list R)) : inv_ok A Ai = true -> is_inv (length A) A Ai.
Proof.
  unfold inv_ok. intros Hb.
  apply andb_true_iff in Hb. destruct Hb as [Hb H4]. apply andb_true_iff in Hb. destruct Hb as [Hb H3].
  apply andb_true_iff in Hb. destruct Hb as [H1 H2].
  apply wf_matb_sound in H1. apply wf_matb_sound in H2.
  repeat split; try (destruct H1, H2; assumption).
  - apply (mat_ext (length A)); [apply wfm_mat_mul; assumption|apply wfm_ident|apply mat_eqb_sound; assumption].
  - apply (mat_ext (length A)); [apply wfm_mat_mul; assumption|apply wfm_ident|apply mat_eqb_sound; assumption].
Qed.
Lemma mat_inv_v_sound (A Ai : list (list R)) : mat_inv_v A = Some Ai -> is_inv (length A) A Ai.
Proof.
  unfold mat_inv_v. destruct (mat_inv A) as [X|]; [|discriminate].
  destruct (inv_ok A X) eqn:E; [|discriminate]. intros [= <-]. apply inv_ok_sound, E.
Qed.

Lemma is_inv_sub_mat n perm A Ai : Permutation perm (seq 0 n) -> is_inv n A Ai ->
  is_inv n (sub_mat perm A) (sub_mat perm Ai).
Proof.
  intros P (WA & WI & H1 & H2). destruct (perm_seq_facts n perm P) as (L & _ & _).
  repeat split; try (apply wfm_sub_mat; assumption); try (unfold sub_mat; rewrite map_length; assumption).
  - rewrite <- (sub_mat_mul n) by assumption. rewrite H1. apply sub_mat_ident, P.
  - rewrite <- (sub_mat_mul n) by assumption. rewrite H2. apply sub_mat_ident, P.
Qed.

(** whatever inverse is found for the re-listed matrix, it is the re-listed inverse *)
Lemma mat_inv_v_sub_mat n perm A Ai Ai' : length A = n -> Permutation perm (seq 0 n) ->
  mat_inv_v A = Some Ai -> mat_inv_v (sub_mat perm A) = Some Ai' -> Ai' = sub_mat perm Ai.
Proof.
  intros LA P E E'. destruct (perm_seq_facts n perm P) as (L & _ & _).
  apply mat_inv_v_sound in E. rewrite LA in E.
  apply mat_inv_v_sound in E'. unfold sub_mat at 1 in E'. rewrite map_length, L in E'.
  destruct (is_inv_sub_mat n perm A Ai P E) as (W1 & W2 & R1 & R2).
  destruct E' as (W1' & W2' & R1' & R2').
  symmetry. apply (inverse_unique n (sub_mat perm A)); assumption.
Qed.

(** *** the statistics do not depend on the order in which the nested parameters are listed *)
Lemma gim_sub_mat n perm Hm Jm G G' : wfm n Hm -> wfm n Jm -> Permutation perm (seq 0 n) ->
  gim Hm Jm = Some G -> gim (sub_mat perm Hm) (sub_mat perm Jm) = Some G' -> G' = sub_mat perm G /\ wfm n G.
Proof.
  intros WH WJ P. unfold gim.
  destruct (mat_inv_v Jm) as [Ji|] eqn:E; [|discriminate].
  destruct (mat_inv_v (sub_mat perm Jm)) as [Ji'|] eqn:E'; [|discriminate].
  intros [= <-] [= <-].
  rewrite (mat_inv_v_sub_mat n perm Jm Ji Ji' (proj1 WJ) P E E').
  apply mat_inv_v_sound in E. rewrite (proj1 WJ) in E. destruct E as (_ & WI & _ & _).
  split; [|repeat apply wfm_mat_mul; assumption].
  rewrite <- !(sub_mat_mul n) by (try apply wfm_mat_mul; assumption). reflexivity.
Qed.

Lemma wald_order_invariant n perm Hm Jm d w w' : wfm n Hm -> wfm n Jm -> length d = n -> Permutation perm (seq 0 n) ->
  wald_stat Hm Jm d = Some w -> wald_stat (sub_mat perm Hm) (sub_mat perm Jm) (select perm d) = Some w' -> w' = w.
Proof.
  intros WH WJ Ld P. unfold wald_stat.
  destruct (gim Hm Jm) as [G|] eqn:E; [|discriminate].
  destruct (gim (sub_mat perm Hm) (sub_mat perm Jm)) as [G'|] eqn:E'; [|discriminate].
  intros [= <-] [= <-].
  destruct (gim_sub_mat n perm Hm Jm G G' WH WJ P E E') as [-> WG].
  rewrite !(qform_sub_mat n) by assumption. reflexivity.
Qed.

Lemma qform_inv_order_invariant n perm M v a a' : wfm n M -> length v = n -> Permutation perm (seq 0 n) ->
  qform_inv M v = Some a -> qform_inv (sub_mat perm M) (select perm v) = Some a' -> a' = a.
Proof.
  intros WM Lv P. unfold qform_inv.
  destruct (mat_inv_v M) as [Mi|] eqn:E; [|discriminate].
  destruct (mat_inv_v (sub_mat perm M)) as [Mi'|] eqn:E'; [|discriminate].
  intros [= <-] [= <-].
  rewrite (mat_inv_v_sub_mat n perm M Mi Mi' (proj1 WM) P E E').
  apply mat_inv_v_sound in E. rewrite (proj1 WM) in E. destruct E as (_ & WI & _ & _).
  apply (qform_sub_mat n); assumption.
Qed.

Lemma score_order_invariant n perm Hm Jm cU s s' : wfm n Hm -> wfm n Jm -> length cU = n -> Permutation perm (seq 0 n) ->
  score_stat Hm Jm cU = Some s -> score_stat (sub_mat perm Hm) (sub_mat perm Jm) (select perm cU) = Some s' -> s' = s.
Proof.
  intros WH WJ Lc P. unfold score_stat.
  destruct (qform_inv Jm cU) as [a|] eqn:Ea; [|discriminate].
  destruct (qform_inv Hm cU) as [o|] eqn:Eo; [|discriminate].
  destruct (qform_inv (sub_mat perm Jm) (select perm cU)) as [a'|] eqn:Ea'; [|discriminate].
  destruct (qform_inv (sub_mat perm Hm) (select perm cU)) as [o'|] eqn:Eo'; [|discriminate].
  intros [= <-] [= <-].
  rewrite (qform_inv_order_invariant n perm Jm cU a a' WJ Lc P Ea Ea').
  rewrite (qform_inv_order_invariant n perm Hm cU o o' WH Lc P Eo Eo'). reflexivity.
Qed.

Lemma lrt_order_invariant n perm Hm Jm a a' : wfm n Hm -> wfm n Jm -> Permutation perm (seq 0 n) ->
  lrt_adjust Hm Jm = Some a -> lrt_adjust (sub_mat perm Hm) (sub_mat perm Jm) = Some a' -> a' = a.
Proof.
  intros WH WJ P. destruct (perm_seq_facts n perm P) as (L & _ & _). unfold lrt_adjust.
  destruct (mat_inv_v Hm) as [Hi|] eqn:E; [|discriminate].
  destruct (mat_inv_v (sub_mat perm Hm)) as [Hi'|] eqn:E'; [|discriminate].
  intros [= <-] [= <-].
  rewrite (mat_inv_v_sub_mat n perm Hm Hi Hi' (proj1 WH) P E E').
  apply mat_inv_v_sound in E. rewrite (proj1 WH) in E. destruct E as (_ & WI & _ & _).
  rewrite <- (sub_mat_mul n) by assumption.
  rewrite (trace_sub_mat n) by (try apply wfm_mat_mul; assumption).
  unfold sub_mat at 1. rewrite map_length, L, (proj1 WH). reflexivity.
Qed.

(** *** Wald_stat: the parameter difference follows the order of the index list *)
Lemma nth_vsub (a b : list R) k : length a = length b -> nth k (vsub a b) 0 = nth k a 0 - nth k b 0.
Proof.
  revert b k. induction a as [|x a IH]; intros [|y b] k L; try discriminate.
  - destruct k; cbn; numR; ring.
  - destruct k; cbn [vsub combine map nth]; [reflexivity|]. apply IH. injection L; auto.
Qed.
Lemma length_vsub (a b : list R) : length a = length b -> length (vsub a b) = length a.
Proof. intros L. unfold vsub. rewrite map_length, combine_length, L. apply Nat.min_id. Qed.
Lemma select_vsub perm (a b : list R) : length a = length b ->
  select perm (vsub a b) = vsub (select perm a) (select perm b).
Proof.
  intros L. apply (nth_ext _ _ 0 0).
  - rewrite length_select, length_vsub, length_select by (rewrite !length_select; reflexivity). reflexivity.
  - intros k Hk. rewrite length_select in Hk.
    rewrite nth_select, nth_vsub, nth_vsub, !nth_select by (rewrite ?length_select; auto). reflexivity.
Qed.
Lemma select_select n perm (idx : list nat) (v : list R) : length idx = n -> Permutation perm (seq 0 n) ->
  select (map (fun k => nth k idx 0%nat) perm) v = select perm (select idx v).
Proof.
  intros Li P. destruct (perm_seq_facts n perm P) as (L & _ & Hlt).
  unfold select at 1 2. rewrite map_map. apply map_ext_in. intros k Hk.
  assert (Hkn : (k < n)%nat) by (apply (Permutation_in _ P) in Hk; apply in_seq in Hk; lia).
  symmetry. apply nth_select. lia.
Qed.

(** full_params given as the values of the nested parameters, in the order of the index list: listing indices and values
    in another order (consistently) re-lists the difference vector; full_params given as the complete parameter list:
    the index list alone decides *)
Lemma wald_diff_values_perm n perm theta (p0 : list R) idx vals : length idx = n -> length vals = n ->
  n <> length p0 -> n <> S (length p0) -> Permutation perm (seq 0 n) ->
  wald_diff theta p0 (map (fun k => nth k idx 0%nat) perm) (select perm vals)
  = option_map (select perm) (wald_diff theta p0 idx vals) /\ wald_diff theta p0 idx vals <> None.
Proof.
  intros Li Lv N1 N2 P. destruct (perm_seq_facts n perm P) as (L & _ & _).
  unfold wald_diff.
  assert (E1 : forall (x : list R), length x = n ->
            (if Nat.eqb (length x) (length p0) then x ++ [0] else x) = x).
  { intros x Lx. destruct (Nat.eqb_spec (length x) (length p0)); [lia|reflexivity]. }
  set (p0' := match theta with Some th => p0 ++ [th] | None => p0 end).
  assert (Lp : length p0' = length p0 \/ length p0' = S (length p0)).
  { unfold p0'. destruct theta; [right; rewrite app_length; cbn; lia|left; reflexivity]. }
  assert (F : forall x : list R, length x = n ->
            match theta with Some th => if Nat.eqb (length x) (length p0) then x ++ [th] else x | None => x end = x).
  { intros x Lx. destruct theta; [|reflexivity]. destruct (Nat.eqb_spec (length x) (length p0)); [lia|reflexivity]. }
  rewrite (F vals Lv), (F (select perm vals)) by (rewrite length_select; assumption).
  assert (G : forall x : list R, length x = n -> Nat.eqb (length x) (length p0') = false).
  { intros x Lx. apply Nat.eqb_neq. lia. }
  rewrite (G vals Lv), (G (select perm vals)) by (rewrite length_select; assumption).
  rewrite length_select, map_length, L, Lv, Li, Nat.eqb_refl. cbn [option_map]. split; [|discriminate].
  f_equal. rewrite (select_select n) by assumption.
  symmetry. apply select_vsub. rewrite length_select. congruence.
Qed.

Lemma wald_diff_full_perm n perm theta (p0 : list R) idx full : length idx = n -> length full = length p0 ->
  Permutation perm (seq 0 n) ->
  wald_diff theta p0 (map (fun k => nth k idx 0%nat) perm) full
  = option_map (select perm) (wald_diff theta p0 idx full) /\ wald_diff theta p0 idx full <> None.
Proof.
  intros Li Lf P. destruct (perm_seq_facts n perm P) as (L & _ & _).
  unfold wald_diff.
  set (p0' := match theta with Some th => p0 ++ [th] | None => p0 end).
  set (fp := match theta with Some th => if Nat.eqb (length full) (length p0) then full ++ [th] else full | None => full end).
  assert (Lfp : length fp = length p0').
  { unfold fp, p0'. destruct theta; [|assumption]. rewrite Lf, Nat.eqb_refl, !app_length. lia. }
  rewrite Lfp, Nat.eqb_refl. rewrite !length_select, map_length, L, Li, Nat.eqb_refl. cbn [option_map].
  split; [|discriminate]. f_equal. rewrite !(select_select n) by assumption.
  symmetry. apply select_vsub. rewrite !length_select. reflexivity.
Qed.

Lemma length_wald_diff theta (p0 : list R) idx fp d : wald_diff theta p0 idx fp = Some d -> length d = length idx.
Proof.
  unfold wald_diff. match goal with |- context [if Nat.eqb (length ?x) (length idx) then _ else _] => set (fp' := x) end.
  destruct (Nat.eqb_spec (length fp') (length idx)) as [E|]; [|discriminate].
  intros [= <-]. rewrite length_vsub by (rewrite length_select; assumption). assumption.
Qed.

(** the statement about the caller's lists *)
Lemma wald_nested_order_irrelevant n perm theta (p0 : list R) idx fp fp' Hm Jm d d' w w' :
  wfm n Hm -> wfm n Jm -> length idx = n -> Permutation perm (seq 0 n) ->
  (length fp = length p0 /\ fp' = fp) \/ (length fp = n /\ n <> length p0 /\ n <> S (length p0) /\ fp' = select perm fp) ->
  wald_diff theta p0 idx fp = Some d -> wald_stat Hm Jm d = Some w ->
  wald_diff theta p0 (map (fun k => nth k idx 0%nat) perm) fp' = Some d' ->
  wald_stat (sub_mat perm Hm) (sub_mat perm Jm) d' = Some w' -> w' = w.
Proof.
  intros WH WJ Li P Hfp Ed Ew Ed' Ew'.
  assert (Ld : length d = n) by (rewrite (length_wald_diff _ _ _ _ _ Ed); assumption).
  assert (Hd' : d' = select perm d).
  { destruct Hfp as [[Lf ->]|(Lf & N1 & N2 & ->)].
    - destruct (wald_diff_full_perm n perm theta p0 idx fp Li Lf P) as [E _].
      rewrite E, Ed in Ed'. cbn in Ed'. congruence.
    - destruct (wald_diff_values_perm n perm theta p0 idx fp Li Lf N1 N2 P) as [E _].
      rewrite E, Ed in Ed'. cbn in Ed'. congruence. }
  subst d'. apply (wald_order_invariant n perm Hm Jm d); assumption.
Qed.

(** *** a nested index listed twice: numpy's indexed assignment lets the last value win, so diff_func ignores the
    value at the earlier position; row and column of H and J at that position vanish and nothing can be inverted *)
Lemma upd_upd_same (p : list R) i v w : upd (upd p i v) i w = upd p i w.
Proof. revert i; induction p as [|x t IH]; intros [|i]; cbn; auto. f_equal. apply IH. Qed.
Lemma upd_upd_comm (p : list R) i j v w : i <> j -> upd (upd p i v) j w = upd (upd p j w) i v.
Proof. revert i j; induction p as [|x t IH]; intros [|i] [|j] Hn; cbn; auto; try congruence. f_equal. apply IH. congruence. Qed.
Lemma upd_nth_same (p : list R) i : upd p i (nth i p 0) = p.
Proof. revert i; induction p as [|x t IH]; intros [|i]; cbn; auto. f_equal. apply IH. Qed.

Lemma scatter_fold_shadowed (l : list (nat * R)) full i v : In i (map fst l) ->
  fold_left (fun acc iq => upd acc (fst iq) (snd iq)) l (upd full i v)
  = fold_left (fun acc iq => upd acc (fst iq) (snd iq)) l full.
Proof.
  revert full. induction l as [|[j w] l IH]; intros full Hi; [destruct Hi|].
  cbn [fold_left fst snd]. destruct (Nat.eq_dec j i) as [->|Hn].
  - rewrite upd_upd_same. reflexivity.
  - rewrite (upd_upd_comm full i j v w) by congruence. apply IH.
    destruct Hi as [E|Hi]; [cbn in E; congruence|assumption].
Qed.
Lemma map_fst_combine {A B} (a : list A) (b : list B) : map fst (combine a b) = firstn (length b) a.
Proof. revert b; induction a as [|x a IH]; intros [|y b]; cbn; auto. f_equal. apply IH. Qed.
Lemma scatter_repeated (full : list R) i idx v q : In i (firstn (length q) idx) ->
  scatter full (i :: idx) (v :: q) = scatter full idx q.
Proof. intros Hi. unfold scatter. cbn [combine fold_left fst snd]. apply scatter_fold_shadowed. rewrite map_fst_combine. assumption. Qed.

Section Indep.
  Variables (f : list R -> R) (p0 : list R) (k : nat).
  Hypothesis Hind : forall p x, length p = length p0 -> f (upd p k x) = f p.

  Lemma indep1 x : f (upd p0 k x) = f p0.
  Proof. apply Hind. reflexivity. Qed.
  Lemma indep2a j x y : f (upd (upd p0 k x) j y) = f (upd p0 j y).
  Proof.
    destruct (Nat.eq_dec k j) as [<-|Hn]; [rewrite upd_upd_same, !indep1; reflexivity|].
    rewrite upd_upd_comm by assumption. apply Hind. apply length_upd.
  Qed.
  Lemma indep2b j x y : f (upd (upd p0 j y) k x) = f (upd p0 j y).
  Proof. apply Hind. apply length_upd. Qed.

  Lemma hess_elem_indep_l jj eps os : nth k eps 0 <> 0 -> nth jj eps 0 <> 0 -> hess_elem f (f p0) p0 k jj eps os = 0.
  Proof.
    intros Hk Hj. unfold hess_elem. destruct (Nat.eqb k jj).
    - destruct (_ && _); rewrite !indep1; gd_unfold; field; assumption.
    - destruct (_ && _); rewrite !indep2a; rewrite ?upd_nth_same; gd_unfold; field; auto.
  Qed.
  Lemma hess_elem_indep_r ii eps os : nth k eps 0 <> 0 -> nth ii eps 0 <> 0 -> hess_elem f (f p0) p0 ii k eps os = 0.
  Proof.
    intros Hk Hi. unfold hess_elem. destruct (Nat.eqb_spec ii k) as [->|Hn].
    - destruct (_ && _); rewrite !indep1; gd_unfold; field; assumption.
    - destruct (_ && _); rewrite !indep2b; rewrite ?upd_nth_same; gd_unfold; field; auto.
  Qed.
  Lemma grad_elem_indep eps os : nth k eps 0 <> 0 -> grad_elem f p0 k eps os = 0.
  Proof. intros Hk. unfold grad_elem. destruct (_ && _); rewrite !indep1; rewrite ?upd_nth_same; gd_unfold; field; assumption. Qed.
End Indep.

Lemma get_hess_indep_row (f : list R -> R) (p0 : list R) (eps : R) k c :
  (forall p x, length p = length p0 -> f (upd p k x) = f p) -> eps <> 0 ->
  (k < length p0)%nat -> (c < length p0)%nat ->
  ent (get_hess f p0 eps) k c = 0 /\ ent (get_hess f p0 eps) c k = 0.
Proof.
  intros Hind He Hk Hc. unfold entry, get_hess.
  assert (Hs : forall i, (i < length p0)%nat -> nth i (map fst (map (step_rule eps) p0)) 0 <> 0).
  { intros i Hi. rewrite (proj1 (nth_steps eps p0 i Hi)). apply step_rule_nonzero, He. }
  rewrite !(nth_map_seq _ (length p0)) by assumption. numR.
  split.
  - destruct (Nat.le_ge_cases k c) as [L|L].
    + rewrite Nat.min_l, Nat.max_r by assumption. apply hess_elem_indep_l; auto.
    + rewrite Nat.min_r, Nat.max_l by assumption. apply hess_elem_indep_r; auto.
  - destruct (Nat.le_ge_cases c k) as [L|L].
    + rewrite Nat.min_l, Nat.max_r by assumption. apply hess_elem_indep_r; auto.
    + rewrite Nat.min_r, Nat.max_l by assumption. apply hess_elem_indep_l; auto.
Qed.

Lemma get_grad_indep (f : list R -> R) (p0 : list R) (eps : R) k :
  (forall p x, length p = length p0 -> f (upd p k x) = f p) -> eps <> 0 -> (k < length p0)%nat ->
  nth k (get_grad f p0 eps) 0 = 0.
Proof.
  intros Hind He Hk. unfold get_grad. rewrite (nth_map_seq _ (length p0)) by assumption.
  apply grad_elem_indep; [assumption|]. rewrite (proj1 (nth_steps eps p0 k Hk)). apply step_rule_nonzero, He.
Qed.

(** a matrix with a vanishing row has no (certified) inverse *)
Lemma zero_row_no_inverse n (M : list (list R)) k : length M = n -> (k < n)%nat ->
  (forall c, (c < n)%nat -> ent M k c = 0) -> mat_inv_v M = None.
Proof.
  intros LM Hk Hz. destruct (mat_inv_v M) as [Mi|] eqn:E; [|reflexivity]. exfalso.
  apply mat_inv_v_sound in E. rewrite LM in E. destruct E as (WM & WI & R1 & _).
  assert (E : ent (mat_mul M Mi) k k = ent (ident n) k k) by (rewrite R1; reflexivity).
  rewrite (ent_mat_mul n), ent_ident, dl_same in E by assumption.
  rewrite (sumn_ext n _ (fun _ => 0)) in E by (intros c Hc; rewrite Hz by assumption; ring).
  unfold sumn in E. rewrite nsum_map_zero in E. lra.
Qed.

(** the log-likelihood of diff_func when the first listed index occurs again later in the list *)
Lemma repeated_index_indep (Bs : list (list R)) aug (full : list R) i idx (dt : @pdata R) (p0 : list R) :
  In i (firstn (length p0 - 1) idx) -> (0 < length p0)%nat ->
  forall p x, length p = length p0 ->
  pois_ll (model_mean Bs aug (Some (full, i :: idx))) dt (upd p 0 x) = pois_ll (model_mean Bs aug (Some (full, i :: idx))) dt p.
Proof.
  intros Hi Hl p x Lp. destruct p as [|v q]; [reflexivity|]. cbn [upd].
  assert (Lq : length q = (length p0 - 1)%nat) by (cbn [length] in Lp; lia).
  unfold pois_ll, model_mean. cbn [fst snd].
  rewrite !scatter_repeated by (rewrite Lq; assumption). reflexivity.
Qed.

Lemma repeated_nested_index_singular (Bs : list (list R)) aug (full : list R) i idx (data : @pdata R) (boots : list (@pdata R))
      (p0 : list R) (eps : R) :
  In i (firstn (length p0 - 1) idx) -> (0 < length p0)%nat -> eps <> 0 -> boots <> [] ->
  let HJc := godambe_HJc (fun dt => pois_ll (model_mean Bs aug (Some (full, i :: idx))) dt) p0 eps data boots in
  (forall c, (c < length p0)%nat -> ent (fst (fst HJc)) 0 c = 0 /\ ent (snd (fst HJc)) 0 c = 0) /\
  mat_inv_v (fst (fst HJc)) = None /\ mat_inv_v (snd (fst HJc)) = None.
Proof.
  intros Hi Hl He Hb HJc.
  assert (Z : forall c, (c < length p0)%nat -> ent (fst (fst HJc)) 0 c = 0 /\ ent (snd (fst HJc)) 0 c = 0).
  { intros c Hc. unfold HJc, godambe_HJc. cbn [fst snd]. split.
    - unfold entry. assert (L : length (get_hess (pois_ll (model_mean Bs aug (Some (full, i :: idx))) data) p0 eps) = length p0)
        by (unfold get_hess; rewrite map_length, seq_length; reflexivity).
      rewrite (nth_map_in (map nopp) _ 0 [] []) by lia.
      destruct (get_hess_indep_row (pois_ll (model_mean Bs aug (Some (full, i :: idx))) data) p0 eps 0 c
                  (repeated_index_indep Bs aug full i idx data p0 Hi Hl) He Hl Hc) as [Z0 _].
      unfold entry in Z0.
      assert (Lr : (c < length (nth 0 (get_hess (pois_ll (model_mean Bs aug (Some (full, i :: idx))) data) p0 eps) []))%nat).
      { unfold get_hess. rewrite (nth_map_seq _ (length p0)) by assumption. rewrite map_length, seq_length. assumption. }
      rewrite (nth_map_in nopp _ c 0 0) by assumption. numR. rewrite Z0. ring.
    - unfold entry, J_mat. rewrite (nth_map_seq _ (length p0)) by assumption. rewrite nth_map_seq by assumption.
      unfold J_entry. rewrite map_map.
      rewrite (nsum_map_ext _ (fun _ => 0)).
      + rewrite nsum_map_zero. numR. unfold Rdiv. ring.
      + intros bt _. rewrite get_grad_indep; [numR; ring| |assumption|assumption].
        apply repeated_index_indep; assumption. }
  split; [assumption|]. split.
  - apply (zero_row_no_inverse (length p0) _ 0); [|assumption|intros c Hc; apply (Z c Hc)].
    unfold HJc, godambe_HJc. cbn [fst snd]. unfold get_hess. rewrite !map_length, seq_length. reflexivity.
  - apply (zero_row_no_inverse (length p0) _ 0); [|assumption|intros c Hc; apply (Z c Hc)].
    unfold HJc, godambe_HJc, J_mat. cbn [fst snd]. rewrite map_length, seq_length. reflexivity.
Qed.
