(** * Proofs about the finite-difference machinery of dadi/Godambe.py (model: Model/Godambe.v), over R. *)
From Coq Require Import ZArith Reals List Lra Lia Bool Permutation.
From Dadi Require Import Base.Num Base.NumR Model.Godambe.
Import ListNotations.
Local Open Scope R_scope.

(** ** lists *)
Lemma length_upd (p : list R) i v : length (upd p i v) = length p.
Proof. revert i; induction p as [|x t IH]; intros [|i]; cbn; auto. Qed.

Lemma nth_upd_same (p : list R) i v d : (i < length p)%nat -> nth i (upd p i v) d = v.
Proof. revert i; induction p as [|x t IH]; intros [|i] Hl; cbn in *; try lia; auto. apply IH; lia. Qed.

Lemma nth_upd_other (p : list R) i k v d : i <> k -> nth k (upd p i v) d = nth k p d.
Proof. revert i k; induction p as [|x t IH]; intros [|i] [|k] Hn; cbn; auto; try congruence. Qed.

Lemma gd_nsum_perm (l l' : list R) : Permutation l l' -> nsum l = nsum l'.
Proof. induction 1; unfold nsum in *; cbn [fold_right] in *; numR; [reflexivity|rewrite IHPermutation; reflexivity|ring|congruence]. Qed.

Lemma nsum_cons (x : R) l : nsum (x :: l) = x + nsum l.
Proof. reflexivity. Qed.
Lemma nsum_nil : nsum (@nil R) = 0.
Proof. reflexivity. Qed.

Definition dl (a b : nat) : R := @delta R NumR a b.
Lemma dl_same a : dl a a = 1.
Proof. unfold dl, delta. rewrite Nat.eqb_refl. reflexivity. Qed.
Lemma dl_diff a b : a <> b -> dl a b = 0.
Proof. unfold dl, delta. intros Hn. destruct (Nat.eqb_spec a b); [contradiction|reflexivity]. Qed.

(** coordinates of the doubly / singly updated point *)
Lemma nth_upd2 (p : list R) i j vi vj k : i <> j -> (i < length p)%nat -> (j < length p)%nat ->
  nth k (upd (upd p i vi) j vj) 0 = nth k p 0 + dl k i * (vi - nth i p 0) + dl k j * (vj - nth j p 0).
Proof.
  intros Hij Hi Hj.
  destruct (Nat.eq_dec k j) as [->|Hkj].
  - rewrite nth_upd_same by (rewrite length_upd; assumption).
    rewrite dl_same, (dl_diff j i) by congruence. ring.
  - rewrite nth_upd_other by congruence.
    destruct (Nat.eq_dec k i) as [->|Hki].
    + rewrite nth_upd_same by assumption. rewrite dl_same, (dl_diff i j) by congruence. ring.
    + rewrite nth_upd_other by congruence. rewrite !dl_diff by congruence. ring.
Qed.

Lemma nth_upd1 (p : list R) i vi k : (i < length p)%nat ->
  nth k (upd p i vi) 0 = nth k p 0 + dl k i * (vi - nth i p 0).
Proof.
  intros Hi. destruct (Nat.eq_dec k i) as [->|Hki].
  - rewrite nth_upd_same by assumption. rewrite dl_same. ring.
  - rewrite nth_upd_other by congruence. rewrite dl_diff by congruence. ring.
Qed.

(** ** a quadratic along two (one) coordinate directions *)
Section Expand.
  Variables (X Di Dj : nat -> R) (s t : R).
  Lemma lin_expand (lin : list (R * nat)) :
    nsum (map (fun m => fst m * (X (snd m) + Di (snd m) * s + Dj (snd m) * t)) lin)
    = nsum (map (fun m => fst m * X (snd m)) lin)
      + s * nsum (map (fun m => fst m * Di (snd m)) lin)
      + t * nsum (map (fun m => fst m * Dj (snd m)) lin).
  Proof. induction lin as [|m l IH]; cbn [map]; rewrite ?nsum_cons, ?nsum_nil; [ring|rewrite IH; ring]. Qed.

  Lemma quad_expand (qd : list (R * (nat * nat))) :
    nsum (map (fun m => fst m * (X (fst (snd m)) + Di (fst (snd m)) * s + Dj (fst (snd m)) * t)
                              * (X (snd (snd m)) + Di (snd (snd m)) * s + Dj (snd (snd m)) * t)) qd)
    = nsum (map (fun m => fst m * X (fst (snd m)) * X (snd (snd m))) qd)
      + s * nsum (map (fun m => fst m * (Di (fst (snd m)) * X (snd (snd m)) + Di (snd (snd m)) * X (fst (snd m)))) qd)
      + t * nsum (map (fun m => fst m * (Dj (fst (snd m)) * X (snd (snd m)) + Dj (snd (snd m)) * X (fst (snd m)))) qd)
      + s * s * nsum (map (fun m => fst m * (Di (fst (snd m)) * Di (snd (snd m)))) qd)
      + t * t * nsum (map (fun m => fst m * (Dj (fst (snd m)) * Dj (snd (snd m)))) qd)
      + s * t * nsum (map (fun m => fst m * (Di (fst (snd m)) * Dj (snd (snd m)) + Dj (fst (snd m)) * Di (snd (snd m)))) qd).
  Proof. induction qd as [|m l IH]; cbn [map]; rewrite ?nsum_cons, ?nsum_nil; [ring|rewrite IH; ring]. Qed.
End Expand.

Lemma quad_d2_diag (qd : list (R * (nat * nat))) i :
  quad_d2 qd i i = 2 * nsum (map (fun m => fst m * (dl (fst (snd m)) i * dl (snd (snd m)) i)) qd).
Proof. unfold quad_d2. induction qd as [|m l IH]; cbn [map]; rewrite ?nsum_cons, ?nsum_nil; numR; [ring|].
  rewrite IH. unfold dl. ring. Qed.

Lemma quad_d2_sym (qd : list (R * (nat * nat))) i j : quad_d2 qd i j = quad_d2 qd j i.
Proof. unfold quad_d2. f_equal. apply map_ext. intros m. numR. ring. Qed.

Lemma nsum_map_zero {A} (l : list A) : nsum (map (fun _ => 0) l) = 0.
Proof. induction l; cbn [map]; rewrite ?nsum_cons, ?nsum_nil; [reflexivity|rewrite IHl; ring]. Qed.

(** value of the quadratic at the point with coordinates i and j replaced *)
Lemma quad_restrict2 c lin qd (p : list R) i j vi vj :
  i <> j -> (i < length p)%nat -> (j < length p)%nat ->
  quadm c lin qd (upd (upd p i vi) j vj)
  = quadm c lin qd p
    + (vi - nth i p 0) * quad_d1 lin qd p i + (vj - nth j p 0) * quad_d1 lin qd p j
    + (vi - nth i p 0) * (vi - nth i p 0) / 2 * quad_d2 qd i i
    + (vj - nth j p 0) * (vj - nth j p 0) / 2 * quad_d2 qd j j
    + (vi - nth i p 0) * (vj - nth j p 0) * quad_d2 qd i j.
Proof.
  intros Hij Hi Hj. rewrite !quad_d2_diag.
  unfold quadm, quad_d1, quad_d2. numR.
  set (s := vi - nth i p 0). set (t := vj - nth j p 0).
  rewrite (map_ext (fun m : R * nat => fst m * nth (snd m) (upd (upd p i vi) j vj) 0)
                   (fun m => fst m * (nth (snd m) p 0 + dl (snd m) i * s + dl (snd m) j * t)))
    by (intros m; rewrite nth_upd2 by assumption; reflexivity).
  rewrite (map_ext (fun m : R * (nat * nat) => fst m * nth (fst (snd m)) (upd (upd p i vi) j vj) 0 * nth (snd (snd m)) (upd (upd p i vi) j vj) 0)
                   (fun m => fst m * (nth (fst (snd m)) p 0 + dl (fst (snd m)) i * s + dl (fst (snd m)) j * t)
                                   * (nth (snd (snd m)) p 0 + dl (snd (snd m)) i * s + dl (snd (snd m)) j * t)))
    by (intros m; rewrite !nth_upd2 by assumption; reflexivity).
  rewrite (lin_expand (fun k => nth k p 0) (fun k => dl k i) (fun k => dl k j)).
  rewrite (quad_expand (fun k => nth k p 0) (fun k => dl k i) (fun k => dl k j)).
  unfold dl. field.
Qed.

Lemma quad_restrict1 c lin qd (p : list R) i vi :
  (i < length p)%nat ->
  quadm c lin qd (upd p i vi)
  = quadm c lin qd p + (vi - nth i p 0) * quad_d1 lin qd p i
    + (vi - nth i p 0) * (vi - nth i p 0) / 2 * quad_d2 qd i i.
Proof.
  intros Hi. rewrite !quad_d2_diag.
  unfold quadm, quad_d1, quad_d2. numR.
  set (s := vi - nth i p 0).
  rewrite (map_ext (fun m : R * nat => fst m * nth (snd m) (upd p i vi) 0)
                   (fun m => fst m * (nth (snd m) p 0 + dl (snd m) i * s + 0 * 0)))
    by (intros m; rewrite nth_upd1 by assumption; fold s; ring).
  rewrite (map_ext (fun m : R * (nat * nat) => fst m * nth (fst (snd m)) (upd p i vi) 0 * nth (snd (snd m)) (upd p i vi) 0)
                   (fun m => fst m * (nth (fst (snd m)) p 0 + dl (fst (snd m)) i * s + 0 * 0)
                                   * (nth (snd (snd m)) p 0 + dl (snd (snd m)) i * s + 0 * 0)))
    by (intros m; rewrite !nth_upd1 by assumption; fold s; ring).
  rewrite (lin_expand (fun k => nth k p 0) (fun k => dl k i) (fun _ => 0)).
  rewrite (quad_expand (fun k => nth k p 0) (fun k => dl k i) (fun _ => 0)).
  unfold dl. field.
Qed.

(** ** the stencils are exact on quadratics *)
Ltac gd_unfold := unfold st_diag_c, st_diag_o, st_off_c, st_off_o, st_grad_c, st_grad_o, n2; numR.

(** every branch of hessian_elem (central or one-sided, whatever the flags and whether or not the
    parameters are zero) returns the exact second partial derivative, for any non-zero steps *)
Lemma hess_elem_exact c lin qd (p0 eps : list R) (os : list bool) ii jj :
  (ii < length p0)%nat -> (jj < length p0)%nat ->
  nth ii eps 0 <> 0 -> nth jj eps 0 <> 0 ->
  hess_elem (quadm c lin qd) (quadm c lin qd p0) p0 ii jj eps os = quad_d2 qd ii jj.
Proof.
  intros Hi Hj Hei Hej. unfold hess_elem. numR.
  destruct (Nat.eqb_spec ii jj) as [<-|Hne].
  - destruct (negb (Reqb (nth ii p0 0) 0) && negb (nth ii os false)); gd_unfold;
      rewrite !quad_restrict1 by assumption; field; assumption.
  - destruct (negb (Reqb (nth ii p0 0) 0) && negb (Reqb (nth jj p0 0) 0) && negb (nth ii os false) && negb (nth jj os false));
      gd_unfold; rewrite !quad_restrict2 by assumption; field; split; assumption.
Qed.

(** ** the step-size rule *)
Definition Rtiny : R := 1 / 1000000.
Lemma tiny_R : @tiny R NumR = Rtiny.
Proof. reflexivity. Qed.

Lemma step_rule_spec (eps p : R) :
  (p = 0 -> step_rule eps p = (eps, false)) /\
  (p <> 0 -> p * eps < Rtiny -> step_rule eps p = (eps, true)) /\
  (p <> 0 -> Rtiny <= p * eps -> step_rule eps p = (eps * p, false)).
Proof.
  unfold step_rule, nltb. numR. rewrite tiny_R. repeat split.
  - intros ->. rewrite (proj2 (Reqb_true 0 0) eq_refl). reflexivity.
  - intros Hp Ht. rewrite (proj2 (Reqb_false p 0) Hp). cbn [negb].
    rewrite (proj2 (Rleb_false Rtiny (p * eps)) Ht). reflexivity.
  - intros Hp Ht. rewrite (proj2 (Reqb_false p 0) Hp). cbn [negb].
    rewrite (proj2 (Rleb_true Rtiny (p * eps)) Ht). reflexivity.
Qed.

Lemma step_rule_nonzero (eps p : R) : eps <> 0 -> fst (step_rule eps p) <> 0.
Proof.
  intros He. destruct (step_rule_spec eps p) as (H0 & H1 & H2).
  destruct (Req_EM_T p 0) as [Hp|Hp]; [rewrite (H0 Hp); exact He|].
  destruct (Rlt_le_dec (p * eps) Rtiny) as [Ht|Ht]; [rewrite (H1 Hp Ht); exact He|].
  rewrite (H2 Hp Ht). cbn [fst]. apply Rmult_integral_contrapositive_currified; assumption.
Qed.

(** one-sided stencils are used exactly when the parameter is zero or the flag was raised *)
Lemma step_rule_central_iff (eps p : R) :
  (negb (Reqb p 0) && negb (snd (step_rule eps p)) = true) <-> (p <> 0 /\ Rtiny <= p * eps).
Proof.
  destruct (step_rule_spec eps p) as (H0 & H1 & H2). split.
  - intros Hb. apply andb_true_iff in Hb. destruct Hb as [Hb1 Hb2].
    apply negb_true_iff in Hb1. apply Reqb_false in Hb1. split; [assumption|].
    destruct (Rlt_le_dec (p * eps) Rtiny) as [Ht|Ht]; [|assumption].
    rewrite (H1 Hb1 Ht) in Hb2. discriminate.
  - intros [Hp Ht]. rewrite (H2 Hp Ht). cbn [snd negb]. rewrite (proj2 (Reqb_false p 0) Hp). reflexivity.
Qed.

Lemma nth_map_in {A B} (g : A -> B) (l : list A) i d d' : (i < length l)%nat -> nth i (map g l) d = g (nth i l d').
Proof. revert i; induction l as [|x t IH]; intros [|i] Hl; cbn in *; try lia; auto. apply IH; lia. Qed.

Lemma nth_steps (eps : R) (p0 : list R) i : (i < length p0)%nat ->
  nth i (map fst (map (step_rule eps) p0)) 0 = fst (step_rule eps (nth i p0 0)) /\
  nth i (map snd (map (step_rule eps) p0)) false = snd (step_rule eps (nth i p0 0)).
Proof.
  intros Hi. rewrite !map_map. split.
  - apply (nth_map_in (fun x => fst (step_rule eps x))); assumption.
  - apply (nth_map_in (fun x => snd (step_rule eps x))); assumption.
Qed.

Lemma nth_map_seq {A} (g : nat -> A) n i d : (i < n)%nat -> nth i (map g (seq 0 n)) d = g i.
Proof. intros Hi. rewrite (nth_indep _ d (g 0%nat)) by (rewrite map_length, seq_length; assumption).
  rewrite map_nth, seq_nth by assumption. reflexivity. Qed.

(** ** get_hess returns the exact Hessian of every quadratic, at every point (zero, tiny, negative
       parameters included) and for every non-zero eps *)
Lemma get_hess_exact c lin qd (p0 : list R) (eps : R) r cc :
  eps <> 0 -> (r < length p0)%nat -> (cc < length p0)%nat ->
  nth cc (nth r (get_hess (quadm c lin qd) p0 eps) []) 0 = quad_d2 qd r cc.
Proof.
  intros He Hr Hc. unfold get_hess.
  rewrite (nth_map_seq _ _ _ _ Hr), (nth_map_seq _ _ _ _ Hc).
  rewrite hess_elem_exact.
  - destruct (Nat.le_ge_cases r cc) as [Hle|Hle].
    + rewrite Nat.min_l, Nat.max_r by assumption. reflexivity.
    + rewrite Nat.min_r, Nat.max_l by assumption. apply quad_d2_sym.
  - lia.
  - lia.
  - rewrite (proj1 (nth_steps eps p0 _ (Nat.lt_le_trans _ _ _ (Nat.le_lt_trans _ _ _ (Nat.le_min_l r cc) Hr) (Nat.le_refl _)))).
    apply step_rule_nonzero, He.
  - assert (Hm : (Nat.max r cc < length p0)%nat) by lia.
    rewrite (proj1 (nth_steps eps p0 _ Hm)). apply step_rule_nonzero, He.
Qed.

(** ** gradient *)
Lemma grad_elem_central_exact c lin qd (p0 eps : list R) (os : list bool) ii :
  (ii < length p0)%nat -> nth ii eps 0 <> 0 ->
  negb (Reqb (nth ii p0 0) 0) && negb (nth ii os false) = true ->
  grad_elem (quadm c lin qd) p0 ii eps os = quad_d1 lin qd p0 ii.
Proof.
  intros Hi He Hb. unfold grad_elem. numR. rewrite Hb. gd_unfold.
  rewrite !quad_restrict1 by assumption. field. assumption.
Qed.

(** one-sided branch on a quadratic: first partial plus (step/2) * second partial *)
Lemma grad_elem_onesided_value c lin qd (p0 eps : list R) (os : list bool) ii :
  (ii < length p0)%nat -> nth ii eps 0 <> 0 ->
  negb (Reqb (nth ii p0 0) 0) && negb (nth ii os false) = false ->
  grad_elem (quadm c lin qd) p0 ii eps os = quad_d1 lin qd p0 ii + nth ii eps 0 / 2 * quad_d2 qd ii ii.
Proof.
  intros Hi He Hb. unfold grad_elem. numR. rewrite Hb. gd_unfold.
  rewrite !quad_restrict1 by assumption. field. assumption.
Qed.

(** functions that are linear in coordinate ii (in particular: no quadratic monomials at all):
    both branches are exact *)
Lemma grad_elem_exact_on_linear c lin qd (p0 eps : list R) (os : list bool) ii :
  (ii < length p0)%nat -> nth ii eps 0 <> 0 -> quad_d2 qd ii ii = 0 ->
  grad_elem (quadm c lin qd) p0 ii eps os = quad_d1 lin qd p0 ii.
Proof.
  intros Hi He Hz.
  destruct (negb (Reqb (nth ii p0 0) 0) && negb (nth ii os false)) eqn:Hb.
  - apply grad_elem_central_exact; assumption.
  - rewrite grad_elem_onesided_value by assumption. rewrite Hz. field.
Qed.

Lemma quad_d2_nil i j : quad_d2 (@nil (R * (nat * nat))) i j = 0.
Proof. reflexivity. Qed.

Lemma get_grad_exact c lin qd (p0 : list R) (eps : R) i :
  eps <> 0 -> (i < length p0)%nat ->
  (nth i p0 0 <> 0 /\ Rtiny <= nth i p0 0 * eps) \/ quad_d2 qd i i = 0 ->
  nth i (get_grad (quadm c lin qd) p0 eps) 0 = quad_d1 lin qd p0 i.
Proof.
  intros He Hi Hc. unfold get_grad. rewrite (nth_map_seq _ _ _ _ Hi).
  destruct (nth_steps eps p0 i Hi) as [Hs Ho].
  assert (Hnz : nth i (map fst (map (step_rule eps) p0)) 0 <> 0) by (rewrite Hs; apply step_rule_nonzero, He).
  destruct Hc as [Hc|Hc].
  - apply grad_elem_central_exact; try assumption. rewrite Ho. apply step_rule_central_iff, Hc.
  - apply grad_elem_exact_on_linear; assumption.
Qed.

(** the one-sided gradient is NOT exact on quadratics with curvature along the coordinate *)
Lemma get_grad_onesided_not_exact :
  exists c lin qd p0 eps, eps <> 0 /\
    nth 0 (get_grad (quadm c lin qd) p0 eps) 0 <> quad_d1 lin qd p0 0.
Proof.
  exists 0, [], [(1, (0%nat, 0%nat))], [0], 1. split; [lra|].
  unfold get_grad. cbn [length seq map nth].
  destruct (step_rule_spec 1 0) as (H0 & _). rewrite (H0 eq_refl). cbn [fst snd map nth].
  unfold grad_elem. cbn [nth]. numR. rewrite (proj2 (Reqb_true 0 0) eq_refl). cbn [negb andb].
  gd_unfold. unfold quadm, quad_d1, nsum, delta. cbn. numR. lra.
Qed.

(** ** bootstrap order *)
Lemma J_entry_perm (g g' : list (list R)) i j : Permutation g g' -> J_entry g i j = J_entry g' i j.
Proof. intros P. unfold J_entry. rewrite (Permutation_length P). f_equal.
  apply gd_nsum_perm, Permutation_map, P. Qed.
Lemma cU_entry_perm (g g' : list (list R)) i : Permutation g g' -> cU_entry g i = cU_entry g' i.
Proof. intros P. unfold cU_entry. rewrite (Permutation_length P). f_equal.
  apply gd_nsum_perm, Permutation_map, P. Qed.

Lemma J_mat_perm n (g g' : list (list R)) : Permutation g g' -> J_mat n g = J_mat n g'.
Proof. intros P. unfold J_mat. apply map_ext. intros i. apply map_ext. intros j. apply J_entry_perm, P. Qed.
Lemma cU_vec_perm n (g g' : list (list R)) : Permutation g g' -> cU_vec n g = cU_vec n g'.
Proof. intros P. unfold cU_vec. apply map_ext. intros i. apply cU_entry_perm, P. Qed.

(** whatever is computed afterwards from (H, J, cU) -- Godambe matrix, uncertainties, LRT adjustment,
    Wald and score statistics -- is a function [post] of that triple *)
Lemma godambe_perm {D T} (ll : D -> list R -> R) p0 eps data (boots boots' : list D)
      (post : list (list R) * list (list R) * list R -> T) :
  Permutation boots boots' ->
  post (godambe_HJc ll p0 eps data boots) = post (godambe_HJc ll p0 eps data boots').
Proof.
  intros P. unfold godambe_HJc. f_equal.
  assert (Pg : Permutation (map (fun bt => get_grad (ll bt) p0 eps) boots) (map (fun bt => get_grad (ll bt) p0 eps) boots'))
    by (apply Permutation_map, P).
  rewrite (J_mat_perm _ _ _ Pg), (cU_vec_perm _ _ _ Pg). reflexivity.
Qed.

(** a concrete instance (second parameter zero: one-sided stencils) *)
Lemma godambe_example :
  get_hess (quadm 1 [(2, 0%nat); (3, 1%nat)] [(2, (0%nat, 0%nat)); (5, (0%nat, 1%nat)); (1, (1%nat, 1%nat))]) [1; 0] (1 / 100)
  = [[4; 5]; [5; 2]].
Proof.
  set (lin := [(2, 0%nat); (3, 1%nat)]). set (qd := [(2, (0%nat, 0%nat)); (5, (0%nat, 1%nat)); (1, (1%nat, 1%nat))]).
  assert (He : 1 / 100 <> 0) by lra.
  assert (E : forall r cc, (r < 2)%nat -> (cc < 2)%nat ->
            nth cc (nth r (get_hess (quadm 1 lin qd) [1; 0] (1 / 100)) []) 0 = quad_d2 qd r cc)
    by (intros; apply get_hess_exact; assumption).
  assert (L : forall (a b : R) (l : list (list R)), length l = 2%nat -> (forall r, (r < 2)%nat -> length (nth r l []) = 2%nat) ->
            l = [[nth 0 (nth 0 l []) 0; nth 1 (nth 0 l []) 0]; [nth 0 (nth 1 l []) 0; nth 1 (nth 1 l []) 0]]).
  { intros _ _ l Hl Hr. destruct l as [|r0 [|r1 [|]]]; try discriminate.
    pose proof (Hr 0%nat ltac:(lia)) as H0. pose proof (Hr 1%nat ltac:(lia)) as H1. cbn [nth] in *.
    destruct r0 as [|? [|? [|]]]; try discriminate. destruct r1 as [|? [|? [|]]]; try discriminate. reflexivity. }
  rewrite (L 0 0 (get_hess (quadm 1 lin qd) [1; 0] (1 / 100))).
  - rewrite !E by lia. unfold quad_d2, qd, nsum, delta. cbn. numR. repeat f_equal; lra.
  - reflexivity.
  - intros r Hr. destruct r as [|[|]]; try lia; reflexivity.
Qed.
