(** * DemesExport (partial): what Demes.output writes for a run of integrations and what the importer reads back.

    Modelled: for a fixed set of populations, a sequence of integrations (constant / exponential / linear sizes,
    constant migration) recorded in the event log.  The exporter gives event i the end time
    (sum of the durations of the younger events) x 2 Nref x generation_time, the sizes x Nref, the rates / (2 Nref);
    the importer divides the times by generation_time and computes T = dt / (2 Ne), nu = N / Ne, M = 2 Ne m with
    Ne = Nref.  NOT modelled: the naming of demes, splits / admixture / pulses / removal / reordering in the exported
    graph and its resolution by `demes` (checked by the run-time round trip only). *)
From Coq Require Import ZArith Reals List Bool Arith Lra Lia.
From Dadi Require Import Base.Num Base.NumR Model.DemesFront Proofs.DemesBase Proofs.DemesRescale.
Import ListNotations.
Local Open Scope R_scope.

(** one integration of the native program: duration, per population (start size, end size, size function), the
    migration rates in the order m12, m13, ... *)
Record integ := mkInteg { i_T : R; i_sizes : list (R * R * sfun); i_ms : list R }.

Fixpoint total (cs : list integ) : R := match cs with [] => 0 | c :: r => i_T c + total r end.

(** an exported epoch: start time, end time, sizes, migration rates *)
Record xepoch := mkX { x_start : R; x_end : R; x_sizes : list (R * R * sfun); x_rates : list R }.

Fixpoint export_chain (Nref gt : R) (cs : list integ) : list xepoch :=
  match cs with
  | [] => []
  | c :: r => let e := total r in
              mkX ((e + i_T c) * (2 * Nref) * gt) (e * (2 * Nref) * gt) (map (scale_size Nref) (i_sizes c))
                  (map (fun m => m / (2 * Nref)) (i_ms c)) :: export_chain Nref gt r
  end.

(** what the importer hands to the integrator for an exported epoch (times converted to generations first) *)
Definition reimport (Ne gt : R) (x : xepoch) : R * list (sizefn R) * list R :=
  let T := (x_start x / gt - x_end x / gt) / 2 / Ne in
  (T, make_nu_func (x_sizes x) T Ne, map (fun m => 2 * Ne * m) (x_rates x)).

(** the native call: T, the size functions relative to the reference size 1, the migration rates *)
Definition native (c : integ) : R * list (sizefn R) * list R := (i_T c, make_nu_func (i_sizes c) (i_T c) 1, i_ms c).

Theorem export_import_chain : forall Nref gt cs, Nref <> 0 -> gt <> 0 ->
  map (reimport Nref gt) (export_chain Nref gt cs) = map native cs.
Proof.
  intros Nref gt cs HN Hg. induction cs as [|c r IH]; cbn [export_chain map]; auto. rewrite IH. f_equal.
  unfold reimport, native. cbn [x_start x_end x_sizes x_rates].
  assert (ET : ((total r + i_T c) * (2 * Nref) * gt / gt - total r * (2 * Nref) * gt / gt) / 2 / Nref = i_T c) by (field; auto).
  rewrite ET. f_equal; [f_equal|].
  - rewrite <- (Rmult_1_r Nref) at 2. apply make_nu_func_scale; auto.
  - rewrite map_map. rewrite <- (map_id (i_ms c)) at 2. apply map_ext. intros m. field; auto.
Qed.

(** relative to the reference size 1 the size functions are the ones a native model is written with *)
Lemma native_size_functions T v0 v1 :
  make_nu_func [(v0, v1, SExponential)] T 1 = [SFExp v0 (v1 / v0) T]
  /\ make_nu_func [(v0, v1, SLinear)] T 1 = [SFLin v0 (v1 - v0) T]
  /\ make_nu_func [(v0, v0, SConstant)] T 1 = [SNum v0].
Proof. cbn. numR. unfold Rdiv. rewrite Rinv_1, !Rmult_1_r. auto. Qed.
