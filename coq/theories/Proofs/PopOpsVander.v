(** MathComp side of C10: Pascal-rule binomials are MathComp's 'C(n,k); Vandermonde's identity exported
    as a statement about plain lists so that the stdlib-style files never see ssreflect. *)
From mathcomp Require Import all_ssreflect.
From Dadi Require Import Proofs.PopOpsBinom.
Set Implicit Arguments.
Unset Strict Implicit.
Unset Printing Implicit Defensive.

Lemma binomN_bin n k : binomN n k = 'C(n, k).
Proof.
elim: n k => [|n IH] [|k] //.
by rewrite binS -!IH addnC.
Qed.

Lemma sum_nat_list (F : nat -> nat) a n :
  \sum_(a <= j < a + n) F j = lsum (List.map F (List.seq a n)).
Proof.
elim: n a => [|n IH] a /=; first by rewrite addn0 big_geq.
rewrite big_ltn; last by rewrite -addSnnS leq_addr.
by rewrite addnS -addSn IH.
Qed.

Lemma vandermonde_ssr n m t :
  lsum (List.map (fun j => binomN n j * binomN m (t - j)) (List.seq 0 (S t))) = binomN (n + m) t.
Proof.
rewrite -(sum_nat_list (fun j => binomN n j * binomN m (t - j)) 0 t.+1) add0n.
rewrite binomN_bin -Vandermonde big_mkord.
by apply: eq_bigr => j _; rewrite !binomN_bin.
Qed.

(** the same statement with the standard library's constants only *)
Lemma vandermonde_list n m t :
  lsum (List.map (fun j => Nat.mul (binomN n j) (binomN m (Nat.sub t j))) (List.seq 0 (S t))) = binomN (Nat.add n m) t.
Proof. exact: vandermonde_ssr. Qed.
