(** C13, chunk level: if the chunks partition the SNPs, the chunk spectra add up to the spectrum of the whole
    dictionary (unfolded and folded); a bootstrap is the sum of the drawn chunk spectra; the chunking loop of
    fragment_data_dict neither loses nor duplicates a position. *)
From Coq Require Import String ZArith NArith Reals List Lra Lia Bool Arith Permutation.
From Dadi Require Import Base.Num Base.NumR Model.Projection Model.Fold Model.DataDict
  Proofs.ProjBase Proofs.ProjH Proofs.FoldAbs Proofs.FoldND Proofs.DataDictSpec.
Import ListNotations.
Local Open Scope R_scope.

(** ** chunk spectra add up (data before folding; this is the spectrum itself when polarized = True) *)
Theorem chunk_spectra_add_up : forall (dd : dict snp) (frags : list (dict snp)) pop_ids projs polarized cd cds,
  length pop_ids = length projs ->
  Permutation (concat frags) dd ->
  count_data_dict dd pop_ids = Some cd ->
  Forall2 (fun f c => count_data_dict f pop_ids = Some c) frags cds ->
  forall i, get (fcd_data (F:=R) cd projs polarized) i
            = lsum (fun c => get (fcd_data (F:=R) c projs polarized) i) cds.
Proof. intros dd frags pop_ids projs polarized cd cds EL P E F i.
  destruct (spectrum_is_sum_of_projections dd pop_ids projs polarized cd EL E) as [_ G]. rewrite G.
  rewrite <- (lsum_perm _ _ _ (Permutation_map snd P)). rewrite concat_map, lsum_concat.
  clear - EL F. induction F as [|f c frags cds Ef F IH]; cbn [map lsum]; [reflexivity|]. rewrite IH.
  destruct (spectrum_is_sum_of_projections f pop_ids projs polarized c EL Ef) as [_ Gc]. rewrite Gc. reflexivity. Qed.

Lemma perm_filter_length {A} (f : A -> bool) a b : Permutation a b -> length (filter f a) = length (filter f b).
Proof. induction 1; cbn; try destruct (f x); try destruct (f y); cbn; congruence. Qed.

(** totals: the numbers of usable SNPs of the chunks add up to that of the whole *)
Corollary chunk_totals_add_up : forall (dd : dict snp) (frags : list (dict snp)) pop_ids projs polarized,
  Permutation (concat frags) dd ->
  length (filter (snp_counts pop_ids projs polarized) (map snd dd))
  = list_sum (map (fun f => length (filter (snp_counts pop_ids projs polarized) (map snd f))) frags).
Proof. intros dd frags pop_ids projs polarized P.
  rewrite <- (perm_filter_length _ _ _ (Permutation_map snd P)).
  clear. induction frags as [|f frags IH]; cbn; [reflexivity|].
  rewrite map_app, filter_app, app_length, IH. reflexivity. Qed.

(** ** folding is linear, so the folded chunk spectra add up as well *)
Section FoldLinear.
  Context {I : Type}.
  Variable mir : I -> I.
  Variable tot : I -> nat.
  Variable N : nat.

  Lemma fold_val_add (x a b : I -> R) i :
    x i = a i + b i -> x (mir i) = a (mir i) + b (mir i) ->
    fold_val mir tot N x i = fold_val mir tot N a i + fold_val mir tot N b i.
  Proof. intros E1 E2. unfold fold_val, reverse, where_. rewrite E1, E2.
    destruct (folded_out tot N i), (folded_out tot N (mir i)), (ambiguous tot N i), (ambiguous tot N (mir i));
      unfold nhalf, n2; numR; lra. Qed.
  Lemma fold_val_zero (x : I -> R) i : x i = 0 -> x (mir i) = 0 -> fold_val mir tot N x i = 0.
  Proof. intros E1 E2. unfold fold_val, reverse, where_. rewrite E1, E2.
    destruct (folded_out tot N i), (folded_out tot N (mir i)), (ambiguous tot N i), (ambiguous tot N (mir i));
      unfold nhalf, n2; numR; lra. Qed.
End FoldLinear.

Lemma fold_val_lsum {I A} (mir : I -> I) tot N (x : I -> R) (xs : A -> I -> R) (l : list A) i :
  (forall j, x j = lsum (fun c => xs c j) l) ->
  fold_val mir tot N x i = lsum (fun c => fold_val mir tot N (xs c) i) l.
Proof. revert x. induction l as [|c l IH]; intros x E; cbn [lsum].
  - apply fold_val_zero; apply E.
  - rewrite <- (IH (fun j => lsum (fun c => xs c j) l)) by reflexivity.
    apply fold_val_add; rewrite E; reflexivity. Qed.

Lemma get_tabulate s (f : list nat -> R) p : (p < size s)%nat -> get (tabulate s f) p = f (nth p (enum s) []).
Proof. intros Hp. unfold get, tabulate. rewrite (nth_indep _ 0 (f [])) by (rewrite map_length, enum_length; exact Hp).
  apply map_nth. Qed.

Theorem folded_chunk_spectra_add_up : forall (s : list nat) (whole : list R) (parts : list (list R)),
  (forall i, get whole i = lsum (fun c => get c i) parts) ->
  forall p, (p < size s)%nat ->
  get (fold_data_l (F:=R) s whole) p = lsum (fun c => get (fold_data_l (F:=R) s c) p) parts.
Proof. intros s whole parts E p Hp. unfold fold_data_l. rewrite get_tabulate by assumption.
  rewrite (lsum_ext _ (fun c => fold_nd (F:=R) s (arr_of s c n0) (nth p (enum s) [])) parts)
    by (intros; apply get_tabulate; assumption).
  unfold fold_nd. apply fold_val_lsum. intros j. unfold arr_of. apply E. Qed.

(** ** bootstraps: functools.reduce(operator.add, chosen) *)
Lemma fold_left_vadd L : forall (r : list (list R)) x, length x = L -> Forall (fun v => length v = L) r ->
  length (fold_left vaddR r x) = L /\ forall i, get (fold_left vaddR r x) i = get x i + lsum (fun v => get v i) r.
Proof. induction r as [|v r IH]; intros x Lx F; cbn [fold_left lsum].
  - split; [assumption|]. intros; lra.
  - inversion F; subst. destruct (IH (vaddR x v)) as [L1 G1]; [rewrite vadd_length; lia|assumption|].
    split; [assumption|]. intros i. rewrite G1, get_vadd by lia. lra. Qed.

Theorem bootstrap_is_sum_of_chunks : forall (spectra : list (list R)) (idx : list nat) L,
  Forall (fun v => length v = L) spectra -> idx <> [] -> Forall (fun c => (c < length spectra)%nat) idx ->
  exists b, bootstrap_data (F:=R) spectra idx = Some b /\ length b = L /\
            forall i, get b i = lsum (fun c => get (nth c spectra []) i) idx.
Proof. intros spectra idx L FL Hne Fi. unfold bootstrap_data, reduce_add.
  destruct idx as [|c idx]; [contradiction|]. cbn [map].
  assert (Hn : forall c, (c < length spectra)%nat -> length (nth c spectra []) = L).
  { intros c' Hc. rewrite Forall_forall in FL. apply FL. apply nth_In. assumption. }
  inversion Fi; subst.
  destruct (fold_left_vadd L (map (fun i => nth i spectra []) idx) (nth c spectra [])) as [L1 G1].
  - apply Hn; assumption.
  - rewrite Forall_forall in *. intros v Hv. apply in_map_iff in Hv as [c' [<- Hc']]. apply Hn. auto.
  - eexists. split; [reflexivity|]. split; [assumption|]. intros i. rewrite G1. cbn [lsum]. rewrite lsum_map. reflexivity. Qed.

(** the total of a bootstrap is the sum of the totals of the drawn chunks *)
Lemma rtot_fold_left_vadd L : forall (r : list (list R)) x, length x = L -> Forall (fun v => length v = L) r ->
  rtot (fold_left vaddR r x) = rtot x + lsum rtot r.
Proof. induction r as [|v r IH]; intros x Lx F; cbn [fold_left lsum]; [lra|].
  inversion F; subst. rewrite IH by (try rewrite vadd_length; auto; lia). rewrite rtot_vadd by lia. lra. Qed.

Theorem bootstrap_total : forall (spectra : list (list R)) (idx : list nat) L b,
  Forall (fun v => length v = L) spectra -> Forall (fun c => (c < length spectra)%nat) idx ->
  bootstrap_data (F:=R) spectra idx = Some b ->
  rtot b = lsum (fun c => rtot (nth c spectra [])) idx.
Proof. intros spectra idx L b FL Fi E. unfold bootstrap_data, reduce_add in E.
  destruct idx as [|c idx]; [discriminate|]. cbn [map] in E. inversion E; subst; clear E.
  assert (Hn : forall c, (c < length spectra)%nat -> length (nth c spectra []) = L).
  { intros c' Hc. rewrite Forall_forall in FL. apply FL. apply nth_In. assumption. }
  inversion Fi; subst. rewrite (rtot_fold_left_vadd L).
  - cbn [lsum]. rewrite lsum_map. reflexivity.
  - apply Hn; assumption.
  - rewrite Forall_forall in *. intros v Hv. apply in_map_iff in Hv as [c' [<- Hc']]. apply Hn. auto. Qed.

(** ** the chunking loop partitions the positions *)
Lemma concat_app' {A} (a b : list (list A)) : concat (a ++ b) = concat a ++ concat b.
Proof. apply concat_app. Qed.
Lemma concat_repeat_nil {A} n : concat (repeat (@nil A) n) = [].
Proof. induction n; cbn; auto. Qed.

Lemma chunk_loop_concat cs : forall ps done cur e,
  concat (chunk_loop cs ps done cur e) = concat done ++ cur ++ ps.
Proof. induction ps as [|x ps IH]; intros done cur e; cbn [chunk_loop].
  - rewrite concat_app. cbn. rewrite !app_nil_r. reflexivity.
  - destruct (e <? fst x)%N.
    + rewrite IH. rewrite !concat_app. cbn [concat]. rewrite concat_repeat_nil, !app_nil_r, <- app_assoc. reflexivity.
    + rewrite IH. rewrite <- !app_assoc. reflexivity. Qed.

Lemma insert_sorted_perm x : forall l l', insert_sorted x l = Some l' -> Permutation (x :: l) l'.
Proof. induction l as [|y l IH]; intros l' E; cbn in E.
  - inversion E; subst. reflexivity.
  - destruct (pos_le y x); [| |discriminate].
    + destruct (insert_sorted x l) as [l1|]; [|discriminate]. inversion E; subst.
      rewrite perm_swap. constructor. apply IH. reflexivity.
    + inversion E; subst. reflexivity. Qed.

Lemma sort_positions_perm : forall l acc l', sort_positions l acc = Some l' -> Permutation (l ++ acc) l'.
Proof. induction l as [|x l IH]; intros acc l' E; cbn in E.
  - inversion E; subst. reflexivity.
  - destruct (insert_sorted x acc) as [acc'|] eqn:Ei; [|discriminate].
    apply IH in E. rewrite <- E. cbn. rewrite Permutation_middle. apply Permutation_app_head.
    apply insert_sorted_perm. assumption. Qed.

(** every position of a chromosome ends up in exactly one chunk *)
Theorem chunks_partition_positions : forall cs ps sorted,
  sort_positions ps [] = Some sorted ->
  Permutation (concat (chunk_loop cs sorted [] [] cs)) ps.
Proof. intros cs ps sorted E. rewrite chunk_loop_concat. cbn. apply sort_positions_perm in E.
  rewrite app_nil_r in E. symmetry. exact E. Qed.

