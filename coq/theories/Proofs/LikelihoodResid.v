(** * LikelihoodResid: sign and masking of the two Poisson residuals; fold_flat commutes with scaling;
      the corner re-masking of intersect_masks refutes "scaling = ratio over jointly unmasked entries". *)
From Coq Require Import ZArith Reals List Bool Lra Lia.
From Dadi Require Import Base.Num Base.NumR Model.Likelihood Proofs.LikelihoodBasics Proofs.LikelihoodProofs.
Import ListNotations.
Local Open Scope R_scope.

(** the optional [mask] argument of the residual functions *)
Definition cutP (cut : option R) (m d : R) : Prop :=
  match cut with None => False | Some c => m <= c /\ d <= c end.

Lemma cut_both_spec cut m d : cut_both cut m d = true <-> cutP cut m d.
Proof. unfold cut_both, cutP. destruct cut as [c|]; [|split; [discriminate|tauto]]. numR.
  rewrite andb_true_iff, !Rleb_true. tauto. Qed.

(** Anscombe transform x^(2/3) - x^(-1/3)/9, in terms of Rpower *)
Definition anscombeT (x : R) : R := Rpower x (2 / 3) - Rpower x (- (1 / 3)) / 9.

Lemma npower_R x a : npower x a = Rpower x a.
Proof. reflexivity. Qed.

Lemma anscombe_trans_R x : anscombe_trans x = anscombeT x.
Proof. unfold anscombe_trans, anscombeT, n9, n3, n2. rewrite !npower_R. numR.
  replace ((1 + 1) / (1 + (1 + 1))) with (2 / 3) by lra.
  replace (1 / (1 + (1 + 1))) with (1 / 3) by lra.
  replace ((1 + (1 + 1)) * (1 + (1 + 1))) with 9 by lra. reflexivity. Qed.

Lemma anscombeT_increasing a b : 0 < a -> a < b -> anscombeT a < anscombeT b.
Proof. intros A AB. unfold anscombeT.
  assert (Rpower a (2 / 3) < Rpower b (2 / 3)) by (apply Rlt_Rpower_l; lra).
  assert (Rpower a (1 / 3) < Rpower b (1 / 3)) as H3 by (apply Rlt_Rpower_l; lra).
  rewrite !Rpower_Ropp.
  assert (0 < Rpower a (1 / 3)) by (apply exp_pos).
  assert (/ Rpower b (1 / 3) < / Rpower a (1 / 3)).
  { apply Rinv_lt_contravar; auto. apply Rmult_lt_0_compat; auto. lra. }
  lra. Qed.

Lemma anscombeT_lt_iff a b : 0 < a -> 0 < b -> (anscombeT a < anscombeT b <-> a < b).
Proof. intros A B. split; [|apply anscombeT_increasing; auto].
  intros H. destruct (Rtotal_order a b) as [L | [E | G]]; auto.
  - subst. lra.
  - pose proof (anscombeT_increasing b a B G). lra. Qed.

Lemma nsqrt_R x : 0 < x -> nsqrt x = sqrt x.
Proof. intros X. unfold nsqrt, nhalf, n2. rewrite npower_R. numR.
  replace (1 / (1 + 1)) with (/ 2) by lra. apply Rpower_sqrt; auto. Qed.

(** THEOREM residual_sign_and_mask, linear part *)
Theorem linear_residual_spec cut (m d : entryR) :
  (lin_entry cut m d = RMasked <->
     (em m = true \/ em d = true \/ ev m < 0 \/ cutP cut (ev m) (ev d))) /\
  (em m = false -> em d = false -> 0 < ev m -> ~ cutP cut (ev m) (ev d) ->
     exists r, lin_entry cut m d = RVal r /\ r = (ev m - ev d) / sqrt (ev m) /\
               (0 < r <-> ev d < ev m) /\ (r < 0 <-> ev m < ev d) /\ (r = 0 <-> ev m = ev d)) /\
  (em m = false -> em d = false -> ev m = 0 -> ~ cutP cut (ev m) (ev d) -> lin_entry cut m d = RNonFinite).
Proof. destruct m as [mv mm], d as [dv dm]. unfold lin_entry, ev, em. cbn [fst snd]. unfold nltb. numR.
  pose proof (cut_both_spec cut mv dv) as CB.
  split; [|split].
  - destruct mm; [cbn; tauto|]. destruct dm; [cbn; tauto|]. cbn [orb].
    destruct (Rleb 0 mv) eqn:N; cbn [negb].
    + apply Rleb_true in N. destruct (cut_both cut mv dv) eqn:CBe.
      * split; auto. intros _. right. right. right. apply CB. reflexivity.
      * assert (~ cutP cut mv dv) by (intros X; apply CB in X; discriminate).
        destruct (Reqb mv 0); split; try discriminate; intros [X | [X | [X | X]]]; try discriminate; try lra; tauto.
    + apply Rleb_false in N. split; auto.
  - intros -> -> MP NC. cbn [orb].
    assert (Rleb 0 mv = true) as -> by (apply Rleb_true; lra). cbn [negb].
    destruct (cut_both cut mv dv) eqn:CBe; [exfalso; apply NC, CB; reflexivity|].
    assert (Reqb mv 0 = false) as -> by (apply Reqb_false; lra).
    rewrite nsqrt_R by auto. eexists. split; [reflexivity|]. split; [reflexivity|].
    assert (SP : 0 < sqrt mv) by (apply sqrt_lt_R0; auto).
    assert (IP : 0 < / sqrt mv) by (apply Rinv_0_lt_compat; auto).
    unfold Rdiv. split; [|split]; split; intros X.
    + destruct (Rlt_le_dec dv mv); auto. exfalso. assert ((mv - dv) * / sqrt mv <= 0); [|lra].
      replace 0 with (0 * / sqrt mv) by ring. apply Rmult_le_compat_r; lra.
    + apply Rmult_lt_0_compat; lra.
    + destruct (Rlt_le_dec mv dv); auto. exfalso. assert (0 <= (mv - dv) * / sqrt mv); [|lra].
      apply Rmult_le_pos; lra.
    + replace 0 with (0 * / sqrt mv) by ring. apply Rmult_lt_compat_r; lra.
    + apply Rmult_integral in X. destruct X; lra.
    + subst. ring.
  - intros -> -> Z NC. subst mv. cbn [orb].
    assert (Rleb 0 0 = true) as -> by (apply Rleb_true; lra). cbn [negb].
    destruct (cut_both cut 0 dv) eqn:CBe; [exfalso; apply NC, CB; reflexivity|].
    assert (Reqb 0 0 = true) as -> by (apply Reqb_true; reflexivity). reflexivity. Qed.

(** THEOREM residual_sign_and_mask, Anscombe part (the returned value is MINUS the Pierce-Schafer residual:
    positive when the model is high) *)
Theorem anscombe_residual_spec cut (m d : entryR) :
  (ans_entry cut m d = RMasked <->
     (em m = true \/ em d = true \/ ev m <= 0 \/ ev d <= 0 \/ cutP cut (ev m) (ev d))) /\
  (em m = false -> em d = false -> 0 < ev m -> 0 < ev d -> ~ cutP cut (ev m) (ev d) ->
     exists r, ans_entry cut m d = RVal r /\
               r = 3 / 2 * (anscombeT (ev m) - anscombeT (ev d)) / Rpower (ev m) (1 / 6) /\
               (0 < r <-> ev d < ev m) /\ (r < 0 <-> ev m < ev d) /\ (r = 0 <-> ev m = ev d)).
Proof. destruct m as [mv mm], d as [dv dm]. unfold ans_entry, ev, em. cbn [fst snd]. numR.
  pose proof (cut_both_spec cut mv dv) as CB.
  split.
  - destruct mm; [cbn; tauto|]. destruct dm; [cbn; tauto|]. cbn [orb].
    destruct (Rleb dv 0) eqn:DZ; cbn [orb].
    + apply Rleb_true in DZ. split; auto.
    + apply Rleb_false in DZ. destruct (Rleb mv 0) eqn:MZ.
      * apply Rleb_true in MZ. split; auto.
      * apply Rleb_false in MZ. destruct (cut_both cut mv dv) eqn:CBe.
        -- split; auto. intros _. right. right. right. right. apply CB. reflexivity.
        -- assert (~ cutP cut mv dv) by (intros X; apply CB in X; discriminate).
           split; try discriminate. intros [X | [X | [X | [X | X]]]]; try discriminate; try lra; tauto.
  - intros -> -> MP DP NC. cbn [orb].
    assert (Rleb dv 0 = false) as -> by (apply Rleb_false; lra).
    assert (Rleb mv 0 = false) as -> by (apply Rleb_false; lra). cbn [orb].
    destruct (cut_both cut mv dv) eqn:CBe; [exfalso; apply NC, CB; reflexivity|].
    rewrite !anscombe_trans_R, npower_R. unfold n3, n2. numR.
    replace (1 / ((1 + (1 + 1)) * (1 + 1))) with (1 / 6) by lra.
    replace ((1 + (1 + 1)) / (1 + 1)) with (3 / 2) by lra.
    eexists. split; [reflexivity|].
    assert (PP : 0 < / Rpower mv (1 / 6)) by (apply Rinv_0_lt_compat, exp_pos).
    set (P := / Rpower mv (1 / 6)) in *.
    pose proof (anscombeT_lt_iff mv dv MP DP) as I1. pose proof (anscombeT_lt_iff dv mv DP MP) as I2.
    set (tm := anscombeT mv) in *. set (td := anscombeT dv) in *.
    assert (E : - (3 / 2 * (td - tm) / Rpower mv (1 / 6)) = 3 / 2 * (tm - td) * P) by (unfold P, Rdiv; ring).
    split; [unfold P, Rdiv; ring|]. rewrite E.
    split; [|split]; split; intros X.
    + apply I2. destruct (Rlt_le_dec td tm); auto. exfalso. assert (3 / 2 * (tm - td) * P <= 0); [|lra].
      replace 0 with (0 * P) by ring. apply Rmult_le_compat_r; lra.
    + apply I2 in X. apply Rmult_lt_0_compat; lra.
    + apply I1. destruct (Rlt_le_dec tm td); auto. exfalso. assert (0 <= 3 / 2 * (tm - td) * P); [|lra].
      apply Rmult_le_pos; lra.
    + apply I1 in X. replace 0 with (0 * P) by ring. apply Rmult_lt_compat_r; lra.
    + apply Rmult_integral in X. destruct X as [X | X]; [|lra].
      destruct (Rtotal_order mv dv) as [L | [E' | G]]; auto.
      * apply I1 in L. lra.
      * apply I2 in G. lra.
    + subst mv. unfold tm, td. ring. Qed.

(** entry i of the residual arrays is the entry function applied to entry i of the (auto-folded) model and the data *)
Theorem residual_arrays_entrywise fold cut mf df (m d : list entryR) i :
  let m' := auto_fold fold mf df m in
  length m' = length d -> (i < length d)%nat ->
  nth i (linear_Poisson_residual fold cut mf df m d) RMasked = lin_entry cut (nth i m' edef) (nth i d edef) /\
  nth i (Anscombe_Poisson_residual fold cut mf df m d) RMasked = ans_entry cut (nth i m' edef) (nth i d edef).
Proof. intros m' L Li. unfold linear_Poisson_residual, Anscombe_Poisson_residual. fold m'.
  split; apply nth_zipw_lt; auto; lia. Qed.

(** ** fold_flat commutes with multiplication by a scalar: the hypothesis on [fold] is satisfiable *)
Lemma rev_scale s (l : list entryR) : rev (scale s l) = scale s (rev l).
Proof. unfold scale. symmetry. apply map_rev. Qed.

Lemma fold_zip_scale N s (l l2 : list entryR) tot :
  map (fold_entry N) (combine (combine (scale s l) (scale s l2)) tot)
  = scale s (map (fold_entry N) (combine (combine l l2) tot)).
Proof. revert l2 tot. induction l as [|[v b] l IH]; intros l2 tot; [reflexivity|].
  destruct l2 as [|[v2 b2] l2]; [reflexivity|]. destruct tot as [|t tot]; [reflexivity|].
  cbn [scale map combine]. f_equal; [|apply IH].
  unfold fold_entry, ev, em. cbn [fst snd]. unfold nhalf, n2. numR.
  destruct (N <? 2 * t)%Z, (2 * t =? N)%Z, (2 * t <? N)%Z; f_equal; field. Qed.

Lemma mask_last_entry_scale s (l : list entryR) : mask_last_entry (scale s l) = scale s (mask_last_entry l).
Proof. induction l as [|[v b] [|[v2 b2] l] IH]; [reflexivity | reflexivity |].
  change (scale s ((v, b) :: (v2, b2) :: l)) with ((s * v, b) :: scale s ((v2, b2) :: l)).
  change (mask_last_entry ((v, b) :: (v2, b2) :: l)) with ((v, b) :: mask_last_entry ((v2, b2) :: l)).
  change (mask_last_entry ((s * v, b) :: scale s ((v2, b2) :: l)))
    with ((s * v, b) :: mask_last_entry (scale s ((v2, b2) :: l))).
  rewrite IH. reflexivity. Qed.

Lemma mask_corner_entries_scale s (l : list entryR) : mask_corner_entries (scale s l) = scale s (mask_corner_entries l).
Proof. unfold mask_corner_entries. rewrite mask_last_entry_scale. destruct (mask_last_entry l) as [|[v b] t]; reflexivity. Qed.

Lemma fold_flat_scale N tot s (l : list entryR) : fold_flat N tot (scale s l) = scale s (fold_flat N tot l).
Proof. unfold fold_flat. rewrite rev_scale, fold_zip_scale. apply mask_corner_entries_scale. Qed.

(** ** the corner re-masking: with mask_corners=True inside intersect_masks the reported scaling is NOT the
    ratio over the jointly unmasked entries when the corners are unmasked in both and the masks differ elsewhere *)
Theorem scaling_is_ratio_refuted_when_corners_remasked :
  exists m d : list entryR,
    length m = length d /\
    optimal_sfs_scaling (fun l => l) true true true m d
      <> sum_over (length d) (joint_unmasked m d) (valat d) / sum_over (length d) (joint_unmasked m d) (valat m).
Proof. exists [(1, false); (1, false); (2, false); (1, false)], [(3, false); (1, true); (1, false); (1, false)].
  split; [reflexivity|]. unfold optimal_sfs_scaling, auto_fold, intersect_masks. cbn.
  unfold msum, sum_over, joint_unmasked, maskat, valat. cbn. lra. Qed.
