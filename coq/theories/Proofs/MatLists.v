(** * MatLists: the list-of-lists matrices of Model/Godambe.v ([mat_mul], [trace], [diag], [qform]) read as
      function-indexed matrices, and the matrix stage of Godambe.py with numpy.linalg.inv as an ORACLE.

    [inv] is a Section variable with the contract [inv_spec]: on an n x n matrix that has a two-sided inverse it returns
    an n x n two-sided inverse.  Nothing else is assumed about it (by [is_inv_unique] its entries are then determined).
    The section [Stage] takes exact (H, J, cU) and perturbed (H', J', cU') with
         |H' - H| <= CH e2,  |J' - J| <= CJ e2,  |cU' - cU|_1 <= Cc e2       (entry-sum norms, e2 = eps^2 <= 1)
    and bounds every output of the matrix stage by  K * e2.  Invertibility of the perturbed matrices is NOT assumed:
    it follows from the smallness conditions (MatNeumann.v). *)
From Coq Require Import ZArith Reals List Lra Lia Arith Bool.
From Dadi Require Import Base.Num Base.NumR Model.Godambe Proofs.GodambeProofs Proofs.GodambePoisson
                         Proofs.MatPerturb Proofs.MatNeumann Proofs.MatStats.
Import ListNotations.
Local Open Scope R_scope.

(** ** reading lists as functions *)
Definition ent (M : list (list R)) : mat := fun i j => nth j (nth i M []) 0.
Definition vec (v : list R) : nat -> R := fun i => nth i v 0.
Definition wf (n : nat) (M : list (list R)) : Prop := length M = n /\ forall r, In r M -> length r = n.
Definition to_list (n : nat) (B : mat) : list (list R) := map (fun i => map (fun j => B i j) (seq 0 n)) (seq 0 n).

Lemma ent_entry M i j : ent M i j = @entry R NumR M i j.
Proof. reflexivity. Qed.

Lemma wf_row n M i : wf n M -> (i < n)%nat -> length (nth i M []) = n.
Proof. intros [HL HR] Hi. apply HR. apply nth_In. lia. Qed.

Lemma wf_to_list n B : wf n (to_list n B).
Proof.
  unfold to_list. split; [rewrite map_length, seq_length; reflexivity|].
  intros r Hr. apply in_map_iff in Hr. destruct Hr as [i [<- _]]. rewrite map_length, seq_length. reflexivity.
Qed.

Lemma ent_to_list n B i j : (i < n)%nat -> (j < n)%nat -> ent (to_list n B) i j = B i j.
Proof. intros Hi Hj. unfold ent, to_list. rewrite (nth_map_seq _ _ _ _ Hi), (nth_map_seq _ _ _ _ Hj). reflexivity. Qed.

Lemma rsum_shift n f : rsum (S n) f = f 0%nat + rsum n (fun k => f (S k)).
Proof.
  induction n as [|n IH]; [cbn [rsum]; ring|].
  change (rsum (S (S n)) f) with (rsum (S n) f + f (S n)). rewrite IH. cbn [rsum]. ring.
Qed.

Lemma ndot_rsum : forall (l1 l2 : list R) n, length l1 = n -> length l2 = n ->
  ndot l1 l2 = rsum n (fun k => nth k l1 0 * nth k l2 0).
Proof.
  induction l1 as [|x t IH]; intros [|y t2] n H1 H2; cbn [length] in *; subst n; try discriminate.
  - rewrite ndot_nil_r. reflexivity.
  - rewrite ndot_cons, rsum_shift. cbn [nth]. f_equal. apply IH; [reflexivity|lia].
Qed.

Lemma nsum_seq_rsum : forall n (f : nat -> R), nsum (map f (seq 0 n)) = rsum n f.
Proof.
  induction n as [|n IH]; intros f; [reflexivity|].
  rewrite rsum_shift. cbn [seq map]. rewrite nsum_cons, <- seq_shift, map_map, IH. reflexivity.
Qed.

Lemma nth_col (B : list (list R)) j k : (k < length B)%nat -> nth k (col B j) 0 = ent B k j.
Proof. intros Hk. unfold col, ent. rewrite (nth_map_in _ B k 0 []) by assumption. reflexivity. Qed.

Lemma length_col (B : list (list R)) j : length (col B j) = length B.
Proof. unfold col. apply map_length. Qed.

Lemma ent_mat_mul n A B i j : wf n A -> wf n B -> (i < n)%nat -> (j < n)%nat ->
  ent (mat_mul A B) i j = mmul n (ent A) (ent B) i j.
Proof.
  intros HA HB Hi Hj. destruct B as [|b0 B']; [destruct HB as [HL _]; cbn in HL; lia|].
  assert (Hb0 : length b0 = n) by (destruct HB as [_ HR]; apply HR; left; reflexivity).
  unfold mat_mul, ent at 1. rewrite Hb0.
  rewrite (nth_map_in _ A i [] []) by (destruct HA as [HL _]; lia).
  rewrite (nth_map_seq _ _ _ _ Hj).
  rewrite (ndot_rsum _ _ n) by ((apply wf_row; assumption) || (rewrite length_col; apply HB)).
  unfold mmul. apply rsum_ext. intros k Hk. rewrite nth_col by (destruct HB as [HL _]; lia). reflexivity.
Qed.

Lemma wf_mat_mul n A B : wf n A -> wf n B -> wf n (mat_mul A B).
Proof.
  intros HA HB. destruct B as [|b0 B'].
  - destruct HB as [HL _]. cbn in HL. subst n. destruct HA as [HLA _]. destruct A; [|discriminate].
    split; [reflexivity|]. intros r [].
  - assert (Hb0 : length b0 = n) by (destruct HB as [_ HR]; apply HR; left; reflexivity).
    unfold mat_mul. split; [rewrite map_length; apply HA|].
    intros r Hr. apply in_map_iff in Hr. destruct Hr as [r0 [<- _]]. rewrite map_length, seq_length. exact Hb0.
Qed.

Lemma trace_mtrace n (M : list (list R)) : length M = n -> trace M = mtrace n (ent M).
Proof. intros HL. unfold trace, mtrace. rewrite HL, nsum_seq_rsum. reflexivity. Qed.

Lemma nth_diag (M : list (list R)) i : (i < length M)%nat -> nth i (diag M) 0 = ent M i i.
Proof. intros Hi. unfold diag. rewrite (nth_map_seq _ _ _ _ Hi). reflexivity. Qed.

Lemma qform_bform n (M : list (list R)) (v : list R) : wf n M -> length v = n ->
  qform M v = bform n (ent M) (vec v) (vec v).
Proof.
  intros HM Hv. unfold qform, bform, mat_vec.
  rewrite (ndot_rsum _ _ n) by (assumption || (rewrite map_length; apply HM)).
  apply rsum_ext. intros i Hi. unfold vec at 1. f_equal.
  rewrite (nth_map_in _ M i 0 []) by (destruct HM as [HL _]; lia).
  rewrite (ndot_rsum _ _ n) by ((apply wf_row; assumption) || assumption). reflexivity.
Qed.

Lemma is_inv_meq n A A' B B' : meq n A A' -> meq n B B' -> is_inv n A B -> is_inv n A' B'.
Proof.
  intros HA HB [H1 H2]. split.
  - eapply meq_trans; [apply mmul_meq; apply meq_sym; eassumption|exact H1].
  - eapply meq_trans; [apply mmul_meq; apply meq_sym; eassumption|exact H2].
Qed.

(** "M has an n x n two-sided inverse" *)
Definition invertible (n : nat) (M : list (list R)) : Prop := exists Mi, wf n Mi /\ is_inv n (ent M) (ent Mi).

(** a small perturbation of an invertible matrix is invertible *)
Lemma invertible_perturbed n (M M' Mi : list (list R)) :
  is_inv n (ent M) (ent Mi) -> mnorm n (ent Mi) * mnorm n (msub (ent M') (ent M)) < 1 -> invertible n M'.
Proof.
  intros HI Hs. destruct (neumann_inverse n (ent M) (ent Mi) (ent M') HI Hs) as [B' HB'].
  exists (to_list n B'). split; [apply wf_to_list|].
  apply (is_inv_meq n (ent M') (ent M') B' (ent (to_list n B'))); [apply meq_refl| |exact HB'].
  intros i j Hi Hj. symmetry. apply ent_to_list; assumption.
Qed.

Lemma half_lt_1 a x e : 0 <= a -> x <= e -> a * e <= 1 / 2 -> a * x < 1.
Proof. intros Ha Hx Hh. assert (a * x <= a * e) by (apply Rmult_le_compat_l; assumption). lra. Qed.

(** ** the matrix stage with [inv] as an oracle *)
Section Oracle.
  Variable n : nat.
  Variable inv : list (list R) -> list (list R).
  Hypothesis inv_spec : forall M, wf n M -> invertible n M -> wf n (inv M) /\ is_inv n (ent M) (ent (inv M)).

  Lemma inv_wf M : wf n M -> invertible n M -> wf n (inv M).
  Proof. intros HM HI. apply (inv_spec M HM HI). Qed.
  Lemma inv_is_inv M : wf n M -> invertible n M -> is_inv n (ent M) (ent (inv M)).
  Proof. intros HM HI. apply (inv_spec M HM HI). Qed.

  (** numpy.sqrt(numpy.diag(numpy.linalg.inv(M)))[i] *)
  Definition uncert (M : list (list R)) (i : nat) : R := sqrt (ent (inv M) i i).
  Lemma uncert_diag M i : (i < length (inv M))%nat -> nth i (map sqrt (diag (inv M))) 0 = uncert M i.
  Proof.
    intros Hi. rewrite (nth_map_in sqrt _ i 0 0) by (unfold diag; rewrite map_length, seq_length; assumption).
    rewrite nth_diag by assumption. reflexivity.
  Qed.

  (** get_godambe: numpy.dot(numpy.dot(hess, J_inv), hess) *)
  Definition gim_of (Hm Jm : list (list R)) : list (list R) := mat_mul (mat_mul Hm (inv Jm)) Hm.

  Section Stage.
    Variables H H' J J' : list (list R).
    Variables cU cU' : list R.
    Variables CH CJ Cc e2 : R.
    Hypothesis wfH : wf n H.
    Hypothesis wfH' : wf n H'.
    Hypothesis wfJ : wf n J.
    Hypothesis wfJ' : wf n J'.
    Hypothesis lencU : length cU = n.
    Hypothesis lencU' : length cU' = n.
    Hypothesis closeH : mnorm n (msub (ent H') (ent H)) <= CH * e2.
    Hypothesis closeJ : mnorm n (msub (ent J') (ent J)) <= CJ * e2.
    Hypothesis closeU : vnorm n (fun i => vec cU' i - vec cU i) <= Cc * e2.
    Hypothesis e2_range : 0 <= e2 <= 1.
    Hypothesis CH_nonneg : 0 <= CH.
    Hypothesis CJ_nonneg : 0 <= CJ.
    Hypothesis Cc_nonneg : 0 <= Cc.

    (** *** FIM_uncert *)
    Theorem stage_FIM :
      invertible n H -> mnorm n (ent (inv H)) * (CH * e2) <= 1 / 2 ->
      invertible n H' /\
      (forall i j, (i < n)%nat -> (j < n)%nat ->
         Rabs (ent (inv H') i j - ent (inv H) i j) <= 2 * (mnorm n (ent (inv H)) * mnorm n (ent (inv H))) * CH * e2) /\
      (forall i, (i < n)%nat -> 2 * (mnorm n (ent (inv H)) * mnorm n (ent (inv H))) * CH * e2 < ent (inv H) i i ->
         0 < ent (inv H') i i /\
         Rabs (uncert H' i - uncert H i)
         <= 2 * (mnorm n (ent (inv H)) * mnorm n (ent (inv H))) * CH / sqrt (ent (inv H) i i) * e2).
    Proof.
      intros HI Hhalf. pose proof (inv_is_inv H wfH HI) as HIi.
      assert (HI' : invertible n H').
      { apply (invertible_perturbed n H H' (inv H) HIi).
        apply (half_lt_1 _ _ (CH * e2)); [apply mnorm_nonneg|exact closeH|exact Hhalf]. }
      pose proof (inv_is_inv H' wfH' HI') as HIi'.
      destruct (fim_inverse_within n (ent H) (ent (inv H)) (ent H') (ent (inv H')) CH e2 HIi HIi' closeH Hhalf)
        as [_ [_ HE]].
      split; [exact HI'|]. split; [exact HE|].
      intros i Hi Hsm. unfold uncert.
      assert (Hpos : 0 < ent (inv H) i i).
      { eapply Rle_lt_trans; [|exact Hsm]. eapply Rle_trans; [apply Rabs_pos|apply (HE i i Hi Hi)]. }
      apply (uncert_within (ent (inv H) i i) (ent (inv H') i i)
               (2 * (mnorm n (ent (inv H)) * mnorm n (ent (inv H))) * CH) e2 Hpos (HE i i Hi Hi) Hsm).
    Qed.

    (** *** get_godambe and GIM_uncert *)
    Let G := gim_of H J.
    Let G' := gim_of H' J'.
    Let KGIM := KG (mnorm n (ent H)) (mnorm n (ent (inv J))) CH CJ.

    Theorem stage_GIM :
      invertible n J -> mnorm n (ent (inv J)) * (CJ * e2) <= 1 / 2 ->
      invertible n J' /\ wf n G /\ wf n G' /\ mnorm n (msub (ent G') (ent G)) <= KGIM * e2.
    Proof.
      intros HI Hhalf. pose proof (inv_is_inv J wfJ HI) as HIi.
      assert (HI' : invertible n J').
      { apply (invertible_perturbed n J J' (inv J) HIi).
        apply (half_lt_1 _ _ (CJ * e2)); [apply mnorm_nonneg|exact closeJ|exact Hhalf]. }
      pose proof (inv_is_inv J' wfJ' HI') as HIi'.
      pose proof (inv_wf J wfJ HI) as wJi. pose proof (inv_wf J' wfJ' HI') as wJi'.
      assert (wG : wf n G) by (unfold G, gim_of; repeat apply wf_mat_mul; assumption).
      assert (wG' : wf n G') by (unfold G', gim_of; repeat apply wf_mat_mul; assumption).
      split; [exact HI'|]. split; [exact wG|]. split; [exact wG'|].
      assert (EG : meq n (ent G) (mmul n (mmul n (ent H) (ent (inv J))) (ent H))).
      { intros i j Hi Hj. unfold G, gim_of. rewrite (ent_mat_mul n) by (try apply wf_mat_mul; assumption).
        apply mmul_ext_l. intros k Hk. apply ent_mat_mul; assumption. }
      assert (EG' : meq n (ent G') (mmul n (mmul n (ent H') (ent (inv J'))) (ent H'))).
      { intros i j Hi Hj. unfold G', gim_of. rewrite (ent_mat_mul n) by (try apply wf_mat_mul; assumption).
        apply mmul_ext_l. intros k Hk. apply ent_mat_mul; assumption. }
      rewrite (mnorm_meq n (msub (ent G') (ent G))
                 (msub (mmul n (mmul n (ent H') (ent (inv J'))) (ent H')) (mmul n (mmul n (ent H) (ent (inv J))) (ent H)))).
      - apply (gim_within n (ent H) (ent J) (ent (inv J)) (ent H') (ent J') (ent (inv J'))); assumption.
      - intros i j Hi Hj. unfold msub. rewrite EG, EG' by assumption. reflexivity.
    Qed.

    Theorem stage_GIM_uncert :
      invertible n J -> mnorm n (ent (inv J)) * (CJ * e2) <= 1 / 2 ->
      invertible n G -> mnorm n (ent (inv G)) * (KGIM * e2) <= 1 / 2 ->
      invertible n J' /\ invertible n G' /\
      (forall i j, (i < n)%nat -> (j < n)%nat ->
         Rabs (ent (inv G') i j - ent (inv G) i j) <= 2 * (mnorm n (ent (inv G)) * mnorm n (ent (inv G))) * KGIM * e2) /\
      (forall i, (i < n)%nat -> 2 * (mnorm n (ent (inv G)) * mnorm n (ent (inv G))) * KGIM * e2 < ent (inv G) i i ->
         0 < ent (inv G') i i /\
         Rabs (uncert G' i - uncert G i)
         <= 2 * (mnorm n (ent (inv G)) * mnorm n (ent (inv G))) * KGIM / sqrt (ent (inv G) i i) * e2).
    Proof.
      intros HJ Hh1 HG Hh2. destruct (stage_GIM HJ Hh1) as [HJ' [wG [wG' HEG]]].
      pose proof (inv_is_inv G wG HG) as HGi.
      assert (HG' : invertible n G').
      { apply (invertible_perturbed n G G' (inv G) HGi).
        apply (half_lt_1 _ _ (KGIM * e2)); [apply mnorm_nonneg|exact HEG|exact Hh2]. }
      pose proof (inv_is_inv G' wG' HG') as HGi'.
      destruct (fim_inverse_within n (ent G) (ent (inv G)) (ent G') (ent (inv G')) KGIM e2 HGi HGi' HEG Hh2)
        as [_ [_ HE]].
      split; [exact HJ'|]. split; [exact HG'|]. split; [exact HE|].
      intros i Hi Hsm. unfold uncert.
      assert (Hpos : 0 < ent (inv G) i i).
      { eapply Rle_lt_trans; [|exact Hsm]. eapply Rle_trans; [apply Rabs_pos|apply (HE i i Hi Hi)]. }
      apply (uncert_within (ent (inv G) i i) (ent (inv G') i i)
               (2 * (mnorm n (ent (inv G)) * mnorm n (ent (inv G))) * KGIM) e2 Hpos (HE i i Hi Hi) Hsm).
    Qed.

    (** *** LRT_adjust:  len(nested_indices) / numpy.trace(numpy.dot(J, numpy.linalg.inv(H))) *)
    Let KLRT := KT (mnorm n (ent (inv H))) (mnorm n (ent J)) CH CJ.

    Theorem stage_LRT k :
      invertible n H -> mnorm n (ent (inv H)) * (CH * e2) <= 1 / 2 ->
      trace (mat_mul J (inv H)) <> 0 -> KLRT * e2 <= Rabs (trace (mat_mul J (inv H))) / 2 ->
      invertible n H' /\ trace (mat_mul J' (inv H')) <> 0 /\
      Rabs (k / trace (mat_mul J' (inv H')) - k / trace (mat_mul J (inv H)))
      <= 2 * Rabs k * KLRT / (trace (mat_mul J (inv H)) * trace (mat_mul J (inv H))) * e2.
    Proof.
      intros HI Hhalf. pose proof (inv_is_inv H wfH HI) as HIi.
      assert (HI' : invertible n H').
      { apply (invertible_perturbed n H H' (inv H) HIi).
        apply (half_lt_1 _ _ (CH * e2)); [apply mnorm_nonneg|exact closeH|exact Hhalf]. }
      pose proof (inv_is_inv H' wfH' HI') as HIi'.
      pose proof (inv_wf H wfH HI) as wHi. pose proof (inv_wf H' wfH' HI') as wHi'.
      assert (T : trace (mat_mul J (inv H)) = mtrace n (mmul n (ent J) (ent (inv H)))).
      { rewrite (trace_mtrace n) by (apply wf_mat_mul; assumption).
        apply mtrace_meq. intros i j Hi Hj. apply ent_mat_mul; assumption. }
      assert (T' : trace (mat_mul J' (inv H')) = mtrace n (mmul n (ent J') (ent (inv H')))).
      { rewrite (trace_mtrace n) by (apply wf_mat_mul; assumption).
        apply mtrace_meq. intros i j Hi Hj. apply ent_mat_mul; assumption. }
      rewrite T, T'. intros Ht Hsm. split; [exact HI'|].
      apply (lrt_adjust_within n (ent H) (ent (inv H)) (ent J) (ent H') (ent (inv H')) (ent J') CH CJ e2 k);
        try assumption. apply e2_range.
    Qed.

    (** *** Wald_stat:  param_diff^T GIM param_diff  and  param_diff^T H param_diff *)
    Theorem stage_Wald (d : list R) :
      length d = n ->
      Rabs (qform H' d - qform H d) <= vnorm n (vec d) * vnorm n (vec d) * CH * e2 /\
      (invertible n J -> mnorm n (ent (inv J)) * (CJ * e2) <= 1 / 2 ->
       Rabs (qform G' d - qform G d) <= vnorm n (vec d) * vnorm n (vec d) * KGIM * e2).
    Proof.
      intros Hd. split.
      - rewrite !(qform_bform n) by assumption. rewrite !Rmult_assoc, <- (Rmult_assoc (vnorm n (vec d))).
        apply wald_within. exact closeH.
      - intros HJ Hh. destruct (stage_GIM HJ Hh) as [_ [wG [wG' HEG]]].
        rewrite !(qform_bform n) by assumption. rewrite !Rmult_assoc, <- (Rmult_assoc (vnorm n (vec d))).
        apply wald_within. exact HEG.
    Qed.

    (** *** score_stat:  cU^T inv(J) cU  (adjusted)  and  cU^T inv(H) cU  (original) *)
    Theorem stage_score :
      (invertible n J -> mnorm n (ent (inv J)) * (CJ * e2) <= 1 / 2 ->
       invertible n J' /\
       Rabs (qform (inv J') cU' - qform (inv J) cU) <= KG (vnorm n (vec cU)) (mnorm n (ent (inv J))) Cc CJ * e2) /\
      (invertible n H -> mnorm n (ent (inv H)) * (CH * e2) <= 1 / 2 ->
       invertible n H' /\
       Rabs (qform (inv H') cU' - qform (inv H) cU) <= KG (vnorm n (vec cU)) (mnorm n (ent (inv H))) Cc CH * e2).
    Proof.
      split; intros HI Hhalf.
      - pose proof (inv_is_inv J wfJ HI) as HIi.
        assert (HI' : invertible n J').
        { apply (invertible_perturbed n J J' (inv J) HIi).
          apply (half_lt_1 _ _ (CJ * e2)); [apply mnorm_nonneg|exact closeJ|exact Hhalf]. }
        pose proof (inv_is_inv J' wfJ' HI') as HIi'.
        split; [exact HI'|].
        rewrite !(qform_bform n) by (try apply inv_wf; assumption).
        apply (score_within n (ent J) (ent (inv J)) (ent J') (ent (inv J')) (vec cU) (vec cU') CJ Cc e2); assumption.
      - pose proof (inv_is_inv H wfH HI) as HIi.
        assert (HI' : invertible n H').
        { apply (invertible_perturbed n H H' (inv H) HIi).
          apply (half_lt_1 _ _ (CH * e2)); [apply mnorm_nonneg|exact closeH|exact Hhalf]. }
        pose proof (inv_is_inv H' wfH' HI') as HIi'.
        split; [exact HI'|].
        rewrite !(qform_bform n) by (try apply inv_wf; assumption).
        apply (score_within n (ent H) (ent (inv H)) (ent H') (ent (inv H')) (vec cU) (vec cU') CH Cc e2); assumption.
    Qed.
  End Stage.
End Oracle.
