(** MathComp side of C18: the Pascal-rule [binN] is MathComp's 'C(n,k); Vandermonde's identity and the
    factorial formula are exported as statements about standard-library constants only, so that the
    stdlib-style files never see ssreflect. *)
From mathcomp Require Import all_ssreflect.
From Coq Require Import Factorial List.
From Dadi Require Import Proofs.LowPassBinom.
Set Implicit Arguments.
Unset Strict Implicit.
Unset Printing Implicit Defensive.

Lemma binN_bin n k : binN n k = 'C(n, k).
Proof.
elim: n k => [|n IH] [|k] //.
by rewrite binS -!IH addnC.
Qed.

Lemma fact_factorial n : fact n = n`!.
Proof. by elim: n => [|n IH] //; rewrite factS -IH. Qed.

Lemma lsum_big (F : nat -> nat) a n :
  \sum_(a <= j < a + n) F j = list_sum (List.map F (List.seq a n)).
Proof.
elim: n a => [|n IH] a /=; first by rewrite addn0 big_geq.
rewrite big_ltn; last by rewrite -addSnnS leq_addr.
by rewrite addnS -addSn IH.
Qed.

Lemma vander_ssr a b j :
  list_sum (List.map (fun i => binN a i * binN b (j - i)) (List.seq 0 j.+1)) = binN (a + b) j.
Proof.
rewrite -(lsum_big (fun i => binN a i * binN b (j - i)) 0 j.+1) add0n.
rewrite binN_bin -Vandermonde big_mkord.
by apply: eq_bigr => i _; rewrite !binN_bin.
Qed.

(** the same statements with the standard library's constants only *)
Lemma vander_nat a b j :
  list_sum (List.map (fun i => Nat.mul (binN a i) (binN b (Nat.sub j i))) (List.seq 0 (S j))) = binN (Nat.add a b) j.
Proof. exact: vander_ssr. Qed.

Lemma binN_fact n k : le k n -> Nat.mul (binN n k) (Nat.mul (fact k) (fact (Nat.sub n k))) = fact n.
Proof.
move=> /leP kn. rewrite binN_bin !fact_factorial. exact: bin_fact.
Qed.

Lemma binN_small n k : lt n k -> binN n k = 0.
Proof. move=> /ltP nk. by rewrite binN_bin bin_small. Qed.
