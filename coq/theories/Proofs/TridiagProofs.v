From Coq Require Import Reals List Lra Lia.
From Dadi Require Import Base.Num Base.NumR Model.Tridiag.
Import ListNotations.
Local Open Scope R_scope.

(** row equations: a_j x_{j-1} + b_j x_j + c_j x_{j+1} = r_j for consecutive rows, x_{-1} given, x_n := 0
    (c of the last row multiplies 0: it is "not used") *)
Fixpoint eqs (xprev : R) (rows : list (@row R)) (xs : list R) : Prop :=
  match rows, xs with
  | [], [] => True
  | (a, b, c, r) :: t, x :: xt => a * xprev + b * x + c * hd 0 xt = r /\ eqs x t xt
  | _, _ => False
  end.
(** the whole system; a of the first row is not used *)
Definition eqs_top (rows : list (@row R)) (xs : list R) : Prop :=
  match rows, xs with
  | [], [] => True
  | (a, b, c, r) :: t, x :: xt => b * x + c * hd 0 xt = r /\ eqs x t xt
  | _, _ => False
  end.

Fixpoint nonzero (l : list R) : Prop := match l with [] => True | x :: t => x <> 0 /\ nonzero t end.

(** Invariant of forward elimination + back substitution on a tail of the system. *)
Lemma fwd_back_solves : forall rows bet uprev cprev,
  bet <> 0 -> nonzero (pivots bet cprev rows) ->
  let '(xs, carry) := back (fwd bet uprev cprev rows) in
  length xs = length rows /\
  carry = cprev / bet * hd 0 xs /\
  eqs (uprev - carry) rows xs.
Proof.
  induction rows as [|[[[a b] c] r] t IH]; intros bet uprev cprev Hbet Hp.
  - cbn. numR. repeat split; try lra.
  - cbn [fwd pivots back] in *. numR. destruct Hp as [Hb' Hp].
    set (gam := cprev / bet) in *. set (bet' := b - a * gam) in *.
    set (u := (r - a * uprev) / bet') in *.
    specialize (IH bet' u c Hb' Hp).
    destruct (back (fwd bet' u c t)) as [xs carry]. destruct IH as [Hlen [Hc He]].
    cbn [length hd eqs]. split; [now rewrite Hlen|]. split; [reflexivity|]. split; [|exact He].
    subst u. rewrite Hc. unfold bet' in *. field_simplify_eq; [|exact Hb']. ring.
Qed.

(** ** The Thomas algorithm returns a solution of the tridiagonal system whenever no pivot vanishes. *)
Theorem thomas_solves : forall rows : list (@row R),
  nonzero (all_pivots rows) -> eqs_top rows (thomas rows) /\ length (thomas rows) = length rows.
Proof.
  intros [|[[[a0 b0] c0] r0] t] Hp; [cbn; auto|].
  cbn [all_pivots nonzero] in Hp. destruct Hp as [Hb0 Hp].
  unfold thomas. cbn [back]. numR.
  pose proof (fwd_back_solves t b0 (r0 / b0) c0 Hb0 Hp) as Hfb.
  destruct (back (fwd b0 (r0 / b0) c0 t)) as [xs carry]. destruct Hfb as [Hlen [Hc He]].
  cbn [fst eqs_top length hd]. split; [split; [|exact He] | now rewrite Hlen].
  rewrite Hc. field. exact Hb0.
Qed.

(** ** Linearity in the right-hand side (the coefficients a,b,c do not depend on the density). *)
Definition mkrows (abc : list (R * R * R)) (rs : list R) : list (@row R) :=
  map (fun p => let '(a, b, c) := fst p in (a, b, c, snd p)) (combine abc rs).
Definition lincomb (al be : R) (xs ys : list R) : list R := map (fun p => al * fst p + be * snd p) (combine xs ys).

Lemma fwd_linear : forall abc rs1 rs2 al be bet u1 u2 cprev, length rs1 = length rs2 ->
  fwd bet (al * u1 + be * u2) cprev (mkrows abc (lincomb al be rs1 rs2)) =
  map (fun p => (fst (fst p), al * snd (fst p) + be * snd (snd p)))
      (combine (fwd bet u1 cprev (mkrows abc rs1)) (fwd bet u2 cprev (mkrows abc rs2))).
Proof.
  induction abc as [|[[a b] c] t IH]; intros rs1 rs2 al be bet u1 u2 cprev Hl; [reflexivity|].
  destruct rs1 as [|r1 rs1], rs2 as [|r2 rs2]; try discriminate; [reflexivity|].
  cbn [mkrows lincomb combine map fst snd fwd] in *. numR. f_equal.
  - f_equal. unfold Rdiv. ring.
  - injection Hl as Hl.
    replace ((al * r1 + be * r2 - a * (al * u1 + be * u2)) / (b - a * (cprev / bet)))
      with (al * ((r1 - a * u1) / (b - a * (cprev / bet))) + be * ((r2 - a * u2) / (b - a * (cprev / bet))))
      by (unfold Rdiv; ring).
    fold (lincomb al be rs1 rs2). fold (mkrows t (lincomb al be rs1 rs2)). fold (mkrows t rs1). fold (mkrows t rs2).
    apply (IH rs1 rs2 al be _ _ _ c Hl).
Qed.

Lemma back_linear : forall (l1 l2 : list (R * R)) al be, map fst l1 = map fst l2 ->
  back (map (fun p => (fst (fst p), al * snd (fst p) + be * snd (snd p))) (combine l1 l2)) =
  (lincomb al be (fst (back l1)) (fst (back l2)), al * snd (back l1) + be * snd (back l2)).
Proof.
  induction l1 as [|[g1 u1] t1 IH]; intros [|[g2 u2] t2] al be Hg; try discriminate.
  - cbn. numR. f_equal. ring.
  - cbn [map fst] in Hg. injection Hg as Hg1 Hg. subst g2.
    cbn [combine map fst snd back]. rewrite (IH t2 al be Hg).
    destruct (back t1) as [x1 c1], (back t2) as [x2 c2]. cbn [fst snd lincomb combine map]. numR.
    f_equal; [f_equal|]; ring.
Qed.

Lemma fwd_gams_rs : forall abc rs1 rs2 bet u1 u2 cprev, length rs1 = length rs2 ->
  map fst (fwd bet u1 cprev (mkrows abc rs1)) = map fst (fwd bet u2 cprev (mkrows abc rs2)).
Proof.
  induction abc as [|[[a b] c] t IH]; intros rs1 rs2 bet u1 u2 cprev Hl; [reflexivity|].
  destruct rs1 as [|r1 rs1], rs2 as [|r2 rs2]; try discriminate; [reflexivity|].
  injection Hl as Hl. cbn [mkrows combine map fst snd fwd]. f_equal. apply (IH rs1 rs2 _ _ _ c Hl).
Qed.

Theorem thomas_linear : forall abc rs1 rs2 al be, length rs1 = length rs2 ->
  thomas (mkrows abc (lincomb al be rs1 rs2)) = lincomb al be (thomas (mkrows abc rs1)) (thomas (mkrows abc rs2)).
Proof.
  intros [|[[a0 b0] c0] t] rs1 rs2 al be Hl; [reflexivity|].
  destruct rs1 as [|r1 rs1], rs2 as [|r2 rs2]; try discriminate; [reflexivity|].
  injection Hl as Hl.
  cbn [mkrows lincomb combine map fst snd thomas]. numR.
  replace ((al * r1 + be * r2) / b0) with (al * (r1 / b0) + be * (r2 / b0)) by (unfold Rdiv; ring).
  fold (lincomb al be rs1 rs2). fold (mkrows t (lincomb al be rs1 rs2)). fold (mkrows t rs1). fold (mkrows t rs2).
  rewrite (fwd_linear t rs1 rs2 al be b0 (r1 / b0) (r2 / b0) c0 Hl).
  pose proof (fwd_gams_rs t rs1 rs2 b0 (r1 / b0) (r2 / b0) c0 Hl) as Hg.
  pose proof (back_linear ((0, r1 / b0) :: fwd b0 (r1 / b0) c0 (mkrows t rs1))
                          ((0, r2 / b0) :: fwd b0 (r2 / b0) c0 (mkrows t rs2)) al be) as Hb.
  cbn [combine map fst snd] in Hb. rewrite Hb; [reflexivity|]. f_equal. exact Hg.
Qed.

(** ** Multiplying every equation by the same non-zero constant does not change the solution. *)
Definition scale_rows (k : R) (rows : list (@row R)) : list (@row R) :=
  map (fun p => let '(a, b, c, r) := p in (k * a, k * b, k * c, k * r)) rows.

Lemma fwd_scale : forall rows k bet uprev cprev, k <> 0 -> bet <> 0 -> nonzero (pivots bet cprev rows) ->
  fwd (k * bet) uprev (k * cprev) (scale_rows k rows) = fwd bet uprev cprev rows.
Proof.
  induction rows as [|[[[a b] c] r] t IH]; intros k bet uprev cprev Hk Hb Hp; [reflexivity|].
  cbn [scale_rows map fwd pivots nonzero] in *. numR. destruct Hp as [Hb' Hp].
  assert (Hg : k * cprev / (k * bet) = cprev / bet) by (field; auto).
  rewrite Hg.
  assert (Hbet : k * b - k * a * (cprev / bet) = k * (b - a * (cprev / bet))) by ring.
  rewrite Hbet. set (D := b - a * (cprev / bet)) in *.
  assert (Hu : (k * r - k * a * uprev) / (k * D) = (r - a * uprev) / D) by (field; auto).
  rewrite Hu. f_equal.
  apply (IH k _ _ c Hk Hb' Hp).
Qed.

Theorem thomas_scale : forall rows k, k <> 0 -> nonzero (all_pivots rows) -> thomas (scale_rows k rows) = thomas rows.
Proof.
  intros [|[[[a0 b0] c0] r0] t] k Hk Hp; [reflexivity|].
  cbn [all_pivots nonzero] in Hp. destruct Hp as [Hb0 Hp].
  cbn [scale_rows map thomas]. numR.
  replace (k * r0 / (k * b0)) with (r0 / b0) by (field; auto).
  fold (scale_rows k t). rewrite (fwd_scale t k b0 (r0 / b0) c0 Hk Hb0 Hp). reflexivity.
Qed.

(** ** Uniqueness: any solution of the system is the one the algorithm returns. *)
Lemma eqs_unique : forall rows bet uprev cprev xs xprev,
  bet <> 0 -> nonzero (pivots bet cprev rows) ->
  eqs xprev rows xs -> xprev = uprev - cprev / bet * hd 0 xs ->
  xs = fst (back (fwd bet uprev cprev rows)).
Proof.
  induction rows as [|[[[a b] c] r] t IH]; intros bet uprev cprev xs xprev Hb Hp He Hx.
  - destruct xs; [reflexivity|contradiction].
  - destruct xs as [|x xt]; [contradiction|]. cbn [eqs hd] in *. destruct He as [He1 He].
    cbn [fwd pivots nonzero back] in *. numR. destruct Hp as [Hb' Hp].
    set (gam := cprev / bet) in *. set (bet' := b - a * gam) in *. set (u := (r - a * uprev) / bet') in *.
    assert (Hx' : x = u - c / bet' * hd 0 xt).
    { subst u. subst xprev. unfold bet' in *. apply Rmult_eq_reg_l with (b - a * gam); [|exact Hb'].
      field_simplify_eq; [|exact Hb']. lra. }
    pose proof (IH bet' u c xt x Hb' Hp He Hx') as IHx.
    pose proof (fwd_back_solves t bet' u c Hb' Hp) as Hfb.
    destruct (back (fwd bet' u c t)) as [ys carry]. cbn [fst] in *. destruct Hfb as [_ [Hc _]].
    subst ys. f_equal. rewrite Hc. exact Hx'.
Qed.

Theorem thomas_unique : forall rows xs, nonzero (all_pivots rows) -> eqs_top rows xs -> xs = thomas rows.
Proof.
  intros [|[[[a0 b0] c0] r0] t] xs Hp He.
  - destruct xs; [reflexivity|contradiction].
  - destruct xs as [|x xt]; [contradiction|]. cbn [all_pivots nonzero] in Hp. destruct Hp as [Hb0 Hp].
    cbn [eqs_top] in He. destruct He as [He1 He].
    assert (Hx : x = r0 / b0 - c0 / b0 * hd 0 xt).
    { apply Rmult_eq_reg_l with b0; [|exact Hb0]. field_simplify_eq; [|exact Hb0]. lra. }
    pose proof (eqs_unique t b0 (r0 / b0) c0 xt x Hb0 Hp He Hx) as Ht.
    pose proof (fwd_back_solves t b0 (r0 / b0) c0 Hb0 Hp) as Hfb.
    unfold thomas. cbn [back]. numR.
    destruct (back (fwd b0 (r0 / b0) c0 t)) as [ys carry]. cbn [fst] in *. destruct Hfb as [_ [Hc _]].
    subst ys. f_equal. rewrite Hc. exact Hx.
Qed.
