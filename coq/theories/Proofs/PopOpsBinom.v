(** Binomial coefficients as a plain stdlib fixpoint (Pascal's rule), shared by the MathComp file that
    imports Vandermonde's identity and by the stdlib-style scramble proofs. *)
From Coq Require Import Arith List.
Import ListNotations.

Fixpoint binomN (n k : nat) : nat :=
  match n, k with
  | _, O => 1
  | O, S _ => 0
  | S n', S k' => binomN n' k' + binomN n' k
  end.

Definition lsum (l : list nat) : nat := fold_right Nat.add 0 l.
