(** C18: [part] enumerates all and only the sorted genotype vectors of an allele count, without duplicates,
    and at least one exists whenever 0 <= x <= 2n. *)
From Coq Require Import ZArith List Bool Arith Lia Sorted.
From Dadi Require Import Model.LowPass.
Import ListNotations.

(** a genotype configuration: n sorted genotypes in mn..2 with x derived alleles in total *)
Definition is_config (n : nat) (x : Z) (mn : nat) (l : list nat) : Prop :=
  length l = n /\ Z.of_nat (list_sum l) = x /\ Forall (fun g => mn <= g <= 2) l /\ StronglySorted le l.

Lemma part_0 x mn : part 0 x mn = if ((Z.of_nat (0 * mn) <=? x) && (x <=? Z.of_nat (0 * 2)))%Z then [[]] else [].
Proof. reflexivity. Qed.
Lemma part_S n x mn : part (S n) x mn =
  if ((Z.of_nat (S n * mn) <=? x) && (x <=? Z.of_nat (S n * 2)))%Z
  then flat_map (fun v => map (cons v) (part n (x - Z.of_nat v) v)) (seq mn (3 - mn)) else [].
Proof. reflexivity. Qed.

Lemma list_sum_cons a l : list_sum (a :: l) = a + list_sum l.
Proof. reflexivity. Qed.

Lemma sum_bounds mn l : Forall (fun g => mn <= g <= 2) l -> length l * mn <= list_sum l <= length l * 2.
Proof. unfold list_sum. induction 1; cbn in *; lia. Qed.

Theorem part_spec : forall n x mn l, mn <= 2 -> (In l (part n x mn) <-> is_config n x mn l).
Proof.
  induction n as [|n IH]; intros x mn l Hmn.
  - rewrite part_0. unfold is_config.
    destruct ((Z.of_nat (0 * mn) <=? x)%Z && (x <=? Z.of_nat (0 * 2))%Z) eqn:G.
    + apply andb_true_iff in G. destruct G as [G1 G2]. apply Z.leb_le in G1, G2. cbn in G1, G2.
      split.
      * intros [<-|[]]. cbn. repeat split; try lia; constructor.
      * intros (L & Sm & _ & _). destruct l; [now left | discriminate].
    + split; [intros []|]. intros (L & Sm & _ & _). destruct l; [|discriminate]. cbn in Sm. subst x. cbn in G. discriminate.
  - rewrite part_S. unfold is_config.
    destruct ((Z.of_nat (S n * mn) <=? x)%Z && (x <=? Z.of_nat (S n * 2))%Z) eqn:G.
    + rewrite in_flat_map. split.
      * intros (v & Hv & Hl). apply in_seq in Hv. apply in_map_iff in Hl. destruct Hl as (p & <- & Hp).
        apply IH in Hp; [|lia]. destruct Hp as (L & Sm & Fa & So).
        cbn [length]; rewrite ?list_sum_cons. repeat split; try lia.
        -- constructor; [lia|]. eapply Forall_impl; [|exact Fa]. cbn. lia.
        -- constructor; [exact So|]. eapply Forall_impl; [|exact Fa]. cbn. lia.
      * intros (L & Sm & Fa & So). destruct l as [|v p]; [discriminate|].
        inversion Fa as [|? ? Hv Fp]; subst. inversion So as [|? ? Sp Hd]; subst.
        exists v. split; [apply in_seq; lia|]. apply in_map. apply IH; [lia|].
        cbn [length] in *; rewrite ?list_sum_cons in *. repeat split; try lia; [|exact Sp].
        rewrite Forall_forall in *. intros g Hg. specialize (Fp g Hg). specialize (Hd g Hg). lia.
    + split; [intros []|]. intros (L & Sm & Fa & _). apply sum_bounds in Fa. rewrite L in Fa.
      apply andb_false_iff in G. destruct G as [G|G]; apply Z.leb_gt in G; lia.
Qed.

Lemma NoDup_app_disj {A} (a b : list A) : NoDup a -> NoDup b -> (forall x, In x a -> ~ In x b) -> NoDup (a ++ b).
Proof.
  induction a as [|x a IH]; cbn; intros Ha Hb D; [exact Hb|].
  inversion Ha; subst. constructor.
  - rewrite in_app_iff. intros [H|H]; [contradiction|]. exact (D x (or_introl eq_refl) H).
  - apply IH; auto.
Qed.

Lemma NoDup_map_cons {A} (v : A) l : NoDup l -> NoDup (map (cons v) l).
Proof.
  induction 1; cbn; constructor; auto.
  rewrite in_map_iff. intros (y & E & Hy). inversion E; subst. contradiction.
Qed.

Lemma NoDup_flat_map_cons {A} (f : A -> list (list A)) vs :
  NoDup vs -> (forall v, NoDup (f v)) -> NoDup (flat_map (fun v => map (cons v) (f v)) vs).
Proof.
  induction 1 as [|v vs Hv Hvs IH]; intros Hf; cbn; [constructor|].
  apply NoDup_app_disj; [apply NoDup_map_cons, Hf | apply IH, Hf |].
  intros l Hl Hl'. apply in_map_iff in Hl. destruct Hl as (p & <- & _).
  apply in_flat_map in Hl'. destruct Hl' as (w & Hw & Hl'). apply in_map_iff in Hl'.
  destruct Hl' as (p' & E & _). inversion E; subst. contradiction.
Qed.

Theorem part_nodup : forall n x mn, NoDup (part n x mn).
Proof.
  induction n as [|n IH]; intros x mn.
  - rewrite part_0. destruct (_ && _); repeat constructor. intros [].
  - rewrite part_S. destruct (_ && _); [|constructor].
    apply (NoDup_flat_map_cons (fun v => part n (x - Z.of_nat v) v)); [apply seq_NoDup | intros; apply IH].
Qed.

Lemma config_exists : forall n x mn, mn <= 2 -> (Z.of_nat (n * mn) <= x <= Z.of_nat (n * 2))%Z ->
  exists l, is_config n x mn l.
Proof.
  induction n as [|n IH]; intros x mn Hmn Hx.
  - exists []. unfold is_config. cbn in *. repeat split; try lia; constructor.
  - set (v := Z.to_nat (Z.max (Z.of_nat mn) (x - Z.of_nat (n * 2)))).
    assert (Hv : mn <= v <= 2) by (unfold v; lia).
    destruct (IH (x - Z.of_nat v)%Z v) as (p & L & S & Fa & So); [lia | unfold v; nia |].
    exists (v :: p). unfold is_config. cbn [length]; rewrite ?list_sum_cons. repeat split; try lia.
    + constructor; [lia|]. eapply Forall_impl; [|exact Fa]. cbn. lia.
    + constructor; [exact So|]. eapply Forall_impl; [|exact Fa]. cbn. lia.
Qed.

Lemma part_nonempty n x mn : mn <= 2 -> (Z.of_nat (n * mn) <= x <= Z.of_nat (n * 2))%Z -> part n x mn <> [].
Proof.
  intros Hmn Hx. destruct (config_exists n x mn Hmn Hx) as (l & Hl).
  apply part_spec in Hl; [|exact Hmn]. intros E. rewrite E in Hl. exact Hl.
Qed.

(** genotype counts of a configuration *)
Lemma cnt_cons v g l : cnt v (g :: l) = (if Nat.eq_dec g v then 1 else 0) + cnt v l.
Proof. unfold cnt. cbn. destruct (Nat.eq_dec g v); reflexivity. Qed.

Lemma counts_of_config l : Forall (fun g => g <= 2) l ->
  cnt 0 l + cnt 1 l + cnt 2 l = length l /\ cnt 1 l + 2 * cnt 2 l = list_sum l.
Proof.
  induction 1 as [|g l Hg _ IH]; [split; reflexivity|].
  rewrite !cnt_cons. cbn [length]; rewrite ?list_sum_cons.
  destruct (Nat.eq_dec g 0), (Nat.eq_dec g 1), (Nat.eq_dec g 2); lia.
Qed.

Lemma config_le2 n x mn l : is_config n x mn l -> Forall (fun g => g <= 2) l.
Proof. intros (_ & _ & Fa & _). eapply Forall_impl; [|exact Fa]. cbn. lia. Qed.

(** [parts nseq x] for the sizes the code is used with *)
Lemma parts_spec nseq x l : In l (parts nseq x) <-> is_config (nseq / 2) (Z.of_nat x) 0 l.
Proof. apply part_spec. lia. Qed.
Lemma parts_nodup nseq x : NoDup (parts nseq x).
Proof. apply part_nodup. Qed.
Lemma parts_nonempty nseq x : x <= 2 * (nseq / 2) -> parts nseq x <> [].
Proof. intros H. apply part_nonempty; lia. Qed.
