(** C13, statistics: S, pi, Watterson's theta, Tajima's D and Fst computed from the spectrum of a fully called
    genotype count matrix equal the same statistics computed SNP by SNP from the counts; pi is the mean number
    of pairwise differences between chromosomes. *)
From Coq Require Import String ZArith Reals List Lra Lia Bool Arith Permutation.
From Dadi Require Import Base.Num Base.NumR Model.Projection Model.Fold Model.DataDict Model.Stats
  Proofs.ProjBase Proofs.ProjH Proofs.FoldAbs Proofs.FoldND Proofs.DataDictSpec.
Import ListNotations.
Local Open Scope R_scope.

(** ** masked sums as index sums *)
Lemma nth_map2 {A B C} (f : A -> B -> C) da db dc : forall a b i, length a = length b -> (i < length a)%nat ->
  nth i (map2 f a b) dc = f (nth i a da) (nth i b db).
Proof. induction a; destruct b; cbn; intros i E Hi; try discriminate; [lia|]. destruct i; [reflexivity|]. apply IHa; lia. Qed.

Lemma msum_rsum (ms : list bool) (xs : list R) : length ms = length xs ->
  msum (F:=R) ms xs = rsum (fun i => if nth i ms false then 0 else get xs i) (length xs).
Proof. intros E. unfold msum. change (nsum (F:=R) ?l) with (rtot l). rewrite rtot_get_sum.
  rewrite map2_length by assumption. rewrite E. apply rsum_ext. intros i Hi. unfold get.
  rewrite (nth_map2 _ false 0) by lia. reflexivity. Qed.

(** ** the spectrum of a count matrix *)
Definition row_ok (ns row : list nat) : Prop := Forall2 (fun n i => (i <= n)%nat) ns row.

Lemma row_ok_lt ns row : row_ok ns row -> Forall2 (fun n i => (i < n)%nat) (map S ns) row.
Proof. induction 1; cbn; constructor; auto; lia. Qed.
Lemma row_ok_valid ns row : row_ok ns row -> valid (map S ns) row.
Proof. unfold valid. induction 1; cbn; constructor; auto; lia. Qed.

Lemma valid_in_enum : forall s mi, valid s mi -> In mi (enum s).
Proof. unfold valid. induction s as [|n r IH]; intros mi V; inversion V; subst; cbn; [left; reflexivity|].
  apply in_flat_map. exists x. split; [apply in_seq; lia|]. apply in_map. apply IH. assumption. Qed.

Lemma get_unit_vec L j i : (i < L)%nat -> get (unit_vec (F:=R) L j) i = if (i =? j)%nat then 1 else 0.
Proof. intros Hi. unfold get, unit_vec. rewrite (nth_map_seq (fun i => if (i =? j)%nat then n1 else n0) 0 L i 0 Hi).
  reflexivity. Qed.
Lemma unit_vec_length L j : length (unit_vec (F:=R) L j) = L.
Proof. unfold unit_vec. rewrite map_length, seq_length. reflexivity. Qed.

Lemma sfs_get ns : forall rows,
  length (sfs_of_rows (F:=R) ns rows) = size (map S ns) /\
  forall i, (i < size (map S ns))%nat ->
    get (sfs_of_rows (F:=R) ns rows) i = lsum (fun row => if (i =? ravel (map S ns) row)%nat then 1 else 0) rows.
Proof. unfold sfs_of_rows. induction rows as [|row rows [L G]]; cbn [fold_right lsum].
  - split; [apply vzero_length|]. intros; apply get_vzero.
  - split; [rewrite vadd_length; rewrite unit_vec_length; auto|].
    intros i Hi. rewrite get_vadd by (rewrite unit_vec_length; auto). rewrite get_unit_vec, G by assumption. reflexivity. Qed.

(** a sum over the entries of the spectrum, weighted by W and masked by M, is a sum over the SNPs *)
Lemma masked_sum_over_snps ns (M : list bool) (W : nat -> R) : forall rows,
  Forall (row_ok ns) rows ->
  rsum (fun i => if nth i M false then 0 else get (sfs_of_rows (F:=R) ns rows) i * W i) (size (map S ns))
  = lsum (fun row => let r := ravel (map S ns) row in if nth r M false then 0 else W r) rows.
Proof. intros rows F. destruct (sfs_get ns rows) as [_ G].
  rewrite (rsum_ext _ (fun i => lsum (fun row => if nth i M false then 0 else (if (i =? ravel (map S ns) row)%nat then 1 else 0) * W i) rows)).
  - rewrite rsum_lsum. apply lsum_ext. intros row Hin. cbv zeta.
    rewrite Forall_forall in F. pose proof (ravel_lt _ _ (row_ok_lt _ _ (F row Hin))) as Hr.
    rewrite (rsum_single _ _ (ravel (map S ns) row) Hr).
    + rewrite Nat.eqb_refl. destruct (nth _ M false); lra.
    + intros i Hi Hne. apply Nat.eqb_neq in Hne. rewrite Hne. destruct (nth i M false); lra.
  - intros i Hi. rewrite G by assumption. destruct (nth i M false).
    + symmetry. apply lsum_zero. reflexivity.
    + clear. induction rows; cbn [lsum]; [lra|]. rewrite <- IHrows. lra. Qed.

(** ** corners = SNPs that are not polymorphic in the sample *)
Lemma ravel_zero_iff : forall s mi, valid s mi -> (ravel s mi = 0%nat <-> all_zero mi = true).
Proof. unfold valid, all_zero. intros s mi V. induction V as [|i n q r Hlt V IH]; cbn [ravel forallb]; [tauto|].
  pose proof (size_pos r q V) as Hp. fold (size r). destruct i; cbn [Nat.eqb].
  - rewrite Nat.mul_0_l, Nat.add_0_l. cbn. exact IH.
  - split; [nia|discriminate]. Qed.

Lemma ravel_last_iff : forall ns mi, row_ok ns mi ->
  (S (ravel (map S ns) mi) = size (map S ns) <-> all_full ns mi = true).
Proof. intros ns mi V. induction V as [|n i ns' q Hle V IH]; cbn [map ravel size fold_right all_full]; [tauto|].
  fold (size (map S ns')). pose proof (ravel_lt _ _ (row_ok_lt _ _ V)) as Hr.
  rewrite andb_true_iff, Nat.eqb_eq, <- IH. split; [intros E|intros [-> E]]; [split|]; nia. Qed.

Lemma corner_is_not_segregating ns row : row_ok ns row ->
  is_corner (map S ns) row = negb (segregating ns row).
Proof. intros V. unfold is_corner, segregating. rewrite negb_andb, !negb_involutive.
  pose proof (ravel_zero_iff _ _ (row_ok_valid _ _ V)) as Z. pose proof (ravel_last_iff _ _ V) as Lst.
  destruct (all_zero row) eqn:E1, (all_full ns row) eqn:E2; cbn [orb];
    repeat match goal with
           | |- context [Nat.eqb ?a ?b] => let E := fresh in destruct (Nat.eqb a b) eqn:E;
               [apply Nat.eqb_eq in E|apply Nat.eqb_neq in E]
           end; cbn [orb]; try reflexivity; exfalso; intuition congruence. Qed.

Lemma corner_mask_nth ns row : row_ok ns row ->
  nth (ravel (map S ns) row) (corner_mask ns) false = negb (segregating ns row).
Proof. intros V. unfold corner_mask. cbv zeta.
  rewrite <- (corner_is_not_segregating ns row V).
  apply (arr_of_tabulate (map S ns) (is_corner (map S ns)) false row). apply valid_in_enum, row_ok_valid, V. Qed.

Lemma corner_mask_length ns : length (corner_mask ns) = size (map S ns).
Proof. apply tabulate_length. Qed.

Lemma with_corners_idem ns : with_corners (map S ns) (corner_mask ns) = corner_mask ns.
Proof. unfold with_corners, corner_mask. cbv zeta. generalize (tabulate (map S ns) (is_corner (map S ns))).
  induction l as [|x l IH]; cbn; [reflexivity|]. rewrite IH, orb_diag. reflexivity. Qed.

Lemma seg_sum_lsum ns (f : list nat -> R) rows :
  seg_sum (F:=R) ns f rows = lsum (fun row => if segregating ns row then f row else 0) rows.
Proof. unfold seg_sum. induction rows; cbn [map lsum]; [reflexivity|]. rewrite <- IHrows. reflexivity. Qed.

(** ** S *)
Theorem S_from_sfs_matches_direct : forall ns rows, Forall (row_ok ns) rows ->
  stat_S (F:=R) (map S ns) (sfs_of_rows ns rows) (corner_mask ns) = direct_S ns rows.
Proof. intros ns rows F. unfold stat_S, direct_S. rewrite with_corners_idem.
  destruct (sfs_get ns rows) as [L _].
  rewrite msum_rsum by (rewrite corner_mask_length; auto). rewrite L.
  rewrite (rsum_ext _ (fun i => if nth i (corner_mask ns) false then 0 else get (sfs_of_rows ns rows) i * 1))
    by (intros; destruct (nth _ _ _); lra).
  rewrite masked_sum_over_snps by assumption. rewrite seg_sum_lsum. apply lsum_ext. intros row Hin.
  rewrite Forall_forall in F. cbv zeta. rewrite corner_mask_nth by auto. destruct (segregating ns row); reflexivity. Qed.

(** ** weighted sums (pi, Fst components) *)
Lemma wsum_sfs ns (w : list R) rows : length w = size (map S ns) -> Forall (row_ok ns) rows ->
  wsum (F:=R) (corner_mask ns) (sfs_of_rows ns rows) w
  = lsum (fun row => if segregating ns row then get w (ravel (map S ns) row) else 0) rows.
Proof. intros Lw F. unfold wsum. destruct (sfs_get ns rows) as [L _].
  rewrite msum_rsum by (rewrite corner_mask_length, map2_length; congruence).
  rewrite map2_length, L by congruence.
  rewrite (rsum_ext _ (fun i => if nth i (corner_mask ns) false then 0 else get (sfs_of_rows ns rows) i * get w i)).
  - rewrite masked_sum_over_snps by assumption. apply lsum_ext. intros row Hin.
    rewrite Forall_forall in F. cbv zeta. rewrite corner_mask_nth by auto. destruct (segregating ns row); reflexivity.
  - intros i Hi. destruct (nth i (corner_mask ns) false); [reflexivity|]. unfold get.
    rewrite (nth_map2 _ 0 0) by lia. reflexivity. Qed.

(** ** pi *)
Lemma num_pairs_INR n : INR (num_pairs n) = INR n * (INR n - 1) / 2.
Proof. induction n; [cbn; lra|]. cbn [num_pairs]. rewrite plus_INR, IHn, S_INR. lra. Qed.

Lemma pi_weight_get n i : (i <= n)%nat ->
  get (pi_weights (F:=R) n) i = INR i / INR n * (1 - INR i / INR n).
Proof. intros Hi. unfold get, pi_weights. rewrite (nth_map_seq _ 0 (n + 1) i 0) by lia. cbn [Nat.add].
  unfold nofnat. numR. rewrite <- !INR_IZR_INZ. reflexivity. Qed.

Theorem pi_from_sfs_is_mean_pairwise_diff : forall n rows, (2 <= n)%nat -> Forall (row_ok [n]) rows ->
  stat_pi (F:=R) n (sfs_of_rows [n] rows) (corner_mask [n]) = direct_pi n rows.
Proof. intros n rows Hn F. unfold stat_pi, direct_pi.
  rewrite wsum_sfs; [|unfold pi_weights; rewrite map_length, seq_length; cbn; lia|assumption].
  change (nsum (F:=R) ?l) with (rtot l).
  assert (Hn0 : INR n <> 0) by (apply not_0_INR; lia).
  assert (Hn1 : INR n - 1 <> 0) by (pose proof (le_INR 2 n Hn) as H2; cbn in H2; lra).
  unfold nofnat, n2. numR. rewrite <- !INR_IZR_INZ.
  induction F as [|row rows Hrow F IH]; cbn [lsum map]; [unfold rtot; cbn; lra|].
  rewrite rtot_cons, <- IH. clear IH. set (T := lsum _ rows). clearbody T.
  inversion Hrow as [|? i ? q Hi Hq]; subst. inversion Hq; subst. cbn [hd].
  assert (Hr : ravel [S n] [i] = i) by (cbn; lia). rewrite Hr.
  assert (Hseg : segregating [n] [i] = negb (i =? 0)%nat && negb (i =? n)%nat).
  { unfold segregating, all_zero, all_full. cbn [forallb]. rewrite !andb_true_r. f_equal. f_equal. apply Nat.eqb_sym. }
  rewrite Hseg, pi_weight_get by assumption. rewrite <- INR_IZR_INZ.
  rewrite num_pairs_INR, mult_INR, minus_INR by assumption.
  destruct (i =? 0)%nat eqn:E0; [apply Nat.eqb_eq in E0; subst i; cbn [negb andb INR]; field; lra|].
  destruct (i =? n)%nat eqn:E1; [apply Nat.eqb_eq in E1; subst i; cbn [negb andb]; field; lra|].
  cbn [negb andb]. field. lra. Qed.

(** pairwise differences counted on the alleles themselves: i (n - i) of the C(n,2) pairs differ *)
Definition derived_count (col : list bool) : nat := length (filter (fun x => x) col).

Lemma filter_length_le' {A} (f : A -> bool) l : (length (filter f l) <= length l)%nat.
Proof. induction l; cbn; [lia|]. destruct (f a); cbn; lia. Qed.

Lemma diff_pairs_count : forall col,
  diff_pairs col = (derived_count col * (length col - derived_count col))%nat.
Proof. unfold derived_count. induction col as [|x col IH]; [reflexivity|]. cbn [diff_pairs filter length].
  assert (Hle : (length (filter (fun y => y) col) <= length col)%nat) by apply filter_length_le'.
  assert (Hsplit : forall b : bool, (length (filter (fun y => xorb b y) col)
            = if b then length col - length (filter (fun y => y) col) else length (filter (fun y => y) col))%nat).
  { intros b. clear. destruct b.
    - rewrite (filter_ext _ negb) by (intros []; reflexivity).
      induction col as [|y col IH]; [reflexivity|]. pose proof (filter_length_le' (fun y => y) col).
      destruct y; cbn [filter negb length]; rewrite IH; lia.
    - rewrite (filter_ext _ (fun y => y)) by (intros []; reflexivity). reflexivity. }
  rewrite Hsplit, IH. destruct x; cbn [length]; nia. Qed.

Theorem pi_is_pairwise_difference_count : forall n (cols : list (list bool)),
  Forall (fun col => length col = n) cols ->
  direct_pi_hap (F:=R) n cols = direct_pi (F:=R) n (map (fun col => [derived_count col]) cols).
Proof. intros n cols F. unfold direct_pi_hap, direct_pi. rewrite map_map. f_equal.
  apply map_ext_in. intros col Hin. rewrite Forall_forall in F. cbn [hd].
  rewrite diff_pairs_count, (F col Hin). reflexivity. Qed.

(** ** Watterson's theta and Tajima's D: functions of S and pi *)
Theorem thetaW_from_sfs_matches_direct : forall n rows, Forall (row_ok [n]) rows ->
  stat_thetaW (F:=R) n (sfs_of_rows [n] rows) (corner_mask [n]) = direct_thetaW n rows.
Proof. intros n rows F. unfold stat_thetaW, direct_thetaW.
  pose proof (S_from_sfs_matches_direct [n] rows F) as ES. cbn [map] in ES. rewrite ES. reflexivity. Qed.

Theorem TajimaD_from_sfs_matches_direct : forall (sqrtF : R -> R) n rows, (2 <= n)%nat -> Forall (row_ok [n]) rows ->
  stat_tajimaD sqrtF n (sfs_of_rows [n] rows) (corner_mask [n]) = direct_tajimaD sqrtF n rows.
Proof. intros sq n rows Hn F. unfold stat_tajimaD, direct_tajimaD.
  pose proof (S_from_sfs_matches_direct [n] rows F) as ES. cbn [map] in ES.
  rewrite ES, (pi_from_sfs_is_mean_pairwise_diff n rows Hn F), (thetaW_from_sfs_matches_direct n rows F). reflexivity. Qed.

(** ** Fst: ratio of the sums over loci of the Weir-Cockerham components *)
Theorem Fst_from_sfs_matches_direct : forall ns rows, Forall (row_ok ns) rows ->
  stat_Fst (F:=R) ns (sfs_of_rows ns rows) (corner_mask ns) = direct_Fst ns rows.
Proof. intros ns rows F. unfold stat_Fst, direct_Fst. cbv zeta.
  change (map (fst_a (F:=R) ns) (enum (map S ns))) with (tabulate (map S ns) (fst_a (F:=R) ns)).
  change (map (fst_d (F:=R) ns) (enum (map S ns))) with (tabulate (map S ns) (fst_d (F:=R) ns)).
  rewrite !wsum_sfs by (try apply tabulate_length; assumption). rewrite !seg_sum_lsum.
  assert (E : forall f : list nat -> R,
    lsum (fun row => if segregating ns row then get (tabulate (map S ns) f) (ravel (map S ns) row) else 0) rows
    = lsum (fun row => if segregating ns row then f row else 0) rows).
  { intros f. apply lsum_ext. intros row Hin. rewrite Forall_forall in F. destruct (segregating ns row); [|reflexivity].
    apply (arr_of_tabulate (map S ns) f 0 row). apply valid_in_enum, row_ok_valid, F, Hin. }
  rewrite !E. reflexivity. Qed.

(** ** the spectrum of a fully called count matrix is what from_data_dict builds: the projection of a SNP with
    exactly as many calls as the projection size is the unit vector (H n n j i = [i = j]) *)
Lemma cached_projection_full n j : (j <= n)%nat -> cached_projection (F:=R) n n j = unit_vec (F:=R) (S n) j.
Proof. intros Hj. apply (nth_ext _ _ 0 0).
  - rewrite cached_projection_length, unit_vec_length. lia.
  - intros i Hi. rewrite cached_projection_length in Hi.
    change (nth i ?l 0) with (get l i). rewrite cached_projection_get by lia. rewrite Nat.leb_refl.
    rewrite get_unit_vec by lia. apply H_identity. assumption. Qed.
