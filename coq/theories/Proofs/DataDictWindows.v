(** C13, fragment_data_dict: the window arithmetic of the chunking loop.

    The loop of one chromosome starts with end = chunk_size, chunk 0, and for every position p (ascending)
    runs  while p > end: end += chunk_size; chunk_index += 1.  Hence position p lands in chunk number
        win cs p = (p - 1) / cs        (natural-number subtraction: position 0 lands in chunk 0)
    i.e. chunk j holds exactly the positions of the half-open window  j*cs < p <= (j+1)*cs  (chunk 0 also position 0);
    the windows are disjoint contiguous intervals covering all positions; the chunks of a chromosome are its windows
    0, 1, ..., win cs (largest position), empty ones included, in this order. *)
From Coq Require Import String Ascii ZArith NArith Reals List Lia Bool Arith Permutation Sorted.
From Dadi Require Import Base.Num Base.NumR Model.Projection Model.Fold Model.DataDict
  Proofs.DataDictSpec Proofs.DataDictSub Proofs.DataDictChunks Proofs.DataDictFrag.
Import ListNotations.

(** ** windows *)
Definition win (cs p : N) : N := ((p - 1) / cs)%N.

Lemma win_spec cs p j : (0 < cs)%N ->
  win cs p = j <-> ((j * cs < p /\ p <= (j + 1) * cs) \/ (p = 0 /\ j = 0))%N.
Proof. intros Hcs. unfold win. assert (Hne : cs <> 0%N) by lia.
  pose proof (N.mul_div_le (p - 1) cs Hne) as L. pose proof (N.mul_succ_div_gt (p - 1) cs Hne) as U.
  split.
  - intros <-. destruct (N.eq_dec p 0) as [->|Hp]; [right; split; [reflexivity|]; apply N.div_0_l; assumption|]. left. nia.
  - intros [[H1 H2]|[-> ->]]; [|apply N.div_0_l; assumption].
    apply N.le_antisymm.
    + apply N.lt_succ_r. apply N.div_lt_upper_bound; [assumption|]. nia.
    + apply N.div_le_lower_bound; [assumption|]. nia. Qed.

(** the windows are disjoint and cover: every position has exactly one window number; they are contiguous intervals *)
Lemma win_interval cs p : (0 < cs)%N -> (0 < p)%N -> (win cs p * cs < p /\ p <= (win cs p + 1) * cs)%N.
Proof. intros Hcs Hp. destruct (proj1 (win_spec cs p (win cs p) Hcs) eq_refl) as [H|[H _]]; [exact H|lia]. Qed.
Lemma win_unique cs p j : (0 < cs)%N -> (j * cs < p /\ p <= (j + 1) * cs)%N -> win cs p = j.
Proof. intros Hcs H. apply win_spec; [assumption|]. left. exact H. Qed.
Lemma win_mono cs p p' : (0 < cs)%N -> (p <= p')%N -> (win cs p <= win cs p')%N.
Proof. intros Hcs Hle. unfold win. apply N.div_le_mono; lia. Qed.

(** the closed form of the while loop: k = ceil((p - end) / cs) new chunks *)
Lemma new_chunk_index cs m p : (0 < cs)%N -> ((m + 1) * cs < p)%N ->
  let k := ((p - (m + 1) * cs + cs - 1) / cs)%N in (1 <= k)%N /\ win cs p = (m + k)%N.
Proof. intros Hcs Hp k. assert (Hne : cs <> 0%N) by lia.
  pose proof (N.mul_div_le (p - (m + 1) * cs + cs - 1) cs Hne) as L.
  pose proof (N.mul_succ_div_gt (p - (m + 1) * cs + cs - 1) cs Hne) as U. fold k in L, U.
  assert (K1 : (1 <= k)%N) by (unfold k; apply N.div_le_lower_bound; [assumption|]; lia).
  split; [exact K1|]. apply win_unique; [assumption|]. nia. Qed.

(** ** sorted(...) sorts by position *)
Definition sortedP (l : list (N * option string)) : Prop := StronglySorted (fun x y => (fst x <= fst y)%N) l.

Lemma pos_le_CLt y x : pos_le y x = CLt -> (fst y <= fst x)%N.
Proof. unfold pos_le. destruct (N.ltb_spec (fst y) (fst x)); [lia|]. destruct (N.ltb_spec (fst x) (fst y)); [discriminate|]. lia. Qed.
Lemma pos_le_CGt y x : pos_le y x = CGt -> (fst x <= fst y)%N.
Proof. unfold pos_le. destruct (N.ltb_spec (fst y) (fst x)); [discriminate|]. lia. Qed.

Lemma insert_sorted_sorted x : forall l l', sortedP l -> insert_sorted x l = Some l' -> sortedP l'.
Proof. induction l as [|y l IH]; intros l' Hs E; cbn [insert_sorted] in E.
  - inversion E; subst. constructor; constructor.
  - inversion Hs as [|? ? Hs' Hf]; subst. destruct (pos_le y x) eqn:Ep; [| |discriminate].
    + destruct (insert_sorted x l) as [l1|] eqn:Ei; [|discriminate]. inversion E; subst.
      constructor; [apply IH; [assumption|reflexivity]|].
      pose proof (insert_sorted_perm x l l1 Ei) as P. rewrite Forall_forall in *. intros z Hz.
      apply (Permutation_in z (Permutation_sym P)) in Hz. destruct Hz as [<-|Hz]; [apply pos_le_CLt, Ep|apply Hf, Hz].
    + inversion E; subst. constructor; [exact Hs|]. pose proof (pos_le_CGt _ _ Ep) as Hxy.
      constructor; [exact Hxy|]. rewrite Forall_forall in *. intros z Hz. specialize (Hf z Hz). lia. Qed.

Lemma sort_positions_sorted : forall l acc l', sortedP acc -> sort_positions l acc = Some l' -> sortedP l'.
Proof. induction l as [|x l IH]; intros acc l' Hs E; cbn [sort_positions] in E.
  - inversion E; subst. exact Hs.
  - destruct (insert_sorted x acc) as [acc'|] eqn:Ei; [|discriminate].
    apply (IH acc' l'); [|exact E]. apply (insert_sorted_sorted x acc acc'); assumption. Qed.

(** ** the chunking loop: chunk j is tagged with window j *)
Definition tagged (cs : N) (off : nat) (l : list (list (N * option string))) : Prop :=
  forall j x, In x (nth j l []) -> win cs (fst x) = N.of_nat (off + j).

Lemma tagged_app cs off a b : tagged cs off a -> tagged cs (off + length a) b -> tagged cs off (a ++ b).
Proof. intros Ha Hb j x Hx. destruct (lt_dec j (length a)) as [Hj|Hj].
  - rewrite app_nth1 in Hx by assumption. apply Ha, Hx.
  - rewrite app_nth2 in Hx by lia. rewrite (Hb _ _ Hx). f_equal. lia. Qed.
Lemma nth_repeat_nil {A} n j : nth j (repeat (@nil A) n) [] = [].
Proof. revert j. induction n; intros [|j]; cbn; auto. Qed.
Lemma tagged_repeat_nil cs off n : tagged cs off (repeat [] n).
Proof. intros j x Hx. rewrite nth_repeat_nil in Hx. destruct Hx. Qed.
Lemma tagged_single cs off c : (forall x, In x c -> win cs (fst x) = N.of_nat off) -> tagged cs off [c].
Proof. intros Hc [|[|j]] x Hx; cbn in Hx; try destruct Hx. rewrite Nat.add_0_r. apply Hc, Hx. Qed.

Lemma last_cons {A} (x d : A) l : last (x :: l) d = last l x.
Proof. revert x d. induction l as [|y l IH]; intros x d; [reflexivity|].
  change (last (x :: y :: l) d) with (last (y :: l) d). rewrite (IH y d), (IH y x). reflexivity. Qed.

Section Loop.
  Variable cs : N.
  Hypothesis Hcs : (0 < cs)%N.

  (** one step of the loop, arithmetic: the state after seeing x *)
  Lemma step_new m (e p : N) : e = ((N.of_nat m + 1) * cs)%N -> (e < p)%N ->
    let k := ((p - e + cs - 1) / cs)%N in
    (1 <= k)%N /\ win cs p = N.of_nat (m + 1 + (N.to_nat k - 1)) /\
    (e + k * cs = (N.of_nat (m + 1 + (N.to_nat k - 1)) + 1) * cs)%N.
  Proof. intros -> Hp k. destruct (new_chunk_index cs (N.of_nat m) p Hcs Hp) as [K1 W]. fold k in K1, W.
    split; [exact K1|]. assert (E : N.of_nat (m + 1 + (N.to_nat k - 1)) = (N.of_nat m + k)%N) by lia.
    rewrite E. split; [exact W|]. lia. Qed.

  Lemma step_same m (e p : N) : e = ((N.of_nat m + 1) * cs)%N -> (p <= e)%N -> (N.of_nat m <= win cs p)%N ->
    win cs p = N.of_nat m.
  Proof. intros -> Hp Hm. apply N.le_antisymm; [|exact Hm]. destruct (N.eq_dec p 0) as [->|Hp0].
    - unfold win. change (0 - 1)%N with 0%N. rewrite N.div_0_l by lia. lia.
    - unfold win. apply N.lt_succ_r. apply N.div_lt_upper_bound; [lia|]. lia. Qed.

  Lemma chunk_loop_tagged : forall ps done cur e,
    e = ((N.of_nat (length done) + 1) * cs)%N -> sortedP ps ->
    (forall x, In x ps -> (N.of_nat (length done) <= win cs (fst x))%N) ->
    tagged cs 0 done -> (forall x, In x cur -> win cs (fst x) = N.of_nat (length done)) ->
    tagged cs 0 (chunk_loop cs ps done cur e).
  Proof. induction ps as [|x r IH]; intros done cur e He Hs Hge Td Tc; cbn [chunk_loop].
    - apply tagged_app; [exact Td|]. apply tagged_single. exact Tc.
    - inversion Hs as [|? ? Hs' Hf]. rewrite Forall_forall in Hf.
      destruct (N.ltb_spec e (fst x)) as [Hlt|Hle].
      + destruct (step_new (length done) e (fst x) He Hlt) as (K1 & W & E').
        set (k := ((fst x - e + cs - 1) / cs)%N) in *. clearbody k.
        match goal with |- context [chunk_loop cs r ?D [x] _] => set (done' := D) end.
        assert (Ld : length done' = (length done + 1 + (N.to_nat k - 1))%nat)
          by (unfold done'; rewrite !app_length, repeat_length; cbn [length]; lia).
        apply IH.
        * rewrite Ld. exact E'.
        * exact Hs'.
        * intros y Hy. rewrite Ld, <- W. apply win_mono; [exact Hcs|]. apply Hf, Hy.
        * unfold done'. apply tagged_app; [exact Td|]. apply tagged_app; [apply tagged_single; exact Tc|apply tagged_repeat_nil].
        * intros y [<-|[]]. rewrite Ld. exact W.
      + apply IH; [exact He|exact Hs'|intros y Hy; apply Hge; right; exact Hy|exact Td|].
        intros y Hy. apply in_app_or in Hy as [Hy|[<-|[]]]; [apply Tc, Hy|].
        apply (step_same (length done) e); [exact He|exact Hle|]. apply Hge. left. reflexivity. Qed.

  Lemma chunk_loop_length : forall ps done cur e d,
    e = ((N.of_nat (length done) + 1) * cs)%N -> sortedP ps ->
    (forall x, In x ps -> (N.of_nat (length done) <= win cs (fst x))%N) ->
    win cs (fst d) = N.of_nat (length done) ->
    length (chunk_loop cs ps done cur e) = S (N.to_nat (win cs (fst (last ps d)))).
  Proof. induction ps as [|x r IH]; intros done cur e d He Hs Hge Hd; cbn [chunk_loop].
    - cbn [last]. rewrite Hd, app_length. cbn [length]. lia.
    - rewrite last_cons. inversion Hs as [|? ? Hs' Hf]. rewrite Forall_forall in Hf.
      destruct (N.ltb_spec e (fst x)) as [Hlt|Hle].
      + destruct (step_new (length done) e (fst x) He Hlt) as (K1 & W & E').
        set (k := ((fst x - e + cs - 1) / cs)%N) in *. clearbody k.
        match goal with |- context [chunk_loop cs r ?D [x] _] => set (done' := D) end.
        assert (Ld : length done' = (length done + 1 + (N.to_nat k - 1))%nat)
          by (unfold done'; rewrite !app_length, repeat_length; cbn [length]; lia).
        apply IH.
        * rewrite Ld. exact E'.
        * exact Hs'.
        * intros y Hy. rewrite Ld, <- W. apply win_mono; [exact Hcs|]. apply Hf, Hy.
        * rewrite Ld. exact W.
      + apply IH; [exact He|exact Hs'|intros y Hy; apply Hge; right; exact Hy|].
        apply (step_same (length done) e); [exact He|exact Hle|]. apply Hge. left. reflexivity. Qed.
End Loop.

(** a chunk is the sub-list of the positions whose window number is the chunk's index *)
Lemma filter_none {A} (f : A -> bool) l : (forall x, In x l -> f x = false) -> filter f l = [].
Proof. induction l as [|x l IH]; intros Hf; [reflexivity|]. cbn [filter]. rewrite (Hf x (or_introl eq_refl)). apply IH.
  intros y Hy. apply Hf. right. exact Hy. Qed.
Lemma filter_all {A} (f : A -> bool) l : (forall x, In x l -> f x = true) -> filter f l = l.
Proof. induction l as [|x l IH]; intros Hf; [reflexivity|]. cbn [filter]. rewrite (Hf x (or_introl eq_refl)). f_equal. apply IH.
  intros y Hy. apply Hf. right. exact Hy. Qed.

Lemma tagged_tail cs off c l : tagged cs off (c :: l) -> tagged cs (S off) l.
Proof. intros T j x Hx. rewrite (T (S j) x Hx). f_equal. lia. Qed.

Lemma filter_concat_out cs : forall l off t, tagged cs off l -> (t < N.of_nat off)%N ->
  filter (fun x => (win cs (fst x) =? t)%N) (concat l) = [].
Proof. induction l as [|c l IH]; intros off t T Ht; [reflexivity|]. cbn [concat]. rewrite filter_app.
  rewrite (IH (S off) t (tagged_tail _ _ _ _ T)) by lia. rewrite app_nil_r. apply filter_none.
  intros x Hx. apply N.eqb_neq. rewrite (T 0%nat x Hx). lia. Qed.

Lemma filter_concat_tagged cs : forall l off j, tagged cs off l -> (j < length l)%nat ->
  filter (fun x => (win cs (fst x) =? N.of_nat (off + j))%N) (concat l) = nth j l [].
Proof. induction l as [|c l IH]; intros off j T Hj; [cbn in Hj; lia|]. cbn [concat]. rewrite filter_app. destruct j as [|j].
  - rewrite (filter_concat_out cs l (S off) _ (tagged_tail _ _ _ _ T)) by lia. rewrite app_nil_r. cbn [nth].
    apply filter_all. intros x Hx. apply N.eqb_eq. apply (T 0%nat x Hx).
  - cbn [nth]. replace (off + S j)%nat with (S off + j)%nat by lia.
    rewrite (IH (S off) j (tagged_tail _ _ _ _ T)) by (cbn in Hj; lia).
    rewrite filter_none; [reflexivity|]. intros x Hx. apply N.eqb_neq. rewrite (T 0%nat x Hx). lia. Qed.

(** the chunks of one chromosome: number and contents, for every chunk size and every sorted list of positions *)
Theorem chunk_windows : forall cs (srt : list (N * option string)), (0 < cs)%N -> sortedP srt ->
  let chunks := chunk_loop cs srt [] [] cs in
  length chunks = S (N.to_nat (win cs (fst (last srt (0%N, None))))) /\
  concat chunks = srt /\
  forall j, (j < length chunks)%nat -> nth j chunks [] = filter (fun x => (win cs (fst x) =? N.of_nat j)%N) srt.
Proof. intros cs srt Hcs Hs chunks.
  assert (He : cs = ((N.of_nat (@length (list (N * option string)) []) + 1) * cs)%N) by (cbn [length]; lia).
  assert (Hge : forall x, In x srt -> (N.of_nat (@length (list (N * option string)) []) <= win cs (fst x))%N) by (intros; cbn [length]; lia).
  assert (T : tagged cs 0 chunks).
  { apply (chunk_loop_tagged cs Hcs srt [] [] cs He Hs Hge); [intros [|j] x []|intros x []]. }
  assert (C : concat chunks = srt) by (unfold chunks; rewrite chunk_loop_concat; reflexivity).
  split; [|split; [exact C|]].
  - apply (chunk_loop_length cs Hcs srt [] [] cs (0%N, None) He Hs Hge). unfold win. cbn [fst length]. change (0 - 1)%N with 0%N. rewrite N.div_0_l by lia. reflexivity.
  - intros j Hj. rewrite <- (filter_concat_tagged cs chunks 0 j T Hj). rewrite C. reflexivity. Qed.

(** ** fragment_data_dict: one chunk per chromosome and window *)
(** (chromosome with its sorted positions, window number) of every chunk, in the order of the result *)
Definition chunk_tags (cs : N) (chroms : list (string * list (N * option string)))
  : list ((string * list (N * option string)) * N) :=
  flat_map (fun c => map (fun j => (c, N.of_nat j)) (seq 0 (S (N.to_nat (win cs (fst (last (snd c) (0%N, None)))))))) chroms.

Lemma list_as_nth_map {A} (d : A) (l : list A) : l = map (fun j => nth j l d) (seq 0 (length l)).
Proof. induction l as [|a l IH]; [reflexivity|]. cbn [length seq map nth]. f_equal.
  rewrite <- seq_shift, map_map. exact IH. Qed.

Lemma chunks_as_windows cs srt : (0 < cs)%N -> sortedP srt ->
  chunk_loop cs srt [] [] cs
  = map (fun j => filter (fun x => (win cs (fst x) =? N.of_nat j)%N) srt) (seq 0 (S (N.to_nat (win cs (fst (last srt (0%N, None))))))).
Proof. intros Hcs Hs. destruct (chunk_windows cs srt Hcs Hs) as (L & _ & G). cbv zeta in *.
  rewrite (list_as_nth_map [] (chunk_loop cs srt [] [] cs)) at 1. rewrite L. apply map_ext_in. intros j Hj.
  apply in_seq in Hj. apply G. rewrite L. lia. Qed.

Lemma dappend_keys_nodup {V} k (v : V) d : NoDup (map fst d) -> NoDup (map fst (dappend k v d)).
Proof. intros Hn. unfold dappend. destruct (dget k d); apply dset_nodup; exact Hn. Qed.

Lemma split_by_chrom_nodup : forall keys ndd ndd', split_by_chrom keys ndd = Some ndd' -> NoDup (map fst ndd) -> NoDup (map fst ndd').
Proof. induction keys as [|k keys IH]; intros ndd ndd' E Hn; cbn [split_by_chrom] in E.
  - inversion E; subst. exact Hn.
  - destruct (parse_key k) as [[[chr p] a]|]; [|discriminate]. apply (IH _ _ E). apply dappend_keys_nodup, Hn. Qed.

Lemma in_flatten chr pa (ndd : dict (list (N * option string))) :
  In (chr, pa) (flatten ndd) <-> exists e, In e ndd /\ fst e = chr /\ In pa (snd e).
Proof. unfold flatten. rewrite in_flat_map. split.
  - intros (e & He & Hin). apply in_map_iff in Hin as (pa' & Epa & Hpa). inversion Epa; subst. exists e. auto.
  - intros (e & He & <- & Hpa). exists e. split; [exact He|]. apply in_map. exact Hpa. Qed.

Lemma forall2_in_r {A B} (R : A -> B -> Prop) l l' y : Forall2 R l l' -> In y l' -> exists x, In x l /\ R x y.
Proof. induction 1 as [|x y' l l' Hr F IH]; intros Hy; [destruct Hy|]. destruct Hy as [<-|Hy].
  - exists x. split; [left; reflexivity|exact Hr].
  - destruct (IH Hy) as (x' & Hx' & Hr'). exists x'. split; [right; exact Hx'|exact Hr']. Qed.
Lemma forall2_in_l {A B} (R : A -> B -> Prop) l l' x : Forall2 R l l' -> In x l -> exists y, In y l' /\ R x y.
Proof. induction 1 as [|x' y l l' Hr F IH]; intros Hx; [destruct Hx|]. destruct Hx as [<-|Hx].
  - exists y. split; [left; reflexivity|exact Hr].
  - destruct (IH Hx) as (y' & Hy' & Hr'). exists y'. split; [right; exact Hy'|exact Hr']. Qed.

Lemma nodup_fst_unique {A B} (l : list (A * B)) e e' : NoDup (map fst l) -> In e l -> In e' l -> fst e = fst e' -> e = e'.
Proof. induction l as [|x l IH]; intros Hn He He' Ef; [destruct He|]. cbn [map] in Hn. inversion Hn as [|? ? Hx Hn']; subst.
  destruct He as [<-|He]; destruct He' as [<-|He']; auto.
  - exfalso. apply Hx. rewrite Ef. apply in_map. exact He'.
  - exfalso. apply Hx. rewrite <- Ef. apply in_map. exact He. Qed.

(** what chunk_dict puts into a chunk *)
Lemma in_dset {V} k (v : V) k' v' : forall d, In (k', v') (dset k v d) -> (k', v') = (k, v) \/ In (k', v') d.
Proof. induction d as [|[k0 v0] d IH]; cbn [dset]; intros Hin.
  - destruct Hin as [E|[]]. left. symmetry. exact E.
  - destruct (String.eqb k0 k).
    + destruct Hin as [E|Hin]; [left; symmetry; exact E|right; right; exact Hin].
    + destruct Hin as [E|Hin]; [right; left; exact E|]. destruct (IH Hin) as [E|Hd]; [left; exact E|right; right; exact Hd]. Qed.

Lemma chunk_dict_entries dd chr : forall pl acc r, chunk_dict dd chr pl acc = Some r ->
  forall k s, In (k, s) r ->
    In (k, s) acc \/ exists p a, In (p, a) pl /\ k = format_key chr p a /\ dget k dd = Some s.
Proof. induction pl as [|[p a] pl IH]; intros acc r E k s Hin; cbn [chunk_dict] in E.
  - inversion E; subst. left. exact Hin.
  - destruct (dget (format_key chr p a) dd) as [s0|] eqn:Eg; [|discriminate].
    destruct (IH _ _ E k s Hin) as [Hacc|(p' & a' & Hp & Ek & Ed)].
    + apply in_dset in Hacc as [Eq|Hacc]; [|left; exact Hacc]. inversion Eq; subst. right. exists p, a.
      split; [left; reflexivity|]. split; [reflexivity|exact Eg].
    + right. exists p', a'. split; [right; exact Hp|]. split; assumption. Qed.

Theorem chunk_window_characterisation : forall (dd : dict snp) cs frags,
  fragment_data_dict dd cs = Some frags ->
  (0 < cs)%N /\
  exists chroms : list (string * list (N * option string)),
    NoDup (map fst chroms) /\
    (forall key chr p a, In key (map fst dd) -> parse_key key = Some (chr, p, a) -> In chr (map fst chroms)) /\
    Forall (fun c => sortedP (snd c) /\
                     forall p a, In (p, a) (snd c) <-> exists key, In key (map fst dd) /\ parse_key key = Some (fst c, p, a)) chroms /\
    Forall2 (fun tag frag =>
               chunk_dict dd (fst (fst tag)) (filter (fun x => (win cs (fst x) =? snd tag)%N) (snd (fst tag))) [] = Some frag)
            (chunk_tags cs chroms) frags /\
    Forall2 (fun tag frag => forall k s, In (k, s) frag ->
               exists p a, In (p, a) (snd (fst tag)) /\ k = format_key (fst (fst tag)) p a /\
                           win cs p = snd tag /\ dget k dd = Some s)
            (chunk_tags cs chroms) frags.
Proof. intros dd cs frags E. unfold fragment_data_dict in E.
  destruct (N.eqb_spec cs 0) as [|Hcs0]; [discriminate|]. assert (Hcs : (0 < cs)%N) by lia. split; [exact Hcs|].
  destruct (split_by_chrom (map fst dd) []) as [ndd|] eqn:Es; [|discriminate].
  destruct (all_some (map _ ndd)) as [cdict|] eqn:Ec; [|discriminate].
  apply all_some_forall2 in Ec. apply forall2_map_l in Ec.
  pose proof (split_by_chrom_nodup _ _ _ Es (NoDup_nil _)) as Hnd.
  destruct (split_by_chrom_flatten _ _ _ Es) as [ts [Fp Pt]]. cbn [flatten flat_map] in Pt. rewrite app_nil_r in Pt.
  (* the sorted positions of every chromosome *)
  assert (Hsrt : exists chroms : list (string * list (N * option string)),
            map fst chroms = map fst ndd /\
            Forall2 (fun e c => fst c = fst e /\ sort_positions (snd e) [] = Some (snd c)) ndd chroms /\
            cdict = map (fun c => (fst c, chunk_loop cs (snd c) [] [] cs)) chroms).
  { clear - Ec. induction Ec as [|e e' ndd cdict He F IH].
    - exists []. repeat split; constructor.
    - destruct IH as (chroms & E1 & F2 & E3). destruct (sort_positions (snd e) []) as [srt|] eqn:Eso; [|discriminate].
      cbn [option_map] in He. inversion He; subst e'. exists ((fst e, srt) :: chroms). cbn [map fst snd]. split; [f_equal; exact E1|].
      split; [constructor; [split; [reflexivity|exact Eso]|exact F2]|]. f_equal. exact E3. }
  destruct Hsrt as (chroms & Ek & Fc & Ecd). exists chroms.
  assert (Hch : Forall (fun c => sortedP (snd c) /\
                     forall p a, In (p, a) (snd c) <-> exists key, In key (map fst dd) /\ parse_key key = Some (fst c, p, a)) chroms).
  { rewrite Forall_forall. intros c Hc. destruct (forall2_in_r _ _ _ c Fc Hc) as (e & He & Efst & Eso).
    split; [apply (sort_positions_sorted (snd e) [] (snd c)); [constructor|exact Eso]|].
    pose proof (sort_positions_perm _ _ _ Eso) as P. rewrite app_nil_r in P.
    intros p a. split.
    - intros Hin. apply (Permutation_in _ (Permutation_sym P)) in Hin.
      assert (Hfl : In (fst c, (p, a)) (flatten ndd)) by (apply in_flatten; exists e; auto).
      apply (Permutation_in _ Pt) in Hfl. destruct (forall2_in_r _ _ _ _ Fp Hfl) as (key & Hkey & Hpar).
      exists key. split; [exact Hkey|exact Hpar].
    - intros (key & Hkey & Hpar). destruct (forall2_in_l _ _ _ key Fp Hkey) as ([chr' [p' a']] & Ht & Hpar').
      unfold parses in Hpar'. cbn [fst snd] in Hpar'. rewrite Hpar in Hpar'. inversion Hpar'; subst chr' p' a'.
      apply (Permutation_in _ (Permutation_sym Pt)) in Ht. apply in_flatten in Ht as (e' & He' & Ef' & Hpa).
      assert (e' = e) by (apply (nodup_fst_unique ndd); auto; congruence). subst e'.
      apply (Permutation_in _ P). exact Hpa. }
  assert (Hmain : Forall2 (fun tag frag =>
               chunk_dict dd (fst (fst tag)) (filter (fun x => (win cs (fst x) =? snd tag)%N) (snd (fst tag))) [] = Some frag)
            (chunk_tags cs chroms) frags).
  { apply all_some_forall2 in E. subst cdict. clear - E Hch Hcs. revert frags E.
    induction chroms as [|c chroms IH]; intros frags E; cbn [map flat_map chunk_tags] in *.
    - inversion E; subst. constructor.
    - inversion Hch as [|? ? [Hs _] Hch']; subst. cbn [fst snd] in E.
      apply Forall2_app_inv_l in E as (f1 & f2 & F1 & F2 & ->). apply Forall2_app; [|apply IH; assumption].
      rewrite (chunks_as_windows cs (snd c) Hcs Hs) in F1. rewrite map_map in F1.
      clear - F1. revert f1 F1. induction (seq 0 (S (N.to_nat (win cs (fst (last (snd c) (0%N, None))))))) as [|j l IHl]; intros f1 F1;
        cbn [map] in *; inversion F1; subst; constructor; auto. }
  split; [rewrite Ek; exact Hnd|]. split.
  { intros key chr p a Hkey Hpar. destruct (forall2_in_l _ _ _ key Fp Hkey) as ([chr' [p' a']] & Ht & Hpar').
    unfold parses in Hpar'. cbn [fst snd] in Hpar'. rewrite Hpar in Hpar'. inversion Hpar'; subst chr' p' a'.
    apply (Permutation_in _ (Permutation_sym Pt)) in Ht. apply in_flatten in Ht as (e & He & Ef & _).
    rewrite Ek, <- Ef. apply in_map. exact He. }
  split; [exact Hch|]. split; [exact Hmain|].
  clear - Hmain. induction Hmain as [|tag frag tags frags Hc F IH]; constructor; [|exact IH].
  intros k s Hin. destruct (chunk_dict_entries dd _ _ _ _ Hc k s Hin) as [[]|(p & a & Hp & Ek & Ed)].
  apply filter_In in Hp as [Hp Hw]. apply N.eqb_eq in Hw. cbn [fst] in Hw. exists p, a. auto. Qed.

(** ** conversely: every SNP lands in the chunk of its chromosome and of the window of its position *)
Lemma sorted_last_max : forall (l : list (N * option string)) d x, sortedP l -> In x l -> (fst x <= fst (last l d))%N.
Proof. induction l as [|y l IH]; intros d x Hs Hx; [destruct Hx|]. rewrite last_cons.
  inversion Hs as [|? ? Hs' Hf]. rewrite Forall_forall in Hf. destruct l as [|z l].
  - destruct Hx as [<-|[]]. cbn. lia.
  - destruct Hx as [<-|Hx].
    + assert (Hz : (fst y <= fst (last (z :: l) y))%N) by (apply Hf; rewrite last_cons; clear; revert z; induction l as [|w l IHl]; intros z;
        [left; reflexivity|rewrite last_cons; destruct (IHl w) as [E|E]; [right; left; exact E|right; right; exact E]]).
      exact Hz.
    + apply (IH y x Hs' Hx). Qed.

Lemma chunk_dict_dget dd chr : forall pl acc r, chunk_dict dd chr pl acc = Some r ->
  forall key, dget key r = if existsb (fun pa => String.eqb (format_key chr (fst pa) (snd pa)) key) pl then dget key dd else dget key acc.
Proof. induction pl as [|[p a] pl IH]; intros acc r E key; cbn [chunk_dict] in E.
  - inversion E; subst. reflexivity.
  - destruct (dget (format_key chr p a) dd) as [s0|] eqn:Eg; [|discriminate]. rewrite (IH _ _ E key). cbn [existsb fst snd].
    destruct (existsb _ pl); [rewrite orb_true_r; reflexivity|]. rewrite orb_false_r.
    destruct (String.eqb_spec (format_key chr p a) key) as [<-|Hne].
    + rewrite dget_dset_same. symmetry. exact Eg.
    + apply dget_dset_other. congruence. Qed.

Lemma forall2_nth_error {A B} (R : A -> B -> Prop) : forall l l' i x, Forall2 R l l' -> nth_error l i = Some x ->
  exists y, nth_error l' i = Some y /\ R x y.
Proof. induction l as [|a l IH]; intros l' i x F E; [destruct i; discriminate|]. inversion F as [|? b ? l'' Hr F']; subst.
  destruct i as [|i]; cbn [nth_error] in *.
  - inversion E; subst. exists b. split; [reflexivity|exact Hr].
  - apply (IH l'' i x F' E). Qed.

Theorem snp_lands_in_its_window : forall (dd : dict snp) cs frags,
  NoDup (map fst dd) -> Forall canonical_key (map fst dd) ->
  fragment_data_dict dd cs = Some frags ->
  exists chroms : list (string * list (N * option string)),
    NoDup (map fst chroms) /\ length (chunk_tags cs chroms) = length frags /\
    forall k s chr p a, In (k, s) dd -> parse_key k = Some (chr, p, a) ->
      exists c i frag, In c chroms /\ fst c = chr /\ In (p, a) (snd c) /\
        nth_error (chunk_tags cs chroms) i = Some (c, win cs p) /\
        nth_error frags i = Some frag /\ In (k, s) frag.
Proof. intros dd cs frags Hn Hcan E.
  destruct (chunk_window_characterisation dd cs frags E) as (Hcs & chroms & Hnd & Hall & Hch & Hmain & _).
  exists chroms. split; [exact Hnd|]. split; [clear - Hmain; induction Hmain; cbn [length]; congruence|].
  intros k s chr p a Hin Hpar.
  assert (Hkey : In k (map fst dd)) by (apply (in_map fst) in Hin; exact Hin).
  pose proof (Hall k chr p a Hkey Hpar) as Hchr. apply in_map_iff in Hchr as (c & Ef & Hc).
  rewrite Forall_forall in Hch. destruct (Hch c Hc) as [Hs Hiff].
  assert (Hpa : In (p, a) (snd c)) by (apply Hiff; exists k; split; [exact Hkey|rewrite Ef; exact Hpar]).
  (* the tag (c, win cs p) exists *)
  pose proof (sorted_last_max (snd c) (0%N, None) (p, a) Hs Hpa) as Hle. cbn [fst] in Hle.
  pose proof (win_mono cs _ _ Hcs Hle) as Hw.
  assert (Htag : In (c, win cs p) (chunk_tags cs chroms)).
  { unfold chunk_tags. apply in_flat_map. exists c. split; [exact Hc|]. apply in_map_iff. exists (N.to_nat (win cs p)).
    split; [rewrite N2Nat.id; reflexivity|]. apply in_seq. lia. }
  apply In_nth_error in Htag as [i Hi].
  destruct (forall2_nth_error _ _ _ i _ Hmain Hi) as (frag & Hfrag & Hcd). cbn [fst snd] in Hcd.
  exists c, i, frag. repeat (split; [assumption|]).
  (* the entry is in the chunk *)
  assert (Ek : format_key chr p a = k).
  { rewrite Forall_forall in Hcan. apply (Hcan k Hkey). exact Hpar. }
  pose proof (chunk_dict_dget dd _ _ _ _ Hcd k) as Hd. rewrite Ef in Hd.
  assert (Hex : existsb (fun pa => String.eqb (format_key chr (fst pa) (snd pa)) k)
                        (filter (fun x => (win cs (fst x) =? win cs p)%N) (snd c)) = true).
  { apply existsb_exists. exists (p, a). split; [apply filter_In; split; [exact Hpa|apply N.eqb_refl]|]. cbn [fst snd]. rewrite Ek. apply String.eqb_refl. }
  rewrite Hex in Hd. rewrite (in_nodup_dget k s dd Hn Hin) in Hd. apply dget_in. exact Hd. Qed.
