(** C10: marginalize commutes with fold (the identity the harness evaluates:  marginalize(fs.fold()) vs
    marginalize(fs).fold()  for a spectrum fs with nothing masked except possibly its two corners).

    marginalize on a folded spectrum works on unfold(fold fs), whose data are the symmetrisation (x + mirror x)/2 and whose
    mask is exactly the two corners.  Away from the corners of the result the marginal of the symmetrisation is the
    symmetrisation of the marginal (the mirror maps the fibre of J onto the fibre of mirror J), and fold forgets the
    symmetrisation.  At the two corners of the result both sides are masked (their data differ: the left side has lost
    the corner entries of fs).  Hence: same shape, labels, folded flag and MASK, and the same data wherever unmasked. *)
From Coq Require Import String.
From Coq Require Import ZArith Reals List Bool Arith Lia Lra Permutation Sorted.
From Dadi Require Import Base.Num Base.NumR.
From Dadi Require Import Model.PopOps Proofs.PopOpsBig Proofs.PopOpsIdx Proofs.PopOpsPF Proofs.PopOpsProofs
  Proofs.PopOpsCommute Proofs.PopOpsFoldCommute Proofs.PopOpsProjCommute.
Import ListNotations.
Local Open Scope R_scope.

(** ** the mirror on in-range multi-indices *)
Lemma rev_idx_inr S I : inr S I -> inr S (rev_idx S I).
Proof. unfold inr. induction 1; [constructor|]. unfold rev_idx. cbn. constructor; [lia|assumption]. Qed.
Lemma rev_idx_invol S I : inr S I -> rev_idx S (rev_idx S I) = I.
Proof. unfold inr. induction 1; [reflexivity|]. unfold rev_idx in *. cbn. rewrite IHForall2. f_equal. lia. Qed.
Lemma isum_rev_idx S I : inr S I -> (isum I + isum (rev_idx S I) = nsamp S)%nat.
Proof. unfold inr. induction 1; [reflexivity|]. unfold rev_idx, isum, nsamp in *. cbn. lia. Qed.

Lemma fo_true S I : (nsamp S < 2 * isum I)%nat -> folded_out S I = true.
Proof. intros Hlt. unfold folded_out. apply Nat.ltb_lt. apply Nat.div_lt_upper_bound; lia. Qed.
Lemma fo_false S I : (2 * isum I <= nsamp S)%nat -> folded_out S I = false.
Proof. intros Hle. unfold folded_out. apply Nat.ltb_ge. apply Nat.div_le_lower_bound; lia. Qed.
Lemma amb_true S I : (2 * isum I = nsamp S)%nat -> ambiguous S I = true.
Proof. intros. unfold ambiguous. apply Nat.eqb_eq. assumption. Qed.
Lemma amb_false S I : (2 * isum I <> nsamp S)%nat -> ambiguous S I = false.
Proof. intros. unfold ambiguous. apply Nat.eqb_neq. assumption. Qed.

Lemma is_corner_rev S I : inr S I -> is_corner S (rev_idx S I) = is_corner S I.
Proof. intros HI. pose proof (inr_length _ _ HI) as LI.
  assert (LR : length (rev_idx S I) = length S) by (rewrite rev_idx_length; auto).
  assert (B : forall k, (nth k I 0 <= pred (nth k S 0))%nat).
  { intros k. destruct (lt_dec k (length S)) as [Hk|Hk].
    - pose proof (inr_nth S I k HI Hk). lia.
    - rewrite nth_overflow by lia. lia. }
  assert (N : forall k, nth k (rev_idx S I) 0%nat = (nth k S 0 - 1 - nth k I 0)%nat) by (intros; apply nth_rev_idx; auto).
  apply eq_true_iff_eq. rewrite (is_corner_nth S _ LR), (is_corner_nth S I LI). split; (intros [Hz|Hl]; [right|left]); intros k;
    [specialize (Hz k) | specialize (Hl k) | specialize (Hz k) | specialize (Hl k)]; specialize (B k); rewrite ?N in *; lia. Qed.

(** ** the mirror and the corners pass through drop_axes *)
Section Drop.
  Variables (S : list nat) (over : list nat).
  Hypothesis Hnd : NoDup over.
  Hypothesis Hall : Forall (fun k => (k < length S)%nat) over.
  Let S' := drop_axes over S.

  Lemma drop_rev_idx I : length I = length S -> drop_axes over (rev_idx S I) = rev_idx S' (drop_axes over I).
  Proof. intros LI. unfold S'. rewrite !(drop_axes_select 0%nat), rev_idx_length, LI by auto. apply select_rev_idx. auto. Qed.

  Lemma drop_inr I : inr S I -> inr S' (drop_axes over I).
  Proof. apply maps_drop_axes. Qed.

  Lemma drop_corner I : inr S I -> is_corner S I = true -> is_corner S' (drop_axes over I) = true.
  Proof. intros HI Hc. pose proof (inr_length _ _ HI) as LI. unfold is_corner in *. apply orb_true_iff in Hc as [Hz|Hl]; apply orb_true_iff; [left|right].
    - rewrite (drop_axes_select 0%nat). unfold select. rewrite forallb_forall. intros x Hx. apply in_map_iff in Hx as (k & <- & _).
      apply Nat.eqb_eq. symmetry. apply (proj1 (forallb_zero_nth I) Hz).
    - apply idx_eqb_spec in Hl. apply idx_eqb_spec. unfold S'. rewrite <- drop_axes_map, Hl. reflexivity. Qed.

  (** every entry of the marginal has a non-empty fibre *)
  Lemma fiber_nonempty_seq ks : forall S0 J, valid_seq (length S0) ks -> pos S0 ->
    inr (fold_left (fun acc k => remove_nth k acc) ks S0) J ->
    exists I, inr S0 I /\ fold_left (fun acc k => remove_nth k acc) ks I = J.
  Proof. induction ks as [|k ks IH]; intros S0 J Hv Hp HJ; cbn [fold_left] in *.
    - exists J. split; [exact HJ|reflexivity].
    - destruct Hv as [Hk Hv]. destruct (IH (remove_nth k S0) J) as (I1 & HI1 & E1).
      + rewrite remove_nth_length by exact Hk. exact Hv.
      + apply remove_nth_pos, Hp.
      + exact HJ.
      + assert (Lk : (k <= length I1)%nat).
        { rewrite (inr_length _ _ HI1), remove_nth_length by exact Hk. lia. }
        exists (insert_nth k 0%nat I1). split.
        * apply (Forall2_insert_nth lt 0%nat); [exact Hk | exact HI1 | pose proof (pos_nth k S0 Hp Hk); lia].
        * rewrite remove_insert_nth by exact Lk. exact E1. Qed.

  Lemma fiber_nonempty J : pos S -> inr S' J -> exists I, inr S I /\ drop_axes over I = J.
  Proof. intros Hp HJ. apply (fiber_nonempty_seq (rev (isort over)) S J); [|exact Hp|exact HJ].
    apply desc_valid_seq; [apply desc_over, Hnd|]. rewrite Forall_forall in *. intros x Hx. apply Hall. apply (proj1 (in_rev_isort x over)), Hx. Qed.

  (** the mirror maps the fibre of J onto the fibre of mirror J *)
  Lemma fiber_sum_mirror (v : idx -> R) J : inr S' J ->
    fiber_sum S (drop_axes over) (fun I => v (rev_idx S I)) J = fiber_sum S (drop_axes over) v (rev_idx S' J).
  Proof. intros HJ. rewrite !fiber_sum_big.
    apply (bigR_reindex (indices S) (indices S) (fun I => idx_eqb (drop_axes over I) J) (fun I => idx_eqb (drop_axes over I) (rev_idx S' J))
             (rev_idx S) (rev_idx S) v); try apply NoDup_indices.
    - intros I HI E. apply in_indices in HI. apply idx_eqb_spec in E. split; [apply in_indices, rev_idx_inr, HI|]. split.
      + apply idx_eqb_spec. rewrite drop_rev_idx by (apply (inr_length _ _ HI)). rewrite E. reflexivity.
      + apply rev_idx_invol, HI.
    - intros I HI E. apply in_indices in HI. apply idx_eqb_spec in E. split; [apply in_indices, rev_idx_inr, HI|]. split.
      + apply idx_eqb_spec. rewrite drop_rev_idx by (apply (inr_length _ _ HI)). rewrite E. apply rev_idx_invol, HJ.
      + apply rev_idx_invol, HI. Qed.
End Drop.

(** ** unfold (fold g): data = the symmetrisation, mask = the two corners *)
Definition corner_masked (g : spec R) : Prop := forall I, inr (sh g) I -> mk g I = true -> is_corner (sh g) I = true.

Ltac fold_cases S I HI :=
  let E := fresh "E" in let B1 := fresh "B" in let B2 := fresh "B" in let B3 := fresh "B" in let B4 := fresh "B" in
  pose proof (isum_rev_idx S I HI) as E; rewrite ?(rev_idx_invol S I HI);
  destruct (lt_eq_lt_dec (2 * isum I) (nsamp S)) as [[Hc|Hc]|Hc];
  [ pose proof (fo_false S I ltac:(lia)) as B1; pose proof (fo_true S (rev_idx S I) ltac:(lia)) as B2;
    pose proof (amb_false S I ltac:(lia)) as B3; pose proof (amb_false S (rev_idx S I) ltac:(lia)) as B4
  | pose proof (fo_false S I ltac:(lia)) as B1; pose proof (fo_false S (rev_idx S I) ltac:(lia)) as B2;
    pose proof (amb_true S I ltac:(lia)) as B3; pose proof (amb_true S (rev_idx S I) ltac:(lia)) as B4
  | pose proof (fo_true S I ltac:(lia)) as B1; pose proof (fo_false S (rev_idx S I) ltac:(lia)) as B2;
    pose proof (amb_false S I ltac:(lia)) as B3; pose proof (amb_false S (rev_idx S I) ltac:(lia)) as B4 ];
  rewrite ?B1, ?B2, ?B3, ?B4.

Lemma unfold_fold_va (g : spec R) I : inr (sh g) I ->
  va (unfold (fold g)) I = (va g I + va g (rev_idx (sh g) I)) / 2.
Proof. intros HI. cbn [unfold fold sh va]. unfold nhalf, n2. numR. fold_cases (sh g) I HI; lra. Qed.

Lemma unfold_fold_mk (g : spec R) I : corner_masked g -> inr (sh g) I ->
  mk (unfold (fold g)) I = is_corner (sh g) I.
Proof. intros Hc HI. cbn [unfold fold sh mk]. pose proof (rev_idx_inr _ _ HI) as HR.
  rewrite (rev_idx_invol _ _ HI), (is_corner_rev _ _ HI).
  destruct (is_corner (sh g) I) eqn:EC; [rewrite !orb_true_r; reflexivity|].
  assert (M1 : mk g I = false).
  { destruct (mk g I) eqn:E; [|reflexivity]. rewrite (Hc I HI E) in EC. discriminate. }
  assert (M2 : mk g (rev_idx (sh g) I) = false).
  { destruct (mk g (rev_idx (sh g) I)) eqn:E; [|reflexivity]. rewrite <- (is_corner_rev _ _ HI), (Hc _ HR E) in EC. discriminate. }
  rewrite M1, M2. cbn [orb]. rewrite !orb_false_r. rewrite !xorb_nilpotent. reflexivity. Qed.

(** fold only reads its argument at J and mirror J: a pointwise congruence *)
Lemma fold_va_sym (x y : spec R) J : sh x = sh y -> inr (sh y) J ->
  va x J = (va y J + va y (rev_idx (sh y) J)) / 2 ->
  va x (rev_idx (sh y) J) = (va y (rev_idx (sh y) J) + va y J) / 2 ->
  va (fold x) J = va (fold y) J.
Proof. intros Es HJ E1 E2. cbn [fold sh va]. rewrite Es, E1, E2. unfold nhalf, n2. numR.
  fold_cases (sh y) J HJ; lra. Qed.

(** ** (iii) marginalize commutes with fold *)
Theorem marginalize_commutes_with_fold (g : spec R) over mc :
  fo g = false -> NoDup over -> Forall (fun k => (k < length (sh g))%nat) over -> pos (sh g) -> corner_masked g ->
  same_visible (marginalize_core over mc (fold g)) (fold (marginalize_core over mc g)).
Proof. intros Hfo Hnd Hall Hp Hc.
  rewrite (marginalize_folded (fold g) over mc eq_refl).
  set (u := unfold (fold g)). set (S := sh g) in *. set (S' := drop_axes over S).
  assert (Su : sh u = S) by reflexivity. assert (Fu : fo u = false) by reflexivity.
  assert (Hallu : Forall (fun k => (k < length (sh u))%nat) over) by exact Hall.
  destruct (marginalize_spec u over mc Fu Hnd Hallu) as (SX & IX & FX & VX).
  destruct (marginalize_spec g over mc Hfo Hnd Hall) as (SY & IY & FY & VY).
  set (X := marginalize_core over mc u) in *. set (Y := marginalize_core over mc g) in *.
  rewrite Su in SX. fold S S' in SX, SY. rewrite Su in VX. fold S in VX, VY. rewrite SX in VX. rewrite SY in VY.
  (* away from the corners of the result: nothing masked, X = symmetrisation of Y *)
  assert (NC : forall J, inr S' J -> is_corner S' J = false ->
               mk X J = false /\ mk Y J = false /\
               va X J = (va Y J + va Y (rev_idx S' J)) / 2 /\
               (forall I, inr S I -> drop_axes over I = J -> is_corner S I = false)).
  { intros J HJ HcJ.
    assert (Fib : forall I, inr S I -> drop_axes over I = J -> is_corner S I = false).
    { intros I HI E. destruct (is_corner S I) eqn:EC; [|reflexivity].
      pose proof (drop_corner S over I HI EC) as D. fold S' in D. rewrite E, HcJ in D. discriminate. }
    destruct (fiber_nonempty S over Hnd Hall J Hp HJ) as (I0 & HI0 & E0).
    assert (MX : mk X J = false).
    { rewrite (proj1 (VX J HJ)), HcJ, andb_false_r, orb_false_r.
      unfold fiber_all. apply not_true_is_false. intros Hf. rewrite forallb_forall in Hf.
      specialize (Hf I0 (proj2 (in_indices _ _) HI0)). rewrite E0, idx_eqb_refl in Hf. cbn [negb orb] in Hf.
      unfold u in Hf. rewrite (unfold_fold_mk g I0 Hc HI0) in Hf. fold S in Hf. rewrite (Fib I0 HI0 E0) in Hf. discriminate. }
    assert (MY : mk Y J = false).
    { rewrite (proj1 (VY J HJ)), HcJ, andb_false_r, orb_false_r.
      unfold fiber_all. apply not_true_is_false. intros Hf. rewrite forallb_forall in Hf.
      specialize (Hf I0 (proj2 (in_indices _ _) HI0)). rewrite E0, idx_eqb_refl in Hf. cbn [negb orb] in Hf.
      pose proof (Hc I0 HI0 Hf) as D. fold S in D. rewrite (Fib I0 HI0 E0) in D. discriminate. }
    split; [exact MX|]. split; [exact MY|]. split; [|exact Fib].
    (* values *)
    assert (HRJ : inr S' (rev_idx S' J)) by (apply rev_idx_inr, HJ).
    assert (HcR : is_corner S' (rev_idx S' J) = false) by (rewrite is_corner_rev; assumption).
    assert (FibR : forall I, inr S I -> drop_axes over I = rev_idx S' J -> is_corner S I = false).
    { intros I HI E. destruct (is_corner S I) eqn:EC; [|reflexivity].
      pose proof (drop_corner S over I HI EC) as D. fold S' in D. rewrite E, HcR in D. discriminate. }
    assert (VYJ : forall K, inr S' K -> is_corner S' K = false ->
                  (forall I, inr S I -> drop_axes over I = K -> is_corner S I = false) -> mk Y K = false ->
                  va Y K = fiber_sum S (drop_axes over) (va g) K).
    { intros K HK HcK FibK MK. rewrite (proj2 (VY K HK) MK). rewrite !fiber_sum_big.
      apply (big_ext R Rplus 0). intros I HI. apply in_indices in HI. destruct (idx_eqb (drop_axes over I) K) eqn:E; [|reflexivity].
      apply idx_eqb_spec in E. unfold eff. destruct (mk g I) eqn:EM; [|reflexivity].
      pose proof (Hc I HI EM) as D. fold S in D. rewrite (FibK I HI E) in D. discriminate. }
    assert (MYR : mk Y (rev_idx S' J) = false).
    { destruct (fiber_nonempty S over Hnd Hall _ Hp HRJ) as (I1 & HI1 & E1).
      rewrite (proj1 (VY _ HRJ)), HcR, andb_false_r, orb_false_r.
      unfold fiber_all. apply not_true_is_false. intros Hf. rewrite forallb_forall in Hf.
      specialize (Hf I1 (proj2 (in_indices _ _) HI1)). rewrite E1, idx_eqb_refl in Hf. cbn [negb orb] in Hf.
      pose proof (Hc I1 HI1 Hf) as D. fold S in D. rewrite (FibR I1 HI1 E1) in D. discriminate. }
    rewrite (VYJ J HJ HcJ Fib MY), (VYJ _ HRJ HcR FibR MYR).
    pose proof (fiber_sum_mirror S over (va g) J HJ) as FM. fold S' in FM. rewrite <- FM. clear FM.
    rewrite (proj2 (VX J HJ) MX). rewrite !fiber_sum_big.
    rewrite <- (big_op R Rplus 0 Rp_assoc Rp_comm Rp_0_l).
    unfold Rdiv at 1. rewrite Rmult_comm.
    rewrite <- bigR_scal. apply (big_ext R Rplus 0). intros I HI. apply in_indices in HI.
    destruct (idx_eqb (drop_axes over I) J) eqn:E; [|lra]. apply idx_eqb_spec in E.
    unfold eff. unfold u at 1. rewrite (unfold_fold_mk g I Hc HI). fold S. rewrite (Fib I HI E).
    unfold u. rewrite (unfold_fold_va g I HI). fold S. lra. }
  (* assemble *)
  assert (ES : sh (fold X) = sh (fold Y)) by (cbn [fold sh]; congruence).
  split; [exact ES|]. split; [cbn [fold ids]; rewrite IX, IY; reflexivity|]. split; [reflexivity|].
  intros J HJ. apply in_indices in HJ. cbn [fold sh] in HJ. rewrite SX in HJ.
  assert (HRJ : inr S' (rev_idx S' J)) by (apply rev_idx_inr, HJ).
  destruct (is_corner S' J) eqn:HcJ.
  - cbn [fold mk sh]. rewrite SX, SY, HcJ, !orb_true_r. split; [reflexivity|discriminate].
  - assert (HcR : is_corner S' (rev_idx S' J) = false) by (rewrite is_corner_rev; assumption).
    destruct (NC J HJ HcJ) as (MX & MY & EV & _). destruct (NC _ HRJ HcR) as (MXR & MYR & EVR & _).
    rewrite (rev_idx_invol S' J HJ) in EVR. split.
    + cbn [fold mk sh]. rewrite SX, SY, MX, MY, MXR, MYR. reflexivity.
    + intros _. apply fold_va_sym; rewrite ?SY; auto; congruence. Qed.
