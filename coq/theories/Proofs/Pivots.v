(** A sufficient, checkable condition for the hypothesis "no pivot vanishes": if the off-diagonal coefficients are
    non-positive (a cell-Peclet condition: atemp, ctemp >= 0) then the conservative structure of the scheme
    (weighted column sums = w_j/dt + absorbing term > 0) makes every Thomas pivot strictly positive. *)
From Coq Require Import Reals List Lra Lia Arith Bool.
From Dadi Require Import Base.Num Base.NumR Model.Tridiag Model.Scheme Proofs.TridiagProofs Proofs.SchemeProofs Proofs.MassBalance.
Import ListNotations.
Local Open Scope R_scope.

Fixpoint allpos (l : list R) : Prop := match l with [] => True | x :: t => 0 < x /\ allpos t end.
Lemma allpos_nonzero l : allpos l -> nonzero l.
Proof. induction l as [|x t IH]; cbn; [auto|]. intros [Hx Ht]. split; [lra | auto]. Qed.

Lemma seq_0_S n : (1 <= n)%nat -> seq 0 n = 0%nat :: seq 1 (n - 1).
Proof. destruct n as [|m]; [lia|]. intros _. cbn [seq]. rewrite Nat.sub_succ, Nat.sub_0_r. reflexivity. Qed.

Section Generic.
  Variables a b c r w : nat -> R.
  Variable n : nat.
  Hypothesis Hw : forall j, (j < n)%nat -> 0 < w j.
  Hypothesis Ha : forall j, (1 <= j < n)%nat -> a j <= 0.
  Hypothesis Hc : forall j, (S j < n)%nat -> c j <= 0.
  (** weighted column dominance *)
  Definition colsum (j : nat) : R :=
    w j * b j + (if Nat.ltb (S j) n then w (S j) * a (S j) else 0) + (if Nat.ltb 0 j then w (j - 1) * c (j - 1) else 0).
  Hypothesis Hcol : forall j, (j < n)%nat -> 0 < colsum j.

  Definition rowsf (s m : nat) : list (@row R) := map (fun i => (a i, b i, c i, r i)) (seq s m).
  Definition inv (j : nat) (bet : R) : Prop := 0 < w j * bet + (if Nat.ltb (S j) n then w (S j) * a (S j) else 0).

  Lemma inv_pos j bet : (j < n)%nat -> inv j bet -> 0 < bet.
  Proof.
    intros Hj Hi. unfold inv in Hi. pose proof (Hw j Hj) as Hwj.
    destruct (Nat.ltb_spec (S j) n) as [Hlt|Hge].
    - pose proof (Ha (S j) ltac:(lia)) as Has. pose proof (Hw (S j) Hlt) as Hws. nra.
    - nra.
  Qed.

  Lemma pivots_pos : forall m s bet, (0 < s)%nat -> (s + m <= n)%nat -> inv (s - 1) bet ->
    allpos (pivots bet (c (s - 1)) (rowsf s m)).
  Proof.
    induction m as [|m IH]; intros s bet Hs Hsm Hinv; [exact I|].
    cbn [rowsf seq map pivots]. numR. fold (rowsf (S s) m).
    assert (Hbet : 0 < bet) by (apply (inv_pos (s - 1)); [lia | exact Hinv]).
    set (bet' := b s - a s * (c (s - 1) / bet)).
    assert (Hinv' : inv s bet').
    { unfold inv in *. unfold bet'.
      destruct (Nat.ltb_spec (S (s - 1)) n) as [Hlt|Hge]; [|lia]. replace (S (s - 1)) with s in Hinv by lia.
      pose proof (Hcol s ltac:(lia)) as Hcs. unfold colsum in Hcs.
      destruct (Nat.ltb_spec 0 s); [|lia].
      pose proof (Ha s ltac:(lia)) as Has. pose proof (Hc (s - 1)%nat ltac:(lia)) as Hcs1.
      pose proof (Hw s ltac:(lia)) as Hws. pose proof (Hw (s - 1)%nat ltac:(lia)) as Hws1.
      (* w_s a_s c_{s-1} / bet <= - w_{s-1} c_{s-1} *)
      assert (Hkey : w s * (a s * (c (s - 1) / bet)) <= - (w (s - 1) * c (s - 1))).
      { unfold Rdiv. assert (Hib : 0 < / bet) by (apply Rinv_0_lt_compat; exact Hbet).
        assert (H1 : - (w s * a s) * / bet <= w (s - 1)).
        { apply Rmult_le_reg_r with bet; [exact Hbet|]. rewrite Rmult_assoc, Rinv_l by lra. lra. }
        assert (H2 : 0 <= - c (s - 1)) by lra.
        replace (w s * (a s * (c (s - 1) * / bet))) with ((- (w s * a s) * / bet) * (- c (s - 1))) by ring.
        replace (- (w (s - 1) * c (s - 1))) with (w (s - 1) * (- c (s - 1))) by ring.
        apply Rmult_le_compat_r; assumption. }
      replace (w s * (b s - a s * (c (s - 1) / bet))) with (w s * b s - w s * (a s * (c (s - 1) / bet))) by ring.
      destruct (Nat.ltb (S s) n); lra. }
    split; [apply (inv_pos s); [lia | exact Hinv']|].
    replace (c s) with (c (S s - 1)) by (f_equal; lia). apply IH; [lia | lia |].
    replace (S s - 1)%nat with s by lia. exact Hinv'.
  Qed.

  Theorem all_pivots_pos : (1 <= n)%nat -> allpos (all_pivots (rowsf 0 n)).
  Proof.
    intros Hn. unfold rowsf. rewrite (seq_0_S n Hn). cbn [map all_pivots].
    assert (Hinv0 : inv 0 (b 0%nat)).
    { unfold inv. pose proof (Hcol 0%nat ltac:(lia)) as H0. unfold colsum in H0.
      destruct (Nat.ltb_spec 0 0); [lia|]. destruct (Nat.ltb 1 n); lra. }
    split; [apply (inv_pos 0); [lia | exact Hinv0]|].
    fold (rowsf 1 (n - 1)). replace (c 0%nat) with (c (1 - 1)%nat) by reflexivity.
    apply pivots_pos; [lia | lia | exact Hinv0].
  Qed.
End Generic.

(** instance: one line of dadi's scheme *)
Section SchemeInstance.
  Variable xs : list R.
  Variable Vf Mf : R -> R.
  Variable nu : R.
  Variable c0 c1 : bool.
  Variable dt : R.
  Variable use_delj : bool.
  Notation N := (length xs).
  Hypothesis HN : (2 <= N)%nat.
  Hypothesis Hdx : forall i, (i < N - 1)%nat -> 0 < dx xs i.
  Hypothesis Hdt : 0 < dt.
  Hypothesis Hnu : 0 < nu.
  (** cell-Peclet condition: both interface coefficients are non-negative (always true with M = 0; what the
      Chang-Cooper delj is designed to guarantee) *)
  Hypothesis Hat : forall i, (i < N - 1)%nat -> 0 <= atemp xs Vf Mf use_delj i.
  Hypothesis Hct : forall i, (i < N - 1)%nat -> 0 <= ctemp xs Vf Mf use_delj i.

  Lemma dfactor_pos i : (i < N)%nat -> 0 < dfactor xs i.
  Proof.
    intros Hi. unfold dfactor. fold (Scheme.N xs). unfold Scheme.N. unfold n2. numR.
    destruct (Nat.eqb_spec i 0); [pose proof (Hdx 0%nat ltac:(lia)); apply Rdiv_lt_0_compat; lra|].
    destruct (Nat.eqb_spec i (N - 1)); [pose proof (Hdx (N - 2)%nat ltac:(lia)); apply Rdiv_lt_0_compat; lra|].
    pose proof (Hdx i ltac:(lia)). pose proof (Hdx (i - 1)%nat ltac:(lia)). apply Rdiv_lt_0_compat; lra.
  Qed.
  Lemma trap_w_pos i : (i < N)%nat -> 0 < trap_w xs i.
  Proof.
    intros Hi. pose proof (w_dfactor xs HN Hdx i Hi) as Hwd. pose proof (dfactor_pos i Hi) as Hd.
    destruct (Rlt_le_dec 0 (trap_w xs i)) as [H|H]; [exact H|]. exfalso. nra.
  Qed.
  Lemma bc0_nonneg : 0 <= bc0 xs Mf nu c0.
  Proof.
    unfold bc0. unfold nhalf, n2. numR. destruct (c0 && Rleb (Mf (x xs 0)) 0) eqn:E; [|lra].
    apply andb_true_iff in E. destruct E as [_ E]. apply Rleb_true in E.
    pose proof (Hdx 0%nat ltac:(lia)). assert (0 < 1 / (1 + 1) / nu) by (apply Rdiv_lt_0_compat; lra).
    apply Rmult_le_pos; [nra | left; apply Rinv_0_lt_compat; lra].
  Qed.
  Lemma bc1_nonneg : 0 <= bc1 xs Mf nu c1.
  Proof.
    unfold bc1. fold (Scheme.N xs). unfold Scheme.N. unfold nhalf, n2. numR.
    destruct (c1 && Rleb 0 (Mf (x xs (N - 1)))) eqn:E; [|lra].
    apply andb_true_iff in E. destruct E as [_ E]. apply Rleb_true in E.
    pose proof (Hdx (N - 2)%nat ltac:(lia)). assert (0 < 1 / (1 + 1) / nu) by (apply Rdiv_lt_0_compat; lra).
    apply Rmult_le_pos; [nra | left; apply Rinv_0_lt_compat; lra].
  Qed.

  (** the weighted column sums of the scheme: conservation leaves only w_j/dt and the absorbing term *)
  Lemma colsum_value j : (j < N)%nat ->
    colsum (coef_a xs Vf Mf use_delj) (coef_b xs Vf Mf nu c0 c1 dt use_delj) (coef_c xs Vf Mf use_delj) (trap_w xs) N j
    = trap_w xs j * / dt + trap_w xs j * bcterm xs Mf nu c0 c1 j.
  Proof.
    intros Hj. unfold colsum, coef_a, coef_b, coef_b0, coef_c, bcterm. fold (Scheme.N xs). unfold Scheme.N. numR.
    pose proof (w_dfactor xs HN Hdx j Hj) as Hwd.
    set (A := atemp xs Vf Mf use_delj) in *. set (C := ctemp xs Vf Mf use_delj) in *.
    set (w := trap_w xs) in *. set (df := dfactor xs) in *.
    assert (E3 : forall t, w j * (df j * t) = t) by (intros t; rewrite <- Rmult_assoc, Hwd; ring).
    destruct (Nat.ltb_spec (S j) N) as [HS|HS]; destruct (Nat.ltb_spec 0 j) as [H0|H0].
    - destruct (Nat.eqb_spec (S j) 0); [lia|]. destruct (Nat.eqb_spec (j - 1) (N - 1)); [lia|].
      destruct (Nat.ltb_spec j (N - 1)); [|lia]. destruct (Nat.eqb_spec j 0); [lia|]. destruct (Nat.eqb_spec j (N - 1)); [lia|].
      replace (S j - 1)%nat with j by lia.
      assert (E1 : w (S j) * (- df (S j) * A j) = - A j) by (pose proof (w_dfactor xs HN Hdx (S j) ltac:(lia)) as Hq; fold w df in Hq; replace (w (S j) * (- df (S j) * A j)) with (- (w (S j) * df (S j)) * A j) by ring; rewrite Hq; ring).
      assert (E2 : w (j - 1)%nat * (- df (j - 1)%nat * C (j - 1)%nat) = - C (j - 1)%nat) by (pose proof (w_dfactor xs HN Hdx (j - 1)%nat ltac:(lia)) as Hq; fold w df in Hq; replace (w (j - 1)%nat * (- df (j - 1)%nat * C (j - 1)%nat)) with (- (w (j - 1)%nat * df (j - 1)%nat) * C (j - 1)%nat) by ring; rewrite Hq; ring).
      rewrite E1, E2. unfold Rdiv.
      replace (w j * (1 * / dt + (df j * A j + df j * C (j - 1)%nat + 0 + 0))) with (w j * / dt + w j * (df j * A j) + w j * (df j * C (j - 1)%nat)) by ring.
      rewrite !E3. ring.
    - assert (j = 0)%nat by lia. subst j. destruct (Nat.eqb_spec 0 0) as [_|Hx]; [|lia]. destruct (Nat.eqb_spec 0 (N - 1)); [lia|]. destruct (Nat.ltb_spec 0 (N - 1)); [|lia].
      destruct (Nat.eqb_spec 1 0); [lia|]. replace (1 - 1)%nat with 0%nat by lia.
      assert (E1 : w 1%nat * (- df 1%nat * A 0%nat) = - A 0%nat) by (pose proof (w_dfactor xs HN Hdx 1%nat ltac:(lia)) as Hq; fold w df in Hq; replace (w 1%nat * (- df 1%nat * A 0%nat)) with (- (w 1%nat * df 1%nat) * A 0%nat) by ring; rewrite Hq; ring).
      rewrite E1. unfold Rdiv.
      replace (w 0%nat * (1 * / dt + (df 0%nat * A 0%nat + 0 + bc0 xs Mf nu c0 + 0))) with (w 0%nat * / dt + w 0%nat * (df 0%nat * A 0%nat) + w 0%nat * bc0 xs Mf nu c0) by ring.
      rewrite E3. ring.
    - assert (Ej : (j = N - 1)%nat) by lia. destruct (Nat.ltb_spec j (N - 1)); [lia|]. destruct (Nat.eqb_spec j 0); [lia|].
      destruct (Nat.eqb_spec j (N - 1)); [|lia]. destruct (Nat.eqb_spec (j - 1) (N - 1)); [lia|].
      assert (E2 : w (j - 1)%nat * (- df (j - 1)%nat * C (j - 1)%nat) = - C (j - 1)%nat) by (pose proof (w_dfactor xs HN Hdx (j - 1)%nat ltac:(lia)) as Hq; fold w df in Hq; replace (w (j - 1)%nat * (- df (j - 1)%nat * C (j - 1)%nat)) with (- (w (j - 1)%nat * df (j - 1)%nat) * C (j - 1)%nat) by ring; rewrite Hq; ring).
      rewrite E2. unfold Rdiv.
      replace (w j * (1 * / dt + (0 + df j * C (j - 1)%nat + 0 + bc1 xs Mf nu c1))) with (w j * / dt + w j * (df j * C (j - 1)%nat) + w j * bc1 xs Mf nu c1) by ring.
      rewrite E3. ring.
    - lia.
  Qed.

  Theorem line_pivots_positive (phi : list R) :
    allpos (all_pivots (line_rows xs Vf Mf nu c0 c1 dt use_delj phi)).
  Proof.
    rewrite line_rows_eq_spec by exact HN. unfold line_rows_spec. fold (Scheme.N xs). unfold Scheme.N.
    apply (all_pivots_pos (coef_a xs Vf Mf use_delj) (coef_b xs Vf Mf nu c0 c1 dt use_delj) (coef_c xs Vf Mf use_delj)
                          (fun i => nthF phi i / dt)%num (trap_w xs) N); try lia.
    - intros j Hj. apply trap_w_pos. exact Hj.
    - intros j Hj. unfold coef_a. destruct (Nat.eqb_spec j 0); [lia|]. numR.
      pose proof (dfactor_pos j ltac:(lia)). pose proof (Hat (j - 1)%nat ltac:(lia)). nra.
    - intros j Hj. unfold coef_c. fold (Scheme.N xs). unfold Scheme.N. destruct (Nat.eqb_spec j (N - 1)); [lia|]. numR.
      pose proof (dfactor_pos j ltac:(lia)). pose proof (Hct j ltac:(lia)). nra.
    - intros j Hj. rewrite colsum_value by exact Hj.
      pose proof (trap_w_pos j Hj) as Hwj. pose proof bc0_nonneg as Hb0. pose proof bc1_nonneg as Hb1.
      assert (Hidt : 0 < / dt) by (apply Rinv_0_lt_compat; lra).
      unfold bcterm. destruct (Nat.eqb j 0), (Nat.eqb j (N - 1)); nra.
  Qed.

  Corollary line_pivots_nonzero (phi : list R) : nonzero (all_pivots (line_rows xs Vf Mf nu c0 c1 dt use_delj phi)).
  Proof. apply allpos_nonzero, line_pivots_positive. Qed.
End SchemeInstance.
