(** A sufficient, checkable condition for the hypothesis "no pivot vanishes": if the off-diagonal coefficients are
    non-positive (a cell-Peclet condition: atemp, ctemp >= 0) then the conservative structure of the scheme
    (weighted column sums = w_j/dt + absorbing term > 0) makes every Thomas pivot strictly positive. *)
From Coq Require Import Reals List Lra Lia Arith Bool.
From Dadi Require Import Base.Num Base.NumR Model.Tridiag Model.Scheme Proofs.TridiagProofs Proofs.SchemeProofs Proofs.MassBalance.
Import ListNotations.
Local Open Scope R_scope.

Fixpoint allpos (l : list R) : Prop := match l with [] => True | x :: t => 0 < x /\ allpos t end.
Lemma allpos_nonzero l : allpos l -> nonzero l.
Proof. induction l as [|x t IH]; cbn; [auto|]. intros [Hx Ht]. split; [lra | auto]. Qed.

Section Generic.
  Variables a b c r w : nat -> R.
  Variable n : nat.
  Hypothesis Hw : forall j, (j < n)%nat -> 0 < w j.
  Hypothesis Ha : forall j, (1 <= j < n)%nat -> a j <= 0.
  Hypothesis Hc : forall j, (S j < n)%nat -> c j <= 0.
  (** weighted column dominance *)
  Definition colsum (j : nat) : R :=
    w j * b j + (if Nat.ltb (S j) n then w (S j) * a (S j) else 0) + (if Nat.ltb 0 j then w (j - 1) * c (j - 1) else 0).
  Hypothesis Hcol : forall j, (j < n)%nat -> 0 < colsum j.

  Definition rowsf (s m : nat) : list (@row R) := map (fun i => (a i, b i, c i, r i)) (seq s m).
  Definition inv (j : nat) (bet : R) : Prop := 0 < w j * bet + (if Nat.ltb (S j) n then w (S j) * a (S j) else 0).

  Lemma inv_pos j bet : (j < n)%nat -> inv j bet -> 0 < bet.
  Proof.
    intros Hj Hi. unfold inv in Hi. pose proof (Hw j Hj) as Hwj.
    destruct (Nat.ltb_spec (S j) n) as [Hlt|Hge].
    - pose proof (Ha (S j) ltac:(lia)) as Has. pose proof (Hw (S j) Hlt) as Hws. nra.
    - nra.
  Qed.

  Lemma pivots_pos : forall m s bet, (0 < s)%nat -> (s + m <= n)%nat -> inv (s - 1) bet ->
    allpos (pivots bet (c (s - 1)) (rowsf s m)).
  Proof.
    induction m as [|m IH]; intros s bet Hs Hsm Hinv; [exact I|].
    cbn [rowsf seq map pivots]. numR. fold (rowsf (S s) m).
    assert (Hbet : 0 < bet) by (apply (inv_pos (s - 1)); [lia | exact Hinv]).
    set (bet' := b s - a s * (c (s - 1) / bet)).
    assert (Hinv' : inv s bet').
    { unfold inv in *. unfold bet'.
      destruct (Nat.ltb_spec (S (s - 1)) n) as [Hlt|Hge]; [|lia]. replace (S (s - 1)) with s in Hinv by lia.
      pose proof (Hcol s ltac:(lia)) as Hcs. unfold colsum in Hcs.
      destruct (Nat.ltb_spec 0 s); [|lia].
      pose proof (Ha s ltac:(lia)) as Has. pose proof (Hc (s - 1)%nat ltac:(lia)) as Hcs1.
      pose proof (Hw s ltac:(lia)) as Hws. pose proof (Hw (s - 1)%nat ltac:(lia)) as Hws1.
      (* w_s a_s c_{s-1} / bet <= - w_{s-1} c_{s-1} *)
      assert (Hkey : w s * (a s * (c (s - 1) / bet)) <= - (w (s - 1) * c (s - 1))).
      { unfold Rdiv. assert (Hib : 0 < / bet) by (apply Rinv_0_lt_compat; exact Hbet).
        assert (H1 : - (w s * a s) * / bet <= w (s - 1)).
        { apply Rmult_le_reg_r with bet; [exact Hbet|]. rewrite Rmult_assoc, Rinv_l by lra. lra. }
        assert (H2 : 0 <= - c (s - 1)) by lra.
        replace (w s * (a s * (c (s - 1) * / bet))) with ((- (w s * a s) * / bet) * (- c (s - 1))) by ring.
        replace (- (w (s - 1) * c (s - 1))) with (w (s - 1) * (- c (s - 1))) by ring.
        apply Rmult_le_compat_r; assumption. }
      replace (w s * (b s - a s * (c (s - 1) / bet))) with (w s * b s - w s * (a s * (c (s - 1) / bet))) by ring.
      destruct (Nat.ltb (S s) n); lra. }
    split; [apply (inv_pos s); [lia | exact Hinv']|].
    replace (c s) with (c (S s - 1)) by (f_equal; lia). apply IH; [lia | lia |].
    replace (S s - 1)%nat with s by lia. exact Hinv'.
  Qed.

  Theorem all_pivots_pos : (1 <= n)%nat -> allpos (all_pivots (rowsf 0 n)).
  Proof.
    intros Hn. destruct n as [|n'] eqn:En; [lia|]. cbn [rowsf seq map all_pivots]. rewrite <- En in *.
    assert (Hinv0 : inv 0 (b 0%nat)).
    { unfold inv. pose proof (Hcol 0%nat ltac:(lia)) as H0. unfold colsum in H0. cbn [Nat.ltb Nat.leb] in H0.
      destruct (Nat.ltb 1 n); lra. }
    split; [apply (inv_pos 0); [lia | exact Hinv0]|].
    fold (rowsf 1 n'). replace (c 0%nat) with (c (1 - 1)%nat) by reflexivity.
    apply pivots_pos; [lia | lia | exact Hinv0].
  Qed.
End Generic.

(** instance: one line of dadi's scheme *)
Section SchemeInstance.
  Variable xs : list R.
  Variable Vf Mf : R -> R.
  Variable nu : R.
  Variable c0 c1 : bool.
  Variable dt : R.
  Variable use_delj : bool.
  Notation N := (length xs).
  Hypothesis HN : (2 <= N)%nat.
  Hypothesis Hdx : forall i, (i < N - 1)%nat -> 0 < dx xs i.
  Hypothesis Hdt : 0 < dt.
  Hypothesis Hnu : 0 < nu.
  (** cell-Peclet condition: both interface coefficients are non-negative (always true with M = 0; what the
      Chang-Cooper delj is designed to guarantee) *)
  Hypothesis Hat : forall i, (i < N - 1)%nat -> 0 <= atemp xs Vf Mf use_delj i.
  Hypothesis Hct : forall i, (i < N - 1)%nat -> 0 <= ctemp xs Vf Mf use_delj i.

  Lemma dfactor_pos i : (i < N)%nat -> 0 < dfactor xs i.
  Proof.
    intros Hi. unfold dfactor. fold (Scheme.N xs). unfold Scheme.N. unfold n2. numR.
    destruct (Nat.eqb_spec i 0); [pose proof (Hdx 0%nat ltac:(lia)); apply Rdiv_lt_0_compat; lra|].
    destruct (Nat.eqb_spec i (N - 1)); [pose proof (Hdx (N - 2)%nat ltac:(lia)); apply Rdiv_lt_0_compat; lra|].
    pose proof (Hdx i ltac:(lia)). pose proof (Hdx (i - 1)%nat ltac:(lia)). apply Rdiv_lt_0_compat; lra.
  Qed.
  Lemma trap_w_pos i : (i < N)%nat -> 0 < trap_w xs i.
  Proof.
    intros Hi. pose proof (w_dfactor xs HN Hdx i Hi) as Hwd. pose proof (dfactor_pos i Hi) as Hd.
    destruct (Rlt_le_dec 0 (trap_w xs i)) as [H|H]; [exact H|]. exfalso. nra.
  Qed.
  Lemma bc0_nonneg : 0 <= bc0 xs Mf nu c0.
  Proof.
    unfold bc0. unfold nhalf, n2. numR. destruct (c0 && Rleb (Mf (x xs 0)) 0) eqn:E; [|lra].
    apply andb_true_iff in E. destruct E as [_ E]. apply Rleb_true in E.
    pose proof (Hdx 0%nat ltac:(lia)). assert (0 < 1 / (1 + 1) / nu) by (apply Rdiv_lt_0_compat; lra).
    apply Rmult_le_pos; [nra | left; apply Rinv_0_lt_compat; lra].
  Qed.
  Lemma bc1_nonneg : 0 <= bc1 xs Mf nu c1.
  Proof.
    unfold bc1. fold (Scheme.N xs). unfold Scheme.N. unfold nhalf, n2. numR.
    destruct (c1 && Rleb 0 (Mf (x xs (N - 1)))) eqn:E; [|lra].
    apply andb_true_iff in E. destruct E as [_ E]. apply Rleb_true in E.
    pose proof (Hdx (N - 2)%nat ltac:(lia)). assert (0 < 1 / (1 + 1) / nu) by (apply Rdiv_lt_0_compat; lra).
    apply Rmult_le_pos; [nra | left; apply Rinv_0_lt_compat; lra].
  Qed.

  Theorem line_pivots_positive (phi : list R) :
    allpos (all_pivots (line_rows xs Vf Mf nu c0 c1 dt use_delj phi)).
  Proof.
    rewrite line_rows_eq_spec by exact HN. unfold line_rows_spec. fold (Scheme.N xs). unfold Scheme.N.
    apply (all_pivots_pos (coef_a xs Vf Mf use_delj) (coef_b xs Vf Mf nu c0 c1 dt use_delj) (coef_c xs Vf Mf use_delj)
                          (fun i => nthF phi i / dt)%num (trap_w xs) N); try lia.
    - intros j Hj. apply trap_w_pos. exact Hj.
    - intros j Hj. unfold coef_a. destruct (Nat.eqb_spec j 0); [lia|]. numR.
      pose proof (dfactor_pos j ltac:(lia)). pose proof (Hat (j - 1)%nat ltac:(lia)). nra.
    - intros j Hj. unfold coef_c. fold (Scheme.N xs). unfold Scheme.N. destruct (Nat.eqb_spec j (N - 1)); [lia|]. numR.
      pose proof (dfactor_pos j ltac:(lia)). pose proof (Hct j ltac:(lia)). nra.
    - intros j Hj. unfold colsum, coef_a, coef_b, coef_b0, coef_c. fold (Scheme.N xs). unfold Scheme.N. numR.
      pose proof (trap_w_pos j Hj) as Hwj. pose proof (w_dfactor xs HN Hdx j Hj) as Hwd.
      pose proof bc0_nonneg as Hb0. pose proof bc1_nonneg as Hb1.
      assert (Hidt : 0 < 1 / dt) by (apply Rdiv_lt_0_compat; lra).
      destruct (Nat.ltb_spec (S j) N) as [HS|HS]; destruct (Nat.ltb_spec 0 j) as [H0|H0];
      destruct (Nat.eqb_spec (S j) 0); try lia;
      destruct (Nat.eqb_spec (j - 1) (N - 1)); try lia;
      destruct (Nat.ltb_spec j (N - 1)); try lia;
      destruct (Nat.eqb_spec j 0); try lia; destruct (Nat.eqb_spec j (N - 1)); try lia;
      try (pose proof (w_dfactor xs HN Hdx (S j) ltac:(lia)) as HwS);
      try (pose proof (w_dfactor xs HN Hdx (j - 1)%nat ltac:(lia)) as HwP);
      replace (S j - 1)%nat with j in * by lia;
      set (A := atemp xs Vf Mf use_delj j) in *; set (Cp := ctemp xs Vf Mf use_delj (j - 1)) in *;
      set (wj := trap_w xs j) in *; set (dj := dfactor xs j) in *; nra.
  Qed.

  Corollary line_pivots_nonzero (phi : list R) : nonzero (all_pivots (line_rows xs Vf Mf nu c0 c1 dt use_delj phi)).
  Proof. apply allpos_nonzero, line_pivots_positive. Qed.
End SchemeInstance.
