(** C05: sampling n and projecting down to m is sampling m, for the semi-analytic paths (1-D [analytic1D], the
    clipped axis function [analytic_ax] of the n-D recursion) and, axis by axis, for every d-dimensional path whose
    1-D operators have the property.  Route: every entry is an exact integral of the sampling kernel against a linear
    function (FromPhiIntegral.v); the kernel identity (FromPhiProject.v) passes through the integral by linearity. *)
From Coq Require Import ZArith NArith Reals List Lra Lia Arith Bool.
From Coquelicot Require Import Coquelicot.
From Dadi Require Import Base.Num Base.NumR Model.FromPhi Proofs.FromPhiBinom Proofs.FromPhiBase Proofs.FromPhiMass1D
  Proofs.FromPhiLin Proofs.FromPhiND Proofs.FromPhiPaths Proofs.FromPhiSums Proofs.FromPhiProject Proofs.FromPhiMarg
  Proofs.FromPhiMore Proofs.FromPhiIntegral Proofs.FromPhiMargK.
Import ListNotations.
Local Open Scope R_scope.

(** ** one interval, in general position: slope s and base point (x0, p0) of the linear function are arbitrary and so are
    the integration limits y0, y1 (for [analytic1D] the limits are the clipped grid points and so are x0, x1; for
    [analytic_ax] the line is drawn through the UNCLIPPED points and integrated between the clipped ones) *)
Definition Eint (n d : nat) (s x0 p0 y0 y1 : R) : R :=
  (p0 - s * x0) / INR (n + 1) * (tailB (n + 1) (d + 1) y1 - tailB (n + 1) (d + 1) y0)
  + s * INR (d + 1) / (INR (n + 1) * INR (n + 2)) * (tailB (n + 2) (d + 2) y1 - tailB (n + 2) (d + 2) y0).

Lemma interval_integral_gen n d (s x0 p0 y0 y1 : R) : (d <= n)%nat ->
  is_RInt (fun t => B n d t * (p0 + s * (t - x0))) y0 y1 (Eint n d s x0 p0 y0 y1).
Proof. intros Hd. unfold Eint.
  set (c1 := (p0 - s * x0) / INR (n + 1)). set (c2 := s * INR (d + 1) / (INR (n + 1) * INR (n + 2))).
  replace (c1 * (tailB (n + 1) (d + 1) y1 - tailB (n + 1) (d + 1) y0) + c2 * (tailB (n + 2) (d + 2) y1 - tailB (n + 2) (d + 2) y0))
    with ((c1 * tailB (n + 1) (d + 1) y1 + c2 * tailB (n + 2) (d + 2) y1) - (c1 * tailB (n + 1) (d + 1) y0 + c2 * tailB (n + 2) (d + 2) y0)) by ring.
  assert (H1 : INR (n + 1) <> 0) by (apply not_0_INR; lia).
  assert (H2 : INR (n + 2) <> 0) by (apply not_0_INR; lia).
  assert (H3 : INR (d + 1) <> 0) by (apply not_0_INR; lia).
  apply (is_RInt_derive (fun t => c1 * tailB (n + 1) (d + 1) t + c2 * tailB (n + 2) (d + 2) t) (fun t => B n d t * (p0 + s * (t - x0)))).
  - intros t _.
    replace (B n d t * (p0 + s * (t - x0))) with (c1 * (INR (S n) * B n d t) + c2 * (INR (S (S n)) * B (S n) (S d) t)).
    + apply (is_derive_plus (fun t => c1 * tailB (n + 1) (d + 1) t) (fun t => c2 * tailB (n + 2) (d + 2) t)).
      * apply (is_derive_scal (fun t => tailB (n + 1) (d + 1) t) t c1). replace (n + 1)%nat with (S n) by lia. replace (d + 1)%nat with (S d) by lia.
        apply tail_derive. assumption.
      * apply (is_derive_scal (fun t => tailB (n + 2) (d + 2) t) t c2). replace (n + 2)%nat with (S (S n)) by lia. replace (d + 2)%nat with (S (S d)) by lia.
        apply tail_derive. lia.
    + pose proof (B_absorb_t n d t Hd) as Eb.
      replace (B (S n) (S d) t) with (INR (S n) * (t * B n d t) / INR (S d)) by (rewrite <- Eb; field; replace (S d) with (d + 1)%nat by lia; assumption).
      subst c1 c2. replace (INR (S n)) with (INR (n + 1)) by (f_equal; lia). replace (INR (S (S n))) with (INR (n + 2)) by (f_equal; lia).
      replace (INR (S d)) with (INR (d + 1)) by (f_equal; lia). field. repeat split; assumption.
  - intros t _. apply (ex_derive_continuous (fun t => B n d t * (p0 + s * (t - x0)))). unfold B. auto_derive. trivial. Qed.

(** the integral of a finite linear combination *)
Lemma is_RInt_rsum {A} (f : A -> R -> R) (I w : A -> R) (a b : R) (l : list A) :
  (forall j, In j l -> is_RInt (f j) a b (I j)) ->
  is_RInt (fun t => rsum (map (fun j => w j * f j t) l)) a b (rsum (map (fun j => w j * I j) l)).
Proof. induction l as [|j l IH]; intros H.
  - cbn [map]. change (rsum []) with 0.
    assert (E : is_RInt (fun _ : R => 0) a b (scal (b - a) 0)) by apply (is_RInt_const a b 0).
    replace (scal (b - a) 0) with 0 in E by (symmetry; apply (Rmult_0_r (b - a))). exact E.
  - cbn [map]. rewrite rsum_cons.
    apply (is_RInt_ext (fun t => plus (scal (w j) (f j t)) (rsum (map (fun j => w j * f j t) l)))); [intros t _; rewrite rsum_cons; reflexivity|].
    apply (is_RInt_plus (fun t => scal (w j) (f j t)) (fun t => rsum (map (fun j => w j * f j t) l)) a b (scal (w j) (I j))).
    + apply (is_RInt_scal (f j) a b (w j) (I j)). apply H. left. reflexivity.
    + apply IH. intros; apply H; right; assumption. Qed.

(** the hypergeometric mixture of the n-sample interval values is the m-sample interval value *)
Lemma Eint_projection n m i (s x0 p0 y0 y1 : R) : (m <= n)%nat -> (i <= m)%nat ->
  rsum (map (fun j => hyperw n m j i * Eint n j s x0 p0 y0 y1) (seq 0 (S n))) = Eint m i s x0 p0 y0 y1.
Proof. intros Hm Hi.
  assert (H1 : is_RInt (fun t => rsum (map (fun j => hyperw n m j i * (B n j t * (p0 + s * (t - x0)))) (seq 0 (S n)))) y0 y1
                 (rsum (map (fun j => hyperw n m j i * Eint n j s x0 p0 y0 y1) (seq 0 (S n))))).
  { apply (is_RInt_rsum (fun j t => B n j t * (p0 + s * (t - x0))) (fun j => Eint n j s x0 p0 y0 y1)).
    intros j Hj. apply in_seq in Hj. apply interval_integral_gen. lia. }
  apply (is_RInt_ext _ (fun t => B m i t * (p0 + s * (t - x0)))) in H1.
  2:{ intros t _.
      rewrite (rsum_map_ext _ (fun j => (hyperw n m j i * bker n j t) * (p0 + s * (t - x0)))) by (intros; rewrite bker_B; ring).
      rewrite rsum_map_scal_r, kernel_projection, bker_B by assumption. reflexivity. }
  pose proof (interval_integral_gen m i s x0 p0 y0 y1 Hi) as H2.
  rewrite <- (is_RInt_unique _ _ _ _ H1), <- (is_RInt_unique _ _ _ _ H2). reflexivity. Qed.

(** ** sums over the grid intervals *)
Lemma ivsum_cons2 h x0 x1 xs p0 p1 ps : ivsum h (x0 :: x1 :: xs) (p0 :: p1 :: ps) = h x0 x1 p0 p1 + ivsum h (x1 :: xs) (p1 :: ps).
Proof. reflexivity. Qed.
Lemma ivsum_rsum {A} (w : A -> R) (h : A -> R -> R -> R -> R -> R) (l : list A) xs ps :
  rsum (map (fun j => w j * ivsum (h j) xs ps) l) = ivsum (fun x0 x1 p0 p1 => rsum (map (fun j => w j * h j x0 x1 p0 p1) l)) xs ps.
Proof. revert ps. induction xs as [|x0 xs IH]; intros ps; [apply rsum_map_0; intros; cbn [ivsum]; ring|].
  destruct xs as [|x1 xs]; [apply rsum_map_0; intros; destruct ps; cbn [ivsum]; ring|].
  destruct ps as [|p0 [|p1 ps]]; [apply rsum_map_0; intros; cbn [ivsum]; ring | apply rsum_map_0; intros; cbn [ivsum]; ring |].
  rewrite ivsum_cons2, <- IH, <- rsum_map_add. apply rsum_map_ext. intros j _. rewrite ivsum_cons2. ring. Qed.
Lemma ivsum_hadd h1 h2 xs ps : ivsum (fun a b c d => h1 a b c d + h2 a b c d) xs ps = ivsum h1 xs ps + ivsum h2 xs ps.
Proof. revert ps. induction xs as [|x0 xs IH]; intros ps; [cbn [ivsum]; ring|].
  destruct xs as [|x1 xs]; [destruct ps; cbn [ivsum]; ring|].
  destruct ps as [|p0 [|p1 ps]]; [cbn [ivsum]; ring | cbn [ivsum]; ring |].
  rewrite !ivsum_cons2, IH. ring. Qed.
Lemma ivsum_hscal h c xs ps : ivsum (fun a b p q => h a b p q * c) xs ps = ivsum h xs ps * c.
Proof. revert ps. induction xs as [|x0 xs IH]; intros ps; [cbn [ivsum]; ring|].
  destruct xs as [|x1 xs]; [destruct ps; cbn [ivsum]; ring|].
  destruct ps as [|p0 [|p1 ps]]; [cbn [ivsum]; ring | cbn [ivsum]; ring |].
  rewrite !ivsum_cons2, IH. ring. Qed.

(** ** the entries of the two semi-analytic 1-D functions in terms of [Eint] *)
Lemma entry_Eint n d (x0 x1 y0 y1 p0 p1 : R) : (d <= n)%nat ->
  let iv := ((x0, p0, (@beta_col R _ 1 n y0, @beta_col R _ 2 n y0)), (x1, p1, (@beta_col R _ 1 n y1, @beta_col R _ 2 n y1))) in
  a_c1 n iv * a_db1 d iv + a_s iv * INR (d + 1) / (INR (n + 1) * INR (n + 2)) * a_db2 d iv
  = Eint n d ((p1 - p0) / (x1 - x0)) x0 p0 y0 y1.
Proof. intros Hd iv. subst iv. unfold a_c1, a_s, a_db1, a_db2, Eint, tailB. numR. rewrite !nofnat_INR, !beta_col_nth by assumption. reflexivity. Qed.

Lemma analytic1D_Eint n xx (phi : list R) :
  analytic1D n xx phi
  = map (fun d => ivsum (fun x0 x1 p0 p1 => Eint n d ((p1 - p0) / (x1 - x0)) x0 p0 x0 x1) (map clip xx) phi) (seq 0 (S n)).
Proof. rewrite analytic1D_entries. apply map_ext_in. intros d Hd. apply in_seq in Hd. apply ivsum_ext. intros x0 x1 p0 p1.
  cbv zeta. apply (entry_Eint n d x0 x1 x0 x1 p0 p1). lia. Qed.

Lemma analytic_ax_Eint n xx (phi : list R) :
  analytic_ax n xx phi
  = map (fun d => ivsum (fun x0 x1 p0 p1 => Eint n d ((p1 - p0) / (x1 - x0)) x0 p0 (clip x0) (clip x1)) xx phi) (seq 0 (S n)).
Proof. rewrite analytic_ax_entries. apply map_ext_in. intros d Hd. apply in_seq in Hd.
  rewrite <- ivsum_hscal, <- ivsum_hadd. apply ivsum_ext. intros x0 x1 p0 p1.
  rewrite <- (entry_Eint n d x0 x1 (clip x0) (clip x1) p0 p1) by lia. cbv zeta. unfold Rdiv. ring. Qed.

(** ** 1-D theorems *)
Lemma project1_entries n m (F : nat -> R) :
  project1 n m (map F (seq 0 (S n))) = map (fun i => rsum (map (fun j => hyperw n m j i * F j) (seq 0 (S n)))) (seq 0 (S m)).
Proof. unfold project1. apply map_ext. intros i. rewrite map2_seq_map. reflexivity. Qed.

(** [_from_phi_1D_analytic]: every grid (also overshooting [0,1]), every phi, every m <= n *)
Theorem project_of_sample_analytic1D n m xx (phi : list R) : (m <= n)%nat ->
  project1 n m (analytic1D n xx phi) = analytic1D m xx phi.
Proof. intros Hm. rewrite !analytic1D_Eint, project1_entries. apply map_ext_in. intros i Hi. apply in_seq in Hi.
  rewrite (ivsum_rsum (fun j => hyperw n m j i) (fun j x0 x1 p0 p1 => Eint n j ((p1 - p0) / (x1 - x0)) x0 p0 x0 x1)).
  apply ivsum_ext. intros x0 x1 p0 p1. apply Eint_projection; lia. Qed.

(** one axis of [_from_phi_{2..5}D_linalg] (line through the unclipped points, integrated between the clipped ones) *)
Theorem project_of_sample_analytic_ax n m xx (phi : list R) : (m <= n)%nat ->
  project1 n m (analytic_ax n xx phi) = analytic_ax m xx phi.
Proof. intros Hm. rewrite !analytic_ax_Eint, project1_entries. apply map_ext_in. intros i Hi. apply in_seq in Hi.
  rewrite (ivsum_rsum (fun j => hyperw n m j i) (fun j x0 x1 p0 p1 => Eint n j ((p1 - p0) / (x1 - x0)) x0 p0 (clip x0) (clip x1))).
  apply ivsum_ext. intros x0 x1 p0 p1. apply Eint_projection; lia. Qed.

(** ** d dimensions: Spectrum.project on axis k of the flat C-order spectrum *)
Definition project_axis (k n m : nat) (shape : list nat) (fs : list R) : list R :=
  map_axis k (@project1 R _ n m) (S m) shape fs.

Lemma project1_linop n m : linop (S n) (S m) (@project1 R _ n m).
Proof. eapply linop_ext; [|apply (mat_linop (fun i j => hyperw n m j i))].
  intros v Hv. unfold project1, mat_apply. apply map_ext. intros i.
  rewrite (map2_nth_seq _ (seq 0 (S n)) v 0%nat 0) by (rewrite seq_length; lia). rewrite seq_length.
  apply rsum_map_ext. intros j Hj. apply in_seq in Hj. rewrite seq_nth by lia. reflexivity. Qed.

Lemma combine_self_ok (ops : list (@axop R)) : forall shape, length ops = length shape ->
  Forall2 (fun oo L => snd (fst oo) = snd (snd oo) /\ forall v : list R, length v = L -> fst (fst oo) v = fst (snd oo) v)
    (combine ops ops) shape.
Proof. induction ops as [|o ops IH]; intros shape E; (destruct shape as [|L rest]; [try discriminate|try discriminate]).
  - constructor.
  - cbn [combine]. constructor; [split; reflexivity | apply IH; cbn in E; lia]. Qed.
Lemma replace_nth_ext_ok (T1 T2 : list R -> list R) nout : forall (ops : list (@axop R)) k shape, length ops = length shape ->
  (forall v, length v = nth k shape 0%nat -> T1 v = T2 v) ->
  Forall2 (fun oo L => snd (fst oo) = snd (snd oo) /\ forall v : list R, length v = L -> fst (fst oo) v = fst (snd oo) v)
    (combine (replace_nth k (T1, nout) ops) (replace_nth k (T2, nout) ops)) shape.
Proof. induction ops as [|o ops IH]; intros k shape E HT; (destruct shape as [|L rest]; [try discriminate|try discriminate]).
  - constructor.
  - destruct k as [|k]; cbn [replace_nth combine].
    + constructor; [split; [reflexivity | exact HT] | apply combine_self_ok; cbn in E; lia].
    + constructor; [split; reflexivity | apply IH; [cbn in E; lia | exact HT]]. Qed.

(** projecting axis k of a d-dimensional spectrum = the spectrum with the k-th sample size replaced, for every list of
    linear 1-D operators whose k-th member has the 1-D property *)
Theorem project_of_sample_nd : forall k ops shape T n T' m phi,
  ops_ok ops shape -> (k < length ops)%nat -> nth k ops axop0 = (T, S n) ->
  (forall v, length v = nth k shape 0%nat -> project1 n m (T v) = T' v) -> length phi = prodl shape ->
  project_axis k n m (map snd ops) (nd ops shape phi) = nd (replace_nth k (T', S m) ops) shape phi.
Proof. intros k ops shape T n T' m phi Hok Hk Eo HP Hphi. unfold project_axis.
  rewrite (nd_post_axis (project1 n m) (S m) k ops shape phi Hok Hk) by (try assumption; rewrite Eo; apply project1_linop).
  rewrite Eo. cbn [fst].
  pose proof (ops_ok_length _ _ Hok) as Lo.
  apply nd_ext_len; rewrite ?replace_nth_length; try assumption.
  apply replace_nth_ext_ok; assumption. Qed.

(** the model's n-D semi-analytic path *)
Lemma linalg_ops_replace : forall k ns (xxs : list (list R)) m, length ns = length xxs ->
  replace_nth k (analytic_ax m (nth k xxs []), S m) (linalg_ops ns xxs) = linalg_ops (replace_nth k m ns) xxs.
Proof. induction k as [|k IH]; intros ns xxs m E; (destruct ns as [|n ns]; [reflexivity|]); (destruct xxs as [|xx xxs]; [discriminate|]);
    unfold linalg_ops; cbn [replace_nth]; rewrite !map2_cons; cbn [replace_nth nth]; [reflexivity|].
  f_equal. apply IH. cbn in E; lia. Qed.
Theorem project_of_sample_linalg : forall k ns xxs shape m phi,
  length ns = length shape -> length xxs = length shape -> (k < length shape)%nat -> (m <= nth k ns 0)%nat ->
  length phi = prodl shape ->
  project_axis k (nth k ns 0%nat) m (map S ns) (nd (linalg_ops ns xxs) shape phi)
  = nd (linalg_ops (replace_nth k m ns) xxs) shape phi.
Proof. intros k ns xxs shape m phi Hn Hx Hk Hm Hphi.
  rewrite <- (linalg_ops_outshape ns xxs) by lia. rewrite <- linalg_ops_replace by lia.
  apply (project_of_sample_nd k (linalg_ops ns xxs) shape (analytic_ax (nth k ns 0%nat) (nth k xxs []))).
  - apply linalg_ops_ok; assumption.
  - rewrite (ops_ok_length _ _ (linalg_ops_ok ns xxs shape Hn Hx)). assumption.
  - apply linalg_ops_nth; lia.
  - intros v _. apply project_of_sample_analytic_ax. assumption.
  - assumption. Qed.

(** the d-dimensional direct (trapezoid) paths, with or without ascertainment *)
Section DirectND.
  Variable het : option nat.
  Let hetb (k : nat) : bool := match het with Some h => Nat.eqb h k | None => false end.
  Let dops (s : nat) (ns : list nat) (xxs : list (list R)) : list (@axop R) :=
    map2 (fun k nx => (@direct_ax R _ (match het with Some h => Nat.eqb h k | None => false end) (fst nx) (snd nx), S (fst nx)))
         (seq s (length ns)) (combine ns xxs).

  Lemma dops_nth : forall k s ns xxs, length ns = length xxs -> (k < length ns)%nat ->
    nth k (dops s ns xxs) axop0 = (direct_ax (hetb (s + k)) (nth k ns 0%nat) (nth k xxs []), S (nth k ns 0%nat)).
  Proof. induction k as [|k IH]; intros s ns xxs E Hk; (destruct ns as [|n ns]; [cbn in Hk; lia|]); (destruct xxs as [|xx xxs]; [discriminate|]);
      unfold dops; cbn [length seq combine]; rewrite map2_cons; cbn [nth fst snd].
    - rewrite Nat.add_0_r. reflexivity.
    - rewrite <- plus_n_Sm. apply (IH (S s)); cbn in *; lia. Qed.
  Lemma dops_replace : forall k s ns xxs m, length ns = length xxs ->
    replace_nth k (direct_ax (hetb (s + k)) m (nth k xxs []), S m) (dops s ns xxs) = dops s (replace_nth k m ns) xxs.
  Proof. induction k as [|k IH]; intros s ns xxs m E; (destruct ns as [|n ns]; [reflexivity|]); (destruct xxs as [|xx xxs]; [discriminate|]);
      unfold dops; cbn [replace_nth length seq combine]; rewrite !map2_cons; cbn [replace_nth nth fst snd].
    - rewrite Nat.add_0_r. reflexivity.
    - f_equal. rewrite <- plus_n_Sm. apply (IH (S s)). cbn in E; lia. Qed.
  Lemma dops_outshape : forall ns s xxs, length ns = length xxs -> map snd (dops s ns xxs) = map S ns.
  Proof. induction ns as [|n ns IH]; intros s xxs E; [reflexivity|]. destruct xxs as [|xx xxs]; [discriminate|].
    unfold dops. cbn [length seq combine]. rewrite map2_cons. cbn [map fst snd]. f_equal. apply (IH (S s)). cbn in E; lia. Qed.
End DirectND.

Lemma Forall2_nth_len : forall k (xxs : list (list R)) shape, Forall2 (fun xx L => length xx = L) xxs shape -> (k < length shape)%nat ->
  length (nth k xxs []) = nth k shape 0%nat.
Proof. induction k as [|k IH]; intros xxs shape H Hk; (destruct H as [|xx L xxs shape HxL H]; [cbn in Hk; lia|]); cbn [nth]; [assumption|].
  apply IH; [assumption | cbn in Hk; lia]. Qed.

Theorem project_of_sample_direct_nd : forall het k ns xxs shape m phi,
  Forall2 (fun xx L => length xx = L) xxs shape -> length ns = length shape -> (k < length shape)%nat ->
  (m <= nth k ns 0)%nat -> length phi = prodl shape ->
  project_axis k (nth k ns 0%nat) m (map S ns) (nd (direct_ops het ns xxs) shape phi)
  = nd (direct_ops het (replace_nth k m ns) xxs) shape phi.
Proof. intros het k ns xxs shape m phi HL Hn Hk Hm Hphi.
  assert (Hx : length xxs = length shape) by (clear -HL; induction HL; cbn; congruence).
  pose proof (dops_outshape het ns 0 xxs ltac:(lia)) as E1. cbv beta zeta in E1.
  pose proof (dops_replace het k 0 ns xxs m ltac:(lia)) as E2. cbv zeta in E2.
  pose proof (dops_nth het k 0 ns xxs ltac:(lia) ltac:(lia)) as E3. cbv zeta in E3. cbn [Nat.add] in E2, E3.
  change (map2 _ (seq 0 (length ns)) (combine ns xxs)) with (direct_ops het ns xxs) in E1, E2, E3.
  change (map2 _ (seq 0 (length (replace_nth k m ns))) (combine (replace_nth k m ns) xxs)) with (direct_ops het (replace_nth k m ns) xxs) in E2.
  rewrite <- E1, <- E2.
  eapply (project_of_sample_nd k (direct_ops het ns xxs) shape).
  - apply direct_ops_ok; assumption.
  - rewrite (ops_ok_length _ _ (direct_ops_ok het ns xxs shape Hn Hx)). assumption.
  - exact E3.
  - intros v Hv. apply project_of_sample_direct; [assumption|]. rewrite (Forall2_nth_len k xxs shape HL Hk). symmetry. assumption.
  - assumption. Qed.
