(** The compiled bivariate densities (dadi/DFE/PDFs.c) equal their reference formulas (dadi/DFE/PDFs.py).
    The formulas below are the hand models; harness/translate/cexpr.py and the Python translator regenerate the
    terms from the current sources on every run and prove them equal to these (generated obligations). *)
From Coq Require Import Reals Lra.
Local Open Scope R_scope.

(** PDFs.c biv_lognormal, inner loop body with delx, dely, pre inlined *)
Definition biv_lognormal_c (mu1 mu2 sigma1 sigma2 rho x y : R) : R :=
  let delx := (ln x - mu1) / sigma1 in
  let dely := (ln y - mu2) / sigma2 in
  let pre := 2 * PI * sigma1 * sigma2 * sqrt (1 - rho * rho) in
  let norm := pre * x * y in
  let q := (delx * delx - 2 * rho * delx * dely + dely * dely) / (1 - rho * rho) in
  exp (- q / 2) / norm.

(** PDFs.py biv_lognormal_py, entry (i,j) *)
Definition biv_lognormal_py (mu1 mu2 sigma1 sigma2 rho x y : R) : R :=
  let delx := (ln x - mu1) / sigma1 in
  let dely := (ln y - mu2) / sigma2 in
  let norm := 2 * PI * sigma1 * sigma2 * sqrt (1 - rho ^ 2) * (x * y) in
  let q := (delx ^ 2 - 2 * rho * delx * dely + dely ^ 2) / (1 - rho ^ 2) in
  exp (- q / 2) / norm.

Ltac exp_over_norm :=
  match goal with |- exp ?a / ?n = exp ?b / ?m =>
    let H := fresh in assert (H : a = b) by (unfold Rdiv; ring); rewrite H; f_equal; ring end.

Lemma biv_lognormal_c_equals_py mu1 mu2 sigma1 sigma2 rho x y :
  biv_lognormal_c mu1 mu2 sigma1 sigma2 rho x y = biv_lognormal_py mu1 mu2 sigma1 sigma2 rho x y.
Proof.
  unfold biv_lognormal_c, biv_lognormal_py. cbv zeta.
  replace (rho ^ 2) with (rho * rho) by ring. exp_over_norm.
Qed.

(** the symmetric three-parameter form (mu, sigma, rho) used by both sources *)
Lemma biv_lognormal3_c_equals_py mu sigma rho x y :
  biv_lognormal_c mu mu sigma sigma rho x y = biv_lognormal_py mu mu sigma sigma rho x y.
Proof. apply biv_lognormal_c_equals_py. Qed.

(** it is symmetric under exchange of the two arguments (what the symmetry shortcut of Cache2D.integrate relies on) *)
Lemma biv_lognormal3_symmetric mu sigma rho x y :
  biv_lognormal_py mu mu sigma sigma rho x y = biv_lognormal_py mu mu sigma sigma rho y x.
Proof.
  unfold biv_lognormal_py. cbv zeta. exp_over_norm.
Qed.

Section Gamma.
  Variable Gam : R -> R.      (* the gamma function: scipy's in PDFs.py, the Lanczos approximation gamma_func in PDFs.c *)

  (** PDFs.c biv_ind_gamma: margx[ii]*margy[jj] with cx, cy inlined; pow = Rpower on positive bases *)
  Definition gamma_marg_c (alpha beta x : R) : R :=
    Rpower x (alpha - 1) * exp (- x / beta) / (Rpower beta alpha * Gam alpha).
  Definition biv_ind_gamma_c (alpha1 alpha2 beta1 beta2 x y : R) : R :=
    gamma_marg_c alpha1 beta1 x * gamma_marg_c alpha2 beta2 y.

  (** scipy.stats.gamma.pdf(x, a, scale=b) as documented: f(x/b; a)/b with f(z; a) = z^(a-1) e^(-z) / Gamma(a) *)
  Definition gamma_pdf_scipy (x a b : R) : R :=
    Rpower (x / b) (a - 1) * exp (- (x / b)) / Gam a / b.
  (** PDFs.py biv_ind_gamma_py: numpy.outer(xmarg, ymarg)[i,j] *)
  Definition biv_ind_gamma_py (alpha1 alpha2 beta1 beta2 x y : R) : R :=
    gamma_pdf_scipy x alpha1 beta1 * gamma_pdf_scipy y alpha2 beta2.

  Lemma Rpower_div x b c : 0 < x -> 0 < b -> Rpower (x / b) c = Rpower x c / Rpower b c.
  Proof.
    intros Hx Hb. unfold Rpower, Rdiv. rewrite ln_mult by (try apply Rinv_0_lt_compat; assumption).
    rewrite ln_Rinv by assumption. rewrite Rmult_plus_distr_l, exp_plus.
    replace (c * - ln b) with (- (c * ln b)) by ring. rewrite exp_Ropp. reflexivity.
  Qed.

  Lemma gamma_marg_c_equals_scipy alpha beta x : 0 < x -> 0 < beta -> Gam alpha <> 0 ->
    gamma_marg_c alpha beta x = gamma_pdf_scipy x alpha beta.
  Proof.
    intros Hx Hb Hg. unfold gamma_marg_c, gamma_pdf_scipy.
    rewrite Rpower_div by assumption.
    assert (Hpb : Rpower beta alpha = Rpower beta (alpha - 1) * beta).
    { rewrite <- (Rpower_1 beta Hb) at 3. rewrite <- Rpower_plus. f_equal. ring. }
    rewrite Hpb.
    assert (Hp : Rpower beta (alpha - 1) <> 0) by (unfold Rpower; apply Rgt_not_eq, exp_pos).
    replace (- x / beta) with (- (x / beta)) by (field; lra).
    field. repeat split; try assumption; lra.
  Qed.

  Lemma biv_ind_gamma_c_equals_py alpha1 alpha2 beta1 beta2 x y :
    0 < x -> 0 < y -> 0 < beta1 -> 0 < beta2 -> Gam alpha1 <> 0 -> Gam alpha2 <> 0 ->
    biv_ind_gamma_c alpha1 alpha2 beta1 beta2 x y = biv_ind_gamma_py alpha1 alpha2 beta1 beta2 x y.
  Proof.
    intros. unfold biv_ind_gamma_c, biv_ind_gamma_py. rewrite !gamma_marg_c_equals_scipy by assumption. reflexivity.
  Qed.
End Gamma.
