(** C18: Pascal-rule binomial coefficients on [nat] (specification only; the model runs [binQ]). *)
From Coq Require Import Arith List.
Import ListNotations.

Fixpoint binN (n k : nat) : nat :=
  match n, k with
  | _, O => 1
  | O, S _ => 0
  | S n', S k' => binN n' k' + binN n' (S k')
  end.
