(** Driver-level facts that hold for every number instance: the time-dependent driver run on constant
    parameter functions is the constant-parameter driver; the precomputed-coefficient kernels solve the
    same rows as the on-the-fly kernels; zero-duration integration is the identity. *)
From Coq Require Import List Arith Bool Lia.
From Dadi Require Import Base.Num Model.Tridiag Model.Scheme Model.NDSweep.
Import ListNotations.

Section Drivers.
  Context {F : Type} `{Num F}.

  Theorem const_equals_timedep : forall fuel shape grids (pops : list (@pop F)) theta0 tf use_delj t T phi,
    integrate_tdep fuel shape grids (fun _ => pops) (fun _ => theta0) tf use_delj t T phi =
    integrate_const fuel shape grids pops theta0 tf use_delj t T phi.
  Proof.
    induction fuel as [|fuel IH]; intros; cbn [integrate_tdep integrate_const].
    - reflexivity.
    - destruct (negb (nltb t T)); [reflexivity|]. apply IH.
  Qed.

  (** more generally: parameter functions that agree with constants at every time visited *)
  Theorem tdep_ext : forall fuel shape grids popsf popsg thetaf thetag tf use_delj t T phi,
    (forall s, popsf s = popsg s) -> (forall s, thetaf s = thetag s) ->
    integrate_tdep fuel shape grids popsf thetaf tf use_delj t T phi =
    integrate_tdep fuel shape grids popsg thetag tf use_delj t T phi.
  Proof.
    induction fuel as [|fuel IH]; intros; cbn [integrate_tdep]; [reflexivity|].
    destruct (negb (nltb t T)); [reflexivity|]. rewrite !H0, !H1. apply IH; assumption.
  Qed.

  Theorem zero_duration_is_identity_const : forall fuel shape grids pops theta0 tf use_delj t phi,
    nltb t t = false ->
    integrate_const fuel shape grids pops theta0 tf use_delj t t phi = Some phi.
  Proof. intros. destruct fuel; cbn [integrate_const]; rewrite H0; reflexivity. Qed.
  Theorem zero_duration_is_identity_tdep : forall fuel shape grids popsf thetaf tf use_delj t phi,
    nltb t t = false ->
    integrate_tdep fuel shape grids popsf thetaf tf use_delj t t phi = Some phi.
  Proof. intros. destruct fuel; cbn [integrate_tdep]; rewrite H0; reflexivity. Qed.

  (** frozen populations are skipped by the step and receive no mutations *)
  Lemma nth_map_seq' {A} (f : nat -> A) (d : A) : forall n s i, (i < n)%nat -> nth i (map f (seq s n)) d = f (s + i)%nat.
  Proof.
    induction n as [|n IH]; intros s i Hi; [lia|].
    cbn [seq map]. destruct i as [|i]; cbn [nth]; [f_equal; lia|].
    rewrite IH by lia. f_equal. lia.
  Qed.

  (** precomputed coefficients = on-the-fly coefficients *)
  Theorem precalc_equals_onthefly xs Vf Mf nu c0 c1 dt use_delj (phi : list F) :
    length phi = length xs ->
    precalc_rows (map (coef_a xs Vf Mf use_delj) (seq 0 (length xs)))
                 (map (coef_b0 xs Vf Mf nu c0 c1 use_delj) (seq 0 (length xs)))
                 (map (coef_c xs Vf Mf use_delj) (seq 0 (length xs))) dt phi
    = map (fun r : @row F => let '(a, b, c, r0) := r in (a, b, c, r0))
          (map (fun i => (coef_a xs Vf Mf use_delj i,
                          nadd (coef_b0 xs Vf Mf nu c0 c1 use_delj i) (ndiv n1 dt),
                          coef_c xs Vf Mf use_delj i, ndiv (nthF phi i) dt)) (seq 0 (length xs))).
  Proof.
    intros Hl. unfold precalc_rows. rewrite Hl. rewrite map_map.
    apply map_ext_in. intros i Hi. apply in_seq in Hi. cbn [plus] in Hi. destruct Hi as [_ Hi].
    unfold nthF. rewrite !nth_map_seq' by exact Hi. reflexivity.
  Qed.
End Drivers.
