(** C08, array level (instances): the data array over (R, +, 0) with coefficients [pcoef], the mask array over
    (bool, ||, false) with coefficients [pmask]; the theorems quoted by Props/C08.v. *)
From Coq Require Import ZArith Reals List Lra Lia Bool Arith.
From Dadi Require Import Base.Num Base.NumR Model.Projection Proofs.ProjBase Proofs.ProjH Proofs.ProjTensor.
Import ListNotations.
Local Open Scope R_scope.

Notation Rproj := (proj_axis (A:=R) 0 Rplus).
Notation Bproj := (proj_axis (A:=bool) false orb).
Notation Rtotal := (ttotal (A:=R) 0 Rplus).
Notation Rget := (tget (A:=R) 0).
Notation Bget := (tget (A:=bool) false).

(** the two monoids *)
Lemma Rc a b : a + b = b + a. Proof. ring. Qed.
Lemma Ra a b c : a + (b + c) = a + b + c. Proof. ring. Qed.
Lemma R0 a : 0 + a = a. Proof. ring. Qed.
Lemma Bc a b : a || b = b || a. Proof. apply orb_comm. Qed.
Lemma Ba a b c : a || (b || c) = a || b || c. Proof. apply orb_assoc. Qed.
Lemma B0 a : false || a = a. Proof. reflexivity. Qed.

Lemma asum_rsum (u : nat -> R) k : bsum 0 Rplus 0 u (seq 0 k) = rsum u k.
Proof. induction k; [reflexivity|]. rewrite seq_S, (bsum_app 0 Rplus Ra R0 0), IHk. cbn. ring. Qed.

Lemma osum_true (u : nat -> bool) l : bsum false orb 0 u l = true <-> exists k, In k l /\ u k = true.
Proof. induction l; cbn.
  - split; [discriminate | intros (k & [] & _)].
  - rewrite orb_true_iff, IHl. split.
    + intros [Hu|(k & Hk & Hu)]; [exists a; auto | exists k; auto].
    + intros (k & [->|Hk] & Hu); [left; exact Hu | right; exists k; auto]. Qed.

(** coefficients *)
Lemma pcoef_additive n m i j : additive 0 Rplus (pcoef (F:=R) n m i j).
Proof. unfold pcoef. split; [|intros a b]; destruct (in_window n m j i); numR; ring. Qed.
Lemma pmask_additive n m i j : additive false orb (pmask n m i j).
Proof. unfold pmask. split; [|intros a b]; destruct (in_window n m j i); reflexivity. Qed.
Lemma pcoef_commute n m i j n' m' i' j' v :
  pcoef (F:=R) n m i j (pcoef n' m' i' j' v) = pcoef n' m' i' j' (pcoef n m i j v).
Proof. unfold pcoef. destruct (in_window n m j i); destruct (in_window n' m' j' i'); numR; ring. Qed.
Lemma pmask_commute n m i j n' m' i' j' v :
  pmask n m i j (pmask n' m' i' j' v) = pmask n' m' i' j' (pmask n m i j v).
Proof. unfold pmask. destruct (in_window n m j i); destruct (in_window n' m' j' i'); reflexivity. Qed.

(** ** every projected entry is the hypergeometric expectation along the projected axis *)
Theorem project_entry_hypergeometric d ax n m sh (x : tens R d) idx :
  wf d sh x -> (ax < d)%nat -> length idx = d -> nth ax sh 0%nat = S n -> (m <= n)%nat -> (nth ax idx 0 <= m)%nat ->
  Rget d idx (Rproj d ax (pcoef n m) m x)
  = rsum (fun j => H n m j (nth ax idx 0%nat) * Rget d (upd ax j idx) x) (S n).
Proof. intros Hw Hax Hlen Hn Hm Hi.
  rewrite (proj_axis_entry 0 Rplus Rc R0 d ax (pcoef n m) m sh x idx Hw Hax Hlen Hi).
  - rewrite Hn, asum_rsum. apply rsum_ext. intros j Hj. rewrite pcoef_eq by lia. ring.
  - intros. apply pcoef_additive. Qed.

(** ** a masked source entry masks exactly the entries it can contribute to *)
Theorem mask_spreads_exactly d ax n m sh (mk : tens bool d) idx :
  wf d sh mk -> (ax < d)%nat -> length idx = d -> nth ax sh 0%nat = S n -> (m <= n)%nat -> (nth ax idx 0 <= m)%nat ->
  Bget d idx (Bproj d ax (pmask n m) m mk) = true
  <-> exists j, (j <= n)%nat /\ Bget d (upd ax j idx) mk = true /\ 0 < H n m j (nth ax idx 0%nat).
Proof. intros Hw Hax Hlen Hn Hm Hi.
  rewrite (proj_axis_entry false orb Bc B0 d ax (pmask n m) m sh mk idx Hw Hax Hlen Hi).
  2:{ intros. apply pmask_additive. }
  rewrite Hn, osum_true. split.
  - intros (j & Hj & Hu). apply in_seq in Hj. exists j. unfold pmask in Hu.
    destruct (in_window n m j (nth ax idx 0%nat)) eqn:E; [|discriminate].
    repeat split; [lia|exact Hu|]. apply (proj2 (H_pos_iff n m j _ Hm ltac:(lia))). exact E.
  - intros (j & Hj & Hu & Hp). exists j. split; [apply in_seq; lia|]. unfold pmask.
    apply (proj1 (H_pos_iff n m j _ Hm Hj)) in Hp. rewrite Hp. exact Hu. Qed.

(** ** conservation of the total *)
Theorem project_axis_conserves_total d ax n m sh (x : tens R d) :
  wf d sh x -> nth ax sh 0%nat = S n -> (m <= n)%nat ->
  Rtotal d (Rproj d ax (pcoef n m) m x) = Rtotal d x.
Proof. intros Hw Hn Hm. apply (proj_axis_total 0 Rplus Rc Ra R0 d ax (pcoef n m) m sh x Hw).
  intros j v Hj. rewrite Hn in Hj. rewrite asum_rsum.
  rewrite (rsum_ext _ (fun i => v * H n m j i)) by (intros; apply pcoef_eq; lia).
  rewrite rsum_scal, H_sums_to_one by lia. apply Rmult_1_r. Qed.

(** ** axes can be projected in any order (data and mask) *)
Theorem axes_commute_data d a b n m n' m' sh (x : tens R d) :
  a <> b -> wf d sh x -> Forall (fun L => 1 <= L)%nat sh ->
  Rproj d a (pcoef n m) m (Rproj d b (pcoef n' m') m' x) = Rproj d b (pcoef n' m') m' (Rproj d a (pcoef n m) m x).
Proof. intros. apply (proj_axis_commute 0 Rplus Rc Ra R0 d a b _ _ m m' sh); auto;
  intros; first [apply pcoef_additive | apply pcoef_commute]. Qed.
Theorem axes_commute_mask d a b n m n' m' sh (x : tens bool d) :
  a <> b -> wf d sh x -> Forall (fun L => 1 <= L)%nat sh ->
  Bproj d a (pmask n m) m (Bproj d b (pmask n' m') m' x) = Bproj d b (pmask n' m') m' (Bproj d a (pmask n m) m x).
Proof. intros. apply (proj_axis_commute false orb Bc Ba B0 d a b _ _ m m' sh); auto;
  intros; first [apply pmask_additive | apply pmask_commute]. Qed.

(** ** two stages n -> l -> m equal one stage n -> m (data and mask) *)
Theorem two_stage_data d ax n l m sh (x : tens R d) :
  wf d sh x -> nth ax sh 0%nat = S n -> (m <= l)%nat -> (l <= n)%nat ->
  Rproj d ax (pcoef l m) m (Rproj d ax (pcoef n l) l x) = Rproj d ax (pcoef n m) m x.
Proof. intros Hw Hn Hml Hln.
  apply (proj_axis_compose 0 Rplus Rc Ra R0 d ax _ _ _ l m sh x Hw); [intros; apply pcoef_additive|].
  intros i j v Hi Hj. rewrite Hn in Hj. rewrite asum_rsum.
  rewrite (rsum_ext _ (fun k => v * (H l m k i * H n l j k))).
  - rewrite rsum_scal, H_compose by lia. symmetry. apply pcoef_eq; lia.
  - intros k Hk. rewrite !pcoef_eq by lia. ring. Qed.

Lemma window_compose n l m i j : (m <= l)%nat -> (l <= n)%nat -> (i <= m)%nat -> (j <= n)%nat ->
  in_window n m j i = true <-> exists k, (k < l + 1)%nat /\ in_window l m k i = true /\ in_window n l j k = true.
Proof. intros Hml Hln Hi Hj. split.
  - intros Hw. apply in_window_spec in Hw; try lia. exists (Nat.min j (i + (l - m))).
    split; [lia|]. split; apply in_window_spec; lia.
  - intros (k & Hk & W1 & W2). apply in_window_spec in W1; try lia. apply in_window_spec in W2; try lia.
    apply in_window_spec; lia. Qed.

Theorem two_stage_mask d ax n l m sh (x : tens bool d) :
  wf d sh x -> nth ax sh 0%nat = S n -> (m <= l)%nat -> (l <= n)%nat ->
  Bproj d ax (pmask l m) m (Bproj d ax (pmask n l) l x) = Bproj d ax (pmask n m) m x.
Proof. intros Hw Hn Hml Hln.
  apply (proj_axis_compose false orb Bc Ba B0 d ax _ _ _ l m sh x Hw); [intros; apply pmask_additive|].
  intros i j v Hi Hj. rewrite Hn in Hj. apply eq_true_iff_eq. rewrite osum_true. unfold pmask.
  pose proof (window_compose n l m i j Hml Hln Hi ltac:(lia)) as W. split.
  - intros (k & Hk & Hu). apply in_seq in Hk.
    destruct (in_window l m k i) eqn:E1; [|discriminate]. destruct (in_window n l j k) eqn:E2; [|discriminate].
    replace (in_window n m j i) with true; [exact Hu|]. symmetry. apply W. exists k. repeat split; auto; lia.
  - intros Hu. destruct (in_window n m j i) eqn:E; [|discriminate].
    destruct (proj1 W eq_refl) as (k & Hk & E1 & E2). exists k. split; [apply in_seq; lia|]. rewrite E1, E2. exact Hu. Qed.

(** ** projection commutes with reversing all axes (hence folded spectra project consistently) *)
Lemma in_window_reversal n m j i : (m <= n)%nat -> (j <= n)%nat -> (i <= m)%nat ->
  in_window n m (n - j) (m - i) = in_window n m j i.
Proof. intros. apply eq_true_iff_eq. rewrite !in_window_spec by lia. lia. Qed.

Theorem projection_commutes_with_reversal_data d ax n m sh (x : tens R d) :
  wf d sh x -> (ax < d)%nat -> nth ax sh 0%nat = S n -> (m <= n)%nat ->
  Rproj d ax (pcoef n m) m (trev d x) = trev d (Rproj d ax (pcoef n m) m x).
Proof. intros Hw Hax Hn Hm. apply (proj_axis_trev 0 Rplus Rc Ra R0 d ax _ m n sh x Hw Hax Hn).
  intros i j v Hi Hj. rewrite !pcoef_eq by lia. rewrite H_reversal by lia. reflexivity. Qed.
Theorem projection_commutes_with_reversal_mask d ax n m sh (x : tens bool d) :
  wf d sh x -> (ax < d)%nat -> nth ax sh 0%nat = S n -> (m <= n)%nat ->
  Bproj d ax (pmask n m) m (trev d x) = trev d (Bproj d ax (pmask n m) m x).
Proof. intros Hw Hax Hn Hm. apply (proj_axis_trev false orb Bc Ba B0 d ax _ m n sh x Hw Hax Hn).
  intros i j v Hi Hj. unfold pmask. rewrite in_window_reversal by lia. reflexivity. Qed.

(** ** the neutral spectrum 1/j is a fixed point (interior entries) *)
Lemma rsum_two f N a b : (a < N)%nat -> (b < N)%nat -> a <> b ->
  (forall t, (t < N)%nat -> t <> a -> t <> b -> f t = 0) -> rsum f N = f a + f b.
Proof. intros Ha Hb Hab Hz.
  rewrite (rsum_ext f (fun t => (if (t =? a)%nat then f a else 0) + (if (t =? b)%nat then f b else 0))).
  - rewrite rsum_add. rewrite (rsum_single _ N a), (rsum_single _ N b); auto.
    + rewrite !Nat.eqb_refl. reflexivity.
    + intros t _ Ht. destruct (Nat.eqb_spec t b); [contradiction|reflexivity].
    + intros t _ Ht. destruct (Nat.eqb_spec t a); [contradiction|reflexivity].
  - intros t Ht. destruct (Nat.eqb_spec t a) as [Ea|Hna]; destruct (Nat.eqb_spec t b) as [Eb|Hnb].
    + congruence. + subst; ring. + subst; ring. + rewrite Hz by assumption. ring. Qed.

Lemma neutral_weights : forall k n m (xs : nat -> R), n = (m + k)%nat ->
  (forall j, (1 <= j <= n - 1)%nat -> xs j = / INR j) ->
  forall i, (1 <= i <= m - 1)%nat -> rsum (fun j => H n m j i * xs j) (S n) = / INR i.
Proof. induction k; intros n m xs Hn Hx i Hi.
  - assert (n = m) by lia. subst m. rewrite (rsum_single _ (S n) i) by
      first [lia | intros j Hj Hne; rewrite H_identity by lia; destruct (Nat.eqb_spec i j); [congruence|ring]].
    rewrite H_identity, Nat.eqb_refl, Hx by lia. ring.
  - assert (IH := IHk n (S m) xs ltac:(lia) Hx).
    rewrite (rsum_ext _ (fun j => rsum (fun t => H (S m) m t i * (H n (S m) j t * xs j)) (S m + 1))).
    2:{ intros j Hj. rewrite <- (H_compose n (S m) m j i) by lia.
        rewrite (Rmult_comm _ (xs j)), <- rsum_scal. apply rsum_ext. intros; ring. }
    rewrite rsum_swap.
    rewrite (rsum_ext _ (fun t => H (S m) m t i * rsum (fun j => H n (S m) j t * xs j) (S n)))
      by (intros; apply rsum_scal).
    pose proof (H_step_same (S m) i ltac:(lia) ltac:(lia)) as E1.
    pose proof (H_step_next (S m) i ltac:(lia) ltac:(lia)) as E2.
    replace (S m - 1)%nat with m in * by lia.
    rewrite (rsum_two _ (S m + 1) i (S i)); try lia.
    + rewrite E1, E2, !IH by lia. rewrite minus_INR by lia.
      assert (INR i <> 0) by (apply not_0_INR; lia). assert (INR (S m) <> 0) by (apply not_0_INR; lia).
      assert (INR (S i) <> 0) by (apply not_0_INR; lia). field; auto.
    + intros t Ht H1 H2. pose proof (H_step_other (S m) t i ltac:(lia) ltac:(lia) H1 H2) as E3.
      replace (S m - 1)%nat with m in E3 by lia. rewrite E3. ring. Qed.

Theorem neutral_fixed_point n m (xs : list R) :
  length xs = S n -> (m <= n)%nat -> (forall j, (1 <= j <= n - 1)%nat -> nth j xs 0 = / INR j) ->
  forall i, (1 <= i <= m - 1)%nat -> nth i (Rproj 1 0 (pcoef n m) m xs) 0 = / INR i.
Proof. intros HL Hm Hx i Hi.
  assert (Hw : wf 1 [S n] xs) by (split; [exact HL | apply Forall_forall; reflexivity]).
  pose proof (project_entry_hypergeometric 1 0 n m [S n] xs [i] Hw ltac:(lia) eq_refl eq_refl Hm ltac:(cbn; lia)) as E.
  cbn [nth] in E. change (nth i (Rproj 1 0 (pcoef n m) m xs) 0 = rsum (fun j => H n m j i * nth j xs 0) (S n)) in E.
  rewrite E. apply (neutral_weights (n - m) n m (fun j => nth j xs 0)); auto. lia. Qed.

(** ** upward projection is refused *)
Theorem project_one_axis_upward d m ax (x : tens R d) mk :
  (nth ax (sample_sizes d x) 0 < m)%nat -> project_one_axis d m ax x mk = None.
Proof. intros Hlt. unfold project_one_axis. destruct (Nat.ltb_spec (nth ax (sample_sizes d x) 0%nat) m); [reflexivity|lia]. Qed.

Theorem project_upward_refused d ns folded (x : tens R d) mk :
  Exists (fun p => (snd p < fst p)%nat) (combine ns (sample_sizes d x)) -> project d ns folded x mk = None.
Proof. intros He. unfold project. destruct (negb (length ns =? d)%nat); [reflexivity|].
  replace (existsb _ _) with true; [reflexivity|]. symmetry. apply existsb_exists. apply Exists_exists in He.
  destruct He as (p & Hin & Hp). exists p. split; [exact Hin|]. apply Nat.ltb_lt. exact Hp. Qed.

(** ** the whole (unfolded) Spectrum.project conserves the total, any number of axes *)
Lemma wf_length {B} d : forall sh (x : tens B d), wf d sh x -> Forall (fun L => 1 <= L)%nat sh -> length sh = d.
Proof. induction d; intros sh x Hw Hp; [cbn in Hw; subst; reflexivity|].
  destruct sh as [|L sh]; [contradiction|]. destruct Hw as [HL Hall]. apply Forall_cons_iff in Hp. destruct Hp as [HpL Hp].
  change (list (tens B d)) in (type of x). destruct x as [|y t]; [cbn in HL; lia|].
  cbn [length]. f_equal. apply (IHd sh y); [inversion Hall; assumption | exact Hp]. Qed.

Lemma wf_tshape {B} d : forall sh (x : tens B d), wf d sh x -> Forall (fun L => 1 <= L)%nat sh -> tshape d x = sh.
Proof. induction d; intros sh x Hw Hp; [cbn in Hw; subst; reflexivity|].
  destruct sh as [|L sh]; [contradiction|]. destruct Hw as [HL Hall]. apply Forall_cons_iff in Hp. destruct Hp as [HpL Hp].
  change (list (tens B d)) in (type of x). destruct x as [|y t]; [cbn in HL; lia|].
  cbn [tshape]. f_equal; [exact HL|]. apply (IHd sh y); [inversion Hall; assumption | exact Hp]. Qed.

Lemma set_nth_pos ax v sh : (1 <= v)%nat -> Forall (fun L => 1 <= L)%nat sh -> Forall (fun L => 1 <= L)%nat (set_nth ax v sh).
Proof. intros Hv. revert ax. induction sh; intros ax Hp; [destruct ax; constructor|]. apply Forall_cons_iff in Hp. destruct Hp.
  destruct ax; cbn; constructor; auto. Qed.

Lemma project_one_axis_total d m ax sh (x : tens R d) mk x' mk' :
  wf d sh x -> Forall (fun L => 1 <= L)%nat sh -> (ax < d)%nat ->
  project_one_axis d m ax x mk = Some (x', mk') ->
  Rtotal d x' = Rtotal d x /\ wf d (set_nth ax (m + 1)%nat sh) x'.
Proof. intros Hw Hp Hax. unfold project_one_axis, sample_sizes. rewrite (wf_tshape d sh x Hw Hp).
  pose proof (wf_length d sh x Hw Hp) as Hlen.
  assert (En : nth ax (map pred sh) 0%nat = pred (nth ax sh 0%nat)) by (exact (map_nth pred sh 0%nat ax)).
  rewrite !En.
  assert (Hpos : (1 <= nth ax sh 0)%nat) by (rewrite Forall_forall in Hp; apply Hp, nth_In; lia).
  destruct (Nat.ltb_spec (pred (nth ax sh 0%nat)) m); [discriminate|]. intros E. injection E as <- <-. split.
  - apply (project_axis_conserves_total d ax _ m sh); [assumption|lia|assumption].
  - apply (wf_proj_axis 0 Rplus Rc R0); assumption. Qed.

Lemma project_loop_total d : forall ns orig ax sh (x : tens R d) mk x' mk',
  wf d sh x -> Forall (fun L => 1 <= L)%nat sh -> (ax + length ns <= d)%nat ->
  project_loop d ax ns orig x mk = Some (x', mk') -> Rtotal d x' = Rtotal d x.
Proof. induction ns as [|m ns]; intros orig ax sh x mk x' mk' Hw Hp Hax E.
  - cbn in E. injection E as <- <-. reflexivity.
  - cbn [project_loop] in E. destruct orig as [|n orig]; [discriminate|]. cbn [length] in Hax.
    destruct (m =? n)%nat.
    + apply (IHns orig (S ax) sh x mk x' mk'); auto. lia.
    + destruct (project_one_axis d m ax x mk) as [[x1 mk1]|] eqn:E1; [|discriminate].
      destruct (project_one_axis_total d m ax sh x mk x1 mk1 Hw Hp ltac:(lia) E1) as [T1 W1].
      rewrite <- T1. apply (IHns orig (S ax) (set_nth ax (m + 1)%nat sh) x1 mk1 x' mk'); auto; [|lia].
      apply set_nth_pos; [lia|assumption]. Qed.

Theorem project_conserves_total d ns sh (x : tens R d) mk x' mk' :
  wf d sh x -> Forall (fun L => 1 <= L)%nat sh ->
  project d ns false x mk = Some (x', mk') -> Rtotal d x' = Rtotal d x.
Proof. intros Hw Hp. unfold project. destruct (Nat.eqb_spec (length ns) d) as [Hl|]; [|discriminate]. cbn [negb].
  destruct (existsb _ _); [discriminate|].
  destruct (project_loop d 0 ns (sample_sizes d x) x mk) as [[x1 mk1]|] eqn:E; [|discriminate].
  intros E'. injection E' as <- <-. apply (project_loop_total d ns (sample_sizes d x) 0%nat sh x mk x1 mk1); auto. lia. Qed.
