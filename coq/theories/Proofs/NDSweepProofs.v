(** d-dimensional statements (any dimension d, any axis k, any shape): every line of a swept array is the
    solution of the documented system for that line; sweeping population k leaves the joint trapezoid-marginal
    density of the other populations unchanged except at the all-0 / all-1 corners; a sweep is linear in the
    density; a sweep is unchanged by re-expressing the population relative to another reference size. *)
From Coq Require Import Reals List Lra Lia Arith Bool.
From Dadi Require Import Base.Num Base.NumR Model.Tridiag Model.Scheme Model.NDSweep
  Proofs.TridiagProofs Proofs.SchemeProofs Proofs.SumLemmas Proofs.MassBalance Proofs.Linearity Proofs.Rescale Proofs.NDLines.
Import ListNotations.
Local Open Scope R_scope.

Section ND.
  Variable shape : list nat.
  Variable grids : list (list R).
  Variable pops : list (@pop R).
  Variable k : nat.
  Variable p : @pop R.
  Hypothesis Hp : nth_error pops k = Some p.
  Hypothesis Hgrid : length (nth k grids []) = ax_len shape k.      (* the swept axis' grid has the axis' length *)
  Variable dt : R.
  Variable dj : bool.

  Notation xs := (nth k grids []).
  Notation Vf := (Vfunc_beta (p_nu p) (p_beta p)).
  Definition Mline (o q : nat) : R -> R := Mfunc (p_ms p) (line_os shape grids k o q) (p_gamma p) (p_h p).
  Definition corner0 (o q : nat) : bool := all_eq n0 (line_os shape grids k o q).
  Definition corner1 (o q : nat) : bool := all_eq n1 (line_os shape grids k o q).

  (** C02, d dimensions: line (o,q) of the swept array is the implicit step applied to line (o,q) of the input *)
  Theorem sweep_lines phi o q : (o < ax_outer shape k)%nat -> (q < ax_inner shape k)%nat ->
    get_line shape k (sweep shape grids pops k dt dj phi) o q =
    line_solve xs Vf (Mline o q) (p_nu p) (corner0 o q) (corner1 o q) dt dj (get_line shape k phi o q).
  Proof.
    intros Ho Hq. unfold sweep. rewrite Hp.
    rewrite get_line_map_lines; [reflexivity | | exact Ho | exact Hq].
    unfold sweep_line. rewrite line_solve_length. exact Hgrid.
  Qed.

  (** ... hence it satisfies the documented conservative system on that line *)
  Theorem sweep_solves_scheme phi o q : (2 <= ax_len shape k)%nat ->
    (o < ax_outer shape k)%nat -> (q < ax_inner shape k)%nat ->
    nonzero (all_pivots (line_rows xs Vf (Mline o q) (p_nu p) (corner0 o q) (corner1 o q) dt dj (get_line shape k phi o q))) ->
    let u := get_line shape k (sweep shape grids pops k dt dj phi) o q in
    forall i, (i < ax_len shape k)%nat ->
      nthF u i / dt
      + dfactor xs i * (fluxR xs Vf (Mline o q) dj (nthF u) i - fluxL xs Vf (Mline o q) dj (nthF u) i)
      + bcterm xs (Mline o q) (p_nu p) (corner0 o q) (corner1 o q) i * nthF u i
      = nthF (get_line shape k phi o q) i / dt.
  Proof.
    intros HN Ho Hq Hpiv u i Hi. unfold u. rewrite sweep_lines by assumption.
    assert (HN' : (2 <= length xs)%nat) by (rewrite Hgrid; exact HN).
    destruct (line_solve_solves xs Vf (Mline o q) (p_nu p) (corner0 o q) (corner1 o q) dt dj HN' _ Hpiv) as [_ Heq].
    apply Heq. rewrite Hgrid. exact Hi.
  Qed.

  (** C04, d dimensions: integrating population k out before and after its sweep gives the same joint density of
      the other populations at every point (o,q) that is not the all-0 or the all-1 corner *)
  Theorem sweep_preserves_marginal_off_corners phi o q : (2 <= ax_len shape k)%nat ->
    (forall i, (i < length xs - 1)%nat -> 0 < dx xs i) -> dt <> 0 ->
    (o < ax_outer shape k)%nat -> (q < ax_inner shape k)%nat ->
    corner0 o q = false -> corner1 o q = false ->
    nonzero (all_pivots (line_rows xs Vf (Mline o q) (p_nu p) false false dt dj (get_line shape k phi o q))) ->
    trapz xs (get_line shape k (sweep shape grids pops k dt dj phi) o q) = trapz xs (get_line shape k phi o q).
  Proof.
    intros HN Hdx Hdt Ho Hq H0 H1 Hpiv. rewrite sweep_lines by assumption. rewrite H0, H1.
    assert (HN' : (2 <= length xs)%nat) by (rewrite Hgrid; exact HN).
    apply (line_mass_conserved_off_corner xs Vf (Mline o q) (p_nu p) false false dt dj HN' Hdx Hdt); auto.
  Qed.

  (** and on the corner lines the loss is exactly dt * outflow * density at the end point *)
  Theorem sweep_mass_balance_line phi o q : (2 <= ax_len shape k)%nat ->
    (forall i, (i < length xs - 1)%nat -> 0 < dx xs i) -> dt <> 0 ->
    (o < ax_outer shape k)%nat -> (q < ax_inner shape k)%nat ->
    nonzero (all_pivots (line_rows xs Vf (Mline o q) (p_nu p) (corner0 o q) (corner1 o q) dt dj (get_line shape k phi o q))) ->
    let u := get_line shape k (sweep shape grids pops k dt dj phi) o q in
    trapz xs (get_line shape k phi o q) =
    trapz xs u + dt * (out0 xs (Mline o q) (p_nu p) (corner0 o q) * nthF u 0
                       + out1 xs (Mline o q) (p_nu p) (corner1 o q) * nthF u (length xs - 1)).
  Proof.
    intros HN Hdx Hdt Ho Hq Hpiv u. unfold u. rewrite sweep_lines by assumption.
    assert (HN' : (2 <= length xs)%nat) by (rewrite Hgrid; exact HN).
    apply (line_mass_balance xs Vf (Mline o q) (p_nu p) (corner0 o q) (corner1 o q) dt dj HN' Hdx Hdt). exact Hpiv.
  Qed.
End ND.

(** ** linearity of a whole sweep (C03, d dimensions) *)
Lemma get_line_lincomb shape k al be (p1 p2 : list R) o q : length p1 = length p2 ->
  get_line shape k (lincomb al be p1 p2) o q = lincomb al be (get_line shape k p1 o q) (get_line shape k p2 o q).
Proof.
  intros Hl. unfold get_line.
  rewrite <- (map_seq_lincomb al be (fun i => nthF p1 ((o * ax_len shape k + i) * ax_inner shape k + q))
                                   (fun i => nthF p2 ((o * ax_len shape k + i) * ax_inner shape k + q))).
  apply map_ext. intros i. apply nthF_lincomb. exact Hl.
Qed.

Theorem sweep_linear shape grids pops k (p : @pop R) dt dj al be (p1 p2 : list R) :
  nth_error pops k = Some p -> (2 <= length (nth k grids []))%nat -> length (nth k grids []) = ax_len shape k ->
  length p1 = length p2 ->
  sweep shape grids pops k dt dj (lincomb al be p1 p2) =
  lincomb al be (sweep shape grids pops k dt dj p1) (sweep shape grids pops k dt dj p2).
Proof.
  intros Hp HN Hgrid Hl.
  apply nth_ext with (d := 0) (d' := 0).
  - unfold sweep. rewrite Hp. rewrite lincomb_length; rewrite !map_lines_length; reflexivity.
  - intros j Hj. unfold sweep in Hj. rewrite Hp, map_lines_length in Hj.
    destruct (index_decompose shape k j Hj) as (o & i & q & Ho & Hi & Hq & ->).
    change (nthF (sweep shape grids pops k dt dj (lincomb al be p1 p2)) ((o * ax_len shape k + i) * ax_inner shape k + q) =
            nthF (lincomb al be (sweep shape grids pops k dt dj p1) (sweep shape grids pops k dt dj p2)) ((o * ax_len shape k + i) * ax_inner shape k + q)).
    rewrite nthF_lincomb by (unfold sweep; rewrite Hp, !map_lines_length; reflexivity).
    unfold sweep. rewrite Hp. rewrite !map_lines_nth by assumption.
    rewrite get_line_lincomb by exact Hl. unfold sweep_line.
    rewrite line_solve_linear by (try exact HN; rewrite !get_line_length; reflexivity).
    apply nthF_lincomb. rewrite !line_solve_length. reflexivity.
Qed.

(** ** reference-size independence of a whole sweep (C03, d dimensions) *)
Definition rescale_pop (c : R) (p : @pop R) : @pop R :=
  {| p_nu := c * p_nu p; p_gamma := p_gamma p / c; p_h := p_h p; p_beta := p_beta p;
     p_ms := map (fun m => m / c) (p_ms p); p_frozen := p_frozen p; p_nomut := p_nomut p |}.

Theorem sweep_rescale_invariant shape grids pops pops' k (p : @pop R) c dt dj phi :
  0 < c -> nth_error pops k = Some p -> nth_error pops' k = Some (rescale_pop c p) ->
  (2 <= length (nth k grids []))%nat ->
  (forall o q, (o < ax_outer shape k)%nat -> (q < ax_inner shape k)%nat ->
     nonzero (all_pivots (line_rows (nth k grids []) (Vfunc_beta (p_nu p) (p_beta p))
                                    (Mfunc (p_ms p) (line_os shape grids k o q) (p_gamma p) (p_h p)) (p_nu p)
                                    (all_eq n0 (line_os shape grids k o q)) (all_eq n1 (line_os shape grids k o q)) dt dj
                                    (get_line shape k phi o q)))) ->
  sweep shape grids pops' k (c * dt) dj phi = sweep shape grids pops k dt dj phi.
Proof.
  intros Hc Hp Hp' HN Hpiv. unfold sweep. rewrite Hp, Hp'.
  apply map_lines_ext. intros o q Ho Hq. unfold sweep_line. cbn [rescale_pop p_nu p_gamma p_h p_beta p_ms].
  set (os := line_os shape grids k o q).
  assert (EV : Vfunc_beta (c * p_nu p) (p_beta p) = Vf' (Vfunc_beta (p_nu p) (p_beta p)) c).
  { apply FunctionalExtensionality.functional_extensionality. intros x. unfold Vf'. apply Vfunc_beta_rescale. }
  assert (EM : Mfunc (map (fun m => m / c) (p_ms p)) os (p_gamma p / c) (p_h p) = Mf' (Mfunc (p_ms p) os (p_gamma p) (p_h p)) c).
  { apply FunctionalExtensionality.functional_extensionality. intros x. unfold Mf'. apply Mfunc_rescale. }
  rewrite EV, EM. apply line_solve_rescale_invariant; [exact Hc | exact HN | apply Hpiv; assumption].
Qed.
