(** * GodambeAffine: the O(eps^2) remainder bounds of GodambeRemainder.v for the functions that LRT_adjust / Wald_stat /
      score_stat actually differentiate:  diff_func(q) = func_ex(full with full[nested_indices] = q),  i.e. the Poisson
      log-likelihood of an AFFINE mean  m_i(q) = c_i + sum_k q_k B_i[idx_k]  (the non-nested parameters and the constant
      column frozen).

    Model: [model_mean Bs false (Some (full, idx)) q = lin_mean Bs (scatter full idx q ++ [1])]  ([embed]).
    Nothing is re-proved about ln: the finite-difference stencils of the nested function at q, coordinates (ii, jj), ARE the
    stencils of the full linear model at P = embed q, coordinates (idx ii, idx jj)  ([hess_elem_reindex], [grad_elem_reindex]),
    so [hess_elem_central_bound] / [grad_elem_central_bound] apply with theta := P.  The closed forms are the idx-sub-block of
    the full closed forms: pois_hess Bs dt P (idx ii) (idx jj), pois_grad Bs bt P (idx k).
    Hypotheses on the full point P: all means positive, share bound |P_k B_i[k]| <= rho m_i with m_i = ndot P B_i (constant
    term included; rho = 1 when all terms are non-negative, [share_bound_nonneg]).
    The plain affine case (every parameter differentiated, constant column kept) is the instance idx = 0..n-1. *)
From Coq Require Import ZArith Reals List Lra Lia Arith Bool.
From Coquelicot Require Import Coquelicot.
From Dadi Require Import Base.Num Base.NumR Model.Godambe Proofs.GodambeProofs Proofs.GodambePoisson Proofs.GodambeLnBounds
                         Proofs.GodambeRemainder.
Import ListNotations.
Local Open Scope R_scope.

(** ** upd / scatter algebra *)
Lemma upd_comm (p : list R) i j a b : i <> j -> upd (upd p i a) j b = upd (upd p j b) i a.
Proof.
  revert i j. induction p as [|x t IH]; intros [|i] [|j] Hne; cbn [upd]; try reflexivity; try (exfalso; lia).
  f_equal. apply IH. lia.
Qed.

Lemma upd_twice (p : list R) i a b : upd (upd p i a) i b = upd p i b.
Proof. revert i. induction p as [|x t IH]; intros [|i]; cbn [upd]; try reflexivity. f_equal. apply IH. Qed.

Lemma upd_app_l (X Y : list R) k v : (k < length X)%nat -> upd (X ++ Y) k v = upd X k v ++ Y.
Proof.
  revert k. induction X as [|x t IH]; intros [|k] Hk; cbn [length] in Hk; try lia; cbn [app upd]; try reflexivity.
  f_equal. apply IH. lia.
Qed.

Lemma scatter_nil_l (F : list R) q : scatter F [] q = F.
Proof. reflexivity. Qed.
Lemma scatter_nil_r (F : list R) idx : scatter F idx [] = F.
Proof. unfold scatter. destruct idx; reflexivity. Qed.
Lemma scatter_cons (F : list R) i0 idx x q : scatter F (i0 :: idx) (x :: q) = scatter (upd F i0 x) idx q.
Proof. reflexivity. Qed.

Lemma length_scatter : forall idx q (F : list R), length (scatter F idx q) = length F.
Proof.
  induction idx as [|i0 idx IH]; intros [|x q] F; rewrite ?scatter_nil_l, ?scatter_nil_r; try reflexivity.
  rewrite scatter_cons, IH, length_upd. reflexivity.
Qed.

Lemma upd_scatter_notin : forall idx q (F : list R) i v, ~ In i idx -> upd (scatter F idx q) i v = scatter (upd F i v) idx q.
Proof.
  induction idx as [|i0 idx IH]; intros [|x q] F i v Hn; rewrite ?scatter_nil_l, ?scatter_nil_r; try reflexivity.
  rewrite !scatter_cons. rewrite IH by (intros Hin; apply Hn; right; exact Hin). f_equal.
  apply upd_comm. intros E. apply Hn. left. exact E.
Qed.

Lemma nth_scatter_notin : forall idx q (F : list R) i d, ~ In i idx -> nth i (scatter F idx q) d = nth i F d.
Proof.
  induction idx as [|i0 idx IH]; intros [|x q] F i d Hn; rewrite ?scatter_nil_l, ?scatter_nil_r; try reflexivity.
  rewrite scatter_cons, IH by (intros Hin; apply Hn; right; exact Hin).
  apply nth_upd_other. intros E. apply Hn. left. exact E.
Qed.

Lemma nth_scatter_in : forall idx q (F : list R) ii,
  NoDup idx -> (forall i, In i idx -> (i < length F)%nat) -> length q = length idx -> (ii < length idx)%nat ->
  nth (nth ii idx 0%nat) (scatter F idx q) 0 = nth ii q 0.
Proof.
  induction idx as [|i0 idx IH]; intros [|x q] F ii ND Hr Hl Hi; cbn [length] in *; try lia.
  rewrite scatter_cons. inversion ND as [|a l Hnotin ND']; subst.
  destruct ii as [|k]; cbn [nth].
  - rewrite nth_scatter_notin by assumption. apply nth_upd_same. apply Hr. left. reflexivity.
  - apply IH; [assumption| |lia|lia]. intros i Hin. rewrite length_upd. apply Hr. right. exact Hin.
Qed.

Lemma scatter_upd : forall idx q (F : list R) ii v,
  NoDup idx -> length q = length idx -> (ii < length idx)%nat ->
  scatter F idx (upd q ii v) = upd (scatter F idx q) (nth ii idx 0%nat) v.
Proof.
  induction idx as [|i0 idx IH]; intros [|x q] F ii v ND Hl Hi; cbn [length] in *; try lia.
  inversion ND as [|a l Hnotin ND']; subst.
  destruct ii as [|k]; cbn [upd nth]; rewrite !scatter_cons.
  - rewrite upd_scatter_notin by assumption. rewrite upd_twice. reflexivity.
  - apply IH; [assumption|lia|lia].
Qed.

(** ** the full parameter vector behind a nested point: non-nested parameters from [full], nested from q, constant 1 *)
Definition embed (full : list R) (idx : list nat) (q : list R) : list R := scatter full idx q ++ [1].

Lemma length_embed full idx q : length (embed full idx q) = S (length full).
Proof. unfold embed. rewrite app_length, length_scatter. cbn [length]. lia. Qed.

Lemma model_mean_nested (Bs : list (list R)) full idx q :
  model_mean Bs false (Some (full, idx)) q = lin_mean Bs (embed full idx q).
Proof. reflexivity. Qed.

Lemma pois_ll_nested (Bs : list (list R)) (dt : @pdata R) full idx q :
  pois_ll (model_mean Bs false (Some (full, idx))) dt q = pois_ll (lin_mean Bs) dt (embed full idx q).
Proof. reflexivity. Qed.

Section Embed.
  Variable full : list R.
  Variable idx : list nat.
  Hypothesis ND : NoDup idx.
  Hypothesis in_range : forall i, In i idx -> (i < length full)%nat.

  Lemma idx_lt ii : (ii < length idx)%nat -> (nth ii idx 0 < length full)%nat.
  Proof. intros Hi. apply in_range. apply nth_In. exact Hi. Qed.

  Lemma nth_embed q ii : length q = length idx -> (ii < length idx)%nat ->
    nth (nth ii idx 0%nat) (embed full idx q) 0 = nth ii q 0.
  Proof.
    intros Hl Hi. unfold embed. rewrite app_nth1 by (rewrite length_scatter; apply idx_lt; exact Hi).
    apply nth_scatter_in; assumption.
  Qed.

  Lemma embed_upd q ii v : length q = length idx -> (ii < length idx)%nat ->
    embed full idx (upd q ii v) = upd (embed full idx q) (nth ii idx 0%nat) v.
  Proof.
    intros Hl Hi. unfold embed. rewrite scatter_upd by assumption.
    rewrite upd_app_l by (rewrite length_scatter; apply idx_lt; exact Hi). reflexivity.
  Qed.

  Lemma embed_upd2 q ii jj a b : length q = length idx -> (ii < length idx)%nat -> (jj < length idx)%nat ->
    embed full idx (upd (upd q ii a) jj b) = upd (upd (embed full idx q) (nth ii idx 0%nat) a) (nth jj idx 0%nat) b.
  Proof.
    intros Hl Hi Hj. rewrite embed_upd by (rewrite ?length_upd; assumption). rewrite embed_upd by assumption. reflexivity.
  Qed.

  Lemma idx_inj ii jj : (ii < length idx)%nat -> (jj < length idx)%nat -> (ii = jj <-> nth ii idx 0%nat = nth jj idx 0%nat).
  Proof.
    intros Hi Hj. split; [intros ->; reflexivity|]. intros E.
    exact (proj1 (NoDup_nth idx 0%nat) ND ii jj Hi Hj E).
  Qed.
End Embed.

(** ** a stencil of f at (q; ii, jj) is the stencil of g at (P; I, J) when f (q with ii, jj moved) = g (P with I, J moved) *)
Lemma hess_elem_reindex (f g : list R -> R) (q P : list R) ii jj I J (es ES : list R) (os OS : list bool) :
  (ii = jj <-> I = J) ->
  nth ii q 0 = nth I P 0 -> nth jj q 0 = nth J P 0 ->
  nth ii es 0 = nth I ES 0 -> nth jj es 0 = nth J ES 0 ->
  nth ii os false = nth I OS false -> nth jj os false = nth J OS false ->
  (forall v, f (upd q ii v) = g (upd P I v)) ->
  (forall a b, f (upd (upd q ii a) jj b) = g (upd (upd P I a) J b)) ->
  f q = g P ->
  hess_elem f (f q) q ii jj es os = hess_elem g (g P) P I J ES OS.
Proof.
  intros Hiff HpI HpJ HeI HeJ HoI HoJ Hf1 Hf2 H0. unfold hess_elem. numR.
  rewrite <- ?HpI, <- ?HpJ, <- ?HeI, <- ?HeJ, <- ?HoI, <- ?HoJ.
  destruct (Nat.eqb_spec ii jj) as [E|NE]; destruct (Nat.eqb_spec I J) as [E'|NE'].
  - rewrite !Hf1, H0. reflexivity.
  - exfalso. apply NE'. apply Hiff. exact E.
  - exfalso. apply NE. apply Hiff. exact E'.
  - rewrite !Hf2, H0. reflexivity.
Qed.

Lemma grad_elem_reindex (f g : list R -> R) (q P : list R) ii I (es ES : list R) (os OS : list bool) :
  nth ii q 0 = nth I P 0 -> nth ii es 0 = nth I ES 0 -> nth ii os false = nth I OS false ->
  (forall v, f (upd q ii v) = g (upd P I v)) ->
  grad_elem f q ii es os = grad_elem g P I ES OS.
Proof.
  intros HpI HeI HoI Hf1. unfold grad_elem. numR. rewrite <- ?HpI, <- ?HeI, <- ?HoI. rewrite !Hf1. reflexivity.
Qed.

Lemma nth_nil_false k : nth k (@nil bool) false = false.
Proof. destruct k; reflexivity. Qed.

(** ** stencil-level bounds for the nested function *)
Lemma nested_hess_elem_bound (Bs : list (list R)) (dt : @pdata R) (full : list R) (idx : list nat) (q : list R) (rho : R)
      (es : list R) (os : list bool) ii jj eps :
  NoDup idx -> (forall i, In i idx -> (i < length full)%nat) -> length q = length idx ->
  0 < pd_adj dt -> List.Forall (fun b => 0 < ndot (embed full idx q) b) Bs -> share_bound Bs (embed full idx q) rho ->
  (ii < length idx)%nat -> (jj < length idx)%nat -> 0 < eps -> eps * rho <= 1 / 8 ->
  nth ii q 0 <> 0 -> nth jj q 0 <> 0 ->
  nth ii es 0 = eps * nth ii q 0 -> nth jj es 0 = eps * nth jj q 0 ->
  nth ii os false = false -> nth jj os false = false ->
  Rabs (hess_elem (pois_ll (model_mean Bs false (Some (full, idx))) dt)
                  (pois_ll (model_mean Bs false (Some (full, idx))) dt q) q ii jj es os
        - pois_hess Bs dt (embed full idx q) (nth ii idx 0%nat) (nth jj idx 0%nat))
  <= 40 * (rho * rho) * pois_abs_hess Bs dt (embed full idx q) (nth ii idx 0%nat) (nth jj idx 0%nat) * (eps * eps).
Proof.
  intros ND Hr Hl Hadj Hm Hsh Hi Hj He Her Hti Htj Hei Hej Hoi Hoj.
  set (P := embed full idx q) in *. set (I := nth ii idx 0%nat). set (J := nth jj idx 0%nat).
  assert (HI : (I < length P)%nat) by (unfold P; rewrite length_embed; pose proof (idx_lt full idx Hr ii Hi); unfold I; lia).
  assert (HJ : (J < length P)%nat) by (unfold P; rewrite length_embed; pose proof (idx_lt full idx Hr jj Hj); unfold J; lia).
  assert (EI : nth I P 0 = nth ii q 0) by (apply nth_embed; assumption).
  assert (EJ : nth J P 0 = nth jj q 0) by (apply nth_embed; assumption).
  set (ES := map (fun x => eps * x) P).
  assert (SI : nth I ES 0 = eps * nth I P 0) by (unfold ES; apply (nth_map_in (fun x => eps * x) P I 0 0 HI)).
  assert (SJ : nth J ES 0 = eps * nth J P 0) by (unfold ES; apply (nth_map_in (fun x => eps * x) P J 0 0 HJ)).
  rewrite (hess_elem_reindex (pois_ll (model_mean Bs false (Some (full, idx))) dt) (pois_ll (lin_mean Bs) dt)
             q P ii jj I J es ES os []).
  - apply (hess_elem_central_bound Bs dt P rho Hadj Hm Hsh ES [] I J eps); try assumption.
    + rewrite EI. exact Hti.
    + rewrite EJ. exact Htj.
    + apply nth_nil_false.
    + apply nth_nil_false.
  - apply idx_inj; assumption.
  - symmetry. exact EI.
  - symmetry. exact EJ.
  - rewrite SI, EI. exact Hei.
  - rewrite SJ, EJ. exact Hej.
  - rewrite nth_nil_false. exact Hoi.
  - rewrite nth_nil_false. exact Hoj.
  - intros v. rewrite pois_ll_nested. unfold P, I. rewrite <- embed_upd by assumption. reflexivity.
  - intros a b. rewrite pois_ll_nested. unfold P, I, J. rewrite <- embed_upd2 by assumption. reflexivity.
  - apply pois_ll_nested.
Qed.

Lemma nested_grad_elem_bound (Bs : list (list R)) (dt : @pdata R) (full : list R) (idx : list nat) (q : list R) (rho : R)
      (es : list R) (os : list bool) k eps :
  NoDup idx -> (forall i, In i idx -> (i < length full)%nat) -> length q = length idx ->
  0 < pd_adj dt -> List.Forall (fun b => 0 < ndot (embed full idx q) b) Bs -> share_bound Bs (embed full idx q) rho ->
  (k < length idx)%nat -> 0 < eps -> eps * rho <= 1 / 2 -> nth k q 0 <> 0 ->
  nth k es 0 = eps * nth k q 0 -> nth k os false = false ->
  Rabs (grad_elem (pois_ll (model_mean Bs false (Some (full, idx))) dt) q k es os
        - pois_grad Bs dt (embed full idx q) (nth k idx 0%nat))
  <= 4 / 3 * (rho * rho) * pois_abs_grad Bs dt (embed full idx q) (nth k idx 0%nat) * (eps * eps).
Proof.
  intros ND Hr Hl Hadj Hm Hsh Hk He Her Htk Hek Hok.
  set (P := embed full idx q) in *. set (I := nth k idx 0%nat).
  assert (HI : (I < length P)%nat) by (unfold P; rewrite length_embed; pose proof (idx_lt full idx Hr k Hk); unfold I; lia).
  assert (EI : nth I P 0 = nth k q 0) by (apply nth_embed; assumption).
  set (ES := map (fun x => eps * x) P).
  assert (SI : nth I ES 0 = eps * nth I P 0) by (unfold ES; apply (nth_map_in (fun x => eps * x) P I 0 0 HI)).
  rewrite (grad_elem_reindex (pois_ll (model_mean Bs false (Some (full, idx))) dt) (pois_ll (lin_mean Bs) dt)
             q P k I es ES os []).
  - apply (grad_elem_central_bound Bs dt P rho Hadj Hm Hsh ES [] I eps); try assumption.
    + rewrite EI. exact Htk.
    + apply nth_nil_false.
  - symmetry. exact EI.
  - rewrite SI, EI. exact Hek.
  - rewrite nth_nil_false. exact Hok.
  - intros v. rewrite pois_ll_nested. unfold P, I. rewrite <- embed_upd by assumption. reflexivity.
Qed.

(** ** get_hess / get_grad of the nested function, step-size rule included *)
Lemma eps_rho_bound eps rho : 0 < rho -> eps <= / (8 * rho) -> eps * rho <= 1 / 8.
Proof.
  intros Hrho Hle. apply (Rmult_le_compat_r rho) in Hle; [|lra].
  replace (/ (8 * rho) * rho) with (1 / 8) in Hle by (field; lra). exact Hle.
Qed.

Lemma pois_abs_hess_sym (Bs : list (list R)) dt theta k l : pois_abs_hess Bs dt theta k l = pois_abs_hess Bs dt theta l k.
Proof. unfold pois_abs_hess. f_equal. apply map_ext. intros t. unfold habs. rewrite (Rmult_comm (nth k _ 0)). reflexivity. Qed.

Theorem nested_hessian_within_eps2 (Bs : list (list R)) (dt : @pdata R) (full : list R) (idx : list nat) (q : list R) (rho : R)
        eps r c :
  NoDup idx -> (forall i, In i idx -> (i < length full)%nat) -> length q = length idx ->
  0 < pd_adj dt -> List.Forall (fun b => 0 < ndot (embed full idx q) b) Bs -> 0 < rho -> share_bound Bs (embed full idx q) rho ->
  0 < eps -> eps <= / (8 * rho) -> (r < length idx)%nat -> (c < length idx)%nat ->
  nth r q 0 <> 0 -> Rtiny <= nth r q 0 * eps -> nth c q 0 <> 0 -> Rtiny <= nth c q 0 * eps ->
  Rabs (nth c (nth r (get_hess (pois_ll (model_mean Bs false (Some (full, idx))) dt) q eps) []) 0
        - pois_hess Bs dt (embed full idx q) (nth r idx 0%nat) (nth c idx 0%nat))
  <= 40 * (rho * rho) * pois_abs_hess Bs dt (embed full idx q) (nth r idx 0%nat) (nth c idx 0%nat) * (eps * eps).
Proof.
  intros ND Hr Hl Hadj Hm Hrho Hsh He Hle Hr0 Hc0 Htr Hsr Htc Hsc.
  pose proof (eps_rho_bound eps rho Hrho Hle) as Her.
  assert (Hrq : (r < length q)%nat) by lia. assert (Hcq : (c < length q)%nat) by lia.
  unfold get_hess. rewrite (nth_map_seq _ _ _ _ Hrq), (nth_map_seq _ _ _ _ Hcq).
  destruct (central_steps q eps r Hrq Htr Hsr) as [Er Or]. destruct (central_steps q eps c Hcq Htc Hsc) as [Ec Oc].
  destruct (Nat.le_ge_cases r c) as [Hle'|Hle'].
  - rewrite Nat.min_l, Nat.max_r by assumption. apply nested_hess_elem_bound; assumption.
  - rewrite Nat.min_r, Nat.max_l by assumption.
    rewrite (pois_hess_sym Bs dt _ (nth r idx 0%nat) (nth c idx 0%nat)), (pois_abs_hess_sym Bs dt _ (nth r idx 0%nat) (nth c idx 0%nat)).
    apply nested_hess_elem_bound; assumption.
Qed.

Theorem nested_gradient_within_eps2 (Bs : list (list R)) (dt : @pdata R) (full : list R) (idx : list nat) (q : list R) (rho : R)
        eps k :
  NoDup idx -> (forall i, In i idx -> (i < length full)%nat) -> length q = length idx ->
  0 < pd_adj dt -> List.Forall (fun b => 0 < ndot (embed full idx q) b) Bs -> 0 < rho -> share_bound Bs (embed full idx q) rho ->
  0 < eps -> eps <= / (8 * rho) -> (k < length idx)%nat -> nth k q 0 <> 0 -> Rtiny <= nth k q 0 * eps ->
  Rabs (nth k (get_grad (pois_ll (model_mean Bs false (Some (full, idx))) dt) q eps) 0
        - pois_grad Bs dt (embed full idx q) (nth k idx 0%nat))
  <= 4 / 3 * (rho * rho) * pois_abs_grad Bs dt (embed full idx q) (nth k idx 0%nat) * (eps * eps).
Proof.
  intros ND Hr Hl Hadj Hm Hrho Hsh He Hle Hk Htk Hsk.
  pose proof (eps_rho_bound eps rho Hrho Hle) as Her.
  assert (Hkq : (k < length q)%nat) by lia.
  unfold get_grad. rewrite (nth_map_seq _ _ _ _ Hkq).
  destruct (central_steps q eps k Hkq Htk Hsk) as [Ek Ok].
  apply nested_grad_elem_bound; try assumption. lra.
Qed.

(** ** J and cU from gradients that are entrywise within C e2 of exact ones (any family of data sets) *)
Lemma count_pos {A} (l : list A) : l <> [] -> 0 < IZR (Z.of_nat (length l)).
Proof. intros Hne. apply (IZR_lt 0). destruct l; [contradiction|cbn [length]; lia]. Qed.

Lemma J_entry_close {A} (boots : list A) (G' G C : A -> nat -> R) e2 m i j :
  boots <> [] -> 0 <= e2 <= 1 -> (i < m)%nat -> (j < m)%nat ->
  (forall bt, In bt boots ->
     Rabs (G' bt i - G bt i) <= C bt i * e2 /\ Rabs (G' bt j - G bt j) <= C bt j * e2 /\ 0 <= C bt i /\ 0 <= C bt j) ->
  Rabs (J_entry (map (fun bt => map (G' bt) (seq 0 m)) boots) i j - J_entry (map (fun bt => map (G bt) (seq 0 m)) boots) i j)
  <= nsum (map (fun bt => C bt i * Rabs (G bt j) + Rabs (G bt i) * C bt j + C bt i * C bt j) boots)
     / IZR (Z.of_nat (length boots)) * e2.
Proof.
  intros Hne [He0 He1] Hi Hj Hb. pose proof (count_pos boots Hne) as HN.
  unfold J_entry, nofnat. numR. rewrite !map_map, !map_length.
  set (N := IZR (Z.of_nat (length boots))) in *.
  unfold Rdiv. rewrite <- Rmult_minus_distr_r, Rabs_mult, (Rabs_right (/ N)) by (left; apply Rinv_0_lt_compat; assumption).
  rewrite (Rmult_comm _ (/ N)), (Rmult_comm _ (/ N)), Rmult_assoc.
  apply Rmult_le_compat_l; [left; apply Rinv_0_lt_compat; assumption|].
  rewrite <- nsum_map_scal. apply nsum_abs_diff. intros bt Hbt.
  rewrite !(nth_map_seq _ _ _ _ Hi), !(nth_map_seq _ _ _ _ Hj).
  destruct (Hb bt Hbt) as [Gi [Gj [Ci Cj]]].
  eapply Rle_trans; [apply (prod_diff_bound _ _ _ _ _ _ Gi Gj)|].
  set (ci := C bt i) in *. set (cj := C bt j) in *.
  pose proof (Rabs_pos (G bt i)) as Ai. pose proof (Rabs_pos (G bt j)) as Aj.
  assert (Hcc : 0 <= ci * cj) by (apply Rmult_le_pos; assumption).
  assert (H4 : ci * e2 * (cj * e2) <= ci * cj * e2).
  { replace (ci * e2 * (cj * e2)) with (ci * cj * e2 * e2) by ring.
    rewrite <- (Rmult_1_r (ci * cj * e2)) at 2. apply Rmult_le_compat_l; [apply Rmult_le_pos; assumption|assumption]. }
  lra.
Qed.

Lemma cU_entry_close {A} (boots : list A) (G' G C : A -> nat -> R) e2 m i :
  boots <> [] -> (i < m)%nat ->
  (forall bt, In bt boots -> Rabs (G' bt i - G bt i) <= C bt i * e2) ->
  Rabs (cU_entry (map (fun bt => map (G' bt) (seq 0 m)) boots) i - cU_entry (map (fun bt => map (G bt) (seq 0 m)) boots) i)
  <= nsum (map (fun bt => C bt i) boots) / IZR (Z.of_nat (length boots)) * e2.
Proof.
  intros Hne Hi Hb. pose proof (count_pos boots Hne) as HN.
  unfold cU_entry, nofnat. numR. rewrite !map_map, !map_length.
  set (N := IZR (Z.of_nat (length boots))) in *.
  unfold Rdiv. rewrite <- Rmult_minus_distr_r, Rabs_mult, (Rabs_right (/ N)) by (left; apply Rinv_0_lt_compat; assumption).
  rewrite (Rmult_comm _ (/ N)), (Rmult_comm _ (/ N)), Rmult_assoc.
  apply Rmult_le_compat_l; [left; apply Rinv_0_lt_compat; assumption|].
  rewrite <- nsum_map_scal. apply nsum_abs_diff. intros bt Hbt.
  rewrite !(nth_map_seq _ _ _ _ Hi). apply Hb. exact Hbt.
Qed.

Lemma map_nth_seq_id (l : list R) m : length l = m -> map (fun k => nth k l 0) (seq 0 m) = l.
Proof.
  intros HL. apply (nth_ext _ _ 0 0); [rewrite map_length, seq_length; symmetry; exact HL|].
  intros k Hk. rewrite map_length, seq_length in Hk. exact (nth_map_seq (fun k => nth k l 0) m k 0 Hk).
Qed.

(** ** get_godambe on diff_func: H = - get_hess, J, cU versus the idx-sub-blocks of the full closed forms *)
Definition nest_grads (Bs : list (list R)) (P : list R) (idx : list nat) (boots : list (@pdata R)) : list (list R) :=
  map (fun bt => map (fun k => pois_grad Bs bt P (nth k idx 0%nat)) (seq 0 (length idx))) boots.

Theorem nested_godambe_HJc_within_eps2
  (Bs : list (list R)) (full : list R) (idx : list nat) (q : list R) (rho : R) (data : @pdata R) (boots : list (@pdata R)) eps :
  NoDup idx -> (forall i, In i idx -> (i < length full)%nat) -> length q = length idx ->
  0 < pd_adj data -> List.Forall (fun bt => 0 < pd_adj bt) boots ->
  List.Forall (fun b => 0 < ndot (embed full idx q) b) Bs -> 0 < rho -> share_bound Bs (embed full idx q) rho -> boots <> [] ->
  0 < eps -> eps <= / (8 * rho) -> eps <= 1 ->
  (forall k, (k < length q)%nat -> nth k q 0 <> 0 /\ Rtiny <= nth k q 0 * eps) ->
  let P := embed full idx q in
  let HJc := godambe_HJc (fun bt => pois_ll (model_mean Bs false (Some (full, idx))) bt) q eps data boots in
  forall i j, (i < length idx)%nat -> (j < length idx)%nat ->
    Rabs (nth j (nth i (fst (fst HJc)) []) 0 - - pois_hess Bs data P (nth i idx 0%nat) (nth j idx 0%nat))
      <= 40 * (rho * rho) * pois_abs_hess Bs data P (nth i idx 0%nat) (nth j idx 0%nat) * (eps * eps) /\
    Rabs (nth j (nth i (snd (fst HJc)) []) 0 - J_entry (nest_grads Bs P idx boots) i j)
      <= nsum (map (J_const rho Bs P (nth i idx 0%nat) (nth j idx 0%nat)) boots) / IZR (Z.of_nat (length boots)) * (eps * eps) /\
    Rabs (nth i (snd HJc) 0 - cU_entry (nest_grads Bs P idx boots) i)
      <= nsum (map (grad_const rho Bs P (nth i idx 0%nat)) boots) / IZR (Z.of_nat (length boots)) * (eps * eps).
Proof.
  intros ND Hr Hl Hadj Hadjs Hm Hrho Hsh Hne He Hle He1 Hcen P HJc i j Hi Hj.
  assert (Hiq : (i < length q)%nat) by lia. assert (Hjq : (j < length q)%nat) by lia.
  destruct (Hcen i Hiq) as [Hti Hsi]. destruct (Hcen j Hjq) as [Htj Hsj].
  set (f := fun bt => pois_ll (model_mean Bs false (Some (full, idx))) bt) in *.
  assert (Hgrad : forall bt k, In bt boots -> (k < length idx)%nat ->
            Rabs (nth k (get_grad (f bt) q eps) 0 - pois_grad Bs bt P (nth k idx 0%nat))
            <= grad_const rho Bs P (nth k idx 0%nat) bt * (eps * eps)).
  { intros bt k Hbt Hk. assert (Hkq : (k < length q)%nat) by lia. destruct (Hcen k Hkq) as [Htk Hsk].
    rewrite Forall_forall in Hadjs. unfold grad_const.
    apply nested_gradient_within_eps2; try assumption. apply Hadjs. exact Hbt. }
  assert (Egrads : map (fun bt => get_grad (f bt) q eps) boots
                   = map (fun bt => map (fun k => nth k (get_grad (f bt) q eps) 0) (seq 0 (length idx))) boots).
  { apply map_ext. intros bt. symmetry. apply map_nth_seq_id. unfold get_grad. rewrite map_length, seq_length. exact Hl. }
  assert (He2 : 0 <= eps * eps <= 1) by (split; nra).
  unfold HJc, godambe_HJc. cbn [fst snd]. fold f. repeat split.
  - assert (Hlen : length (get_hess (f data) q eps) = length q)
      by (unfold get_hess; rewrite map_length, seq_length; reflexivity).
    rewrite (nth_map_in (map nopp) _ i [] []) by (rewrite Hlen; assumption).
    assert (Hlen2 : length (nth i (get_hess (f data) q eps) []) = length q).
    { unfold get_hess. rewrite (nth_map_seq _ _ _ _ Hiq), map_length, seq_length. reflexivity. }
    rewrite (nth_map_in nopp _ j 0 0) by (rewrite Hlen2; assumption). numR.
    replace (- nth j (nth i (get_hess (f data) q eps) []) 0 - - pois_hess Bs data P (nth i idx 0%nat) (nth j idx 0%nat))
      with (- (nth j (nth i (get_hess (f data) q eps) []) 0 - pois_hess Bs data P (nth i idx 0%nat) (nth j idx 0%nat))) by ring.
    rewrite Rabs_Ropp. apply nested_hessian_within_eps2; assumption.
  - unfold J_mat. rewrite Hl. rewrite (nth_map_seq _ _ _ _ Hi), (nth_map_seq _ _ _ _ Hj). rewrite Egrads. unfold nest_grads.
    eapply Rle_trans.
    + apply (J_entry_close boots (fun bt k => nth k (get_grad (f bt) q eps) 0) (fun bt k => pois_grad Bs bt P (nth k idx 0%nat))
               (fun bt k => grad_const rho Bs P (nth k idx 0%nat) bt) (eps * eps) (length idx) i j Hne He2 Hi Hj).
      intros bt Hbt. split; [apply Hgrad; assumption|]. split; [apply Hgrad; assumption|].
      split; apply grad_const_nonneg; exact Hm.
    + right. reflexivity.
  - unfold cU_vec. rewrite Hl. rewrite (nth_map_seq _ _ _ _ Hi). rewrite Egrads. unfold nest_grads.
    apply (cU_entry_close boots (fun bt k => nth k (get_grad (f bt) q eps) 0) (fun bt k => pois_grad Bs bt P (nth k idx 0%nat))
             (fun bt k => grad_const rho Bs P (nth k idx 0%nat) bt) (eps * eps) (length idx) i Hne Hi).
    intros bt Hbt. apply Hgrad; assumption.
Qed.

(** ** the plain affine model (every parameter differentiated, constant column kept): m_i(q) = c_i + sum_k q_k B_i[k],
       [model_mean Bs false None q = lin_mean Bs (q ++ [1])] -- the instance idx = 0 .. n-1, full = q *)
Lemma scatter_seq_self : forall (q F : list R) s, length F = (s + length q)%nat ->
  (forall k, (k < length q)%nat -> nth (s + k) F 0 = nth k q 0) -> scatter F (seq s (length q)) q = F.
Proof.
  induction q as [|x q IH]; intros F s HL Hn; [reflexivity|].
  cbn [length seq]. rewrite scatter_cons.
  assert (EU : upd F s x = F).
  { apply (nth_ext _ _ 0 0); [apply length_upd|]. intros k Hk. rewrite length_upd in Hk.
    destruct (Nat.eq_dec s k) as [<-|Hne].
    - rewrite nth_upd_same by (cbn [length] in HL; lia). pose proof (Hn 0%nat ltac:(cbn [length]; lia)) as E.
      rewrite Nat.add_0_r in E. cbn [nth] in E. symmetry. exact E.
    - apply nth_upd_other. exact Hne. }
  rewrite EU. apply IH.
  - cbn [length] in HL. lia.
  - intros k Hk. pose proof (Hn (S k) ltac:(cbn [length]; lia)) as E. cbn [nth] in E.
    replace (S s + k)%nat with (s + S k)%nat by lia. exact E.
Qed.

Lemma embed_self (q : list R) : embed q (seq 0 (length q)) q = q ++ [1].
Proof. unfold embed. rewrite scatter_seq_self; [reflexivity|reflexivity|intros k Hk; reflexivity]. Qed.

Lemma pois_ll_affine (Bs : list (list R)) (dt : @pdata R) :
  forall x, pois_ll (model_mean Bs false None) dt x = pois_ll (lin_mean Bs) dt (x ++ [1]).
Proof. reflexivity. Qed.

Theorem affine_hessian_within_eps2 (Bs : list (list R)) (dt : @pdata R) (q : list R) (rho : R) eps r c :
  0 < pd_adj dt -> List.Forall (fun b => 0 < ndot (q ++ [1]) b) Bs -> 0 < rho -> share_bound Bs (q ++ [1]) rho ->
  0 < eps -> eps <= / (8 * rho) -> (r < length q)%nat -> (c < length q)%nat ->
  nth r q 0 <> 0 -> Rtiny <= nth r q 0 * eps -> nth c q 0 <> 0 -> Rtiny <= nth c q 0 * eps ->
  Rabs (nth c (nth r (get_hess (pois_ll (model_mean Bs false None) dt) q eps) []) 0 - pois_hess Bs dt (q ++ [1]) r c)
  <= 40 * (rho * rho) * pois_abs_hess Bs dt (q ++ [1]) r c * (eps * eps).
Proof.
  intros Hadj Hm Hrho Hsh He Hle Hr Hc Htr Hsr Htc Hsc.
  pose proof (eps_rho_bound eps rho Hrho Hle) as Her.
  unfold get_hess. rewrite (nth_map_seq _ _ _ _ Hr), (nth_map_seq _ _ _ _ Hc).
  destruct (central_steps q eps r Hr Htr Hsr) as [Er Or]. destruct (central_steps q eps c Hc Htc Hsc) as [Ec Oc].
  set (es := map fst (map (step_rule eps) q)) in *. set (os := map snd (map (step_rule eps) q)) in *.
  set (P := q ++ [1]) in *. set (ES := map (fun x => eps * x) P).
  assert (HLP : length P = S (length q)) by (unfold P; rewrite app_length; cbn [length]; lia).
  assert (bound : forall ii jj, (ii < length q)%nat -> (jj < length q)%nat -> nth ii q 0 <> 0 -> nth jj q 0 <> 0 ->
            nth ii es 0 = eps * nth ii q 0 -> nth jj es 0 = eps * nth jj q 0 -> nth ii os false = false -> nth jj os false = false ->
            Rabs (hess_elem (pois_ll (model_mean Bs false None) dt) (pois_ll (model_mean Bs false None) dt q) q ii jj es os
                  - pois_hess Bs dt P ii jj) <= 40 * (rho * rho) * pois_abs_hess Bs dt P ii jj * (eps * eps)).
  { intros ii jj Hi Hj Hti Htj Hei Hej Hoi Hoj.
    assert (EI : nth ii P 0 = nth ii q 0) by (unfold P; apply app_nth1; exact Hi).
    assert (EJ : nth jj P 0 = nth jj q 0) by (unfold P; apply app_nth1; exact Hj).
    assert (SI : nth ii ES 0 = eps * nth ii P 0) by (unfold ES; apply (nth_map_in (fun x => eps * x) P ii 0 0); lia).
    assert (SJ : nth jj ES 0 = eps * nth jj P 0) by (unfold ES; apply (nth_map_in (fun x => eps * x) P jj 0 0); lia).
    rewrite (hess_elem_reindex (pois_ll (model_mean Bs false None) dt) (pois_ll (lin_mean Bs) dt) q P ii jj ii jj es ES os []).
    - apply (hess_elem_central_bound Bs dt P rho Hadj Hm Hsh ES [] ii jj eps); try assumption; try lia.
      + rewrite EI. exact Hti.
      + rewrite EJ. exact Htj.
      + apply nth_nil_false.
      + apply nth_nil_false.
    - tauto.
    - symmetry. exact EI.
    - symmetry. exact EJ.
    - rewrite SI, EI. exact Hei.
    - rewrite SJ, EJ. exact Hej.
    - rewrite nth_nil_false. exact Hoi.
    - rewrite nth_nil_false. exact Hoj.
    - intros v. rewrite pois_ll_affine. unfold P. rewrite upd_app_l by exact Hi. reflexivity.
    - intros a b. rewrite pois_ll_affine. unfold P. rewrite upd_app_l by exact Hi.
      rewrite upd_app_l by (rewrite length_upd; exact Hj). reflexivity.
    - apply pois_ll_affine. }
  destruct (Nat.le_ge_cases r c) as [Hle'|Hle'].
  - rewrite Nat.min_l, Nat.max_r by assumption. apply bound; assumption.
  - rewrite Nat.min_r, Nat.max_l by assumption.
    rewrite (pois_hess_sym Bs dt P r c), (pois_abs_hess_sym Bs dt P r c). apply bound; assumption.
Qed.

Theorem affine_gradient_within_eps2 (Bs : list (list R)) (dt : @pdata R) (q : list R) (rho : R) eps k :
  0 < pd_adj dt -> List.Forall (fun b => 0 < ndot (q ++ [1]) b) Bs -> 0 < rho -> share_bound Bs (q ++ [1]) rho ->
  0 < eps -> eps <= / (8 * rho) -> (k < length q)%nat -> nth k q 0 <> 0 -> Rtiny <= nth k q 0 * eps ->
  Rabs (nth k (get_grad (pois_ll (model_mean Bs false None) dt) q eps) 0 - pois_grad Bs dt (q ++ [1]) k)
  <= 4 / 3 * (rho * rho) * pois_abs_grad Bs dt (q ++ [1]) k * (eps * eps).
Proof.
  intros Hadj Hm Hrho Hsh He Hle Hk Htk Hsk.
  pose proof (eps_rho_bound eps rho Hrho Hle) as Her.
  unfold get_grad. rewrite (nth_map_seq _ _ _ _ Hk).
  destruct (central_steps q eps k Hk Htk Hsk) as [Ek Ok].
  set (es := map fst (map (step_rule eps) q)) in *. set (os := map snd (map (step_rule eps) q)) in *.
  set (P := q ++ [1]) in *. set (ES := map (fun x => eps * x) P).
  assert (HLP : length P = S (length q)) by (unfold P; rewrite app_length; cbn [length]; lia).
  assert (EI : nth k P 0 = nth k q 0) by (unfold P; apply app_nth1; exact Hk).
  assert (SI : nth k ES 0 = eps * nth k P 0) by (unfold ES; apply (nth_map_in (fun x => eps * x) P k 0 0); lia).
  rewrite (grad_elem_reindex (pois_ll (model_mean Bs false None) dt) (pois_ll (lin_mean Bs) dt) q P k k es ES os []).
  - apply (grad_elem_central_bound Bs dt P rho Hadj Hm Hsh ES [] k eps); try assumption; try lia; try lra;
      try (rewrite EI; exact Htk); try apply nth_nil_false.
  - symmetry. exact EI.
  - rewrite SI, EI. exact Ek.
  - rewrite nth_nil_false. exact Ok.
  - intros v. rewrite pois_ll_affine. unfold P. rewrite upd_app_l by exact Hk. reflexivity.
Qed.
