(** MathComp side of C08: the model's integer binomial [bZ] is MathComp's ['C(n,k)]; the identities needed
    by the projection proofs are restated on plain [nat]/[Z] objects so that the stdlib-style files never see
    MathComp notations. *)
From mathcomp Require Import all_ssreflect zify.
From Coq Require Import ZArith NArith Lia.
From Dadi Require Import Model.Projection Proofs.ProjBase.


Lemma binM_bin n k : k <= n -> binM n k = N.of_nat 'C(n, k).
Proof.
elim: k => [|k IH] kn; first by rewrite bin0.
rewrite /= IH; last by lia.
have E : (N.of_nat 'C(n, k) * N.of_nat (n - k) = N.of_nat 'C(n, k.+1) * N.of_nat k.+1)%N.
  rewrite -!Nnat.Nat2N.inj_mul; congr N.of_nat.
  have := mul_bin_left n k. rewrite /muln /muln_rec /subn /subn_rec. lia.
rewrite E N.div_mul //.
Qed.

Lemma binN_bin n k : binN n k = N.of_nat 'C(n, k).
Proof.
rewrite /binN. case: (Nat.leb_spec k n) => H.
- have kn : k <= n by lia.
  case: (Nat.min_spec k (n - k)) => -[_ ->].
  + by rewrite binM_bin.
  + rewrite binM_bin; last by lia.
    rewrite -(bin_sub kn). by [].
- rewrite bin_small //. lia.
Qed.

Lemma bZ_bin n k : bZ n k = Z.of_nat 'C(n, k).
Proof. by rewrite /bZ binN_bin nat_N_Z. Qed.

Lemma zsum_big (F : nat -> nat) n : zsum (fun i => Z.of_nat (F i)) n = Z.of_nat (\sum_(i < n) F i).
Proof.
elim: n => [|n IH]; first by rewrite big_ord0.
by rewrite big_ord_recr /= IH Nat2Z.inj_add.
Qed.

(** Vandermonde *)
Lemma bZ_vandermonde a b j :
  zsum (fun i => bZ a i * bZ b (j - i)%coq_nat)%Z (S j) = bZ (a + b)%coq_nat j.
Proof.
change (zsum (fun i => bZ a i * bZ b (j - i))%Z (S j) = bZ (a + b) j).
rewrite (zsum_ext _ (fun i => Z.of_nat ('C(a, i) * 'C(b, j - i)))); last first.
  by move=> i _; rewrite !bZ_bin -Nat2Z.inj_mul.
by rewrite zsum_big Vandermonde bZ_bin.
Qed.

Lemma bZ_pos n k : (k <= n)%coq_nat -> (0 < bZ n k)%Z.
Proof. move=> H; rewrite bZ_bin. have : 0 < 'C(n, k) by rewrite bin_gt0; lia. lia. Qed.

Lemma bZ_small n k : (n < k)%coq_nat -> bZ n k = 0%Z.
Proof. move=> H; rewrite bZ_bin bin_small //. lia. Qed.

Lemma bZ_sym n k : (k <= n)%coq_nat -> bZ n (n - k)%coq_nat = bZ n k.
Proof. change (k <= n -> bZ n (n - k) = bZ n k)%coq_nat; rewrite -/(subn n k). move=> H; rewrite !bZ_bin. have kn : k <= n by lia. by rewrite -(bin_sub kn). Qed.

Lemma bZ_n0 n : bZ n 0 = 1%Z.
Proof. by rewrite bZ_bin bin0. Qed.

Lemma bZ_nn n : bZ n n = 1%Z.
Proof. by rewrite bZ_bin binn. Qed.

(** n C(n-1,i) = (n-i) C(n,i)  and  n C(n-1,i) = (i+1) C(n,i+1) *)
Lemma bZ_down n i : (Z.of_nat n * bZ (n - 1)%coq_nat i = Z.of_nat (n - i)%coq_nat * bZ n i)%Z.
Proof.
change (Z.of_nat n * bZ (n - 1) i = Z.of_nat (n - i) * bZ n i)%Z.
rewrite !bZ_bin -!Nat2Z.inj_mul; congr Z.of_nat.
have := mul_bin_down n i. rewrite -subn1. by [].
Qed.

Lemma bZ_diag n i : (Z.of_nat n * bZ (n - 1)%coq_nat i = Z.of_nat (S i) * bZ n (S i))%Z.
Proof.
change (Z.of_nat n * bZ (n - 1) i = Z.of_nat (S i) * bZ n (S i))%Z.
rewrite !bZ_bin -!Nat2Z.inj_mul; congr Z.of_nat.
have := mul_bin_diag n i. rewrite -subn1. by [].
Qed.
