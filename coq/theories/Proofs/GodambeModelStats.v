(** * GodambeModelStats: the same O(eps^2) propagation for the model's own executable statistics
      ([var_of], [gim], [lrt_adjust], [wald_stat], [score_stat] of Model/Godambe.v).

    These use [mat_inv_v]: Gauss-Jordan whose result is accepted only when it certifies itself ([inv_ok]: A Ai = Ai A = 1
    entry by entry).  Only the certificate is used here ([mat_inv_v_spec]); no oracle, no property of the elimination.
    The theorems are stated for runs in which [mat_inv_v] returns [Some] on the exact and on the perturbed matrices. *)
From Coq Require Import ZArith Reals List Lra Lia Arith Bool.
From Coquelicot Require Import Coquelicot.
From Dadi Require Import Base.Num Base.NumR Model.Godambe Proofs.GodambeProofs Proofs.GodambePoisson Proofs.GodambeLnBounds
                         Proofs.GodambeRemainder Proofs.MatPerturb Proofs.MatNeumann Proofs.MatStats Proofs.MatLists
                         Proofs.GodambeInverse.
Import ListNotations.
Local Open Scope R_scope.

(** ** what the certificate [inv_ok] says *)
Lemma wf_matb_spec n (M : list (list R)) : wf_matb n M = true -> wf n M.
Proof.
  unfold wf_matb. intros Hb. apply andb_prop in Hb. destruct Hb as [H1 H2].
  apply Nat.eqb_eq in H1. split; [exact H1|]. intros r Hr.
  rewrite forallb_forall in H2. apply Nat.eqb_eq. apply H2. exact Hr.
Qed.

Lemma mat_eqb_spec n (X Y : list (list R)) : mat_eqb n X Y = true -> meq n (ent X) (ent Y).
Proof.
  unfold mat_eqb. intros Hb i j Hi Hj. rewrite forallb_forall in Hb.
  assert (Hi' : In i (seq 0 n)) by (apply in_seq; lia). pose proof (Hb i Hi') as Hr.
  rewrite forallb_forall in Hr. assert (Hj' : In j (seq 0 n)) by (apply in_seq; lia). pose proof (Hr j Hj') as E.
  numR. apply Reqb_true in E. exact E.
Qed.

Lemma ent_ident n i j : (i < n)%nat -> (j < n)%nat -> ent (@ident R NumR n) i j = mI i j.
Proof. intros Hi Hj. unfold ident. rewrite ent_map_seq by assumption. reflexivity. Qed.

Lemma inv_ok_spec (A Ai : list (list R)) : inv_ok A Ai = true ->
  wf (length A) A /\ wf (length A) Ai /\ is_inv (length A) (ent A) (ent Ai).
Proof.
  unfold inv_ok. intros Hb. apply andb_prop in Hb. destruct Hb as [Hb H4]. apply andb_prop in Hb. destruct Hb as [Hb H3].
  apply andb_prop in Hb. destruct Hb as [H1 H2].
  apply wf_matb_spec in H1. apply wf_matb_spec in H2. apply mat_eqb_spec in H3. apply mat_eqb_spec in H4.
  split; [exact H1|]. split; [exact H2|]. split; intros i j Hi Hj.
  - rewrite <- (ent_mat_mul _ A Ai i j H1 H2 Hi Hj), (H3 i j Hi Hj). apply ent_ident; assumption.
  - rewrite <- (ent_mat_mul _ Ai A i j H2 H1 Hi Hj), (H4 i j Hi Hj). apply ent_ident; assumption.
Qed.

Lemma mat_inv_v_spec n (A Ai : list (list R)) : length A = n -> mat_inv_v A = Some Ai ->
  wf n A /\ wf n Ai /\ is_inv n (ent A) (ent Ai).
Proof.
  intros Hn. unfold mat_inv_v. destruct (mat_inv A) as [X|]; [|discriminate].
  destruct (inv_ok A X) eqn:Hok; [|discriminate]. intros E. injection E as <-. subst n. apply inv_ok_spec. exact Hok.
Qed.

Lemma nth_diag_wf n (M : list (list R)) i : wf n M -> (i < n)%nat -> nth i (diag M) 0 = ent M i i.
Proof. intros [L _] Hi. apply nth_diag. lia. Qed.

(** ** the matrix stage on exact (H, J, cU) and perturbed (H', J', cU') *)
Section ModelStage.
  Variable n : nat.
  Variables H H' J J' : list (list R).
  Variables cU cU' : list R.
  Variables CH CJ Cc e2 : R.
  Hypothesis lenH : length H = n.
  Hypothesis lenH' : length H' = n.
  Hypothesis lenJ : length J = n.
  Hypothesis lenJ' : length J' = n.
  Hypothesis lencU : length cU = n.
  Hypothesis lencU' : length cU' = n.
  Hypothesis closeH : mnorm n (msub (ent H') (ent H)) <= CH * e2.
  Hypothesis closeJ : mnorm n (msub (ent J') (ent J)) <= CJ * e2.
  Hypothesis closeU : vnorm n (fun i => vec cU' i - vec cU i) <= Cc * e2.
  Hypothesis e2_range : 0 <= e2 <= 1.
  Hypothesis CH_nonneg : 0 <= CH.
  Hypothesis CJ_nonneg : 0 <= CJ.
  Hypothesis Cc_nonneg : 0 <= Cc.

  (** FIM: var_of H = diag (inverse of H) *)
  Theorem model_FIM_within Hi Hi' :
    mat_inv_v H = Some Hi -> mat_inv_v H' = Some Hi' ->
    mnorm n (ent Hi) * (CH * e2) <= 1 / 2 ->
    var_of H = Some (diag Hi) /\ var_of H' = Some (diag Hi') /\
    forall i, (i < n)%nat -> 2 * (mnorm n (ent Hi) * mnorm n (ent Hi)) * CH * e2 < nth i (diag Hi) 0 ->
      0 < nth i (diag Hi') 0 /\
      Rabs (sqrt (nth i (diag Hi') 0) - sqrt (nth i (diag Hi) 0))
      <= 2 * (mnorm n (ent Hi) * mnorm n (ent Hi)) * CH / sqrt (nth i (diag Hi) 0) * e2.
  Proof using lenH lenH' closeH.
    intros E E' Hhalf. unfold var_of. rewrite E, E'. split; [reflexivity|]. split; [reflexivity|].
    destruct (mat_inv_v_spec n H Hi lenH E) as [wH [wHi HI]].
    destruct (mat_inv_v_spec n H' Hi' lenH' E') as [wH' [wHi' HI']].
    destruct (fim_inverse_within n (ent H) (ent Hi) (ent H') (ent Hi') CH e2 HI HI' closeH Hhalf) as [_ [_ HE]].
    intros i Hi0. rewrite (nth_diag_wf n Hi i wHi Hi0), (nth_diag_wf n Hi' i wHi' Hi0). intros Hsm.
    assert (Hpos : 0 < ent Hi i i).
    { eapply Rle_lt_trans; [|exact Hsm]. eapply Rle_trans; [apply Rabs_pos|apply (HE i i Hi0 Hi0)]. }
    apply (uncert_within (ent Hi i i) (ent Hi' i i) (2 * (mnorm n (ent Hi) * mnorm n (ent Hi)) * CH) e2 Hpos (HE i i Hi0 Hi0) Hsm).
  Qed.

  (** GIM: gim H J = H Ji H and the variances diag (inverse of it) *)
  Theorem model_GIM_within Ji Ji' :
    mat_inv_v J = Some Ji -> mat_inv_v J' = Some Ji' ->
    mnorm n (ent Ji) * (CJ * e2) <= 1 / 2 ->
    let G := mat_mul (mat_mul H Ji) H in let G' := mat_mul (mat_mul H' Ji') H' in
    let KGIM := KG (mnorm n (ent H)) (mnorm n (ent Ji)) CH CJ in
    wf n H -> wf n H' ->
    gim H J = Some G /\ gim H' J' = Some G' /\ length G = n /\ length G' = n /\
    mnorm n (msub (ent G') (ent G)) <= KGIM * e2 /\
    forall Gi Gi', mat_inv_v G = Some Gi -> mat_inv_v G' = Some Gi' ->
      mnorm n (ent Gi) * (KGIM * e2) <= 1 / 2 ->
      forall i, (i < n)%nat -> 2 * (mnorm n (ent Gi) * mnorm n (ent Gi)) * KGIM * e2 < nth i (diag Gi) 0 ->
        0 < nth i (diag Gi') 0 /\
        Rabs (sqrt (nth i (diag Gi') 0) - sqrt (nth i (diag Gi) 0))
        <= 2 * (mnorm n (ent Gi) * mnorm n (ent Gi)) * KGIM / sqrt (nth i (diag Gi) 0) * e2.
  Proof using lenJ lenJ' closeH closeJ e2_range CH_nonneg CJ_nonneg.
    intros E E' Hhalf G G' KGIM wH wH'. unfold gim. rewrite E, E'. split; [reflexivity|]. split; [reflexivity|].
    destruct (mat_inv_v_spec n J Ji lenJ E) as [wJ [wJi HI]].
    destruct (mat_inv_v_spec n J' Ji' lenJ' E') as [wJ' [wJi' HI']].
    assert (wG : wf n G) by (unfold G; repeat apply wf_mat_mul; assumption).
    assert (wG' : wf n G') by (unfold G'; repeat apply wf_mat_mul; assumption).
    split; [apply wG|]. split; [apply wG'|].
    assert (EG : meq n (ent G) (mmul n (mmul n (ent H) (ent Ji)) (ent H))).
    { intros i j Hi Hj. unfold G. rewrite (ent_mat_mul n) by (try apply wf_mat_mul; assumption).
      apply mmul_ext_l. intros k Hk. apply ent_mat_mul; assumption. }
    assert (EG' : meq n (ent G') (mmul n (mmul n (ent H') (ent Ji')) (ent H'))).
    { intros i j Hi Hj. unfold G'. rewrite (ent_mat_mul n) by (try apply wf_mat_mul; assumption).
      apply mmul_ext_l. intros k Hk. apply ent_mat_mul; assumption. }
    assert (HEG : mnorm n (msub (ent G') (ent G)) <= KGIM * e2).
    { rewrite (mnorm_meq n (msub (ent G') (ent G))
                 (msub (mmul n (mmul n (ent H') (ent Ji')) (ent H')) (mmul n (mmul n (ent H) (ent Ji)) (ent H)))).
      - apply (gim_within n (ent H) (ent J) (ent Ji) (ent H') (ent J') (ent Ji')); assumption.
      - intros i j Hi Hj. unfold msub. rewrite EG, EG' by assumption. reflexivity. }
    split; [exact HEG|].
    intros Gi Gi' F F' Hh2.
    destruct (mat_inv_v_spec n G Gi (proj1 wG) F) as [_ [wGi HGi]].
    destruct (mat_inv_v_spec n G' Gi' (proj1 wG') F') as [_ [wGi' HGi']].
    destruct (fim_inverse_within n (ent G) (ent Gi) (ent G') (ent Gi') KGIM e2 HGi HGi' HEG Hh2) as [_ [_ HE]].
    intros i Hi0. rewrite (nth_diag_wf n Gi i wGi Hi0), (nth_diag_wf n Gi' i wGi' Hi0). intros Hsm.
    assert (Hpos : 0 < ent Gi i i).
    { eapply Rle_lt_trans; [|exact Hsm]. eapply Rle_trans; [apply Rabs_pos|apply (HE i i Hi0 Hi0)]. }
    apply (uncert_within (ent Gi i i) (ent Gi' i i) (2 * (mnorm n (ent Gi) * mnorm n (ent Gi)) * KGIM) e2 Hpos (HE i i Hi0 Hi0) Hsm).
  Qed.

  (** LRT adjustment *)
  Theorem model_LRT_within Hi Hi' :
    mat_inv_v H = Some Hi -> mat_inv_v H' = Some Hi' -> wf n J -> wf n J' ->
    mnorm n (ent Hi) * (CH * e2) <= 1 / 2 ->
    let t := trace (mat_mul J Hi) in let KLRT := KT (mnorm n (ent Hi)) (mnorm n (ent J)) CH CJ in
    t <> 0 -> KLRT * e2 <= Rabs t / 2 ->
    exists a a', lrt_adjust H J = Some a /\ lrt_adjust H' J' = Some a' /\
      trace (mat_mul J' Hi') <> 0 /\
      Rabs (a' - a) <= 2 * Rabs (IZR (Z.of_nat n)) * KLRT / (t * t) * e2.
  Proof using lenH lenH' closeH closeJ e2_range CJ_nonneg.
    intros E E' wJ wJ' Hhalf t KLRT Ht Hsm.
    destruct (mat_inv_v_spec n H Hi lenH E) as [wH [wHi HI]].
    destruct (mat_inv_v_spec n H' Hi' lenH' E') as [wH' [wHi' HI']].
    unfold lrt_adjust. rewrite E, E', lenH, lenH'. unfold nofnat. numR.
    exists (IZR (Z.of_nat n) / trace (mat_mul J Hi)), (IZR (Z.of_nat n) / trace (mat_mul J' Hi')).
    split; [reflexivity|]. split; [reflexivity|].
    assert (T : trace (mat_mul J Hi) = mtrace n (mmul n (ent J) (ent Hi))).
    { rewrite (trace_mtrace n) by (apply wf_mat_mul; assumption).
      apply mtrace_meq. intros i j Hi0 Hj0. apply ent_mat_mul; assumption. }
    assert (T' : trace (mat_mul J' Hi') = mtrace n (mmul n (ent J') (ent Hi'))).
    { rewrite (trace_mtrace n) by (apply wf_mat_mul; assumption).
      apply mtrace_meq. intros i j Hi0 Hj0. apply ent_mat_mul; assumption. }
    unfold t in *. rewrite T in *. rewrite T'.
    apply (lrt_adjust_within n (ent H) (ent Hi) (ent J) (ent H') (ent Hi') (ent J') CH CJ e2 (IZR (Z.of_nat n)));
      try assumption. apply e2_range.
  Qed.

  (** Wald statistic (adjusted, original) *)
  Theorem model_Wald_within Ji Ji' (d : list R) :
    mat_inv_v J = Some Ji -> mat_inv_v J' = Some Ji' -> wf n H -> wf n H' -> length d = n ->
    mnorm n (ent Ji) * (CJ * e2) <= 1 / 2 ->
    exists w w', wald_stat H J d = Some w /\ wald_stat H' J' d = Some w' /\
      Rabs (fst w' - fst w) <= vnorm n (vec d) * vnorm n (vec d) * KG (mnorm n (ent H)) (mnorm n (ent Ji)) CH CJ * e2 /\
      Rabs (snd w' - snd w) <= vnorm n (vec d) * vnorm n (vec d) * CH * e2.
  Proof using lenJ lenJ' closeH closeJ e2_range CH_nonneg CJ_nonneg.
    intros E E' wH wH' Hd Hhalf.
    destruct (model_GIM_within Ji Ji' E E' Hhalf wH wH') as [EG [EG' [LG [LG' [HEG _]]]]].
    destruct (mat_inv_v_spec n J Ji lenJ E) as [wJ [wJi HI]].
    destruct (mat_inv_v_spec n J' Ji' lenJ' E') as [wJ' [wJi' HI']].
    unfold wald_stat. rewrite EG, EG'.
    eexists; eexists. split; [reflexivity|]. split; [reflexivity|]. cbn [fst snd].
    assert (wG : wf n (mat_mul (mat_mul H Ji) H)) by (repeat apply wf_mat_mul; assumption).
    assert (wG' : wf n (mat_mul (mat_mul H' Ji') H')) by (repeat apply wf_mat_mul; assumption).
    split.
    - rewrite !(qform_bform n) by assumption. rewrite !Rmult_assoc, <- (Rmult_assoc (vnorm n (vec d))).
      apply wald_within. exact HEG.
    - rewrite !(qform_bform n) by assumption. rewrite !Rmult_assoc, <- (Rmult_assoc (vnorm n (vec d))).
      apply wald_within. exact closeH.
  Qed.

  (** score statistic (adjusted, original) *)
  Theorem model_score_within Hi Hi' Ji Ji' :
    mat_inv_v H = Some Hi -> mat_inv_v H' = Some Hi' -> mat_inv_v J = Some Ji -> mat_inv_v J' = Some Ji' ->
    mnorm n (ent Ji) * (CJ * e2) <= 1 / 2 -> mnorm n (ent Hi) * (CH * e2) <= 1 / 2 ->
    exists s s', score_stat H J cU = Some s /\ score_stat H' J' cU' = Some s' /\
      Rabs (fst s' - fst s) <= KG (vnorm n (vec cU)) (mnorm n (ent Ji)) Cc CJ * e2 /\
      Rabs (snd s' - snd s) <= KG (vnorm n (vec cU)) (mnorm n (ent Hi)) Cc CH * e2.
  Proof using lenH lenH' lenJ lenJ' lencU lencU' closeH closeJ closeU e2_range CH_nonneg CJ_nonneg Cc_nonneg.
    intros E E' F F' HhJ HhH.
    destruct (mat_inv_v_spec n H Hi lenH E) as [wH [wHi HI]].
    destruct (mat_inv_v_spec n H' Hi' lenH' E') as [wH' [wHi' HI']].
    destruct (mat_inv_v_spec n J Ji lenJ F) as [wJ [wJi HJ]].
    destruct (mat_inv_v_spec n J' Ji' lenJ' F') as [wJ' [wJi' HJ']].
    unfold score_stat, qform_inv. rewrite E, E', F, F'.
    eexists; eexists. split; [reflexivity|]. split; [reflexivity|]. cbn [fst snd].
    split; rewrite !(qform_bform n) by assumption.
    - apply (score_within n (ent J) (ent Ji) (ent J') (ent Ji') (vec cU) (vec cU') CJ Cc e2); assumption.
    - apply (score_within n (ent H) (ent Hi) (ent H') (ent Hi') (vec cU) (vec cU') CH Cc e2); assumption.
  Qed.
End ModelStage.

(** ** linear Poisson models: the model's statistics on the finite-difference (H, J, cU) versus on the closed forms *)
Theorem poisson_model_FIM_within_eps2
  (Bs : list (list R)) (theta : list R) (rho : R) (data : @pdata R) (boots : list (@pdata R)) (eps : R) :
  0 < pd_adj data -> List.Forall (fun b => 0 < ndot theta b) Bs -> 0 < rho -> share_bound Bs theta rho ->
  0 < eps -> eps <= / (8 * rho) -> eps <= 1 ->
  (forall k, (k < length theta)%nat -> nth k theta 0 <> 0 /\ Rtiny <= nth k theta 0 * eps) ->
  let n := length theta in
  let H' := fst (fst (godambe_HJc (fun bt => pois_ll (lin_mean Bs) bt) theta eps data boots)) in
  let Hc := pois_H_mat n Bs data theta in
  forall Hi Hi', mat_inv_v Hc = Some Hi -> mat_inv_v H' = Some Hi' ->
  let K := 2 * (mnorm n (ent Hi) * mnorm n (ent Hi)) * CH_pois n rho Bs data theta in
  mnorm n (ent Hi) * (CH_pois n rho Bs data theta * (eps * eps)) <= 1 / 2 ->
  var_of Hc = Some (diag Hi) /\ var_of H' = Some (diag Hi') /\
  forall i, (i < n)%nat -> K * (eps * eps) < nth i (diag Hi) 0 ->
    0 < nth i (diag Hi') 0 /\
    Rabs (sqrt (nth i (diag Hi') 0) - sqrt (nth i (diag Hi) 0)) <= K / sqrt (nth i (diag Hi) 0) * (eps * eps).
Proof.
  intros Hadj Hm Hrho Hsh He Hle He1 Hcen n H' Hc Hi Hi' E E' K Hhalf.
  destruct (pois_H_close n Bs theta rho data boots eps eq_refl Hadj Hm Hrho Hsh He Hle He1 Hcen) as [wH' [wHc [Hb HC]]].
  exact (model_FIM_within n Hc H' _ _ (proj1 wHc) (proj1 wH') Hb Hi Hi' E E' Hhalf).
Qed.

Theorem poisson_model_GIM_within_eps2
  (Bs : list (list R)) (theta : list R) (rho : R) (data : @pdata R) (boots : list (@pdata R)) (eps : R) :
  0 < pd_adj data -> List.Forall (fun bt => 0 < pd_adj bt) boots -> List.Forall (fun b => 0 < ndot theta b) Bs ->
  0 < rho -> share_bound Bs theta rho -> boots <> [] ->
  0 < eps -> eps <= / (8 * rho) -> eps <= 1 ->
  (forall k, (k < length theta)%nat -> nth k theta 0 <> 0 /\ Rtiny <= nth k theta 0 * eps) ->
  let n := length theta in
  let HJc := godambe_HJc (fun bt => pois_ll (lin_mean Bs) bt) theta eps data boots in
  let H' := fst (fst HJc) in let J' := snd (fst HJc) in
  let Hc := pois_H_mat n Bs data theta in let Jc := pois_J_mat n Bs theta boots in
  forall Ji Ji' G G' Gi Gi',
  mat_inv_v Jc = Some Ji -> mat_inv_v J' = Some Ji' ->
  gim Hc Jc = Some G -> gim H' J' = Some G' ->
  mat_inv_v G = Some Gi -> mat_inv_v G' = Some Gi' ->
  let KGIM := KG (mnorm n (ent Hc)) (mnorm n (ent Ji)) (CH_pois n rho Bs data theta) (CJ_pois n rho Bs theta boots) in
  let K := 2 * (mnorm n (ent Gi) * mnorm n (ent Gi)) * KGIM in
  mnorm n (ent Ji) * (CJ_pois n rho Bs theta boots * (eps * eps)) <= 1 / 2 ->
  mnorm n (ent Gi) * (KGIM * (eps * eps)) <= 1 / 2 ->
  var_of G = Some (diag Gi) /\ var_of G' = Some (diag Gi') /\
  mnorm n (msub (ent G') (ent G)) <= KGIM * (eps * eps) /\
  forall i, (i < n)%nat -> K * (eps * eps) < nth i (diag Gi) 0 ->
    0 < nth i (diag Gi') 0 /\
    Rabs (sqrt (nth i (diag Gi') 0) - sqrt (nth i (diag Gi) 0)) <= K / sqrt (nth i (diag Gi) 0) * (eps * eps).
Proof.
  intros Hadj Hadjs Hm Hrho Hsh Hne He Hle He1 Hcen n HJc H' J' Hc Jc Ji Ji' G G' Gi Gi' E E' EG EG' F F' KGIM K Hh1 Hh2.
  destruct (pois_H_close n Bs theta rho data boots eps eq_refl Hadj Hm Hrho Hsh He Hle He1 Hcen) as [wH' [wHc [HbH HCH]]].
  destruct (pois_J_close n Bs theta rho data boots eps eq_refl Hadj Hadjs Hm Hrho Hsh Hne He Hle He1 Hcen)
    as [wJ' [wJc [_ [_ [HbJ [_ [HCJ _]]]]]]].
  destruct (eps2_range eps He He1) as [_ Hr].
  destruct (model_GIM_within n Hc H' Jc J' _ _ _ (proj1 wJc) (proj1 wJ') HbH HbJ Hr HCH HCJ Ji Ji' E E' Hh1 wHc wH')
    as [A [A' [_ [_ [HEG HV]]]]].
  fold H' J' in EG'. rewrite A in EG. rewrite A' in EG'. injection EG as <-. injection EG' as <-.
  unfold var_of. rewrite F, F'. split; [reflexivity|]. split; [reflexivity|]. split; [exact HEG|].
  exact (HV Gi Gi' F F' Hh2).
Qed.

Theorem poisson_model_LRT_Wald_score_within_eps2
  (Bs : list (list R)) (theta : list R) (rho : R) (data : @pdata R) (boots : list (@pdata R)) (eps : R) :
  0 < pd_adj data -> List.Forall (fun bt => 0 < pd_adj bt) boots -> List.Forall (fun b => 0 < ndot theta b) Bs ->
  0 < rho -> share_bound Bs theta rho -> boots <> [] ->
  0 < eps -> eps <= / (8 * rho) -> eps <= 1 ->
  (forall k, (k < length theta)%nat -> nth k theta 0 <> 0 /\ Rtiny <= nth k theta 0 * eps) ->
  let n := length theta in
  let HJc := godambe_HJc (fun bt => pois_ll (lin_mean Bs) bt) theta eps data boots in
  let H' := fst (fst HJc) in let J' := snd (fst HJc) in let cU' := snd HJc in
  let Hc := pois_H_mat n Bs data theta in let Jc := pois_J_mat n Bs theta boots in let cUc := pois_cU_vec n Bs theta boots in
  let CH := CH_pois n rho Bs data theta in let CJ := CJ_pois n rho Bs theta boots in let Cc := Cc_pois n rho Bs theta boots in
  forall Hi Hi' Ji Ji',
  mat_inv_v Hc = Some Hi -> mat_inv_v H' = Some Hi' -> mat_inv_v Jc = Some Ji -> mat_inv_v J' = Some Ji' ->
  mnorm n (ent Hi) * (CH * (eps * eps)) <= 1 / 2 -> mnorm n (ent Ji) * (CJ * (eps * eps)) <= 1 / 2 ->
  (* LRT_adjust *)
  (let t := trace (mat_mul Jc Hi) in let KLRT := KT (mnorm n (ent Hi)) (mnorm n (ent Jc)) CH CJ in
   t <> 0 -> KLRT * (eps * eps) <= Rabs t / 2 ->
   exists a a', lrt_adjust Hc Jc = Some a /\ lrt_adjust H' J' = Some a' /\
     Rabs (a' - a) <= 2 * Rabs (IZR (Z.of_nat n)) * KLRT / (t * t) * (eps * eps)) /\
  (* Wald_stat *)
  (forall d : list R, length d = n ->
   exists w w', wald_stat Hc Jc d = Some w /\ wald_stat H' J' d = Some w' /\
     Rabs (fst w' - fst w) <= vnorm n (vec d) * vnorm n (vec d) * KG (mnorm n (ent Hc)) (mnorm n (ent Ji)) CH CJ * (eps * eps) /\
     Rabs (snd w' - snd w) <= vnorm n (vec d) * vnorm n (vec d) * CH * (eps * eps)) /\
  (* score_stat *)
  (exists s s', score_stat Hc Jc cUc = Some s /\ score_stat H' J' cU' = Some s' /\
     Rabs (fst s' - fst s) <= KG (vnorm n (vec cUc)) (mnorm n (ent Ji)) Cc CJ * (eps * eps) /\
     Rabs (snd s' - snd s) <= KG (vnorm n (vec cUc)) (mnorm n (ent Hi)) Cc CH * (eps * eps)).
Proof.
  intros Hadj Hadjs Hm Hrho Hsh Hne He Hle He1 Hcen n HJc H' J' cU' Hc Jc cUc CH CJ Cc Hi Hi' Ji Ji' E E' F F' HhH HhJ.
  destruct (pois_H_close n Bs theta rho data boots eps eq_refl Hadj Hm Hrho Hsh He Hle He1 Hcen) as [wH' [wHc [HbH HCH]]].
  destruct (pois_J_close n Bs theta rho data boots eps eq_refl Hadj Hadjs Hm Hrho Hsh Hne He Hle He1 Hcen)
    as [wJ' [wJc [lU' [lUc [HbJ [HbU [HCJ HCc]]]]]]].
  destruct (eps2_range eps He He1) as [_ Hr].
  split; [|split].
  - intros t KLRT Ht Hsm.
    destruct (model_LRT_within n Hc H' Jc J' CH CJ (eps * eps) (proj1 wHc) (proj1 wH') HbH HbJ Hr HCJ Hi Hi' E E' wJc wJ' HhH Ht Hsm)
      as [a [a' [A [A' [_ B]]]]].
    exists a, a'. split; [exact A|]. split; [exact A'|exact B].
  - intros d Hd.
    exact (model_Wald_within n Hc H' Jc J' CH CJ (eps * eps) (proj1 wJc) (proj1 wJ') HbH HbJ Hr HCH HCJ Ji Ji' d F F' wHc wH' Hd HhJ).
  - exact (model_score_within n Hc H' Jc J' cUc cU' CH CJ Cc (eps * eps) (proj1 wHc) (proj1 wH') (proj1 wJc) (proj1 wJ')
             lUc lU' HbH HbJ HbU Hr HCH HCJ HCc Hi Hi' Ji Ji' E E' F F' HhJ HhH).
Qed.

(** ** non-vacuity: the hypotheses [mat_inv_v _ = Some _] are met (1 x 1), and the model-level FIM theorem applies to the
       one-parameter instance of GodambeInverse.poisson_FIM_uncert_nonvacuous *)
Lemma mat_inv_v_1x1 x : x <> 0 -> @mat_inv_v R NumR [[x]] = Some [[1 / x]].
Proof.
  intros Hx.
  assert (E0 : Reqb x 0 = false) by (apply Reqb_false; exact Hx).
  assert (Ex : x * (1 / x) = 1) by (field; exact Hx).
  assert (Ex' : 1 / x * x = 1) by (field; exact Hx).
  unfold mat_inv_v, mat_inv. cbn [length seq ident map combine app gauss_jordan find_pivot Nat.leb andb nth delta Nat.eqb].
  numR. cbn [fst snd app nth]. rewrite E0. cbn [negb]. unfold swap_rows, eliminate.
  cbn [length seq map Nat.eqb nth combine fst snd skipn]. numR.
  unfold inv_ok, wf_matb, mat_eqb, mat_mul, ident, entry, ndot, col, nsum, delta.
  cbn [length seq map forallb Nat.eqb andb nth combine fold_right fst snd skipn]. numR.
  replace (x * (1 / x) + 0) with 1 by lra. replace (1 / x * x + 0) with 1 by lra.
  rewrite (proj2 (Reqb_true 1 1) eq_refl). reflexivity.
Qed.

Lemma wf1_shape (M : list (list R)) : wf 1 M -> M = [[ent M 0%nat 0%nat]].
Proof.
  intros [L R0]. destruct M as [|r [|r' M']]; try discriminate.
  pose proof (R0 r (or_introl eq_refl)) as Lr. destruct r as [|x [|y r']]; try discriminate. reflexivity.
Qed.

Example poisson_model_FIM_nonvacuous :
  let Bs := [[1]] in let dt := {| pd_adj := 1; pd_d := [4]; pd_g := [0] |} in
  let H' := fst (fst (godambe_HJc (fun bt => pois_ll (lin_mean Bs) bt) [1] (1 / 100) dt [])) in
  exists v v', var_of (pois_H_mat 1 Bs dt [1]) = Some v /\ var_of H' = Some v' /\ nth 0 v 0 = 1 / 4 /\
    0 < nth 0 v' 0 /\ Rabs (sqrt (nth 0 v' 0) - 1 / 2) <= 4 / 1000.
Proof.
  intros Bs dt H'.
  assert (Hadj : 0 < pd_adj dt) by (cbn; lra).
  assert (Hm : List.Forall (fun b => 0 < ndot [1] b) Bs).
  { unfold Bs. apply Forall_cons; [|apply Forall_nil]. unfold ndot, nsum; cbn; numR; lra. }
  assert (Hsh : share_bound Bs [1] 1).
  { apply share_bound_nonneg. unfold Bs. apply Forall_cons; [|apply Forall_nil].
    intros k; destruct k as [|[|k]]; cbn [nth]; lra. }
  assert (Hcen : forall k, (k < length [1])%nat -> nth k [1] 0 <> 0 /\ Rtiny <= nth k [1] 0 * (1 / 100)).
  { intros k Hk. cbn [length] in Hk. assert (k = 0%nat) by lia. subst k. cbn [nth]. unfold Rtiny. split; lra. }
  assert (EH : pois_hess Bs dt [1] 0 0 = - 4).
  { unfold pois_hess, Bs, dt, ndot, nsum. cbn. numR. field. }
  assert (EA : pois_abs_hess Bs dt [1] 0 0 = 4).
  { unfold pois_abs_hess, habs, Bs, dt, ndot, nsum. cbn. numR. rewrite !Rabs_right by lra. field. }
  assert (EHc : pois_H_mat 1 Bs dt [1] = [[4]]).
  { unfold pois_H_mat. cbn [seq map]. rewrite EH. repeat f_equal. ring. }
  assert (EC : CH_pois 1 1 Bs dt [1] = 160).
  { unfold CH_pois. cbn [rsum]. rewrite EA. ring. }
  destruct (pois_H_close 1 Bs [1] 1 dt [] (1 / 100) eq_refl Hadj Hm Rlt_0_1 Hsh ltac:(lra) ltac:(lra) ltac:(lra) Hcen)
    as [wH' [_ [Hb _]]].
  fold H' in wH', Hb. rewrite EHc, EC in Hb.
  set (x := ent H' 0%nat 0%nat) in *.
  assert (Hx : Rabs (x - 4) <= 160 * (1 / 100 * (1 / 100))).
  { eapply Rle_trans; [|exact Hb]. right. unfold mnorm, msub. cbn [rsum]. fold x. cbn [ent nth]. ring. }
  assert (Hx0 : x <> 0).
  { intros Z. rewrite Z in Hx. replace (0 - 4) with (- (4)) in Hx by ring. rewrite Rabs_Ropp, Rabs_right in Hx; lra. }
  assert (EH' : H' = [[x]]) by (apply wf1_shape; exact wH').
  assert (I4 : @mat_inv_v R NumR [[4]] = Some [[1 / 4]]) by (apply mat_inv_v_1x1; lra).
  assert (Ix : mat_inv_v H' = Some [[1 / x]]) by (rewrite EH'; apply mat_inv_v_1x1; exact Hx0).
  assert (En : mnorm 1 (ent [[1 / 4]]) = 1 / 4).
  { unfold mnorm. cbn [rsum ent nth]. rewrite Rabs_right by lra. ring. }
  pose proof (poisson_model_FIM_within_eps2 Bs [1] 1 dt [] (1 / 100) Hadj Hm Rlt_0_1 Hsh
                ltac:(lra) ltac:(lra) ltac:(lra) Hcen) as T.
  cbv zeta in T. cbn [length] in T. fold H' in T. rewrite EHc, EC in T.
  specialize (T [[1 / 4]] [[1 / x]] I4 Ix). rewrite En in T.
  destruct (T ltac:(lra)) as [V [V' T3]].
  exists (diag [[1 / 4]]), (diag [[1 / x]]). split; [rewrite EHc; exact V|]. split; [exact V'|].
  assert (D4 : nth 0 (@diag R NumR [[1 / 4]]) 0 = 1 / 4) by reflexivity.
  split; [exact D4|].
  destruct (T3 0%nat Nat.lt_0_1) as [P Q]; [rewrite D4; lra|].
  split; [exact P|]. rewrite D4 in Q.
  assert (S4 : sqrt (1 / 4) = 1 / 2).
  { replace (1 / 4) with ((1 / 2) * (1 / 2)) by field. apply sqrt_square. lra. }
  rewrite S4 in Q. eapply Rle_trans; [exact Q|]. right. field.
Qed.
