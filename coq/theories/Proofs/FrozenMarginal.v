(** C04, d dimensions: the trapezoid-marginal density of population f at a frequency strictly between 0 and 1 is
    unchanged by the sweep of any OTHER population k, whatever that population's size, selection, dominance and
    migration — hence a frozen population's marginal density is unchanged by a whole step. *)
From Coq Require Import Reals List Lra Lia Arith Bool.
From Dadi Require Import Base.Num Base.NumR Model.Tridiag Model.Scheme Model.NDSweep
  Proofs.TridiagProofs Proofs.SchemeProofs Proofs.SumLemmas Proofs.MassBalance Proofs.NDLines Proofs.NDSweepProofs Proofs.NDWeights.
Import ListNotations.
Local Open Scope R_scope.

(** weight of a multi-index for the marginal of population f at index i: indicator(ix_f = i) times the trapezoid
    weights of all the other axes *)
Definition mweight (grids : list (list R)) (d f i : nat) (ix : list nat) : R :=
  nprod (map (fun a => if Nat.eqb a f then (if Nat.eqb (nth a ix 0%nat) i then 1 else 0)
                       else trap_w (nth a grids []) (nth a ix 0%nat)) (seq 0 d)).
Definition marginal_at (shape : list nat) (grids : list (list R)) (f i : nat) (phi : list R) : R :=
  rsum (prodn shape) (fun j => mweight grids (length shape) f i (unflat shape j) * nthF phi j).

(** a product over 0..d-1 with the k-th factor pulled out *)
Lemma nprod_pull (h : nat -> R) d k : (k < d)%nat ->
  nprod (map h (seq 0 d)) = h k * nprod (map (fun a => if Nat.eqb a k then 1 else h a) (seq 0 d)).
Proof.
  intros Hk. unfold nprod.
  assert (G : forall s n, (s <= k < s + n)%nat ->
     fold_right nmul n1 (map h (seq s n)) = h k * fold_right nmul n1 (map (fun a => if Nat.eqb a k then 1 else h a) (seq s n))).
  { intros s n. revert s. induction n as [|n IH]; intros s Hs; [lia|].
    cbn [seq map fold_right]. numR. destruct (Nat.eqb_spec s k) as [->|Hne].
    - assert (E : forall m t, (k < t)%nat -> fold_right nmul n1 (map (fun a => if Nat.eqb a k then 1 else h a) (seq t m)) = fold_right nmul n1 (map h (seq t m))).
      { induction m as [|m IHm]; intros t Ht; [reflexivity|]. cbn [seq map fold_right]. destruct (Nat.eqb_spec t k); [lia|]. rewrite IHm by lia. reflexivity. }
      rewrite E by lia. numR. ring.
    - rewrite (IH (S s)) by lia. numR. ring. }
  apply G. lia.
Qed.

Lemma nth_app_mid {A} (pre post : list A) (x d : A) a :
  nth a (pre ++ x :: post) d = if Nat.ltb a (length pre) then nth a pre d else if Nat.eqb a (length pre) then x else nth (a - length pre - 1) post d.
Proof.
  destruct (Nat.ltb_spec a (length pre)).
  - apply app_nth1. assumption.
  - rewrite app_nth2 by lia. destruct (Nat.eqb_spec a (length pre)) as [->|Hne].
    + rewrite Nat.sub_diag. reflexivity.
    + destruct (a - length pre)%nat as [|m] eqn:E; [lia|]. cbn [nth]. f_equal. lia.
Qed.

Lemma nth_skipn' {A} (d0 : A) : forall n (l : list A) a, nth a (skipn n l) d0 = nth (n + a) l d0.
Proof. induction n as [|n IH]; intros l a; [reflexivity|]. destruct l as [|x l]; [destruct a; reflexivity|]. cbn [skipn plus nth]. apply IH. Qed.

Section Frozen.
  Variable shape : list nat.
  Variable grids : list (list R).
  Variable pops : list (@pop R).
  Variable k f i : nat.
  Variable p : @pop R.
  Notation d := (length shape).
  Hypothesis Hk : (k < d)%nat.
  Hypothesis Hf : (f < d)%nat.
  Hypothesis Hfk : f <> k.
  Hypothesis Hp : nth_error pops k = Some p.
  Hypothesis Hgridk : length (nth k grids []) = ax_len shape k.
  Hypothesis HN : (2 <= ax_len shape k)%nat.
  Hypothesis Hdx : forall j, (j < length (nth k grids []) - 1)%nat -> 0 < dx (nth k grids []) j.
  Hypothesis Hglen : length grids = d.
  (** the frequency of population f at index i is strictly inside (0,1) *)
  Hypothesis Hint : nthF (nth f grids []) i <> 0 /\ nthF (nth f grids []) i <> 1.
  Variable dt : R.
  Hypothesis Hdt : dt <> 0.
  Variable dj : bool.
  Notation xs := (nth k grids []).
  Notation outer := (ax_outer shape k). Notation len := (ax_len shape k). Notation inner := (ax_inner shape k).
  Notation pre := (firstn k shape). Notation post := (skipn (S k) shape).

  (** multi-index of the point (o, ik, q) *)
  Definition mix (o ik q : nat) : list nat := unflat pre o ++ ik :: unflat post q.
  Lemma mix_length (o ik q : nat) : length (unflat pre o) = k.
  Proof. rewrite unflat_length, firstn_length. lia. Qed.

  (** the weight factorises along the swept axis *)
  Definition Omega (o q : nat) : R :=
    nprod (map (fun a => if Nat.eqb a k then 1 else
                           if Nat.eqb a f then (if Nat.eqb (nth a (mix o 0 q) 0%nat) i then 1 else 0)
                           else trap_w (nth a grids []) (nth a (mix o 0 q) 0%nat)) (seq 0 d)).
  Lemma mweight_factor o ik q : mweight grids d f i (mix o ik q) = trap_w xs ik * Omega o q.
  Proof.
    unfold mweight. rewrite (nprod_pull _ d k Hk). destruct (Nat.eqb_spec k f) as [E|_]; [congruence|].
    f_equal.
    - f_equal. unfold mix. rewrite nth_app_mid, (mix_length o ik q), Nat.ltb_irrefl, Nat.eqb_refl. reflexivity.
    - unfold Omega. f_equal. apply map_ext_in. intros a Ha.
      destruct (Nat.eqb_spec a k) as [->|Hak]; [reflexivity|].
      assert (En : nth a (mix o ik q) 0%nat = nth a (mix o 0 q) 0%nat).
      { unfold mix. rewrite !nth_app_mid, !(mix_length o ik q). destruct (Nat.ltb a k); [reflexivity|].
        destruct (Nat.eqb_spec a k); [congruence|reflexivity]. }
      rewrite En. reflexivity.
  Qed.

  (** on a line that carries weight, population f sits at index i: the line is not a corner line *)
  Lemma coords_nth : forall (gs : list (list R)) (ix : list nat) a, (a < length gs)%nat -> (a < length ix)%nat ->
    nth a (coords gs ix) 0 = nthF (nth a gs []) (nth a ix 0%nat).
  Proof.
    unfold coords. induction gs as [|g gs IH]; intros [|x ix] a Hg Hi; cbn [length] in *; try lia.
    destruct a as [|a]; cbn [combine map nth fst snd]; [reflexivity|]. apply IH; lia.
  Qed.
  Lemma all_eq_false_of_nth v (l : list R) a : (a < length l)%nat -> nth a l 0 <> v -> all_eq v l = false.
  Proof.
    revert a. induction l as [|y l IH]; intros a Ha Hne; [cbn in Ha; lia|].
    unfold all_eq. cbn [forallb]. destruct a as [|a]; cbn [nth] in Hne.
    - numR. rewrite (proj2 (Reqb_false y v) Hne). reflexivity.
    - fold (all_eq v l). rewrite (IH a); [apply andb_false_r | cbn in Ha; lia | exact Hne].
  Qed.

  Lemma Omega_zero_or_interior o q : (o < outer)%nat -> (q < inner)%nat ->
    Omega o q = 0 \/ (corner0 shape grids k o q = false /\ corner1 shape grids k o q = false).
  Proof.
    intros Ho Hq.
    destruct (Nat.eqb_spec (nth f (mix o 0 q) 0%nat) i) as [Ei|Ei].
    - right.
      (* the coordinate of population f on this line is grid_f[i] *)
      assert (Hcoord : exists a, (a < length (line_os shape grids k o q))%nat /\ nth a (line_os shape grids k o q) 0 = nthF (nth f grids []) i).
      { unfold line_os. unfold mix in Ei. rewrite nth_app_mid, (mix_length o 0%nat q) in Ei.
        assert (Lpre : length (coords (firstn k grids) (unflat pre o)) = k).
        { unfold coords. rewrite map_length, combine_length, firstn_length, unflat_length, firstn_length. lia. }
        destruct (Nat.ltb_spec f k) as [Hlt|Hge].
        - exists f. split; [rewrite app_length, Lpre; lia|].
          rewrite app_nth1 by (rewrite Lpre; exact Hlt).
          rewrite coords_nth by (rewrite ?(mix_length o 0%nat q), ?firstn_length; lia).
          rewrite Ei. f_equal. clear -Hlt. revert k Hlt. generalize grids. induction f as [|f' IHf]; intros gs [|k'] Hlt; try lia; destruct gs; try reflexivity.
          cbn [firstn nth]. apply IHf. lia.
        - destruct (Nat.eqb_spec f k); [congruence|].
          assert (Lpost : length (coords (skipn (S k) grids) (unflat post q)) = (d - S k)%nat).
          { unfold coords. rewrite map_length, combine_length, skipn_length, unflat_length, skipn_length. lia. }
          exists (k + (f - k - 1))%nat. split; [rewrite app_length, Lpre, Lpost; lia|].
          rewrite app_nth2 by (rewrite Lpre; lia). rewrite Lpre. replace (k + (f - k - 1) - k)%nat with (f - k - 1)%nat by lia.
          rewrite coords_nth by (rewrite ?unflat_length, ?skipn_length; lia).
          rewrite Ei. f_equal. rewrite nth_skipn'. f_equal. lia. }
      destruct Hcoord as (a & Ha & Hv). destruct Hint as [H0 H1].
      split; unfold corner0, corner1; apply (all_eq_false_of_nth _ _ a Ha); numR; rewrite Hv; assumption.
    - left. unfold Omega. rewrite (nprod_pull _ d f Hf).
      destruct (Nat.eqb_spec f k); [congruence|]. rewrite Nat.eqb_refl.
      destruct (Nat.eqb_spec (nth f (mix o 0 q) 0%nat) i); [congruence|]. ring.
  Qed.

  (** the marginal as a weighted sum of line integrals *)
  Lemma marginal_as_lines (phi : list R) :
    marginal_at shape grids f i phi =
    rsum outer (fun o => rsum inner (fun q => Omega o q * trapz xs (get_line shape k phi o q))).
  Proof.
    unfold marginal_at. rewrite (rsum_lines shape k Hk).
    apply rsum_ext. intros o Ho. apply rsum_ext. intros q Hq.
    rewrite (trapz_rsum xs). rewrite Hgridk, <- rsum_scal. apply rsum_ext. intros ik Hik.
    rewrite (unflat_line shape k Hk o ik q Ho Hik Hq). fold (mix o ik q). rewrite mweight_factor.
    unfold get_line, nthF. rewrite nth_map_seq0 by exact Hik. ring.
  Qed.

  Theorem sweep_preserves_marginal_of_other_population (phi : list R) :
    (forall o q, (o < outer)%nat -> (q < inner)%nat ->
       nonzero (all_pivots (line_rows xs (Vfunc_beta (p_nu p) (p_beta p)) (Mline shape grids k p o q) (p_nu p)
                                      (corner0 shape grids k o q) (corner1 shape grids k o q) dt dj (get_line shape k phi o q)))) ->
    marginal_at shape grids f i (sweep shape grids pops k dt dj phi) = marginal_at shape grids f i phi.
  Proof.
    intros Hpiv. rewrite !marginal_as_lines.
    apply rsum_ext. intros o Ho. apply rsum_ext. intros q Hq.
    destruct (Omega_zero_or_interior o q Ho Hq) as [-> | [H0 H1]]; [ring|].
    pose proof (Hpiv o q Ho Hq) as Hpq. rewrite H0, H1 in Hpq.
    rewrite (sweep_preserves_marginal_off_corners shape grids pops k p Hp Hgridk dt dj phi o q HN Hdx Hdt Ho Hq H0 H1 Hpq).
    reflexivity.
  Qed.
End Frozen.
