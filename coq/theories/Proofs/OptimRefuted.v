(** Concrete witnesses: clauses of C12 that the faithful model of the snapshot violates. *)
From Coq Require Import ZArith Reals List Bool Lra Lia.
From Dadi Require Import Base.Num Base.NumR Model.Optim Proofs.OptimProject Proofs.OptimProofs.
Import ListNotations.
Local Open Scope R_scope.

Lemma ln_le' x y : 0 < x -> x <= y -> ln x <= ln y.
Proof. intros Hx H; destruct H as [Hlt|Heq]; [left; apply ln_increasing; auto | right; subst; reflexivity]. Qed.
Lemma exp_le' x y : x <= y -> exp x <= exp y.
Proof. intros H; destruct H as [Hlt|Heq]; [left; apply exp_increasing; auto | right; subst; reflexivity]. Qed.

Definition ll_first (p : list R) : option R := Some (hd 0 p).
Definition O_two (y : list R) : optimiser R := fun _ _ x0 f => {| o_trace := [x0; y]; o_x := y; o_f := f y |}.


Lemma xlog_pos x : 0 < x -> xlog (XFin x) = XFin (ln x).
Proof. intros Hx. unfold xlog, nltb. numR. rewrite (proj2 (Rleb_false x 0) Hx). reflexivity. Qed.

Lemma obj_first x : fst (opt_objective ll_first ll_first false None true [x]) = exp x.
Proof. rewrite opt_objective_spec. reflexivity. Qed.

Lemma box1 l u x : l <= x -> x <= u -> box_ok [XFin l] [XFin u] [x] = true.
Proof. intros H1 H2. unfold box_ok. cbn. numR. rewrite (proj2 (Rleb_true l x) H1), (proj2 (Rleb_true x u) H2). reflexivity. Qed.

Theorem opt_log_reported_value_refuted :
  exists (ll : list R -> option R) (O : optimiser R) p0 lower upper w,
    opt_snapshot ll ll O p0 (Some lower) (Some upper) None false true = Some w /\
    contract true (w_lo w) (w_hi w) (w_start w) (fun x => fst (opt_objective ll ll false None true x)) (w_oracle w) /\
    ll_guard ll ll false (w_x w) <> w_f w.
Proof.
  exists ll_first, (O_two [ln 2]), [1], [Some (1/2)], [Some 4]. eexists. split; [reflexivity|].
  cbn [w_lo w_hi w_start w_oracle w_x w_f map to_lo to_hi].
  rewrite !xlog_pos by lra. numR. unfold O_two. cbn [o_trace o_x o_f].
  split.
  - unfold contract. cbn [o_trace o_x o_f hd_error]. rewrite !obj_first. repeat split.
    + constructor; [|constructor; [|constructor]]; (split; [apply box1; apply ln_le'; lra|reflexivity]).
    + right; left; reflexivity.
    + constructor; [|constructor; [|constructor]].
      * cbv beta. rewrite ?obj_first. apply exp_le', ln_le'; lra.
      * cbv beta. rewrite ?obj_first. right; reflexivity.
  - cbv beta. rewrite ?obj_first. unfold ll_guard, ll_first, project_up. cbn [map hd]. rewrite !exp_ln by lra. lra.
Qed.

(** optimize_lbfgsb as written in the snapshot hands numpy.log(p0) to an optimiser that works on the parameters themselves:
    the first model evaluation is not at the user's start *)
Definition O_start : optimiser R := fun _ _ x0 f => {| o_trace := [x0]; o_x := x0; o_f := f x0 |}.

Theorem optimize_lbfgsb_first_evaluation_refuted :
  exists (ll : list R -> option R) (O : optimiser R) p0 w,
    optimize_lbfgsb_snapshot ll ll O p0 None None None false 1 = Some w /\
    contract false (w_lo w) (w_hi w) (w_start w)
             (fun x => fst (scipy_objective ll ll cfg_optimize_lbfgsb_snapshot None None false None 1 x)) (w_oracle w) /\
    hd_error (w_evals w) <> Some p0.
Proof.
  exists ll_first, O_start, [1]. eexists. split; [reflexivity|].
  cbn [w_lo w_hi w_start w_oracle w_evals]. unfold O_start. cbn [o_trace o_x o_f]. split.
  - unfold contract. cbn [o_trace o_x o_f hd_error]. repeat split.
    + constructor; [|constructor]. split; reflexivity.
    + left; reflexivity.
    + constructor; [|constructor]. right; reflexivity.
  - cbn. numR. rewrite ln_1. intros H. injection H as H. lra.
Qed.

(** optimize_grid of the snapshot with full_output over a single free parameter raises (IndexError in the thetas loop) whatever the rest *)
Theorem optimize_grid_full_output_one_parameter_refuted :
  forall (ll : list R -> option R) (O : grid_optimiser R) (g : R) rest fixed multinom,
    optimize_grid_snapshot ll ll O ([g] :: rest) fixed multinom true = None.
Proof. reflexivity. Qed.
