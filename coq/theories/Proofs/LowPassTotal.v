(** C18: a corrected model never has more total sites than the uncorrected one (analytic, simulated and
    mixed regimes), for any number of populations. *)
From Coq Require Import ZArith QArith Qreduction List Bool Arith Lia Lqa Setoid Morphisms.
From Dadi Require Import Model.LowPass Proofs.LowPassPart Proofs.LowPassQ Proofs.LowPassProb Proofs.LowPassMat
  Proofs.LowPassCall Proofs.LowPassTens.
Import ListNotations.
Local Open Scope Q_scope.

(** admissible population: valid coverage statistics, even sizes, subsample <= sequenced, F = 0 or 0 < F < 1 *)
Definition pop_ok (p : pop) : Prop :=
  valid_stats (p_st p) /\ Nat.even (p_nseq p) = true /\ Nat.even (p_nsub p) = true /\
  (p_nsub p <= p_nseq p)%nat /\ F_ok (p_F p).

Lemma prod_at_unit : forall vs idx, (forall v, In v vs -> forall e, In e v -> 0 <= e <= 1) -> 0 <= prod_at vs idx <= 1.
Proof.
  induction vs as [|v vs IH]; intros idx H; [cbn; lra|].
  destruct idx as [|i idx]; cbn [prod_at]; [lra|].
  assert (0 <= nth i v 0 <= 1).
  { destruct (nth_in_or_default i v 0) as [Hin | Hd0]; [apply (H v (or_introl eq_refl)), Hin | rewrite Hd0; lra]. }
  specialize (IH idx ltac:(intros; eapply H; [right|]; eassumption)). nra.
Qed.

Lemma pnc_at_unit pops idx : Forall pop_ok pops -> 0 <= pnc_at pops idx <= 1.
Proof.
  intros H. unfold pnc_at, pnc_vecs. apply prod_at_unit. intros v Hv e He.
  apply in_map_iff in Hv. destruct Hv as (p & <- & Hp). rewrite Forall_forall in H.
  destruct (H p Hp) as (V & E1 & _ & _ & HF). exact (proj2 (nocall_1D_unit _ _ _ V E1 HF) e He).
Qed.

Lemma qprod_unit l : (forall e, In e l -> 0 <= e <= 1) -> 0 <= qprod l <= 1.
Proof.
  induction l as [|a l IH]; intros H; [cbn; lra|]. unfold qprod in *. cbn [fold_right].
  assert (0 <= a <= 1) by (apply H; now left). specialize (IH ltac:(intros; apply H; now right)). nra.
Qed.

Lemma pe_tot_unit pops : Forall pop_ok pops -> 0 <= pe_tot pops <= 1.
Proof.
  intros H. unfold pe_tot. rewrite Qred_correct. apply qprod_unit. intros e He.
  apply in_map_iff in He. destruct He as (p & <- & Hp). rewrite Forall_forall in H.
  destruct (H p Hp) as (V & _). apply enough_unit, V.
Qed.

Lemma proj_mat_scaled_rows pops p : pop_ok p ->
  length (proj_mat_scaled pops p) = (p_nseq p + 1)%nat /\ rows_sum (proj_mat_scaled pops p) (p_nsub p + 1) (pe_tot pops).
Proof.
  intros (V & E1 & E2 & Hs & HF). destruct (proj_matrix_rows _ _ _ Hs E1 HF) as [L R].
  unfold proj_mat_scaled, proj_mat_scaled_v. split; [now rewrite map_length|].
  intros row Hr. apply in_map_iff in Hr. destruct Hr as (r0 & <- & Hr0). destruct (R r0 Hr0) as (L0 & _ & S0).
  split; [now rewrite map_length|].
  rewrite <- (map_id r0) at 1. rewrite map_map.
  rewrite (qsum_map_ext _ (fun e => pe_tot pops * e)) by (intros; apply Qred_correct).
  rewrite qsum_map_scale, map_id, S0. ring.
Qed.

Lemma heterr_mat_rows p : pop_ok p ->
  length (heterr_mat p) = (p_nsub p + 1)%nat /\ rows_sum (heterr_mat p) (p_nsub p + 1) 1.
Proof.
  intros (V & E1 & E2 & Hs & HF). destruct (cem_rows (p_st p) (p_nsub p) (p_F p) (vs_h _ V) E2 HF) as [L R].
  split; [exact L|]. intros row Hr. destruct (R row Hr) as (L0 & _ & S0). split; assumption.
Qed.

Lemma apply_pop_total d pops ax p x : (ax < d)%nat -> pop_ok p -> axis_le d ax (p_nseq p + 1) x ->
  ttotal d (apply_pop d pops ax p x) == pe_tot pops * ttotal d x
  /\ axis_le d ax (p_nsub p + 1) (apply_pop d pops ax p x)
  /\ forall ax' n, ax' <> ax -> axis_le d ax' n x -> axis_le d ax' n (apply_pop d pops ax p x).
Proof.
  intros Hax Hp Hx. unfold apply_pop, apply_pop_v. change (proj_mat_scaled_v (pe_tot pops) p) with (proj_mat_scaled pops p).
  destruct (proj_mat_scaled_rows pops p Hp) as [LP RP]. destruct (heterr_mat_rows p Hp) as [LH RH].
  split; [|split].
  - rewrite (tapply_total d ax _ _ 1) by (auto; rewrite LH; apply axis_le_tapply_same, Hax).
    rewrite (tapply_total d ax _ _ (pe_tot pops)) by (auto; rewrite LP; exact Hx). ring.
  - apply axis_le_tapply_same, Hax.
  - intros ax' n Hne H. apply axis_le_tapply_other; [congruence|]. apply axis_le_tapply_other; [congruence|exact H].
Qed.

Lemma apply_all_total d pops : forall ps i x, (i + length ps = d)%nat -> Forall pop_ok ps ->
  (forall k p, nth_error ps k = Some p -> axis_le d (i + k) (p_nseq p + 1) x) ->
  ttotal d (foldi_from (apply_pop d pops) i ps x) == qpow (pe_tot pops) (length ps) * ttotal d x.
Proof.
  induction ps as [|p ps IH]; intros i x Hd Hok Hx; cbn [foldi_from length qpow]; [ring|].
  pose proof (Forall_inv Hok) as Hp. pose proof (Forall_inv_tail Hok) as Hps.
  destruct (apply_pop_total d pops i p x) as (T & _ & O).
  - cbn [length] in Hd. lia.
  - exact Hp.
  - specialize (Hx 0%nat p eq_refl). now rewrite Nat.add_0_r in Hx.
  - rewrite IH.
    + rewrite T. ring.
    + cbn [length] in Hd. lia.
    + exact Hps.
    + intros k q Hq. apply O; [lia|]. replace (S i + k)%nat with (i + S k)%nat by lia. apply Hx. exact Hq.
Qed.

(** the model array has at most nseq_i + 1 entries along axis i *)
Definition shape_le (d : nat) (pops : list pop) (x : tens d) : Prop :=
  forall k p, nth_error pops k = Some p -> axis_le d k (p_nseq p + 1) x.

Section Total.
  Variable d : nat.
  Variable pops : list pop.
  Variable thr : Q.
  Variable sim : list nat -> tens d.
  Hypothesis Hd : length pops = d.
  Hypothesis Hok : Forall pop_ok pops.
  (** the oracle: every simulated array has total one (non-negativity is not needed for the total) *)
  Hypothesis Hsim : forall idx, ttotal d (sim idx) == 1.

  Lemma lowpass_total model : shape_le d pops model ->
    ttotal d (lowpass d pops thr sim model)
    == qpow (pe_tot pops) d * ttotal d (analytic0 d pops thr model)
       + ttotal d (tmapi d (fun idx m => if use_sim pops thr idx then m else 0) [] model).
  Proof.
    intros Hsh.
    change (lowpass d pops thr sim model)
      with (tfoldi d (fun idx m acc => if use_sim pops thr idx then tadd d acc (tscale d m (sim idx)) else acc) [] model
                   (apply_all d pops (analytic0 d pops thr model))).
    rewrite (tfoldi_add_total d (use_sim pops thr) sim Hsim).
    unfold apply_all. rewrite apply_all_total; [rewrite Hd; reflexivity | lia | exact Hok |].
    intros k p Hk. cbn [Nat.add]. unfold analytic0, analytic0_v. apply axis_le_tmapi. apply Hsh, Hk.
  Qed.

  Theorem corrected_total_le model : shape_le d pops model -> tall d (fun m => 0 <= m) model ->
    ttotal d (lowpass d pops thr sim model) <= ttotal d model.
  Proof.
    intros Hsh Hnn. rewrite lowpass_total by exact Hsh. unfold analytic0, analytic0_v, use_sim.
    rewrite tmapi_total_lin. rewrite <- (tmapi_total_id d [] model).
    apply tmapi_total_le; [|exact Hnn]. intros idx m Hm.
    pose proof (pnc_at_unit pops idx Hok) as Hp. pose proof (pe_tot_unit pops Hok) as He.
    pose proof (qpow_nonneg (pe_tot pops) d (proj1 He)) as Q0. pose proof (qpow_le1 (pe_tot pops) d He) as Q1.
    unfold pnc_at in Hp. destruct (use_sim_v thr (pnc_vecs pops) idx).
    - lra.
    - set (c := qpow (pe_tot pops) d) in *. set (w := prod_at (pnc_vecs pops) idx) in *.
      assert (0 <= m * (1 - w)) by (apply Qmult_le_0_compat; lra).
      assert (m * (1 - w) <= m) by nra. nra.
  Qed.
End Total.
