(** * DemesUnits: slicing and ancient-sample augmentation commute with rescaling; time units; rescaling of the whole
    importer (with ancient samples); slicing preserves every deme's size function and every migration rate on [t, inf). *)
From Coq Require Import ZArith Reals List Bool Arith Lra Lia.
From Dadi Require Import Base.Num Base.NumR Model.DemesFront Proofs.DemesBase Proofs.DemesRescale.
Import ListNotations.
Local Open Scope R_scope.

Lemma Rleb_scale0 a x : 0 < a -> Rleb (a * x) 0 = Rleb x 0.
Proof. intros Ha. rewrite <- (Rmult_0_r a) at 1. apply Rleb_scale; auto. Qed.
Lemma Rleb_0scale a x : 0 < a -> Rleb 0 (a * x) = Rleb 0 x.
Proof. intros Ha. rewrite <- (Rmult_0_r a) at 1. apply Rleb_scale; auto. Qed.
Lemma Reqb_scale0 a x : a <> 0 -> Reqb (a * x) 0 = Reqb x 0.
Proof. intros Ha. rewrite <- (Rmult_0_r a) at 1. apply Reqb_scale; auto. Qed.

Lemma clip0_scale a x : 0 < a -> clip0 (a * x) = a * clip0 x.
Proof. intros Ha. unfold clip0. numR. rewrite Rleb_scale0 by auto. destruct (Rleb x 0); auto. ring. Qed.

Lemma tshift_tmap a t x : tshift (a * t) (tmap a x) = tmap a (tshift t x).
Proof. destruct x; cbn; auto. f_equal. ring. Qed.

Lemma size_at_scale a b t s0 s1 ts te fn : a <> 0 -> b <> 0 ->
  size_at (a * t) (b * s0) (b * s1) (tmap a ts) (a * te) fn = b * size_at t s0 s1 ts te fn.
Proof.
  intros Ha Hb. unfold size_at. rewrite !tval_tmap. numR. destruct fn.
  - reflexivity.
  - rewrite Rdiv_scale by auto.
    replace (ln (s1 / s0) * (a * tval ts - a * t)) with (a * (ln (s1 / s0) * (tval ts - t))) by ring.
    replace (a * tval ts - a * te) with (a * (tval ts - te)) by ring. rewrite Rdiv_scale by auto. ring.
  - replace (a * tval ts - a * t) with (a * (tval ts - t)) by ring.
    replace (a * tval ts - a * te) with (a * (tval ts - te)) by ring. rewrite Rdiv_scale by auto. ring.
Qed.

Lemma shift_epochs_map a b t es : 0 < a -> b <> 0 ->
  shift_epochs (a * t) (map (emapE a b) es) = map (emapE a b) (shift_epochs t es).
Proof.
  intros Ha Hb. assert (Ha' : a <> 0) by lra.
  induction es as [|e es IH]; cbn [map shift_epochs]; auto.
  cbn [e_start e_end e_s0 e_s1 e_fn emapE]. numR.
  replace (a * e_end e - a * t) with (a * (e_end e - t)) by ring. rewrite clip0_scale by auto.
  rewrite Reqb_scale0 by auto. destruct (Reqb (clip0 (e_end e - t)) 0).
  - cbn [map]. unfold emapE. cbn [e_start e_end e_s0 e_s1 e_fn]. rewrite tshift_tmap, size_at_scale by auto.
    numR. now rewrite Rmult_0_r.
  - cbn [map]. rewrite IH. unfold emapE at 2. cbn [e_start e_end e_s0 e_s1 e_fn]. now rewrite tshift_tmap.
Qed.

Lemma slice_gmap a b r g t : 0 < a -> b <> 0 -> slice (gmap a b r g) (a * t) = gmap a b r (slice g t).
Proof.
  intros Ha Hb. assert (Ha' : a <> 0) by lra. unfold slice. numR. rewrite Reqb_scale0 by auto.
  destruct (Reqb t 0); auto. unfold gmap at 4. cbn [g_demes g_migs g_pulses gmap]. f_equal.
  - rewrite flat_map_map, map_flat_map. apply flat_map_ext'. intros d. cbn [d_id d_start d_anc d_epochs dmap].
    change (Fin (a * t)) with (tmap a (Fin t)). rewrite tleb_tmap by auto. destruct (tleb (d_start d) (Fin t)); auto.
    cbn [map tmap]. unfold dmap. cbn [d_id d_start d_anc d_epochs]. now rewrite tshift_tmap, shift_epochs_map.
  - rewrite flat_map_map, map_flat_map. apply flat_map_ext'. intros m. cbn [m_src m_dst m_start m_end m_rate mmap].
    change (Fin (a * t)) with (tmap a (Fin t)). rewrite tleb_tmap by auto. destruct (tleb (m_start m) (Fin t)); auto.
    cbn [map tmap]. unfold mmap. cbn [m_src m_dst m_start m_end m_rate]. rewrite tshift_tmap. numR.
    replace (a * m_end m - a * t) with (a * (m_end m - t)) by ring. now rewrite clip0_scale.
  - rewrite flat_map_map, map_flat_map. apply flat_map_ext'. intros p. cbn [p_srcs p_dst p_time p_props pmap]. numR.
    rewrite Rleb_scale by auto. destruct (Rleb (p_time p) t); auto. cbn [map]. unfold pmap.
    cbn [p_srcs p_dst p_time p_props]. f_equal. f_equal. ring.
Qed.

Lemma rename_deme_gmap a b r x y g : rename_deme x y (gmap a b r g) = gmap a b r (rename_deme x y g).
Proof.
  unfold rename_deme, gmap. cbn [g_demes g_migs g_pulses]. rewrite !map_map. f_equal; apply map_ext; intros; reflexivity.
Qed.

Lemma add_frozen_gmap a b r sd new st_ sz g :
  add_frozen sd new (a * st_) (b * sz) (gmap a b r g) = gmap a b r (add_frozen sd new st_ sz g).
Proof.
  unfold add_frozen, gmap. cbn [g_demes g_migs g_pulses]. rewrite map_app. f_equal. f_equal. cbn [map].
  unfold dmap. cbn [d_id d_start d_anc d_epochs map tmap]. unfold emapE. cbn [e_start e_end e_s0 e_s1 e_fn tmap]. numR.
  now rewrite Rmult_0_r.
Qed.

Definition asmap (a b : R) (x : asample R) : asample R := mkAS (as_deme x) (a * as_time x) (as_new x) (b * as_size x).

Lemma augment_loop_gmap a b r t l : 0 < a -> forall g ren sampled frozen,
  augment_loop (a * t) (map (asmap a b) l) (gmap a b r g) ren sampled frozen
  = let '(g1, s1, f1) := augment_loop t l g ren sampled frozen in (gmap a b r g1, s1, f1).
Proof.
  intros Ha. induction l as [|x l IH]; intros g ren sampled frozen; cbn [map augment_loop]; auto.
  cbn [as_deme as_time as_new as_size asmap]. unfold nltb. numR. rewrite !Rleb_scale0 by auto.
  destruct (negb (Rleb (as_time x) 0)).
  - rewrite add_frozen_gmap. apply IH.
  - destruct (negb (Rleb t 0)).
    + rewrite rename_deme_gmap. apply IH.
    + apply IH.
Qed.

Lemma nmin_scale a x y : 0 < a -> nmin (a * x) (a * y) = a * nmin x y.
Proof. intros Ha. unfold nmin. numR. rewrite Rleb_scale by auto. destruct (Rleb x y); auto. Qed.

Lemma nmin_list_scale a l : 0 < a -> nmin_list (map (Rmult a) l) = a * nmin_list l.
Proof.
  intros Ha. destruct l as [|x l]; cbn [map nmin_list]. { numR. ring. }
  revert x. induction l as [|y l IH]; intros x; cbn [map fold_left]; auto.
  rewrite nmin_scale by auto. apply IH.
Qed.

Definition mk_asamples (t : R) (sampled : list nat) (times : list R) (new_ids : list nat) (sizes : list R) : list (asample R) :=
  map (fun x => mkAS (fst (fst (fst x))) (snd (fst (fst x)) - t) (snd (fst x)) (snd x))
      (combine (combine (combine sampled times) new_ids) sizes).

Lemma mk_asamples_scale a b t sampled : forall times new_ids sizes,
  mk_asamples (a * t) sampled (map (Rmult a) times) new_ids (map (Rmult b) sizes)
  = map (asmap a b) (mk_asamples t sampled times new_ids sizes).
Proof.
  unfold mk_asamples. induction sampled as [|s sampled IH]; intros [|tm times] [|n new_ids] [|z sizes]; cbn [map combine]; auto.
  rewrite IH. f_equal. unfold asmap. cbn [fst snd as_deme as_time as_new as_size]. f_equal. numR. ring.
Qed.

Lemma augment_unfold g sampled times new_ids sizes :
  augment g sampled times new_ids sizes
  = augment_loop (nmin_list times) (mk_asamples (nmin_list times) sampled times new_ids sizes) (slice g (nmin_list times)) [] [] [].
Proof. reflexivity. Qed.

Lemma augment_gmap a b r g sampled times new_ids sizes : 0 < a -> b <> 0 ->
  augment (gmap a b r g) sampled (map (Rmult a) times) new_ids (map (Rmult b) sizes)
  = let '(g1, s1, f1) := augment g sampled times new_ids sizes in (gmap a b r g1, s1, f1).
Proof.
  intros Ha Hb. rewrite !augment_unfold. rewrite nmin_list_scale by auto. rewrite slice_gmap by auto.
  rewrite mk_asamples_scale. apply augment_loop_gmap; auto.
Qed.

(** Graph.in_generations is the rescaling of the times by 1 / generation_time *)
Lemma in_generations_gmap k g : in_generations k g = gmap (/ k) 1 1 g.
Proof.
  assert (T : forall x, tdiv k x = tmap (/ k) x). { intros [x|]; cbn; auto. f_equal. unfold Rdiv. ring. }
  unfold in_generations, gmap. f_equal; apply map_ext.
  - intros d. unfold dmap. f_equal; auto. apply map_ext. intros e. unfold emapE. rewrite T, !Rmult_1_l. f_equal.
    numR. unfold Rdiv. ring.
  - intros m. unfold mmap. rewrite T, Rmult_1_l. f_equal. numR. unfold Rdiv. ring.
  - intros p. unfold pmap. f_equal. numR. unfold Rdiv. ring.
Qed.

Lemma map_Rmult_1 l : map (Rmult 1) l = l.
Proof. induction l; cbn; auto. now rewrite Rmult_1_l, IHl. Qed.

Definition default_times (g : graph R) (sampled : list nat) : list R :=
  map (fun id => match find_deme g id with Some d => d_end d | None => 0 end) sampled.

Lemma default_times_gmap a b r g sampled : default_times (gmap a b r g) sampled = map (Rmult a) (default_times g sampled).
Proof.
  unfold default_times. rewrite map_map. apply map_ext. intros id. rewrite find_deme_gmap.
  destruct (find_deme g id); cbn [option_map]. - apply d_end_dmap. - ring.
Qed.

Lemma any_nonzero_scale a l : a <> 0 ->
  existsb (fun t => negb (Reqb t 0)) (map (Rmult a) l) = existsb (fun t => negb (Reqb t 0)) l.
Proof. intros Ha. rewrite existsb_map. apply existsb_ext'. intros t. now rewrite Reqb_scale0. Qed.

(** the sampling times of a run: given, or the end of each sampled deme *)
Definition times_of (g : graph R) (sampled : list nat) (times : option (list R)) : list R :=
  match times with Some l => l | None => default_times g sampled end.

Lemma front_unfold ws pnu gt g sampled times new_ids sizes evs Ne ns :
  front ws pnu gt g sampled times new_ids sizes evs Ne ns
  = let tms := times_of g sampled times in
    let '(g1, sampled1, frozen) :=
        if existsb (fun t => negb (Reqb t 0)) tms then augment g sampled tms new_ids sizes else (g, sampled, []) in
    core ws pnu (match gt with Some k => in_generations k g1 | None => g1 end) evs sampled1 frozen Ne ns.
Proof. reflexivity. Qed.

(** time_units_same_program: the graph in other time units (times in units of generation_time generations) gives the
    program of the graph in generations.  Oracle hypothesis: [in_generations] divides every time by generation_time. *)
Theorem front_time_units : forall ws pnu k g sampled times new_ids sizes evs Ne ns, 0 < k ->
  front ws pnu (Some k) g sampled times new_ids sizes evs Ne ns
  = front ws pnu None (gmap (/ k) 1 1 g) sampled (option_map (map (Rmult (/ k))) times) new_ids sizes evs Ne ns.
Proof.
  intros ws pnu k g sampled times new_ids sizes evs Ne ns Hk.
  assert (Ha : 0 < / k) by (apply Rinv_0_lt_compat; auto).
  rewrite !front_unfold. cbv zeta.
  assert (E : times_of (gmap (/ k) 1 1 g) sampled (option_map (map (Rmult (/ k))) times) = map (Rmult (/ k)) (times_of g sampled times)).
  { destruct times; cbn [times_of option_map]; auto. apply default_times_gmap. }
  rewrite E, any_nonzero_scale by lra.
  destruct (existsb _ (times_of g sampled times)).
  - rewrite <- (map_Rmult_1 sizes) at 2. rewrite augment_gmap by (auto; lra).
    destruct (augment g sampled (times_of g sampled times) new_ids sizes) as [[g1 s1] f1].
    now rewrite in_generations_gmap.
  - now rewrite in_generations_gmap.
Qed.

(** ** well-formedness is kept by the augmentation and by rescaling *)
Definition has_root_inf (g : graph R) : Prop := exists d, In d (g_demes g) /\ d_anc d = [] /\ d_start d = Inf.
Lemma has_root_inf_root g : has_root_inf g -> has_root g.
Proof. intros (d & ? & ? & ?). exists d; auto. Qed.

Lemma wf_gmap a b r g : wf_graph g -> wf_graph (gmap a b r g).
Proof.
  intros H d Hd. cbn [g_demes gmap] in Hd. apply in_map_iff in Hd as (d0 & <- & Hd0). cbn [d_epochs dmap].
  specialize (H d0 Hd0). destruct (d_epochs d0); [congruence|discriminate].
Qed.
Lemma root_gmap a b r g : has_root_inf g -> has_root_inf (gmap a b r g).
Proof.
  intros (d & Hd & Ha & Hs). exists (dmap a b d). split; [|split].
  - cbn [g_demes gmap]. now apply in_map.
  - exact Ha.
  - cbn [d_start dmap]. now rewrite Hs.
Qed.

Lemma shift_epochs_ne t es : es <> [] -> shift_epochs t es <> [].
Proof. destruct es; [congruence|]. intros _. cbn [shift_epochs]. destruct (_ =? _)%num; discriminate. Qed.

Lemma wf_slice g t : wf_graph g -> wf_graph (slice g t).
Proof.
  intros H. unfold slice. destruct (t =? n0)%num; auto. intros d Hd. cbn [g_demes] in Hd.
  apply in_flat_map in Hd as (d0 & Hd0 & Hd). destruct (tleb (d_start d0) (Fin t)); [contradiction|].
  destruct Hd as [<-|[]]. cbn [d_epochs]. apply shift_epochs_ne. auto.
Qed.
Lemma root_slice g t : has_root_inf g -> has_root_inf (slice g t).
Proof.
  intros (d & Hd & Ha & Hs). unfold slice. destruct (t =? n0)%num; [exists d; auto|].
  exists (mkDeme (d_id d) (tshift t (d_start d)) (d_anc d) (shift_epochs t (d_epochs d))). split; [|split].
  - cbn [g_demes]. apply in_flat_map. exists d. split; auto. rewrite Hs. cbn. now left.
  - exact Ha.
  - cbn [d_start]. now rewrite Hs.
Qed.

Lemma wf_rename x y g : wf_graph g -> wf_graph (rename_deme x y g).
Proof. intros H d Hd. cbn [g_demes rename_deme] in Hd. apply in_map_iff in Hd as (d0 & <- & Hd0). cbn [d_epochs]. auto. Qed.
Lemma root_rename x y g : has_root_inf g -> has_root_inf (rename_deme x y g).
Proof.
  intros (d & Hd & Ha & Hs). eexists. split; [cbn [g_demes rename_deme]; apply in_map; exact Hd|].
  cbn [d_anc d_start]. rewrite Ha. auto.
Qed.
Lemma wf_add sd new st_ sz g : wf_graph g -> wf_graph (add_frozen sd new st_ sz g).
Proof. intros H d Hd. cbn [g_demes add_frozen] in Hd. apply in_app_iff in Hd as [Hd|[<-|[]]]; auto. discriminate. Qed.
Lemma root_add sd new st_ sz g : has_root_inf g -> has_root_inf (add_frozen sd new st_ sz g).
Proof. intros (d & Hd & Ha & Hs). exists d. split; auto. cbn [g_demes add_frozen]. apply in_app_iff. now left. Qed.

Lemma augment_loop_wf t l : forall g ren sampled frozen, wf_graph g -> has_root_inf g ->
  let g1 := fst (fst (augment_loop t l g ren sampled frozen)) in wf_graph g1 /\ has_root_inf g1.
Proof.
  induction l as [|x l IH]; intros g ren sampled frozen Hw Hr; cbn [augment_loop]; auto.
  destruct (n0 <? as_time x)%num; [|destruct (n0 <? t)%num].
  - apply IH; auto using wf_add, root_add.
  - apply IH; auto using wf_rename, root_rename.
  - apply IH; auto.
Qed.

Lemma augment_wf g sampled times new_ids sizes : wf_graph g -> has_root_inf g ->
  let g1 := fst (fst (augment g sampled times new_ids sizes)) in wf_graph g1 /\ has_root_inf g1.
Proof. intros Hw Hr. unfold augment. apply augment_loop_wf; auto using wf_slice, root_slice. Qed.

Lemma gmap_comm a b r a' b' r' g : gmap a b r (gmap a' b' r' g) = gmap a' b' r' (gmap a b r g).
Proof.
  assert (T : forall x, tmap a (tmap a' x) = tmap a' (tmap a x)). { intros [x|]; cbn; auto. f_equal. ring. }
  unfold gmap. cbn [g_demes g_migs g_pulses]. rewrite !map_map. f_equal; apply map_ext.
  - intros d. unfold dmap. cbn [d_id d_start d_anc d_epochs]. rewrite T, !map_map. f_equal. apply map_ext. intros e.
    unfold emapE. cbn [e_start e_end e_s0 e_s1 e_fn]. rewrite T. f_equal; ring.
  - intros m. unfold mmap. cbn [m_src m_dst m_start m_end m_rate]. rewrite T. f_equal; ring.
  - intros p. unfold pmap. cbn [p_srcs p_dst p_time p_props]. f_equal; ring.
Qed.

(** rescale_graph_same_program for the whole importer, ancient samples included.  The sizes of the frozen branches
    have to scale with the graph (hypothesis spelled out: they are inputs of the model, read from what `demes` resolved);
    a literal size breaks this, see [front_rescale_literal_size_refuted] in DemesOrder. *)
Theorem front_rescale : forall ws pnu gt c g sampled times new_ids sizes evs Ne ns,
  0 < c -> (forall k, gt = Some k -> 0 < k) -> wf_graph g -> has_root_inf g ->
  front ws pnu gt (gmap c c (/ c) g) sampled (option_map (map (Rmult c)) times) new_ids (map (Rmult c) sizes)
        (evmap c evs) (scale_Ne c Ne) ns
  = front ws pnu gt g sampled times new_ids sizes evs Ne ns.
Proof.
  intros ws pnu gt c g sampled times new_ids sizes evs Ne ns Hc Hgt Hw Hr.
  rewrite !front_unfold. cbv zeta.
  assert (E : times_of (gmap c c (/ c) g) sampled (option_map (map (Rmult c)) times) = map (Rmult c) (times_of g sampled times)).
  { destruct times; cbn [times_of option_map]; auto. apply default_times_gmap. }
  rewrite E, any_nonzero_scale by lra.
  assert (K : forall g1 s1 f1, wf_graph g1 -> has_root_inf g1 ->
    core ws pnu match gt with Some k => in_generations k (gmap c c (/ c) g1) | None => gmap c c (/ c) g1 end
         (evmap c evs) s1 f1 (scale_Ne c Ne) ns
    = core ws pnu match gt with Some k => in_generations k g1 | None => g1 end evs s1 f1 Ne ns).
  { intros g1 s1 f1 Hw1 Hr1. destruct gt as [k|].
    - rewrite !in_generations_gmap, gmap_comm. apply core_rescale; auto using wf_gmap.
      apply has_root_inf_root, root_gmap; auto.
    - apply core_rescale; auto using has_root_inf_root. }
  destruct (existsb _ (times_of g sampled times)).
  - rewrite augment_gmap by (auto; lra).
    pose proof (augment_wf g sampled (times_of g sampled times) new_ids sizes Hw Hr) as W.
    destruct (augment g sampled (times_of g sampled times) new_ids sizes) as [[g1 s1] f1]. cbn [fst] in W.
    apply K; tauto.
  - apply K; auto.
Qed.
(** ** slicing preserves every deme's size function on [t, inf), shifted by t *)

(** a deme's epochs as `demes` resolves them: contiguous from the deme's start time, each of positive duration, an epoch
    reaching infinitely far back is constant, start sizes are not zero *)
Definition tlt (a b : timeR) : Prop := tleb b a = false.
Fixpoint epochs_chain (ts : timeR) (es : list (epoch R)) : Prop :=
  match es with
  | [] => True
  | e :: es' => e_start e = ts /\ tlt (Fin (e_end e)) ts /\ (ts = Inf -> e_fn e = SConstant) /\ e_s0 e <> 0
                /\ epochs_chain (Fin (e_end e)) es'
  end.
Definition deme_wf (d : deme R) : Prop := epochs_chain (d_start d) (d_epochs d).

Lemma size_at_shift t u s0 s1 ts te fn : (ts = Inf -> fn = SConstant) ->
  size_at u s0 s1 (tshift t ts) (te - t) fn = size_at (u + t) s0 s1 ts te fn.
Proof.
  intros Hinf. unfold size_at. destruct ts as [x|].
  - cbn [tshift tval]. numR. destruct fn; auto.
    + replace (x - t - u) with (x - (u + t)) by ring. replace (x - t - (te - t)) with (x - te) by ring. reflexivity.
    + replace (x - t - u) with (x - (u + t)) by ring. replace (x - t - (te - t)) with (x - te) by ring. reflexivity.
  - rewrite Hinf by auto. reflexivity.
Qed.

(** the epoch cut by the slice: it ends at 0 with the size the deme had at the slice time *)
Lemma size_at_cut t u s0 s1 x te fn : s0 <> 0 -> te < x -> t < x ->
  size_at u s0 (size_at t s0 s1 (Fin x) te fn) (Fin (x - t)) 0 fn = size_at (u + t) s0 s1 (Fin x) te fn.
Proof.
  intros Hs Hte Ht. unfold size_at. cbn [tval]. numR. destruct fn; auto.
  - replace (s0 * exp (ln (s1 / s0) * (x - t) / (x - te)) / s0) with (exp (ln (s1 / s0) * (x - t) / (x - te)))
      by (field; auto).
    rewrite ln_exp. f_equal. f_equal. field. split; lra.
  - field. split; lra.
Qed.

Lemma epochs_after_none es : forall ts u, epochs_chain ts es -> tleb ts (Fin u) = true -> epochs_size_at es u = None.
Proof.
  induction es as [|e es IH]; intros ts u Hc Hle; cbn [epochs_size_at]; auto.
  destruct Hc as (Hs & Hlt & _ & _ & Hc). unfold epoch_has. rewrite Hs, Hle. cbn [negb]. rewrite andb_false_r.
  apply (IH (Fin (e_end e))); auto. unfold tlt in Hlt. destruct ts as [x|]; cbn in *; numR.
  - apply Rleb_true. apply Rleb_false in Hlt. apply Rleb_true in Hle. lra.
  - discriminate.
Qed.

Lemma shift_epochs_size_at t : 0 < t -> forall es ts u, epochs_chain ts es -> tlt (Fin t) ts -> 0 <= u ->
  epochs_size_at (shift_epochs t es) u = epochs_size_at es (u + t).
Proof.
  intros Ht. induction es as [|e es IH]; intros ts u Hc Hts Hu; auto.
  destruct Hc as (Hs & Hlt & Hinf & Hs0 & Hc). cbn [shift_epochs epochs_size_at].
  unfold clip0. numR.
  destruct (Rleb (e_end e - t) 0) eqn:Ecut.
  - (* the epoch that reaches the slice time *)
    replace (Reqb 0 0) with true by (symmetry; now apply Reqb_true).
    apply Rleb_true in Ecut. cbn [epochs_size_at]. unfold epoch_has. cbn [e_start e_end]. numR.
    replace (Rleb 0 u) with true by (symmetry; now apply Rleb_true).
    replace (Rleb (e_end e) (u + t)) with true by (symmetry; apply Rleb_true; lra).
    cbn [andb]. rewrite Hs in *. destruct ts as [x|].
    + cbn [tshift tleb]. numR.
      replace (Rleb (x - t) u) with (Rleb x (u + t)).
      2:{ destruct (Rleb x (u + t)) eqn:E; symmetry.
          - apply Rleb_true in E. apply Rleb_true. lra.
          - apply Rleb_false in E. apply Rleb_false. lra. }
      destruct (Rleb x (u + t)) eqn:E; cbn [negb].
      * symmetry. apply (epochs_after_none es (Fin (e_end e))); auto. cbn. numR. apply Rleb_true.
        apply Rleb_true in E. unfold tlt in Hlt. cbn in Hlt. numR. apply Rleb_false in Hlt. lra.
      * f_equal. unfold epoch_size_at. cbn [e_start e_end e_s0 e_s1 e_fn]. rewrite Hs.
        unfold tlt in Hlt, Hts. cbn in Hlt, Hts. numR. apply Rleb_false in Hlt, Hts.
        apply size_at_cut; auto.
    + cbn [tshift tleb negb]. f_equal. unfold epoch_size_at. cbn [e_start e_end e_s0 e_s1 e_fn]. rewrite Hs.
      rewrite Hinf by auto. reflexivity.
  - apply Rleb_false in Ecut.
    replace (Reqb (e_end e - t) 0) with false by (symmetry; apply Reqb_false; lra).
    cbn [epochs_size_at]. unfold epoch_has. cbn [e_start e_end]. numR.
    replace (Rleb (e_end e - t) u) with (Rleb (e_end e) (u + t)).
    2:{ destruct (Rleb (e_end e) (u + t)) eqn:E; symmetry.
        - apply Rleb_true in E. apply Rleb_true. lra.
        - apply Rleb_false in E. apply Rleb_false. lra. }
    replace (tleb (tshift t (e_start e)) (Fin u)) with (tleb (e_start e) (Fin (u + t))).
    2:{ destruct (e_start e) as [x|]; cbn [tshift tleb]; auto. numR.
        destruct (Rleb x (u + t)) eqn:E; symmetry.
        - apply Rleb_true in E. apply Rleb_true. lra.
        - apply Rleb_false in E. apply Rleb_false. lra. }
    destruct (Rleb (e_end e) (u + t) && negb (tleb (e_start e) (Fin (u + t)))).
    + f_equal. unfold epoch_size_at. cbn [e_start e_end e_s0 e_s1 e_fn]. apply size_at_shift.
      intros K. apply Hinf. now rewrite <- Hs.
    + apply (IH (Fin (e_end e))); auto. unfold tlt. cbn. numR. apply Rleb_false. lra.
Qed.

(** the deme [d] after slicing at [t] *)
Definition slice_deme (t : R) (d : deme R) : deme R :=
  mkDeme (d_id d) (tshift t (d_start d)) (d_anc d) (shift_epochs t (d_epochs d)).

Theorem slice_preserves_size_functions : forall (g : graph R) t d, 0 < t ->
  In d (g_demes g) -> deme_wf d -> tlt (Fin t) (d_start d) ->
  In (slice_deme t d) (g_demes (slice g t))
  /\ forall u, 0 <= u -> deme_size_at (slice_deme t d) u = deme_size_at d (u + t).
Proof.
  intros g t d Ht Hd Hw Hs. split.
  - unfold slice. numR. replace (Reqb t 0) with false by (symmetry; apply Reqb_false; lra).
    cbn [g_demes]. apply in_flat_map. exists d. split; auto. unfold tlt in Hs. rewrite Hs. now left.
  - intros u Hu. unfold deme_size_at, slice_deme. cbn [d_epochs]. eapply shift_epochs_size_at; eauto.
Qed.

(** only those demes survive *)
Theorem slice_demes_are_shifted : forall (g : graph R) t d', 0 < t -> In d' (g_demes (slice g t)) ->
  exists d, In d (g_demes g) /\ tlt (Fin t) (d_start d) /\ d' = slice_deme t d.
Proof.
  intros g t d' Ht H. unfold slice in H. numR. replace (Reqb t 0) with false in H by (symmetry; apply Reqb_false; lra).
  cbn [g_demes] in H. apply in_flat_map in H as (d & Hd & H). destruct (tleb (d_start d) (Fin t)) eqn:E; [contradiction|].
  destruct H as [<-|[]]. exists d. auto.
Qed.

(** the source variant that interpolates with the already shifted and clamped end time (0 instead of the epoch's own
    end) does not: a linear epoch from size 1 at time 4 to size 3 at time 2, sliced at 3, has size 2 there, not 3/2 *)
Lemma size_at_clamped_end_refuted : exists t s0 s1 x te, 0 < te <= t /\ t < x /\
  size_at t s0 s1 (Fin x) 0 SLinear <> size_at t s0 s1 (Fin x) te SLinear.
Proof.
  exists 3, 1, 3, 4, 2. split; [lra|]. split; [lra|]. unfold size_at. cbn [tval]. numR. lra.
Qed.

(** ... and the migration rate in force between any two demes at any time *)
Lemma fold_left_flat_map {A B C} (f : A -> B -> A) (h : C -> list B) l : forall a,
  fold_left f (flat_map h l) a = fold_left (fun a x => fold_left f (h x) a) l a.
Proof. induction l as [|x l IH]; intros a; cbn [flat_map fold_left]; auto. now rewrite fold_left_app, IH. Qed.
Lemma fold_left_ext' {A B} (f g : A -> B -> A) l : (forall a x, f a x = g a x) -> forall a, fold_left f l a = fold_left g l a.
Proof. intros E. induction l as [|x l IH]; intros a; cbn [fold_left]; auto. now rewrite E, IH. Qed.

Theorem slice_preserves_migration_rates : forall (g : graph R) t src dst u, 0 < t -> 0 <= u ->
  mig_rate_at (slice g t) src dst u = mig_rate_at g src dst (u + t).
Proof.
  intros g t src dst u Ht Hu. unfold mig_rate_at, slice. numR.
  replace (Reqb t 0) with false by (symmetry; apply Reqb_false; lra). cbn [g_migs].
  rewrite fold_left_flat_map. apply fold_left_ext'. intros r m.
  destruct (tleb (m_start m) (Fin t)) eqn:Es.
  - cbn [fold_left].
    replace (tleb (m_start m) (Fin (u + t))) with true; [now rewrite andb_false_r|].
    symmetry. destruct (m_start m) as [x|]; cbn [tleb] in *; [|discriminate]. numR.
    apply Rleb_true in Es. apply Rleb_true. lra.
  - cbn [fold_left m_src m_dst m_start m_end m_rate].
    replace (Rleb (clip0 (m_end m - t)) u) with (Rleb (m_end m) (u + t)).
    2:{ unfold clip0. numR. destruct (Rleb (m_end m - t) 0) eqn:E1.
        - apply Rleb_true in E1. replace (Rleb 0 u) with true by (symmetry; now apply Rleb_true).
          apply Rleb_true. lra.
        - apply Rleb_false in E1. destruct (Rleb (m_end m) (u + t)) eqn:E; symmetry.
          + apply Rleb_true in E. apply Rleb_true. lra.
          + apply Rleb_false in E. apply Rleb_false. lra. }
    replace (tleb (tshift t (m_start m)) (Fin u)) with (tleb (m_start m) (Fin (u + t))); auto.
    destruct (m_start m) as [x|]; cbn [tshift tleb]; auto. numR.
    destruct (Rleb x (u + t)) eqn:E; symmetry.
    + apply Rleb_true in E. apply Rleb_true. lra.
    + apply Rleb_false in E. apply Rleb_false. lra.
Qed.
