(** C05: Numerics.BetaBinomConvolution as written (a sum over the integer partitions of i into n parts of
    multinomial(counts) * prod_v BB(v)^counts[v], model [bbconv]) equals coefficient i of the n-th power of the generating
    polynomial sum_v BB(v) X^v (model [bbconv_pow], the form used by [inb_fac] and by the sum-to-one theorem): the
    multinomial theorem, proved along the recursion of the partition generator Numerics.part.  All n, ploidy, alpha, beta. *)
From Coq Require Import ZArith NArith Reals List Lra Lia Arith Bool Factorial.
From Dadi Require Import Base.Num Base.NumR Model.FromPhi Proofs.FromPhiBinom Proofs.FromPhiBase Proofs.FromPhiMass1D
  Proofs.FromPhiLin Proofs.FromPhiND Proofs.FromPhiPaths Proofs.FromPhiSums.
Import ListNotations.
Local Open Scope R_scope.

Notation rprod := (@nprod R NumR).

(** ** formal power series (coefficient functions), convolution, powers *)
Definition conv (f g : nat -> R) (i : nat) : R := rsum (map (fun j => f j * g (i - j)%nat) (seq 0 (S i))).
Definition delta (i : nat) : R := if Nat.eqb i 0 then 1 else 0.
Fixpoint cpow (f : nat -> R) (n : nat) : nat -> R := match n with O => delta | S k => conv f (cpow f k) end.
Definition coef (l : list R) (i : nat) : R := nth i l 0.

Lemma conv_ext f f' g g' i : (forall j, f j = f' j) -> (forall j, g j = g' j) -> conv f g i = conv f' g' i.
Proof. intros Ef Eg. unfold conv. apply rsum_map_ext. intros j _. rewrite Ef, Eg. reflexivity. Qed.
Lemma cpow_ext f f' n : (forall j, f j = f' j) -> forall i, cpow f n i = cpow f' n i.
Proof. intros E. induction n; intros i; [reflexivity|]. cbn [cpow]. apply conv_ext; assumption. Qed.

Lemma coef_padd (a b : list R) i : coef (padd a b) i = coef a i + coef b i.
Proof. unfold coef. revert b i. induction a as [|x a IH]; intros b i; [cbn [padd]; destruct i; cbn [nth]; lra|].
  destruct b as [|y b]; [cbn [padd]; destruct i; cbn [nth]; lra|]. cbn [padd]. destruct i; cbn [nth]; [numR; reflexivity | apply IH]. Qed.
Lemma coef_pmul (a b : list R) : forall i, coef (pmul a b) i = conv (coef a) (coef b) i.
Proof. induction a as [|x a IH]; intros i.
  - cbn [pmul]. unfold conv. rewrite rsum_map_0; [unfold coef; destruct i; reflexivity|]. intros j _. unfold coef. destruct j; cbn [nth]; ring.
  - cbn [pmul]. rewrite coef_padd. change (map (nmul x) b) with (vscal x b). unfold coef at 1. rewrite vscal_nth.
    unfold conv. rewrite rsum_seq_head. unfold coef at 3. cbn [nth]. rewrite Nat.sub_0_r. fold (coef b i). f_equal.
    destruct i as [|i]; [reflexivity|]. unfold coef at 1. cbn [nth]. fold (coef (pmul a b) i). rewrite IH. unfold conv.
    apply rsum_map_ext. intros j _. reflexivity. Qed.
Lemma coef_ppow (a : list R) n : forall i, coef (ppow a n) i = cpow (coef a) n i.
Proof. induction n; intros i.
  - cbn [ppow cpow]. unfold coef, delta. destruct i as [|[|i]]; reflexivity.
  - cbn [ppow cpow]. rewrite coef_pmul. apply conv_ext; [reflexivity | assumption]. Qed.

(** multiplication by a monomial c X^a *)
Definition mono (c : R) (a : nat) (i : nat) : R := if Nat.eqb i a then c else 0.
Definition mshift (c : R) (a : nat) (F : nat -> R) (x : nat) : R := if (a <=? x)%nat then c * F (x - a)%nat else 0.

Lemma rsum_single (a N : nat) (g h : nat -> R) :
  rsum (map (fun j => (if Nat.eqb j a then g j else 0) * h j) (seq 0 N)) = if (a <? N)%nat then g a * h a else 0.
Proof. induction N; [reflexivity|]. rewrite rsum_seq_S, IHN. cbn [Nat.add].
  destruct (Nat.eqb_spec N a) as [->|Hn].
  - rewrite Nat.ltb_irrefl. replace (a <? S a)%nat with true by (symmetry; apply Nat.ltb_lt; lia). ring.
  - destruct (Nat.ltb_spec a N); destruct (Nat.ltb_spec a (S N)); try lia; ring. Qed.
Lemma conv_mono c a G x : conv (mono c a) G x = mshift c a G x.
Proof. unfold conv, mono, mshift. rewrite (rsum_single a (S x) (fun _ => c) (fun j => G (x - j)%nat)).
  destruct (Nat.leb_spec a x); destruct (Nat.ltb_spec a (S x)); try lia; reflexivity. Qed.
Lemma conv_add_l f g h x : conv (fun i => f i + g i) h x = conv f h x + conv g h x.
Proof. unfold conv. rewrite <- rsum_map_add. apply rsum_map_ext. intros; ring. Qed.
Lemma conv_scal_r f c g x : conv f (fun y => c * g y) x = c * conv f g x.
Proof. unfold conv. rewrite <- rsum_map_scal. apply rsum_map_ext. intros; ring. Qed.
Lemma conv_sum_r {A} f (w : A -> R) (G : A -> nat -> R) l x :
  conv f (fun y => rsum (map (fun k => w k * G k y) l)) x = rsum (map (fun k => w k * conv f (G k) x) l).
Proof. unfold conv.
  rewrite (rsum_map_ext _ (fun j => rsum (map (fun k => f j * (w k * G k (x - j)%nat)) l))) by (intros; rewrite rsum_map_scal; reflexivity).
  rewrite rsum_swap. apply rsum_map_ext. intros k _. rewrite <- rsum_map_scal. apply rsum_map_ext. intros; ring. Qed.
Lemma mshift_ext c a F F' x : (forall y, F y = F' y) -> mshift c a F x = mshift c a F' x.
Proof. intros E. unfold mshift. rewrite E. reflexivity. Qed.
Lemma mshift_scal c a k F x : mshift c a (fun y => k * F y) x = k * mshift c a F x.
Proof. unfold mshift. destruct (a <=? x)%nat; ring. Qed.
Lemma mshift_sum {A} c a (w : A -> R) (G : A -> nat -> R) l x :
  mshift c a (fun y => rsum (map (fun k => w k * G k y) l)) x = rsum (map (fun k => w k * mshift c a (G k) x) l).
Proof. unfold mshift. destruct (a <=? x)%nat.
  - rewrite <- rsum_map_scal. apply rsum_map_ext. intros; ring.
  - symmetry. apply rsum_map_0. intros; ring. Qed.
Lemma mshift_mshift c a c' a' F x : mshift c a (mshift c' a' F) x = mshift (c * c') (a + a') F x.
Proof. unfold mshift. destruct (Nat.leb_spec a x) as [H1|H1].
  - destruct (Nat.leb_spec a' (x - a)) as [H2|H2].
    + replace (a + a' <=? x)%nat with true by (symmetry; apply Nat.leb_le; lia).
      replace (x - a - a')%nat with (x - (a + a'))%nat by lia. ring.
    + replace (a + a' <=? x)%nat with false by (symmetry; apply Nat.leb_gt; lia). ring.
  - replace (a + a' <=? x)%nat with false by (symmetry; apply Nat.leb_gt; lia). reflexivity. Qed.
Lemma mshift_mshift' c a c' a' F x : mshift c a (fun y => mshift c' a' F y) x = mshift (c * c') (a + a') F x.
Proof. apply mshift_mshift. Qed.
Lemma mshift_1_0 F x : mshift 1 0 F x = F x.
Proof. unfold mshift. cbn [Nat.leb]. rewrite Nat.sub_0_r. ring. Qed.
Lemma rsum_seq_trunc' (f : nat -> R) N K : (N <= K)%nat -> (forall j, (N <= j < K)%nat -> f j = 0) ->
  rsum (map f (seq 0 K)) = rsum (map f (seq 0 N)).
Proof. intros HK Z. replace K with (N + (K - N))%nat by lia. rewrite seq_app, map_app, rsum_app.
  rewrite (rsum_map_0 f (seq (0 + N) (K - N))); [lra|]. intros j Hj. apply in_seq in Hj. apply Z. lia. Qed.
(** multiplication by a monomial commutes with multiplication by a series *)
Lemma conv_mshift Q c a G x : conv Q (mshift c a G) x = mshift c a (conv Q G) x.
Proof. unfold mshift at 2. destruct (Nat.leb_spec a x) as [Ha|Ha].
  - unfold conv. rewrite (rsum_seq_trunc' _ (S (x - a)) (S x)); [|lia|].
    + rewrite <- rsum_map_scal. apply rsum_map_ext. intros j Hj. apply in_seq in Hj. unfold mshift.
      replace (a <=? x - j)%nat with true by (symmetry; apply Nat.leb_le; lia).
      replace (x - j - a)%nat with (x - a - j)%nat by lia. ring.
    + intros j Hj. unfold mshift. replace (a <=? x - j)%nat with false by (symmetry; apply Nat.leb_gt; lia). ring.
  - unfold conv. apply rsum_map_0. intros j _. unfold mshift. replace (a <=? x - j)%nat with false by (symmetry; apply Nat.leb_gt; lia). ring. Qed.

Lemma conv_mshift' Q c a G x : conv Q (fun y => mshift c a G y) x = mshift c a (conv Q G) x.
Proof. apply conv_mshift. Qed.

(** ** the binomial theorem for (c X^a + Q)^n *)
Lemma binomial_series c a Q : forall n x,
  cpow (fun i => mono c a i + Q i) n x
  = rsum (map (fun j => IZR (cZ n j) * mshift (c ^ j) (j * a) (cpow Q (n - j)) x) (seq 0 (S n))).
Proof. induction n as [|n IH]; intros x.
  - cbn [cpow seq map Nat.mul Nat.sub pow]. rewrite rsum_cons, cZ_n0, mshift_1_0. change (rsum []) with 0. ring.
  - cbn [cpow]. rewrite conv_add_l, conv_mono.
    rewrite (mshift_ext _ _ _ _ _ IH), (conv_ext Q Q _ _ x (fun j => eq_refl) IH).
    rewrite (mshift_sum c a (fun j => IZR (cZ n j)) (fun j y => mshift (c ^ j) (j * a) (cpow Q (n - j)) y)).
    rewrite (conv_sum_r Q (fun j => IZR (cZ n j)) (fun j y => mshift (c ^ j) (j * a) (cpow Q (n - j)) y)).
    rewrite (rsum_seq_head _ 0 (S n)).
    rewrite (rsum_map_ext (fun i => IZR (cZ (S n) (S i)) * mshift (c ^ S i) (S i * a) (cpow Q (S n - S i)) x)
               (fun i => IZR (cZ n (S i)) * mshift (c ^ S i) (S i * a) (cpow Q (n - i)) x
                         + IZR (cZ n i) * mshift (c ^ S i) (S i * a) (cpow Q (n - i)) x)).
    2:{ intros i _. rewrite cZ_pascal, plus_IZR. cbn [Nat.sub]. ring. }
    rewrite rsum_map_add.
    rewrite (rsum_map_ext (fun k => IZR (cZ n k) * mshift c a (mshift (c ^ k) (k * a) (cpow Q (n - k))) x)
               (fun i => IZR (cZ n i) * mshift (c ^ S i) (S i * a) (cpow Q (n - i)) x)).
    2:{ intros i _. rewrite mshift_mshift. cbn [pow Nat.mul]. reflexivity. }
    rewrite (rsum_seq_head (fun k => IZR (cZ n k) * conv Q (fun y => mshift (c ^ k) (k * a) (cpow Q (n - k)) y) x) 0 n).
    rewrite (rsum_seq_S (fun i => IZR (cZ n (S i)) * mshift (c ^ S i) (S i * a) (cpow Q (n - i)) x) 0 n).
    cbn [Nat.add]. rewrite (cZ_small n (S n)) by lia. rewrite !cZ_n0.
    rewrite (rsum_map_ext (fun i => IZR (cZ n (S i)) * conv Q (fun y => mshift (c ^ S i) (S i * a) (cpow Q (n - S i)) y) x)
               (fun i => IZR (cZ n (S i)) * mshift (c ^ S i) (S i * a) (cpow Q (n - i)) x)).
    2:{ intros i Hi. apply in_seq in Hi. rewrite conv_mshift'. replace (n - i)%nat with (S (n - S i)) by lia. reflexivity. }
    rewrite conv_mshift'. cbn [pow Nat.mul Nat.sub]. rewrite Nat.sub_0_r. cbn [cpow]. ring. Qed.

(** ** factorials and multinomial coefficients *)
Definition rf (n : nat) : R := INR (fact n).
Lemma rf_0 : rf 0 = 1.
Proof. reflexivity. Qed.
Lemma rf_S n : rf (S n) = INR (S n) * rf n.
Proof. unfold rf. change (fact (S n)) with (S n * fact n)%nat. apply mult_INR. Qed.
Lemma rf_pos n : 0 < rf n.
Proof. apply INR_fact_lt_0. Qed.
Lemma rf_neq n : rf n <> 0.
Proof. apply INR_fact_neq_0. Qed.
Lemma zfact_rf n : IZR (zfact n) = rf n.
Proof. induction n as [|n IH]; [reflexivity|]. change (zfact (S n)) with (Z.of_nat (S n) * zfact n)%Z.
  rewrite mult_IZR, IH, <- INR_IZR_INZ, rf_S. reflexivity. Qed.
Lemma zfact_pos n : (0 < zfact n)%Z.
Proof. apply lt_IZR. rewrite zfact_rf. apply rf_pos. Qed.

Lemma cZ_fact : forall n j, (j <= n)%nat -> IZR (cZ n j) * rf j * rf (n - j) = rf n.
Proof. induction n as [|n IH]; intros j Hj.
  - assert (j = 0%nat) by lia. subst j. rewrite cZ_n0. cbn [Nat.sub]. rewrite rf_0. ring.
  - destruct j as [|j]; [rewrite cZ_n0, rf_0, Nat.sub_0_r; ring|].
    cbn [Nat.sub]. rewrite !rf_S. specialize (IH j ltac:(lia)).
    pose proof (cZ_absorb n j) as Ea. apply (f_equal IZR) in Ea. rewrite !mult_IZR, <- !INR_IZR_INZ in Ea.
    transitivity ((INR (S j) * IZR (cZ (S n) (S j))) * rf j * rf (n - j)); [ring|]. rewrite Ea, <- IH. ring. Qed.

Lemma zfact_binom_div : forall s a b, (a + b = s)%nat -> exists M, zfact s = (M * (zfact a * zfact b))%Z.
Proof. induction s as [|s IH]; intros a b E.
  - assert (a = 0%nat) by lia. assert (b = 0%nat) by lia. subst. exists 1%Z. reflexivity.
  - destruct a as [|a].
    + exists 1%Z. cbn [Nat.add] in E. subst b. change (zfact 0) with 1%Z. ring.
    + destruct b as [|b].
      * exists 1%Z. assert (Es : s = a) by lia. subst s. change (zfact 0) with 1%Z. ring.
      * destruct (IH a (S b) ltac:(lia)) as [M1 E1]. destruct (IH (S a) b ltac:(lia)) as [M2 E2].
        exists (M1 + M2)%Z.
        change (zfact (S s)) with (Z.of_nat (S s) * zfact s)%Z.
        replace (Z.of_nat (S s)) with (Z.of_nat (S a) + Z.of_nat (S b))%Z by lia.
        rewrite Z.mul_add_distr_r. rewrite E1 at 1. rewrite E2.
        change (zfact (S a)) with (Z.of_nat (S a) * zfact a)%Z. change (zfact (S b)) with (Z.of_nat (S b) * zfact b)%Z. ring. Qed.
Lemma multinom_div cs : exists M, zfact (fold_right Nat.add 0%nat cs) = (M * fold_right Z.mul 1%Z (map zfact cs))%Z.
Proof. induction cs as [|c cs [M2 E2]]; [exists 1%Z; reflexivity|]. cbn [fold_right map].
  destruct (zfact_binom_div _ c (fold_right Nat.add 0%nat cs) eq_refl) as [M1 E1].
  exists (M1 * M2)%Z. rewrite E1, E2. ring. Qed.

Lemma rprod_cons a l : rprod (a :: l) = a * rprod l.
Proof. reflexivity. Qed.
Lemma rprod_app l1 l2 : rprod (l1 ++ l2) = rprod l1 * rprod l2.
Proof. induction l1; cbn [app]; rewrite ?rprod_cons; [cbn; lra | rewrite IHl1; lra]. Qed.
Lemma rprod_map_mul {A} (f g : A -> R) l : rprod (map (fun x => f x * g x) l) = rprod (map f l) * rprod (map g l).
Proof. induction l; cbn [map]; rewrite ?rprod_cons; [cbn; lra | rewrite IHl; lra]. Qed.
Lemma rprod_map_ext {A} (f g : A -> R) l : (forall x, In x l -> f x = g x) -> rprod (map f l) = rprod (map g l).
Proof. intros E. rewrite (map_ext_in _ _ _ E). reflexivity. Qed.
Lemma rprod_map_1 {A} (f : A -> R) l : (forall x, In x l -> f x = 1) -> rprod (map f l) = 1.
Proof. induction l; intros E; cbn [map]; rewrite ?rprod_cons; [reflexivity|].
  rewrite E by (left; reflexivity). rewrite IHl by (intros; apply E; right; assumption). lra. Qed.
Lemma rprod_pos (l : list R) : Forall (fun x => 0 < x) l -> 0 < rprod l.
Proof. induction 1; [cbn; lra|]. rewrite rprod_cons. apply Rmult_lt_0_compat; assumption. Qed.
Lemma rprod_single (w N : nat) (g : nat -> R) :
  rprod (map (fun v => if Nat.eqb w v then g v else 1) (seq 0 N)) = if (w <? N)%nat then g w else 1.
Proof. induction N; [reflexivity|]. rewrite seq_S, map_app, rprod_app, IHN. cbn [Nat.add map]. rewrite rprod_cons. change (rprod []) with 1.
  destruct (Nat.eqb_spec w N) as [->|Hn].
  - rewrite Nat.ltb_irrefl. replace (N <? S N)%nat with true by (symmetry; apply Nat.ltb_lt; lia). ring.
  - destruct (Nat.ltb_spec w N); destruct (Nat.ltb_spec w (S N)); try lia; ring. Qed.

Lemma rprod_rf_pos cs : 0 < rprod (map rf cs).
Proof. apply rprod_pos. apply Forall_forall. intros x Hx. apply in_map_iff in Hx. destruct Hx as [c [<- _]]. apply rf_pos. Qed.
Lemma IZR_prod_zfact cs : IZR (fold_right Z.mul 1%Z (map zfact cs)) = rprod (map rf cs).
Proof. induction cs as [|c cs IH]; [reflexivity|]. cbn [map fold_right]. rewrite mult_IZR, IH, zfact_rf. reflexivity. Qed.

(** the integer division in [multinomZ] is exact *)
Lemma multinom_R cs : IZR (multinomZ cs) = rf (fold_right Nat.add 0%nat cs) / rprod (map rf cs).
Proof. destruct (multinom_div cs) as [M E]. unfold multinomZ.
  pose proof (rprod_rf_pos cs) as Hp.
  assert (Hz : fold_right Z.mul 1%Z (map zfact cs) <> 0%Z).
  { intros Z0. apply (f_equal IZR) in Z0. rewrite IZR_prod_zfact in Z0. lra. }
  rewrite E, Z.div_mul by exact Hz.
  apply (f_equal IZR) in E. rewrite mult_IZR, IZR_prod_zfact, zfact_rf in E. rewrite E. field. lra. Qed.

(** sums of naturals *)
Lemma natsum_add {A} (f g : A -> nat) l :
  fold_right Nat.add 0%nat (map (fun x => f x + g x)%nat l) = (fold_right Nat.add 0%nat (map f l) + fold_right Nat.add 0%nat (map g l))%nat.
Proof. induction l; [reflexivity|]. cbn [map fold_right]. rewrite IHl. lia. Qed.
Lemma natsum_single (w N : nat) :
  fold_right Nat.add 0%nat (map (fun v => if Nat.eqb w v then 1 else 0)%nat (seq 0 N)) = if (w <? N)%nat then 1%nat else 0%nat.
Proof. induction N; [reflexivity|]. rewrite seq_S, map_app, fold_right_app. cbn [Nat.add map fold_right].
  assert (G : forall (l : list nat) k, fold_right Nat.add k l = (fold_right Nat.add 0%nat l + k)%nat)
    by (induction l; intros; cbn [fold_right]; [lia | rewrite IHl; lia]).
  rewrite G, IHN.
  destruct (Nat.eqb_spec w N) as [->|Hn].
  - rewrite Nat.ltb_irrefl. replace (N <? S N)%nat with true by (symmetry; apply Nat.ltb_lt; lia). lia.
  - destruct (Nat.ltb_spec w N); destruct (Nat.ltb_spec w (S N)); try lia. Qed.

(** ** the partition generator Numerics.part: pruning is sound, the recursion without the pruning test *)
Lemma parts_pruned n x mv maxv : negb ((n * mv <=? x)%nat && (x <=? n * maxv)%nat) = true -> parts n x mv maxv = [].
Proof. intros H. destruct n; cbn [parts]; rewrite H; reflexivity. Qed.
Lemma parts_0 x mv maxv : parts 0 x mv maxv = if Nat.eqb x 0 then [[]] else [].
Proof. destruct x; reflexivity. Qed.
Lemma flat_map_nil {A B} (f : A -> list B) l : (forall a, In a l -> f a = []) -> flat_map f l = [].
Proof. induction l as [|a l IH]; intros H; [reflexivity|]. cbn [flat_map]. rewrite H by (left; reflexivity).
  rewrite IH by (intros; apply H; right; assumption). reflexivity. Qed.
Lemma parts_S n x mv maxv :
  parts (S n) x mv maxv
  = flat_map (fun v => if (v <=? x)%nat then map (cons v) (parts n (x - v) v maxv) else []) (seq mv (maxv + 1 - mv)).
Proof. cbn [parts]. destruct (negb ((S n * mv <=? x)%nat && (x <=? S n * maxv)%nat)) eqn:Hc; [|reflexivity].
  symmetry. apply flat_map_nil. intros v Hv. apply in_seq in Hv. destruct (Nat.leb_spec v x) as [Hvx|Hvx]; [|reflexivity].
  rewrite parts_pruned; [reflexivity|].
  apply negb_true_iff, andb_false_iff in Hc. apply negb_true_iff, andb_false_iff.
  destruct Hc as [Hc|Hc]; apply Nat.leb_gt in Hc; [left | right]; apply Nat.leb_gt; nia. Qed.
Lemma parts_spec maxv : forall n x mv q, In q (parts n x mv maxv) -> length q = n /\ Forall (fun w => (mv <= w <= maxv)%nat) q.
Proof. induction n as [|n IH]; intros x mv q Hq.
  - rewrite parts_0 in Hq. destruct (Nat.eqb x 0); [|destruct Hq]. destruct Hq as [<-|[]]. split; [reflexivity | constructor].
  - rewrite parts_S in Hq. apply in_flat_map in Hq. destruct Hq as [v [Hv Hq]]. apply in_seq in Hv.
    destruct (v <=? x)%nat; [|destruct Hq]. apply in_map_iff in Hq. destruct Hq as [q' [<- Hq']].
    destruct (IH _ _ _ Hq') as [Hl Hf]. split; [cbn [length]; lia|]. constructor; [lia|].
    eapply Forall_impl; [|exact Hf]. cbn beta. intros w Hw. lia. Qed.

(** ** counts *)
Definition cnt (v : nat) (q : list nat) : nat := count_occ Nat.eq_dec q v.
Lemma cnt_cons v w q : cnt v (w :: q) = if Nat.eqb w v then S (cnt v q) else cnt v q.
Proof. unfold cnt. cbn [count_occ]. destruct (Nat.eq_dec w v) as [E|E]; destruct (Nat.eqb_spec w v); try contradiction; reflexivity. Qed.
Lemma cnt_absent v q : ~ In v q -> cnt v q = 0%nat.
Proof. intros H. unfold cnt. apply count_occ_not_In. assumption. Qed.

Section Multinomial.
  Variables (p : nat) (tb : list R).
  Hypothesis Htb : length tb = S p.
  Let u (v : nat) : R := nth v tb 0.

  Definition monoL (q : list nat) : R := rprod (map (fun v => nth v tb 0) q).
  Definition Dq (q : list nat) : R := rprod (map (fun v => rf (cnt v q)) (seq 0 (S p))).
  (** weight of the multiset q preceded by k more copies of v (without their factor u_v^k), divided by (total size)! *)
  Definition ewt (k v : nat) (q : list nat) : R := monoL q / Dq q * (rf (cnt v q) / rf (k + cnt v q)).
  Definition Gk (k n v x : nat) : R := rsum (map (ewt k v) (parts n x v p)).

  Lemma Dq_pos q : 0 < Dq q.
  Proof. unfold Dq. apply rprod_pos, Forall_forall. intros y Hy. apply in_map_iff in Hy. destruct Hy as [v [<- _]]. apply rf_pos. Qed.
  Lemma Dq_nil : Dq [] = 1.
  Proof. unfold Dq. apply rprod_map_1. intros; reflexivity. Qed.
  Lemma Dq_cons w q : (w <= p)%nat -> Dq (w :: q) = INR (S (cnt w q)) * Dq q.
  Proof. intros Hw. unfold Dq.
    rewrite (rprod_map_ext _ (fun v => (if Nat.eqb w v then INR (S (cnt v q)) else 1) * rf (cnt v q))).
    - rewrite rprod_map_mul, (rprod_single w (S p) (fun v => INR (S (cnt v q)))).
      replace (w <? S p)%nat with true by (symmetry; apply Nat.ltb_lt; lia). reflexivity.
    - intros v _. rewrite cnt_cons. destruct (Nat.eqb w v); [apply rf_S | ring]. Qed.
  Lemma monoL_cons w q : monoL (w :: q) = u w * monoL q.
  Proof. reflexivity. Qed.

  Lemma pw_is_monoL q : Forall (fun w => (w <= p)%nat) q ->
    rprod (map2 (@fpow R _) tb (pcounts p q)) = monoL q.
  Proof. intros Hq. unfold pcounts.
    rewrite (map2_nth_seq (@fpow R _) tb _ 0 0%nat) by (rewrite map_length, seq_length; exact Htb). rewrite Htb.
    rewrite (rprod_map_ext _ (fun v => u v ^ cnt v q)).
    2:{ intros v Hv. apply in_seq in Hv. rewrite nth_map_seq by lia. apply fpow_pow. }
    induction Hq as [|w q Hw Hq IH].
    - apply rprod_map_1. intros; reflexivity.
    - rewrite (rprod_map_ext _ (fun v => (if Nat.eqb w v then u v else 1) * u v ^ cnt v q)).
      + rewrite rprod_map_mul, (rprod_single w (S p) u), IH, monoL_cons.
        replace (w <? S p)%nat with true by (symmetry; apply Nat.ltb_lt; lia). reflexivity.
      + intros v _. rewrite cnt_cons. destruct (Nat.eqb w v); [reflexivity | ring]. Qed.

  Lemma sum_pcounts q : Forall (fun w => (w <= p)%nat) q -> fold_right Nat.add 0%nat (pcounts p q) = length q.
  Proof. intros Hq. unfold pcounts. induction Hq as [|w q Hw Hq IH].
    - cbn [length]. generalize (seq 0 (S p)). intros l. induction l; [reflexivity | cbn [map fold_right]; rewrite IHl; reflexivity].
    - rewrite (map_ext _ (fun v => (cnt v q + (if Nat.eqb w v then 1 else 0))%nat)).
      + rewrite natsum_add, natsum_single. fold (cnt) in IH. change (fun v => count_occ Nat.eq_dec q v) with (fun v => cnt v q) in IH.
        rewrite IH. replace (w <? S p)%nat with true by (symmetry; apply Nat.ltb_lt; lia). cbn [length]. lia.
      + intros v. change (count_occ Nat.eq_dec (w :: q) v) with (cnt v (w :: q)). rewrite cnt_cons. destruct (Nat.eqb w v); lia. Qed.

  Lemma multinom_is_weight q : Forall (fun w => (w <= p)%nat) q ->
    IZR (multinomZ (pcounts p q)) = rf (length q) / Dq q.
  Proof. intros Hq. rewrite multinom_R, sum_pcounts by assumption. unfold Dq, pcounts. rewrite map_map. reflexivity. Qed.

  (** *** weights along the generator *)
  Lemma ewt_0 v q : ewt 0 v q = monoL q / Dq q.
  Proof. unfold ewt. cbn [Nat.add]. pose proof (rf_neq (cnt v q)). pose proof (Dq_pos q). field. split; lra. Qed.
  Lemma ewt_absent k v q : cnt v q = 0%nat -> ewt k v q = monoL q / Dq q / rf k.
  Proof. intros E. unfold ewt. rewrite E, Nat.add_0_r, rf_0. pose proof (rf_neq k). pose proof (Dq_pos q). field. split; lra. Qed.
  Lemma ewt_cons_same k v q : (v <= p)%nat -> ewt k v (v :: q) = u v * ewt (S k) v q.
  Proof. intros Hv. unfold ewt. rewrite monoL_cons, Dq_cons by assumption. rewrite cnt_cons, Nat.eqb_refl, rf_S.
    replace (k + S (cnt v q))%nat with (S k + cnt v q)%nat by lia.
    pose proof (rf_neq (S k + cnt v q)). pose proof (Dq_pos q).
    assert (INR (S (cnt v q)) <> 0) by (apply not_0_INR; lia). field. repeat split; lra. Qed.

  Lemma Gk_0 k v x : Gk k 0 v x = delta x / rf k.
  Proof. unfold Gk, delta. rewrite parts_0. destruct (Nat.eqb x 0); cbn [map]; [|change (rsum []) with 0; unfold Rdiv; ring].
    rewrite rsum_cons. change (rsum []) with 0. rewrite ewt_absent by reflexivity. unfold monoL. cbn [map]. rewrite Dq_nil.
    change (rprod []) with 1. pose proof (rf_neq k). field. assumption. Qed.

  Lemma Gk_S k n v x : (v <= p)%nat ->
    Gk k (S n) v x = mshift (u v) v (Gk (S k) n v) x + Gk 0 (S n) (S v) x / rf k.
  Proof. intros Hv. unfold Gk. rewrite (parts_S n x v p). replace (p + 1 - v)%nat with (S (p - v)) by lia.
    cbn [seq flat_map]. rewrite map_app, rsum_app. f_equal.
    - unfold mshift. destruct (v <=? x)%nat; [|reflexivity]. rewrite map_map, <- rsum_map_scal.
      apply rsum_map_ext. intros q _. apply ewt_cons_same. assumption.
    - rewrite (parts_S n x (S v) p). replace (p + 1 - S v)%nat with (p - v)%nat by lia.
      rewrite !rsum_flat_map. unfold Rdiv. rewrite <- rsum_map_scal_r. apply rsum_map_ext. intros w Hw. apply in_seq in Hw.
      destruct (w <=? x)%nat; [|cbn [map]; change (rsum []) with 0; ring].
      rewrite !map_map, <- rsum_map_scal_r. apply rsum_map_ext. intros q Hq.
      apply parts_spec in Hq. destruct Hq as [_ Hq]. rewrite Forall_forall in Hq.
      rewrite ewt_absent, ewt_0; [reflexivity|]. apply cnt_absent. intros [E|Hin]; [lia|]. specialize (Hq v Hin). lia. Qed.

  (** *** the truncated generating polynomials  U_v = sum_{w = v..p} u_w X^w *)
  Definition Useries (v i : nat) : R := if ((v <=? i)%nat && (i <=? p)%nat)%bool then nth i tb 0 else 0.
  Definition Epow (m v x : nat) : R := cpow (Useries v) m x / rf m.

  Lemma Useries_split v : (v <= p)%nat -> forall i, Useries v i = mono (u v) v i + Useries (S v) i.
  Proof. intros Hv i. unfold Useries, mono. destruct (Nat.eqb_spec i v) as [->|Hn].
    - replace (v <=? v)%nat with true by (symmetry; apply Nat.leb_le; lia).
      replace (v <=? p)%nat with true by (symmetry; apply Nat.leb_le; lia).
      replace (S v <=? v)%nat with false by (symmetry; apply Nat.leb_gt; lia). cbn [andb]. unfold u. ring.
    - destruct (Nat.leb_spec v i); destruct (Nat.leb_spec (S v) i); try lia; cbn [andb]; destruct (i <=? p)%nat; ring. Qed.
  Lemma Useries_top i : Useries (S p) i = 0.
  Proof. unfold Useries. destruct (Nat.leb_spec (S p) i); destruct (Nat.leb_spec i p); try lia; reflexivity. Qed.
  Lemma Useries_0 i : Useries 0 i = coef tb i.
  Proof. unfold Useries, coef. cbn [Nat.leb andb]. destruct (Nat.leb_spec i p); [reflexivity|]. symmetry. apply nth_overflow. lia. Qed.

  Lemma Gk_top n x : Gk 0 n (S p) x = Epow n (S p) x.
  Proof. unfold Epow. destruct n as [|n].
    - rewrite Gk_0. reflexivity.
    - unfold Gk. rewrite parts_S. replace (p + 1 - S p)%nat with 0%nat by lia. cbn [seq flat_map map]. change (rsum []) with 0.
      cbn [cpow]. unfold conv. rewrite rsum_map_0 by (intros; rewrite Useries_top; ring). unfold Rdiv. ring. Qed.

  Definition Rser (k n v x : nat) : R :=
    rsum (map (fun j => / rf (k + j) * mshift (u v ^ j) (j * v) (Epow (n - j) (S v)) x) (seq 0 (S n))).

  Lemma Gk_power_from_Rser n v : (v <= p)%nat -> (forall x, Gk 0 n v x = Rser 0 n v x) -> forall x, Gk 0 n v x = Epow n v x.
  Proof. intros Hv H x. rewrite H. unfold Epow at 1. rewrite (cpow_ext _ _ n (Useries_split v Hv)), binomial_series.
    unfold Rser, Rdiv. rewrite <- rsum_map_scal_r. apply rsum_map_ext. intros j Hj. apply in_seq in Hj. cbn [Nat.add].
    unfold Epow. rewrite (mshift_ext _ _ _ (fun y => / rf (n - j) * cpow (Useries (S v)) (n - j) y)) by (intros; unfold Rdiv; ring).
    rewrite mshift_scal. pose proof (cZ_fact n j ltac:(lia)) as Ec.
    pose proof (rf_neq j). pose proof (rf_neq (n - j)). pose proof (rf_neq n).
    replace (IZR (cZ n j)) with (rf n / (rf j * rf (n - j))) by (rewrite <- Ec; field; split; assumption).
    field. repeat split; assumption. Qed.

  (** the sum over the partitions generated from minimum value v, with k more copies of v in front *)
  Lemma Gk_is_Rser : forall n k v x, (v <= p)%nat -> Gk k n v x = Rser k n v x.
  Proof. induction n as [|n IHn].
    - intros k v x Hv. rewrite Gk_0. unfold Rser. cbn [seq map Nat.sub pow Nat.mul]. rewrite rsum_cons. change (rsum []) with 0.
      rewrite mshift_1_0, Nat.add_0_r. unfold Epow. cbn [cpow]. rewrite rf_0. pose proof (rf_neq k). field. assumption.
    - assert (Hd : forall d v, (v + d = p)%nat -> forall k x, Gk k (S n) v x = Rser k (S n) v x).
      { induction d as [|d IHd]; intros v Hvd k x.
        - assert (Ev : v = p) by lia. subst v.
          rewrite Gk_S, Gk_top by lia.
          rewrite (mshift_ext _ _ _ _ _ (fun y => IHn (S k) p y ltac:(lia))).
          unfold Rser. rewrite (mshift_sum (u p) p (fun j => / rf (S k + j)) (fun j y => mshift (u p ^ j) (j * p) (Epow (n - j) (S p)) y)).
          rewrite (rsum_seq_head _ 0 (S n)). cbn [pow Nat.mul Nat.sub]. rewrite mshift_1_0, Nat.add_0_r.
          rewrite (rsum_map_ext (fun i => / rf (k + S i) * mshift (u p * u p ^ i) (p + i * p) (Epow (n - i) (S p)) x)
                     (fun j => / rf (S k + j) * mshift (u p) p (fun y => mshift (u p ^ j) (j * p) (Epow (n - j) (S p)) y) x)).
          2:{ intros j _. rewrite mshift_mshift'. replace (k + S j)%nat with (S k + j)%nat by lia. reflexivity. }
          unfold Rdiv. ring.
        - assert (Hv : (v <= p)%nat) by lia.
          assert (HT : forall y, Gk 0 (S n) (S v) y = Epow (S n) (S v) y).
          { apply Gk_power_from_Rser; [lia|]. intros y. apply IHd. lia. }
          rewrite Gk_S, HT by lia.
          rewrite (mshift_ext _ _ _ _ _ (fun y => IHn (S k) v y Hv)).
          unfold Rser. rewrite (mshift_sum (u v) v (fun j => / rf (S k + j)) (fun j y => mshift (u v ^ j) (j * v) (Epow (n - j) (S v)) y)).
          rewrite (rsum_seq_head _ 0 (S n)). cbn [pow Nat.mul Nat.sub]. rewrite mshift_1_0, Nat.add_0_r.
          rewrite (rsum_map_ext (fun i => / rf (k + S i) * mshift (u v * u v ^ i) (v + i * v) (Epow (n - i) (S v)) x)
                     (fun j => / rf (S k + j) * mshift (u v) v (fun y => mshift (u v ^ j) (j * v) (Epow (n - j) (S v)) y) x)).
          2:{ intros j _. rewrite mshift_mshift'. replace (k + S j)%nat with (S k + j)%nat by lia. reflexivity. }
          unfold Rdiv. ring. }
      intros k v x Hv. apply (Hd (p - v)%nat v). lia. Qed.

  (** *** the multinomial theorem in the form of the code *)
  Theorem partition_sum_is_power_coefficient i n :
    rsum (map (fun prt => rprod (map2 (@fpow R _) tb (pcounts p prt)) * IZR (multinomZ (pcounts p prt))) (parts n i 0 p))
    = nth i (ppow tb n) 0.
  Proof.
    rewrite (rsum_map_ext _ (fun prt => rf n * ewt 0 0 prt)).
    - rewrite rsum_map_scal. fold (Gk 0 n 0 i).
      rewrite (Gk_power_from_Rser n 0 ltac:(lia) (fun x => Gk_is_Rser n 0 0 x ltac:(lia))).
      unfold Epow. rewrite (cpow_ext _ _ n Useries_0). fold (coef (ppow tb n) i). rewrite coef_ppow.
      pose proof (rf_neq n). field. assumption.
    - intros q Hq. apply parts_spec in Hq. destruct Hq as [Hl Hq].
      assert (Hq' : Forall (fun w => (w <= p)%nat) q) by (eapply Forall_impl; [|exact Hq]; cbn beta; intros; lia).
      rewrite pw_is_monoL, multinom_is_weight, ewt_0, Hl by assumption. unfold Rdiv. ring. Qed.
End Multinomial.

(** ** BetaBinomConvolution(i, n, alpha, beta, ploidy), partition form = polynomial-power form: every i, n, ploidy, alpha, beta *)
Theorem bbconv_is_bbconv_pow i n (a b : R) p : bbconv i n a b p = bbconv_pow i n a b p.
Proof. unfold bbconv, bbconv_pow.
  apply (partition_sum_is_power_coefficient p (bb_table p a b)).
  unfold bb_table. rewrite map_length, seq_length. reflexivity. Qed.

(** hence the probabilities of the partition form sum to one as well *)
Theorem bbconv_sum1 n p (a b : R) : rising (a + b) p <> 0 ->
  rsum (map (fun i => bbconv i n a b p) (seq 0 (S (n * p)))) = 1.
Proof. intros H. rewrite (rsum_map_ext _ (fun i => bbconv_pow i n a b p)) by (intros; apply bbconv_is_bbconv_pow).
  exact (betabinom_conv_sum1 n p a b H). Qed.
