(** Generic finite "big operator" lemmas over lists for a commutative monoid, and the
    fiber (push-forward) lemmas every population operation of C10 is reduced to. *)
From Coq Require Import List Bool Arith Lia Permutation.
Import ListNotations.

Section Big.
  Variables (M : Type) (op : M -> M -> M) (e : M).
  Hypothesis op_assoc : forall x y z, op x (op y z) = op (op x y) z.
  Hypothesis op_comm : forall x y, op x y = op y x.
  Hypothesis op_e_l : forall x, op e x = x.

  Lemma op_e_r x : op x e = x.
  Proof. rewrite op_comm; apply op_e_l. Qed.

  Definition big {A} (l : list A) (g : A -> M) : M := fold_right (fun x r => op (g x) r) e l.

  Lemma big_cons {A} (x : A) l g : big (x :: l) g = op (g x) (big l g).
  Proof. reflexivity. Qed.
  Lemma big_nil {A} (g : A -> M) : big [] g = e.
  Proof. reflexivity. Qed.

  Lemma big_app {A} (l1 l2 : list A) g : big (l1 ++ l2) g = op (big l1 g) (big l2 g).
  Proof. induction l1; [now rewrite big_nil, op_e_l|]. change ((a :: l1) ++ l2) with (a :: (l1 ++ l2)).
    now rewrite !big_cons, IHl1, op_assoc. Qed.

  Lemma big_ext {A} (l : list A) g h : (forall x, In x l -> g x = h x) -> big l g = big l h.
  Proof. induction l; intros Hx; [reflexivity|]. rewrite !big_cons, Hx, IHl; auto with datatypes. Qed.

  Lemma big_e {A} (l : list A) g : (forall x, In x l -> g x = e) -> big l g = e.
  Proof. induction l; intros Hx; [reflexivity|]. rewrite big_cons, Hx, IHl, op_e_l; auto with datatypes. Qed.

  Lemma big_op {A} (l : list A) g h : big l (fun x => op (g x) (h x)) = op (big l g) (big l h).
  Proof. induction l; [now rewrite !big_nil, op_e_l|]. rewrite !big_cons, IHl.
    rewrite <- !op_assoc. f_equal. rewrite !op_assoc. f_equal. apply op_comm. Qed.

  Lemma big_swap {A B} (l1 : list A) (l2 : list B) (h : A -> B -> M) :
    big l1 (fun x => big l2 (h x)) = big l2 (fun y => big l1 (fun x => h x y)).
  Proof. induction l1.
    - rewrite big_nil. symmetry; apply big_e; reflexivity.
    - rewrite big_cons, IHl1, <- big_op. reflexivity. Qed.

  Lemma big_map {A B} (f : A -> B) (l : list A) g : big (map f l) g = big l (fun x => g (f x)).
  Proof. induction l; [reflexivity|]. simpl map. rewrite !big_cons, IHl. reflexivity. Qed.

  Lemma big_flat_map {A B} (f : A -> list B) (l : list A) g :
    big (flat_map f l) g = big l (fun x => big (f x) g).
  Proof. induction l; [reflexivity|]. simpl flat_map. rewrite big_app, big_cons, IHl. reflexivity. Qed.

  Lemma big_perm {A} (l l' : list A) g : Permutation l l' -> big l g = big l' g.
  Proof. induction 1; try reflexivity.
    - rewrite !big_cons; congruence.
    - rewrite !big_cons, !op_assoc. f_equal. apply op_comm.
    - congruence. Qed.

  Lemma big_filter {A} (P : A -> bool) (l : list A) g :
    big (filter P l) g = big l (fun x => if P x then g x else e).
  Proof. induction l; [reflexivity|]. simpl filter. rewrite big_cons. destruct (P a).
    - rewrite big_cons, IHl. reflexivity.
    - rewrite op_e_l. exact IHl. Qed.

  Section Eq.
    Variables (A : Type) (eqb : A -> A -> bool).
    Hypothesis eqb_spec : forall x y, eqb x y = true <-> x = y.

    Lemma eqb_refl x : eqb x x = true.
    Proof. now apply eqb_spec. Qed.
    Lemma eqb_neq x y : x <> y -> eqb x y = false.
    Proof. intros Hn. destruct (eqb x y) eqn:E; [apply eqb_spec in E; contradiction | reflexivity]. Qed.

    Lemma big_delta_out (l : list A) (j : A) (h : A -> M) :
      ~ In j l -> big l (fun x => if eqb j x then h x else e) = e.
    Proof. intros Hn. apply big_e. intros x Hx. rewrite eqb_neq; [reflexivity|]. intros ->; contradiction. Qed.

    Lemma big_delta (l : list A) (j : A) (h : A -> M) :
      NoDup l -> In j l -> big l (fun x => if eqb j x then h x else e) = h j.
    Proof. induction 1 as [|a l Ha Hl IH]; intros Hin; [contradiction|].
      rewrite big_cons. destruct Hin as [->|Hin].
      - rewrite eqb_refl, big_delta_out, op_e_r; auto.
      - rewrite eqb_neq, op_e_l; [auto|]. intros ->; contradiction. Qed.

    (** push-forward of a push-forward is the push-forward along the composite index map *)
    Lemma big_fiber {B} (S1 : list B) (S2 : list A) (f : B -> A) (p : A -> bool) (g : B -> M) :
      NoDup S2 -> (forall i, In i S1 -> In (f i) S2) ->
      big S2 (fun j => if p j then big S1 (fun i => if eqb (f i) j then g i else e) else e)
      = big S1 (fun i => if p (f i) then g i else e).
    Proof. intros Hnd Hf.
      transitivity (big S2 (fun j => big S1 (fun i => if eqb (f i) j then (if p j then g i else e) else e))).
      { apply big_ext. intros j _. destruct (p j).
        - apply big_ext. intros i _. reflexivity.
        - symmetry. apply big_e. intros i _. destruct (eqb (f i) j); reflexivity. }
      rewrite big_swap. apply big_ext. intros i Hi.
      rewrite (big_delta S2 (f i) (fun j => if p j then g i else e)); auto. Qed.

    (** total of a push-forward = total of the source *)
    Lemma big_fiber_total {B} (S1 : list B) (S2 : list A) (f : B -> A) (g : B -> M) :
      NoDup S2 -> (forall i, In i S1 -> In (f i) S2) ->
      big S2 (fun j => big S1 (fun i => if eqb (f i) j then g i else e)) = big S1 g.
    Proof. intros. apply (big_fiber S1 S2 f (fun _ => true) g); auto. Qed.

    (** a fiber enumerated explicitly *)
    Lemma big_fiber_enum {B} (S1 : list B) (f : B -> A) (j : A) (g : B -> M) (l' : list B) :
      NoDup S1 -> NoDup l' -> (forall i, In i l' <-> In i S1 /\ f i = j) ->
      big S1 (fun i => if eqb (f i) j then g i else e) = big l' g.
    Proof. intros H1 H2 Hiff. rewrite <- (big_filter (fun i => eqb (f i) j)).
      apply big_perm. apply NoDup_Permutation; auto using NoDup_filter.
      intros i. rewrite filter_In, eqb_spec. symmetry. apply Hiff. Qed.

    (** the scatter loop  for i in src: acc[f i] = acc[f i] (+) g i  computes the fiber sums *)
    Lemma scatter_gather {B} (src : list B) (f : B -> A) (g : B -> M) (acc0 : A -> M) (k : A) :
      fold_left (fun acc i => let j := f i in let v := op (acc j) (g i) in
                              fun k' => if eqb k' j then v else acc k') src acc0 k
      = op (acc0 k) (big src (fun i => if eqb (f i) k then g i else e)).
    Proof. revert acc0. induction src as [|i src IH]; intros acc0; cbn [fold_left].
      - now rewrite big_nil, op_e_r.
      - rewrite IH. rewrite big_cons. cbv beta zeta. destruct (eqb k (f i)) eqn:E.
        + apply eqb_spec in E. subst k. rewrite eqb_refl. now rewrite op_assoc.
        + rewrite eqb_neq; [now rewrite op_e_l|]. intros Heq. rewrite Heq, eqb_refl in E. discriminate. Qed.
  End Eq.
End Big.

Arguments big {M} op e {A} l g.
