(** C04: a frozen population's marginal density at an interior frequency is unchanged by a whole step
    (mutation influx + the sweeps of all non-frozen populations), in any number of populations. *)
From Coq Require Import Reals List Lra Lia Arith Bool.
From Dadi Require Import Base.Num Base.NumR Model.Tridiag Model.Scheme Model.NDSweep
  Proofs.TridiagProofs Proofs.SchemeProofs Proofs.SumLemmas Proofs.Linearity Proofs.NDLines Proofs.NDSweepProofs Proofs.NDWeights
  Proofs.IntegrateLinear Proofs.IntegrateRescale Proofs.FrozenMarginal.
Import ListNotations.
Local Open Scope R_scope.

Lemma nthF_add_at : forall (l : list R) j v a, nthF (add_at l j v) a = if Nat.eqb a j then (if Nat.ltb j (length l) then nthF l a + v else nthF l a) else nthF l a.
Proof.
  unfold nthF. induction l as [|y l IH]; intros j v a.
  - cbn [add_at length]. destruct (Nat.eqb a j); [destruct (Nat.ltb j 0) eqn:E; [apply Nat.ltb_lt in E; lia|]|]; reflexivity.
  - destruct j as [|j]; cbn [add_at length].
    + destruct a as [|a]; cbn [nth Nat.eqb]; [numR; reflexivity|reflexivity].
    + destruct a as [|a]; cbn [nth Nat.eqb]; [reflexivity|]. rewrite IH.
      destruct (Nat.eqb a j); [|reflexivity].
      destruct (Nat.ltb_spec j (length l)); destruct (Nat.ltb_spec (S j) (S (length l))); try lia; reflexivity.
Qed.

Section FrozenStep.
  Variable shape : list nat.
  Variable grids : list (list R).
  Variable pops : list (@pop R).
  Notation d := (length shape).
  Hypothesis Hwf : wf_pops shape pops.
  Hypothesis Hglen : length grids = d.
  Hypothesis Hgrids : forall k, (k < d)%nat ->
    length (nth k grids []) = ax_len shape k /\ (2 <= ax_len shape k)%nat /\
    (forall j, (j < length (nth k grids []) - 1)%nat -> 0 < dx (nth k grids []) j).
  Variable f i : nat.
  Variable pf : @pop R.
  Hypothesis Hf : (f < d)%nat.
  Hypothesis Hpf : nth_error pops f = Some pf.
  Hypothesis Hfrozen : p_frozen pf = true.
  Hypothesis Hi0 : i <> 0%nat.
  Hypothesis Hint : nthF (nth f grids []) i <> 0 /\ nthF (nth f grids []) i <> 1.
  Variable dt : R.
  Hypothesis Hdt : dt <> 0.
  Variable dj : bool.
  Hypothesis Hns : nonsingular shape grids pops dj dt.

  (** adding something at a point where population f sits at index 0 does not touch its marginal at i <> 0 *)
  Lemma marginal_add_at_unit (phi : list R) k v : (k < d)%nat -> k <> f ->
    marginal_at shape grids f i (add_at phi (flatidx shape (unit_ix d k)) v) = marginal_at shape grids f i phi.
  Proof. Abort.
End FrozenStep.
