(** C04: a frozen population's marginal density at an interior frequency is unchanged by a whole step
    (mutation influx + the sweeps of all non-frozen populations), in any number of populations. *)
From Coq Require Import Reals List Lra Lia Arith Bool.
From Dadi Require Import Base.Num Base.NumR Model.Tridiag Model.Scheme Model.NDSweep
  Proofs.TridiagProofs Proofs.SchemeProofs Proofs.SumLemmas Proofs.Linearity Proofs.NDLines Proofs.NDSweepProofs Proofs.NDWeights
  Proofs.IntegrateLinear Proofs.IntegrateRescale Proofs.FrozenMarginal.
Import ListNotations.
Local Open Scope R_scope.

Lemma nthF_add_at : forall (l : list R) j v a, nthF (add_at l j v) a = if Nat.eqb a j then (if Nat.ltb j (length l) then nthF l a + v else nthF l a) else nthF l a.
Proof.
  unfold nthF. induction l as [|y l IH]; intros j v a.
  - cbn [add_at length]. destruct (Nat.eqb a j); [destruct (Nat.ltb j 0) eqn:E; [apply Nat.ltb_lt in E; lia|]|]; reflexivity.
  - destruct j as [|j]; cbn [add_at length].
    + destruct a as [|a]; cbn [nth Nat.eqb]; [numR; reflexivity|reflexivity].
    + destruct a as [|a]; cbn [nth Nat.eqb]; [reflexivity|]. rewrite IH.
      destruct (Nat.eqb a j); [|reflexivity].
      destruct (Nat.ltb_spec j (length l)); destruct (Nat.ltb_spec (S j) (S (length l))); try lia; reflexivity.
Qed.

(** flat index <-> multi-index *)
Lemma flatidx_lt : forall shape ix, Forall2 lt ix shape -> (flatidx shape ix < prodn shape)%nat.
Proof.
  induction shape as [|n t IH]; intros ix H; inversion H; subst; cbn [flatidx prodn fold_right]; [lia|].
  fold (prodn t). specialize (IH _ H4). nia.
Qed.
Lemma unflat_flatidx : forall shape ix, Forall2 lt ix shape -> unflat shape (flatidx shape ix) = ix.
Proof.
  induction shape as [|n t IH]; intros ix H; inversion H; subst; cbn [flatidx unflat]; [reflexivity|].
  pose proof (flatidx_lt t l H4) as Hlt. assert (HP : prodn t <> 0%nat) by lia.
  rewrite Nat.add_comm. rewrite Nat.div_add by exact HP. rewrite Nat.mod_add by exact HP.
  rewrite Nat.div_small, Nat.mod_small by exact Hlt. cbn [plus]. f_equal. apply IH. exact H4.
Qed.
Lemma unit_ix_ok d k : forall shape, length shape = d -> (forall n, In n shape -> (2 <= n)%nat) -> Forall2 lt (unit_ix d k) shape.
Proof.
  unfold unit_ix. intros shape Hl Hge.
  assert (G : forall s (sh : list nat), (forall n, In n sh -> (2 <= n)%nat) ->
              Forall2 lt (map (fun j => if Nat.eqb j k then 1%nat else 0%nat) (seq s (length sh))) sh).
  { intros s sh. revert s. induction sh as [|n t IHt]; intros s Hn; cbn [length seq map]; constructor.
    - specialize (Hn n (or_introl eq_refl)). destruct (Nat.eqb s k); lia.
    - apply IHt. intros m Hm. apply Hn. right. exact Hm. }
  rewrite <- Hl. apply G. exact Hge.
Qed.
Lemma nth_unit_ix d k a : (a < d)%nat -> nth a (unit_ix d k) 0%nat = if Nat.eqb a k then 1%nat else 0%nat.
Proof. intros Ha. unfold unit_ix. rewrite nth_map_seq0 by exact Ha. reflexivity. Qed.

Section FrozenStep.
  Variable shape : list nat.
  Variable grids : list (list R).
  Variable pops : list (@pop R).
  Notation d := (length shape).
  Hypothesis Hwf : wf_pops shape pops.
  Hypothesis Hglen : length grids = d.
  Hypothesis Hshape : forall n, In n shape -> (2 <= n)%nat.
  Hypothesis Hgrids : forall k, (k < d)%nat ->
    length (nth k grids []) = ax_len shape k /\ (2 <= ax_len shape k)%nat /\
    (forall j, (j < length (nth k grids []) - 1)%nat -> 0 < dx (nth k grids []) j).
  Variable f i : nat.
  Variable pf : @pop R.
  Hypothesis Hf : (f < d)%nat.
  Hypothesis Hpf : nth_error pops f = Some pf.
  Hypothesis Hfrozen : p_frozen pf = true.
  Hypothesis Hi0 : i <> 0%nat.
  Hypothesis Hint : nthF (nth f grids []) i <> 0 /\ nthF (nth f grids []) i <> 1.
  Variable dt : R.
  Hypothesis Hdt : dt <> 0.
  Variable dj : bool.
  Hypothesis Hns : nonsingular shape grids pops dj dt.

  (** adding something at the point e_k (k <> f), where population f sits at index 0, does not touch its marginal at i <> 0 *)
  Lemma marginal_add_at_unit (phi : list R) k v : (k < d)%nat -> k <> f ->
    marginal_at shape grids f i (add_at phi (flatidx shape (unit_ix d k)) v) = marginal_at shape grids f i phi.
  Proof.
    intros Hk Hkf. unfold marginal_at. set (j0 := flatidx shape (unit_ix d k)).
    assert (Hok : Forall2 lt (unit_ix d k) shape) by (apply unit_ix_ok; [reflexivity|exact Hshape]).
    assert (Hj0 : (j0 < prodn shape)%nat) by (apply flatidx_lt; exact Hok).
    assert (Hw : mweight grids d f i (unflat shape j0) = 0).
    { unfold j0. rewrite unflat_flatidx by exact Hok. unfold mweight. rewrite (nprod_pull _ d f Hf).
      rewrite Nat.eqb_refl, nth_unit_ix by exact Hf. destruct (Nat.eqb_spec f k); [congruence|].
      destruct (Nat.eqb_spec 0 i); [congruence|]. ring. }
    apply rsum_ext. intros j Hj. rewrite nthF_add_at.
    destruct (Nat.eqb_spec j j0) as [->|Hne]; [|reflexivity].
    rewrite Hw. ring.
  Qed.

  Lemma in_combine_nth_error : forall (l : list (@pop R)) s k p, In (k, p) (combine (seq s (length l)) l) -> nth_error l (k - s) = Some p /\ (s <= k)%nat.
  Proof.
    induction l as [|x l IH]; intros s k p Hin; cbn [length seq combine In] in Hin; [contradiction|].
    destruct Hin as [E|Hin].
    - injection E as <- <-. rewrite Nat.sub_diag. split; [reflexivity|lia].
    - destruct (IH (S s) k p Hin) as [Hn Hle]. split; [|lia].
      replace (k - s)%nat with (S (k - S s)) by lia. exact Hn.
  Qed.

  (** the mutation influx of a step leaves the frozen population's interior marginal alone *)
  Lemma inject_preserves_frozen_marginal theta (phi : list R) :
    marginal_at shape grids f i (inject shape grids pops theta dt phi) = marginal_at shape grids f i phi.
  Proof.
    unfold inject.
    assert (Hin : forall k p, In (k, p) (combine (seq 0 d) pops) -> nth_error pops k = Some p /\ (k < d)%nat).
    { intros k p Hin. unfold wf_pops in Hwf. rewrite <- Hwf in Hin. destruct (in_combine_nth_error pops 0 k p Hin) as [Hn _].
      rewrite Nat.sub_0_r in Hn. split; [exact Hn|]. rewrite <- Hwf. apply nth_error_Some. congruence. }
    revert phi Hin. generalize (combine (seq 0 d) pops). intros l.
    induction l as [|[k p] l IH]; intros phi Hin; cbn [fold_left]; [reflexivity|].
    destruct (Hin k p (or_introl eq_refl)) as [Hn Hk].
    destruct (p_frozen p || p_nomut p) eqn:Efl.
    - apply IH. intros; apply Hin; right; assumption.
    - rewrite IH by (intros; apply Hin; right; assumption).
      apply marginal_add_at_unit; [exact Hk|]. intros ->. rewrite Hpf in Hn. injection Hn as <-. rewrite Hfrozen in Efl. discriminate.
  Qed.

  (** ... and so do the sweeps of all the non-frozen populations: the whole step *)
  Theorem step_preserves_frozen_marginal theta (phi : list R) :
    marginal_at shape grids f i (step shape grids pops theta dt dj phi) = marginal_at shape grids f i phi.
  Proof.
    unfold step. rewrite <- (inject_preserves_frozen_marginal theta phi).
    assert (Hin : forall k p, In (k, p) (combine (seq 0 d) pops) -> nth_error pops k = Some p /\ (k < d)%nat).
    { intros k p Hin. unfold wf_pops in Hwf. rewrite <- Hwf in Hin. destruct (in_combine_nth_error pops 0 k p Hin) as [Hn _].
      rewrite Nat.sub_0_r in Hn. split; [exact Hn|]. rewrite <- Hwf. apply nth_error_Some. congruence. }
    revert Hin. generalize (inject shape grids pops theta dt phi). generalize (combine (seq 0 d) pops). intros l.
    induction l as [|[k p] l IH]; intros acc Hin; cbn [fold_left]; [reflexivity|].
    destruct (Hin k p (or_introl eq_refl)) as [Hn Hk].
    destruct (p_frozen p) eqn:Efr.
    - apply IH. intros; apply Hin; right; assumption.
    - rewrite IH by (intros; apply Hin; right; assumption).
      assert (Hkf : f <> k) by (intros ->; rewrite Hpf in Hn; injection Hn as <-; congruence).
      destruct (Hgrids k Hk) as (Hg1 & Hg2 & Hg3).
      apply (sweep_preserves_marginal_of_other_population shape grids pops k f i p Hk Hf Hkf Hn Hg1 Hg2 Hg3 Hglen Hint dt Hdt dj).
      intros o q Ho Hq. apply (Hns k p o q acc Hn Ho Hq).
  Qed.
End FrozenStep.

(** the time step chosen by the rule is positive *)
Lemma dt_of_pos tf : 0 < tf -> forall (pops : list (@pop R)) x, dt_of tf pops = Some x -> 0 < x.
Proof.
  intros Htf. induction pops as [|p l IHl]; intros x Hx; [discriminate|].
  cbn [dt_of fold_right] in Hx. fold (dt_of tf l) in Hx.
  assert (Hcd : forall y, compute_dt tf p = Some y -> 0 < y).
  { intros y Hy. unfold compute_dt, nltb in Hy. numR. destruct (Rleb (maxVM p) 0) eqn:E; cbn [negb] in Hy; [discriminate|].
    apply Rleb_false in E. injection Hy as <-. apply Rdiv_lt_0_compat; assumption. }
  destruct (compute_dt tf p) as [y|] eqn:Ey, (dt_of tf l) as [z|] eqn:Ez; cbn [omin] in Hx; try discriminate.
  - injection Hx as <-. unfold nmin. numR. destruct (Rleb y z); [apply Hcd; reflexivity | apply IHl; reflexivity].
  - injection Hx as <-. apply Hcd; reflexivity.
  - injection Hx as <-. apply IHl; reflexivity.
Qed.

(** C04 for whole integrations: however long the integration and however the other populations evolve, a frozen
    population's marginal density at an interior frequency never changes (constant-parameter driver) *)
Theorem integrate_preserves_frozen_marginal shape grids pops f i pf dj tf :
  wf_pops shape pops -> length grids = length shape -> (forall n, In n shape -> (2 <= n)%nat) ->
  (forall k, (k < length shape)%nat ->
     length (nth k grids []) = ax_len shape k /\ (2 <= ax_len shape k)%nat /\
     (forall j, (j < length (nth k grids []) - 1)%nat -> 0 < dx (nth k grids []) j)) ->
  (f < length shape)%nat -> nth_error pops f = Some pf -> p_frozen pf = true -> i <> 0%nat ->
  nthF (nth f grids []) i <> 0 /\ nthF (nth f grids []) i <> 1 ->
  0 < tf -> (forall dt, 0 < dt -> nonsingular shape grids pops dj dt) ->
  forall fuel theta t T phi res,
  integrate_const fuel shape grids pops theta tf dj t T phi = Some res ->
  marginal_at shape grids f i res = marginal_at shape grids f i phi.
Proof.
  intros Hwf Hgl Hsh Hg Hf Hpf Hfr Hi0 Hint Htf Hns.
  induction fuel as [|fuel IH]; intros theta t T phi res Hres; cbn [integrate_const] in Hres;
    unfold nltb in Hres; numR.
  - destruct (Rleb T t); cbn [negb] in Hres; [injection Hres as <-; reflexivity | discriminate].
  - destruct (Rleb T t) eqn:ET; cbn [negb] in Hres; [injection Hres as <-; reflexivity|].
    apply Rleb_false in ET.
    set (this_dt := match dt_of tf pops with Some dt => nmin dt (T - t) | None => T - t end) in *.
    assert (Hd : 0 < this_dt).
    { unfold this_dt. destruct (dt_of tf pops) as [dt|] eqn:E; [|lra].
      pose proof (dt_of_pos tf Htf pops dt E). unfold nmin. numR. destruct (Rleb dt (T - t)); lra. }
    rewrite (IH _ _ _ _ _ Hres).
    apply (step_preserves_frozen_marginal shape grids pops Hwf Hgl Hsh Hg f i pf Hf Hpf Hfr Hi0 Hint this_dt); [lra|].
    apply Hns. exact Hd.
Qed.

(** ... and the time-dependent driver: sizes, selection, dominance, migration of the other populations and theta0
    may vary in time in any way; population f is frozen throughout *)
Theorem integrate_tdep_preserves_frozen_marginal shape grids popsf thetaf f i dj tf :
  (forall s, wf_pops shape (popsf s)) -> length grids = length shape -> (forall n, In n shape -> (2 <= n)%nat) ->
  (forall k, (k < length shape)%nat ->
     length (nth k grids []) = ax_len shape k /\ (2 <= ax_len shape k)%nat /\
     (forall j, (j < length (nth k grids []) - 1)%nat -> 0 < dx (nth k grids []) j)) ->
  (f < length shape)%nat -> (forall s, exists pf, nth_error (popsf s) f = Some pf /\ p_frozen pf = true) -> i <> 0%nat ->
  nthF (nth f grids []) i <> 0 /\ nthF (nth f grids []) i <> 1 ->
  0 < tf -> (forall s dt, 0 < dt -> nonsingular shape grids (popsf s) dj dt) ->
  forall fuel t T phi res,
  integrate_tdep fuel shape grids popsf thetaf tf dj t T phi = Some res ->
  marginal_at shape grids f i res = marginal_at shape grids f i phi.
Proof.
  intros Hwf Hgl Hsh Hg Hf Hpf Hi0 Hint Htf Hns.
  induction fuel as [|fuel IH]; intros t T phi res Hres; cbn [integrate_tdep] in Hres;
    unfold nltb in Hres; numR.
  - destruct (Rleb T t); cbn [negb] in Hres; [injection Hres as <-; reflexivity | discriminate].
  - destruct (Rleb T t) eqn:ET; cbn [negb] in Hres; [injection Hres as <-; reflexivity|].
    apply Rleb_false in ET.
    set (this_dt := match dt_of tf (popsf t) with Some dt => nmin dt (T - t) | None => T - t end) in *.
    assert (Hd : 0 < this_dt).
    { unfold this_dt. destruct (dt_of tf (popsf t)) as [dt|] eqn:E; [|lra].
      pose proof (dt_of_pos tf Htf (popsf t) dt E). unfold nmin. numR. destruct (Rleb dt (T - t)); lra. }
    rewrite (IH _ _ _ _ Hres).
    destruct (Hpf (t + this_dt)) as (pf & Hpf1 & Hpf2).
    apply (step_preserves_frozen_marginal shape grids (popsf (t + this_dt)) (Hwf _) Hgl Hsh Hg f i pf Hf Hpf1 Hpf2 Hi0 Hint this_dt); [lra|].
    apply Hns. exact Hd.
Qed.
