(** From "the optimiser stayed in the box it was handed" to "every free entry of the full vector is within the
    user's bounds", without and with the log transform. *)
From Coq Require Import ZArith Reals List Bool Lra Lia.
From Dadi Require Import Base.Num Base.NumR Model.Optim Proofs.OptimProject Proofs.OptimProofs.
Import ListNotations.
Local Open Scope R_scope.

Lemma ln_le' x y : 0 < x -> x <= y -> ln x <= ln y.
Proof. intros Hx H; destruct H as [Hlt|Heq]; [left; apply ln_increasing; auto | right; subst; reflexivity]. Qed.
Lemma exp_le' x y : x <= y -> exp x <= exp y.
Proof. intros H; destruct H as [Hlt|Heq]; [left; apply exp_increasing; auto | right; subst; reflexivity]. Qed.

Definition lo_holds (l : option R) (x : R) : Prop := match l with Some l => l <= x | None => True end.
Definition hi_holds (u : option R) (x : R) : Prop := match u with Some u => x <= u | None => True end.

(** entry i of [p] respects its bounds wherever position i is free *)
Fixpoint free_within (fx lb ub : list (option R)) (p : list R) : Prop :=
  match fx, lb, ub, p with
  | f :: fx', l :: lb', u :: ub', x :: p' =>
    (match f with None => lo_holds l x /\ hi_holds u x | Some _ => True end) /\ free_within fx' lb' ub' p'
  | _, _, _, _ => True
  end.

Lemma lo_ok_to_lo l x : lo_ok (to_lo l) x = true -> lo_holds l x.
Proof. destruct l; cbn; auto. numR. apply Rleb_true. Qed.
Lemma hi_ok_to_hi u x : hi_ok (to_hi u) x = true -> hi_holds u x.
Proof. destruct u; cbn; auto. numR. apply Rleb_true. Qed.

Lemma box_ok_cons l lo h hi x xs :
  box_ok (l :: lo) (h :: hi) (x :: xs) = true -> lo_ok l x = true /\ hi_ok h x = true /\ box_ok lo hi xs = true.
Proof. unfold box_ok. cbn. rewrite !andb_true_iff. tauto. Qed.

Lemma box_free_within fx : forall lb ub d,
  length lb = length fx -> length ub = length fx -> length d = nfree fx ->
  box_ok (map to_lo (down_aux lb fx)) (map to_hi (down_aux ub fx)) d = true ->
  free_within fx lb ub (up_aux 0 d fx).
Proof.
  induction fx as [|[v|] fx IH]; intros [|l lb] [|u ub] d Hl Hu Hd Hb; cbn in Hl, Hu; try discriminate; cbn; auto.
  all: try (split; auto; apply IH; auto; fail).
  unfold nfree in Hd; cbn in Hd. destruct d as [|x d]; cbn in Hd; try discriminate.
  cbn in Hb. apply box_ok_cons in Hb as (H1 & H2 & H3).
  split; [split; [apply lo_ok_to_lo | apply hi_ok_to_hi]; auto|].
  apply IH; auto.
Qed.

(** the log transform of a box with positive (or absent) bounds: staying in the transformed box means exp(x) stays
    in the original one.  An absent lower bound becomes log(-inf) = nan, an absent upper bound log(inf) = inf. *)
Definition pos_opt (b : option R) : Prop := match b with Some x => 0 < x | None => True end.

Lemma xlog_fin_pos x : 0 < x -> xlog (XFin x) = XFin (ln x).
Proof. intros Hx. unfold xlog, nltb. numR. rewrite (proj2 (Rleb_false x 0) Hx). reflexivity. Qed.

Lemma lo_ok_log l x : pos_opt l -> lo_ok (xlog (to_lo l)) x = true -> lo_ok (to_lo l) (exp x) = true.
Proof.
  destruct l as [l|]; intros Hl; cbn [to_lo]; [|intros _; reflexivity]. cbn in Hl.
  rewrite xlog_fin_pos by auto. cbn [lo_ok]. numR.
  rewrite !Rleb_true. intros H. rewrite <- (exp_ln l) by auto. apply exp_le'; auto.
Qed.
Lemma hi_ok_log u x : pos_opt u -> hi_ok (xlog (to_hi u)) x = true -> hi_ok (to_hi u) (exp x) = true.
Proof.
  destruct u as [u|]; intros Hu; cbn [to_hi]; [|intros _; reflexivity]. cbn in Hu.
  rewrite xlog_fin_pos by auto. cbn [hi_ok]. numR.
  rewrite !Rleb_true. intros H. rewrite <- (exp_ln u) by auto. apply exp_le'; auto.
Qed.

Lemma xlog_lo_fin_pos x : 0 < x -> xlog_lo (XFin x) = XFin (ln x).
Proof. intros Hx. unfold xlog_lo, nltb. numR. rewrite (proj2 (Rleb_false x 0) Hx). reflexivity. Qed.
Lemma lo_ok_log_lo l x : pos_opt l -> lo_ok (xlog_lo (to_lo l)) x = true -> lo_ok (to_lo l) (exp x) = true.
Proof.
  destruct l as [l|]; intros Hl; cbn [to_lo]; [|intros _; reflexivity]. cbn in Hl.
  rewrite xlog_lo_fin_pos by auto. cbn [lo_ok]. numR.
  rewrite !Rleb_true. intros H. rewrite <- (exp_ln l) by auto. apply exp_le'; auto.
Qed.
Lemma lo_ok_log_any (replb : bool) l x :
  pos_opt l -> lo_ok ((if replb then xlog_lo else xlog) (to_lo l)) x = true -> lo_ok (to_lo l) (exp x) = true.
Proof. destruct replb; [apply lo_ok_log_lo | apply lo_ok_log]. Qed.

Lemma box_log (replb : bool) lo : forall hi x,
  Forall pos_opt lo -> Forall pos_opt hi -> length lo = length x -> length hi = length x ->
  box_ok (map (if replb then xlog_lo else xlog) (map to_lo lo)) (map xlog (map to_hi hi)) x = true ->
  box_ok (map to_lo lo) (map to_hi hi) (map exp x) = true.
Proof.
  induction lo as [|l lo IH]; intros [|u hi] [|x xs] Hpl Hph Hl Hh Hb; cbn in Hl, Hh; try discriminate; auto.
  cbn in Hb. apply box_ok_cons in Hb as (H1 & H2 & H3). inversion Hpl; inversion Hph; subst.
  cbn. unfold box_ok. cbn. rewrite (lo_ok_log_any replb), hi_ok_log by auto. cbn.
  specialize (IH hi xs). unfold box_ok in IH. apply IH; auto.
Qed.

Lemma down_aux_Forall {A B} (P : B -> Prop) (p : list B) (fx : list (option A)) : Forall P p -> Forall P (down_aux p fx).
Proof.
  intros HP. revert fx. induction HP as [|x p Hx HP IH]; intros [|[v|] fx]; cbn; auto.
Qed.

Section Free.
  Variable ll_multinom ll_plain : list R -> option R.

  (** NLopt_mod.opt (any variant, log_opt off, or repaired with log_opt on and positive bounds): under the oracle
      contract every free entry of the returned vector is within the user's bounds *)
  Theorem opt_free_within repaired replb (O : optimiser R) p0 lower upper fx multinom lg w d0 :
    opt_gen ll_multinom ll_plain repaired replb O p0 lower upper (Some fx) multinom lg = Some w ->
    project_down p0 (Some fx) = Some d0 ->
    (lg = true -> repaired = true /\ positive d0 /\
                  Forall pos_opt (dflt_bounds lower (length p0)) /\ Forall pos_opt (dflt_bounds upper (length p0))) ->
    contract true (w_lo w) (w_hi w) (w_start w)
             (fun x => fst (opt_objective ll_multinom ll_plain multinom (Some fx) lg x)) (w_oracle w) ->
    free_within fx (dflt_bounds lower (length p0)) (dflt_bounds upper (length p0)) (w_x w).
  Proof.
    intros Hw Hd Hlg Hc.
    assert (Hlg' : lg = true -> repaired = true /\ positive d0) by (intros E; destruct (Hlg E) as (? & ? & _); auto).
    destruct (opt_gen_contract _ _ _ _ _ _ _ _ _ _ _ _ _ Hw Hd Hlg' Hc) as (_ & (xf & Hx & Hb & Hlen) & _).
    destruct (opt_gen_inv _ _ _ _ _ _ _ _ _ _ _ _ Hw) as (lo & hi & d0' & Hlo & Hhi & Hd' & Hrest).
    cbv zeta in Hrest. destruct Hrest as (Elo & Ehi & _).
    rewrite Hd in Hd'. injection Hd' as <-.
    pose proof (project_down_some_length _ _ _ Hlo) as Ll.
    pose proof (project_down_some_length _ _ _ Hhi) as Lu.
    pose proof (project_down_length _ _ _ Hd) as Ld. cbn in Ld.
    cbn in Hlo, Hhi. rewrite Ll, Nat.eqb_refl in Hlo. rewrite Lu, Nat.eqb_refl in Hhi.
    injection Hlo as <-. injection Hhi as <-.
    rewrite Hx. cbn [project_up]. rewrite Elo, Ehi in Hb.
    assert (Lxf : length xf = nfree fx) by congruence.
    destruct lg; cbn [tr].
    - destruct (Hlg eq_refl) as (_ & _ & Pl & Pu).
      apply box_free_within; auto; [rewrite map_length; auto|].
      apply (box_log replb); auto; try (apply down_aux_Forall; auto);
        rewrite down_aux_length by auto; auto.
    - apply box_free_within; auto.
  Qed.

  (** ... and so is every point at which the model is evaluated, whichever of the two bound lists the user gave (an absent
      list is a list of absent bounds): from the box part of the contract alone *)
  Theorem opt_evals_within repaired replb (O : optimiser R) p0 lower upper fx multinom lg w d0 :
    opt_gen ll_multinom ll_plain repaired replb O p0 lower upper (Some fx) multinom lg = Some w ->
    project_down p0 (Some fx) = Some d0 ->
    (lg = true -> Forall pos_opt (dflt_bounds lower (length p0)) /\ Forall pos_opt (dflt_bounds upper (length p0))) ->
    Forall (fun x => box_ok (w_lo w) (w_hi w) x = true /\ length x = length (w_start w)) (o_trace (w_oracle w)) ->
    Forall (free_within fx (dflt_bounds lower (length p0)) (dflt_bounds upper (length p0))) (w_evals w).
  Proof.
    intros Hw Hd Hlg Hbox.
    destruct (opt_gen_inv _ _ _ _ _ _ _ _ _ _ _ _ Hw) as (lo & hi & d0' & Hlo & Hhi & Hd' & Hrest).
    cbv zeta in Hrest. destruct Hrest as (Elo & Ehi & Est & Eor & _ & _ & Eev).
    rewrite Hd in Hd'. injection Hd' as <-.
    pose proof (project_down_some_length _ _ _ Hlo) as Ll.
    pose proof (project_down_some_length _ _ _ Hhi) as Lu.
    pose proof (project_down_length _ _ _ Hd) as Ld. cbn in Ld.
    cbn in Hlo, Hhi. rewrite Ll, Nat.eqb_refl in Hlo. rewrite Lu, Nat.eqb_refl in Hhi.
    injection Hlo as <-. injection Hhi as <-.
    rewrite Eev, <- Eor. apply Forall_forall. intros e He.
    apply in_flat_map in He as (x & Hx & He).
    rewrite Forall_forall in Hbox. destruct (Hbox x Hx) as [Hb Hl].
    rewrite opt_objective_spec in He. cbn [snd] in He. destruct He as [<-|[]].
    cbn [project_up]. rewrite Elo, Ehi in Hb.
    assert (Lx : length x = nfree fx).
    { rewrite Hl, Est. destruct lg; [rewrite map_length|]; exact Ld. }
    destruct lg; cbn [tr].
    - destruct (Hlg eq_refl) as (Pl & Pu).
      apply box_free_within; auto; [rewrite map_length; auto|].
      apply (box_log replb); auto; try (apply down_aux_Forall; auto);
        rewrite down_aux_length by auto; auto.
    - apply box_free_within; auto.
  Qed.
End Free.
